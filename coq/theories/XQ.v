(* XQ.v — the executable length instance used by the correspondence check: rationals extended with
   +-infinity and NaN (every finite f64 is a rational; the harness converts exactly), and the model of
   Rust's f64::from_str grammar.  MODEL FILE: definitions only. *)
From Coq Require Import QArith Qreduction Qabs.
From PT Require Export Gen.

Inductive xq := XF (q : Q) | XInf (neg : bool) | XNaN.

Definition q_is0 (q : Q) : bool := Z.eqb (Qnum q) 0.
Definition q_neg (q : Q) : bool := Z.ltb (Qnum q) 0.

Definition xq_add (a b : xq) : xq :=
  match a, b with
  | XNaN, _ | _, XNaN => XNaN
  | XF x, XF y => XF (Qred (x + y))
  | XInf s, XF _ | XF _, XInf s => XInf s
  | XInf s, XInf s' => if Bool.eqb s s' then XInf s else XNaN
  end.
Definition xq_opp (a : xq) : xq :=
  match a with XF x => XF (Qred (- x)) | XInf s => XInf (negb s) | XNaN => XNaN end.
Definition xq_sub (a b : xq) : xq := xq_add a (xq_opp b).
Definition xq_mul (a b : xq) : xq :=
  match a, b with
  | XNaN, _ | _, XNaN => XNaN
  | XF x, XF y => XF (Qred (x * y))
  | XInf s, XF y | XF y, XInf s => if q_is0 y then XNaN else XInf (xorb s (q_neg y))
  | XInf s, XInf s' => XInf (xorb s s')
  end.
Definition xq_div (a b : xq) : xq :=
  match a, b with
  | XNaN, _ | _, XNaN => XNaN
  | XF x, XF y => if q_is0 y then (if q_is0 x then XNaN else XInf (q_neg x)) else XF (Qred (x / y))
  | XF _, XInf _ => XF 0
  | XInf s, XF y => XInf (xorb s (q_neg y))
  | XInf _, XInf _ => XNaN
  end.
Definition xq_abs (a : xq) : xq :=
  match a with XF x => XF (Qred (Qabs x)) | XInf _ => XInf false | XNaN => XNaN end.
Definition q_ltb (x y : Q) : bool := Z.ltb (Qnum x * QDen y) (Qnum y * QDen x).
Definition q_eqb (x y : Q) : bool := Z.eqb (Qnum x * QDen y) (Qnum y * QDen x).
Definition xq_ltb (a b : xq) : bool :=
  match a, b with
  | XNaN, _ | _, XNaN => false
  | XF x, XF y => q_ltb x y
  | XInf s, XF _ => s
  | XF _, XInf s => negb s
  | XInf s, XInf s' => s && negb s'
  end.
Definition xq_eqb (a b : xq) : bool :=
  match a, b with
  | XF x, XF y => q_eqb x y
  | XInf s, XInf s' => Bool.eqb s s'
  | _, _ => false
  end.

Definition XQops : LenOps xq :=
  {| l0 := XF 0; l1 := XF 1; ladd := xq_add; lsub := xq_sub; lmul := xq_mul; ldiv := xq_div;
     labs := xq_abs; lltb := xq_ltb; leqb := xq_eqb; lofnat := fun n => XF (inject_Z (Z.of_nat n));
     linf := XInf false |}.

(* ---- f64::from_str ------------------------------------------------------------------------------------
   Float ::= Sign? ( 'inf' | 'infinity' | 'nan' | Number )      (case-insensitive)
   Number ::= ( Digit+ | Digit+ '.' Digit* | Digit* '.' Digit+ ) Exp?       Exp ::= [eE] Sign? Digit+       *)
Definition lower (c : N) : N := if ((65 <=? c) && (c <=? 90))%N then (c + 32)%N else c.
Definition is_digit (c : N) : bool := ((48 <=? c) && (c <=? 57))%N.

Fixpoint take_digits (s : str) (acc : list N) : list N * str :=
  match s with
  | c :: r => if is_digit c then take_digits r (c :: acc) else (rev acc, s)
  | [] => (rev acc, [])
  end.
Definition digits_to_N (ds : list N) : N := fold_left (fun acc d => (acc * 10 + (d - 48))%N) ds 0%N.

Definition pow10 (e : N) : Z := Z.pow 10 (Z.of_N e).

Definition parse_number (s : str) : option Q :=
  let '(ip, r1) := take_digits s [] in
  let '(fp, r2, dot) := match r1 with
                        | c :: r => if (c =? 46)%N then let '(f, r') := take_digits r [] in (f, r', true) else ([], r1, false)
                        | [] => ([], [], false)
                        end in
  match ip, fp with
  | [], [] => None
  | _, _ =>
      let mant := Z.of_N (digits_to_N (ip ++ fp)) in
      let fl := N.of_nat (length fp) in
      let finish (eneg : bool) (e : N) : option Q :=
          (* value = mant * 10^(e') with e' = (+-e) - fl; huge exponents are clamped (f64 would give 0 / inf) *)
          let ez := ((if eneg then - Z.of_N e else Z.of_N e) - Z.of_N fl)%Z in
          if (5000 <? ez)%Z then Some (if (mant =? 0)%Z then 0 else (Qmake (Z.pow 10 5000) 1))
          else if (ez <? -5000)%Z then Some 0
          else if (0 <=? ez)%Z then Some (Qred (Qmake (mant * Z.pow 10 ez) 1))
          else Some (Qred (Qmake mant (Z.to_pos (Z.pow 10 (- ez))))) in
      match r2 with
      | [] => finish false 0%N
      | c :: r =>
          if (lower c =? 101)%N then
            let '(neg, r') := match r with
                              | x :: r'' => if (x =? 45)%N then (true, r'') else if (x =? 43)%N then (false, r'') else (false, r)
                              | [] => (false, [])
                              end in
            let '(ed, r3) := take_digits r' [] in
            match ed, r3 with
            | _ :: _, [] => finish neg (digits_to_N ed)
            | _, _ => None
            end
          else None
      end
  end.

Definition str_lower_eqb (s : str) (w : list N) : bool := list_eqb N.eqb (map lower s) w.

Definition parse_f64 (s : str) : option xq :=
  let '(neg, body) := match s with
                      | c :: r => if (c =? 45)%N then (true, r) else if (c =? 43)%N then (false, r) else (false, s)
                      | [] => (false, [])
                      end in
  if str_lower_eqb body [105; 110; 102]%N || str_lower_eqb body [105; 110; 102; 105; 110; 105; 116; 121]%N
  then Some (XInf neg)
  else if str_lower_eqb body [110; 97; 110]%N then Some XNaN
  else match parse_number body with
       | Some q => Some (XF (if neg then Qred (- q) else q))
       | None => None
       end.

(* ---- exact decimal printing of dyadic rationals (used to make text round trips executable in the model;
   Rust prints the shortest round-tripping decimal instead: both parse back to the same value) ---------- *)
Local Close Scope Q_scope.
Definition dec_of_N (n : N) : str := dec_digits (S (N.to_nat (N.size n))) n [].

(* smallest k with den | 10^k (exists iff the value has a finite decimal expansion) *)
Fixpoint find_k (fuel : nat) (den : N) (k : nat) (p10 : N) : option (nat * N) :=
  match fuel with
  | 0 => None
  | S f => if (p10 mod den =? 0)%N then Some (k, p10) else find_k f den (S k) (p10 * 10)%N
  end.

Definition q_print (q : Q) : str :=
  let q := Qred q in
  let den := Npos (Qden q) in
  match find_k (S (N.to_nat (N.size den))) den 0 1%N with
  | None => [63]%N      (* no finite decimal expansion: not a printable value *)
  | Some (k, p10) =>
      let m := (Z.abs_N (Qnum q) * (p10 / den))%N in
      let ds := dec_of_N m in
      let ds := repeat 48%N (S k - length ds) ++ ds in
      let ip := firstn (length ds - k) ds in
      let fp := skipn (length ds - k) ds in
      (if (Qnum q <? 0)%Z then [45]%N else []) ++ ip ++ (match fp with [] => [] | _ => 46%N :: fp end)
  end.

Definition xq_print (x : xq) : str :=
  match x with
  | XF q => q_print q
  | XInf false => [105; 110; 102]%N
  | XInf true => [45; 105; 110; 102]%N
  | XNaN => [78; 97; 78]%N
  end.

Fixpoint flatten_r (r : @rstr xq) : str :=
  match r with
  | [] => []
  | C c :: t => c :: flatten_r t
  | Lv l :: t => xq_print l ++ flatten_r t
  end.
