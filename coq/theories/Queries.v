(* Queries.v — length-aware queries, bipartitions, tree comparison, distance matrices.
   MODEL FILE: definitions only. *)
From PT Require Export Arena.

Section QueriesDefs.
Context {L : Type}.
Variable O : LenOps L.
Notation node := (@node L).
Notation arena := (@arena L).

(* --- distances between nodes ------------------------------------------------------------------ *)
Definition get_distance (t : arena) (s d : nat) : outcome (option L * nat) :=
  if Nat.eqb s d then Ok (Some (l0 O), 0) else
  ps <- get_path_from_root t s ;;
  pd <- get_path_from_root t d ;;
  let cursor := first_diff ps pd 0 in
  '(dist, all, br) <-
     foldM (fun (st : L * bool * nat) id =>
              let '(dist, all, br) := st in
              n <- get t id ;;
              match npedge n with
              | Some e => Ok (ladd O dist e, all, S br)
              | None => Ok (dist, false, S br)
              end)
           (skipn cursor ps ++ skipn cursor pd) (l0 O, true, 0) ;;
  Ok (if all then Some dist else None, br).

(* Iterator::max_by(partial_cmp): the last maximal element *)
Definition lmax_list (l : list L) : option L :=
  match l with
  | [] => None
  | x :: t => Some (fold_left (fun acc y => if lltb O y acc then acc else y) t x)
  end.

Definition dist_or_edges (r : outcome (option L * nat)) : outcome L :=
  match r with
  | Ok (Some h, _) => Ok h
  | Ok (None, k) => Ok (lofnat O k)
  | _ => Panic 5      (* get_distance(..).unwrap() *)
  end.

Definition height (t : arena) : outcome L :=
  r <- is_rooted t ;;
  if negb r then Err IsNotRooted else
  root <- get_root t ;;
  hs <- mapM (fun leaf => dist_or_edges (get_distance t root leaf)) (get_leaves t) ;;
  match lmax_list hs with Some h => Ok h | None => Err IsEmpty end.

Definition diameter (t : arena) : outcome L :=
  hs <- mapM (fun p => dist_or_edges (get_distance t (fst p) (snd p))) (pairs (get_leaves t)) ;;
  match lmax_list hs with Some h => Ok h | None => Err IsEmpty end.

Definition length_ (t : arena) : outcome L :=
  let es := map (@npedge L) (filter (fun n => negb (is_root n)) t) in
  if forallb (fun o => match o with Some _ => true | None => false end) es
  then Ok (fold_left (fun acc o => match o with Some e => ladd O acc e | None => acc end) es (l0 O))
  else Err MissingBranchLengths.

(* --- bipartitions ------------------------------------------------------------------------------ *)
Definition bits := list bool.
Definition bits_eqb (a b : bits) : bool := list_eqb Bool.eqb a b.
Definition count_ones (b : bits) : nat := length (filter (fun x => x) b).
Definition compl (b : bits) : bits := map negb b.
Fixpoint set_bit (b : bits) (i : nat) : bits :=
  match b, i with
  | [], _ => []
  | _ :: t, 0 => true :: t
  | h :: t, S k => h :: set_bit t k
  end.
(* value of one 32-bit block, bit i weighted 2^i *)
Fixpoint block_val (b : bits) : N :=
  match b with
  | [] => 0%N
  | h :: t => ((if h then 1 else 0) + 2 * block_val t)%N
  end.
(* FixedBitSet's derived Ord: Vec<u32> blocks lexicographically (lengths are equal here) *)
Fixpoint fbs_ltb_f (fuel : nat) (a b : bits) : bool :=
  match fuel with
  | 0 => false
  | S f =>
      match a, b with
      | [], _ => false
      | _, [] => false
      | _, _ =>
          let va := block_val (firstn 32 a) in
          let vb := block_val (firstn 32 b) in
          if N.ltb va vb then true
          else if N.ltb vb va then false
          else fbs_ltb_f f (skipn 32 a) (skipn 32 b)
      end
  end.
Definition fbs_ltb (a b : bits) : bool := fbs_ltb_f (S (length a)) a b.
(* toggled.min(bitset): Ord::min returns the receiver unless the argument is strictly smaller *)
Definition canon (b : bits) : bits := if fbs_ltb b (compl b) then b else compl b.

Definition pmap := list (bits * (nat * option L)).

Record tree := mkTree {
  nodes : arena;
  leaf_index : option (list str);
  partitions : option pmap;
}.
Definition tree_of (a : arena) : tree := mkTree a None None.
Definition with_nodes (t : tree) (a : arena) : tree := mkTree a (leaf_index t) (partitions t).
Definition reset_bipartition_cache (t : tree) : tree := mkTree (nodes t) None None.

Definition init_leaf_index (t : tree) : outcome tree :=
  match nodes t with
  | [] => Err IsEmpty
  | _ =>
      match leaf_index t with
      | Some _ => Ok t
      | None =>
          names <- get_leaf_names (nodes t) ;;
          if negb (Nat.eqb (length names) (n_leaves (nodes t))) then Err UnnamedLeaves else
          u <- has_unique_tip_names (nodes t) ;;
          if negb u then Err DuplicateLeafNames else
          let ns := flat_map (fun o => match o with Some x => [x] | None => [] end) names in
          Ok (mkTree (nodes t) (Some (stable_sort str_leb ns)) (partitions t))
      end
  end.

Definition find_str (x : str) (l : list str) : option nat := find_index (str_eqb x) l.

Definition get_partition (t : tree) (index : nat) : outcome (bits * tree) :=
  t1 <- init_leaf_index t ;;
  sl <- get_subtree_leaves (nodes t1) index ;;
  match leaf_index t1 with
  | None => Panic 6
  | Some li =>
      let n := n_leaves (nodes t1) in
      idx <- mapM (fun i => match get (nodes t1) i with
                            | Ok nd => match nname nd with
                                       | Some nm => match find_str nm li with
                                                    | Some k => Ok [k]
                                                    | None => Panic 7
                                                    end
                                       | None => Ok []
                                       end
                            | _ => Panic 8
                            end) sl ;;
      let idx := concat idx in
      if existsb (fun k => Nat.leb n k) idx then Panic 9 (* FixedBitSet::insert out of bounds *) else
      let b := fold_left set_bit idx (repeat false n) in
      Ok (canon b, t1)
  end.

Definition leaves_of_bits (li : list str) (b : bits) : outcome str :=
  (* partition.ones().map(|i| v[i].clone()).collect::<String>() *)
  foldM (fun acc (p : nat * bool) =>
           if snd p then match nth_error li (fst p) with
                         | Some s => Ok (acc ++ s)
                         | None => Err IndexError    (* fix F14: foreign bitset -> error *)
                         end
           else Ok acc)
        (combine (seq 0 (length b)) b) [].

Definition partition_to_leaves (t : tree) (b : bits) : outcome (str * tree) :=
  t1 <- init_leaf_index t ;;
  match leaf_index t1 with
  | None => Panic 10
  | Some li => s <- leaves_of_bits li b ;; Ok (s, t1)
  end.

Fixpoint pmap_get (m : pmap) (k : bits) : option (nat * option L) :=
  match m with
  | [] => None
  | (k', v) :: r => if bits_eqb k k' then Some v else pmap_get r k
  end.
Fixpoint pmap_set (m : pmap) (k : bits) (v : nat * option L) : pmap :=
  match m with
  | [] => [(k, v)]
  | (k', v') :: r => if bits_eqb k k' then (k, v) :: r else (k', v') :: pmap_set r k v
  end.

Definition init_partitions (t : tree) : outcome tree :=
  t1 <- init_leaf_index t ;;
  match partitions t1 with
  | Some _ => Ok t1
  | None =>
      let cands := filter (fun n => negb (ndeleted n || is_root n || is_tip n)) (nodes t1) in
      '(m, t2) <- foldM (fun (st : pmap * tree) (n : node) =>
                let '(m, tc) := st in
                '(part, tc') <- get_partition tc (nid n) ;;
                let c := count_ones part in
                (* fix F5: both sides of a reported split hold at least two leaves *)
                if Nat.ltb c 2 || Nat.ltb (length part) (c + 2) then Ok (m, tc') else
                let len := match npedge n, pmap_get m part with
                           | None, None => None
                           | Some nl, Some (_, ol) => option_map (fun v => ladd O v nl) ol
                           | Some nl, None => Some nl
                           | None, Some (_, ol) => None        (* fix F7: a missing length stays missing *)
                           end in
                Ok (pmap_set m part (ndepth n, len), tc'))
             cands ([], t1) ;;
      Ok (mkTree (nodes t2) (leaf_index t2) (Some m))
  end.

Definition get_partitions (t : tree) : outcome (list bits * tree) :=
  t1 <- init_leaf_index t ;;
  t2 <- init_partitions t1 ;;
  match partitions t2 with
  | Some m => Ok (map fst m, t2)
  | None => Panic 11
  end.

Definition get_partitions_with_lengths (t : tree) : outcome (list (bits * (nat * L)) * tree) :=
  t1 <- init_leaf_index t ;;
  t2 <- init_partitions t1 ;;
  match partitions t2 with
  | Some m =>
      r <- mapM (fun (e : bits * (nat * option L)) =>
                   match snd (snd e) with
                   | Some l => Ok (fst e, (fst (snd e), l))
                   | None => Err MissingBranchLengths
                   end) m ;;
      Ok (r, t2)
  | None => Panic 12
  end.

(* --- comparisons -------------------------------------------------------------------------------- *)
Definition mem_bits (b : bits) (l : list bits) : bool := existsb (bits_eqb b) l.
Definition subset_bits (a b : list bits) : bool := forallb (fun x => mem_bits x b) a.

Definition root_parts (t : tree) : outcome (list bits * tree) :=
  r <- get_root (nodes t) ;;
  rn <- get (nodes t) r ;;
  foldM (fun (st : list bits * tree) c =>
           '(p, t') <- get_partition (snd st) c ;; Ok (fst st ++ [p], t'))
        (nchildren rn) ([], t).

Definition ostrs_eqb (a b : option (list str)) : bool :=
  match a, b with
  | None, None => true
  | Some x, Some y => list_eqb str_eqb x y
  | _, _ => false
  end.

(* returns the rf value and both (cache-filled) trees *)
Definition robinson_foulds (s o : tree) : outcome (nat * tree * tree) :=
  '(ps, s1) <- get_partitions s ;;
  '(po, o1) <- get_partitions o ;;
  if negb (ostrs_eqb (leaf_index s1) (leaf_index o1)) then Err DifferentTipIndices else
  '(rs, s2) <- root_parts s1 ;;
  '(ro, o2) <- root_parts o1 ;;
  let same_root := subset_bits rs ro && subset_bits ro rs in
  let i := length (filter (fun b => mem_bits b ps) po) in
  let rf := length po + length ps - 2 * i in
  sr <- is_rooted (nodes s2) ;;
  (* fix F6: the correction applies only when both trees are rooted *)
  or <- (if sr then is_rooted (nodes o2) else Ok false) ;;
  if sr && or && negb (Nat.eqb rf 0) && negb same_root then Ok (rf + 2, s2, o2) else Ok (rf, s2, o2).

(* normalised RF: returned as the pair (rf, total) — the quotient is taken by the comparator *)
Definition robinson_foulds_norm (s o : tree) : outcome (nat * nat * tree * tree) :=
  '(rf, s1, o1) <- robinson_foulds s o ;;
  '(ps, s2) <- get_partitions s1 ;;
  '(po, o2) <- get_partitions o1 ;;
  Ok (rf, length po + length ps, s2, o2).

Fixpoint plen_get (m : list (bits * (nat * L))) (k : bits) : option (nat * L) :=
  match m with
  | [] => None
  | (k', v) :: r => if bits_eqb k k' then Some v else plen_get r k
  end.

(* weighted RF; [sq] selects |x| (false) or x^2 (true): khuner_felsenstein returns sqrt of the latter,
   the model returns the radicand *)
Definition wrf_sum (sq : bool) (ps po : list (bits * (nat * L))) : L :=
  let f := fun x => if sq then lmul O x x else labs O x in
  let g := fun x => if sq then lmul O x x else x in
  let d1 := fold_left (fun acc (e : bits * (nat * L)) =>
                         match plen_get po (fst e) with
                         | Some (_, lo) => ladd O acc (f (lsub O (snd (snd e)) lo))
                         | None => ladd O acc (g (snd (snd e)))
                         end) ps (l0 O) in
  fold_left (fun acc (e : bits * (nat * L)) =>
               match plen_get ps (fst e) with
               | Some _ => acc
               | None => ladd O acc (g (snd (snd e)))
               end) po d1.

Definition weighted_rf (sq : bool) (s o : tree) : outcome (L * tree * tree) :=
  '(ps, s1) <- get_partitions_with_lengths s ;;
  '(po, o1) <- get_partitions_with_lengths o ;;
  Ok (wrf_sum sq ps po, s1, o1).

Record comparison := mkCmp { c_rf : nat; c_tot : nat; c_wrf : L; c_kf2 : L }.

Definition compare_topologies (s o : tree) : outcome (comparison * tree * tree) :=
  '(ps, s1) <- get_partitions_with_lengths s ;;
  '(po, o1) <- get_partitions_with_lengths o ;;
  let tot := length po + length ps in
  let inter := length (filter (fun e : bits * (nat * L) => match plen_get po (fst e) with Some _ => true | None => false end) ps) in
  let rf := tot - 2 * inter in
  '(rs, s2) <- root_parts s1 ;;
  '(ro, o2) <- root_parts o1 ;;
  let same_root := subset_bits rs ro && subset_bits ro rs in
  sr <- is_rooted (nodes s2) ;;
  or <- (if sr then is_rooted (nodes o2) else Ok false) ;;
  let rf' := if sr && or && negb (Nat.eqb rf 0) && negb same_root then rf + 2 else rf in
  Ok (mkCmp rf' tot (wrf_sum false ps po) (wrf_sum true ps po), s2, o2).

Definition terminal_branches (t : arena) : outcome (list (str * (nat * option L))) :=
  u <- has_unique_tip_names t ;;
  if negb u then Err DuplicateLeafNames else
  mapM (fun i => match get t i with
                 | Ok n => match nname n with
                           | Some nm => Ok (nm, (ndepth n, npedge n))
                           | None => Panic 13
                           end
                 | _ => Panic 14
                 end) (get_leaves t).

Definition edge_cmp := (list (nat * L) * list (nat * L) * list ((nat * L) * (nat * L)))%type.

Fixpoint assoc_str {A} (m : list (str * A)) (k : str) : option A :=
  match m with
  | [] => None
  | (k', v) :: r => if str_eqb k k' then Some v else assoc_str r k
  end.

Definition compare_branch_lengths (s o : tree) (tips : bool) : outcome (edge_cmp * tree * tree) :=
  '(ps, s1) <- get_partitions_with_lengths s ;;
  '(po, o1) <- get_partitions_with_lengths o ;;
  let common := flat_map (fun e : bits * (nat * L) => match plen_get po (fst e) with Some v => [(snd e, v)] | None => [] end) ps in
  let selfb := flat_map (fun e : bits * (nat * L) => match plen_get po (fst e) with Some _ => [] | None => [snd e] end) ps in
  let otherb := flat_map (fun e : bits * (nat * L) => match plen_get ps (fst e) with Some _ => [] | None => [snd e] end) po in
  if negb tips then Ok ((selfb, otherb, common), s1, o1) else
  st <- terminal_branches (nodes s1) ;;
  ot <- terminal_branches (nodes o1) ;;
  (* any missing terminal length met by the loops -> MissingBranchLengths *)
  r1 <- foldM (fun (acc : edge_cmp) (e : str * (nat * option L)) =>
                 let '(sb, ob, cb) := acc in
                 match snd (snd e) with
                 | None => Err MissingBranchLengths
                 | Some ls =>
                     match assoc_str ot (fst e) with
                     | Some (d2, lo) =>
                         match lo with
                         | None => Err MissingBranchLengths
                         | Some lo' => Ok (sb, ob, cb ++ [((fst (snd e), ls), (d2, lo'))])
                         end
                     | None => Ok (sb ++ [(fst (snd e), ls)], ob, cb)
                     end
                 end) st (selfb, otherb, common) ;;
  r2 <- foldM (fun (acc : edge_cmp) (e : str * (nat * option L)) =>
                 let '(sb, ob, cb) := acc in
                 match assoc_str st (fst e) with
                 | Some _ => Ok acc
                 | None => match snd (snd e) with
                           | None => Err MissingBranchLengths
                           | Some lo => Ok (sb, ob ++ [(fst (snd e), lo)], cb)
                           end
                 end) ot r1 ;;
  Ok (r2, s1, o1).

(* --- distance matrices ---------------------------------------------------------------------------- *)
Record dmat := mkDmat { msize : nat; mtaxa : list str; mcells : list L }.

Definition tril_idx (i j : nat) : nat :=
  let '(i, j) := if Nat.ltb j i then (i, j) else (j, i) in
  ((i - 1) * i) / 2 + j.

Fixpoint add_at (l : list L) (k : nat) (v : L) : list L :=
  match l, k with
  | [], _ => []
  | h :: t, 0 => ladd O h v :: t
  | h :: t, S k' => h :: add_at t k' v
  end.

Definition cache := list (nat * L).   (* VecMap: ascending key order *)
Fixpoint caches_get (cs : list (nat * cache)) (i : nat) : option cache :=
  match cs with
  | [] => None
  | (k, c) :: r => if Nat.eqb k i then Some c else caches_get r i
  end.

Definition distance_matrix (t : arena) : outcome dmat :=
  let leaf_order := stable_sort (fun a b =>
      match get t a, get t b with
      | Ok na, Ok nb => ostr_leb (nname na) (nname nb)
      | _, _ => true
      end) (get_leaves t) in
  let n := n_leaves t in
  (* fix F11: empty / unnamed leaves are reported before any arithmetic *)
  if Nat.eqb n 0 then Err IsEmpty else
  names <- mapM (fun i => match get t i with
                          | Ok nd => match nname nd with Some x => Ok x | None => Err UnnamedLeaves end
                          | _ => Panic 15 end) leaf_order ;;
  let vec0 := repeat (l0 O) (n * (n - 1) / 2) in
  root <- get_root t ;;
  lo <- levelorder t root ;;
  '(vec, _) <- foldM (fun (st : list L * list (nat * cache)) cur =>
      let '(vec, caches) := st in
      p <- get t cur ;;
      let nc0 : cache := if is_tip p then [(cur, l0 O)] else [] in
      nc <- foldM (fun (nc : cache) ch =>
                     c <- get t ch ;;
                     let clen := match npedge c with Some e => e | None => l1 O end in
                     match caches_get caches ch with
                     | None => Err MissingBranchLengths
                     | Some cc => Ok (fold_left (fun acc (kv : nat * L) => edge_insert acc (fst kv) (ladd O clen (snd kv))) cc nc)
                     end) (nchildren p) nc0 ;;
      vec' <- foldM (fun (vec : list L) (pr : nat * nat) =>
                     _ <- get t (fst pr) ;;
                     _ <- get t (snd pr) ;;
                     match caches_get caches (fst pr), caches_get caches (snd pr) with
                     | Some c1, Some c2 =>
                         foldM (fun (vec : list L) (lf : nat * nat) =>
                                  match edge_get nc (fst lf), edge_get nc (snd lf) with
                                  | Some d1, Some d2 =>
                                      match index_of (fst lf) leaf_order, index_of (snd lf) leaf_order with
                                      | Some i, Some j => Ok (add_at vec (tril_idx i j) (ladd O d1 d2))
                                      | _, _ => Err NodeNotFound
                                      end
                                  | _, _ => Panic 16
                                  end)
                               (list_prod (map fst c1) (map fst c2)) vec
                     | _, _ => Err MissingBranchLengths
                     end) (pairs (nchildren p)) vec ;;
      Ok (vec', (cur, nc) :: caches))
    (rev lo) (vec0, []) ;;
  Ok (mkDmat (length names) names vec).

Fixpoint replace_at (l : list L) (k : nat) (v : L) : list L :=
  match l, k with
  | [], _ => []
  | _ :: t, 0 => v :: t
  | h :: t, S k' => h :: replace_at t k' v
  end.

(* undirected DFS from a tip; [lens] is the row of the per-tip table (by node id) *)
Fixpoint dmr_impl (fuel : nat) (t : arena) (cur : nat) (prev : option nat) (lens : list L) (cl : L)
  : outcome (list L) :=
  match fuel with
  | 0 => OutOfFuel
  | S f =>
      n <- get t cur ;;
      if (match prev with Some _ => true | None => false end) && is_tip n
      then Ok (replace_at lens cur cl)
      else
        nb <- mapM (fun i => match get t i with Ok c => Ok (i, npedge c) | _ => Panic 17 end) (nchildren n) ;;
        let nb := nb ++ match nparent n with Some p => [(p, npedge n)] | None => [] end in
        foldM (fun (lens : list L) (x : nat * option L) =>
                 if onat_eqb (Some (fst x)) prev then Ok lens else
                 match snd x with
                 | Some bl => dmr_impl f t (fst x) (Some cur) lens (ladd O cl bl)
                 | None => Err MissingBranchLengths
                 end) nb lens
  end.

Fixpoint rows_get (cs : list (nat * list L)) (i : nat) : option (list L) :=
  match cs with
  | [] => None
  | (k, c) :: r => if Nat.eqb k i then Some c else rows_get r i
  end.

Definition distance_matrix_recursive (t : tree) : outcome (dmat * tree) :=
  let a := nodes t in
  let size := length a in
  let n := n_leaves a in
  t1 <- init_leaf_index t ;;
  match leaf_index t1 with
  | None => Panic 18
  | Some taxa =>
      if negb (Nat.eqb (length taxa) n) then Err TMatrixError else
      rows <- mapM (fun tip => r <- dmr_impl (S (S size)) a tip None (repeat (linf O) size) (l0 O) ;; Ok (tip, r))
                   (get_leaves a) ;;
      cells <- foldM (fun (cells : list L) (pr : nat * nat) =>
                 let d := match rows_get rows (fst pr) with
                          | Some row => nth (snd pr) row (linf O)
                          | None => linf O end in
                 n1 <- get a (fst pr) ;; n2 <- get a (snd pr) ;;
                 match nname n1, nname n2 with
                 | Some a1, Some a2 =>
                     if str_eqb a1 a2 then Panic 19 else
                     match find_str a1 taxa, find_str a2 taxa with
                     | Some i, Some j => Ok (replace_at cells (tril_idx i j) d)
                     | _, _ => Err TMatrixError
                     end
                 | _, _ => Panic 20
                 end) (pairs (get_leaves a)) (repeat (l0 O) (n * (n - 1) / 2)) ;;
      Ok (mkDmat n taxa cells, t1)
  end.

End QueriesDefs.
