(* Script.v — interpreter of case scripts over the model (the same scripts the Rust harness executes
   on the real crate) and rendering of observations as token lists.  MODEL FILE: definitions only. *)
From PT Require Export XQ Cli.

Definition Lx := xq.
Notation O := XQops.
Notation tree := (@tree xq).
Notation arena := (@arena xq).
Notation dmat := (@dmat xq).
Notation node := (@node xq).

Inductive kw := Ksize | Kbar | KX | Klbrace | Krbrace | Ksemi | Klbrack | Krbrack | Ktaxa | Kcells
              | Kbranches | Knodes.

Inductive tok :=
  | TK (k : kw)
  | TNat (n : nat)
  | TNone
  | TStr (s : str)
  | TLen (l : xq)
  | TBits (b : bits)
  | TRs (r : @rstr xq)
  | TBig (n : N).

Inductive res := ROk (l : list tok) | RErr (e : err) | RPanic (s : nat) | RFuel | RInvalid.

Inductive op :=
  | OSel (k : nat) | ONew | OAdd (name comment : option str)
  | OAddChild (p : nat) (name : option str) (len : option xq) (comment : option str)
  | OParse (s : str)
  | OGenEte3 (n : nat) (brl : bool) (parents : list nat) (lens : list xq)
  | OGenYule (n : nat) (brl : bool) (parents : list nat) (lens : list xq)
  | OGenCat (n : nat) (brl : bool) (lens : list xq)
  | OUpgma | OPrune (i : nat) | OCompress | OResolve (choices : list (nat * nat)) | OLadderize
  | ORescale (f : xq) | OMerge (a b : nat) (e1 e2 pe : option xq) (name : option str)
  | OResetDepths | OResetCache | ODump
  | OSize | ONLeaves | OGetRoot | OGetLeaves | OGetLeafNames | OIsBinary | OIsRooted | OUniqueTips
  | OHeight | ODiameter | OLength | OCherries | OColless | OSackin | OCollessN | OSackinN
  | OPre (i : nat) | OPost (i : nat) | OIn (i : nat) | OLevel (i : nat) | OSubtree (i : nat)
  | ODesc (i : nat) | OSubLeaves (i : nat) | OPath (i : nat) | OLca (a b : nat) | ODist (a b : nat)
  | OGet (i : nat) | OGetByName (s : str) | OSearch (kind : nat) (arg : option str)
  | OPartitions | OP2L (b : bits) | ORf (k : nat) | ORfNorm (k : nat) | OWrf (k : nat) | OKf (k : nat)
  | OCmpTopo (k : nat) | OCmpBranch (k : nat) (tips : bool) | ODm | ODmr | ODmStore
  | OToNewick | OToFmt (f : nformat) | OToNexus | OLayout | ORtNewick | ORtFmt (f : nformat) | OReparse (k : nat)
  | OSetName (i : nat) (nm : str) | ORenameByName (old nm : str) | OSetPedge (i : nat) (e : option xq)
  | OCliCollapse (thr : xq) (excl : bool) | OCliRemove (tips : list str)
  | OTril (n i j : nat) | ORowvec (n k : nat) | OTrilN (i j : N) | ORowvecN (k : N)
  | OMSel (k : nat) | OMNew (taxa : list str) (vals : list xq) | OMWithSize (n : nat)
  | OMSetTaxa (taxa : list str) | OMGet (a b : str) | OMSet (a b : str) (v : xq) | OMTaxaIndex (a : str)
  | OMIter | OMIndexed | OMToMap | OMMin | OMMax | OMPhylip (sq : bool)
  | OMFromStrict (text : str) (sq : bool) | OMFromTril (text : str) | OMRt (tril sq : bool) | OMDump.

Record st := mkSt { trees : list tree; cur : nat; mats : list dmat; mcur : nat }.
Definition empty_tree : tree := tree_of [].
Definition empty_mat : dmat := mkDmat 0 [] [].
Definition st0 : st := mkSt [empty_tree] 0 [empty_mat] 0.

Definition cur_tree (s : st) : tree := nth (cur s) (trees s) empty_tree.
Definition tree_at (s : st) (k : nat) : tree := nth k (trees s) empty_tree.
Definition set_tree_at (s : st) (k : nat) (t : tree) : st :=
  mkSt (replace_nth k t (trees s)) (cur s) (mats s) (mcur s).
Definition set_cur_tree (s : st) (t : tree) : st := set_tree_at s (cur s) t.
(* every mutable access to the tree invalidates the cached leaf index and bipartitions (fix F15) *)
Definition set_cur_arena (s : st) (a : arena) : st := set_cur_tree s (tree_of a).
Definition cur_mat (s : st) : dmat := nth (mcur s) (mats s) empty_mat.
Definition set_cur_mat (s : st) (m : dmat) : st :=
  mkSt (trees s) (cur s) (replace_nth (mcur s) m (mats s)) (mcur s).

Definition res_of {A} (o : outcome A) (f : A -> list tok) : res :=
  match o with
  | Ok a => ROk (f a)
  | Err e => RErr e
  | Panic x => RPanic x
  | OutOfFuel => RFuel
  end.

Definition t_ids (l : list nat) : list tok := [TK Klbrack] ++ map TNat l ++ [TK Krbrack].
Definition t_ostr (o : option str) : tok := match o with Some s => TStr s | None => TNone end.
Definition t_olen (o : option xq) : tok := match o with Some l => TLen l | None => TNone end.
Definition t_onat (o : option nat) : tok := match o with Some n => TNat n | None => TNone end.
Definition t_bool (b : bool) : tok := TNat (if b then 1 else 0).

Definition dump_node (n : node) : list tok :=
  [TK Kbar; TNat (nid n); t_ostr (nname n); t_onat (nparent n)] ++ t_ids (nchildren n) ++
  [t_olen (npedge n); t_ostr (ncomment n); TNat (ndepth n); TK Klbrace] ++
  flat_map (fun kv : nat * xq => [TNat (fst kv); TLen (snd kv)]) (nedges n) ++ [TK Krbrace].
Definition dump_arena (a : arena) : list tok :=
  [TK Ksize; TNat (length a)] ++
  flat_map (fun n : node => if ndeleted n then [TK Kbar; TK KX] else dump_node n) a.

Definition dump_mat (m : dmat) : list tok :=
  [TK Ksize; TNat (msize m); TK Ktaxa; TK Klbrack] ++ map TStr (mtaxa m) ++
  [TK Krbrack; TK Kcells; TK Klbrack] ++ map TLen (mcells m) ++ [TK Krbrack].

(* sets are printed sorted: bit strings lexicographically (false < true) *)
Fixpoint bits_leb (a b : bits) : bool :=
  match a, b with
  | [], _ => true
  | _ :: _, [] => false
  | x :: a', y :: b' => if Bool.eqb x y then bits_leb a' b' else negb x
  end.

Fixpoint sep_by (sep : list tok) (l : list (list tok)) : list tok :=
  match l with
  | [] => []
  | [x] => x
  | x :: r => x ++ sep ++ sep_by sep r
  end.
Definition t_set (items : list (list tok)) : list tok :=
  [TK Klbrace] ++ sep_by [TK Ksemi] items ++ [TK Krbrace].

(* the same index functions over N, for indices far beyond what unary nat can carry
   (lemmas/TrilN.v relates them to tril_idx / tril_inv) *)
Definition tril_idxN (i j : N) : N :=
  let '(i, j) := if (j <? i)%N then (i, j) else (j, i) in (((i - 1) * i) / 2 + j)%N.
Definition tril_invN (k : N) : N * N :=
  let p := ((N.sqrt (1 + 8 * k) - 1) / 2)%N in ((p + 1)%N, (k - p * (p + 1) / 2)%N).

Definition fmt_of_nat (k : nat) : nformat :=
  match k with
  | 0 => AllFields | 1 => Topology | 2 => NoComments | 3 => OnlyNames | 4 => OnlyLengths
  | 5 => LeafLengthsAllNames | 6 => LeafLengthsLeafNames | 7 => InternalLengthsLeafNames
  | _ => AllLengthsLeafNames
  end.

Definition run_op (s : st) (o : op) : res * st :=
  let a := nodes (cur_tree s) in
  let t := cur_tree s in
  match o with
  | OSel k =>
      let ts := trees s ++ repeat empty_tree (S k - length (trees s)) in
      (ROk [], mkSt ts k (mats s) (mcur s))
  | ONew => (ROk [], set_cur_tree s empty_tree)
  | OAdd name comment =>
      let '(a', id) := add a (new_node name comment) in (ROk [TNat id], set_cur_arena s a')
  | OAddChild p name len comment =>
      match add_child a (new_node name comment) p len with
      | Ok (a', id) => (ROk [TNat id], set_cur_arena s a')
      | other => (res_of other (fun _ => []), s)
      end
  | OParse txt =>
      match from_newick parse_f64 txt with
      | Ok a' => (ROk [], set_cur_tree s (tree_of a'))
      | other => (res_of other (fun _ => []), s)
      end
  | OGenEte3 n brl ps ls =>
      match generate_tree n brl ps ls with
      | Ok (Some a') => (ROk [], set_cur_tree s (tree_of a'))
      | Ok None => (RInvalid, s)
      | other => (res_of other (fun _ => []), s)
      end
  | OGenYule n brl ps ls =>
      match generate_yule n brl ps ls with
      | Ok (Some a') => (ROk [], set_cur_tree s (tree_of a'))
      | Ok None => (RInvalid, s)
      | other => (res_of other (fun _ => []), s)
      end
  | OGenCat n brl ls =>
      match generate_caterpillar n brl ls with
      | Ok (Some a') => (ROk [], set_cur_tree s (tree_of a'))
      | Ok None => (RInvalid, s)
      | other => (res_of other (fun _ => []), s)
      end
  | OUpgma =>
      match upgma O (cur_mat s) with
      | Ok a' => (ROk [], set_cur_tree s (tree_of a'))
      | other => (res_of other (fun _ => []), s)
      end
  | OPrune i =>
      match prune a i with
      | Ok a' => (ROk [], set_cur_arena s a')
      | other => (res_of other (fun _ => []), s)
      end
  | OCompress =>
      let '(r, a') := compress O a in (res_of r (fun _ => []), set_cur_arena s a')
  | OResolve ch =>
      match resolve O a ch with
      | Ok (Some a') => (ROk [], set_cur_arena s a')
      | Ok None => (RInvalid, s)
      | other => (res_of other (fun _ => []), s)
      end
  | OLadderize =>
      match ladderize a with
      | Ok a' => (ROk [], set_cur_arena s a')
      | other => (res_of other (fun _ => []), s)
      end
  | ORescale f => (ROk [], set_cur_arena s (rescale O a f))
  | OMerge c1 c2 e1 e2 pe name =>
      let '(r, a') := merge_children a c1 c2 e1 e2 pe name in
      (res_of r (fun x => [TNat (snd x)]), set_cur_arena s a')
  | OResetDepths =>
      match reset_depths a with
      | Ok a' => (ROk [], set_cur_arena s a')
      | other => (res_of other (fun _ => []), s)
      end
  | OResetCache => (ROk [], set_cur_tree s (reset_bipartition_cache t))
  | ODump => (ROk (dump_arena a), s)
  | OSize => (ROk [TNat (length a)], s)
  | ONLeaves => (ROk [TNat (n_leaves a)], s)
  | OGetRoot => (res_of (get_root a) (fun r => [TNat r]), s)
  | OGetLeaves => (ROk (t_ids (get_leaves a)), s)
  | OGetLeafNames => (res_of (get_leaf_names a) (fun l => [TK Klbrack] ++ map t_ostr l ++ [TK Krbrack]), s)
  | OIsBinary => (res_of (is_binary a) (fun b => [t_bool b]), s)
  | OIsRooted => (res_of (is_rooted a) (fun b => [t_bool b]), s)
  | OUniqueTips => (res_of (has_unique_tip_names a) (fun b => [t_bool b]), s)
  | OHeight => (res_of (height O a) (fun l => [TLen l]), s)
  | ODiameter => (res_of (diameter O a) (fun l => [TLen l]), s)
  | OLength => (res_of (length_ O a) (fun l => [TLen l]), s)
  | OCherries => (res_of (cherries a) (fun n => [TNat n]), s)
  | OColless => (res_of (colless a) (fun n => [TNat n]), s)
  | OSackin => (res_of (sackin a) (fun n => [TNat n]), s)
  | OCollessN => (res_of (colless a) (fun n => [TNat n; TNat (n_leaves a)]), s)
  | OSackinN => (res_of (sackin a) (fun n => [TNat n; TNat (n_leaves a)]), s)
  | OPre i => (res_of (preorder a i) t_ids, s)
  | OPost i => (res_of (postorder a i) t_ids, s)
  | OIn i => (res_of (inorder a i) t_ids, s)
  | OLevel i => (res_of (levelorder a i) t_ids, s)
  | OSubtree i => (res_of (get_subtree a i) t_ids, s)
  | ODesc i => (res_of (get_descendants a i) t_ids, s)
  | OSubLeaves i => (res_of (get_subtree_leaves a i) t_ids, s)
  | OPath i => (res_of (get_path_from_root a i) t_ids, s)
  | OLca x y => (res_of (get_common_ancestor a x y) (fun r => [TNat r]), s)
  | ODist x y => (res_of (get_distance O a x y) (fun r => [t_olen (fst r); TNat (snd r)]), s)
  | OGet i => (res_of (get a i) (fun n => [TNat (nid n)]), s)
  | OGetByName nm => (ROk [match get_by_name a nm with Some n => TNat (nid n) | None => TNone end], s)
  | OSearch kind arg =>
      let p := match kind with
               | 0 => fun n : node => match nname n with None => true | Some _ => false end
               | 1 => fun n : node => is_tip n
               | 2 => fun _ : node => true
               | _ => fun n : node => ostr_eqb (nname n) arg
               end in
      (ROk (t_ids (search_nodes a p)), s)
  | OPartitions =>
      match get_partitions O t with
      | Ok (ps, t1) =>
          let sorted := stable_sort bits_leb ps in
          match mapM (fun b => r <- partition_to_leaves t1 b ;; Ok [TBits b; TStr (fst r)]) sorted with
          | Ok items => (ROk (t_set items), set_cur_tree s t1)
          | other => (res_of other (fun _ => []), set_cur_tree s t1)
          end
      | other => (res_of other (fun _ => []), s)
      end
  | OP2L b =>
      match partition_to_leaves t b with
      | Ok (str, t1) => (ROk [TStr str], set_cur_tree s t1)
      | other => (res_of other (fun _ => []), s)
      end
  | ORf k =>
      match robinson_foulds O t (tree_at s k) with
      | Ok (rf, t1, o1) => (ROk [TNat rf], set_tree_at (set_cur_tree s t1) k (if Nat.eqb k (cur s) then t1 else o1))
      | other => (res_of other (fun _ => []), s)
      end
  | ORfNorm k =>
      match robinson_foulds_norm O t (tree_at s k) with
      | Ok (rf, tot, t1, o1) => (ROk [TNat rf; TNat tot], set_tree_at (set_cur_tree s t1) k (if Nat.eqb k (cur s) then t1 else o1))
      | other => (res_of other (fun _ => []), s)
      end
  | OWrf k =>
      match weighted_rf O false t (tree_at s k) with
      | Ok (v, t1, o1) => (ROk [TLen v], set_tree_at (set_cur_tree s t1) k (if Nat.eqb k (cur s) then t1 else o1))
      | other => (res_of other (fun _ => []), s)
      end
  | OKf k =>
      match weighted_rf O true t (tree_at s k) with
      | Ok (v, t1, o1) => (ROk [TLen v], set_tree_at (set_cur_tree s t1) k (if Nat.eqb k (cur s) then t1 else o1))
      | other => (res_of other (fun _ => []), s)
      end
  | OCmpTopo k =>
      match compare_topologies O t (tree_at s k) with
      | Ok (c, t1, o1) => (ROk [TNat (c_rf c); TNat (c_tot c); TLen (c_wrf c); TLen (c_kf2 c)],
                           set_tree_at (set_cur_tree s t1) k (if Nat.eqb k (cur s) then t1 else o1))
      | other => (res_of other (fun _ => []), s)
      end
  | OCmpBranch k tips =>
      match compare_branch_lengths O t (tree_at s k) tips with
      | Ok ((sb, ob, cb), t1, o1) =>
          let f := fun l : list (nat * xq) => t_set (map (fun e : nat * xq => [TNat (fst e); TLen (snd e)]) l) in
          (ROk (f sb ++ f ob ++ t_set (map (fun e : (nat * xq) * (nat * xq) =>
                      [TNat (fst (fst e)); TLen (snd (fst e)); TNat (fst (snd e)); TLen (snd (snd e))]) cb)),
           set_tree_at (set_cur_tree s t1) k (if Nat.eqb k (cur s) then t1 else o1))
      | other => (res_of other (fun _ => []), s)
      end
  | ODm => (res_of (distance_matrix O a) dump_mat, s)
  | ODmStore =>
      match distance_matrix O a with
      | Ok m => (ROk (dump_mat m), set_cur_mat s m)
      | other => (res_of other (fun _ => []), s)
      end
  | ODmr =>
      match distance_matrix_recursive O t with
      | Ok (m, t1) => (ROk (dump_mat m), set_cur_tree s t1)
      | other => (res_of other (fun _ => []), s)
      end
  | OToNewick => (res_of (to_newick a) (fun r => [TRs r]), s)
  | OToFmt f => (res_of (to_formatted_newick a f) (fun r => [TRs r]), s)
  | OToNexus => (res_of (to_nexus a) (fun r =>
                   [TNat (fst (fst r)); TK Klbrack] ++ map TStr (snd (fst r)) ++ [TK Krbrack; TRs (snd r)]), s)
  | OLayout =>
      (res_of (radial_layout O a) (fun segs =>
         [TK Kbranches; TK Klbrack] ++
         flat_map (fun e : nat * nat * xq * xq * option str =>
                     let '(u, v, d, ang, nm) := e in [TNat u; TNat v; TLen d; TLen ang; t_ostr nm; TK Ksemi]) segs ++
         [TK Krbrack]), s)
  | ORtNewick =>
      match to_newick a with
      | Ok r =>
          match from_newick parse_f64 (flatten_r r) with
          | Ok a' => (res_of (to_newick a') (fun r2 => [TRs r] ++ dump_arena a' ++ [TRs r2]), s)
          | other => (res_of other (fun _ => []), s)
          end
      | other => (res_of other (fun _ => []), s)
      end
  | OCliCollapse thr excl =>
      match cli_collapse O a thr excl with
      | Ok a' => (ROk [], set_cur_arena s a')
      | other => (res_of other (fun _ => []), s)
      end
  | OCliRemove tips =>
      match cli_remove O a tips with
      | Ok a' => (ROk [], set_cur_arena s a')
      | other => (res_of other (fun _ => []), s)
      end
  | OSetName i nm =>
      (* tree.get_mut(&i)?.set_name(nm) *)
      match upd a i (fun x => set_nname x (Some nm)) with
      | Ok a' => (ROk [], set_cur_arena s a')
      | other => (res_of other (fun _ => []), s)
      end
  | ORenameByName old nm =>
      (* tree.get_by_name_mut(old).map(|n| n.set_name(nm)) : first slot carrying that name *)
      match get_by_name a old with
      | Some n => (ROk [TNat (nid n)], set_cur_arena s (replace_nth (nid n) (set_nname n (Some nm)) a))
      | None => (ROk [TNone], set_cur_arena s a)
      end
  | OSetPedge i e =>
      (* direct write to the pub field: tree.get_mut(&i)?.parent_edge = e (the parent-side record is NOT updated) *)
      match upd a i (fun x => set_npedge x e) with
      | Ok a' => (ROk [], set_cur_arena s a')
      | other => (res_of other (fun _ => []), s)
      end
  | OReparse k =>
      (* tree register k := from_newick (to_newick current) *)
      match to_newick a with
      | Ok r =>
          match from_newick parse_f64 (flatten_r r) with
          | Ok a' =>
              let ts := trees s ++ repeat empty_tree (S k - length (trees s)) in
              (ROk [], mkSt (replace_nth k (tree_of a') ts) (cur s) (mats s) (mcur s))
          | other => (res_of other (fun _ => []), s)
          end
      | other => (res_of other (fun _ => []), s)
      end
  | ORtFmt f =>
      match to_formatted_newick a f with
      | Ok r =>
          match from_newick parse_f64 (flatten_r r) with
          | Ok a' => (ROk ([TRs r] ++ dump_arena a'), s)
          | other => (res_of other (fun _ => []), s)
          end
      | other => (res_of other (fun _ => []), s)
      end
  | OTril n i j => (ROk [TNat (tril_idx i j)], s)
  | ORowvec n k => (ROk [TNat (fst (tril_inv k)); TNat (snd (tril_inv k))], s)
  | OTrilN i j => (ROk [TBig (tril_idxN i j)], s)
  | ORowvecN k => (ROk [TBig (fst (tril_invN k)); TBig (snd (tril_invN k))], s)
  | OMSel k =>
      let ms := mats s ++ repeat empty_mat (S k - length (mats s)) in
      (ROk [], mkSt (trees s) (cur s) ms k)
  | OMNew taxa vals => (ROk [], set_cur_mat s (dm_new taxa vals))
  | OMWithSize n => (ROk [], set_cur_mat s (dm_with_size O n))
  | OMSetTaxa taxa =>
      match dm_set_taxa (cur_mat s) taxa with
      | Ok m => (ROk [], set_cur_mat s m)
      | other => (res_of other (fun _ => []), s)
      end
  | OMGet x y => (res_of (dm_get O (cur_mat s) x y) (fun v => [TLen v]), s)
  | OMSet x y v =>
      match dm_set O (cur_mat s) x y v with
      | Ok m => (ROk [], set_cur_mat s m)
      | other => (res_of other (fun _ => []), s)
      end
  | OMTaxaIndex x => (res_of (taxa_index (cur_mat s) x) (fun i => [TNat i]), s)
  | OMIter => (ROk ([TK Klbrack] ++ map TLen (mcells (cur_mat s)) ++ [TK Krbrack]), s)
  | OMIndexed =>
      (ROk ([TK Klbrack] ++ flat_map (fun e : nat * nat * xq => [TNat (fst (fst e)); TNat (snd (fst e)); TLen (snd e); TK Ksemi])
                                     (dm_indexed (cur_mat s)) ++ [TK Krbrack]), s)
  | OMToMap =>
      (res_of (dm_to_map O (cur_mat s)) (fun l =>
         t_set (map (fun e : str * str * xq => [TStr (fst (fst e)); TStr (snd (fst e)); TLen (snd e)]) l)), s)
  | OMMin => (ROk (match dm_min O (cur_mat s) with
                   | Some (i, j, v) => [TNat i; TNat j; TLen v] | None => [TNone] end), s)
  | OMMax => (ROk (match dm_max O (cur_mat s) with
                   | Some (i, j, v) => [TNat i; TNat j; TLen v] | None => [TNone] end), s)
  | OMPhylip sq => (res_of (to_phylip O (cur_mat s) sq) (fun r => [TRs r]), s)
  | OMFromStrict text sq =>
      match from_phylip_strict O parse_f64 text sq with
      | Ok m => (ROk (dump_mat m), set_cur_mat s m)
      | other => (res_of other (fun _ => []), s)
      end
  | OMFromTril text =>
      match from_phylip_tril parse_f64 text with
      | Ok m => (ROk (dump_mat m), set_cur_mat s m)
      | other => (res_of other (fun _ => []), s)
      end
  | OMRt tril sq =>
      (* write (exact decimal printing), read back with the chosen entry point *)
      match to_phylip O (cur_mat s) sq with
      | Ok r =>
          let text := flatten_r r in
          let back := if tril then from_phylip_tril parse_f64 text else from_phylip_strict O parse_f64 text sq in
          (res_of back (fun m => [TRs r] ++ dump_mat m), s)
      | other => (res_of other (fun _ => []), s)
      end
  | OMDump => (ROk (dump_mat (cur_mat s)), s)
  end.

Fixpoint run_script (s : st) (ops : list op) : list res :=
  match ops with
  | [] => []
  | o :: r => let '(x, s') := run_op s o in x :: run_script s' r
  end.
Definition run_case (ops : list op) : list res := run_script st0 ops.
