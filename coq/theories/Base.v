(* Base.v — outcomes, errors, strings as code-point lists, small list utilities.
   MODEL FILE: definitions only (proofs live in lemmas/). *)
From Coq Require Export List Arith NArith ZArith Bool Lia.
Export ListNotations.

(* Strings are lists of Unicode code points. *)
Definition str := list N.

Fixpoint str_eqb (a b : str) : bool :=
  match a, b with
  | [], [] => true
  | x :: a', y :: b' => N.eqb x y && str_eqb a' b'
  | _, _ => false
  end.

(* Rust's `String: Ord` = lexicographic on UTF-8 bytes = lexicographic on code points. *)
Fixpoint str_ltb (a b : str) : bool :=
  match a, b with
  | [], [] => false
  | [], _ :: _ => true
  | _ :: _, [] => false
  | x :: a', y :: b' => if N.ltb x y then true else if N.eqb x y then str_ltb a' b' else false
  end.
Definition str_leb (a b : str) : bool := negb (str_ltb b a).

Definition ostr_eqb (a b : option str) : bool :=
  match a, b with
  | None, None => true
  | Some x, Some y => str_eqb x y
  | _, _ => false
  end.
(* Option<String>: None < Some _ *)
Definition ostr_leb (a b : option str) : bool :=
  match a, b with
  | None, _ => true
  | Some _, None => false
  | Some x, Some y => str_leb x y
  end.

Inductive err :=
  (* TreeError *)
  | IsNotBinary | IsNotRooted | IsEmpty | RootNotFound | UnnamedLeaves | DuplicateLeafNames
  | LeafIndexNotInitialized | MissingBranchLengths | DifferentTipIndices | NodeNotFound
  | CouldNotCompressNode | MergingNonSiblingNodes | NodeError | TMatrixError
  (* NewickParseError *)
  | WhiteSpaceInNumber | UnclosedBracket | NoClosingSemicolon | NoSubtreeParent | NwTreeError
  | FloatError
  (* MatrixError *)
  | MissingTaxon | IndexError | NonZeroIdenticalDistance | SizeError
  (* PhylipParseError *)
  | EmptyMatrixFile | SizeParseError | EmptyRow | DistParseError | PMissingDistance
  | SizeAndRowsMismatch | NonZeroDiagonalValue | NonSymmetric | PMatrixError.

Inductive outcome (A : Type) :=
  | Ok (a : A)
  | Err (e : err)
  | Panic (site : nat)
  | OutOfFuel.
Arguments Ok {A} a.
Arguments Err {A} e.
Arguments Panic {A} site.
Arguments OutOfFuel {A}.

Definition bind {A B} (o : outcome A) (f : A -> outcome B) : outcome B :=
  match o with
  | Ok a => f a
  | Err e => Err e
  | Panic s => Panic s
  | OutOfFuel => OutOfFuel
  end.
Notation "x <- c1 ;; c2" := (bind c1 (fun x => c2))
  (at level 61, c1 at next level, right associativity).
Notation "' pat <- c1 ;; c2" := (bind c1 (fun x => match x with pat => c2 end))
  (at level 61, pat pattern, c1 at next level, right associativity).

Definition omap_out {A B} (f : A -> B) (o : outcome A) : outcome B :=
  x <- o ;; Ok (f x).

(* Sequencing a function over a list, concatenating the results (left to right, first failure wins). *)
Fixpoint concat_mapM {A B} (g : A -> outcome (list B)) (l : list A) : outcome (list B) :=
  match l with
  | [] => Ok []
  | x :: xs => r <- g x ;; rs <- concat_mapM g xs ;; Ok (r ++ rs)
  end.

Fixpoint mapM {A B} (g : A -> outcome B) (l : list A) : outcome (list B) :=
  match l with
  | [] => Ok []
  | x :: xs => r <- g x ;; rs <- mapM g xs ;; Ok (r :: rs)
  end.

Fixpoint foldM {A S} (g : S -> A -> outcome S) (l : list A) (s : S) : outcome S :=
  match l with
  | [] => Ok s
  | x :: xs => s' <- g s x ;; foldM g xs s'
  end.

(* list utilities *)
Fixpoint replace_nth {A} (n : nat) (x : A) (l : list A) : list A :=
  match l, n with
  | [], _ => []
  | _ :: t, 0 => x :: t
  | h :: t, S n' => h :: replace_nth n' x t
  end.

Fixpoint index_of (x : nat) (l : list nat) : option nat :=
  match l with
  | [] => None
  | y :: t => if Nat.eqb x y then Some 0 else option_map S (index_of x t)
  end.

Fixpoint remove_at {A} (n : nat) (l : list A) : list A :=
  match l, n with
  | [], _ => []
  | _ :: t, 0 => t
  | h :: t, S n' => h :: remove_at n' t
  end.

Fixpoint find_index {A} (p : A -> bool) (l : list A) : option nat :=
  match l with
  | [] => None
  | y :: t => if p y then Some 0 else option_map S (find_index p t)
  end.

Definition onat_eqb (a b : option nat) : bool :=
  match a, b with
  | None, None => true
  | Some x, Some y => Nat.eqb x y
  | _, _ => false
  end.

Fixpoint last_opt {A} (l : list A) : option A :=
  match l with
  | [] => None
  | [x] => Some x
  | _ :: t => last_opt t
  end.

(* stable insertion sort: `leb a b = true` means a may stay before b. Matches the result of any
   stable sort (Rust's sort_by / sort_by_key / itertools sorted are stable). *)
Fixpoint insert_sorted {A} (leb : A -> A -> bool) (x : A) (l : list A) : list A :=
  match l with
  | [] => [x]
  | y :: t => if leb x y then x :: l else y :: insert_sorted leb x t
  end.
(* fold from the right so that equal elements keep their relative order *)
Definition stable_sort {A} (leb : A -> A -> bool) (l : list A) : list A :=
  fold_right (insert_sorted leb) [] l.

(* all unordered pairs in itertools `combinations(2)` order *)
Fixpoint pairs {A} (l : list A) : list (A * A) :=
  match l with
  | [] => []
  | x :: t => map (fun y => (x, y)) t ++ pairs t
  end.

Fixpoint list_eqb {A} (eqb : A -> A -> bool) (a b : list A) : bool :=
  match a, b with
  | [], [] => true
  | x :: a', y :: b' => eqb x y && list_eqb eqb a' b'
  | _, _ => false
  end.

Definition mem_nat (x : nat) (l : list nat) : bool := existsb (Nat.eqb x) l.
Definition mem_str (x : str) (l : list str) : bool := existsb (str_eqb x) l.

Fixpoint dedup_str (l : list str) : list str :=
  match l with
  | [] => []
  | x :: t => if mem_str x t then dedup_str t else x :: dedup_str t
  end.

Fixpoint sum_nat (l : list nat) : nat :=
  match l with [] => 0 | x :: t => x + sum_nat t end.

Definition abs_diff (a b : nat) : nat := if Nat.leb a b then b - a else a - b.
