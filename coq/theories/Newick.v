(* Newick.v — model of the Newick writer (Node::to_newick, Tree::to_newick_impl, to_formatted_newick,
   to_nexus) and of the character state machine Tree::from_newick.  MODEL FILE: definitions only. *)
From PT Require Export Queries.

Section NewickDefs.
Context {L : Type}.
Notation node := (@node L).
Notation arena := (@arena L).

(* text with embedded branch lengths: the crate prints a length with `{v}` (std Display) *)
Inductive rch := C (c : N) | Lv (l : L).
Definition rstr := list rch.
Definition lit (s : str) : rstr := map C s.

Definition ch_lpar : N := 40.  Definition ch_rpar : N := 41.  Definition ch_comma : N := 44.
Definition ch_semi : N := 59.  Definition ch_colon : N := 58. Definition ch_lbr : N := 91.
Definition ch_rbr : N := 93.   Definition ch_quote : N := 34.

Inductive nformat := AllFields | Topology | NoComments | OnlyNames | OnlyLengths | LeafLengthsAllNames
                   | LeafLengthsLeafNames | InternalLengthsLeafNames | AllLengthsLeafNames.

Definition fmt_name (n : node) : rstr := match nname n with Some s => lit s | None => [] end.
Definition fmt_length (n : node) : rstr := match npedge n with Some l => [C ch_colon; Lv l] | None => [] end.
Definition fmt_comment (n : node) : rstr :=
  match ncomment n with Some s => [C ch_lbr] ++ lit s ++ [C ch_rbr] | None => [] end.

Definition node_to_newick (f : nformat) (n : node) : rstr :=
  (match f with
   | AllFields | NoComments | OnlyNames | LeafLengthsAllNames => fmt_name n
   | LeafLengthsLeafNames | InternalLengthsLeafNames | AllLengthsLeafNames =>
       if is_tip n then fmt_name n else []
   | _ => []
   end) ++
  (match f with
   | AllFields | NoComments | OnlyLengths | AllLengthsLeafNames => fmt_length n
   | InternalLengthsLeafNames => if is_tip n then [] else fmt_length n
   | LeafLengthsLeafNames | LeafLengthsAllNames => if is_tip n then fmt_length n else []
   | _ => []
   end) ++
  (match f with AllFields => fmt_comment n | _ => [] end).

Fixpoint join_comma (l : list rstr) : rstr :=
  match l with
  | [] => []
  | [x] => x
  | x :: t => x ++ [C ch_comma] ++ join_comma t
  end.

Fixpoint to_newick_impl_f (fuel : nat) (t : arena) (root : nat) (f : nformat) : outcome rstr :=
  match fuel with
  | 0 => OutOfFuel
  | S k =>
      n <- get t root ;;
      match nchildren n with
      | [] => Ok (node_to_newick f n)
      | cs =>
          (* children are written with `.unwrap()`: an error below becomes a panic *)
          subs <- mapM (fun c => match to_newick_impl_f k t c f with
                                 | Ok s => Ok s
                                 | Err _ => Panic 21
                                 | Panic s => Panic s
                                 | OutOfFuel => OutOfFuel
                                 end) cs ;;
          Ok ([C ch_lpar] ++ join_comma subs ++ [C ch_rpar] ++ node_to_newick f n)
      end
  end.

Definition to_formatted_newick (t : arena) (f : nformat) : outcome rstr :=
  r <- get_root t ;;
  s <- to_newick_impl_f (fuel_of t) t r f ;;
  Ok (s ++ [C ch_semi]).
Definition to_newick (t : arena) : outcome rstr := to_formatted_newick t AllFields.

(* to_nexus: the pieces the template embeds: (n_leaves, tip labels in arena order, newick) *)
Definition to_nexus (t : arena) : outcome (nat * list str * rstr) :=
  nwk <- to_newick t ;;
  let labels := flat_map (fun n : node => if negb (ndeleted n) && is_tip n
                                          then match nname n with Some s => [s] | None => [] end
                                          else []) t in
  Ok (n_leaves t, labels, nwk).

(* ---- parser ------------------------------------------------------------------------------------ *)
Variable parse_len : str -> option L.      (* str::parse::<f64>() *)

(* char::is_whitespace (Unicode White_Space) *)
Definition is_ws (c : N) : bool :=
  ((9 <=? c) && (c <=? 13) || (c =? 32) || (c =? 133) || (c =? 160) || (c =? 5760)
   || (8192 <=? c) && (c <=? 8202) || (c =? 8232) || (c =? 8233) || (c =? 8239) || (c =? 8287)
   || (c =? 12288))%N.

Inductive field := FName | FLength | FComment.

Record pstate := mkP {
  p_tree : arena;
  p_field : field;
  p_name : option str;
  p_len : option str;
  p_comment : option str;
  p_index : option nat;
  p_stack : list nat;          (* top of the stack = head of the list *)
  p_open : nat;                (* open_delimiters.len() *)
  p_quotes : bool;
}.
Definition p_init : pstate := mkP [] FName None None None None [] 0 false.

Definition push_opt (o : option str) (c : N) : option str :=
  match o with Some s => Some (s ++ [c]) | None => Some [c] end.

Inductive pres := Running (s : pstate) | Done (r : outcome arena).

Definition lift_run {A} (o : outcome A) (k : A -> pres) : pres :=
  match o with
  | Ok a => k a
  | Err _ => Done (Err NwTreeError)          (* `?` on a TreeError *)
  | Panic s => Done (Panic s)
  | OutOfFuel => Done OutOfFuel
  end.

(* commit of the pending label at ',' and ')' : returns the updated tree and the node index *)
Definition commit (s : pstate) (k : arena -> pres) : pres :=
  let with_node (t : arena) (idx : nat) : pres :=
    lift_run (get t idx) (fun n =>
      let n1 := match p_name s with Some nm => set_nname n (Some nm) | None => n end in
      match (match p_len s with
             | Some ls => match parse_len ls with Some v => Some (Some v) | None => None end
             | None => Some None
             end) with
      | None => Done (Err FloatError)
      | Some edge =>
          let n2 := match nparent n1 with Some p => node_set_parent n1 p edge | None => n1 end in
          let n3 := set_ncomment n2 (p_comment s) in
          k (replace_nth idx n3 t)
      end) in
  match p_index s with
  | Some idx => with_node (p_tree s) idx
  | None =>
      match p_stack s with
      | parent :: _ =>
          lift_run (add_child (p_tree s) (new_node None None) parent None) (fun r => with_node (fst r) (snd r))
      | [] => Done (Err NoSubtreeParent)      (* fix F1: was `unreachable!` *)
      end
  end.

Definition finish (t : arena) : outcome arena :=
  (* finishing pass: mirror every parent_edge into the parent's child_edges *)
  foldM (fun (t : arena) (id : nat) =>
           n <- get t id ;;
           match npedge n, nparent n with
           | Some e, Some p => upd t p (fun x => node_set_child_edge x id (Some e))
           | _, _ => Ok t
           end) (map (@nid L) t) t.

Definition pstep (s : pstate) (c : N) : pres :=
  if p_quotes s && (match p_field s with FName => true | _ => false end) && negb (c =? ch_quote)%N then
    Running (mkP (p_tree s) (p_field s) (push_opt (p_name s) c) (p_len s) (p_comment s) (p_index s) (p_stack s) (p_open s) (p_quotes s))
  else if (match p_field s with FComment => true | _ => false end) && negb (c =? ch_rbr)%N then
    Running (mkP (p_tree s) (p_field s) (p_name s) (p_len s) (push_opt (p_comment s) c) (p_index s) (p_stack s) (p_open s) (p_quotes s))
  else if is_ws c && negb (p_quotes s) then Running s
  else if (c =? ch_quote)%N then
    let nm := match p_field s with FName => push_opt (p_name s) c | _ => p_name s end in
    Running (mkP (p_tree s) (p_field s) nm (p_len s) (p_comment s) (p_index s) (p_stack s) (p_open s) (negb (p_quotes s)))
  else if (c =? ch_lbr)%N then
    Running (mkP (p_tree s) FComment (p_name s) (p_len s) (p_comment s) (p_index s) (p_stack s) (p_open s) (p_quotes s))
  else if (c =? ch_rbr)%N then
    Running (mkP (p_tree s) FName (p_name s) (p_len s) (p_comment s) (p_index s) (p_stack s) (p_open s) (p_quotes s))
  else if (c =? ch_lpar)%N then
    match p_stack s with
    | [] =>
        match p_tree s with
        | [] =>
            let '(t1, id) := add (p_tree s) (new_node None None) in
            Running (mkP t1 (p_field s) (p_name s) (p_len s) (p_comment s) (p_index s) [id] (S (p_open s)) (p_quotes s))
        | _ => Done (Err NoSubtreeParent)       (* fix F1': a second root is refused *)
        end
    | parent :: _ =>
        lift_run (add_child (p_tree s) (new_node None None) parent None) (fun r =>
          Running (mkP (fst r) (p_field s) (p_name s) (p_len s) (p_comment s) (p_index s) (snd r :: p_stack s) (S (p_open s)) (p_quotes s)))
    end
  else if (c =? ch_colon)%N then
    Running (mkP (p_tree s) FLength (p_name s) (p_len s) (p_comment s) (p_index s) (p_stack s) (p_open s) (p_quotes s))
  else if (c =? ch_comma)%N then
    commit s (fun t => Running (mkP t FName None None None None (p_stack s) (p_open s) (p_quotes s)))
  else if (c =? ch_rpar)%N then
    let s' := mkP (p_tree s) (p_field s) (p_name s) (p_len s) (p_comment s) (p_index s) (p_stack s) (p_open s - 1) (p_quotes s) in
    commit s' (fun t =>
      match p_stack s with
      | parent :: rest => Running (mkP t FName None None None (Some parent) rest (p_open s - 1) (p_quotes s))
      | [] => Done (Err NoSubtreeParent)
      end)
  else if (c =? ch_semi)%N then
    if negb (Nat.eqb (p_open s) 0) then Done (Err UnclosedBracket) else
    let go (t : arena) (idx : nat) : pres :=
      lift_run (get t idx) (fun n =>
        let n1 := set_ncomment (set_nname n (p_name s)) (p_comment s) in
        match (match p_len s with
               | Some ls => match parse_len ls with Some v => Some (set_npedge n1 (Some v)) | None => None end
               | None => Some n1
               end) with
        | None => Done (Err FloatError)
        | Some n2 =>
            match finish (replace_nth idx n2 t) with
            | Ok t' => Done (Ok t')
            | Err _ => Done (Err NwTreeError)
            | Panic x => Done (Panic x)
            | OutOfFuel => Done OutOfFuel
            end
        end) in
    match p_index s with
    | Some idx => go (p_tree s) idx
    | None =>
        (* fix F1: a bare label is a single-node tree; otherwise there is no node to finish *)
        match p_tree s with
        | [] => let '(t1, id) := add (p_tree s) (new_node None None) in go t1 id
        | _ => Done (Err NoSubtreeParent)
        end
    end
  else
    match p_field s with
    | FName => Running (mkP (p_tree s) (p_field s) (push_opt (p_name s) c) (p_len s) (p_comment s) (p_index s) (p_stack s) (p_open s) (p_quotes s))
    | FLength =>
        if is_ws c then Done (Err WhiteSpaceInNumber) else
        Running (mkP (p_tree s) (p_field s) (p_name s) (push_opt (p_len s) c) (p_comment s) (p_index s) (p_stack s) (p_open s) (p_quotes s))
    | FComment => Done (Panic 22)     (* unimplemented!() — unreachable: handled by the second test *)
    end.

Fixpoint prun (s : pstate) (input : str) : outcome arena :=
  match input with
  | [] => Err NoClosingSemicolon
  | c :: rest =>
      match pstep s c with
      | Running s' => prun s' rest
      | Done r => r
      end
  end.

Definition from_newick (input : str) : outcome arena := prun p_init input.

End NewickDefs.
