(* C06 — placeholder until the split lemmas land *)
From PT Require Import Queries.
Theorem C06_placeholder : True. Proof. exact I. Qed.
Print Assumptions C06_placeholder.
