(* C05 — placeholder until the split lemmas land *)
From PT Require Import Queries.
Theorem C05_placeholder : True. Proof. exact I. Qed.
Print Assumptions C05_placeholder.
