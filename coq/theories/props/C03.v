(* C03 — placeholder until the invariant lemmas land *)
From PT Require Import Arena.
Theorem C03_placeholder : True. Proof. exact I. Qed.
Print Assumptions C03_placeholder.
