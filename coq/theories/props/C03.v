(* C03 — the arena stays one consistent rooted tree under every edit history.
   Statements only; proofs in lemmas/RepLib.v, lemmas/WFOps.v.  Model: Arena.v.
   WF (Spec.v): the live slots are exactly the nodes of one rose tree r (Rep: id = position, parent field,
   ordered children all live, child-side length record = the child's own record and none kept for a
   non-child, cached depth = distance to the root; NoDup ids; every live slot in r) or no slot is live.
   WFS = WF + the model's association list for `child_edges` has strictly increasing keys (the model-side
   reflection of HashMap key uniqueness; WF alone is NOT inductive: WF_not_inductive.prune_breaks_WF). *)
From PT Require Import Arena Spec Queries Newick Matrix Gen RepLib WFOps Stats Invariants Generators UpgmaProps.

Theorem C03_step : forall (L : Type) (O : LenOps L) (t : @arena L) (o : op), WFS t -> WFS (step O t o).
Proof. exact @step_wf. Qed.
Print Assumptions C03_step.

(* every history of add_child / prune / compress / resolve (any choice sequence) / ladderize / rescale /
   merge_children / reset_depths with every choice of arguments (valid, out of range, removed, root, equal) *)
Theorem C03_histories : forall (L : Type) (O : LenOps L) (t0 : @arena L) (ops : list op),
  WFS t0 -> WFS (fold_left (step O) ops t0).
Proof. exact @histories_wf. Qed.
Print Assumptions C03_histories.

Theorem C03_histories_from_empty : forall (L : Type) (O : LenOps L) (ops : list (@op L)),
  WF (fold_left (step O) ops []).
Proof. exact @histories_WF. Qed.
Print Assumptions C03_histories_from_empty.

Theorem C03_WFS_WF : forall (L : Type) (t : @arena L), WFS t -> WF t.
Proof. exact @WFS_WF. Qed.
Print Assumptions C03_WFS_WF.

(* the refutation that forced the strengthening: plain WF is not preserved by prune *)
Theorem C03_WF_alone_refuted : exists t t' : @arena nat, WF t /\ prune t 1 = Ok t' /\ ~ WF t'.
Proof.
  destruct WF_not_inductive.prune_breaks_WF as [t' [H1 H2]].
  eexists; exists t'; split; [exact WF_not_inductive.wf_t | split; assumption].
Qed.
Print Assumptions C03_WF_alone_refuted.

(* start states: every parser result, every generator result (any choice list, any n) and every UPGMA result satisfies the invariant
   (Inv = WFS /\ Blank, Invariants.v), so C03_histories applies to every history from any parsed, generated or UPGMA-built tree *)
Theorem C03_start_parser : forall (L : Type) (parse_len : str -> option L) (s : str) (t : @arena L),
  from_newick parse_len s = Ok t -> Inv t.
Proof. exact @parse_inv. Qed.
Print Assumptions C03_start_parser.

Theorem C03_inv_histories : forall (L : Type) (O : LenOps L) (t0 : @arena L) (ops : list op),
  Inv t0 -> Inv (fold_left (step O) ops t0).
Proof. exact @inv_histories. Qed.
Print Assumptions C03_inv_histories.
