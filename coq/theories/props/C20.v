(* C20 — placeholder until the lemmas land *)
From PT Require Import Queries.
Theorem C20_placeholder : True. Proof. exact I. Qed.
Print Assumptions C20_placeholder.
