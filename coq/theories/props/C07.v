(* C07 — placeholder until the split lemmas land *)
From PT Require Import Queries.
Theorem C07_placeholder : True. Proof. exact I. Qed.
Print Assumptions C07_placeholder.
