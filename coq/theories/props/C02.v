(* C02 — the Newick parser is total and only ever returns well-formed trees.
   Statements only; proofs are in lemmas/ParserProps.v.  Model: Newick.v (from_newick), for an arbitrary
   length type L and an arbitrary length parser parse_len (Rust's str::parse::<f64>). *)
From PT Require Import Arena Spec Newick ParserProps.

(* every input: never a panic, never out of fuel (the model parser is a structural fold: it terminates) *)
Theorem C02_parse_total : forall (L : Type) (parse_len : str -> option L) (s : str),
  match from_newick parse_len s with Ok _ | Err _ => True | _ => False end.
Proof. exact parse_total. Qed.
Print Assumptions C02_parse_total.

(* a returned tree is one rooted tree containing all of its nodes (WF), non-empty, without removed slots *)
Theorem C02_parse_wf : forall (L : Type) (parse_len : str -> option L) (s : str) (t : @arena L),
  from_newick parse_len s = Ok t ->
  WF t /\ t <> [] /\ (forall (i : nat) (n : node), nth_error t i = Some n -> ndeleted n = false).
Proof. exact parse_wf. Qed.
Print Assumptions C02_parse_wf.

(* node ids are the pre-order numbering 0..n-1 of that tree, rooted at slot 0, cached depths exact, lengths mirrored *)
Theorem C02_parse_preorder : forall (L : Type) (parse_len : str -> option L) (s : str) (t : @arena L),
  from_newick parse_len s = Ok t -> exists r : rtree, Rep t None 0 0 r /\ ids r = seq 0 (length t).
Proof. exact parse_preorder. Qed.
Print Assumptions C02_parse_preorder.

(* text with no terminating semicolon is rejected *)
Theorem C02_needs_semicolon : forall (L : Type) (parse_len : str -> option L) (s : str) (t : @arena L),
  from_newick parse_len s = Ok t -> In ch_semi (skeleton s).
Proof. exact parse_semicolon_delim. Qed.
Print Assumptions C02_needs_semicolon.

(* text with unbalanced parentheses is rejected (skeleton: the delimiters outside quotes and comments, as an
   independent scanner that tracks only the quote flag and the current field) *)
Theorem C02_balanced : forall (L : Type) (parse_len : str -> option L) (s : str) (t : @arena L),
  from_newick parse_len s = Ok t -> balanced (skeleton s) = true.
Proof. exact parse_balanced. Qed.
Print Assumptions C02_balanced.

(* C02_normal_form_partial: "the written form parses back to an equal tree and is written identically again" is the
   round-trip theorem of C01 applied to parser outputs; it is not yet a theorem here and is evaluated on every
   case by the correspondence check (a test). *)
