(* C02 — placeholder until lemmas/ParserProps.v lands *)
From PT Require Import Newick.
Theorem C02_placeholder : True. Proof. exact I. Qed.
Print Assumptions C02_placeholder.
