(* C04 — placeholder until the lemmas land *)
From PT Require Import Queries.
Theorem C04_placeholder : True. Proof. exact I. Qed.
Print Assumptions C04_placeholder.
