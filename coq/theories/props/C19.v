(* C19 — placeholder until the lemmas land *)
From PT Require Import Queries.
Theorem C19_placeholder : True. Proof. exact I. Qed.
Print Assumptions C19_placeholder.
