(* C08 — placeholder until the lemmas land *)
From PT Require Import Queries.
Theorem C08_placeholder : True. Proof. exact I. Qed.
Print Assumptions C08_placeholder.
