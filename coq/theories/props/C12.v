(* C12 — placeholder until the lemmas land *)
From PT Require Import Queries.
Theorem C12_placeholder : True. Proof. exact I. Qed.
Print Assumptions C12_placeholder.
