(* C15 — placeholder until the lemmas land *)
From PT Require Import Queries.
Theorem C15_placeholder : True. Proof. exact I. Qed.
Print Assumptions C15_placeholder.
