(* C17 — placeholder until the lemmas land *)
From PT Require Import Queries.
Theorem C17_placeholder : True. Proof. exact I. Qed.
Print Assumptions C17_placeholder.
