(* C14 — placeholder until the lemmas land *)
From PT Require Import Queries.
Theorem C14_placeholder : True. Proof. exact I. Qed.
Print Assumptions C14_placeholder.
