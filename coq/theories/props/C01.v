(* C01 — Newick write-then-parse round trip is lossless.
   Statements only; proofs in lemmas/RoundTrip.v.  Model: Newick.v (to_newick, from_newick).
   Lengths are abstract: L with print_len (Rust `{v}` Display) and parse_len (str::parse::<f64>); the two
   premises H1/H2 state what the property needs from std and are visible in every statement (trusted for
   f64, checked on every run by the harness on all values it uses):
     H1  forall l, ok_len l -> parse_len (print_len l) = Some l        (ok_len: not NaN)
     H2  print_len l is non-empty and contains no Newick metacharacter and no whitespace.
   ltree: rose trees labelled with (name, length, comment); LRep t p d i r: slot i of arena t represents r with
   exactly those labels; labels_ok: names None or non-empty, metacharacters / whitespace only inside balanced
   double quotes (name_okb); comments None or non-empty without ']'; lengths None or ok_len; the root may carry
   all three.  Shape, child order, names, comments and lengths of the re-parsed tree are those of r (LRep ... r:
   Leibniz equality on L = bit identity), and writing it again gives the identical text. *)
From PT Require Import Arena Spec Queries Newick RoundTrip.

Theorem C01_round_trip :
  forall (L : Type) (print_len : L -> str) (parse_len : str -> option L) (ok_len : L -> Prop),
  (forall l : L, ok_len l -> parse_len (print_len l) = Some l) ->
  (forall l : L, print_len l <> [] /\ Forall safe_char (print_len l)) ->
  forall (t : @arena L) (root d : nat) (r : ltree L) (txt : rstr),
  LRep t None d root r -> get_root t = Ok root -> labels_ok ok_len r -> to_newick t = Ok txt ->
  exists t' : arena,
    from_newick parse_len (flatten print_len txt) = Ok t' /\
    LRep t' None 0 0 r /\ Rep t' None 0 0 (skel 0 r) /\ ids (skel 0 r) = seq 0 (length t') /\ WF t' /\
    to_newick t' = Ok txt.
Proof. exact round_trip. Qed.
Print Assumptions C01_round_trip.

(* the same for any well-formed arena (removed slots anywhere), labels read off the arena *)
Theorem C01_round_trip_WF :
  forall (L : Type) (print_len : L -> str) (parse_len : str -> option L) (ok_len : L -> Prop),
  (forall l : L, ok_len l -> parse_len (print_len l) = Some l) ->
  (forall l : L, print_len l <> [] /\ Forall safe_char (print_len l)) ->
  forall (t : @arena L) (root : nat) (sk : rtree) (txt : rstr),
  Rep t None 0 root sk -> (forall i : nat, live t i -> In i (ids sk)) ->
  labels_ok ok_len (decorate t sk) -> to_newick t = Ok txt ->
  exists t' : arena,
    from_newick parse_len (flatten print_len txt) = Ok t' /\
    LRep t' None 0 0 (decorate t sk) /\ Rep t' None 0 0 (skel 0 (decorate t sk)) /\
    ids (skel 0 (decorate t sk)) = seq 0 (length t') /\ WF t' /\ to_newick t' = Ok txt.
Proof. exact round_trip_WF. Qed.
Print Assumptions C01_round_trip_WF.

(* the writer alone: the text is the textbook rendering of the represented tree *)
Theorem C01_write : forall (L : Type) (t : @arena L) (root d : nat) (r : ltree L),
  LRep t None d root r -> get_root t = Ok root -> to_newick t = Ok (rprint r ++ [C ch_semi]).
Proof. exact @write_correct. Qed.
Print Assumptions C01_write.

(* the parser on any printed tree with admissible labels (single nodes, unary, multifurcating, unnamed ...) *)
Theorem C01_parse_print :
  forall (L : Type) (print_len : L -> str) (parse_len : str -> option L) (ok_len : L -> Prop),
  (forall l : L, ok_len l -> parse_len (print_len l) = Some l) ->
  (forall l : L, print_len l <> [] /\ Forall safe_char (print_len l)) ->
  forall r : ltree L, labels_ok ok_len r ->
  exists t' : arena,
    from_newick parse_len (lprint print_len r ++ [ch_semi]) = Ok t' /\
    SRep t' None 0 (skel 0 r) r /\ LRep t' None 0 0 r /\ Rep t' None 0 0 (skel 0 r) /\
    ids (skel 0 r) = seq 0 (length t') /\ WF t'.
Proof. exact parse_print. Qed.
Print Assumptions C01_parse_print.

(* non-vacuity: H1/H2 are satisfiable (L := bool printed as "1"/"0") and a concrete arena with a removed slot and its root
   in slot 2, for the text (A:1,:0)R[c]; , meets the premises of C01_round_trip *)
Theorem C01_example :
  exists t' : @arena bool,
    from_newick Example.ps [40;65;58;49;44;58;48;41;82;91;99;93;59]%N = Ok t' /\
    LRep t' None 0 0 Example.r_ex /\ WF t' /\ to_newick t' = Ok (rprint Example.r_ex ++ [C ch_semi]).
Proof. destruct Example.ex_round_trip as [t' [H1 [H2 [_ [_ [H5 H6]]]]]]. exists t'. repeat split; assumption. Qed.
Print Assumptions C01_example.
(* Known finding KF1 (not covered, excluded by labels_ok): a name or comment that is the empty string. *)
