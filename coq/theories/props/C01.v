(* C01 — placeholder until the round-trip lemmas land *)
From PT Require Import Newick.
Theorem C01_placeholder : True. Proof. exact I. Qed.
Print Assumptions C01_placeholder.
