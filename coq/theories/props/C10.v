(* C10 — traversals and subtree listings enumerate exactly the subtree, in order.
   Statements only; proofs in lemmas/Traversals.v.  Model: Arena.v (fuelled transcriptions of the recursive /
   queue-based Rust functions); spec: Spec.v (pre, post, level, ino, rleaves on rose trees).
   `Rep t p d i r` : slot i of arena t represents rose tree r; other slots of the arena (removed ones included)
   are unconstrained, so the theorems hold from every start node of arenas containing removed slots. *)
From Coq Require Import Permutation.
From PT Require Import Arena Spec Traversals.

Theorem C10_preorder : forall (L : Type) (t : @arena L) p d i r,
  Rep t p d i r -> NoDup (ids r) -> preorder t i = Ok (pre r).
Proof. exact @preorder_refines. Qed.
Print Assumptions C10_preorder.

Theorem C10_postorder : forall (L : Type) (t : @arena L) p d i r,
  Rep t p d i r -> NoDup (ids r) -> postorder t i = Ok (post r).
Proof. exact @postorder_refines. Qed.
Print Assumptions C10_postorder.

Theorem C10_levelorder : forall (L : Type) (t : @arena L) p d i r,
  Rep t p d i r -> NoDup (ids r) -> levelorder t i = Ok (level r).
Proof. exact @levelorder_refines. Qed.
Print Assumptions C10_levelorder.

Theorem C10_inorder_binary : forall (L : Type) (t : @arena L) p d i r,
  Rep t p d i r -> NoDup (ids r) -> max_arity r <= 2 -> inorder t i = Ok (ino r).
Proof. exact @inorder_refines_binary. Qed.
Print Assumptions C10_inorder_binary.

Theorem C10_inorder_refuses : forall (L : Type) (t : @arena L) p d i r,
  Rep t p d i r -> NoDup (ids r) -> 2 < max_arity r -> inorder t i = Err IsNotBinary.
Proof. exact @inorder_refuses. Qed.
Print Assumptions C10_inorder_refuses.

Theorem C10_subtree : forall (L : Type) (t : @arena L) p d i r,
  Rep t p d i r -> NoDup (ids r) -> get_subtree t i = Ok (pre r).
Proof. exact @get_subtree_refines. Qed.
Print Assumptions C10_subtree.

Theorem C10_descendants : forall (L : Type) (t : @arena L) p d i r,
  Rep t p d i r -> NoDup (ids r) -> get_descendants t i = Ok (tl (pre r)).
Proof. exact @get_descendants_refines. Qed.
Print Assumptions C10_descendants.

Theorem C10_subtree_leaves : forall (L : Type) (t : @arena L) p d i r,
  Rep t p d i r -> NoDup (ids r) -> get_subtree_leaves t i = Ok (rleaves r).
Proof. exact @get_subtree_leaves_refines. Qed.
Print Assumptions C10_subtree_leaves.

Theorem C10_removed_start : forall (L : Type) (t : @arena L) (i : nat),
  (forall n : node, nth_error t i = Some n -> ndeleted n = true) ->
  preorder t i = Err NodeNotFound /\ postorder t i = Err NodeNotFound /\
  inorder t i = Err NodeNotFound /\ levelorder t i = Err NodeNotFound.
Proof. exact @traversal_dead_start. Qed.
Print Assumptions C10_removed_start.

(* spec level: each traversal lists every node of the subtree exactly once (permutations of one another; with
   NoDup (ids r) "exactly once"), parents before children in pre-order, children before parents in post-order,
   level order by non-decreasing depth *)
Theorem C10_pre_post_perm : forall r, Permutation (pre r) (post r).
Proof. exact pre_post_perm. Qed.
Print Assumptions C10_pre_post_perm.
Theorem C10_pre_level_perm : forall r, Permutation (pre r) (level r).
Proof. exact pre_level_perm. Qed.
Print Assumptions C10_pre_level_perm.
Theorem C10_pre_parent_first : forall r i cs c,
  subtree (RT i cs) r -> In c cs -> exists l1 l2 l3, pre r = l1 ++ i :: l2 ++ rid c :: l3.
Proof. exact pre_parent_before_child. Qed.
Print Assumptions C10_pre_parent_first.
Theorem C10_post_child_first : forall r i cs c,
  subtree (RT i cs) r -> In c cs -> exists l1 l2 l3, post r = l1 ++ rid c :: l2 ++ i :: l3.
Proof. exact post_child_before_parent. Qed.
Print Assumptions C10_post_child_first.
Theorem C10_level_by_depth : forall r l1 x l2 y l3, NoDup (ids r) ->
  level r = l1 ++ x :: l2 ++ y :: l3 ->
  exists dx dy, rdepth_of x r = Some dx /\ rdepth_of y r = Some dy /\ dx <= dy.
Proof. exact level_depth_monotone. Qed.
Print Assumptions C10_level_by_depth.
(* C10_leaves_partial: whole-tree get_leaves lists the leaves in ARENA order (a permutation of rleaves of the
   root's tree); stated and tested by the correspondence check, not yet a theorem. *)
