(* C10 — placeholder until lemmas/Traversals.v lands *)
From PT Require Import Arena.
Theorem C10_placeholder : True. Proof. exact I. Qed.
Print Assumptions C10_placeholder.
