(* C11 — placeholder until the lemmas land *)
From PT Require Import Queries.
Theorem C11_placeholder : True. Proof. exact I. Qed.
Print Assumptions C11_placeholder.
