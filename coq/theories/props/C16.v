(* C16 — placeholder until the lemmas land *)
From PT Require Import Queries.
Theorem C16_placeholder : True. Proof. exact I. Qed.
Print Assumptions C16_placeholder.
