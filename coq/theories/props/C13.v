(* C13 — distance-matrix storage is a faithful symmetric table.
   Statements only; proofs in lemmas/Tril.v.  Model: Queries.v (tril_idx), Matrix.v (tril_inv, dm_get, dm_set, ...).
   All index theorems are over nat, unbounded in the matrix size n. *)
From PT Require Import Arena Queries Matrix Tril.

Theorem C13_tril_sym : forall i j, tril_idx i j = tril_idx j i.
Proof. exact tril_sym. Qed.
Print Assumptions C13_tril_sym.
Theorem C13_tril_lt : forall n i j, j < i -> i < n -> tril_idx i j < n * (n - 1) / 2.
Proof. exact tril_lt. Qed.
Print Assumptions C13_tril_lt.
Theorem C13_tril_inj : forall i j i' j', j < i -> j' < i' -> tril_idx i j = tril_idx i' j' -> i = i' /\ j = j'.
Proof. exact tril_inj. Qed.
Print Assumptions C13_tril_inj.
Theorem C13_tril_inv_l : forall i j, j < i -> tril_inv (tril_idx i j) = (i, j).
Proof. exact tril_inv_l. Qed.
Print Assumptions C13_tril_inv_l.
Theorem C13_tril_inv_r : forall k, let '(i, j) := tril_inv k in j < i /\ tril_idx i j = k.
Proof. exact tril_inv_r. Qed.
Print Assumptions C13_tril_inv_r.
Theorem C13_tril_surj : forall n k, k < n * (n - 1) / 2 ->
  let '(i, j) := tril_inv k in j < i /\ i < n /\ tril_idx i j = k.
Proof. exact tril_surj. Qed.
Print Assumptions C13_tril_surj.

Theorem C13_get_set_same : forall (L : Type) (O : LenOps L) (m m' : @dmat L) (a b : str) (v : L),
  a <> b -> dm_set O m a b v = Ok m' -> dm_get O m' a b = Ok v /\ dm_get O m' b a = Ok v.
Proof. exact @get_set_same. Qed.
Print Assumptions C13_get_set_same.
Theorem C13_get_set_other : forall (L : Type) (O : LenOps L) (m m' : @dmat L) (a b c d : str) (v : L),
  (c, d) <> (a, b) -> (c, d) <> (b, a) -> dm_set O m a b v = Ok m' -> dm_get O m' c d = dm_get O m c d.
Proof. exact @get_set_other. Qed.
Print Assumptions C13_get_set_other.
Theorem C13_get_diag : forall (L : Type) (O : LenOps L) (m : @dmat L) (a : str), dm_get O m a a = Ok (l0 O).
Proof. exact @get_diag. Qed.
Print Assumptions C13_get_diag.
Theorem C13_indexed_agrees : forall (L : Type) (m : @dmat L) (i j : nat) (v : L),
  In (i, j, v) (dm_indexed m) -> j < i /\ nth_error (mcells m) (tril_idx i j) = Some v.
Proof. exact @indexed_agrees. Qed.
Print Assumptions C13_indexed_agrees.
Theorem C13_to_map_agrees : forall (L : Type) (O : LenOps L) (m : @dmat L) (l : list (str * str * L)),
  dm_to_map O m = Ok l ->
  (forall (a b : str) (v : L), In (a, b, v) l -> dm_get O m a b = Ok v) /\
  map fst l = list_prod (mtaxa m) (mtaxa m) /\ length l = length (mtaxa m) * length (mtaxa m).
Proof. exact @to_map_agrees. Qed.
Print Assumptions C13_to_map_agrees.
Theorem C13_min_is_min : forall (L : Type) (O : LenOps L),
  (forall x : L, lltb O x x = false) ->
  (forall x y z : L, lltb O x y = true -> lltb O y z = true -> lltb O x z = true) ->
  (forall x y z : L, lltb O x y = true -> lltb O x z = true \/ lltb O z y = true) ->
  forall (m : @dmat L) (i j : nat) (v : L),
  dm_min O m = Some (i, j, v) ->
  exists k : nat,
    nth_error (mcells m) k = Some v /\ tril_inv k = (i, j) /\ j < i /\ tril_idx i j = k /\
    (forall (k' : nat) (w : L), nth_error (mcells m) k' = Some w -> lltb O w v = false) /\
    (forall (k' : nat) (w : L), k' < k -> nth_error (mcells m) k' = Some w -> lltb O v w = true).
Proof. exact @min_is_min. Qed.
Print Assumptions C13_min_is_min.
(* C13_fl_inv_partial: the crate computes the inverse with f64 sqrt; that the float pipeline agrees with the integer
   square root used by tril_inv for every k < 2^50 is checked by the boundary sweep of the correspondence check
   through the hook (every triangular number T p < 2^50 and its neighbours), not yet lifted to a theorem. *)
