(* C09 — placeholder until lemmas/Paths.v lands *)
From PT Require Import Arena.
Theorem C09_placeholder : True. Proof. exact I. Qed.
Print Assumptions C09_placeholder.
