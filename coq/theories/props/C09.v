(* C09 — paths, common ancestors and node-to-node distances are exact.
   Statements only; proofs in lemmas/Paths.v.  Model: Arena.v (get_path_from_root, get_common_ancestor),
   Queries.v (get_distance); spec: Spec.v (rpath) and Paths.v (anc, cpl, path_len, edge_of).
   Hypotheses: the arena represents the rose tree r (Rep, any mixture of present / absent lengths). *)
From PT Require Import Arena Spec Queries Paths.

(* the root path lists the ancestors from the root down to the node *)
Theorem C09_path : forall (L : Type) (t : @arena L) (root : nat) (r : rtree) (x : nat),
  Rep t None 0 root r -> NoDup (ids r) -> In x (ids r) ->
  exists p : list nat, get_path_from_root t x = Ok p /\ rpath x r = Some p.
Proof. exact @path_refines. Qed.
Print Assumptions C09_path.

(* the reported common ancestor is the deepest shared ancestor *)
Theorem C09_lca : forall (L : Type) (t : @arena L) (root : nat) (r : rtree) (a b : nat),
  Rep t None 0 root r -> NoDup (ids r) -> In a (ids r) -> In b (ids r) ->
  exists c : nat, get_common_ancestor t a b = Ok c /\ anc r c a /\ anc r c b /\
                  (forall z : nat, anc r z a -> anc r z b -> anc r z c).
Proof. exact @lca_refines. Qed.
Print Assumptions C09_lca.

(* edge count = length of the path; length = sum of the branch lengths on it, or absent when one is missing *)
Theorem C09_dist : forall (L : Type) (O : LenOps L) (t : @arena L) (root : nat) (r : rtree) (a b : nat),
  Rep t None 0 root r -> NoDup (ids r) -> In a (ids r) -> In b (ids r) ->
  exists pa pb : list nat, rpath a r = Some pa /\ rpath b r = Some pb /\
    (let ta := skipn (cpl pa pb) pa in
     let tb := skipn (cpl pa pb) pb in
     get_distance O t a b = Ok (path_len O (map (edge_of t) (ta ++ tb)), length ta + length tb)).
Proof. exact @dist_refines. Qed.
Print Assumptions C09_dist.

(* ... and rev ta ++ c :: tb IS the unique simple path between a and b in the tree *)
Theorem C09_tree_path_unique : forall (r : rtree) (a b : nat) (pa pb P : list nat) (c : nat),
  NoDup (ids r) -> rpath a r = Some pa -> rpath b r = Some pb -> NoDup P -> linked (radj r) P ->
  (exists m : list nat, P = a :: m) -> (exists m : list nat, P = m ++ [b]) ->
  nth_error pa (cpl pa pb - 1) = Some c -> P = rev (skipn (cpl pa pb) pa) ++ c :: skipn (cpl pa pb) pb.
Proof. exact tree_path_unique. Qed.
Print Assumptions C09_tree_path_unique.

Theorem C09_dist_sym : forall (L : Type) (O : LenOps L),
  (forall x y z : L, ladd O x (ladd O y z) = ladd O (ladd O x y) z) ->
  (forall x y : L, ladd O x y = ladd O y x) ->
  (forall x : L, ladd O (l0 O) x = x) ->
  forall (t : @arena L) (root : nat) (r : rtree) (a b : nat),
  Rep t None 0 root r -> NoDup (ids r) -> In a (ids r) -> In b (ids r) ->
  get_distance O t a b = get_distance O t b a.
Proof. exact @dist_sym. Qed.
Print Assumptions C09_dist_sym.

Theorem C09_lca_sym : forall (L : Type) (t : @arena L) (root : nat) (r : rtree) (a b : nat),
  Rep t None 0 root r -> NoDup (ids r) -> In a (ids r) -> In b (ids r) ->
  get_common_ancestor t a b = get_common_ancestor t b a.
Proof. exact @lca_sym. Qed.
Print Assumptions C09_lca_sym.

Theorem C09_dist_self : forall (L : Type) (O : LenOps L) (t : @arena L) (a : nat),
  get_distance O t a a = Ok (Some (l0 O), 0).
Proof. exact @dist_self. Qed.
Print Assumptions C09_dist_self.

Theorem C09_lca_self : forall (L : Type) (t : @arena L) (a : nat), get_common_ancestor t a a = Ok a.
Proof. exact @lca_self. Qed.
Print Assumptions C09_lca_self.
