(* C18 — command-line subcommands agree with the library semantics.
   The report subcommands print library queries (theorems of C08, C09, C12, C06, C07 apply to the values), the transform
   subcommands are compositions of library operations: remove = compress after prune of each named tip, rescale, resolve
   (theorems of C11 apply).  Statements below restate the contracts of the compositions on the model; the process layer
   (argument parsing, files, exit status) is outside the model (partial) and observed by running the real binary. *)
From PT Require Import Arena Spec Queries RepLib WFOps Paths Effects.

(* remove: pruning tips then compressing keeps the arena well formed and leaves no non-root node with a single child *)
Theorem C18_remove_wf : forall (L : Type) (O : LenOps L) (t : @arena L) (tips : list nat),
  WFS t -> WFS (snd (compress O (fold_left (fun a x => match prune a x with Ok a' => a' | _ => a end) tips t))).
Proof.
  intros L O t tips H. apply compress_wf.
  revert t H. induction tips as [|x xs IH]; intros t H; cbn [fold_left]; [exact H|].
  apply IH. destruct (prune t x) eqn:E; try exact H. eapply prune_wf; eauto.
Qed.
Print Assumptions C18_remove_wf.

Theorem C18_remove_no_unary : forall (L : Type) (O : LenOps L) (t t' : @arena L),
  WFS t -> fst (compress O t) = Ok t' -> snd (compress O t) = t' /\ WFS t' /\ (forall j : nat, ~ unary t' j).
Proof. exact @compress_post. Qed.
Print Assumptions C18_remove_no_unary.
