(* C18 — placeholder until the lemmas land *)
From PT Require Import Queries.
Theorem C18_placeholder : True. Proof. exact I. Qed.
Print Assumptions C18_placeholder.
