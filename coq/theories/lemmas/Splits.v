(* Splits.v — bipartitions (property C05): bit-list algebra, leaf index, get_partition, get_partitions,
   and spec-level invariances of the split set. *)
From Coq Require Import List Arith NArith Lia Bool Permutation Sorted.
From PT Require Import Arena Spec Queries RepLib.
From PT Require Traversals.
Import ListNotations.

Local Arguments ids : simpl never.

(* ================================================================================================ *)
(* A. bit-list algebra                                                                              *)
(* ================================================================================================ *)
Lemma compl_involutive b : compl (compl b) = b.
Proof. unfold compl. rewrite map_map. rewrite <- (map_id b) at 2. apply map_ext. intros []; reflexivity. Qed.

Lemma compl_length b : length (compl b) = length b.
Proof. apply map_length. Qed.

Lemma compl_inj a b : compl a = compl b -> a = b.
Proof. intros H. rewrite <- (compl_involutive a), H. apply compl_involutive. Qed.

Lemma count_ones_compl_sum b : count_ones (compl b) + count_ones b = length b.
Proof.
  unfold count_ones, compl. induction b as [|[] b IH]; simpl; auto; lia.
Qed.

Lemma count_ones_le b : count_ones b <= length b.
Proof. pose proof (count_ones_compl_sum b). lia. Qed.

Lemma count_ones_compl b : count_ones (compl b) = length b - count_ones b.
Proof. pose proof (count_ones_compl_sum b). lia. Qed.

Lemma block_val_inj : forall a b, length a = length b -> block_val a = block_val b -> a = b.
Proof.
  induction a as [|x a IH]; intros [|y b] Hl Hv; cbn [block_val length] in *; try discriminate; auto.
  assert (x = y /\ block_val a = block_val b) as [-> Hv'].
  { destruct x, y; split; auto; lia. }
  f_equal. apply IH; auto.
Qed.

(* b and its complement differ as soon as b is non-empty *)
Lemma compl_neq b : b <> [] -> compl b <> b.
Proof. destruct b as [|[] b]; simpl; congruence. Qed.

(* trichotomy of the block-wise comparison on equal-length lists *)
Lemma fbs_ltb_f_tri : forall fuel a b,
  length a = length b -> length a < fuel ->
  (a = b /\ fbs_ltb_f fuel a b = false) \/
  (a <> b /\ fbs_ltb_f fuel a b = negb (fbs_ltb_f fuel b a)).
Proof.
  induction fuel as [|f IH]; intros a b Hl Hf; [lia|].
  destruct a as [|x a], b as [|y b]; try discriminate.
  - left. auto.
  - remember (x :: a) as A. remember (y :: b) as B.
    assert (HA : length A > 0) by (subst; simpl; lia).
    assert (HB : length B > 0) by (subst; simpl; lia).
    assert (EA : fbs_ltb_f (S f) A B =
                 if N.ltb (block_val (firstn 32 A)) (block_val (firstn 32 B)) then true
                 else if N.ltb (block_val (firstn 32 B)) (block_val (firstn 32 A)) then false
                 else fbs_ltb_f f (skipn 32 A) (skipn 32 B)).
    { subst. reflexivity. }
    assert (EB : fbs_ltb_f (S f) B A =
                 if N.ltb (block_val (firstn 32 B)) (block_val (firstn 32 A)) then true
                 else if N.ltb (block_val (firstn 32 A)) (block_val (firstn 32 B)) then false
                 else fbs_ltb_f f (skipn 32 B) (skipn 32 A)).
    { subst. reflexivity. }
    rewrite EA, EB. clear EA EB HeqA HeqB x y a b.
    destruct (N.ltb_spec (block_val (firstn 32 A)) (block_val (firstn 32 B))) as [H1|H1].
    + right. destruct (N.ltb_spec (block_val (firstn 32 B)) (block_val (firstn 32 A))); [lia|].
      split; auto. intros ->. lia.
    + destruct (N.ltb_spec (block_val (firstn 32 B)) (block_val (firstn 32 A))) as [H2|H2].
      * right. split; auto. intros ->. lia.
      * assert (Hfst : firstn 32 A = firstn 32 B).
        { apply block_val_inj; [rewrite !firstn_length; lia | lia]. }
        destruct (IH (skipn 32 A) (skipn 32 B)) as [[He Hv]|[Hne Hv]].
        -- rewrite !skipn_length. lia.
        -- rewrite skipn_length. lia.
        -- left. split; auto.
           rewrite <- (firstn_skipn 32 A), <- (firstn_skipn 32 B). congruence.
        -- right. split; auto. intros ->. auto.
Qed.

Lemma fbs_ltb_irrefl a : fbs_ltb a a = false.
Proof.
  unfold fbs_ltb. destruct (fbs_ltb_f_tri (S (length a)) a a) as [[_ H]|[H _]]; auto; try lia. congruence.
Qed.

Lemma fbs_ltb_total a b : length a = length b -> a <> b -> fbs_ltb a b = negb (fbs_ltb b a).
Proof.
  intros Hl Hne. unfold fbs_ltb. rewrite <- Hl.
  destruct (fbs_ltb_f_tri (S (length a)) a b) as [[H _]|[_ H]]; auto; try lia. congruence.
Qed.

Lemma fbs_ltb_asym a b : length a = length b -> fbs_ltb a b = true -> fbs_ltb b a = false.
Proof.
  intros Hl H. destruct (list_eq_dec Bool.bool_dec a b) as [->|Hne].
  - rewrite fbs_ltb_irrefl in H. discriminate.
  - rewrite (fbs_ltb_total a b Hl Hne) in H. destruct (fbs_ltb b a); auto; discriminate.
Qed.

Lemma fbs_ltb_f_S f a b : a <> [] -> b <> [] ->
  fbs_ltb_f (S f) a b =
  if N.ltb (block_val (firstn 32 a)) (block_val (firstn 32 b)) then true
  else if N.ltb (block_val (firstn 32 b)) (block_val (firstn 32 a)) then false
  else fbs_ltb_f f (skipn 32 a) (skipn 32 b).
Proof. destruct a, b; try congruence. reflexivity. Qed.

Lemma fbs_ltb_f_trans : forall fuel a b c,
  length a = length b -> length b = length c -> length a < fuel ->
  fbs_ltb_f fuel a b = true -> fbs_ltb_f fuel b c = true -> fbs_ltb_f fuel a c = true.
Proof.
  induction fuel as [|f IH]; intros a b c Hab Hbc Hf H1 H2; [lia|].
  assert (Ha : a <> []) by (intros ->; discriminate).
  assert (Hb : b <> []) by (intros ->; destruct a; discriminate).
  assert (Hc : c <> []) by (intros ->; destruct b; [congruence|discriminate]).
  rewrite fbs_ltb_f_S in * by auto.
  assert (Hla : length a > 0) by (destruct a; simpl; [congruence|lia]).
  destruct (N.ltb_spec (block_val (firstn 32 a)) (block_val (firstn 32 b))),
           (N.ltb_spec (block_val (firstn 32 b)) (block_val (firstn 32 a))),
           (N.ltb_spec (block_val (firstn 32 b)) (block_val (firstn 32 c))),
           (N.ltb_spec (block_val (firstn 32 c)) (block_val (firstn 32 b))),
           (N.ltb_spec (block_val (firstn 32 a)) (block_val (firstn 32 c))),
           (N.ltb_spec (block_val (firstn 32 c)) (block_val (firstn 32 a)));
    try discriminate; try lia; auto.
  apply (IH _ (skipn 32 b)); auto; rewrite ?skipn_length; lia.
Qed.

(* on bit lists of one length, fbs_ltb is a strict total order *)
Lemma fbs_ltb_trans a b c : length a = length b -> length b = length c ->
  fbs_ltb a b = true -> fbs_ltb b c = true -> fbs_ltb a c = true.
Proof.
  unfold fbs_ltb. intros Hab Hbc. rewrite <- Hab. apply fbs_ltb_f_trans; auto.
Qed.

Lemma canon_cases b : canon b = b \/ canon b = compl b.
Proof. unfold canon. destruct (fbs_ltb b (compl b)); auto. Qed.

Lemma canon_length b : length (canon b) = length b.
Proof. destruct (canon_cases b) as [->| ->]; auto using compl_length. Qed.

Lemma canon_compl b : canon (compl b) = canon b.
Proof.
  unfold canon. rewrite compl_involutive.
  destruct b as [|x b]; [reflexivity|].
  rewrite (fbs_ltb_total (compl (x :: b)) (x :: b)).
  - destruct (fbs_ltb (x :: b) (compl (x :: b))); reflexivity.
  - apply compl_length.
  - apply compl_neq. discriminate.
Qed.

Theorem canon_eq_iff b b' : canon b = canon b' <-> b' = b \/ b' = compl b.
Proof.
  split.
  - intros H. destruct (canon_cases b) as [E|E], (canon_cases b') as [E'|E']; rewrite E, E' in H.
    + auto.
    + right. rewrite H. symmetry. apply compl_involutive.
    + auto.
    + left. symmetry. apply compl_inj; auto.
  - intros [-> | ->]; auto using canon_compl.
Qed.

(* the filter of init_partitions does not depend on the representative *)
Definition trivial_part (p : bits) : bool :=
  Nat.ltb (count_ones p) 2 || Nat.ltb (length p) (count_ones p + 2).

Lemma trivial_part_spec p : trivial_part p = false <-> 2 <= count_ones p /\ count_ones p + 2 <= length p.
Proof.
  unfold trivial_part. rewrite orb_false_iff, !Nat.ltb_ge. tauto.
Qed.

Lemma trivial_part_compl p : trivial_part (compl p) = trivial_part p.
Proof.
  apply eq_true_iff_eq. rewrite <- !not_false_iff_true, !trivial_part_spec.
  rewrite count_ones_compl, compl_length. pose proof (count_ones_le p). lia.
Qed.

Lemma trivial_part_canon p : trivial_part (canon p) = trivial_part p.
Proof. destruct (canon_cases p) as [->| ->]; auto using trivial_part_compl. Qed.

(* both sides of a kept split hold at least two leaves *)
Lemma trivial_part_sides p :
  trivial_part p = false <-> 2 <= count_ones p /\ 2 <= count_ones (compl p).
Proof.
  rewrite trivial_part_spec, count_ones_compl. pose proof (count_ones_le p). lia.
Qed.

(* ================================================================================================ *)
(* generic helpers                                                                                  *)
(* ================================================================================================ *)
Lemma str_eqb_iff a b : str_eqb a b = true <-> a = b.
Proof.
  revert b. induction a as [|x a IH]; intros [|y b]; simpl; split; intros H; try reflexivity; try discriminate.
  - apply andb_true_iff in H as [H1 H2]. apply N.eqb_eq in H1. apply IH in H2. congruence.
  - injection H as -> ->. apply andb_true_iff. split; [apply N.eqb_refl | apply IH; reflexivity].
Qed.

Lemma str_eqb_rfl a : str_eqb a a = true.
Proof. apply str_eqb_iff. reflexivity. Qed.

Lemma str_eqb_false a b : str_eqb a b = false <-> a <> b.
Proof. rewrite <- str_eqb_iff. destruct (str_eqb a b); split; congruence. Qed.

Lemma str_eqb_sym a b : str_eqb a b = str_eqb b a.
Proof.
  apply eq_true_iff_eq. rewrite !str_eqb_iff. split; congruence.
Qed.

Definition str_eq_dec (a b : str) : {a = b} + {a <> b} := list_eq_dec N.eq_dec a b.

Lemma mem_str_In x l : mem_str x l = true <-> In x l.
Proof.
  unfold mem_str. rewrite existsb_exists. split.
  - intros (y & Hy & E). apply str_eqb_iff in E. subst. auto.
  - intros H. exists x. split; auto using str_eqb_rfl.
Qed.

Lemma mem_str_false x l : mem_str x l = false <-> ~ In x l.
Proof. rewrite <- mem_str_In. destruct (mem_str x l); split; congruence. Qed.

Lemma bits_eqb_iff a b : bits_eqb a b = true <-> a = b.
Proof.
  unfold bits_eqb. revert b. induction a as [|x a IH]; intros [|y b]; simpl; split; intros H;
    try reflexivity; try discriminate.
  - apply andb_true_iff in H as [H1 H2]. apply Bool.eqb_prop in H1. apply IH in H2. congruence.
  - injection H as -> ->. apply andb_true_iff. split; [apply Bool.eqb_reflx | apply IH; reflexivity].
Qed.

Lemma mem_bits_In x l : mem_bits x l = true <-> In x l.
Proof.
  unfold mem_bits. rewrite existsb_exists. split.
  - intros (y & Hy & E). apply bits_eqb_iff in E. subst. auto.
  - intros H. exists x. split; auto. apply bits_eqb_iff. reflexivity.
Qed.

Lemma dedup_str_NoDup_id l : NoDup l -> dedup_str l = l.
Proof.
  induction 1 as [|x l Hx _ IH]; simpl; auto.
  apply mem_str_false in Hx. rewrite Hx, IH. reflexivity.
Qed.

Lemma find_str_nth x l : forall k, find_str x l = Some k -> nth_error l k = Some x.
Proof.
  unfold find_str. induction l as [|y l IH]; simpl; intros k H; [discriminate|].
  destruct (str_eqb x y) eqn:E.
  - injection H as <-. apply str_eqb_iff in E. subst. reflexivity.
  - destruct (find_index (str_eqb x) l) as [k'|]; simpl in H; [|discriminate].
    injection H as <-. simpl. auto.
Qed.

Lemma find_str_In x l : In x l -> exists k, find_str x l = Some k /\ k < length l.
Proof.
  unfold find_str. induction l as [|y l IH]; simpl; intros H; [tauto|].
  destruct (str_eqb x y) eqn:E.
  - exists 0. split; auto. lia.
  - destruct H as [->|H]; [rewrite str_eqb_rfl in E; discriminate|].
    destruct (IH H) as (k & -> & Hk). exists (S k). split; auto. lia.
Qed.

Lemma find_str_inj l x y k : find_str x l = Some k -> find_str y l = Some k -> x = y.
Proof. intros H1 H2. apply find_str_nth in H1, H2. congruence. Qed.

Lemma mapM_ok {A B} (g : A -> outcome B) (f : A -> B) l :
  (forall x, In x l -> g x = Ok (f x)) -> mapM g l = Ok (map f l).
Proof.
  induction l as [|x l IH]; simpl; intros H; auto.
  rewrite (H x) by auto. simpl. rewrite IH by auto. reflexivity.
Qed.

Lemma concat_map_singleton {A B} (f : A -> B) l : concat (map (fun x => [f x]) l) = map f l.
Proof. induction l; simpl; congruence. Qed.

Lemma NoDup_flat_map_sub {A B} (f g : A -> list B) l :
  NoDup (flat_map f l) -> (forall x, In x l -> incl (g x) (f x) /\ NoDup (g x)) -> NoDup (flat_map g l).
Proof.
  induction l as [|a l IH]; simpl; intros Hnd H; [constructor|].
  apply NoDup_app_iff in Hnd as (H1 & H2 & H3).
  apply NoDup_app_iff. repeat split.
  - apply H; auto.
  - apply IH; auto.
  - intros x Hx Hx'. apply (H3 x).
    + apply (proj1 (H a (or_introl eq_refl))); auto.
    + apply in_flat_map in Hx' as (c & Hc & Hxc). apply in_flat_map. exists c. split; auto.
      apply (proj1 (H c (or_intror Hc))); auto.
Qed.

Lemma count_ones_map {A} (f : A -> bool) l : count_ones (map f l) = length (filter f l).
Proof. unfold count_ones. induction l as [|x l IH]; simpl; auto. destruct (f x); simpl; auto. Qed.

(* ================================================================================================ *)
(* spec level: subtrees, clades, splits                                                             *)
(* ================================================================================================ *)
Fixpoint subtrees (r : rtree) : list rtree :=
  match r with RT i cs => RT i cs :: flat_map subtrees cs end.
Definition proper_subtrees (r : rtree) : list rtree := flat_map subtrees (rch r).
Definition internal (s : rtree) : bool := match rch s with [] => false | _ => true end.

Lemma subtrees_RT i cs : subtrees (RT i cs) = RT i cs :: flat_map subtrees cs.
Proof. reflexivity. Qed.

Lemma subtrees_self r : In r (subtrees r).
Proof. destruct r. simpl. auto. Qed.

Lemma subtrees_cases s r : In s (subtrees r) <-> s = r \/ In s (proper_subtrees r).
Proof. destruct r as [i cs]. unfold proper_subtrees. simpl. intuition. Qed.

Lemma map_rid_subtrees : forall r, map rid (subtrees r) = pre r.
Proof.
  induction r as [i cs IH] using rtree_ind'. simpl. f_equal.
  induction IH as [|c cs Hc _ IH']; simpl; auto. rewrite map_app, Hc, IH'. reflexivity.
Qed.

Lemma rleaves_child i c cs : In c cs -> incl (rleaves c) (rleaves (RT i cs)).
Proof.
  intros Hin x Hx. destruct cs as [|c0 cs0]; [destruct Hin|].
  change (In x (flat_map rleaves (c0 :: cs0))). apply in_flat_map. eauto.
Qed.

Lemma rleaves_cons i c cs : rleaves (RT i (c :: cs)) = flat_map rleaves (c :: cs).
Proof. reflexivity. Qed.

Lemma rleaves_internal s : internal s = true -> rleaves s = flat_map rleaves (rch s).
Proof. destruct s as [i [|c cs]]; simpl; [discriminate|auto]. Qed.

Lemma rleaves_incl_ids : forall r, incl (rleaves r) (ids r).
Proof.
  induction r as [i cs IH] using rtree_ind'. intros x Hx. rewrite ids_RT.
  destruct cs as [|c cs]; [simpl in Hx; simpl; tauto|].
  right. rewrite rleaves_cons in Hx. apply in_flat_map in Hx as (c' & Hc' & Hx).
  apply in_flat_map. exists c'. split; auto. rewrite Forall_forall in IH. apply IH; auto.
Qed.

Lemma rleaves_NoDup : forall r, NoDup (ids r) -> NoDup (rleaves r).
Proof.
  induction r as [i cs IH] using rtree_ind'. intros Hnd.
  destruct cs as [|c cs]; [simpl; repeat constructor; simpl; tauto|].
  rewrite rleaves_cons. rewrite ids_RT in Hnd. apply NoDup_cons_iff in Hnd as [_ Hnd'].
  eapply NoDup_flat_map_sub; [exact Hnd'|]. intros x Hx. split; [apply rleaves_incl_ids|].
  rewrite Forall_forall in IH. apply IH; auto. eapply NoDup_flat_map_in; eauto.
Qed.

Lemma rleaves_nonempty : forall r, rleaves r <> [].
Proof.
  induction r as [i cs IH] using rtree_ind'. destruct cs as [|c cs]; [simpl; discriminate|].
  rewrite rleaves_cons. simpl. inversion IH; subst. destruct (rleaves c); [congruence|discriminate].
Qed.

Lemma subtrees_ids_incl : forall r s, In s (subtrees r) -> incl (ids s) (ids r).
Proof.
  induction r as [i cs IH] using rtree_ind'. intros s Hs. rewrite subtrees_RT in Hs.
  destruct Hs as [<-|Hs]; [apply incl_refl|].
  apply in_flat_map in Hs as (c & Hc & Hs). rewrite Forall_forall in IH.
  intros x Hx. rewrite ids_RT. right. apply in_flat_map. exists c. split; auto. eapply IH; eauto.
Qed.

Lemma subtrees_leaves_incl : forall r s, In s (subtrees r) -> incl (rleaves s) (rleaves r).
Proof.
  induction r as [i cs IH] using rtree_ind'. intros s Hs. rewrite subtrees_RT in Hs.
  destruct Hs as [<-|Hs]; [apply incl_refl|].
  apply in_flat_map in Hs as (c & Hc & Hs). rewrite Forall_forall in IH.
  intros x Hx. eapply rleaves_child; eauto. eapply IH; eauto.
Qed.

Lemma subtrees_NoDup : forall r s, In s (subtrees r) -> NoDup (ids r) -> NoDup (ids s).
Proof.
  induction r as [i cs IH] using rtree_ind'. intros s Hs Hnd. rewrite subtrees_RT in Hs.
  destruct Hs as [<-|Hs]; auto.
  apply in_flat_map in Hs as (c & Hc & Hs). rewrite Forall_forall in IH.
  eapply IH; eauto. rewrite ids_RT in Hnd. inversion Hnd; subst. eapply NoDup_flat_map_in; eauto.
Qed.

Lemma subtrees_trans : forall r s u, In s (subtrees r) -> In u (subtrees s) -> In u (subtrees r).
Proof.
  induction r as [i cs IH] using rtree_ind'. intros s u Hs Hu. rewrite subtrees_RT in Hs.
  destruct Hs as [<-|Hs]; auto.
  apply in_flat_map in Hs as (c & Hc & Hs). rewrite Forall_forall in IH.
  rewrite subtrees_RT. right. apply in_flat_map. exists c. split; auto. eapply IH; eauto.
Qed.

(* with distinct ids, a subtree is determined by its root id *)
Lemma subtrees_rid_inj : forall r s s', NoDup (ids r) ->
  In s (subtrees r) -> In s' (subtrees r) -> rid s = rid s' -> s = s'.
Proof.
  induction r as [i cs IH] using rtree_ind'. intros s s' Hnd Hs Hs' E.
  rewrite ids_RT in Hnd. inversion Hnd as [|? ? Hni Hnd']; subst.
  rewrite subtrees_RT in Hs, Hs'.
  assert (Hsub : forall u, In u (flat_map subtrees cs) -> In (rid u) (flat_map ids cs)).
  { intros u Hu. apply in_flat_map in Hu as (c & Hc & Hu). apply in_flat_map. exists c. split; auto.
    eapply subtrees_ids_incl; eauto. apply In_rid_ids. }
  destruct Hs as [<-|Hs], Hs' as [<-|Hs']; auto.
  - exfalso. apply Hni. simpl in E. rewrite E. auto.
  - exfalso. apply Hni. simpl in E. rewrite <- E. auto.
  - apply in_flat_map in Hs as (c & Hc & Hs). apply in_flat_map in Hs' as (c' & Hc' & Hs').
    assert (c = c').
    { eapply flat_map_NoDup_inj with (f := ids) (j := rid s); eauto.
      - eapply subtrees_ids_incl; eauto. apply In_rid_ids.
      - rewrite E. eapply subtrees_ids_incl; eauto. apply In_rid_ids. }
    subst c'. rewrite Forall_forall in IH. eapply IH; eauto. eapply NoDup_flat_map_in; eauto.
Qed.

(* ---- clades as bit lists ---------------------------------------------------------------------- *)
Definition clade (nm : nat -> str) (s : rtree) : list str := map nm (rleaves s).
(* bit k is set iff the k-th name of the index belongs to S *)
Definition clade_bits (li S : list str) : bits := map (fun x => mem_str x S) li.
Definition rank (li : list str) (x : str) : nat := match find_str x li with Some k => k | None => 0 end.

Lemma clade_bits_length li S : length (clade_bits li S) = length li.
Proof. apply map_length. Qed.

Lemma map_const_repeat {A B} (b : B) (l : list A) : map (fun _ => b) l = repeat b (length l).
Proof. induction l; simpl; congruence. Qed.

Lemma set_bit_rank (f : str -> bool) li : forall y k, NoDup li -> find_str y li = Some k ->
  set_bit (map f li) k = map (fun x => f x || str_eqb x y) li.
Proof.
  unfold find_str. induction li as [|z li IH]; intros y k Hnd Hk; simpl in Hk; [discriminate|].
  apply NoDup_cons_iff in Hnd as [Hz Hnd]. destruct (str_eqb y z) eqn:E.
  - injection Hk as <-. apply str_eqb_iff in E. subst z. simpl. rewrite str_eqb_rfl, orb_true_r. f_equal.
    apply map_ext_in. intros x Hx. replace (str_eqb x y) with false; [rewrite orb_false_r; auto|].
    symmetry. apply str_eqb_false. intros ->. auto.
  - destruct (find_index (str_eqb y) li) as [k'|] eqn:F; simpl in Hk; [|discriminate].
    injection Hk as <-. simpl. rewrite (str_eqb_sym z y), E, orb_false_r. f_equal. apply IH; auto.
Qed.

Lemma fold_set_bit li : NoDup li -> forall S, incl S li -> forall f : str -> bool,
  fold_left set_bit (map (rank li) S) (map f li) = map (fun x => f x || mem_str x S) li.
Proof.
  intros Hnd. induction S as [|y S IH]; intros Hin f; cbn [map fold_left].
  - apply map_ext. intros x. simpl. rewrite orb_false_r. reflexivity.
  - destruct (find_str_In y li) as (k & Hk & _); [apply Hin; simpl; auto|].
    replace (rank li y) with k by (unfold rank; rewrite Hk; reflexivity).
    rewrite (set_bit_rank f li y k Hnd Hk).
    rewrite IH by (intros x Hx; apply Hin; simpl; auto).
    apply map_ext. intros x. simpl. rewrite orb_assoc. reflexivity.
Qed.

Lemma fold_set_bit_clade li S : NoDup li -> incl S li ->
  fold_left set_bit (map (rank li) S) (repeat false (length li)) = clade_bits li S.
Proof.
  intros Hnd Hin. rewrite <- (map_const_repeat false li). rewrite fold_set_bit; auto.
Qed.

Lemma count_ones_clade_bits li S : NoDup li -> NoDup S -> incl S li ->
  count_ones (clade_bits li S) = length S.
Proof.
  intros Hli HS Hin. unfold clade_bits. rewrite count_ones_map. apply Permutation_length.
  apply NoDup_Permutation; auto using NoDup_filter.
  intros x. rewrite filter_In, mem_str_In. split; [tauto|]. intros H. split; auto.
Qed.

Lemma compl_clade_bits li S : compl (clade_bits li S) = map (fun x => negb (mem_str x S)) li.
Proof. unfold compl, clade_bits. apply map_map. Qed.

(* S and S' name the same unordered pair {S, X \ S} *)
Definition same_split (X S S' : list str) : Prop :=
  (forall x, In x X -> (In x S <-> In x S')) \/ (forall x, In x X -> (In x S <-> ~ In x S')).

Lemma clade_bits_eq_iff li S S' :
  clade_bits li S = clade_bits li S' <-> forall x, In x li -> (In x S <-> In x S').
Proof.
  unfold clade_bits. etransitivity; [apply map_ext_in_iff|]. split; intros H x Hx; specialize (H x Hx); cbv beta in *.
  - rewrite <- !mem_str_In, H. tauto.
  - apply eq_true_iff_eq. rewrite !mem_str_In. auto.
Qed.

Lemma clade_bits_compl_iff li S S' :
  clade_bits li S = compl (clade_bits li S') <-> forall x, In x li -> (In x S <-> ~ In x S').
Proof.
  rewrite compl_clade_bits. unfold clade_bits. etransitivity; [apply map_ext_in_iff|].
  split; intros H x Hx; specialize (H x Hx); cbv beta in *.
  - rewrite <- mem_str_In, <- mem_str_false, H. destruct (mem_str x S'); simpl; split; congruence.
  - apply eq_true_iff_eq. rewrite negb_true_iff, mem_str_In, mem_str_false. auto.
Qed.

Theorem canon_clade_bits_iff li S S' :
  canon (clade_bits li S) = canon (clade_bits li S') <-> same_split li S S'.
Proof.
  rewrite canon_eq_iff. unfold same_split. rewrite <- clade_bits_eq_iff, <- clade_bits_compl_iff.
  split; (intros [H|H]; [left|right]; auto).
  - rewrite H, compl_involutive. reflexivity.
  - rewrite H, compl_involutive. reflexivity.
Qed.

(* ================================================================================================ *)
(* B. the leaf index                                                                                *)
(* ================================================================================================ *)
Section SplitsArena.
Context {L : Type}.
Notation arena := (@arena L).
Notation node := (@node L).
Notation tree := (@tree L).
Implicit Types (t : arena) (n : node).

(* name carried by slot i *)
Definition lname t (i : nat) : option str :=
  match nth_error t i with Some n => nname n | None => None end.
Definition lab t (i : nat) : str := match lname t i with Some s => s | None => [] end.

(* the arena is one tree r, all its leaves are named, with pairwise distinct names *)
Record Good t (root : nat) (r : rtree) : Prop := mkGood {
  g_rep : Rep t None 0 root r;
  g_nd : NoDup (ids r);
  g_live : forall i, live t i -> In i (ids r);
  g_named : forall i, In i (rleaves r) -> lname t i <> None;
  g_uniq : NoDup (map (lab t) (rleaves r));
}.

Definition tipb := @Traversals.tipb L.

Lemma tipb_alt t i :
  tipb t i = match nth_error t i with Some n => negb (ndeleted n) && is_tip n | None => false end.
Proof.
  unfold tipb, Traversals.tipb, get. destruct (nth_error t i) as [n|]; auto.
  destruct (ndeleted n); auto.
Qed.

Lemma tipb_live t i : tipb t i = true -> live t i.
Proof.
  rewrite tipb_alt. unfold live. destruct (nth_error t i) as [n|]; [|discriminate].
  intros H. apply andb_true_iff in H as [H _]. exists n. split; auto. destruct (ndeleted n); auto; discriminate.
Qed.

Lemma map_nid_filter_seq t (p : node -> bool) :
  (forall i n, nth_error t i = Some n -> p n = true -> nid n = i) ->
  map nid (filter p t) =
  filter (fun i => match nth_error t i with Some n => p n | None => false end) (seq 0 (length t)).
Proof.
  induction t as [|x t IH] using rev_ind; intros H; [reflexivity|].
  rewrite filter_app, map_app, app_length, seq_app, filter_app. simpl length. simpl seq. f_equal.
  - rewrite IH.
    + apply filter_ext_in. intros i Hi. apply in_seq in Hi. rewrite nth_error_app1 by lia. reflexivity.
    + intros i n Hn. apply H. rewrite nth_error_app1; auto. eapply nth_error_Some_lt; eauto.
  - simpl. rewrite nth_error_app_last. destruct (p x) eqn:E; auto. simpl.
    rewrite (H (length t) x); auto. apply nth_error_app_last.
Qed.

(* ---- facts needing only "the live slots form the tree r" ---------------------------------------- *)
Section WithRep.
Variables (t : arena) (root : nat) (r : rtree).
Hypothesis HR : Rep t None 0 root r.
Hypothesis HN : NoDup (ids r).
Hypothesis HL : forall i, live t i -> In i (ids r).

Lemma rep_good_nid i n : live t i -> nth_error t i = Some n -> nid n = i.
Proof. intros Hl Hn. eapply Rep_ids_nid; [apply HR| |eauto]. apply HL; auto. Qed.

Lemma rep_good_rleaves : rleaves r = filter (tipb t) (pre r).
Proof. symmetry. eapply Traversals.filter_tip_pre. apply HR. Qed.

Lemma rep_get_leaves_seq : get_leaves t = filter (tipb t) (seq 0 (length t)).
Proof.
  unfold get_leaves. rewrite map_nid_filter_seq.
  - apply filter_ext. intros i. symmetry. apply tipb_alt.
  - intros i n Hn Hp. apply rep_good_nid; auto. exists n. split; auto.
    apply andb_true_iff in Hp as [Hp _]. destruct (ndeleted n); auto; discriminate.
Qed.

Lemma rep_in_get_leaves i : In i (get_leaves t) <-> In i (rleaves r).
Proof.
  rewrite rep_get_leaves_seq, rep_good_rleaves, !filter_In, in_seq. split.
  - intros [_ H]. split; auto. apply HL. apply tipb_live; auto.
  - intros [H1 H2]. split; auto. split; [lia|]. simpl. apply live_lt. apply tipb_live; auto.
Qed.

Lemma rep_get_leaves_NoDup : NoDup (get_leaves t).
Proof. rewrite rep_get_leaves_seq. apply NoDup_filter, seq_NoDup. Qed.

Theorem rep_get_leaves_perm : Permutation (get_leaves t) (rleaves r).
Proof.
  apply NoDup_Permutation.
  - apply rep_get_leaves_NoDup.
  - apply rleaves_NoDup, HN.
  - apply rep_in_get_leaves.
Qed.

Theorem rep_n_leaves_good : n_leaves t = length (rleaves r).
Proof.
  rewrite <- (Permutation_length rep_get_leaves_perm). unfold n_leaves, get_leaves. rewrite map_length. reflexivity.
Qed.

Lemma rep_leaf_live i : In i (rleaves r) -> exists n, get t i = Ok n /\ nth_error t i = Some n.
Proof.
  intros Hi. rewrite rep_good_rleaves in Hi. apply filter_In in Hi as [_ Hi]. apply tipb_live in Hi.
  destruct Hi as (n & Hn1 & Hn2). exists n. split; auto. apply get_Ok; auto.
Qed.

Lemma rep_get_leaf_names : get_leaf_names t = Ok (map (lname t) (get_leaves t)).
Proof.
  unfold get_leaf_names. apply mapM_ok. intros i Hi. apply rep_in_get_leaves in Hi.
  destruct (rep_leaf_live i Hi) as (n & -> & Hn). unfold lname. rewrite Hn. reflexivity.
Qed.

Lemma dedup_str_length_le l : length (dedup_str l) <= length l.
Proof. induction l as [|x l IH]; simpl; auto. destruct (mem_str x l); simpl; lia. Qed.

Lemma dedup_str_length_NoDup l : length (dedup_str l) = length l -> NoDup l.
Proof.
  induction l as [|x l IH]; simpl; [constructor|]. pose proof (dedup_str_length_le l).
  destruct (mem_str x l) eqn:E; simpl; intros H'; [lia|].
  constructor; [apply mem_str_false; auto|apply IH; lia].
Qed.

(* the crate's own check for uniquely named tips is enough *)
Theorem unique_names_Good : has_unique_tip_names t = Ok true -> Good t root r.
Proof.
  unfold has_unique_tip_names. rewrite rep_get_leaf_names. cbn [bind].
  destruct (existsb _ _) eqn:E; [discriminate|]. intros H. injection H as H. apply Nat.eqb_eq in H.
  assert (Hnamed : forall i, In i (get_leaves t) -> lname t i <> None).
  { intros i Hi Hn. apply not_true_iff_false in E. apply E. apply existsb_exists.
    exists (lname t i). split; [apply in_map; auto|rewrite Hn; reflexivity]. }
  assert (Hns : flat_map (fun o : option str => match o with Some x => [x] | None => [] end)
                         (map (lname t) (get_leaves t)) = map (lab t) (get_leaves t)).
  { clear H E. induction (get_leaves t) as [|i l IH]; simpl; auto.
    unfold lab at 1. destruct (lname t i) eqn:Ei; [|exfalso; apply (Hnamed i); simpl; auto].
    simpl. f_equal. apply IH. intros; apply Hnamed; simpl; auto. }
  rewrite Hns in H.
  constructor; auto.
  - intros i Hi. apply Hnamed. apply rep_in_get_leaves; auto.
  - eapply Permutation_NoDup; [apply Permutation_map, rep_get_leaves_perm|].
    apply dedup_str_length_NoDup. rewrite H, map_length. unfold n_leaves, get_leaves. rewrite map_length. reflexivity.
Qed.

End WithRep.

Theorem WF_unique_Good t :
  WF t -> (exists i, live t i) -> has_unique_tip_names t = Ok true -> exists root r, Good t root r.
Proof.
  intros [Hdead|(root & r & HR & HN & HL)] (i & Hi) Hu; [exfalso; eapply Hdead; eauto|].
  exists root, r. apply unique_names_Good; auto.
Qed.

Section WithGood.
Variables (t : arena) (root : nat) (r : rtree).
Hypothesis G : Good t root r.

Ltac gfields := first [apply (g_rep _ _ _ G) | apply (g_nd _ _ _ G) | apply (g_live _ _ _ G)].

Lemma good_nid i n : live t i -> nth_error t i = Some n -> nid n = i.
Proof. eapply rep_good_nid; gfields. Qed.

Lemma good_rleaves : rleaves r = filter (tipb t) (pre r).
Proof. eapply rep_good_rleaves; gfields. Qed.

Lemma get_leaves_seq : get_leaves t = filter (tipb t) (seq 0 (length t)).
Proof. eapply rep_get_leaves_seq; gfields. Qed.

Lemma in_get_leaves i : In i (get_leaves t) <-> In i (rleaves r).
Proof. eapply rep_in_get_leaves; gfields. Qed.

Lemma get_leaves_NoDup : NoDup (get_leaves t).
Proof. eapply rep_get_leaves_NoDup; gfields. Qed.

Theorem get_leaves_perm : Permutation (get_leaves t) (rleaves r).
Proof. eapply rep_get_leaves_perm; gfields. Qed.

Theorem n_leaves_good : n_leaves t = length (rleaves r).
Proof. eapply rep_n_leaves_good; gfields. Qed.

Lemma leaf_get i : In i (rleaves r) -> exists n, get t i = Ok n /\ nth_error t i = Some n /\ nname n = Some (lab t i).
Proof.
  intros Hi. pose proof (g_named _ _ _ G i Hi) as Hn.
  rewrite good_rleaves in Hi. apply filter_In in Hi as [_ Hi]. apply tipb_live in Hi.
  destruct Hi as (n & Hn1 & Hn2). exists n. split; [apply get_Ok; auto|]. split; auto.
  unfold lab. unfold lname in *. rewrite Hn1 in *. destruct (nname n); congruence.
Qed.

Lemma get_leaf_names_good : get_leaf_names t = Ok (map (fun i => Some (lab t i)) (get_leaves t)).
Proof.
  unfold get_leaf_names. apply mapM_ok. intros i Hi. apply in_get_leaves in Hi.
  destruct (leaf_get i Hi) as (n & -> & _ & ->). reflexivity.
Qed.

Definition leaf_idx : list str := stable_sort str_leb (map (lab t) (get_leaves t)).

Theorem leaf_idx_perm : Permutation leaf_idx (map (lab t) (rleaves r)).
Proof.
  unfold leaf_idx. eapply Permutation_trans; [apply stable_sort_perm|].
  apply Permutation_map, get_leaves_perm.
Qed.

Theorem leaf_idx_NoDup : NoDup leaf_idx.
Proof. eapply Permutation_NoDup; [apply Permutation_sym, leaf_idx_perm|]. apply (g_uniq _ _ _ G). Qed.

Theorem leaf_idx_length : length leaf_idx = n_leaves t.
Proof. rewrite (Permutation_length leaf_idx_perm), map_length. symmetry. apply n_leaves_good. Qed.

Lemma leaf_idx_In x : In x leaf_idx <-> exists i, In i (rleaves r) /\ lab t i = x.
Proof.
  split.
  - intros H. apply (Permutation_in _ leaf_idx_perm) in H. apply in_map_iff in H as (i & <- & Hi). eauto.
  - intros (i & Hi & <-). apply (Permutation_in _ (Permutation_sym leaf_idx_perm)). apply in_map; auto.
Qed.

Lemma t_nonempty : t <> [].
Proof.
  pose proof (Rep_live _ _ _ _ _ (g_rep _ _ _ G)) as Hl. apply live_lt in Hl. destruct t; simpl in *; [lia|discriminate].
Qed.

Lemma flat_some {A} (f : nat -> A) l :
  flat_map (fun o : option A => match o with Some x => [x] | None => [] end) (map (fun i => Some (f i)) l) = map f l.
Proof. induction l; simpl; congruence. Qed.

Lemma existsb_none {A} (f : nat -> A) l :
  existsb (fun o : option A => match o with None => true | Some _ => false end) (map (fun i => Some (f i)) l) = false.
Proof. induction l; simpl; auto. Qed.

Lemma init_leaf_index_unfold (tc : tree) :
  nodes tc <> [] ->
  init_leaf_index tc =
  match leaf_index tc with
  | Some _ => Ok tc
  | None =>
      names <- get_leaf_names (nodes tc) ;;
      if negb (Nat.eqb (length names) (n_leaves (nodes tc))) then Err UnnamedLeaves else
      u <- has_unique_tip_names (nodes tc) ;;
      if negb u then Err DuplicateLeafNames else
      let ns := flat_map (fun o => match o with Some x => [x] | None => [] end) names in
      Ok (mkTree (nodes tc) (Some (stable_sort str_leb ns)) (partitions tc))
  end.
Proof. unfold init_leaf_index. destruct (nodes tc); [congruence|reflexivity]. Qed.

(* once the index is filled, later calls keep it (and everything else) *)
Lemma init_leaf_index_keeps (tc : tree) li :
  nodes tc <> [] -> leaf_index tc = Some li -> init_leaf_index tc = Ok tc.
Proof. intros Hne Hli. rewrite init_leaf_index_unfold by auto. rewrite Hli. reflexivity. Qed.

Lemma has_unique_good : has_unique_tip_names t = Ok true.
Proof.
  unfold has_unique_tip_names. rewrite get_leaf_names_good. simpl. rewrite existsb_none, flat_some.
  rewrite dedup_str_NoDup_id.
  - rewrite map_length. unfold n_leaves, get_leaves. rewrite map_length, Nat.eqb_refl. reflexivity.
  - eapply Permutation_NoDup; [apply Permutation_map, Permutation_sym, get_leaves_perm|]. apply (g_uniq _ _ _ G).
Qed.

(* first call: the index is computed; the partitions cache is left alone *)
Theorem init_leaf_index_fresh pc :
  init_leaf_index (mkTree t None pc) = Ok (mkTree t (Some leaf_idx) pc).
Proof.
  rewrite init_leaf_index_unfold by apply t_nonempty. simpl.
  rewrite get_leaf_names_good. simpl. rewrite map_length.
  replace (length (get_leaves t)) with (n_leaves t) by (unfold n_leaves, get_leaves; rewrite map_length; reflexivity).
  rewrite Nat.eqb_refl. simpl. rewrite has_unique_good. simpl. rewrite flat_some. reflexivity.
Qed.

(* later calls: a filled cache is kept *)
Theorem init_leaf_index_cached li pc :
  init_leaf_index (mkTree t (Some li) pc) = Ok (mkTree t (Some li) pc).
Proof.
  rewrite init_leaf_index_unfold by apply t_nonempty. reflexivity.
Qed.

Theorem init_leaf_index_good :
  exists tc, init_leaf_index (tree_of t) = Ok tc /\ nodes tc = t /\ leaf_index tc = Some leaf_idx /\
             partitions tc = None.
Proof. eexists. split; [apply init_leaf_index_fresh|]. auto. Qed.

(* rank of a name in the index *)
Lemma rank_leaf i : In i (rleaves r) -> exists k, find_str (lab t i) leaf_idx = Some k /\ k < n_leaves t.
Proof.
  intros Hi. rewrite <- leaf_idx_length. apply find_str_In. apply leaf_idx_In. eauto.
Qed.

Theorem rank_inj x y k : find_str x leaf_idx = Some k -> find_str y leaf_idx = Some k -> x = y.
Proof. apply find_str_inj. Qed.


(* ================================================================================================ *)
(* C. get_partition                                                                                 *)
(* ================================================================================================ *)
Lemma Rep_subtrees : forall r0 p d i s, Rep t p d i r0 -> In s (subtrees r0) ->
  (s = r0 \/ In s (proper_subtrees r0) /\ exists q d', Rep t (Some q) d' (rid s) s).
Proof.
  induction r0 as [j cs IH] using rtree_ind'. intros p d i s HR Hs.
  apply subtrees_cases in Hs as [->|Hs]; auto. right. split; auto.
  unfold proper_subtrees in Hs. simpl in Hs. apply in_flat_map in Hs as (c & Hc & Hs).
  destruct (Rep_inv _ _ _ _ _ HR) as (n & cs' & Heq & Hn & Hdel & Hid & Hp & Hd & HF & _).
  injection Heq as -> <-.
  destruct (Forall2_In_r _ _ _ _ HF Hc) as (k & Hk & HRc).
  rewrite Forall_forall in IH. destruct (IH c Hc _ _ _ _ HRc Hs) as [->|(_ & q & d' & HRs)].
  - rewrite (Rep_rid _ _ _ _ _ HRc). eauto.
  - eauto.
Qed.

Lemma Rep_subtree_any s : In s (subtrees r) -> exists p' d', Rep t p' d' (rid s) s.
Proof.
  intros Hs. destruct (Rep_subtrees _ _ _ _ _ (g_rep _ _ _ G) Hs) as [->|(_ & q & d' & H)]; eauto.
  rewrite (Rep_rid _ _ _ _ _ (g_rep _ _ _ G)). eauto using (g_rep _ _ _ G).
Qed.

Definition part_of (s : rtree) : bits := canon (clade_bits leaf_idx (clade (lab t) s)).

Lemma clade_incl s : In s (subtrees r) -> incl (clade (lab t) s) leaf_idx.
Proof.
  intros Hs x Hx. apply in_map_iff in Hx as (i & <- & Hi). apply leaf_idx_In. exists i. split; auto.
  eapply subtrees_leaves_incl; eauto.
Qed.

Lemma clade_NoDup s : In s (subtrees r) -> NoDup (clade (lab t) s).
Proof.
  intros Hs. unfold clade.
  assert (Hinj : forall i j, In i (rleaves r) -> In j (rleaves r) -> lab t i = lab t j -> i = j).
  { pose proof (g_uniq _ _ _ G) as Hu. revert Hu. generalize (rleaves r) as l. induction l as [|a l IHl]; simpl; [tauto|].
    intros Hu. apply NoDup_cons_iff in Hu as [Ha Hu]. intros i j [->|Hi] [->|Hj] E; auto.
    - exfalso. apply Ha. rewrite E. apply in_map; auto.
    - exfalso. apply Ha. rewrite <- E. apply in_map; auto. }
  pose proof (subtrees_leaves_incl _ _ Hs) as Hincl.
  pose proof (rleaves_NoDup _ (subtrees_NoDup _ _ Hs (g_nd _ _ _ G))) as Hnd.
  revert Hincl Hnd. generalize (rleaves s) as l. induction l as [|a l IHl]; simpl; intros Hincl Hnd; [constructor|].
  apply NoDup_cons_iff in Hnd as [Ha Hnd]. constructor.
  - intros Hin. apply in_map_iff in Hin as (b & E & Hb). apply Ha.
    rewrite (Hinj a b); auto; apply Hincl; simpl; auto.
  - apply IHl; auto. intros x Hx. apply Hincl; simpl; auto.
Qed.

Theorem part_of_length s : length (part_of s) = n_leaves t.
Proof. unfold part_of. rewrite canon_length, clade_bits_length. apply leaf_idx_length. Qed.

Theorem get_partition_good pc s :
  In s (subtrees r) ->
  get_partition (mkTree t (Some leaf_idx) pc) (rid s) = Ok (part_of s, mkTree t (Some leaf_idx) pc).
Proof.
  intros Hs. destruct (Rep_subtree_any s Hs) as (p' & d' & HRs).
  unfold get_partition. rewrite init_leaf_index_cached. cbn [bind nodes leaf_index].
  rewrite (Traversals.get_subtree_leaves_refines _ _ _ _ _ HRs (subtrees_NoDup _ _ Hs (g_nd _ _ _ G))).
  cbn [bind].
  rewrite (mapM_ok _ (fun i => [rank leaf_idx (lab t i)])).
  - cbn [bind]. rewrite concat_map_singleton.
    replace (existsb _ _) with false.
    + rewrite <- leaf_idx_length. rewrite <- (map_map (lab t) (rank leaf_idx)).
      rewrite fold_set_bit_clade; [reflexivity|apply leaf_idx_NoDup|apply clade_incl; auto].
    + symmetry. apply not_true_iff_false. intros H. apply existsb_exists in H as (k & Hk & Hle).
      apply in_map_iff in Hk as (i & <- & Hi). apply Nat.leb_le in Hle.
      destruct (rank_leaf i) as (k & Hk & Hlt); [eapply subtrees_leaves_incl; eauto|].
      unfold rank in Hle. rewrite Hk in Hle. lia.
  - intros i Hi. assert (Hi' : In i (rleaves r)) by (eapply subtrees_leaves_incl; eauto).
    destruct (leaf_get i Hi') as (n & -> & _ & ->).
    destruct (rank_leaf i Hi') as (k & Hk & _). unfold rank. rewrite Hk. reflexivity.
Qed.

(* the same query on a tree whose caches are still empty: the index is filled on the way *)
Theorem get_partition_fresh s :
  In s (subtrees r) ->
  get_partition (tree_of t) (rid s) = Ok (part_of s, mkTree t (Some leaf_idx) None).
Proof.
  intros Hs. pose proof (get_partition_good None s Hs) as H. unfold get_partition in *.
  unfold tree_of. rewrite init_leaf_index_fresh. rewrite init_leaf_index_cached in H. exact H.
Qed.

Theorem count_ones_clade s : In s (subtrees r) ->
  count_ones (clade_bits leaf_idx (clade (lab t) s)) = length (rleaves s).
Proof.
  intros Hs. rewrite count_ones_clade_bits; auto using leaf_idx_NoDup, clade_NoDup, clade_incl.
  apply map_length.
Qed.


(* ================================================================================================ *)
(* D. get_partitions                                                                                *)
(* ================================================================================================ *)
Variable O : LenOps L.

Definition T1 : tree := mkTree t (Some leaf_idx) None.
Definition cand n : bool := negb (ndeleted n || is_root n || is_tip n).
Definition sub_at (i : nat) : rtree :=
  match find (fun s => Nat.eqb (rid s) i) (subtrees r) with Some s => s | None => r end.
Definition pb n : bits := part_of (sub_at (nid n)).

Lemma sub_at_spec s : In s (subtrees r) -> sub_at (rid s) = s.
Proof.
  intros Hs. unfold sub_at. destruct (find _ _) as [s'|] eqn:F.
  - apply find_some in F as [Hs' E]. apply Nat.eqb_eq in E.
    eapply subtrees_rid_inj; eauto using (g_nd _ _ _ G).
  - eapply find_none in F; eauto. rewrite Nat.eqb_refl in F. discriminate.
Qed.

Lemma Rep_proper : forall r0 p d i s, Rep t p d i r0 -> In s (proper_subtrees r0) ->
  exists q d', Rep t (Some q) d' (rid s) s.
Proof.
  intros [j cs] p d i s HR Hs. unfold proper_subtrees in Hs. simpl in Hs.
  apply in_flat_map in Hs as (c & Hc & Hs).
  destruct (Rep_inv _ _ _ _ _ HR) as (n & cs' & Heq & Hn & Hdel & Hid & Hp & Hd & HF & _).
  injection Heq as -> <-.
  destruct (Forall2_In_r _ _ _ _ HF Hc) as (k & Hk & HRc).
  destruct (Rep_subtrees _ _ _ _ _ HRc Hs) as [->|(_ & q & d' & HRs)]; eauto.
  rewrite (Rep_rid _ _ _ _ _ HRc). eauto.
Qed.

Lemma Rep_node_facts p d s : Rep t p d (rid s) s ->
  exists n, nth_error t (rid s) = Some n /\ ndeleted n = false /\ nid n = rid s /\ nparent n = p /\
            nchildren n = map rid (rch s).
Proof.
  intros HR. destruct (Rep_inv _ _ _ _ _ HR) as (n & cs' & Heq & Hn & Hdel & Hid & Hp & Hd & HF & _).
  exists n. repeat split; auto. rewrite Heq. simpl. eapply Forall2_Rep_rid; eauto.
Qed.

Lemma cand_sub n : In n t -> cand n = true ->
  exists s, In s (proper_subtrees r) /\ internal s = true /\ rid s = nid n.
Proof.
  intros Hin Hc. unfold cand in Hc. apply negb_true_iff in Hc.
  apply orb_false_iff in Hc as [Hc Htip]. apply orb_false_iff in Hc as [Hdel Hroot].
  apply In_nth_error in Hin as (i & Hi).
  assert (Hl : live t i) by (exists n; auto).
  pose proof (good_nid i n Hl Hi) as Hid.
  pose proof (g_live _ _ _ G i Hl) as Hids. unfold ids in Hids. rewrite <- map_rid_subtrees in Hids.
  apply in_map_iff in Hids as (s & Hrs & Hs).
  destruct (Rep_subtrees _ _ _ _ _ (g_rep _ _ _ G) Hs) as [->|(Hp & q & d' & HRs)].
  - exfalso. pose proof (g_rep _ _ _ G) as HR. pose proof (Rep_rid _ _ _ _ _ HR) as Hr.
    rewrite <- Hr in HR. destruct (Rep_node_facts _ _ _ HR) as (n' & Hn' & _ & _ & Hpar & _).
    rewrite Hrs, Hi in Hn'. injection Hn' as <-. unfold is_root in Hroot. rewrite Hpar in Hroot. discriminate.
  - exists s. split; auto. split; [|congruence].
    destruct (Rep_node_facts _ _ _ HRs) as (n' & Hn' & _ & _ & _ & Hch).
    rewrite Hrs, Hi in Hn'. injection Hn' as <-. unfold is_tip in Htip. rewrite Hch in Htip.
    unfold internal. destruct (rch s); [discriminate|reflexivity].
Qed.

Lemma sub_cand s : In s (proper_subtrees r) -> internal s = true ->
  exists n, In n t /\ cand n = true /\ nid n = rid s.
Proof.
  intros Hs Hint. destruct (Rep_proper _ _ _ _ _ (g_rep _ _ _ G) Hs) as (q & d' & HRs).
  destruct (Rep_node_facts _ _ _ HRs) as (n & Hn & Hdel & Hid & Hpar & Hch).
  exists n. split; [eapply nth_error_In; eauto|]. split; auto.
  unfold cand, is_root, is_tip. rewrite Hdel, Hpar, Hch. unfold internal in Hint.
  destruct (rch s); [discriminate|reflexivity].
Qed.

Definition keys_add (ks : list bits) (k : bits) : list bits := if mem_bits k ks then ks else ks ++ [k].

Lemma pmap_set_keys (m : @pmap L) k v : map fst (pmap_set m k v) = keys_add (map fst m) k.
Proof.
  unfold keys_add. induction m as [|[k' v'] m IH]; simpl; auto.
  destruct (bits_eqb k k') eqn:E; simpl.
  - apply bits_eqb_iff in E. subst. reflexivity.
  - rewrite IH. destruct (mem_bits k (map fst m)); reflexivity.
Qed.

Lemma keys_add_In ks k b : In b (keys_add ks k) <-> In b ks \/ b = k.
Proof.
  unfold keys_add. destruct (mem_bits k ks) eqn:E.
  - apply mem_bits_In in E. split; auto. intros [H| ->]; auto.
  - rewrite in_app_iff. simpl. intuition.
Qed.

Lemma keys_add_NoDup ks k : NoDup ks -> NoDup (keys_add ks k).
Proof.
  unfold keys_add. intros H. destruct (mem_bits k ks) eqn:E; auto.
  apply NoDup_app_iff. repeat split; auto.
  - repeat constructor. simpl. tauto.
  - intros x Hx [<-|[]]. apply mem_bits_In in Hx. congruence.
Qed.

Lemma fold_keys_add_In l : forall ks b, In b (fold_left keys_add l ks) <-> In b ks \/ In b l.
Proof.
  induction l as [|k l IH]; simpl; intros ks b; [tauto|].
  rewrite IH, keys_add_In. intuition.
Qed.

Lemma fold_keys_add_NoDup l : forall ks, NoDup ks -> NoDup (fold_left keys_add l ks).
Proof. induction l; simpl; auto using keys_add_NoDup. Qed.

Definition m_next (m : @pmap L) n : pmap :=
  if trivial_part (pb n) then m else
  pmap_set m (pb n)
    (ndepth n,
     match npedge n, pmap_get m (pb n) with
     | None, None => None
     | Some nl, Some (_, ol) => option_map (fun v => ladd O v nl) ol
     | Some nl, None => Some nl
     | None, Some (_, ol) => None
     end).

Definition nontriv (b : bits) : bool := negb (trivial_part b).

Lemma fold_m_next_keys l : forall m,
  map fst (fold_left m_next l m) = fold_left keys_add (filter nontriv (map pb l)) (map fst m).
Proof.
  induction l as [|n l IH]; simpl; intros m; auto.
  rewrite IH. unfold m_next.
  assert (E : nontriv (pb n) = negb (trivial_part (pb n))) by reflexivity. rewrite E.
  destruct (trivial_part (pb n)); cbn [negb fold_left]; auto.
  rewrite pmap_set_keys. reflexivity.
Qed.

Lemma foldM_const_state {A M T} (step : M * T -> A -> outcome (M * T)) (T0 : T) (nxt : M -> A -> M) l :
  (forall m a, In a l -> step (m, T0) a = Ok (nxt m a, T0)) ->
  forall m, foldM step l (m, T0) = Ok (fold_left nxt l m, T0).
Proof.
  induction l as [|a l IH]; simpl; intros H m; auto.
  rewrite H by auto. simpl. apply IH. intros; apply H; auto.
Qed.

Lemma get_partition_cand n : In n t -> cand n = true -> get_partition T1 (nid n) = Ok (pb n, T1).
Proof.
  intros Hin Hc. destruct (cand_sub n Hin Hc) as (s & Hs & _ & Hid).
  assert (Hs' : In s (subtrees r)) by (apply subtrees_cases; auto).
  unfold pb. rewrite <- Hid, (sub_at_spec s Hs'). apply get_partition_good; auto.
Qed.

Definition cands : list node := filter cand t.
Definition part_keys : list bits := fold_left keys_add (filter nontriv (map pb cands)) [].

Theorem init_partitions_good :
  exists m, init_partitions O T1 = Ok (mkTree t (Some leaf_idx) (Some m)) /\ map fst m = part_keys.
Proof.
  exists (fold_left m_next cands []). split; [|apply fold_m_next_keys].
  unfold init_partitions, T1. rewrite init_leaf_index_cached. cbn [bind partitions nodes].
  fold T1. fold cand. fold cands.
  erewrite foldM_const_state with (nxt := m_next); [reflexivity|].
  intros m n Hn. apply filter_In in Hn as [Hn Hc].
  rewrite (get_partition_cand n Hn Hc). cbn [bind]. unfold m_next.
  fold (trivial_part (pb n)). destruct (trivial_part (pb n)); reflexivity.
Qed.

Theorem get_partitions_good :
  exists tc, get_partitions O (tree_of t) = Ok (part_keys, tc) /\ nodes tc = t /\ leaf_index tc = Some leaf_idx.
Proof.
  destruct init_partitions_good as (m & Hm & Hk).
  unfold get_partitions, tree_of. rewrite init_leaf_index_fresh. cbn [bind]. fold T1. rewrite Hm.
  cbn [bind partitions]. rewrite Hk. eauto.
Qed.

(* the caches after the call, and a second call answered from them *)
Theorem get_partitions_caches :
  exists m, get_partitions O (tree_of t) = Ok (part_keys, mkTree t (Some leaf_idx) (Some m)) /\
            map fst m = part_keys.
Proof.
  destruct init_partitions_good as (m & Hm & Hk). exists m. split; auto.
  unfold get_partitions, tree_of. rewrite init_leaf_index_fresh. cbn [bind]. fold T1. rewrite Hm.
  cbn [bind partitions]. rewrite Hk. reflexivity.
Qed.

Theorem get_partitions_again li (m : @pmap L) :
  get_partitions O (mkTree t (Some li) (Some m)) = Ok (map fst m, mkTree t (Some li) (Some m)).
Proof.
  unfold get_partitions. rewrite init_leaf_index_cached. cbn [bind].
  unfold init_partitions. rewrite init_leaf_index_cached. reflexivity.
Qed.

Lemma part_keys_In b : In b part_keys <-> exists n, In n t /\ cand n = true /\ b = pb n /\ trivial_part b = false.
Proof.
  unfold part_keys. rewrite fold_keys_add_In, filter_In, in_map_iff. unfold nontriv, cands. split.
  - intros [[]|((n & <- & Hn) & Hnt)]. apply filter_In in Hn as [Hn Hc]. apply negb_true_iff in Hnt. eauto.
  - intros (n & Hn & Hc & -> & Hnt). right. split; [|rewrite Hnt; reflexivity].
    exists n. split; auto. apply filter_In; auto.
Qed.

Lemma trivial_part_of s : In s (subtrees r) ->
  trivial_part (part_of s) = false <-> 2 <= length (rleaves s) /\ length (rleaves s) + 2 <= length (rleaves r).
Proof.
  intros Hs. unfold part_of. rewrite trivial_part_canon, trivial_part_spec, count_ones_clade by auto.
  rewrite clade_bits_length, leaf_idx_length, n_leaves_good. tauto.
Qed.

Section MainTheorems.
Variables (ps : list bits) (tc : tree).
Hypothesis Hget : get_partitions O (tree_of t) = Ok (ps, tc).

Lemma ps_eq : ps = part_keys.
Proof. destruct get_partitions_good as (tc' & H & _). rewrite H in Hget. congruence. Qed.

(* every reported bitset is the canonical side of the split induced by the branch above a non-root
   internal node, and both sides of that split hold at least two leaves *)
Theorem partitions_sound b : In b ps ->
  exists s, In s (proper_subtrees r) /\ internal s = true /\
            b = canon (clade_bits leaf_idx (clade (lab t) s)) /\
            2 <= length (rleaves s) /\ length (rleaves s) + 2 <= length (rleaves r).
Proof.
  rewrite ps_eq, part_keys_In. intros (n & Hn & Hc & -> & Hnt).
  destruct (cand_sub n Hn Hc) as (s & Hs & Hint & Hid).
  assert (Hs' : In s (subtrees r)) by (apply subtrees_cases; auto).
  unfold pb in *. rewrite <- Hid, (sub_at_spec s Hs') in *.
  exists s. repeat split; auto; apply (trivial_part_of s Hs') in Hnt; tauto.
Qed.

Theorem partitions_complete s :
  In s (proper_subtrees r) -> internal s = true ->
  2 <= length (rleaves s) -> length (rleaves s) + 2 <= length (rleaves r) ->
  In (canon (clade_bits leaf_idx (clade (lab t) s))) ps.
Proof.
  intros Hs Hint H1 H2. rewrite ps_eq, part_keys_In.
  destruct (sub_cand s Hs Hint) as (n & Hn & Hc & Hid).
  assert (Hs' : In s (subtrees r)) by (apply subtrees_cases; auto).
  exists n. split; auto. split; auto. unfold pb. rewrite Hid, (sub_at_spec s Hs').
  split; [reflexivity|]. apply (trivial_part_of s Hs'). auto.
Qed.

Theorem partitions_once : NoDup ps.
Proof. rewrite ps_eq. apply fold_keys_add_NoDup. constructor. Qed.

Theorem partitions_length b : In b ps -> length b = n_leaves t.
Proof.
  intros Hb. destruct (partitions_sound b Hb) as (s & Hs & _ & -> & _).
  apply part_of_length.
Qed.

End MainTheorems.

End WithGood.
End SplitsArena.

(* ================================================================================================ *)
(* E. the split set of a labelled rose tree and its invariances                                     *)
(* ================================================================================================ *)
(* a clade of k leaves out of n gives a non-trivial split iff both sides hold at least two leaves *)
Definition nontriv_len (n k : nat) : bool := (2 <=? k) && (k + 2 <=? n).
(* non-root internal nodes whose branch induces a non-trivial split *)
Definition split_nodes (r : rtree) : list rtree :=
  filter (fun s => internal s && nontriv_len (length (rleaves r)) (length (rleaves s))) (proper_subtrees r).
(* the reported splits, each given by the side below the branch, as a list of names *)
Definition rsplits (nm : nat -> str) (r : rtree) : list (list str) := map (clade nm) (split_nodes r).
(* leaf sets (ids) below the internal nodes, root included *)
Definition iclades (r : rtree) : list (list nat) := map rleaves (filter internal (subtrees r)).

Lemma nontriv_len_spec n k : nontriv_len n k = true <-> 2 <= k /\ k + 2 <= n.
Proof. unfold nontriv_len. rewrite andb_true_iff, !Nat.leb_le. tauto. Qed.

Lemma in_split_nodes r s :
  In s (split_nodes r) <->
  In s (proper_subtrees r) /\ internal s = true /\ 2 <= length (rleaves s) /\ length (rleaves s) + 2 <= length (rleaves r).
Proof. unfold split_nodes. rewrite filter_In, andb_true_iff, nontriv_len_spec. tauto. Qed.

Lemma in_iclades r C : In C (iclades r) <-> exists s, In s (subtrees r) /\ internal s = true /\ C = rleaves s.
Proof.
  unfold iclades. rewrite in_map_iff. split.
  - intros (s & <- & Hs). apply filter_In in Hs as [Hs Hi]. eauto.
  - intros (s & Hs & Hi & ->). exists s. split; auto. apply filter_In; auto.
Qed.

Lemma in_iclades_RT i cs C :
  In C (iclades (RT i cs)) <-> (cs <> [] /\ C = flat_map rleaves cs) \/ exists c, In c cs /\ In C (iclades c).
Proof.
  rewrite in_iclades. split.
  - intros (s & Hs & Hi & ->). rewrite subtrees_RT in Hs. destruct Hs as [<-|Hs].
    + left. destruct cs; [discriminate|]. split; [discriminate|reflexivity].
    + right. apply in_flat_map in Hs as (c & Hc & Hs). exists c. split; auto. apply in_iclades. eauto.
  - intros [[Hne ->]|(c & Hc & HC)].
    + exists (RT i cs). split; [apply subtrees_self|]. destruct cs; [congruence|]. auto.
    + apply in_iclades in HC as (s & Hs & Hi & ->). exists s. split; auto.
      rewrite subtrees_RT. right. apply in_flat_map. eauto.
Qed.

(* the split nodes are the internal nodes with a non-trivial clade: the root never qualifies *)
Lemma in_rsplits nm r S :
  In S (rsplits nm r) <->
  exists C, In C (iclades r) /\ nontriv_len (length (rleaves r)) (length C) = true /\ S = map nm C.
Proof.
  unfold rsplits. rewrite in_map_iff. split.
  - intros (s & <- & Hs). apply in_split_nodes in Hs as (Hs & Hi & H1 & H2).
    exists (rleaves s). split; [|split; [apply nontriv_len_spec; auto|reflexivity]].
    apply in_iclades. exists s. split; auto. apply subtrees_cases; auto.
  - intros (C & HC & Hn & ->). apply in_iclades in HC as (s & Hs & Hi & ->).
    apply nontriv_len_spec in Hn as [H1 H2].
    exists s. split; auto. apply in_split_nodes. split; auto.
    apply subtrees_cases in Hs as [->|Hs]; auto. lia.
Qed.

(* ---- unordered pairs {S, X \ S} ---------------------------------------------------------------- *)
Lemma same_split_refl X S : same_split X S S.
Proof. left. tauto. Qed.

Lemma same_split_sym X S S' : same_split X S S' -> same_split X S' S.
Proof.
  intros [H|H]; [left|right]; intros x Hx; specialize (H x Hx); [tauto|].
  destruct (in_dec str_eq_dec x S'); tauto.
Qed.

Lemma same_split_trans X S1 S2 S3 : same_split X S1 S2 -> same_split X S2 S3 -> same_split X S1 S3.
Proof.
  intros [H|H] [H'|H']; [left|right|right|left]; intros x Hx; specialize (H x Hx); specialize (H' x Hx);
    destruct (in_dec str_eq_dec x S3); tauto.
Qed.

Lemma same_split_ext X X' S S' : (forall x, In x X' -> In x X) -> same_split X S S' -> same_split X' S S'.
Proof. intros HX [H|H]; [left|right]; intros x Hx; apply H; auto. Qed.

(* equality of split sets: every split of one list is a split of the other *)
Definition split_incl (X : list str) (A B : list (list str)) : Prop :=
  forall S, In S A -> exists S', In S' B /\ same_split X S S'.
Definition split_equiv (X : list str) (A B : list (list str)) : Prop := split_incl X A B /\ split_incl X B A.

Lemma split_equiv_refl X A : split_equiv X A A.
Proof. split; intros S HS; exists S; auto using same_split_refl. Qed.

Lemma split_equiv_sym X A B : split_equiv X A B -> split_equiv X B A.
Proof. intros [H1 H2]; split; auto. Qed.

Lemma split_incl_trans X A B C : split_incl X A B -> split_incl X B C -> split_incl X A C.
Proof.
  intros H1 H2 S HS. destruct (H1 S HS) as (S' & HS' & E1). destruct (H2 S' HS') as (S'' & HS'' & E2).
  exists S''. split; auto. eapply same_split_trans; eauto.
Qed.

Lemma split_equiv_trans X A B C : split_equiv X A B -> split_equiv X B C -> split_equiv X A C.
Proof. intros [H1 H2] [H3 H4]. split; eapply split_incl_trans; eauto. Qed.

(* a convenient sufficient condition in terms of clades of ids *)
Lemma split_incl_iclades nm X r r' :
  length (rleaves r) = length (rleaves r') ->
  (forall C, In C (iclades r) -> nontriv_len (length (rleaves r)) (length C) = true ->
     exists C', In C' (iclades r') /\ length C' = length C /\ same_split X (map nm C) (map nm C')) ->
  split_incl X (rsplits nm r) (rsplits nm r').
Proof.
  intros Hlen H S HS. apply in_rsplits in HS as (C & HC & Hn & ->).
  destruct (H C HC Hn) as (C' & HC' & Hl & Hs). exists (map nm C'). split; auto.
  apply in_rsplits. exists C'. split; auto. split; auto. rewrite <- Hlen, Hl. auto.
Qed.

Lemma same_split_perm X (nm : nat -> str) (C C' : list nat) : Permutation C C' -> same_split X (map nm C) (map nm C').
Proof.
  intros Hp. left. intros x _. split; apply Permutation_in; auto using Permutation_map, Permutation_sym.
Qed.

(* ---- E1. reordering children, at any set of nodes ---------------------------------------------- *)
Inductive reorder : rtree -> rtree -> Prop :=
| reorder_node i cs cs1 cs' :
    Forall2 reorder cs cs1 -> Permutation cs1 cs' -> reorder (RT i cs) (RT i cs').

Lemma Forall2_flip_in {A B} (R : A -> B -> Prop) (R' : B -> A -> Prop) l l' :
  Forall2 R l l' -> (forall a b, In a l -> R a b -> R' b a) -> Forall2 R' l' l.
Proof.
  induction 1; intros H'; constructor.
  - apply H'; simpl; auto.
  - apply IHForall2. intros; apply H'; simpl; auto.
Qed.

Lemma reorder_refl : forall r, reorder r r.
Proof.
  induction r as [i cs IH] using rtree_ind'. apply reorder_node with (cs1 := cs); auto.
  induction IH; constructor; auto.
Qed.

Lemma reorder_sym : forall r r', reorder r r' -> reorder r' r.
Proof.
  induction r as [i cs IH] using rtree_ind'. intros r' H. inversion H as [? ? cs1 cs' HF HP]; subst.
  rewrite Forall_forall in IH.
  assert (HF' : Forall2 reorder cs1 cs) by (eapply Forall2_flip_in; eauto).
  destruct (Forall2_perm _ _ cs' _ HF' (Permutation_sym HP)) as (cs2 & HF2 & HP2).
  econstructor; eauto.
Qed.

Lemma reorder_swap i cs cs' : Permutation cs cs' -> reorder (RT i cs) (RT i cs').
Proof.
  intros H. apply reorder_node with (cs1 := cs); auto.
  clear H. induction cs; constructor; auto using reorder_refl.
Qed.

Lemma Forall2_flat_map_perm {A B} (R : A -> A -> Prop) (f : A -> list B) l l' :
  Forall2 R l l' -> (forall a b, In a l -> R a b -> Permutation (f a) (f b)) ->
  Permutation (flat_map f l) (flat_map f l').
Proof.
  induction 1; intros H'; simpl; auto.
  apply Permutation_app; [apply H'; simpl; auto|]. apply IHForall2. intros; apply H'; simpl; auto.
Qed.

Lemma reorder_leaves : forall r r', reorder r r' -> Permutation (rleaves r) (rleaves r').
Proof.
  induction r as [i cs IH] using rtree_ind'. intros r' H. inversion H as [? ? cs1 cs' HF HP]; subst.
  rewrite Forall_forall in IH.
  destruct cs as [|c cs].
  - inversion HF; subst. apply Permutation_nil in HP. subst. reflexivity.
  - destruct cs' as [|c' cs'].
    + apply Permutation_sym, Permutation_nil in HP. subst. inversion HF.
    + rewrite !rleaves_cons. eapply Permutation_trans; [|apply Permutation_flat_map; exact HP].
      eapply Forall2_flat_map_perm; eauto.
Qed.

Lemma reorder_iclades : forall r r', reorder r r' ->
  forall C, In C (iclades r) -> exists C', In C' (iclades r') /\ Permutation C C'.
Proof.
  induction r as [i cs IH] using rtree_ind'. intros r' H C HC.
  pose proof (reorder_leaves _ _ H) as Hl.
  inversion H as [? ? cs1 cs' HF HP]; subst. rewrite Forall_forall in IH.
  apply in_iclades_RT in HC as [[Hne ->]|(c & Hc & HC)].
  - exists (flat_map rleaves cs'). split.
    + apply in_iclades_RT. left. split; auto. intros ->. apply Permutation_sym, Permutation_nil in HP. subst.
      inversion HF; subst; congruence.
    + destruct cs as [|c cs]; [congruence|]. destruct cs' as [|c' cs']; auto.
      apply Permutation_sym, Permutation_nil in HP. subst. inversion HF.
  - destruct (Forall2_In_l _ _ _ _ HF Hc) as (c1 & Hc1 & Hr).
    destruct (IH c Hc c1 Hr C HC) as (C' & HC' & Hp). exists C'. split; auto.
    apply in_iclades_RT. right. exists c1. split; auto. eapply Permutation_in; eauto.
Qed.

Theorem rsplits_reorder nm r r' :
  reorder r r' -> split_equiv (map nm (rleaves r)) (rsplits nm r) (rsplits nm r').
Proof.
  assert (Hone : forall r r', reorder r r' -> forall X, split_incl X (rsplits nm r) (rsplits nm r')).
  { clear r r'. intros r r' H X. apply split_incl_iclades.
    - apply Permutation_length, reorder_leaves; auto.
    - intros C HC _. destruct (reorder_iclades _ _ H C HC) as (C' & HC' & Hp).
      exists C'. split; auto. split; [symmetry; apply Permutation_length; auto|apply same_split_perm; auto]. }
  intros H. split; apply Hone; auto using reorder_sym.
Qed.

(* ---- E2. inserting (or, read backwards, removing) a unary node anywhere, the root included ------- *)
Inductive unary_ins : rtree -> rtree -> Prop :=
| ui_here r j : unary_ins r (RT j [r])
| ui_child i l1 c c' l2 : unary_ins c c' -> unary_ins (RT i (l1 ++ c :: l2)) (RT i (l1 ++ c' :: l2)).

Lemma rleaves_children i cs : cs <> [] -> rleaves (RT i cs) = flat_map rleaves cs.
Proof. destruct cs; [congruence|reflexivity]. Qed.

Lemma app_cons_not_nil' {A} (l1 : list A) x l2 : l1 ++ x :: l2 <> [].
Proof. destruct l1; discriminate. Qed.

Lemma unary_ins_leaves r r' : unary_ins r r' -> rleaves r' = rleaves r.
Proof.
  induction 1 as [r j|i l1 c c' l2 _ IH].
  - simpl. apply app_nil_r.
  - rewrite !rleaves_children by apply app_cons_not_nil'. rewrite !flat_map_app. simpl. rewrite IH. reflexivity.
Qed.

Lemma iclades_self r : internal r = true -> In (rleaves r) (iclades r).
Proof. intros H. apply in_iclades. exists r. auto using subtrees_self. Qed.

Lemma unary_ins_iclades_fwd r r' : unary_ins r r' -> forall C, In C (iclades r) -> In C (iclades r').
Proof.
  induction 1 as [r j|i l1 c c' l2 H IH]; intros C HC.
  - apply in_iclades_RT. right. exists r. simpl; auto.
  - apply in_iclades_RT in HC as [[_ ->]|(c0 & Hc0 & HC)]; apply in_iclades_RT.
    + left. split; [apply app_cons_not_nil'|]. rewrite !flat_map_app. simpl.
      rewrite (unary_ins_leaves _ _ H). reflexivity.
    + right. apply in_app_or in Hc0 as [Hc0|[<-|Hc0]].
      * exists c0. split; auto. apply in_or_app; auto.
      * exists c'. split; auto. apply in_or_app; simpl; auto.
      * exists c0. split; auto. apply in_or_app; simpl; auto.
Qed.

Lemma unary_ins_iclades_bwd r r' : unary_ins r r' ->
  forall C, In C (iclades r') -> In C (iclades r) \/ length C = 1.
Proof.
  induction 1 as [r j|i l1 c c' l2 H IH]; intros C HC.
  - apply in_iclades_RT in HC as [[_ ->]|(c0 & [<-|[]] & HC)]; auto.
    simpl. rewrite app_nil_r. destruct (internal r) eqn:E; [left; apply iclades_self; auto|].
    right. destruct r as [k [|]]; [reflexivity|discriminate].
  - apply in_iclades_RT in HC as [[_ ->]|(c0 & Hc0 & HC)].
    + left. apply in_iclades_RT. left. split; [apply app_cons_not_nil'|]. rewrite !flat_map_app. simpl.
      rewrite (unary_ins_leaves _ _ H). reflexivity.
    + apply in_app_or in Hc0 as [Hc0|[<-|Hc0]].
      * left. apply in_iclades_RT. right. exists c0. split; auto. apply in_or_app; auto.
      * destruct (IH C HC) as [HC'|Hl]; auto.
        left. apply in_iclades_RT. right. exists c. split; auto. apply in_or_app; simpl; auto.
      * left. apply in_iclades_RT. right. exists c0. split; auto. apply in_or_app; simpl; auto.
Qed.

Theorem rsplits_unary nm X r r' : unary_ins r r' -> split_equiv X (rsplits nm r) (rsplits nm r').
Proof.
  intros H. pose proof (unary_ins_leaves _ _ H) as Hl. split; apply split_incl_iclades; try congruence.
  - intros C HC _. exists C. split; [eapply unary_ins_iclades_fwd; eauto|]. split; auto using same_split_refl.
  - intros C HC Hn. exists C. apply nontriv_len_spec in Hn as [Hn _].
    destruct (unary_ins_iclades_bwd _ _ H C HC) as [HC'|Hone]; [|lia].
    split; auto. split; auto using same_split_refl.
Qed.

(* in fact the reported clades are the same lists of leaves, up to repetition *)
Theorem rsplits_unary_same nm r r' : unary_ins r r' -> forall S, In S (rsplits nm r) <-> In S (rsplits nm r').
Proof.
  intros H S. pose proof (unary_ins_leaves _ _ H) as Hl. rewrite !in_rsplits, Hl. split.
  - intros (C & HC & Hn & ->). exists C. split; auto. eapply unary_ins_iclades_fwd; eauto.
  - intros (C & HC & Hn & ->). exists C. split; auto.
    destruct (unary_ins_iclades_bwd _ _ H C HC) as [HC'|Hone]; auto.
    apply nontriv_len_spec in Hn. lia.
Qed.

(* ---- E3. the same unrooted tree drawn with a two-child or a three(+)-child root ------------------ *)
Lemma split_incl_iclades' nm X r r' :
  (forall C, In C (iclades r) -> nontriv_len (length (rleaves r)) (length C) = true ->
     exists C', In C' (iclades r') /\ nontriv_len (length (rleaves r')) (length C') = true /\
                same_split X (map nm C) (map nm C')) ->
  split_incl X (rsplits nm r) (rsplits nm r').
Proof.
  intros H S HS. apply in_rsplits in HS as (C & HC & Hn & ->).
  destruct (H C HC Hn) as (C' & HC' & Hl & Hs). exists (map nm C'). split; auto.
  apply in_rsplits. exists C'. auto.
Qed.

Lemma leaf_or_internal r : (exists k, r = RT k []) \/ internal r = true.
Proof. destruct r as [k [|c cs]]; [left; eauto|right; reflexivity]. Qed.

Section Reroot.
Variables (nm : nat -> str) (i i' j : nat) (X : rtree) (ys : list rtree).
Hypothesis Hys : ys <> [].
Let r2 := RT i [X; RT j ys].
Let r3 := RT i' (X :: ys).
Hypothesis Hnd : NoDup (map nm (rleaves r2)).

Lemma reroot_leaves : rleaves r2 = rleaves r3.
Proof.
  unfold r2, r3. rewrite !rleaves_cons. cbn [flat_map]. rewrite (rleaves_children j ys Hys), app_nil_r. reflexivity.
Qed.

Lemma reroot_leaves_split : rleaves r2 = rleaves X ++ flat_map rleaves ys.
Proof. rewrite reroot_leaves. reflexivity. Qed.

Lemma reroot_iclades_bwd C : In C (iclades r3) -> In C (iclades r2).
Proof.
  unfold r2, r3. intros HC. apply in_iclades_RT in HC as [[_ ->]|(c & [<-|Hc] & HC)]; apply in_iclades_RT.
  - left. split; [discriminate|]. cbn [flat_map]. rewrite (rleaves_children j ys Hys), app_nil_r. reflexivity.
  - right. exists X. simpl; auto.
  - right. exists (RT j ys). split; [simpl; auto|]. apply in_iclades_RT. right. eauto.
Qed.

Lemma reroot_complement x :
  In x (map nm (rleaves r2)) -> (In x (map nm (flat_map rleaves ys)) <-> ~ In x (map nm (rleaves X))).
Proof.
  pose proof Hnd as Hnd'. rewrite reroot_leaves_split, map_app in *. apply NoDup_app_iff in Hnd' as (_ & _ & Hdis).
  intros Hx. split.
  - intros H1 H2. eapply Hdis; eauto.
  - intros H. apply in_app_or in Hx as [Hx|Hx]; tauto.
Qed.

Theorem rsplits_reroot : split_equiv (map nm (rleaves r2)) (rsplits nm r2) (rsplits nm r3).
Proof.
  split; apply split_incl_iclades'.
  - intros C HC Hn. rewrite <- reroot_leaves.
    unfold r2 in HC. apply in_iclades_RT in HC as [[_ ->]|(c & [<-|[<-|[]]] & HC)].
    + exists (rleaves r3). split; [apply iclades_self; reflexivity|]. rewrite <- reroot_leaves. split; auto.
      apply same_split_refl.
    + exists C. split; [|split; auto using same_split_refl].
      apply in_iclades_RT. right. exists X. simpl; auto.
    + apply in_iclades_RT in HC as [[_ ->]|(y & Hy & HC)].
      * (* the branch above Y: the same split is induced by the branch above X *)
        apply nontriv_len_spec in Hn as [H1 H2]. fold r2 in H2. rewrite reroot_leaves_split, app_length in H2.
        destruct (leaf_or_internal X) as [(k & ->)|HX]; [simpl in H2; lia|].
        exists (rleaves X). split; [|split].
        -- apply in_iclades_RT. right. exists X. split; [simpl; auto|apply iclades_self; auto].
        -- apply nontriv_len_spec. rewrite reroot_leaves_split, app_length. lia.
        -- right. apply reroot_complement.
      * exists C. split; [|split; auto using same_split_refl].
        apply in_iclades_RT. right. exists y. simpl; auto.
  - intros C HC Hn. rewrite reroot_leaves. exists C. split; [apply reroot_iclades_bwd; auto|].
    split; auto using same_split_refl.
Qed.

End Reroot.

Lemma split_incl_ext X X' A B : (forall x, In x X' -> In x X) -> split_incl X A B -> split_incl X' A B.
Proof.
  intros HX H S HS. destruct (H S HS) as (S' & HS' & E). exists S'. split; auto. eapply same_split_ext; eauto.
Qed.

Lemma split_equiv_ext X X' A B : (forall x, In x X' -> In x X) -> split_equiv X A B -> split_equiv X' A B.
Proof. intros HX [H1 H2]. split; eapply split_incl_ext; eauto. Qed.

(* the other drawing order: root (Y(Y1..Yk), X) against root (Y1..Yk, X) *)
Theorem rsplits_reroot_mirror nm i i' j X ys :
  ys <> [] -> NoDup (map nm (rleaves (RT i [RT j ys; X]))) ->
  split_equiv (map nm (rleaves (RT i [RT j ys; X])))
              (rsplits nm (RT i [RT j ys; X])) (rsplits nm (RT i' (ys ++ [X]))).
Proof.
  intros Hys Hnd.
  assert (R1 : reorder (RT i [RT j ys; X]) (RT i [X; RT j ys])) by (apply reorder_swap, perm_swap).
  assert (R3 : reorder (RT i' (X :: ys)) (RT i' (ys ++ [X]))) by (apply reorder_swap, Permutation_cons_append).
  pose proof (Permutation_map nm (reorder_leaves _ _ R1)) as P1.
  assert (Hnd2 : NoDup (map nm (rleaves (RT i [X; RT j ys])))) by (eapply Permutation_NoDup; eauto).
  eapply split_equiv_trans; [apply rsplits_reorder; exact R1|].
  eapply split_equiv_trans.
  - eapply split_equiv_ext; [|apply (rsplits_reroot nm i i' j X ys Hys Hnd2)].
    intros x Hx. eapply Permutation_in; eauto.
  - eapply split_equiv_ext; [|apply rsplits_reorder; exact R3].
    intros x Hx. rewrite <- (reroot_leaves i i' j X ys Hys). eapply Permutation_in; eauto.
Qed.

(* ---- E4. consistent (injective) renaming of the taxa --------------------------------------------- *)
Section Rename.
Variable f : str -> str.
Hypothesis f_inj : forall x y, f x = f y -> x = y.

Lemma in_map_inj x (l : list str) : In (f x) (map f l) <-> In x l.
Proof.
  split; [|apply in_map]. intros H. apply in_map_iff in H as (y & E & Hy). apply f_inj in E. subst; auto.
Qed.

Theorem rsplits_rename nm r : rsplits (fun i => f (nm i)) r = map (map f) (rsplits nm r).
Proof.
  unfold rsplits, clade. rewrite map_map. apply map_ext. intros s. rewrite map_map. reflexivity.
Qed.

Lemma same_split_rename X S S' : same_split (map f X) (map f S) (map f S') <-> same_split X S S'.
Proof.
  unfold same_split. split; (intros [H|H]; [left|right]).
  - intros x Hx. specialize (H (f x) (in_map f _ _ Hx)). rewrite !in_map_inj in H. exact H.
  - intros x Hx. specialize (H (f x) (in_map f _ _ Hx)). rewrite !in_map_inj in H. exact H.
  - intros y Hy. apply in_map_iff in Hy as (x & <- & Hx). rewrite !in_map_inj. auto.
  - intros y Hy. apply in_map_iff in Hy as (x & <- & Hx). rewrite !in_map_inj. auto.
Qed.

Lemma split_incl_rename X A B :
  split_incl (map f X) (map (map f) A) (map (map f) B) <-> split_incl X A B.
Proof.
  unfold split_incl. split; intros H S HS.
  - destruct (H (map f S)) as (S' & HS' & E); [apply in_map; auto|].
    apply in_map_iff in HS' as (S0 & <- & HS0). exists S0. split; auto. apply same_split_rename; auto.
  - apply in_map_iff in HS as (S0 & <- & HS0). destruct (H S0 HS0) as (S' & HS' & E).
    exists (map f S'). split; [apply in_map; auto|]. apply same_split_rename; auto.
Qed.

(* renaming maps the split set to its image: two trees have the same splits before iff after *)
Theorem split_equiv_rename X A B :
  split_equiv (map f X) (map (map f) A) (map (map f) B) <-> split_equiv X A B.
Proof. unfold split_equiv. rewrite !split_incl_rename. tauto. Qed.

Corollary rsplits_rename_equiv nm X r r' :
  split_equiv (map f X) (rsplits (fun i => f (nm i)) r) (rsplits (fun i => f (nm i)) r') <->
  split_equiv X (rsplits nm r) (rsplits nm r').
Proof. rewrite !rsplits_rename. apply split_equiv_rename. Qed.

(* and the number of splits shared by two trees (the quantity behind RF) can be counted on either side *)
Lemma same_split_rename_mem X S B :
  (exists S', In S' (map (map f) B) /\ same_split (map f X) (map f S) S') <->
  (exists S', In S' B /\ same_split X S S').
Proof.
  split.
  - intros (S' & HS' & E). apply in_map_iff in HS' as (S0 & <- & HS0). exists S0. split; auto.
    apply same_split_rename; auto.
  - intros (S' & HS' & E). exists (map f S'). split; [apply in_map; auto|]. apply same_split_rename; auto.
Qed.

End Rename.

(* ================================================================================================ *)
(* F. the leaf index is the sorted list of names: it depends on the set of names only               *)
(* ================================================================================================ *)

Lemma str_ltb_cons x a y b :
  str_ltb (x :: a) (y :: b) = if N.ltb x y then true else if N.eqb x y then str_ltb a b else false.
Proof. reflexivity. Qed.

Lemma str_ltb_irrefl : forall a, str_ltb a a = false.
Proof. induction a as [|x a IH]; auto. rewrite str_ltb_cons, N.ltb_irrefl, N.eqb_refl. auto. Qed.

Lemma str_ltb_trans : forall a b c, str_ltb a b = true -> str_ltb b c = true -> str_ltb a c = true.
Proof.
  induction a as [|x a IH]; intros [|y b] [|z c]; try discriminate; auto.
  rewrite !str_ltb_cons.
  destruct (N.ltb_spec x y), (N.eqb_spec x y), (N.ltb_spec y z), (N.eqb_spec y z), (N.ltb_spec x z), (N.eqb_spec x z);
    try discriminate; try lia; auto.
  apply IH.
Qed.

Lemma str_ltb_tri : forall a b, a = b \/ str_ltb a b = true \/ str_ltb b a = true.
Proof.
  induction a as [|x a IH]; intros [|y b]; auto.
  rewrite !str_ltb_cons.
  destruct (N.ltb_spec x y), (N.eqb_spec x y), (N.ltb_spec y x), (N.eqb_spec y x); try lia; auto.
  subst. destruct (IH b) as [->|[H'|H']]; auto.
Qed.

Lemma str_ltb_asym a b : str_ltb a b = true -> str_ltb b a = false.
Proof.
  intros H. destruct (str_ltb b a) eqn:E; auto.
  pose proof (str_ltb_trans _ _ _ H E) as H'. rewrite str_ltb_irrefl in H'. discriminate.
Qed.

Definition sle (a b : str) : Prop := str_leb a b = true.

Lemma sle_total a b : sle a b \/ sle b a.
Proof.
  unfold sle, str_leb. destruct (str_ltb b a) eqn:E; auto. right. rewrite (str_ltb_asym _ _ E). reflexivity.
Qed.

Lemma sle_antisym a b : sle a b -> sle b a -> a = b.
Proof.
  unfold sle, str_leb. rewrite !negb_true_iff. intros H1 H2. destruct (str_ltb_tri a b) as [?|[H|H]]; congruence.
Qed.

Lemma sle_trans a b c : sle a b -> sle b c -> sle a c.
Proof.
  unfold sle, str_leb. rewrite !negb_true_iff. intros H1 H2.
  destruct (str_ltb c a) eqn:E; auto.
  destruct (str_ltb_tri a b) as [->|[H|H]]; try congruence.
  rewrite (str_ltb_trans _ _ _ E H) in H2. discriminate.
Qed.

Lemma insert_sorted_SS x l : StronglySorted sle l -> StronglySorted sle (insert_sorted str_leb x l).
Proof.
  induction 1 as [|y l Hs IH Hf]; simpl; [repeat constructor|].
  destruct (str_leb x y) eqn:E.
  - constructor; [constructor; auto|]. constructor; auto.
    rewrite Forall_forall in *. intros z Hz. eapply sle_trans; [exact E|auto].
  - constructor; auto. rewrite Forall_forall in *. intros z Hz.
    apply (Permutation_in _ (insert_sorted_perm str_leb x l)) in Hz as [<-|Hz]; auto.
    destruct (sle_total x y) as [H|H]; auto. unfold sle in H. congruence.
Qed.

Lemma stable_sort_SS l : StronglySorted sle (stable_sort str_leb l).
Proof. unfold stable_sort. induction l; simpl; [constructor|apply insert_sorted_SS; auto]. Qed.

Lemma SS_perm_unique : forall l1 l2, StronglySorted sle l1 -> StronglySorted sle l2 -> Permutation l1 l2 -> l1 = l2.
Proof.
  induction l1 as [|a l1 IH]; intros l2 H1 H2 Hp.
  - apply Permutation_nil in Hp. auto.
  - destruct l2 as [|b l2]; [apply Permutation_sym, Permutation_nil in Hp; discriminate|].
    apply StronglySorted_inv in H1 as [H1 F1]. apply StronglySorted_inv in H2 as [H2 F2].
    rewrite Forall_forall in F1, F2.
    assert (a = b).
    { assert (Ha : In a (b :: l2)) by (eapply Permutation_in; eauto; simpl; auto).
      assert (Hb : In b (a :: l1)) by (eapply Permutation_in; [apply Permutation_sym; eauto|simpl; auto]).
      destruct Ha as [->|Ha]; auto. destruct Hb as [->|Hb]; auto. apply sle_antisym; auto. }
    subst b. f_equal. apply IH; auto. eapply Permutation_cons_inv; eauto.
Qed.

Theorem stable_sort_perm_eq l1 l2 : Permutation l1 l2 -> stable_sort str_leb l1 = stable_sort str_leb l2.
Proof.
  intros Hp. apply SS_perm_unique; auto using stable_sort_SS.
  eapply Permutation_trans; [apply stable_sort_perm|]. eapply Permutation_trans; [exact Hp|].
  apply Permutation_sym, stable_sort_perm.
Qed.

(* ================================================================================================ *)
(* G. the reported bitsets against the spec-level split set; arena-level invariances                *)
(* ================================================================================================ *)
Lemma rsplits_ext nm nm' r : (forall i, In i (rleaves r) -> nm i = nm' i) -> rsplits nm r = rsplits nm' r.
Proof.
  intros H. unfold rsplits. apply map_ext_in. intros s Hs. apply in_split_nodes in Hs as (Hs & _).
  unfold clade. apply map_ext_in. intros i Hi. apply H. eapply subtrees_leaves_incl; eauto.
  apply subtrees_cases; auto.
Qed.

Section Link.
Context {L : Type}.
Notation arena := (@arena L).
Notation tree := (@tree L).
Variable O : LenOps L.

Theorem leaf_idx_sorted (t : arena) : StronglySorted sle (leaf_idx t).
Proof. apply stable_sort_SS. Qed.

Section One.
Variables (t : arena) (root : nat) (r : rtree).
Hypothesis G : Good t root r.
Variables (ps : list bits) (tc : tree).
Hypothesis Hget : get_partitions O (tree_of t) = Ok (ps, tc).

(* the reported bitsets are exactly the canonical bitsets of the spec-level splits *)
Theorem partitions_spec b :
  In b ps <-> exists S, In S (rsplits (lab t) r) /\ b = canon (clade_bits (leaf_idx t) S).
Proof.
  split.
  - intros Hb. destruct (partitions_sound t root r G O ps tc Hget b Hb) as (s & Hs & Hi & -> & H1 & H2).
    exists (clade (lab t) s). split; auto. apply in_map. apply in_split_nodes. auto.
  - intros (S & HS & ->). apply in_map_iff in HS as (s & <- & Hs). apply in_split_nodes in Hs as (Hs & Hi & H1 & H2).
    eapply partitions_complete; eauto.
Qed.

(* two reported bitsets coincide iff they denote the same unordered pair of leaf sets *)
Theorem partitions_same_split S S' :
  canon (clade_bits (leaf_idx t) S) = canon (clade_bits (leaf_idx t) S') <->
  same_split (map (lab t) (rleaves r)) S S'.
Proof.
  rewrite canon_clade_bits_iff. split; apply same_split_ext; intros x Hx.
  - apply (leaf_idx_In t root r G). apply in_map_iff in Hx as (i & <- & Hi). eauto.
  - apply (leaf_idx_In t root r G) in Hx as (i & Hi & <-). apply in_map; auto.
Qed.

End One.

(* two arenas carrying the same names and the same split set report the same bitsets *)
Theorem partitions_invariant (t t' : arena) root root' r r' ps ps' (tc tc' : tree) :
  Good t root r -> Good t' root' r' ->
  (forall x, In x (map (lab t) (rleaves r)) <-> In x (map (lab t') (rleaves r'))) ->
  split_equiv (map (lab t) (rleaves r)) (rsplits (lab t) r) (rsplits (lab t') r') ->
  get_partitions O (tree_of t) = Ok (ps, tc) ->
  get_partitions O (tree_of t') = Ok (ps', tc') ->
  leaf_idx t = leaf_idx t' /\ forall b, In b ps <-> In b ps'.
Proof.
  intros G G' Hnames Heq Hps Hps'.
  assert (Hli : leaf_idx t = leaf_idx t').
  { unfold leaf_idx. apply stable_sort_perm_eq.
    eapply Permutation_trans; [apply Permutation_map, (get_leaves_perm t root r G)|].
    eapply Permutation_trans; [|apply Permutation_map, Permutation_sym, (get_leaves_perm t' root' r' G')].
    apply NoDup_Permutation; auto using (g_uniq _ _ _ G), (g_uniq _ _ _ G'). }
  split; auto. intros b.
  rewrite (partitions_spec t root r G ps tc Hps), (partitions_spec t' root' r' G' ps' tc' Hps').
  destruct Heq as [H1 H2]. split; intros (S & HS & ->).
  - destruct (H1 S HS) as (S' & HS' & E). exists S'. split; auto. rewrite <- Hli.
    apply (partitions_same_split t root r G); auto.
  - destruct (H2 S HS) as (S' & HS' & E). exists S'. split; auto. rewrite <- Hli.
    apply (partitions_same_split t root r G); auto using same_split_sym.
Qed.

(* when the two arenas label their common leaves alike, a spec-level equivalence is enough *)
Theorem partitions_transfer (t t' : arena) root root' r r' ps ps' (tc tc' : tree) :
  Good t root r -> Good t' root' r' ->
  Permutation (rleaves r) (rleaves r') ->
  (forall i, In i (rleaves r) -> lab t i = lab t' i) ->
  split_equiv (map (lab t) (rleaves r)) (rsplits (lab t) r) (rsplits (lab t) r') ->
  get_partitions O (tree_of t) = Ok (ps, tc) ->
  get_partitions O (tree_of t') = Ok (ps', tc') ->
  forall b, In b ps <-> In b ps'.
Proof.
  intros G G' Hp Hlab Heq Hps Hps'.
  eapply partitions_invariant with (t := t) (t' := t'); eauto.
  - intros x. rewrite !in_map_iff. split; intros (i & <- & Hi).
    + exists i. split; [symmetry; auto|]. eapply Permutation_in; eauto.
    + apply (Permutation_in _ (Permutation_sym Hp)) in Hi. eauto.
  - rewrite <- (rsplits_ext (lab t) (lab t') r'); auto.
    intros i Hi. apply Hlab. eapply Permutation_in; [apply Permutation_sym|]; eauto.
Qed.

Section Corollaries.
Variables (t t' : arena) (root root' : nat) (r r' : rtree) (ps ps' : list bits) (tc tc' : tree).
Hypothesis G : Good t root r.
Hypothesis G' : Good t' root' r'.
Hypothesis Hlab : forall i, In i (rleaves r) -> lab t i = lab t' i.
Hypothesis Hps : get_partitions O (tree_of t) = Ok (ps, tc).
Hypothesis Hps' : get_partitions O (tree_of t') = Ok (ps', tc').

Corollary partitions_reorder : reorder r r' -> forall b, In b ps <-> In b ps'.
Proof.
  intros H. apply (partitions_transfer t t' root root' r r' ps ps' tc tc' G G'); auto using reorder_leaves, rsplits_reorder.
Qed.

Corollary partitions_unary : unary_ins r r' -> forall b, In b ps <-> In b ps'.
Proof.
  intros H. apply (partitions_transfer t t' root root' r r' ps ps' tc tc' G G'); auto using rsplits_unary.
  rewrite (unary_ins_leaves _ _ H). auto.
Qed.

Corollary partitions_reroot i i' j X ys :
  ys <> [] -> r = RT i [X; RT j ys] -> r' = RT i' (X :: ys) -> forall b, In b ps <-> In b ps'.
Proof.
  intros Hys Hr Hr'. subst r r'.
  apply (partitions_transfer t t' root root' _ _ ps ps' tc tc' G G'); auto.
  - rewrite (reroot_leaves i i' j X ys Hys); auto.
  - apply (rsplits_reroot (lab t) i i' j X ys Hys). apply (g_uniq _ _ _ G).
Qed.

End Corollaries.

(* renaming the taxa of an arena through an injective map: the reported bitsets are the images of the
   same splits, and two of them coincide after renaming iff they coincided before *)
Theorem partitions_rename (t t' : arena) root root' r (f : str -> str) ps ps' (tc tc' : tree) :
  Good t root r -> Good t' root' r ->
  (forall x y, f x = f y -> x = y) ->
  (forall i, In i (rleaves r) -> lab t' i = f (lab t i)) ->
  get_partitions O (tree_of t) = Ok (ps, tc) ->
  get_partitions O (tree_of t') = Ok (ps', tc') ->
  (forall b, In b ps <-> exists S, In S (rsplits (lab t) r) /\ b = canon (clade_bits (leaf_idx t) S)) /\
  (forall b, In b ps' <-> exists S, In S (rsplits (lab t) r) /\ b = canon (clade_bits (leaf_idx t') (map f S))) /\
  (forall S S', canon (clade_bits (leaf_idx t') (map f S)) = canon (clade_bits (leaf_idx t') (map f S')) <->
                canon (clade_bits (leaf_idx t) S) = canon (clade_bits (leaf_idx t) S')).
Proof.
  intros G G' Hf Hlab Hps Hps'. split; [|split].
  - apply (partitions_spec t root r G ps tc Hps).
  - intros b. rewrite (partitions_spec t' root' r G' ps' tc' Hps').
    rewrite (rsplits_ext (lab t') (fun i => f (lab t i)) r Hlab), rsplits_rename.
    split.
    + intros (S' & HS' & ->). apply in_map_iff in HS' as (S & <- & HS). eauto.
    + intros (S & HS & ->). exists (map f S). split; auto. apply in_map; auto.
  - intros S S'. rewrite (partitions_same_split t root r G), (partitions_same_split t' root' r G').
    replace (map (lab t') (rleaves r)) with (map f (map (lab t) (rleaves r))).
    + apply same_split_rename; auto.
    + rewrite map_map. apply map_ext_in. intros i Hi. symmetry; auto.
Qed.

End Link.

(* ================================================================================================ *)
(* H. a concrete instance (the hypotheses are satisfiable; the model agrees with the spec)          *)
(* ================================================================================================ *)
Module Example.
Definition mk (i : nat) (nm : option str) (p : option nat) (ch : list nat) (d : nat) : @node unit :=
  mkNode i nm p ch None None [] d false.
Definition A : str := [65%N]. Definition B : str := [66%N]. Definition C : str := [67%N].
Definition D : str := [68%N]. Definition E : str := [69%N].
(* ((B,A),(C,(E,D))) *)
Definition ex : @arena unit :=
  [ mk 0 None None [1;4] 0; mk 1 None (Some 0) [2;3] 1; mk 2 (Some B) (Some 1) [] 2; mk 3 (Some A) (Some 1) [] 2;
    mk 4 None (Some 0) [5;6] 1; mk 5 (Some C) (Some 4) [] 2; mk 6 None (Some 4) [7;8] 2;
    mk 7 (Some E) (Some 6) [] 3; mk 8 (Some D) (Some 6) [] 3 ].
Definition exr : rtree :=
  RT 0 [RT 1 [RT 2 []; RT 3 []]; RT 4 [RT 5 []; RT 6 [RT 7 []; RT 8 []]]].
Definition OU : LenOps unit :=
  Build_LenOps unit tt tt (fun _ _ => tt) (fun _ _ => tt) (fun _ _ => tt) (fun _ _ => tt) (fun _ => tt)
               (fun _ _ => false) (fun _ _ => true) (fun _ => tt) tt.

Lemma ex_good : Good ex 0 exr.
Proof.
  constructor.
  - unfold exr.
    repeat (econstructor; try reflexivity;
            try (intros c nc Hin Hn; simpl in Hin; intuition; subst c; simpl in Hn; injection Hn as <-; reflexivity);
            try (simpl; intros c Hc; congruence)).
  - unfold exr, ids. simpl. repeat constructor; simpl; intuition; try discriminate.
  - intros i (n & Hn & Hd). unfold exr, ids. simpl.
    do 9 (destruct i as [|i]; [tauto|]). destruct i; discriminate.
  - unfold exr. simpl. intros i Hi. intuition; subst; discriminate.
  - unfold exr. simpl. repeat constructor; simpl; intuition; try discriminate.
Qed.

(* AB|CDE is induced by two branches and reported once; DE|ABC is listed by its smaller side ABC *)
Example ex_partitions :
  (match get_partitions OU (tree_of ex) with Ok (ps, _) => Some ps | _ => None end) =
  Some [[true; true; false; false; false]; [true; true; true; false; false]].
Proof. vm_compute. reflexivity. Qed.

Example ex_rsplits : rsplits (lab ex) exr = [[B; A]; [C; E; D]; [E; D]].
Proof. vm_compute. reflexivity. Qed.
End Example.

(* ================================================================================================ *)
(* assumptions of the main results                                                                  *)
(* ================================================================================================ *)
Print Assumptions canon_eq_iff.
Print Assumptions canon_compl.
Print Assumptions fbs_ltb_total.
Print Assumptions fbs_ltb_trans.
Print Assumptions trivial_part_sides.
Print Assumptions init_leaf_index_fresh.
Print Assumptions init_leaf_index_keeps.
Print Assumptions leaf_idx_perm.
Print Assumptions n_leaves_good.
Print Assumptions rank_inj.
Print Assumptions get_partition_good.
Print Assumptions get_partition_fresh.
Print Assumptions get_partitions_caches.
Print Assumptions get_partitions_again.
Print Assumptions partitions_sound.
Print Assumptions partitions_complete.
Print Assumptions partitions_once.
Print Assumptions partitions_length.
Print Assumptions partitions_spec.
Print Assumptions partitions_same_split.
Print Assumptions rsplits_reorder.
Print Assumptions rsplits_unary.
Print Assumptions rsplits_unary_same.
Print Assumptions rsplits_reroot.
Print Assumptions rsplits_reroot_mirror.
Print Assumptions rsplits_rename.
Print Assumptions split_equiv_rename.
Print Assumptions stable_sort_perm_eq.
Print Assumptions WF_unique_Good.
Print Assumptions partitions_invariant.
Print Assumptions partitions_reorder.
Print Assumptions partitions_unary.
Print Assumptions partitions_reroot.
Print Assumptions partitions_rename.
Print Assumptions Example.ex_good.
