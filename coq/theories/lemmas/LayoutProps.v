(* LayoutProps.v — C19: the radial layout has one segment per non-root node (in preorder), from the parent
   to the node, carrying the branch length and the label; the direction of a node is the middle of its
   angular wedge; sibling wedges are consecutive, disjoint, inside the parent's wedge and proportional to
   the leaf counts.  Lengths / angles: generic LenOps for the refinement, Qc for the wedge algebra, R for
   the Euclidean facts about (cos, sin). *)
From Coq Require Import List Arith ZArith Lia Bool Permutation QArith Qcanon.
From PT Require Import Arena Spec Queries Matrix Gen RepLib WFOps Traversals Stats.
Import ListNotations.
Close Scope Qc_scope.
Close Scope Q_scope.

Local Arguments ids : simpl never.

(* ================================================================================================ *)
(* 1. the layout of a rose tree (specification)                                                      *)
(* ================================================================================================ *)
Section RoseSpec.
Context {L : Type}.
Variable O : LenOps L.
Variable r0 : rtree.            (* the whole tree *)

(* angular width of the wedge of a subtree, in turns *)
Definition Wr (c : rtree) : L := ldiv O (lofnat O (nleaves c)) (lofnat O (nleaves r0)).

(* the layout is defined for any assignment of widths to subtrees; the layout proper uses Wr *)
Variable wt : rtree -> L.

(* (parent, node, start of wedge, width of wedge), in preorder; children are placed one after the other
   starting at the start of the parent's wedge *)
Fixpoint slay (u : nat) (tv wv : L) (r : rtree) : list (nat * nat * L * L) :=
  match r with
  | RT i cs => (u, i, tv, wv) ::
      (fix f (nn : L) (cs : list rtree) : list (nat * nat * L * L) :=
         match cs with
         | [] => []
         | c :: cs' => slay i nn (wt c) c ++ f (ladd O nn (wt c)) cs'
         end) tv cs
  end.
Fixpoint slayf (u : nat) (nn : L) (cs : list rtree) : list (nat * nat * L * L) :=
  match cs with
  | [] => []
  | c :: cs' => slay u nn (wt c) c ++ slayf u (ladd O nn (wt c)) cs'
  end.

Lemma slay_RT u tv wv i cs : slay u tv wv (RT i cs) = (u, i, tv, wv) :: slayf i tv cs.
Proof.
  simpl. f_equal. generalize tv. induction cs as [|c cs IH]; intros nn; simpl; auto. f_equal. apply IH.
Qed.

(* the starts of the wedges of a list of siblings *)
Fixpoint child_starts (nn : L) (cs : list rtree) : list L :=
  match cs with
  | [] => []
  | c :: cs' => nn :: child_starts (ladd O nn (wt c)) cs'
  end.

Lemma child_starts_length nn cs : length (child_starts nn cs) = length cs.
Proof. revert nn; induction cs; intros; simpl; auto. Qed.

Lemma slayf_child_starts u nn cs :
  slayf u nn cs = flat_map (fun ct : rtree * L => slay u (snd ct) (wt (fst ct)) (fst ct))
                           (combine cs (child_starts nn cs)).
Proof. revert nn; induction cs as [|c cs IH]; intros nn; simpl; auto. f_equal. apply IH. Qed.

(* the (parent, child) pairs of a tree in preorder *)
Fixpoint edges (r : rtree) : list (nat * nat) :=
  match r with RT i cs => flat_map (fun c => (i, rid c) :: edges c) cs end.

Lemma slay_nodes : forall r u tv wv,
  map (fun s : nat * nat * L * L => snd (fst (fst s))) (slay u tv wv r) = pre r.
Proof.
  induction r as [i cs IH] using RepLib.rtree_ind'. intros u tv wv. rewrite slay_RT. simpl. f_equal.
  generalize tv. induction cs as [|c cs IHc]; intros nn; simpl; auto.
  inversion IH; subst. rewrite map_app. f_equal; auto.
Qed.

Lemma slayf_nodes u nn cs :
  map (fun s : nat * nat * L * L => snd (fst (fst s))) (slayf u nn cs) = flat_map pre cs.
Proof.
  revert nn; induction cs as [|c cs IH]; intros nn; simpl; auto. rewrite map_app, slay_nodes. f_equal. auto.
Qed.

Lemma slay_edges : forall r u tv wv,
  map (fun s : nat * nat * L * L => (fst (fst (fst s)), snd (fst (fst s)))) (slay u tv wv r)
  = (u, rid r) :: edges r.
Proof.
  induction r as [i cs IH] using RepLib.rtree_ind'. intros u tv wv. rewrite slay_RT. simpl. f_equal.
  generalize tv. induction cs as [|c cs IHc]; intros nn; simpl; auto.
  inversion IH; subst. rewrite map_app. rewrite H1. simpl. f_equal. f_equal. auto.
Qed.

Lemma slayf_edges u nn cs :
  map (fun s : nat * nat * L * L => (fst (fst (fst s)), snd (fst (fst s)))) (slayf u nn cs)
  = flat_map (fun c => (u, rid c) :: edges c) cs.
Proof.
  revert nn; induction cs as [|c cs IH]; intros nn; simpl; auto.
  rewrite map_app, slay_edges. simpl. f_equal. f_equal. auto.
Qed.

Lemma edges_children : forall r, map snd (edges r) = tl (pre r).
Proof.
  induction r as [i cs IH] using RepLib.rtree_ind'. simpl.
  induction cs as [|c cs IHc]; simpl; auto. inversion IH; subst.
  rewrite map_app. simpl. rewrite H1, IHc by auto. destruct c. reflexivity.
Qed.

End RoseSpec.

(* ================================================================================================ *)
(* 2. wedge algebra over the canonical rationals                                                     *)
(* ================================================================================================ *)
Definition OQ : LenOps Qc := {|
  l0 := 0%Qc; l1 := 1%Qc;
  ladd := Qcplus; lsub := Qcminus; lmul := Qcmult; ldiv := Qcdiv;
  labs := fun x => if Qclt_le_dec x 0%Qc then Qcopp x else x;
  lltb := fun a b => if Qclt_le_dec a b then true else false;
  leqb := fun a b => if Qc_eq_dec a b then true else false;
  lofnat := fun n => Q2Qc (inject_Z (Z.of_nat n));
  linf := 0%Qc |}.

Definition qn (n : nat) : Qc := Q2Qc (inject_Z (Z.of_nat n)).

Lemma qn_add a b : qn (a + b) = (qn a + qn b)%Qc.
Proof.
  unfold qn, Qcplus. apply Q2Qc_eq_iff. unfold Q2Qc; cbn [this]. rewrite !Qred_correct.
  rewrite Nat2Z.inj_add, inject_Z_plus. reflexivity.
Qed.

Lemma qn_0 : qn 0 = 0%Qc.
Proof. apply Qc_is_canon. reflexivity. Qed.

Lemma qn_nonneg n : (0 <= qn n)%Qc.
Proof.
  unfold qn, Qcle. unfold Q2Qc; cbn [this]. rewrite !Qred_correct. unfold Qle. simpl. lia.
Qed.

Lemma qn_pos n : 0 < n -> (0 < qn n)%Qc.
Proof.
  intros H. unfold qn, Qclt. unfold Q2Qc; cbn [this]. rewrite !Qred_correct. unfold Qlt. simpl. lia.
Qed.

Lemma Qcinv_pos' x : (0 < x)%Qc -> (0 < / x)%Qc.
Proof.
  unfold Qclt, Qcinv. intros H. unfold Q2Qc in *; cbn [this] in *. rewrite !Qred_correct in *.
  apply Qinv_lt_0_compat. exact H.
Qed.

Lemma nleaves_RT i c cs : nleaves (RT i (c :: cs)) = sum_nat (map nleaves (c :: cs)).
Proof.
  unfold nleaves. cbn [rleaves]. generalize (c :: cs). intros l.
  induction l as [|x l IH]; simpl; auto. rewrite app_length, IH. reflexivity.
Qed.

Lemma nleaves_pos : forall r, 0 < nleaves r.
Proof.
  intros r. unfold nleaves. pose proof (rleaves_nonempty r). destruct (rleaves r); simpl; [congruence|lia].
Qed.

Section Wedges.
Variable r0 : rtree.
Notation W := (Wr OQ r0).
Definition sumQ (l : list Qc) : Qc := fold_right Qcplus 0%Qc l.

Lemma W_eq c : W c = (qn (nleaves c) / qn (nleaves r0))%Qc.
Proof. reflexivity. Qed.

Lemma W_nonneg c : (0 <= W c)%Qc.
Proof.
  rewrite W_eq. unfold Qcdiv.
  assert (H : (0 < qn (nleaves r0))%Qc) by (apply qn_pos, nleaves_pos).
  replace 0%Qc with (0 * / qn (nleaves r0))%Qc by ring.
  apply Qcmult_le_compat_r; [apply qn_nonneg|].
  apply Qclt_le_weak. apply Qcinv_pos'. exact H.
Qed.

(* the whole tree occupies one turn *)
Lemma W_root : W r0 = 1%Qc.
Proof.
  rewrite W_eq. assert (H : (0 < qn (nleaves r0))%Qc) by (apply qn_pos, nleaves_pos).
  field. intros E. rewrite E in H. discriminate.
Qed.

(* the wedges of the children of an internal node add up to the wedge of the node *)
Theorem wedge_children_sum i cs : cs <> [] -> sumQ (map W cs) = W (RT i cs).
Proof.
  intros Hne. destruct cs as [|c cs]; [congruence|]. rewrite (W_eq (RT i (c :: cs))), nleaves_RT.
  generalize (c :: cs). intros l. induction l as [|x l IH]; cbn [map sum_nat].
  - rewrite qn_0. unfold sumQ, Qcdiv. simpl. ring.
  - change (sumQ (W x :: map W l)) with (W x + sumQ (map W l))%Qc.
    rewrite IH, qn_add, W_eq. unfold Qcdiv. ring.
Qed.

(* consecutive placement: the first child starts where the parent starts, child k+1 starts where
   child k ends *)
Theorem wedge_disjoint_consecutive nn cs :
  (forall c, hd_error cs = Some c -> hd_error (child_starts OQ W nn cs) = Some nn) /\
  (forall k ck tk, nth_error cs k = Some ck -> nth_error (child_starts OQ W nn cs) k = Some tk ->
     nth_error (child_starts OQ W nn cs) (S k) =
       if Nat.ltb (S k) (length cs) then Some (tk + W ck)%Qc else None).
Proof.
  split.
  - destruct cs; simpl; auto. discriminate.
  - revert nn. induction cs as [|c cs IH]; intros nn k ck tk Hk Htk; [destruct k; discriminate|].
    destruct k as [|k]; cbn [child_starts nth_error length] in *.
    + injection Hk as <-. injection Htk as <-. destruct cs; reflexivity.
    + rewrite (IH _ _ _ _ Hk Htk). reflexivity.
Qed.

(* start of child k = start of the parent + widths of the preceding siblings *)
Lemma child_start_prefix nn cs k tk :
  nth_error (child_starts OQ W nn cs) k = Some tk -> tk = (nn + sumQ (map W (firstn k cs)))%Qc.
Proof.
  revert nn k. induction cs as [|c cs IH]; intros nn [|k] H; cbn [child_starts nth_error firstn map] in *;
    try discriminate.
  - injection H as <-. unfold sumQ. simpl. ring.
  - rewrite (IH _ _ H). change (sumQ (W c :: map W (firstn k cs))) with (W c + sumQ (map W (firstn k cs)))%Qc.
    change (ladd OQ nn (W c)) with (nn + W c)%Qc. ring.
Qed.

Lemma sumQ_cons x l : sumQ (x :: l) = (x + sumQ l)%Qc.
Proof. reflexivity. Qed.

Lemma le_by_diff a b x : (0 <= x)%Qc -> b = (a + x)%Qc -> (a <= b)%Qc.
Proof.
  intros H ->. replace a with (a + 0)%Qc at 1 by ring. apply Qcplus_le_compat; auto. apply Qcle_refl.
Qed.

Lemma sumQ_nonneg l : (forall x, In x l -> (0 <= x)%Qc) -> (0 <= sumQ l)%Qc.
Proof.
  induction l as [|x l IH]; intros H; simpl.
  - apply Qcle_refl.
  - replace 0%Qc with (0 + 0)%Qc by ring. apply Qcplus_le_compat; [apply H; simpl; auto|].
    apply IH. intros; apply H; simpl; auto.
Qed.

Lemma sumQ_app a b : sumQ (a ++ b) = (sumQ a + sumQ b)%Qc.
Proof. induction a; simpl; [ring|]. rewrite IHa. ring. Qed.

Lemma sumW_nonneg cs : (0 <= sumQ (map W cs))%Qc.
Proof. apply sumQ_nonneg. intros x Hx. apply in_map_iff in Hx as (c & <- & _). apply W_nonneg. Qed.

(* sibling wedges [T c, T c + W c) are pairwise disjoint (the earlier one ends before the later one
   starts), and lie inside the parent's wedge [T, T + W parent) *)
Theorem wedge_siblings_disjoint i nn cs a b ca cb ta tb :
  a < b ->
  nth_error cs a = Some ca -> nth_error cs b = Some cb ->
  nth_error (child_starts OQ W nn cs) a = Some ta -> nth_error (child_starts OQ W nn cs) b = Some tb ->
  (ta + W ca <= tb)%Qc /\
  (nn <= ta)%Qc /\ (tb + W cb <= nn + W (RT i cs))%Qc.
Proof.
  intros Hab Ha Hb Hta Htb.
  rewrite (child_start_prefix _ _ _ _ Hta), (child_start_prefix _ _ _ _ Htb).
  assert (Hcs : cs <> []) by (intros ->; destruct a; discriminate).
  rewrite <- (wedge_children_sum i cs Hcs).
  (* split cs around a and b *)
  assert (Hfa : firstn b cs = firstn a cs ++ ca :: firstn (b - S a) (skipn (S a) cs)).
  { clear - Hab Ha. revert a b Hab Ha. induction cs as [|c cs IH]; intros [|a] [|b] Hab Ha; simpl in *;
      try discriminate; try lia.
    - injection Ha as <-. rewrite Nat.sub_0_r. reflexivity.
    - f_equal. apply IH; auto. lia. }
  assert (Hfb : cs = firstn b cs ++ cb :: skipn (S b) cs).
  { clear - Hb. revert b Hb. induction cs as [|c cs IH]; intros [|b] Hb; simpl in *; try discriminate.
    - injection Hb as <-. reflexivity.
    - f_equal. apply IH; auto. }
  splits.
  - rewrite Hfa, map_app, sumQ_app, map_cons, sumQ_cons.
    eapply le_by_diff; [apply (sumW_nonneg (firstn (b - S a) (skipn (S a) cs)))|]. ring.
  - eapply le_by_diff; [apply (sumW_nonneg (firstn a cs))|]. ring.
  - rewrite Hfb at 2. rewrite map_app, sumQ_app, map_cons, sumQ_cons.
    eapply le_by_diff; [apply (sumW_nonneg (skipn (S b) cs))|]. ring.
Qed.

(* the widths are proportional to the leaf counts *)
Theorem wedge_proportional c1 c2 :
  (W c1 * qn (nleaves c2) = W c2 * qn (nleaves c1))%Qc.
Proof. rewrite !W_eq. unfold Qcdiv. ring. Qed.

(* the reported direction is the middle of the wedge: it lies inside the wedge *)
Theorem direction_inside tv c :
  (tv <= tv + W c / (1 + 1) /\ tv + W c / (1 + 1) <= tv + W c)%Qc.
Proof.
  pose proof (W_nonneg c) as H. set (w := W c) in *.
  assert (Hh : (0 <= w / (1 + 1))%Qc).
  { unfold Qcdiv. replace 0%Qc with (0 * / (1 + 1))%Qc by ring.
    apply Qcmult_le_compat_r; auto. discriminate. }
  split.
  - replace tv with (tv + 0)%Qc at 1 by ring. apply Qcplus_le_compat; auto. apply Qcle_refl.
  - replace (tv + w)%Qc with (tv + (w / (1 + 1) + w / (1 + 1)))%Qc by (field; discriminate).
    replace (tv + w / (1 + 1))%Qc with (tv + (w / (1 + 1) + 0))%Qc at 1 by ring.
    apply Qcplus_le_compat; [apply Qcle_refl|]. apply Qcplus_le_compat; auto. apply Qcle_refl.
Qed.

(* every child's wedge lies inside the parent's wedge *)
Theorem child_wedge_inside i nn cs k ck tk :
  nth_error cs k = Some ck -> nth_error (child_starts OQ W nn cs) k = Some tk ->
  (nn <= tk)%Qc /\ (tk + W ck <= nn + W (RT i cs))%Qc.
Proof.
  intros Hk Htk. rewrite (child_start_prefix _ _ _ _ Htk).
  assert (Hcs : cs <> []) by (intros ->; destruct k; discriminate).
  rewrite <- (wedge_children_sum i cs Hcs).
  assert (Hfb : cs = firstn k cs ++ ck :: skipn (S k) cs).
  { clear - Hk. revert k Hk. induction cs as [|c cs IH]; intros [|k] Hk; simpl in *; try discriminate.
    - injection Hk as <-. reflexivity.
    - f_equal. apply IH; auto. }
  split.
  - eapply le_by_diff; [apply (sumW_nonneg (firstn k cs))|]. ring.
  - rewrite Hfb at 2. rewrite map_app, sumQ_app, map_cons, sumQ_cons.
    eapply le_by_diff; [apply (sumW_nonneg (skipn (S k) cs))|]. ring.
Qed.

(* globally: every wedge of the layout of a subtree lies inside the wedge of that subtree *)
Definition q_start (q : nat * nat * Qc * Qc) : Qc := snd (fst q).
Definition q_width (q : nat * nat * Qc * Qc) : Qc := snd q.

Theorem slay_within : forall s u tv,
  Forall (fun q => (tv <= q_start q)%Qc /\ (q_start q + q_width q <= tv + W s)%Qc)
         (slay OQ W u tv (W s) s).
Proof.
  induction s as [i cs IH] using RepLib.rtree_ind'. intros u tv. rewrite slay_RT. constructor.
  - unfold q_start, q_width. simpl. split; apply Qcle_refl.
  - rewrite slayf_child_starts. apply Forall_forall. intros q Hq.
    apply in_flat_map in Hq as ([c tc] & Hct & Hq). cbn [fst snd] in Hq.
    apply In_nth_error in Hct as (k & Hk).
    assert (Hk1 : nth_error cs k = Some c /\ nth_error (child_starts OQ W tv cs) k = Some tc).
    { clear - Hk. revert k Hk. generalize (child_starts OQ W tv cs). induction cs as [|c0 cs IHc];
        intros [|t0 ts] k Hk; try (destruct k; discriminate).
      destruct k as [|k]; simpl in *.
      - injection Hk as -> ->. auto.
      - apply IHc; auto. }
    destruct Hk1 as [Hkc Hkt].
    destruct (child_wedge_inside i tv cs k c tc Hkc Hkt) as [H1 H2].
    rewrite Forall_forall in IH. pose proof (IH c (nth_error_In _ _ Hkc) i tc) as Hin.
    rewrite Forall_forall in Hin. destruct (Hin q Hq) as [H3 H4].
    split; eapply Qcle_trans; eauto.
Qed.

End Wedges.

(* ================================================================================================ *)
(* 3. the arena computation refines the specification                                                *)
(* ================================================================================================ *)
Lemma foldM_app {A S} (g : S -> A -> outcome S) l1 l2 s :
  foldM g (l1 ++ l2) s = (s' <- foldM g l1 s ;; foldM g l2 s').
Proof.
  revert s; induction l1 as [|a l1 IH]; intros s; simpl; auto.
  destruct (g s a); simpl; auto.
Qed.

Lemma nth_replace_nth_eq {A} k (x d : A) l : k < length l -> nth k (replace_nth k x l) d = x.
Proof. revert k; induction l; intros [|k] H; simpl in *; try lia; auto. apply IHl; lia. Qed.

Lemma nth_replace_nth_neq {A} k j (x d : A) l : j <> k -> nth j (replace_nth k x l) d = nth j l d.
Proof. revert k j; induction l; intros [|k] [|j] H; simpl; try congruence; auto. Qed.

(* all subtrees, in preorder *)
Fixpoint subtrees (r : rtree) : list rtree :=
  match r with RT i cs => RT i cs :: flat_map subtrees cs end.

Lemma subtrees_self r : In r (subtrees r).
Proof. destruct r; simpl; auto. Qed.

Lemma subtrees_ids : forall r s, In s (subtrees r) -> In (rid s) (ids r).
Proof.
  induction r as [i cs IH] using RepLib.rtree_ind'. intros s [<-|Hs].
  - rewrite ids_RT; simpl; auto.
  - rewrite ids_RT. right. apply in_flat_map in Hs as (c & Hc & Hs). apply in_flat_map. exists c. split; auto.
    rewrite Forall_forall in IH. auto.
Qed.

Lemma subtrees_ids_incl : forall r s, In s (subtrees r) -> incl (ids s) (ids r).
Proof.
  induction r as [i cs IH] using RepLib.rtree_ind'. intros s [<-|Hs]; [apply incl_refl|].
  apply in_flat_map in Hs as (c & Hc & Hs). rewrite Forall_forall in IH.
  intros x Hx. rewrite ids_RT. right. apply in_flat_map. exists c. split; auto. eapply IH; eauto.
Qed.

(* l holds, at the id of every subtree of r, its number of leaves *)
Definition counted (l : list nat) (r : rtree) : Prop :=
  forall s, In s (subtrees r) -> nth (rid s) l 0 = nleaves s.

Lemma counted_frame l l' r :
  (forall x, In x (ids r) -> nth x l' 0 = nth x l 0) -> counted l r -> counted l' r.
Proof. intros Hf Hc s Hs. rewrite Hf; auto. apply subtrees_ids; auto. Qed.

Section Layout.
Context {L : Type}.
Variable O : LenOps L.
Notation arena := (@arena L).
Notation node := (@node L).
Variable t : arena.

Definition cnt_step (l : list nat) (v : nat) : outcome (list nat) :=
  n <- get t v ;;
  if is_tip n then Ok (replace_nth v 1 l)
  else Ok (replace_nth v (fold_left (fun acc c => acc + nth c l 0) (nchildren n) (nth v l 0)) l).

Lemma fold_count l : forall cs a,
  Forall (counted l) cs ->
  fold_left (fun acc c => acc + nth c l 0) (map rid cs) a = a + sum_nat (map nleaves cs).
Proof.
  induction cs as [|c cs IH]; intros a HF; simpl; [lia|].
  inversion HF as [|? ? Hc HF']; subst. rewrite IH by auto. rewrite (Hc c (subtrees_self c)). lia.
Qed.

Definition cnt_spec (r' : rtree) : Prop := forall p d i l,
  Rep t p d i r' -> NoDup (ids r') -> (forall x, In x (ids r') -> nth x l 0 = 0) -> length l = length t ->
  exists l', foldM cnt_step (post r') l = Ok l' /\ length l' = length l /\
             (forall x, ~ In x (ids r') -> nth x l' 0 = nth x l 0) /\ counted l' r'.

Lemma cnt_forest : forall cs, Forall cnt_spec cs -> forall pp dd ch l,
  Forall2 (fun c r => Rep t pp dd c r) ch cs -> NoDup (flat_map ids cs) ->
  (forall x, In x (flat_map ids cs) -> nth x l 0 = 0) -> length l = length t ->
  exists l', foldM cnt_step (flat_map post cs) l = Ok l' /\ length l' = length l /\
    (forall x, ~ In x (flat_map ids cs) -> nth x l' 0 = nth x l 0) /\ Forall (counted l') cs.
Proof.
  induction cs as [|c cs IHcs]; intros IH pp dd ch l HF Hndcs Hz Hlen.
  - exists l. simpl. splits; auto.
  - inversion HF as [|kc c' ch' cs'' HRc HF']; subst. inversion IH as [|? ? IHc IHrest]; subst.
    simpl in Hndcs. apply NoDup_app_iff in Hndcs as (Hnd1 & Hnd2 & Hdisj).
    destruct (IHc _ _ _ l HRc Hnd1) as (l1 & E1 & Hl1 & Hf1 & Hc1); auto.
    { intros x Hx. apply Hz. simpl. apply in_or_app; auto. }
    destruct (IHcs IHrest _ _ _ l1 HF' Hnd2) as (l2 & E2 & Hl2 & Hf2 & Hc2).
    { intros x Hx. rewrite Hf1; [apply Hz; simpl; apply in_or_app; auto|].
      intros Hx'. eapply Hdisj; eauto. }
    { lia. }
    exists l2. simpl. rewrite foldM_app, E1. simpl. splits; auto; try lia.
    + intros x Hx. rewrite Hf2, Hf1; auto; intros Hx'; apply Hx; apply in_or_app; auto.
    + constructor; auto. eapply counted_frame; [|eauto]. intros x Hx. apply Hf2.
      intros Hx'. eapply Hdisj; eauto.
Qed.

Lemma cnt_tree : forall r', cnt_spec r'.
Proof.
  induction r' as [j cs0 IH] using RepLib.rtree_ind'. intros p d i l HR Hnd Hz Hlen.
  destruct (RepLib.Rep_inv _ _ _ _ _ HR) as (n & cs & Heq & Hn & Hdel & Hid & Hp & Hd & HF & _).
  injection Heq as -> ->.
  pose proof (Forall2_Rep_rid _ _ _ _ _ HF) as Hch.
  rewrite ids_RT in Hnd. apply NoDup_cons_iff in Hnd as [Hi Hndcs].
  destruct (cnt_forest cs IH _ _ _ l HF Hndcs) as (l2 & E2 & Hl2 & Hf2 & Hc2); auto.
  { intros x Hx. apply Hz. rewrite ids_RT. simpl; auto. }
  assert (Hilt : i < length l2). { rewrite Hl2, Hlen. eapply nth_error_Some_lt; eauto. }
  assert (Hg : get t i = Ok n) by (apply get_Ok; auto).
  set (v := if is_tip n then 1 else fold_left (fun acc c => acc + nth c l2 0) (nchildren n) (nth i l2 0)).
  exists (replace_nth i v l2). simpl post. rewrite foldM_app, E2. simpl. unfold cnt_step at 1. rewrite Hg. simpl.
  assert (Hv : v = nleaves (RT i cs)).
  { unfold v. unfold is_tip. rewrite Hch. destruct cs as [|c cs1]; [reflexivity|]. cbn [map].
    change (rid c :: map rid cs1) with (map rid (c :: cs1)). rewrite fold_count by auto. rewrite nleaves_RT.
    rewrite Hf2 by auto. rewrite Hz; [lia|]. rewrite ids_RT; simpl; auto. }
  splits.
  - unfold v. destruct (is_tip n); reflexivity.
  - rewrite replace_nth_length. lia.
  - intros x Hx.
    assert (Hxi : x <> i) by (intros ->; apply Hx; left; auto).
    assert (Hxc : ~ In x (flat_map ids cs)) by (intros H; apply Hx; right; exact H).
    rewrite nth_replace_nth_neq by auto. apply Hf2. auto.
  - intros s [<-|Hs].
    + simpl rid. rewrite nth_replace_nth_eq; auto.
    + apply in_flat_map in Hs as (c & Hc & Hs).
      assert (Hin : In (rid s) (flat_map ids cs)).
      { apply in_flat_map. exists c. split; auto. apply subtrees_ids; auto. }
      rewrite nth_replace_nth_neq by (intros E; rewrite E in Hin; tauto).
      rewrite Forall_forall in Hc2. apply (Hc2 c Hc s Hs).
Qed.

(* ---- the layout pass ---------------------------------------------------------------------------------- *)
Lemma replace_at_length (l : list L) k v : length (replace_at l k v) = length l.
Proof. revert k; induction l; intros [|k]; simpl; auto. Qed.

Lemma nth_replace_at_eq (l : list L) k v d : k < length l -> nth k (replace_at l k v) d = v.
Proof. revert k; induction l; intros [|k] H; simpl in *; try lia; auto. apply IHl; lia. Qed.

Lemma nth_replace_at_neq (l : list L) k j v d : j <> k -> nth j (replace_at l k v) d = nth j l d.
Proof. revert k j; induction l; intros [|k] [|j] H; simpl; try congruence; auto. Qed.

Definition seg : Type := (nat * nat * L * L * option str)%type.
Variable root : nat.
Variable lc : list nat.          (* the leaf counts computed by the first pass *)
Definition lroot : L := lofnat O (nth root lc 0).
Definition Wc (c : nat) : L := ldiv O (lofnat O (nth c lc 0)) lroot.
Definition wtc (c : rtree) : L := Wc (rid c).

Definition inner (acc : list L * list L * L) (c : nat) : list L * list L * L :=
  let '(w, th, nn) := acc in
  let wc := ldiv O (lofnat O (nth c lc 0)) lroot in
  (replace_at w c wc, replace_at th c nn, ladd O nn wc).

Definition lay_step (st : list L * list L * list seg) (v : nat) : outcome (list L * list L * list seg) :=
  let '(w, th, segs) := st in
  n <- get t v ;;
  segs' <- (if Nat.eqb v root then Ok segs else
            match npedge n with
            | None => Err MissingBranchLengths
            | Some d =>
                match nparent n with
                | None => Err NodeError
                | Some u =>
                    let two := ladd O (l1 O) (l1 O) in
                    Ok (segs ++ [(u, v, d, ladd O (nth v th (l0 O)) (ldiv O (nth v w (l0 O)) two), nname n)])
                end
            end) ;;
  let '(w', th', _) := fold_left inner (nchildren n) (w, th, nth v th (l0 O)) in
  Ok (w', th', segs').

(* the children's entries are set: widths, and consecutive starts from nn *)
Fixpoint presetL (w th : list L) (nn : L) (ch : list nat) : Prop :=
  match ch with
  | [] => True
  | c :: ch' => nth c w (l0 O) = Wc c /\ nth c th (l0 O) = nn /\ presetL w th (ladd O nn (Wc c)) ch'
  end.

Lemma presetL_frame w th w' th' : forall ch nn,
  (forall c, In c ch -> nth c w' (l0 O) = nth c w (l0 O) /\ nth c th' (l0 O) = nth c th (l0 O)) ->
  presetL w th nn ch -> presetL w' th' nn ch.
Proof.
  induction ch as [|c ch IH]; intros nn Hf H; simpl in *; auto.
  destruct H as (H1 & H2 & H3). destruct (Hf c (or_introl eq_refl)) as [E1 E2].
  rewrite E1, E2. splits; auto.
Qed.

Lemma inner_spec : forall ch w th nn,
  NoDup ch -> (forall c, In c ch -> c < length w) -> length th = length w ->
  exists w' th' nn', fold_left inner ch (w, th, nn) = (w', th', nn') /\
    length w' = length w /\ length th' = length th /\
    (forall x, ~ In x ch -> nth x w' (l0 O) = nth x w (l0 O) /\ nth x th' (l0 O) = nth x th (l0 O)) /\
    presetL w' th' nn ch.
Proof.
  induction ch as [|c ch IH]; intros w th nn Hnd Hlt Hlen.
  - exists w, th, nn. simpl. splits; auto.
  - apply NoDup_cons_iff in Hnd as [Hc Hnd].
    assert (Hcl : c < length w) by (apply Hlt; simpl; auto).
    destruct (IH (replace_at w c (Wc c)) (replace_at th c nn) (ladd O nn (Wc c)) Hnd)
      as (w' & th' & nn' & E & Hl1 & Hl2 & Hf & Hp).
    { intros x Hx. rewrite replace_at_length. apply Hlt. simpl; auto. }
    { rewrite !replace_at_length. auto. }
    exists w', th', nn'. cbn [fold_left]. unfold inner at 2. cbv zeta. fold (Wc c). splits; auto.
    + rewrite Hl1. apply replace_at_length.
    + rewrite Hl2. apply replace_at_length.
    + intros x Hx. simpl in Hx. destruct (Hf x) as [E1 E2]; [tauto|].
      rewrite E1, E2, !nth_replace_at_neq by (intros ->; tauto). auto.
    + cbn [presetL]. destruct (Hf c Hc) as [E1 E2]. rewrite E1, E2.
      rewrite !nth_replace_at_eq by lia. auto.
Qed.

Definition haslen (x : nat) : bool := match npedge (slot t x) with Some _ => true | None => false end.

Definition mkseg (q : nat * nat * L * L) : seg :=
  let '(u, v, tv, wv) := q in
  (u, v, match npedge (slot t v) with Some d => d | None => l0 O end,
   ladd O tv (ldiv O wv (ladd O (l1 O) (l1 O))), nname (slot t v)).

Definition same_at (w th w' th' : list L) (x : nat) : Prop :=
  nth x w' (l0 O) = nth x w (l0 O) /\ nth x th' (l0 O) = nth x th (l0 O).

(* processing the preorder block of a subtree whose root's entries are already set *)
Definition lay_spec (r' : rtree) : Prop := forall u d i w th segs,
  Rep t (Some u) d i r' -> NoDup (ids r') -> ~ In root (ids r') ->
  length w = length t -> length th = length t ->
  if forallb haslen (ids r') then
    exists w' th',
      foldM lay_step (pre r') (w, th, segs)
      = Ok (w', th', segs ++ map mkseg (slay O wtc u (nth i th (l0 O)) (nth i w (l0 O)) r')) /\
      length w' = length t /\ length th' = length t /\
      (forall x, ~ In x (flat_map ids (Spec.rch r')) -> same_at w th w' th' x)
  else foldM lay_step (pre r') (w, th, segs) = Err MissingBranchLengths.

Definition pdesc (cs : list rtree) : list nat := flat_map (fun c => flat_map ids (Spec.rch c)) cs.

Lemma pdesc_in cs x : In x (pdesc cs) -> In x (flat_map ids cs).
Proof.
  unfold pdesc. rewrite !in_flat_map. intros (c & Hc & Hx). exists c. split; auto.
  destruct c as [i cc]. rewrite ids_RT. right. exact Hx.
Qed.

Lemma lay_forest : forall cs, Forall lay_spec cs -> forall u d ch w th segs nn,
  Forall2 (fun c r => Rep t (Some u) d c r) ch cs -> NoDup (flat_map ids cs) -> ~ In root (flat_map ids cs) ->
  length w = length t -> length th = length t -> presetL w th nn (map rid cs) ->
  if forallb haslen (flat_map ids cs) then
    exists w' th',
      foldM lay_step (flat_map pre cs) (w, th, segs)
      = Ok (w', th', segs ++ map mkseg (slayf O wtc u nn cs)) /\
      length w' = length t /\ length th' = length t /\
      (forall x, ~ In x (pdesc cs) -> same_at w th w' th' x)
  else foldM lay_step (flat_map pre cs) (w, th, segs) = Err MissingBranchLengths.
Proof.
  induction cs as [|c cs IHcs]; intros IH u d ch w th segs nn HF Hnd Hroot Hlw Hlth Hpre.
  - simpl. exists w, th. rewrite app_nil_r. splits; auto. intros x _. split; auto.
  - inversion HF as [|kc c' ch' cs'' HRc HF']; subst. inversion IH as [|? ? IHc IHrest]; subst.
    cbn [flat_map] in *. apply NoDup_app_iff in Hnd as (Hnd1 & Hnd2 & Hdisj).
    rewrite forallb_app. cbn [map presetL] in Hpre. destruct Hpre as (Hw & Hth & Hpre).
    pose proof (Rep_rid _ _ _ _ _ HRc) as Hrid. rewrite Hrid in Hw, Hth, Hpre.
    assert (Hr1 : ~ In root (ids c)) by (intros H; apply Hroot; apply in_or_app; auto).
    assert (Hr2 : ~ In root (flat_map ids cs)) by (intros H; apply Hroot; apply in_or_app; auto).
    specialize (IHc u d kc w th segs HRc Hnd1 Hr1 Hlw Hlth).
    rewrite foldM_app.
    destruct (forallb haslen (ids c)); [|rewrite IHc; reflexivity].
    destruct IHc as (w1 & th1 & E1 & Hl1 & Hl2 & Hf1). rewrite E1. cbn [bind].
    assert (Hpre1 : presetL w1 th1 (ladd O nn (Wc kc)) (map rid cs)).
    { eapply presetL_frame; [|exact Hpre]. intros x Hx. apply Hf1.
      intros Hx'. apply in_map_iff in Hx as (c2 & <- & Hc2).
      apply (Hdisj (rid c2)).
      - destruct c as [ic cc]. rewrite ids_RT. right. exact Hx'.
      - apply in_flat_map. exists c2. split; auto. apply In_rid_ids. }
    specialize (IHcs IHrest u d ch' w1 th1
                  (segs ++ map mkseg (slay O wtc u (nth kc th (l0 O)) (nth kc w (l0 O)) c))
                  (ladd O nn (Wc kc)) HF' Hnd2 Hr2 Hl1 Hl2 Hpre1).
    destruct (forallb haslen (flat_map ids cs)); [|exact IHcs].
    destruct IHcs as (w2 & th2 & E2 & Hl3 & Hl4 & Hf2). exists w2, th2. splits; auto.
    + assert (Hwt : wtc c = Wc kc) by (unfold wtc; rewrite Hrid; reflexivity).
      rewrite E2. cbn [slayf]. rewrite map_app, app_assoc, Hwt, Hw, Hth. reflexivity.
    + intros x Hx. unfold pdesc in Hx. cbn [flat_map] in Hx.
      destruct (Hf1 x) as [A1 A2]; [intros H; apply Hx; apply in_or_app; auto|].
      destruct (Hf2 x) as [B1 B2]; [intros H; apply Hx; apply in_or_app; auto|].
      split; congruence.
Qed.

Lemma lay_tree : forall r', lay_spec r'.
Proof.
  induction r' as [j cs0 IH] using RepLib.rtree_ind'. intros u d i w th segs HR Hnd Hroot Hlw Hlth.
  destruct (RepLib.Rep_inv _ _ _ _ _ HR) as (n & cs & Heq & Hn & Hdel & Hid & Hp & Hd & HF & _).
  injection Heq as -> ->.
  pose proof (Forall2_Rep_rid _ _ _ _ _ HF) as Hch.
  rewrite ids_RT in Hnd, Hroot |- *. apply NoDup_cons_iff in Hnd as [Hi Hndcs].
  cbn [forallb pre]. fold (flat_map pre cs). cbn [foldM].
  assert (Hg : get t i = Ok n) by (apply get_Ok; auto).
  pose proof (slot_nth_error _ _ _ Hn) as Hslot.
  assert (Hne : i <> root) by (intros ->; apply Hroot; left; auto).
  assert (Hstep : lay_step (w, th, segs) i =
            match npedge n with
            | None => Err MissingBranchLengths
            | Some e =>
                let '(w', th', _) := fold_left inner (nchildren n) (w, th, nth i th (l0 O)) in
                Ok (w', th', segs ++ [(u, i, e, ladd O (nth i th (l0 O))
                                              (ldiv O (nth i w (l0 O)) (ladd O (l1 O) (l1 O))), nname n)])
            end).
  { unfold lay_step. rewrite Hg. cbn [bind]. destruct (Nat.eqb_spec i root) as [|_]; [contradiction|].
    destruct (npedge n); [rewrite Hp|]; reflexivity. }
  rewrite Hstep. clear Hstep.
  unfold haslen at 1. rewrite Hslot.
  destruct (npedge n) as [e|] eqn:He; [|reflexivity].
  cbn [andb].
  destruct (inner_spec (nchildren n) w th (nth i th (l0 O))) as (w1 & th1 & nn1 & E1 & Hl1 & Hl2 & Hf1 & Hpre1).
  { rewrite Hch. apply NoDup_map_rid. auto. }
  { intros c Hc. rewrite Hlw. destruct (Forall2_In_l _ _ _ _ HF Hc) as (rc & _ & HRc).
    apply live_lt. eapply Rep_live; eauto. }
  { lia. }
  rewrite E1. cbn [bind]. rewrite Hch in Hpre1.
  assert (Hr2 : ~ In root (flat_map ids cs)) by (intros H; apply Hroot; right; auto).
  pose proof (lay_forest cs IH i (S d) (nchildren n) w1 th1
                (segs ++ [(u, i, e, ladd O (nth i th (l0 O)) (ldiv O (nth i w (l0 O)) (ladd O (l1 O) (l1 O))), nname n)])
                (nth i th (l0 O)) HF Hndcs Hr2 ltac:(lia) ltac:(lia) Hpre1) as HFo.
  destruct (forallb haslen (flat_map ids cs)); [|exact HFo].
  destruct HFo as (w2 & th2 & E2 & Hl3 & Hl4 & Hf2). exists w2, th2. splits; auto.
  - rewrite E2. f_equal. f_equal. rewrite slay_RT. cbn [map]. unfold mkseg at 2. rewrite Hslot, He.
    rewrite <- app_assoc. reflexivity.
  - intros x Hx. cbn [Spec.rch] in Hx.
    destruct (Hf1 x) as [A1 A2]. { rewrite Hch. intros H. apply Hx. apply In_map_rid_flat. auto. }
    destruct (Hf2 x) as [B1 B2]. { intros H. apply Hx. apply pdesc_in. auto. }
    split; congruence.
Qed.

End Layout.

(* widths only matter on the subtrees *)
Lemma slay_ext {L} (O : LenOps L) (wt wt' : rtree -> L) : forall r,
  (forall s, In s (subtrees r) -> wt s = wt' s) ->
  forall u tv wv, slay O wt u tv wv r = slay O wt' u tv wv r.
Proof.
  induction r as [i cs IH] using RepLib.rtree_ind'. intros Hw u tv wv. rewrite !slay_RT. f_equal.
  assert (Hw' : forall s, In s (flat_map subtrees cs) -> wt s = wt' s) by (intros; apply Hw; simpl; auto).
  clear Hw. generalize tv. induction cs as [|c cs IHcs]; intros nn; simpl; auto.
  inversion IH as [|? ? IHc IHrest]; subst.
  rewrite (Hw' c) by (simpl; apply in_or_app; left; apply subtrees_self).
  rewrite IHc by (intros; apply Hw'; simpl; apply in_or_app; auto).
  f_equal. apply IHcs; auto. intros; apply Hw'; simpl; apply in_or_app; auto.
Qed.

Lemma slayf_ext {L} (O : LenOps L) (wt wt' : rtree -> L) : forall cs,
  (forall s, In s (flat_map subtrees cs) -> wt s = wt' s) ->
  forall u nn, slayf O wt u nn cs = slayf O wt' u nn cs.
Proof.
  induction cs as [|c cs IH]; intros Hw u nn; simpl; auto.
  rewrite (Hw c) by (simpl; apply in_or_app; left; apply subtrees_self).
  rewrite (slay_ext O wt wt' c) by (intros; apply Hw; simpl; apply in_or_app; auto).
  f_equal. apply IH. intros; apply Hw; simpl; apply in_or_app; auto.
Qed.

Section LayoutTop.
Context {L : Type}.
Variable O : LenOps L.
Notation arena := (@arena L).

Definition seg_parent (s : seg (L:=L)) : nat := fst (fst (fst (fst s))).
Definition seg_node (s : seg (L:=L)) : nat := snd (fst (fst (fst s))).
Definition seg_len (s : seg (L:=L)) : L := snd (fst (fst s)).
Definition seg_dir (s : seg (L:=L)) : L := snd (fst s).
Definition seg_label (s : seg (L:=L)) : option str := snd s.

Lemma radial_unfold (t : arena) :
  radial_layout O t =
  (rt <- get_root t ;;
   post <- postorder t rt ;;
   lcount <- foldM (cnt_step t) post (repeat 0 (length t)) ;;
   pre <- preorder t rt ;;
   '(_, _, segs) <- foldM (lay_step O t rt lcount) pre
                          (repeat (l1 O) (length t), repeat (l0 O) (length t), []) ;;
   Ok segs).
Proof. reflexivity. Qed.

Lemma layout_refines_aux (t : arena) (root : nat) (r : rtree) :
  Rep t None 0 root r -> NoDup (ids r) -> (forall i, live t i -> In i (ids r)) ->
  radial_layout O t =
  if forallb (haslen t) (tl (ids r))
  then Ok (map (mkseg O t) (slayf O (Wr O r) root (l0 O) (Spec.rch r)))
  else Err MissingBranchLengths.
Proof.
  intros HR Hnd Hcov.
  rewrite radial_unfold, (get_root_refines t root r HR Hcov). cbn [bind].
  rewrite (postorder_refines _ _ _ _ _ HR Hnd). cbn [bind].
  destruct (cnt_tree t r None 0 root (repeat 0 (length t)) HR Hnd) as (lc & E & Hlc & _ & Hcnt).
  { intros x _. apply nth_repeat. }
  { apply repeat_length. }
  rewrite E. cbn [bind]. rewrite (preorder_refines _ _ _ _ _ HR Hnd). cbn [bind].
  destruct (RepLib.Rep_inv _ _ _ _ _ HR) as (n & cs & Heq & Hn & Hdel & Hid & Hp & Hd & HF & _).
  subst r. pose proof (Forall2_Rep_rid _ _ _ _ _ HF) as Hch.
  rewrite ids_RT in Hnd |- *. cbn [tl pre Spec.rch].
  fold (flat_map pre cs). apply NoDup_cons_iff in Hnd as [Hroot Hndcs].
  cbn [foldM].
  assert (Hg : get t root = Ok n) by (apply get_Ok; auto).
  assert (Hrl : root < length t) by (eapply nth_error_Some_lt; eauto).
  set (w0 := repeat (l1 O) (length t)). set (th0 := repeat (l0 O) (length t)).
  destruct (inner_spec O root lc (nchildren n) w0 th0 (nth root th0 (l0 O)))
    as (w1 & th1 & nn1 & E1 & Hl1 & Hl2 & Hf1 & Hpre1).
  { rewrite Hch. apply NoDup_map_rid. auto. }
  { intros c Hc. unfold w0. rewrite repeat_length. destruct (Forall2_In_l _ _ _ _ HF Hc) as (rc & _ & HRc).
    apply live_lt. eapply Rep_live; eauto. }
  { unfold w0, th0. rewrite !repeat_length. auto. }
  assert (Hstep : lay_step O t root lc (w0, th0, []) root = Ok (w1, th1, [])).
  { unfold lay_step. rewrite Hg. cbn [bind]. rewrite Nat.eqb_refl. cbn [bind]. rewrite E1. reflexivity. }
  rewrite Hstep. cbn [bind].
  assert (Hth0 : nth root th0 (l0 O) = l0 O) by (unfold th0; apply nth_repeat).
  rewrite Hth0, Hch in Hpre1.
  assert (IH : Forall (lay_spec O t root lc) cs) by (apply Forall_forall; intros; apply lay_tree).
  pose proof (lay_forest O t root lc cs IH root 1 (nchildren n) w1 th1 [] (l0 O) HF Hndcs Hroot) as HFo.
  unfold w0, th0 in Hl1, Hl2. rewrite repeat_length in Hl1, Hl2.
  specialize (HFo Hl1 Hl2 Hpre1).
  change (flat_map pre cs) with (flat_map ids cs) in HFo.
  change (tl (ids (RT root cs))) with (flat_map ids cs).
  destruct (forallb (haslen t) (flat_map ids cs)).
  - destruct HFo as (w2 & th2 & E2 & _). rewrite E2. cbn [bind app]. f_equal. f_equal.
    apply slayf_ext. intros s Hs. unfold wtc, Wc, lroot, Wr.
    rewrite (Hcnt s) by (simpl; right; auto).
    pose proof (Hcnt (RT root cs) (or_introl eq_refl)) as Hr0. cbn [rid] in Hr0. rewrite Hr0. reflexivity.
  - rewrite HFo. reflexivity.
Qed.

Variables (t : arena) (root : nat) (r : rtree).
Hypothesis HR : Rep t None 0 root r.
Hypothesis Hnd : NoDup (ids r).
Hypothesis Hcov : forall i, live t i -> In i (ids r).

(* the specification: wedges of the rose tree, root at start 0 with width 1 *)
Definition layout_wedges : list (nat * nat * L * L) := slayf O (Wr O r) root (l0 O) (Spec.rch r).
Definition layout_spec : list (seg (L:=L)) := map (mkseg O t) layout_wedges.

Definition all_lengths : bool := forallb (haslen t) (tl (ids r)).

Theorem layout_refines_gen :
  radial_layout O t = if all_lengths then Ok layout_spec else Err MissingBranchLengths.
Proof. apply layout_refines_aux; auto. Qed.

Theorem layout_refines : all_lengths = true -> radial_layout O t = Ok layout_spec.
Proof. intros H. rewrite layout_refines_gen, H. reflexivity. Qed.

(* some non-root node without branch length: refused *)
Theorem layout_missing v :
  In v (tl (ids r)) -> npedge (slot t v) = None -> radial_layout O t = Err MissingBranchLengths.
Proof.
  intros Hv He. rewrite layout_refines_gen.
  assert (E : all_lengths = false).
  { unfold all_lengths. destruct (forallb (haslen t) (tl (ids r))) eqn:E; auto.
    rewrite forallb_forall in E. specialize (E v Hv). unfold haslen in E. rewrite He in E. discriminate. }
  rewrite E. reflexivity.
Qed.

Lemma edges_parent : forall r' p d i, Rep t p d i r' ->
  forall u v, In (u, v) (edges r') -> nparent (slot t v) = Some u.
Proof.
  induction r' as [j cs0 IH] using RepLib.rtree_ind'. intros p d i HR' u v Hin.
  destruct (RepLib.Rep_inv _ _ _ _ _ HR') as (n & cs & Heq & Hn & _ & _ & _ & _ & HF & _).
  injection Heq as -> ->. simpl in Hin. apply in_flat_map in Hin as (c & Hc & Hin).
  destruct (Forall2_In_r _ _ _ _ HF Hc) as (kc & _ & HRc).
  destruct Hin as [E|Hin].
  - injection E as <- <-.
    destruct (RepLib.Rep_inv _ _ _ _ _ HRc) as (nc & ? & -> & Hnc & _ & _ & Hpc & _). simpl.
    rewrite (slot_nth_error _ _ _ Hnc). auto.
  - rewrite Forall_forall in IH. eapply IH; eauto.
Qed.

(* C19, first part: one segment per non-root node, in preorder, from the parent to the node, with the
   node's branch length and label *)
Theorem layout_segments segs :
  radial_layout O t = Ok segs ->
  map seg_node segs = tl (pre r) /\
  map (fun s => (seg_parent s, seg_node s)) segs = edges r /\
  Forall (fun s => nparent (slot t (seg_node s)) = Some (seg_parent s) /\
                   npedge (slot t (seg_node s)) = Some (seg_len s) /\
                   seg_label s = nname (slot t (seg_node s))) segs.
Proof.
  rewrite layout_refines_gen. destruct all_lengths eqn:Hall; [|discriminate]. intros [= <-].
  unfold layout_spec, layout_wedges.
  assert (Hedges : map (fun s => (seg_parent s, seg_node s))
                     (map (mkseg O t) (slayf O (Wr O r) root (l0 O) (Spec.rch r))) = edges r).
  { rewrite map_map.
    rewrite (map_ext _ (fun s : nat * nat * L * L => (fst (fst (fst s)), snd (fst (fst s)))))
      by (intros [[[u v] tv] wv]; reflexivity).
    rewrite slayf_edges. rewrite <- (Rep_rid _ _ _ _ _ HR). destruct r as [i cs]. reflexivity. }
  splits; auto.
  - rewrite <- edges_children, <- Hedges, !map_map. apply map_ext. intros [[[u v] tv] wv]. reflexivity.
  - apply Forall_forall. intros s Hs.
    assert (He : In (seg_parent s, seg_node s) (edges r)).
    { rewrite <- Hedges. apply in_map_iff. exists s. auto. }
    apply in_map_iff in Hs as ([[[u v] tv] wv] & <- & Hq).
    unfold seg_parent, seg_node, seg_len, seg_label in *. cbn [mkseg fst snd] in *.
    splits; auto.
    + eapply edges_parent; eauto.
    + assert (Hv : In v (tl (ids r))).
      { unfold ids. rewrite <- edges_children. apply in_map_iff. exists (u, v). auto. }
      unfold all_lengths in Hall. rewrite forallb_forall in Hall. specialize (Hall v Hv).
      unfold haslen in Hall. destruct (npedge (slot t v)); [reflexivity|discriminate].
Qed.

(* C19: the reported direction of a node is the middle of its wedge *)
Theorem layout_direction segs :
  radial_layout O t = Ok segs ->
  map (fun s => (seg_node s, seg_dir s)) segs
  = map (fun q : nat * nat * L * L =>
           let '(u, v, tv, wv) := q in (v, ladd O tv (ldiv O wv (ladd O (l1 O) (l1 O))))) layout_wedges.
Proof.
  rewrite layout_refines_gen. destruct all_lengths; [|discriminate]. intros [= <-].
  unfold layout_spec. rewrite map_map. apply map_ext. intros [[[u v] tv] wv]. reflexivity.
Qed.

End LayoutTop.

(* ---- the Qc instance: the whole layout lies in one turn -------------------------------------------------- *)
Theorem layout_wedges_in_turn (t : @arena Qc) root r :
  Rep t None 0 root r ->
  Forall (fun q => (0 <= q_start q)%Qc /\ (q_start q + q_width q <= 1)%Qc) (layout_wedges OQ root r).
Proof.
  intros HR. unfold layout_wedges.
  pose proof (slay_within r r root 0%Qc) as H. rewrite W_root in H.
  pose proof (Rep_rid _ _ _ _ _ HR) as Hrid. destruct r as [i cs]. simpl in Hrid. subst i.
  rewrite slay_RT in H. inversion H as [|? ? _ H']; subst.
  eapply Forall_impl; [|exact H']. intros q [H1 H2]. split; [exact H1|].
  replace 1%Qc with (0 + 1)%Qc by ring. exact H2.
Qed.

(* ================================================================================================ *)
(* 4. Euclidean facts (Coq's real numbers)                                                           *)
(* ================================================================================================ *)
Require Import Reals.
Local Open Scope R_scope.

(* a segment of polar form (l, a) has Euclidean length l *)
Theorem segment_length : forall l a, 0 <= l -> sqrt ((l * cos a) ^ 2 + (l * sin a) ^ 2) = l.
Proof.
  intros l a Hl. pose proof (sin2_cos2 a) as E. unfold Rsqr in E.
  replace ((l * cos a) ^ 2 + (l * sin a) ^ 2) with (l ^ 2 * (sin a * sin a + cos a * cos a)) by ring.
  rewrite E, Rmult_1_r. apply sqrt_pow2. exact Hl.
Qed.

(* the drawn segment: from the parent's position to parent + d (cos, sin) *)
Theorem segment_endpoints_length : forall xu yu d a, 0 <= d ->
  let xv := xu + d * cos a in
  let yv := yu + d * sin a in
  sqrt ((xv - xu) ^ 2 + (yv - yu) ^ 2) = d.
Proof.
  intros xu yu d a Hd xv yv. unfold xv, yv.
  replace (xu + d * cos a - xu) with (d * cos a) by ring.
  replace (yu + d * sin a - yu) with (d * sin a) by ring.
  apply segment_length; auto.
Qed.

(* scaling both endpoints by k scales the segment vector by k, and its length by |k| *)
Theorem rescale_linear : forall k xu yu xv yv,
  (k * xv - k * xu = k * (xv - xu)) /\ (k * yv - k * yu = k * (yv - yu)) /\
  sqrt ((k * xv - k * xu) ^ 2 + (k * yv - k * yu) ^ 2) = Rabs k * sqrt ((xv - xu) ^ 2 + (yv - yu) ^ 2).
Proof.
  intros k xu yu xv yv. split; [ring|]. split; [ring|].
  replace ((k * xv - k * xu) ^ 2 + (k * yv - k * yu) ^ 2)
    with (Rsqr k * ((xv - xu) ^ 2 + (yv - yu) ^ 2)) by (unfold Rsqr; ring).
  rewrite sqrt_mult.
  - rewrite sqrt_Rsqr_abs. reflexivity.
  - apply Rle_0_sqr.
  - apply Rplus_le_le_0_compat; apply pow2_ge_0.
Qed.

(* a rescaled branch length gives a rescaled segment in the same direction *)
Theorem rescale_segment : forall k d a,
  (k * d) * cos a = k * (d * cos a) /\ (k * d) * sin a = k * (d * sin a).
Proof. intros. split; ring. Qed.

Close Scope R_scope.

(* ---- assumptions ------------------------------------------------------------------------------------- *)
Print Assumptions layout_refines_gen.
Print Assumptions layout_segments.
Print Assumptions layout_missing.
Print Assumptions layout_direction.
Print Assumptions wedge_children_sum.
Print Assumptions wedge_disjoint_consecutive.
Print Assumptions wedge_siblings_disjoint.
Print Assumptions child_wedge_inside.
Print Assumptions slay_within.
Print Assumptions wedge_proportional.
Print Assumptions direction_inside.
Print Assumptions layout_wedges_in_turn.
Print Assumptions segment_length.
Print Assumptions segment_endpoints_length.
Print Assumptions rescale_linear.
