(* RF.v — Robinson-Foulds distance, weighted RF / Kuhner-Felsenstein radicand, the combined comparison
   report: the functions of Queries.v against counts of splits (C06, C07). *)
From Coq Require Import List Arith NArith Lia Bool Permutation.
From PT Require Import Arena Spec Queries RepLib Splits Stats.
Import ListNotations.

Local Arguments ids : simpl never.

(* ================================================================================================ *)
(* A. counting with lists of bitsets                                                                *)
(* ================================================================================================ *)
Lemma bits_eqb_refl a : bits_eqb a a = true.
Proof. apply bits_eqb_iff. reflexivity. Qed.

Lemma bits_eqb_false a b : bits_eqb a b = false <-> a <> b.
Proof. rewrite <- bits_eqb_iff. destruct (bits_eqb a b); split; congruence. Qed.

Lemma bits_eqb_sym a b : bits_eqb a b = bits_eqb b a.
Proof.
  destruct (bits_eqb a b) eqn:E; symmetry.
  - apply bits_eqb_iff in E. subst. apply bits_eqb_refl.
  - apply bits_eqb_false. apply bits_eqb_false in E. congruence.
Qed.

Lemma mem_bits_false x l : mem_bits x l = false <-> ~ In x l.
Proof. rewrite <- mem_bits_In. destruct (mem_bits x l); split; congruence. Qed.

Definition bits_eq_dec (a b : bits) : {a = b} + {a <> b} := list_eq_dec Bool.bool_dec a b.

(* members of a that are / are not members of b *)
Definition inter_count (a b : list bits) : nat := length (filter (fun x => mem_bits x b) a).
Definition diff_count (a b : list bits) : nat := length (filter (fun x => negb (mem_bits x b)) a).

Lemma filter_split_length {A} (p : A -> bool) l :
  length l = length (filter p l) + length (filter (fun x => negb (p x)) l).
Proof. induction l as [|x l IH]; simpl; auto. destruct (p x); simpl; lia. Qed.

Lemma inter_diff_length a b : length a = inter_count a b + diff_count a b.
Proof. apply filter_split_length. Qed.

Lemma inter_count_sym a b : NoDup a -> NoDup b -> inter_count a b = inter_count b a.
Proof.
  intros Ha Hb. unfold inter_count. apply Permutation_length. apply NoDup_Permutation; auto using NoDup_filter.
  intros x. rewrite !filter_In, !mem_bits_In. tauto.
Qed.

Lemma inter_count_le a b : inter_count a b <= length a.
Proof. pose proof (inter_diff_length a b). lia. Qed.

(* the arithmetic of robinson_foulds: |po| + |ps| - 2 |po ∩ ps| is the size of the symmetric difference *)
Lemma rf_arith ps po : NoDup ps -> NoDup po ->
  length po + length ps - 2 * inter_count po ps = diff_count ps po + diff_count po ps.
Proof.
  intros H1 H2. pose proof (inter_diff_length ps po). pose proof (inter_diff_length po ps).
  pose proof (inter_count_sym ps po H1 H2). lia.
Qed.

Lemma diff_count_0 a b : diff_count a b = 0 <-> incl a b.
Proof.
  unfold diff_count. split.
  - intros H x Hx. destruct (mem_bits x b) eqn:E; [apply mem_bits_In; auto|].
    exfalso. assert (Hin : In x (filter (fun x => negb (mem_bits x b)) a)) by (apply filter_In; rewrite E; auto).
    destruct (filter _ a); [inversion Hin|discriminate].
  - intros H. rewrite (proj2 (length_zero_iff_nil _)); auto.
    destruct (filter _ a) as [|x l] eqn:E; auto. exfalso.
    assert (Hin : In x (filter (fun x => negb (mem_bits x b)) a)) by (rewrite E; simpl; auto).
    apply filter_In in Hin as [Hin Hx]. apply negb_true_iff, mem_bits_false in Hx. auto.
Qed.

Lemma diff_count_ext a b b' : (forall x, In x b <-> In x b') -> diff_count a b = diff_count a b'.
Proof.
  intros H. unfold diff_count. f_equal. apply filter_ext. intros x. f_equal.
  apply eq_true_iff_eq. rewrite !mem_bits_In. auto.
Qed.

Lemma diff_count_perm a a' b : Permutation a a' -> diff_count a b = diff_count a' b.
Proof.
  intros H. unfold diff_count. apply Permutation_length.
  induction H; simpl; auto.
  - destruct (negb (mem_bits x b)); auto.
  - destruct (negb (mem_bits x b)), (negb (mem_bits y b)); auto. apply perm_swap.
  - eapply Permutation_trans; eauto.
Qed.

Lemma subset_bits_incl a b : subset_bits a b = true <-> incl a b.
Proof.
  unfold subset_bits. rewrite forallb_forall. split; intros H x Hx.
  - apply mem_bits_In. auto.
  - apply mem_bits_In. auto.
Qed.

Lemma list_eqb_str_iff a b : list_eqb str_eqb a b = true <-> a = b.
Proof.
  revert b. induction a as [|x a IH]; destruct b as [|y b]; simpl; split; try congruence; auto.
  - intros H. apply andb_true_iff in H as [H1 H2]. apply str_eqb_iff in H1. apply IH in H2. congruence.
  - intros H. injection H as -> ->. rewrite str_eqb_rfl. simpl. apply IH. reflexivity.
Qed.

(* ================================================================================================ *)
(* B. the state after get_partitions; root_parts                                                    *)
(* ================================================================================================ *)
Section RFArena.
Context {L : Type}.
Notation arena := (@arena L).
Notation node := (@node L).
Notation tree := (@tree L).
Notation pmap := (@pmap L).
Variable O : LenOps L.

(* the partitions cache computed by init_partitions *)
Definition pm (t : arena) (r : rtree) : pmap := fold_left (m_next t r O) (cands t) [].
(* the tree value after the first get_partitions / get_partitions_with_lengths *)
Definition TC (t : arena) (r : rtree) : tree := mkTree t (Some (leaf_idx t)) (Some (pm t r)).

Section OneTree.
Variables (t : arena) (root : nat) (r : rtree).
Hypothesis G : Good t root r.

Lemma pm_keys : map fst (pm t r) = part_keys t r.
Proof. apply fold_m_next_keys. Qed.

Lemma init_partitions_pm : init_partitions O (T1 t) = Ok (TC t r).
Proof.
  unfold init_partitions, T1. rewrite (init_leaf_index_cached t root r G). cbn [bind partitions nodes].
  fold (T1 t). fold (@cand L). fold (cands t).
  erewrite foldM_const_state with (nxt := m_next t r O); [reflexivity|].
  intros m n Hn. apply filter_In in Hn as [Hn Hc].
  rewrite (get_partition_cand t root r G n Hn Hc). cbn [bind]. unfold m_next.
  fold (trivial_part (pb t r n)). destruct (trivial_part (pb t r n)); reflexivity.
Qed.

Theorem get_partitions_pm : get_partitions O (tree_of t) = Ok (part_keys t r, TC t r).
Proof.
  unfold get_partitions, tree_of. rewrite (init_leaf_index_fresh t root r G). cbn [bind]. fold (T1 t).
  rewrite init_partitions_pm. cbn [bind partitions TC]. rewrite pm_keys. reflexivity.
Qed.

Theorem get_partitions_TC : get_partitions O (TC t r) = Ok (part_keys t r, TC t r).
Proof. unfold TC. rewrite (get_partitions_again t root r G O). rewrite pm_keys. reflexivity. Qed.

Lemma part_keys_NoDup : NoDup (part_keys t r).
Proof. eapply (partitions_once t root r G O). apply get_partitions_pm. Qed.

(* the canonical bitsets of the branches below the root *)
Definition root_bits : list bits := map (part_of t) (rch r).

Lemma root_node : exists n, get t root = Ok n /\ nchildren n = map rid (rch r).
Proof.
  pose proof (g_rep _ _ _ G) as HR. pose proof (Rep_rid _ _ _ _ _ HR) as Hr. rewrite <- Hr in HR.
  destruct (Rep_node_facts t _ _ _ HR) as (n & Hn & Hdel & _ & _ & Hch).
  exists n. split; auto. rewrite <- Hr. apply get_Ok. auto.
Qed.

Lemma root_parts_fold pc : forall cs acc, incl cs (rch r) ->
  foldM (fun (st : list bits * tree) c =>
           '(p, t') <- get_partition (snd st) c ;; Ok (fst st ++ [p], t'))
        (map rid cs) (acc, mkTree t (Some (leaf_idx t)) pc)
  = Ok (acc ++ map (part_of t) cs, mkTree t (Some (leaf_idx t)) pc).
Proof.
  induction cs as [|c cs IH]; intros acc Hin; simpl.
  - rewrite app_nil_r. reflexivity.
  - rewrite (get_partition_good t root r G pc c).
    + cbn [bind]. rewrite IH by (intros x Hx; apply Hin; simpl; auto). rewrite <- app_assoc. reflexivity.
    + apply subtrees_cases. right. unfold proper_subtrees. apply in_flat_map. exists c.
      split; [apply Hin; simpl; auto|apply subtrees_self].
Qed.

Theorem root_parts_good pc :
  root_parts (mkTree t (Some (leaf_idx t)) pc) = Ok (root_bits, mkTree t (Some (leaf_idx t)) pc).
Proof.
  unfold root_parts. cbn [nodes].
  rewrite (get_root_refines t root r (g_rep _ _ _ G) (g_live _ _ _ G)). cbn [bind].
  destruct root_node as (n & -> & Hch). cbn [bind]. rewrite Hch.
  apply (root_parts_fold pc (rch r) []). apply incl_refl.
Qed.

Lemma is_rooted_good : is_rooted t = Ok (Nat.eqb (length (rch r)) 2).
Proof. apply (is_rooted_refines t root r (g_rep _ _ _ G) (g_nd _ _ _ G) (g_live _ _ _ G)). Qed.

End OneTree.

(* ================================================================================================ *)
(* C. Robinson-Foulds                                                                               *)
(* ================================================================================================ *)
Definition two_rooted (r : rtree) : bool := Nat.eqb (length (rch r)) 2.
Definition same_root_bits (a b : list bits) : bool := subset_bits a b && subset_bits b a.

Lemma same_root_bits_sym a b : same_root_bits a b = same_root_bits b a.
Proof. apply andb_comm. Qed.

Lemma same_root_bits_spec a b : same_root_bits a b = true <-> (forall x, In x a <-> In x b).
Proof.
  unfold same_root_bits. rewrite andb_true_iff, !subset_bits_incl. unfold incl. split.
  - intros [H1 H2] x. split; auto.
  - intros H. split; intros x; apply H.
Qed.

(* number of reported splits present in exactly one of the two lists *)
Definition rf_split (ps1 ps2 : list bits) : nat := diff_count ps1 ps2 + diff_count ps2 ps1.

(* the root-placement correction *)
Definition rf_corr (r1 r2 : rtree) (rb1 rb2 : list bits) (k : nat) : nat :=
  if two_rooted r1 && two_rooted r2 && negb (Nat.eqb k 0) && negb (same_root_bits rb1 rb2) then 2 else 0.

Section TwoTrees.
Variables (t1 t2 : arena) (root1 root2 : nat) (r1 r2 : rtree).
Hypothesis G1 : Good t1 root1 r1.
Hypothesis G2 : Good t2 root2 r2.

Let ps1 := part_keys t1 r1.
Let ps2 := part_keys t2 r2.

Definition rf_value : nat :=
  rf_split ps1 ps2 + rf_corr r1 r2 (root_bits t1 r1) (root_bits t2 r2) (rf_split ps1 ps2).

(* the complete behaviour of robinson_foulds on two fresh, well-formed, uniquely labelled trees *)
Theorem rf_unfold :
  robinson_foulds O (tree_of t1) (tree_of t2) =
  if negb (list_eqb str_eqb (leaf_idx t1) (leaf_idx t2)) then Err DifferentTipIndices
  else Ok (rf_value, TC t1 r1, TC t2 r2).
Proof.
  unfold robinson_foulds.
  rewrite (get_partitions_pm t1 root1 r1 G1). cbn [bind].
  rewrite (get_partitions_pm t2 root2 r2 G2). cbn [bind].
  cbn [TC leaf_index ostrs_eqb].
  destruct (negb (list_eqb str_eqb (leaf_idx t1) (leaf_idx t2))); [reflexivity|].
  unfold TC.
  rewrite (root_parts_good t1 root1 r1 G1). cbn [bind].
  rewrite (root_parts_good t2 root2 r2 G2). cbn [bind nodes].
  rewrite (is_rooted_good t1 root1 r1 G1). cbn [bind].
  fold (inter_count (part_keys t2 r2) (part_keys t1 r1)).
  rewrite (rf_arith (part_keys t1 r1) (part_keys t2 r2))
    by (first [apply (part_keys_NoDup t1 root1 r1 G1) | apply (part_keys_NoDup t2 root2 r2 G2)]).
  fold (rf_split (part_keys t1 r1) (part_keys t2 r2)).
  fold (same_root_bits (root_bits t1 r1) (root_bits t2 r2)).
  unfold rf_value, rf_corr, two_rooted. fold ps1 ps2.
  destruct (Nat.eqb (length (rch r1)) 2) eqn:E1.
  - rewrite (is_rooted_good t2 root2 r2 G2). cbn [bind].
    destruct (_ && _ && _ && _); [reflexivity|]. rewrite Nat.add_0_r. reflexivity.
  - cbn [bind andb]. rewrite Nat.add_0_r. reflexivity.
Qed.

(* 1. same leaf-name sets: the value is the symmetric-difference count plus the root correction *)
Theorem rf_refines :
  leaf_idx t1 = leaf_idx t2 ->
  robinson_foulds O (tree_of t1) (tree_of t2) = Ok (rf_value, TC t1 r1, TC t2 r2) /\
  get_partitions O (tree_of t1) = Ok (ps1, TC t1 r1) /\
  get_partitions O (tree_of t2) = Ok (ps2, TC t2 r2) /\
  NoDup ps1 /\ NoDup ps2 /\
  rf_value = diff_count ps1 ps2 + diff_count ps2 ps1 +
             (if two_rooted r1 && two_rooted r2 && negb (Nat.eqb (rf_split ps1 ps2) 0)
                 && negb (same_root_bits (root_bits t1 r1) (root_bits t2 r2)) then 2 else 0).
Proof.
  intros E. rewrite rf_unfold. rewrite (proj2 (list_eqb_str_iff _ _) E). cbn [negb].
  repeat split.
  - apply get_partitions_pm with (root := root1); auto.
  - apply get_partitions_pm with (root := root2); auto.
  - apply (part_keys_NoDup t1 root1 r1 G1).
  - apply (part_keys_NoDup t2 root2 r2 G2).
Qed.

(* 4. different leaf-name sets are rejected *)
Theorem rf_leafset_mismatch :
  leaf_idx t1 <> leaf_idx t2 -> robinson_foulds O (tree_of t1) (tree_of t2) = Err DifferentTipIndices.
Proof.
  intros E. rewrite rf_unfold. destruct (list_eqb str_eqb _ _) eqn:E'; [|reflexivity].
  apply list_eqb_str_iff in E'. contradiction.
Qed.

(* 2. no correction unless both roots have exactly two children *)
Theorem rf_unrooted :
  leaf_idx t1 = leaf_idx t2 ->
  (length (rch r1) <> 2 \/ length (rch r2) <> 2) ->
  robinson_foulds O (tree_of t1) (tree_of t2) = Ok (rf_split ps1 ps2, TC t1 r1, TC t2 r2).
Proof.
  intros E H. destruct (rf_refines E) as (-> & _). do 2 f_equal. f_equal.
  unfold rf_value, rf_corr, two_rooted.
  replace (Nat.eqb (length (rch r1)) 2 && Nat.eqb (length (rch r2)) 2) with false; [cbn; lia|].
  symmetry. apply andb_false_iff. rewrite !Nat.eqb_neq. auto.
Qed.

Corollary rf_multifurcating_roots :
  leaf_idx t1 = leaf_idx t2 -> 3 <= length (rch r1) -> 3 <= length (rch r2) ->
  robinson_foulds O (tree_of t1) (tree_of t2) = Ok (rf_split ps1 ps2, TC t1 r1, TC t2 r2).
Proof. intros E H1 H2. apply rf_unrooted; auto. left. lia. Qed.

End TwoTrees.

Lemma rf_split_sym a b : rf_split a b = rf_split b a.
Proof. unfold rf_split. lia. Qed.

(* 3. symmetry of the value (fix F6 made the correction symmetric) *)
Theorem rf_value_sym t1 t2 r1 r2 : rf_value t1 t2 r1 r2 = rf_value t2 t1 r2 r1.
Proof.
  unfold rf_value, rf_corr. rewrite (rf_split_sym (part_keys t2 r2)), (same_root_bits_sym (root_bits t2 r2)).
  rewrite (andb_comm (two_rooted r2)). reflexivity.
Qed.

Theorem rf_sym t1 t2 root1 root2 r1 r2 :
  Good t1 root1 r1 -> Good t2 root2 r2 ->
  omap_out (fun x => fst (fst x)) (robinson_foulds O (tree_of t1) (tree_of t2)) =
  omap_out (fun x => fst (fst x)) (robinson_foulds O (tree_of t2) (tree_of t1)).
Proof.
  intros G1 G2. rewrite (rf_unfold t1 t2 root1 root2 r1 r2 G1 G2), (rf_unfold t2 t1 root2 root1 r2 r1 G2 G1).
  destruct (list_eqb str_eqb (leaf_idx t1) (leaf_idx t2)) eqn:E.
  - apply list_eqb_str_iff in E. rewrite E. rewrite (proj2 (list_eqb_str_iff _ _) eq_refl). cbn.
    rewrite rf_value_sym. reflexivity.
  - replace (list_eqb str_eqb (leaf_idx t2) (leaf_idx t1)) with false; [reflexivity|].
    symmetry. apply not_true_iff_false. intros E'. apply list_eqb_str_iff in E'.
    rewrite E', (proj2 (list_eqb_str_iff _ _) eq_refl) in E. discriminate.
Qed.


(* ---- 5. trees with the same reported split sets are at distance zero ---------------------------- *)
Lemma diff_count_same a b : (forall x, In x a <-> In x b) -> diff_count a b = 0.
Proof. intros H. apply diff_count_0. intros x. apply H. Qed.

Lemma rf_split_same a b : (forall x, In x a <-> In x b) -> rf_split a b = 0.
Proof.
  intros H. unfold rf_split. rewrite (diff_count_same a b H), (diff_count_same b a); auto.
  intros x. symmetry. apply H.
Qed.

Theorem rf_same_sets t1 t2 root1 root2 r1 r2 :
  Good t1 root1 r1 -> Good t2 root2 r2 ->
  leaf_idx t1 = leaf_idx t2 ->
  (forall b, In b (part_keys t1 r1) <-> In b (part_keys t2 r2)) ->
  robinson_foulds O (tree_of t1) (tree_of t2) = Ok (0, TC t1 r1, TC t2 r2).
Proof.
  intros G1 G2 E H. destruct (rf_refines t1 t2 root1 root2 r1 r2 G1 G2 E) as (-> & _).
  unfold rf_value, rf_corr. rewrite (rf_split_same _ _ H). cbn [Nat.eqb negb]. rewrite andb_false_r. reflexivity.
Qed.

Theorem rf_self t root r :
  Good t root r -> robinson_foulds O (tree_of t) (tree_of t) = Ok (0, TC t r, TC t r).
Proof. intros G. apply (rf_same_sets t t root root r r); auto. tauto. Qed.

(* two arenas labelling their common leaves alike, with spec-equivalent split sets *)
Theorem rf_zero_transfer t t' root root' r r' :
  Good t root r -> Good t' root' r' ->
  Permutation (rleaves r) (rleaves r') ->
  (forall i, In i (rleaves r) -> lab t i = lab t' i) ->
  split_equiv (map (lab t) (rleaves r)) (rsplits (lab t) r) (rsplits (lab t) r') ->
  robinson_foulds O (tree_of t) (tree_of t') = Ok (0, TC t r, TC t' r').
Proof.
  intros G G' Hp Hlab Heq.
  assert (Hn : forall x, In x (map (lab t) (rleaves r)) <-> In x (map (lab t') (rleaves r'))).
  { intros x. rewrite !in_map_iff. split; intros (i & <- & Hi).
    + exists i. split; [symmetry; auto|]. eapply Permutation_in; eauto.
    + apply (Permutation_in _ (Permutation_sym Hp)) in Hi. eauto. }
  assert (Hs : split_equiv (map (lab t) (rleaves r)) (rsplits (lab t) r) (rsplits (lab t') r')).
  { rewrite <- (rsplits_ext (lab t) (lab t') r'); auto.
    intros i Hi. apply Hlab. eapply Permutation_in; [apply Permutation_sym|]; eauto. }
  destruct (partitions_invariant O t t' root root' r r' _ _ _ _ G G' Hn Hs
              (get_partitions_pm t root r G) (get_partitions_pm t' root' r' G')) as [Hli Hps].
  apply (rf_same_sets t t' root root' r r'); auto.
Qed.

(* RF is zero between a tree and any child-reordering of itself ... *)
Theorem rf_reorder t t' root root' r r' :
  Good t root r -> Good t' root' r' ->
  (forall i, In i (rleaves r) -> lab t i = lab t' i) ->
  reorder r r' ->
  robinson_foulds O (tree_of t) (tree_of t') = Ok (0, TC t r, TC t' r').
Proof.
  intros G G' Hlab H. apply (rf_zero_transfer t t' root root' r r'); auto using reorder_leaves, rsplits_reorder.
Qed.

(* ... any insertion of a unary node ... *)
Theorem rf_unary t t' root root' r r' :
  Good t root r -> Good t' root' r' ->
  (forall i, In i (rleaves r) -> lab t i = lab t' i) ->
  unary_ins r r' ->
  robinson_foulds O (tree_of t) (tree_of t') = Ok (0, TC t r, TC t' r').
Proof.
  intros G G' Hlab H. apply (rf_zero_transfer t t' root root' r r'); auto using rsplits_unary.
  rewrite (unary_ins_leaves _ _ H). auto.
Qed.

(* ... and the unrooted version of a tree with a two-child root *)
Theorem rf_reroot t t' root root' i i' j X ys :
  Good t root (RT i [X; RT j ys]) -> Good t' root' (RT i' (X :: ys)) ->
  (forall k, In k (rleaves (RT i [X; RT j ys])) -> lab t k = lab t' k) ->
  ys <> [] ->
  robinson_foulds O (tree_of t) (tree_of t') = Ok (0, TC t (RT i [X; RT j ys]), TC t' (RT i' (X :: ys))).
Proof.
  intros G G' Hlab Hys. apply (rf_zero_transfer t t' root root' _ _); auto.
  - rewrite (reroot_leaves i i' j X ys Hys); auto.
  - apply (rsplits_reroot (lab t) i i' j X ys Hys). apply (g_uniq _ _ _ G).
Qed.

End RFArena.
