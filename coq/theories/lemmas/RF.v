(* RF.v — Robinson-Foulds distance, weighted RF / Kuhner-Felsenstein radicand, the combined comparison
   report: the functions of Queries.v against counts of splits (C06, C07).  Builds on Splits.v.

   A  counting with lists of bitsets (diff_count, inter_count, rf_arith)
   B  the state after get_partitions (pm, TC), root_parts
   C  robinson_foulds: rf_unfold, rf_refines, rf_leafset_mismatch, rf_unrooted, rf_sym,
      rf_same_sets, rf_self, rf_reorder, rf_unary, rf_reroot, rf_norm_value
   D  get_partitions_with_lengths, compare_topologies: gpwl_fresh, wrf_unfold,
      compare_topologies_unfold, rf_report, report_agrees
   E  what the partition map stores: pm_get, split_len_sum, split_len_all_present, split_len_missing,
      all_lens_iff
   F  wrf_sum: wrf_sum_terms, wrf_sum_keys, wrf_sum_union, wrf_sum_sym, wrf_sum_self
   G  weighted RF / KF on trees: wrf_refines, wrf_refines_sum, wrf_value, kf_refines, wrf_sym, wrf_missing,
      report_weighted, wrf_self
   H  the root correction by leaf sets: root2_same_split, same_root_two, rf_rooted
   I  the split count on rsplits modulo same_split: rf_split_spec, only_in_spec, only_in_unique
   J  renaming of taxa: rf_value_rename, rf_rename
   K  common rescaling: wrf_sum_scale, wrf_scale, rf_scale
   L  arena-level child reordering: rf_reorder_arena, wrf_reorder_arena
   N  inducing nodes at the rose-tree level: inducing_spec, unary_same_split, root2_inducing
   M  a concrete instance over Z (module RFExample)
   Algebraic facts about branch lengths are explicit hypotheses of the theorems that need them. *)
From Coq Require Import List Arith NArith Lia Bool Permutation Sorted.
From PT Require Import Arena Spec Queries RepLib Splits Stats.
Import ListNotations.

Local Arguments ids : simpl never.

(* ================================================================================================ *)
(* A. counting with lists of bitsets                                                                *)
(* ================================================================================================ *)
Lemma bits_eqb_refl a : bits_eqb a a = true.
Proof. apply bits_eqb_iff. reflexivity. Qed.

Lemma bits_eqb_false a b : bits_eqb a b = false <-> a <> b.
Proof. rewrite <- bits_eqb_iff. destruct (bits_eqb a b); split; congruence. Qed.

Lemma bits_eqb_sym a b : bits_eqb a b = bits_eqb b a.
Proof.
  destruct (bits_eqb a b) eqn:E; symmetry.
  - apply bits_eqb_iff in E. subst. apply bits_eqb_refl.
  - apply bits_eqb_false. apply bits_eqb_false in E. congruence.
Qed.

Lemma mem_bits_false x l : mem_bits x l = false <-> ~ In x l.
Proof. rewrite <- mem_bits_In. destruct (mem_bits x l); split; congruence. Qed.

Definition bits_eq_dec (a b : bits) : {a = b} + {a <> b} := list_eq_dec Bool.bool_dec a b.

(* members of a that are / are not members of b *)
Definition inter_count (a b : list bits) : nat := length (filter (fun x => mem_bits x b) a).
Definition diff_count (a b : list bits) : nat := length (filter (fun x => negb (mem_bits x b)) a).

Lemma filter_split_length {A} (p : A -> bool) l :
  length l = length (filter p l) + length (filter (fun x => negb (p x)) l).
Proof. induction l as [|x l IH]; simpl; auto. destruct (p x); simpl; lia. Qed.

Lemma inter_diff_length a b : length a = inter_count a b + diff_count a b.
Proof. apply filter_split_length. Qed.

Lemma inter_count_sym a b : NoDup a -> NoDup b -> inter_count a b = inter_count b a.
Proof.
  intros Ha Hb. unfold inter_count. apply Permutation_length. apply NoDup_Permutation; auto using NoDup_filter.
  intros x. rewrite !filter_In, !mem_bits_In. tauto.
Qed.

Lemma inter_count_le a b : inter_count a b <= length a.
Proof. pose proof (inter_diff_length a b). lia. Qed.

(* the arithmetic of robinson_foulds: |po| + |ps| - 2 |po ∩ ps| is the size of the symmetric difference *)
Lemma rf_arith ps po : NoDup ps -> NoDup po ->
  length po + length ps - 2 * inter_count po ps = diff_count ps po + diff_count po ps.
Proof.
  intros H1 H2. pose proof (inter_diff_length ps po). pose proof (inter_diff_length po ps).
  pose proof (inter_count_sym ps po H1 H2). lia.
Qed.

Lemma diff_count_0 a b : diff_count a b = 0 <-> incl a b.
Proof.
  unfold diff_count. split.
  - intros H x Hx. destruct (mem_bits x b) eqn:E; [apply mem_bits_In; auto|].
    exfalso. assert (Hin : In x (filter (fun x => negb (mem_bits x b)) a)) by (apply filter_In; rewrite E; auto).
    destruct (filter _ a); [inversion Hin|discriminate].
  - intros H. rewrite (proj2 (length_zero_iff_nil _)); auto.
    destruct (filter _ a) as [|x l] eqn:E; auto. exfalso.
    assert (Hin : In x (filter (fun x => negb (mem_bits x b)) a)) by (rewrite E; simpl; auto).
    apply filter_In in Hin as [Hin Hx]. apply negb_true_iff, mem_bits_false in Hx. auto.
Qed.

Lemma diff_count_ext a b b' : (forall x, In x b <-> In x b') -> diff_count a b = diff_count a b'.
Proof.
  intros H. unfold diff_count. f_equal. apply filter_ext. intros x. f_equal.
  apply eq_true_iff_eq. rewrite !mem_bits_In. auto.
Qed.

Lemma diff_count_perm a a' b : Permutation a a' -> diff_count a b = diff_count a' b.
Proof.
  intros H. unfold diff_count. apply Permutation_length.
  induction H; simpl; auto.
  - destruct (negb (mem_bits x b)); auto.
  - destruct (negb (mem_bits x b)), (negb (mem_bits y b)); auto. apply perm_swap.
  - eapply Permutation_trans; eauto.
Qed.

Lemma subset_bits_incl a b : subset_bits a b = true <-> incl a b.
Proof.
  unfold subset_bits. rewrite forallb_forall. split; intros H x Hx.
  - apply mem_bits_In. auto.
  - apply mem_bits_In. auto.
Qed.

Lemma list_eqb_str_iff a b : list_eqb str_eqb a b = true <-> a = b.
Proof.
  revert b. induction a as [|x a IH]; destruct b as [|y b]; simpl; split; try congruence; auto.
  - intros H. apply andb_true_iff in H as [H1 H2]. apply str_eqb_iff in H1. apply IH in H2. congruence.
  - intros H. injection H as -> ->. rewrite str_eqb_rfl. simpl. apply IH. reflexivity.
Qed.

(* ================================================================================================ *)
(* B. the state after get_partitions; root_parts                                                    *)
(* ================================================================================================ *)
Section RFArena.
Context {L : Type}.
Notation arena := (@arena L).
Notation node := (@node L).
Notation tree := (@tree L).
Notation pmap := (@pmap L).
Variable O : LenOps L.

(* the partitions cache computed by init_partitions *)
Definition pm (t : arena) (r : rtree) : pmap := fold_left (m_next t r O) (cands t) [].
(* the tree value after the first get_partitions / get_partitions_with_lengths *)
Definition TC (t : arena) (r : rtree) : tree := mkTree t (Some (leaf_idx t)) (Some (pm t r)).

Section OneTree.
Variables (t : arena) (root : nat) (r : rtree).
Hypothesis G : Good t root r.

Lemma pm_keys : map fst (pm t r) = part_keys t r.
Proof. apply fold_m_next_keys. Qed.

Lemma init_partitions_pm : init_partitions O (T1 t) = Ok (TC t r).
Proof.
  unfold init_partitions, T1. rewrite (init_leaf_index_cached t root r G). cbn [bind partitions nodes].
  fold (T1 t). fold (@cand L). fold (cands t).
  erewrite foldM_const_state with (nxt := m_next t r O); [reflexivity|].
  intros m n Hn. apply filter_In in Hn as [Hn Hc].
  rewrite (get_partition_cand t root r G n Hn Hc). cbn [bind]. unfold m_next.
  fold (trivial_part (pb t r n)). destruct (trivial_part (pb t r n)); reflexivity.
Qed.

Theorem get_partitions_pm : get_partitions O (tree_of t) = Ok (part_keys t r, TC t r).
Proof.
  unfold get_partitions, tree_of. rewrite (init_leaf_index_fresh t root r G). cbn [bind]. fold (T1 t).
  rewrite init_partitions_pm. cbn [bind partitions TC]. rewrite pm_keys. reflexivity.
Qed.

Theorem get_partitions_TC : get_partitions O (TC t r) = Ok (part_keys t r, TC t r).
Proof. unfold TC. rewrite (get_partitions_again t root r G O). rewrite pm_keys. reflexivity. Qed.

Lemma part_keys_NoDup : NoDup (part_keys t r).
Proof. eapply (partitions_once t root r G O). apply get_partitions_pm. Qed.

(* the canonical bitsets of the branches below the root *)
Definition root_bits : list bits := map (part_of t) (rch r).

Lemma root_node : exists n, get t root = Ok n /\ nchildren n = map rid (rch r).
Proof.
  pose proof (g_rep _ _ _ G) as HR. pose proof (Rep_rid _ _ _ _ _ HR) as Hr. rewrite <- Hr in HR.
  destruct (Rep_node_facts t _ _ _ HR) as (n & Hn & Hdel & _ & _ & Hch).
  exists n. split; auto. rewrite <- Hr. apply get_Ok. auto.
Qed.

Lemma root_parts_fold pc : forall cs acc, incl cs (rch r) ->
  foldM (fun (st : list bits * tree) c =>
           '(p, t') <- get_partition (snd st) c ;; Ok (fst st ++ [p], t'))
        (map rid cs) (acc, mkTree t (Some (leaf_idx t)) pc)
  = Ok (acc ++ map (part_of t) cs, mkTree t (Some (leaf_idx t)) pc).
Proof.
  induction cs as [|c cs IH]; intros acc Hin; simpl.
  - rewrite app_nil_r. reflexivity.
  - rewrite (get_partition_good t root r G pc c).
    + cbn [bind]. rewrite IH by (intros x Hx; apply Hin; simpl; auto). rewrite <- app_assoc. reflexivity.
    + apply subtrees_cases. right. unfold proper_subtrees. apply in_flat_map. exists c.
      split; [apply Hin; simpl; auto|apply subtrees_self].
Qed.

Theorem root_parts_good pc :
  root_parts (mkTree t (Some (leaf_idx t)) pc) = Ok (root_bits, mkTree t (Some (leaf_idx t)) pc).
Proof.
  unfold root_parts. cbn [nodes].
  rewrite (get_root_refines t root r (g_rep _ _ _ G) (g_live _ _ _ G)). cbn [bind].
  destruct root_node as (n & -> & Hch). cbn [bind]. rewrite Hch.
  apply (root_parts_fold pc (rch r) []). apply incl_refl.
Qed.

Lemma is_rooted_good : is_rooted t = Ok (Nat.eqb (length (rch r)) 2).
Proof. apply (is_rooted_refines t root r (g_rep _ _ _ G) (g_nd _ _ _ G) (g_live _ _ _ G)). Qed.

End OneTree.

(* ================================================================================================ *)
(* C. Robinson-Foulds                                                                               *)
(* ================================================================================================ *)
Definition two_rooted (r : rtree) : bool := Nat.eqb (length (rch r)) 2.
Definition same_root_bits (a b : list bits) : bool := subset_bits a b && subset_bits b a.

Lemma same_root_bits_sym a b : same_root_bits a b = same_root_bits b a.
Proof. apply andb_comm. Qed.

Lemma same_root_bits_spec a b : same_root_bits a b = true <-> (forall x, In x a <-> In x b).
Proof.
  unfold same_root_bits. rewrite andb_true_iff, !subset_bits_incl. unfold incl. split.
  - intros [H1 H2] x. split; auto.
  - intros H. split; intros x; apply H.
Qed.

(* number of reported splits present in exactly one of the two lists *)
Definition rf_split (ps1 ps2 : list bits) : nat := diff_count ps1 ps2 + diff_count ps2 ps1.

(* the root-placement correction *)
Definition rf_corr (r1 r2 : rtree) (rb1 rb2 : list bits) (k : nat) : nat :=
  if two_rooted r1 && two_rooted r2 && negb (Nat.eqb k 0) && negb (same_root_bits rb1 rb2) then 2 else 0.

Section TwoTrees.
Variables (t1 t2 : arena) (root1 root2 : nat) (r1 r2 : rtree).
Hypothesis G1 : Good t1 root1 r1.
Hypothesis G2 : Good t2 root2 r2.

Let ps1 := part_keys t1 r1.
Let ps2 := part_keys t2 r2.

Definition rf_value : nat :=
  rf_split ps1 ps2 + rf_corr r1 r2 (root_bits t1 r1) (root_bits t2 r2) (rf_split ps1 ps2).

(* the complete behaviour of robinson_foulds on two fresh, well-formed, uniquely labelled trees *)
Theorem rf_unfold :
  robinson_foulds O (tree_of t1) (tree_of t2) =
  if negb (list_eqb str_eqb (leaf_idx t1) (leaf_idx t2)) then Err DifferentTipIndices
  else Ok (rf_value, TC t1 r1, TC t2 r2).
Proof.
  unfold robinson_foulds.
  rewrite (get_partitions_pm t1 root1 r1 G1). cbn [bind].
  rewrite (get_partitions_pm t2 root2 r2 G2). cbn [bind].
  cbn [TC leaf_index ostrs_eqb].
  destruct (negb (list_eqb str_eqb (leaf_idx t1) (leaf_idx t2))); [reflexivity|].
  unfold TC.
  rewrite (root_parts_good t1 root1 r1 G1). cbn [bind].
  rewrite (root_parts_good t2 root2 r2 G2). cbn [bind nodes].
  rewrite (is_rooted_good t1 root1 r1 G1). cbn [bind].
  fold (inter_count (part_keys t2 r2) (part_keys t1 r1)).
  rewrite (rf_arith (part_keys t1 r1) (part_keys t2 r2))
    by (first [apply (part_keys_NoDup t1 root1 r1 G1) | apply (part_keys_NoDup t2 root2 r2 G2)]).
  fold (rf_split (part_keys t1 r1) (part_keys t2 r2)).
  fold (same_root_bits (root_bits t1 r1) (root_bits t2 r2)).
  unfold rf_value, rf_corr, two_rooted. fold ps1 ps2.
  destruct (Nat.eqb (length (rch r1)) 2) eqn:E1.
  - rewrite (is_rooted_good t2 root2 r2 G2). cbn [bind].
    destruct (_ && _ && _ && _); [reflexivity|]. rewrite Nat.add_0_r. reflexivity.
  - cbn [bind andb]. rewrite Nat.add_0_r. reflexivity.
Qed.

(* 1. same leaf-name sets: the value is the symmetric-difference count plus the root correction *)
Theorem rf_refines :
  leaf_idx t1 = leaf_idx t2 ->
  robinson_foulds O (tree_of t1) (tree_of t2) = Ok (rf_value, TC t1 r1, TC t2 r2) /\
  get_partitions O (tree_of t1) = Ok (ps1, TC t1 r1) /\
  get_partitions O (tree_of t2) = Ok (ps2, TC t2 r2) /\
  NoDup ps1 /\ NoDup ps2 /\
  rf_value = diff_count ps1 ps2 + diff_count ps2 ps1 +
             (if two_rooted r1 && two_rooted r2 && negb (Nat.eqb (rf_split ps1 ps2) 0)
                 && negb (same_root_bits (root_bits t1 r1) (root_bits t2 r2)) then 2 else 0).
Proof.
  intros E. rewrite rf_unfold. rewrite (proj2 (list_eqb_str_iff _ _) E). cbn [negb].
  repeat split.
  - apply get_partitions_pm with (root := root1); auto.
  - apply get_partitions_pm with (root := root2); auto.
  - apply (part_keys_NoDup t1 root1 r1 G1).
  - apply (part_keys_NoDup t2 root2 r2 G2).
Qed.

(* 4. different leaf-name sets are rejected *)
Theorem rf_leafset_mismatch :
  leaf_idx t1 <> leaf_idx t2 -> robinson_foulds O (tree_of t1) (tree_of t2) = Err DifferentTipIndices.
Proof.
  intros E. rewrite rf_unfold. destruct (list_eqb str_eqb _ _) eqn:E'; [|reflexivity].
  apply list_eqb_str_iff in E'. contradiction.
Qed.

(* 2. no correction unless both roots have exactly two children *)
Theorem rf_unrooted :
  leaf_idx t1 = leaf_idx t2 ->
  (length (rch r1) <> 2 \/ length (rch r2) <> 2) ->
  robinson_foulds O (tree_of t1) (tree_of t2) = Ok (rf_split ps1 ps2, TC t1 r1, TC t2 r2).
Proof.
  intros E H. destruct (rf_refines E) as (-> & _). do 2 f_equal. f_equal.
  unfold rf_value, rf_corr, two_rooted.
  replace (Nat.eqb (length (rch r1)) 2 && Nat.eqb (length (rch r2)) 2) with false; [cbn; lia|].
  symmetry. apply andb_false_iff. rewrite !Nat.eqb_neq. auto.
Qed.

Corollary rf_multifurcating_roots :
  leaf_idx t1 = leaf_idx t2 -> 3 <= length (rch r1) -> 3 <= length (rch r2) ->
  robinson_foulds O (tree_of t1) (tree_of t2) = Ok (rf_split ps1 ps2, TC t1 r1, TC t2 r2).
Proof. intros E H1 H2. apply rf_unrooted; auto. left. lia. Qed.

End TwoTrees.

Lemma rf_split_sym a b : rf_split a b = rf_split b a.
Proof. unfold rf_split. lia. Qed.

(* 3. symmetry of the value (fix F6 made the correction symmetric) *)
Theorem rf_value_sym t1 t2 r1 r2 : rf_value t1 t2 r1 r2 = rf_value t2 t1 r2 r1.
Proof.
  unfold rf_value, rf_corr. rewrite (rf_split_sym (part_keys t2 r2)), (same_root_bits_sym (root_bits t2 r2)).
  rewrite (andb_comm (two_rooted r2)). reflexivity.
Qed.

Theorem rf_sym t1 t2 root1 root2 r1 r2 :
  Good t1 root1 r1 -> Good t2 root2 r2 ->
  omap_out (fun x => fst (fst x)) (robinson_foulds O (tree_of t1) (tree_of t2)) =
  omap_out (fun x => fst (fst x)) (robinson_foulds O (tree_of t2) (tree_of t1)).
Proof.
  intros G1 G2. rewrite (rf_unfold t1 t2 root1 root2 r1 r2 G1 G2), (rf_unfold t2 t1 root2 root1 r2 r1 G2 G1).
  destruct (list_eqb str_eqb (leaf_idx t1) (leaf_idx t2)) eqn:E.
  - apply list_eqb_str_iff in E. rewrite E. rewrite (proj2 (list_eqb_str_iff _ _) eq_refl). cbn.
    rewrite rf_value_sym. reflexivity.
  - replace (list_eqb str_eqb (leaf_idx t2) (leaf_idx t1)) with false; [reflexivity|].
    symmetry. apply not_true_iff_false. intros E'. apply list_eqb_str_iff in E'.
    rewrite E', (proj2 (list_eqb_str_iff _ _) eq_refl) in E. discriminate.
Qed.


(* ---- 5. trees with the same reported split sets are at distance zero ---------------------------- *)
Lemma diff_count_same a b : (forall x, In x a <-> In x b) -> diff_count a b = 0.
Proof. intros H. apply diff_count_0. intros x. apply H. Qed.

Lemma rf_split_same a b : (forall x, In x a <-> In x b) -> rf_split a b = 0.
Proof.
  intros H. unfold rf_split. rewrite (diff_count_same a b H), (diff_count_same b a); auto.
  intros x. symmetry. apply H.
Qed.

Theorem rf_same_sets t1 t2 root1 root2 r1 r2 :
  Good t1 root1 r1 -> Good t2 root2 r2 ->
  leaf_idx t1 = leaf_idx t2 ->
  (forall b, In b (part_keys t1 r1) <-> In b (part_keys t2 r2)) ->
  robinson_foulds O (tree_of t1) (tree_of t2) = Ok (0, TC t1 r1, TC t2 r2).
Proof.
  intros G1 G2 E H. destruct (rf_refines t1 t2 root1 root2 r1 r2 G1 G2 E) as (-> & _).
  unfold rf_value, rf_corr. rewrite (rf_split_same _ _ H). cbn [Nat.eqb negb]. rewrite andb_false_r. reflexivity.
Qed.

Theorem rf_self t root r :
  Good t root r -> robinson_foulds O (tree_of t) (tree_of t) = Ok (0, TC t r, TC t r).
Proof. intros G. apply (rf_same_sets t t root root r r); auto. tauto. Qed.

(* two arenas labelling their common leaves alike, with spec-equivalent split sets *)
Theorem rf_zero_transfer t t' root root' r r' :
  Good t root r -> Good t' root' r' ->
  Permutation (rleaves r) (rleaves r') ->
  (forall i, In i (rleaves r) -> lab t i = lab t' i) ->
  split_equiv (map (lab t) (rleaves r)) (rsplits (lab t) r) (rsplits (lab t) r') ->
  robinson_foulds O (tree_of t) (tree_of t') = Ok (0, TC t r, TC t' r').
Proof.
  intros G G' Hp Hlab Heq.
  assert (Hn : forall x, In x (map (lab t) (rleaves r)) <-> In x (map (lab t') (rleaves r'))).
  { intros x. rewrite !in_map_iff. split; intros (i & <- & Hi).
    + exists i. split; [symmetry; auto|]. eapply Permutation_in; eauto.
    + apply (Permutation_in _ (Permutation_sym Hp)) in Hi. eauto. }
  assert (Hs : split_equiv (map (lab t) (rleaves r)) (rsplits (lab t) r) (rsplits (lab t') r')).
  { rewrite <- (rsplits_ext (lab t) (lab t') r'); auto.
    intros i Hi. apply Hlab. eapply Permutation_in; [apply Permutation_sym|]; eauto. }
  destruct (partitions_invariant O t t' root root' r r' _ _ _ _ G G' Hn Hs
              (get_partitions_pm t root r G) (get_partitions_pm t' root' r' G')) as [Hli Hps].
  apply (rf_same_sets t t' root root' r r'); auto.
Qed.

(* RF is zero between a tree and any child-reordering of itself ... *)
Theorem rf_reorder t t' root root' r r' :
  Good t root r -> Good t' root' r' ->
  (forall i, In i (rleaves r) -> lab t i = lab t' i) ->
  reorder r r' ->
  robinson_foulds O (tree_of t) (tree_of t') = Ok (0, TC t r, TC t' r').
Proof.
  intros G G' Hlab H. apply (rf_zero_transfer t t' root root' r r'); auto using reorder_leaves, rsplits_reorder.
Qed.

(* ... any insertion of a unary node ... *)
Theorem rf_unary t t' root root' r r' :
  Good t root r -> Good t' root' r' ->
  (forall i, In i (rleaves r) -> lab t i = lab t' i) ->
  unary_ins r r' ->
  robinson_foulds O (tree_of t) (tree_of t') = Ok (0, TC t r, TC t' r').
Proof.
  intros G G' Hlab H. apply (rf_zero_transfer t t' root root' r r'); auto using rsplits_unary.
  rewrite (unary_ins_leaves _ _ H). auto.
Qed.

(* ... and the unrooted version of a tree with a two-child root *)
Theorem rf_reroot t t' root root' i i' j X ys :
  Good t root (RT i [X; RT j ys]) -> Good t' root' (RT i' (X :: ys)) ->
  (forall k, In k (rleaves (RT i [X; RT j ys])) -> lab t k = lab t' k) ->
  ys <> [] ->
  robinson_foulds O (tree_of t) (tree_of t') = Ok (0, TC t (RT i [X; RT j ys]), TC t' (RT i' (X :: ys))).
Proof.
  intros G G' Hlab Hys. apply (rf_zero_transfer t t' root root' _ _); auto.
  - rewrite (reroot_leaves i i' j X ys Hys); auto.
  - apply (rsplits_reroot (lab t) i i' j X ys Hys). apply (g_uniq _ _ _ G).
Qed.


(* ---- 6. the normalised distance: (rf, total) ----------------------------------------------------- *)
Theorem rf_norm_value t1 t2 root1 root2 r1 r2 :
  Good t1 root1 r1 -> Good t2 root2 r2 ->
  leaf_idx t1 = leaf_idx t2 ->
  robinson_foulds_norm O (tree_of t1) (tree_of t2) =
    Ok (rf_value t1 t2 r1 r2, length (part_keys t2 r2) + length (part_keys t1 r1), TC t1 r1, TC t2 r2) /\
  rf_split (part_keys t1 r1) (part_keys t2 r2) <= length (part_keys t2 r2) + length (part_keys t1 r1).
Proof.
  intros G1 G2 E. split.
  - unfold robinson_foulds_norm. destruct (rf_refines t1 t2 root1 root2 r1 r2 G1 G2 E) as (-> & _).
    cbn [bind]. rewrite (get_partitions_TC t1 root1 r1 G1). cbn [bind].
    rewrite (get_partitions_TC t2 root2 r2 G2). reflexivity.
  - unfold rf_split. pose proof (inter_diff_length (part_keys t1 r1) (part_keys t2 r2)).
    pose proof (inter_diff_length (part_keys t2 r2) (part_keys t1 r1)). lia.
Qed.

(* with no root correction the quotient rf / total lies in [0,1]: 0 <= rf <= total *)
Corollary rf_norm_unit_interval t1 t2 root1 root2 r1 r2 :
  Good t1 root1 r1 -> Good t2 root2 r2 ->
  leaf_idx t1 = leaf_idx t2 ->
  (length (rch r1) <> 2 \/ length (rch r2) <> 2) ->
  exists rf tot, robinson_foulds_norm O (tree_of t1) (tree_of t2) = Ok (rf, tot, TC t1 r1, TC t2 r2) /\
                 rf = rf_split (part_keys t1 r1) (part_keys t2 r2) /\
                 tot = length (part_keys t1 r1) + length (part_keys t2 r2) /\ rf <= tot.
Proof.
  intros G1 G2 E H. destruct (rf_norm_value t1 t2 root1 root2 r1 r2 G1 G2 E) as [H1 H2].
  eexists _, _. split; [apply H1|].
  assert (Hc : rf_value t1 t2 r1 r2 = rf_split (part_keys t1 r1) (part_keys t2 r2)).
  { unfold rf_value, rf_corr, two_rooted.
    replace (Nat.eqb (length (rch r1)) 2 && Nat.eqb (length (rch r2)) 2) with false; [cbn; lia|].
    symmetry. apply andb_false_iff. rewrite !Nat.eqb_neq. auto. }
  rewrite Hc. repeat split; lia.
Qed.

(* ================================================================================================ *)
(* D. partitions with lengths; the combined report                                                  *)
(* ================================================================================================ *)
Definition is_some {A} (o : option A) : bool := match o with Some _ => true | None => false end.
Definition all_lens (m : pmap) : bool := forallb (fun e => is_some (snd (snd e))) m.
Definition lens_of (m : pmap) : list (bits * (nat * L)) :=
  flat_map (fun e => match snd (snd e) with Some l => [(fst e, (fst (snd e), l))] | None => [] end) m.

Lemma mapM_lens (m : pmap) :
  mapM (fun (e : bits * (nat * option L)) =>
          match snd (snd e) with
          | Some l => Ok (fst e, (fst (snd e), l))
          | None => Err MissingBranchLengths
          end) m
  = if all_lens m then Ok (lens_of m) else Err MissingBranchLengths.
Proof.
  induction m as [|e m IH]; [reflexivity|]. cbn [mapM all_lens forallb lens_of flat_map].
  destruct (snd (snd e)); cbn [bind is_some andb]; [|reflexivity].
  rewrite IH. fold (all_lens m). destruct (all_lens m); reflexivity.
Qed.

Lemma lens_of_keys (m : pmap) : all_lens m = true -> map fst (lens_of m) = map fst m.
Proof.
  induction m as [|e m IH]; [reflexivity|]. cbn [all_lens forallb lens_of flat_map]. intros H.
  apply andb_true_iff in H as [H1 H2]. destruct (snd (snd e)); [|discriminate]. simpl. f_equal. apply IH, H2.
Qed.

Lemma lens_of_length (m : pmap) : all_lens m = true -> length (lens_of m) = length m.
Proof. intros H. rewrite <- (map_length fst), lens_of_keys, map_length; auto. Qed.

Lemma plen_get_mem (po : list (bits * (nat * L))) k : is_some (plen_get po k) = mem_bits k (map fst po).
Proof.
  induction po as [|[k' v] po IH]; [reflexivity|]. simpl. destruct (bits_eqb k k'); [reflexivity|]. apply IH.
Qed.

Lemma filter_map_length {A B} (f : A -> B) (p : B -> bool) l :
  length (filter (fun x => p (f x)) l) = length (filter p (map f l)).
Proof. induction l as [|x l IH]; simpl; auto. destruct (p (f x)); simpl; auto. Qed.

Theorem gpwl_fresh t root r : Good t root r ->
  get_partitions_with_lengths O (tree_of t) =
  if all_lens (pm t r) then Ok (lens_of (pm t r), TC t r) else Err MissingBranchLengths.
Proof.
  intros G. unfold get_partitions_with_lengths, tree_of.
  rewrite (init_leaf_index_fresh t root r G). cbn [bind]. fold (T1 t).
  rewrite (init_partitions_pm t root r G). cbn [bind partitions TC].
  rewrite mapM_lens. destruct (all_lens (pm t r)); reflexivity.
Qed.

(* weighted RF / KF radicand on fresh trees *)
Theorem wrf_unfold sq t1 t2 root1 root2 r1 r2 :
  Good t1 root1 r1 -> Good t2 root2 r2 ->
  weighted_rf O sq (tree_of t1) (tree_of t2) =
  if all_lens (pm t1 r1) && all_lens (pm t2 r2)
  then Ok (wrf_sum O sq (lens_of (pm t1 r1)) (lens_of (pm t2 r2)), TC t1 r1, TC t2 r2)
  else Err MissingBranchLengths.
Proof.
  intros G1 G2. unfold weighted_rf. rewrite (gpwl_fresh t1 root1 r1 G1).
  destruct (all_lens (pm t1 r1)); [|reflexivity]. cbn [bind andb].
  rewrite (gpwl_fresh t2 root2 r2 G2). destruct (all_lens (pm t2 r2)); reflexivity.
Qed.

(* the combined report on fresh trees *)
Theorem compare_topologies_unfold t1 t2 root1 root2 r1 r2 :
  Good t1 root1 r1 -> Good t2 root2 r2 ->
  compare_topologies O (tree_of t1) (tree_of t2) =
  if all_lens (pm t1 r1) && all_lens (pm t2 r2)
  then Ok (mkCmp (rf_value t1 t2 r1 r2) (length (part_keys t2 r2) + length (part_keys t1 r1))
                 (wrf_sum O false (lens_of (pm t1 r1)) (lens_of (pm t2 r2)))
                 (wrf_sum O true (lens_of (pm t1 r1)) (lens_of (pm t2 r2))), TC t1 r1, TC t2 r2)
  else Err MissingBranchLengths.
Proof.
  intros G1 G2. unfold compare_topologies. rewrite (gpwl_fresh t1 root1 r1 G1).
  destruct (all_lens (pm t1 r1)) eqn:A1; [|reflexivity]. cbn [bind andb].
  rewrite (gpwl_fresh t2 root2 r2 G2). destruct (all_lens (pm t2 r2)) eqn:A2; [|reflexivity]. cbn [bind].
  unfold TC at 1. rewrite (root_parts_good t1 root1 r1 G1). cbn [bind].
  unfold TC at 1. rewrite (root_parts_good t2 root2 r2 G2). cbn [bind nodes].
  rewrite (is_rooted_good t1 root1 r1 G1). cbn [bind].
  assert (Hi : length (filter (fun e : bits * (nat * L) =>
                  match plen_get (lens_of (pm t2 r2)) (fst e) with Some _ => true | None => false end)
                  (lens_of (pm t1 r1))) = inter_count (part_keys t1 r1) (part_keys t2 r2)).
  { rewrite (filter_ext _ (fun e => mem_bits (fst e) (map fst (lens_of (pm t2 r2)))))
      by (intros e; apply plen_get_mem).
    rewrite (filter_map_length fst (fun k => mem_bits k (map fst (lens_of (pm t2 r2))))).
    rewrite !lens_of_keys by auto. rewrite (pm_keys t1 r1), (pm_keys t2 r2). reflexivity. }
  rewrite Hi. rewrite !lens_of_length by auto.
  rewrite <- (map_length fst (pm t1 r1)), <- (map_length fst (pm t2 r2)), (pm_keys t1 r1), (pm_keys t2 r2).
  rewrite (inter_count_sym (part_keys t1 r1) (part_keys t2 r2))
    by (first [apply (part_keys_NoDup t1 root1 r1 G1) | apply (part_keys_NoDup t2 root2 r2 G2)]).
  rewrite (rf_arith (part_keys t1 r1) (part_keys t2 r2))
    by (first [apply (part_keys_NoDup t1 root1 r1 G1) | apply (part_keys_NoDup t2 root2 r2 G2)]).
  fold (rf_split (part_keys t1 r1) (part_keys t2 r2)).
  fold (same_root_bits (root_bits t1 r1) (root_bits t2 r2)).
  unfold rf_value, rf_corr, two_rooted.
  destruct (Nat.eqb (length (rch r1)) 2) eqn:E1.
  - rewrite (is_rooted_good t2 root2 r2 G2). cbn [bind].
    destruct (_ && _ && _ && _); [reflexivity|]. rewrite Nat.add_0_r. reflexivity.
  - cbn [bind andb]. rewrite Nat.add_0_r. reflexivity.
Qed.

(* 7. the report's rf and total are those of robinson_foulds / robinson_foulds_norm *)
Theorem rf_report t1 t2 root1 root2 r1 r2 c s' o' :
  Good t1 root1 r1 -> Good t2 root2 r2 ->
  leaf_idx t1 = leaf_idx t2 ->
  compare_topologies O (tree_of t1) (tree_of t2) = Ok (c, s', o') ->
  robinson_foulds O (tree_of t1) (tree_of t2) = Ok (c_rf c, s', o') /\
  robinson_foulds_norm O (tree_of t1) (tree_of t2) = Ok (c_rf c, c_tot c, s', o').
Proof.
  intros G1 G2 E H. rewrite (compare_topologies_unfold t1 t2 root1 root2 r1 r2 G1 G2) in H.
  destruct (_ && _); [|discriminate]. injection H as <- <- <-. cbn [c_rf c_tot].
  split.
  - apply (rf_refines t1 t2 root1 root2 r1 r2 G1 G2 E).
  - apply (rf_norm_value t1 t2 root1 root2 r1 r2 G1 G2 E).
Qed.

(* 8e. the report's weighted values are exactly the two weighted_rf values (any trees, any caches) *)
Theorem report_agrees (s o : tree) c s' o' :
  compare_topologies O s o = Ok (c, s', o') ->
  exists s1 o1, weighted_rf O false s o = Ok (c_wrf c, s1, o1) /\ weighted_rf O true s o = Ok (c_kf2 c, s1, o1).
Proof.
  unfold compare_topologies, weighted_rf.
  destruct (get_partitions_with_lengths O s) as [[ps s1]| | |]; cbn [bind]; try discriminate.
  destruct (get_partitions_with_lengths O o) as [[po o1]| | |]; cbn [bind]; try discriminate.
  destruct (root_parts s1) as [[rs s2]| | |]; cbn [bind]; try discriminate.
  destruct (root_parts o1) as [[ro o2]| | |]; cbn [bind]; try discriminate.
  destruct (is_rooted (nodes s2)) as [sr| | |]; cbn [bind]; try discriminate.
  destruct (if sr then is_rooted (nodes o2) else Ok false) as [orr| | |]; cbn [bind]; try discriminate.
  intros H. injection H as <- _ _. cbn [c_wrf c_kf2]. eauto.
Qed.


(* ================================================================================================ *)
(* E. what init_partitions stores for a split: depth of the last inducing node, sum of all lengths   *)
(* ================================================================================================ *)
Lemma pmap_get_set (m : pmap) k v k' :
  pmap_get (pmap_set m k v) k' = if bits_eqb k' k then Some v else pmap_get m k'.
Proof.
  induction m as [|[k0 v0] m IH]; simpl.
  - reflexivity.
  - destruct (bits_eqb k k0) eqn:E; simpl.
    + apply bits_eqb_iff in E. subst k0. destruct (bits_eqb k' k); reflexivity.
    + destruct (bits_eqb k' k0) eqn:E'.
      * apply bits_eqb_iff in E'. subst k0. rewrite bits_eqb_sym, E. reflexivity.
      * apply IH.
Qed.

Lemma pmap_get_In (m : pmap) k v : pmap_get m k = Some v -> In (k, v) m.
Proof.
  induction m as [|[k0 v0] m IH]; simpl; [discriminate|].
  destruct (bits_eqb k k0) eqn:E.
  - apply bits_eqb_iff in E. subst. intros H. injection H as ->. auto.
  - auto.
Qed.

Lemma pmap_get_None (m : pmap) k : pmap_get m k = None <-> ~ In k (map fst m).
Proof.
  induction m as [|[k0 v0] m IH]; simpl; [tauto|].
  destruct (bits_eqb k k0) eqn:E.
  - apply bits_eqb_iff in E. subst. split; [discriminate|]. intros H. exfalso. auto.
  - apply bits_eqb_false in E. rewrite IH. split; [intros H [H'|H']; auto|tauto].
Qed.

Lemma pmap_get_NoDup (m : pmap) e : NoDup (map fst m) -> In e m -> pmap_get m (fst e) = Some (snd e).
Proof.
  induction m as [|[k0 v0] m IH]; simpl; [tauto|]. intros Hnd [<-|Hin].
  - simpl. rewrite bits_eqb_refl. reflexivity.
  - apply NoDup_cons_iff in Hnd as [Hk Hnd]. destruct (bits_eqb (fst e) k0) eqn:E.
    + apply bits_eqb_iff in E. subst k0. exfalso. apply Hk. apply in_map. auto.
    + auto.
Qed.

(* one step of the accumulation for a given key *)
Definition upd_entry (cur : option (nat * option L)) (n : node) : option (nat * option L) :=
  Some (ndepth n,
        match npedge n, cur with
        | None, None => None
        | Some nl, Some (_, ol) => option_map (fun v => ladd O v nl) ol
        | Some nl, None => Some nl
        | None, Some (_, ol) => None
        end).

(* sum of optional lengths, left to right: missing as soon as one is missing *)
Definition oadd (a o : option L) : option L :=
  match a, o with Some x, Some y => Some (ladd O x y) | _, _ => None end.
Definition osum_from (a : option L) (os : list (option L)) : option L := fold_left oadd os a.
Definition osum (os : list (option L)) : option L :=
  match os with [] => None | o :: os' => osum_from o os' end.

Lemma osum_from_None os : osum_from None os = None.
Proof. induction os as [|o os IH]; simpl; auto. Qed.

Lemma osum_from_missing os : forall a, In None os -> osum_from a os = None.
Proof.
  induction os as [|o os IH]; simpl; [tauto|]. intros a [->|H].
  - destruct a; simpl; apply osum_from_None.
  - apply IH, H.
Qed.

Lemma osum_from_present (ls : list L) : forall a, osum_from (Some a) (map Some ls) = Some (fold_left (ladd O) ls a).
Proof. induction ls as [|x ls IH]; simpl; auto. Qed.

Lemma osum_missing os : In None os -> osum os = None.
Proof.
  destruct os as [|o os]; simpl; [tauto|]. intros [->|H]; [apply osum_from_None|apply osum_from_missing, H].
Qed.

Lemma osum_present x (ls : list L) : osum (map Some (x :: ls)) = Some (fold_left (ladd O) ls x).
Proof. simpl. apply osum_from_present. Qed.

Lemma osum_Some_all os l : osum os = Some l -> forall o, In o os -> o <> None.
Proof. intros H o Ho ->. rewrite (osum_missing os Ho) in H. discriminate. Qed.

Lemma last_cons_default {A} (l : list A) : forall x d, last (x :: l) d = last l x.
Proof. induction l as [|y l IH]; intros x d; [reflexivity|]. change (last (y :: l) d = last (y :: l) x). rewrite !IH. reflexivity. Qed.

Lemma fold_upd_entry_Some (ns : list node) : forall d ol,
  fold_left upd_entry ns (Some (d, ol)) =
  Some (last (map (@ndepth L) ns) d, osum_from ol (map (@npedge L) ns)).
Proof.
  induction ns as [|n ns IH]; intros d ol; [reflexivity|].
  cbn [fold_left map]. unfold upd_entry at 2.
  replace (match npedge n with Some nl => option_map (fun v => ladd O v nl) ol | None => None end)
    with (oadd ol (npedge n)) by (destruct (npedge n), ol; reflexivity).
  rewrite IH. f_equal. f_equal. symmetry. apply last_cons_default.
Qed.

Lemma fold_upd_entry_None (ns : list node) :
  fold_left upd_entry ns None =
  match ns with
  | [] => None
  | n :: ns' => Some (last (map (@ndepth L) ns') (ndepth n), osum (map (@npedge L) ns))
  end.
Proof.
  destruct ns as [|n ns]; [reflexivity|]. cbn [fold_left]. unfold upd_entry at 2.
  replace (match npedge n with Some nl => Some nl | None => None end) with (npedge n) by (destruct (npedge n); reflexivity).
  apply fold_upd_entry_Some.
Qed.

Section Accum.
Variables (t : arena) (root : nat) (r : rtree).
Hypothesis G : Good t root r.

(* the candidate nodes (live, non-root, internal), in arena order, whose branch induces the reported split b *)
Definition inducing (b : bits) : list node :=
  filter (fun n => nontriv (pb t r n) && bits_eqb (pb t r n) b) (cands t).

Lemma fold_m_next_get (l : list node) : forall (m : pmap) b,
  pmap_get (fold_left (m_next t r O) l m) b =
  fold_left upd_entry (filter (fun n => nontriv (pb t r n) && bits_eqb (pb t r n) b) l) (pmap_get m b).
Proof.
  induction l as [|n l IH]; intros m b; [reflexivity|].
  cbn [fold_left filter]. rewrite IH. unfold m_next.
  replace (nontriv (pb t r n)) with (negb (trivial_part (pb t r n))) by reflexivity.
  destruct (trivial_part (pb t r n)); cbn [negb andb]; [reflexivity|].
  rewrite pmap_get_set. rewrite (bits_eqb_sym b).
  destruct (bits_eqb (pb t r n) b) eqn:E; [|reflexivity].
  apply bits_eqb_iff in E. rewrite E. reflexivity.
Qed.

(* 9. the entry stored for b *)
Theorem pm_get b :
  pmap_get (pm t r) b =
  match inducing b with
  | [] => None
  | n :: ns' => Some (last (map (@ndepth L) ns') (ndepth n), osum (map (@npedge L) (inducing b)))
  end.
Proof.
  unfold pm. rewrite fold_m_next_get. cbn [pmap_get]. fold (inducing b). rewrite fold_upd_entry_None.
  destruct (inducing b); reflexivity.
Qed.

Lemma inducing_In b n : In n (inducing b) <-> In n t /\ cand n = true /\ pb t r n = b /\ trivial_part b = false.
Proof.
  unfold inducing, cands. rewrite !filter_In, andb_true_iff, bits_eqb_iff. unfold nontriv. rewrite negb_true_iff.
  split.
  - intros ((H1 & H2) & H3 & H4). subst b. auto.
  - intros (H1 & H2 & H3 & H4). subst b. auto.
Qed.

Lemma inducing_nonempty b : In b (part_keys t r) <-> inducing b <> [].
Proof.
  rewrite part_keys_In. split.
  - intros (n & Hn & Hc & -> & Ht) E.
    assert (H : In n (inducing (pb t r n))) by (apply inducing_In; auto). rewrite E in H. inversion H.
  - intros H. destruct (inducing b) as [|n ns] eqn:E; [congruence|].
    assert (Hn : In n (inducing b)) by (rewrite E; simpl; auto).
    apply inducing_In in Hn as (H1 & H2 & H3 & H4). exists n. auto.
Qed.

(* the accumulated length of a split *)
Definition split_len (b : bits) : option L :=
  match pmap_get (pm t r) b with Some (_, ol) => ol | None => None end.
Definition split_depth (b : bits) : option nat :=
  match pmap_get (pm t r) b with Some (d, _) => Some d | None => None end.

Theorem split_len_sum b : split_len b = osum (map (@npedge L) (inducing b)).
Proof. unfold split_len. rewrite pm_get. destruct (inducing b); reflexivity. Qed.

Theorem split_depth_last b : split_depth b = last (map (fun n => Some (ndepth n)) (inducing b)) None.
Proof.
  unfold split_depth. rewrite pm_get. destruct (inducing b) as [|n ns]; [reflexivity|].
  cbn [map]. rewrite last_cons_default. generalize (ndepth n) as d.
  induction ns as [|n' ns IH]; intros d; [reflexivity|].
  cbn [map]. rewrite !last_cons_default. apply IH.
Qed.

(* all lengths present: the plain left-to-right sum over all inducing branches (both branches of a
   two-child root, every member of a unary chain) *)
Theorem split_len_all_present b n ns ls :
  inducing b = n :: ns -> map (@npedge L) (n :: ns) = map Some ls ->
  split_len b = match ls with [] => None | x :: ls' => Some (fold_left (ladd O) ls' x) end.
Proof.
  intros E H. rewrite split_len_sum, E, H. destruct ls as [|x ls]; [discriminate|]. apply osum_present.
Qed.

(* one missing length: missing *)
Theorem split_len_missing b n : In n (inducing b) -> npedge n = None -> split_len b = None.
Proof.
  intros Hn E. rewrite split_len_sum. apply osum_missing. rewrite <- E. apply in_map. auto.
Qed.

(* all_lens: every reported split has a stored length *)
Lemma all_lens_spec : all_lens (pm t r) = true <-> forall b, In b (part_keys t r) -> split_len b <> None.
Proof.
  pose proof (part_keys_NoDup t root r G) as Hnd. rewrite <- pm_keys in Hnd.
  unfold all_lens. rewrite forallb_forall. split.
  - intros H b Hb. unfold split_len. destruct (pmap_get (pm t r) b) as [[d ol]|] eqn:E.
    + apply pmap_get_In in E. specialize (H _ E). simpl in H. destruct ol; [discriminate|discriminate].
    + apply pmap_get_None in E. rewrite pm_keys in E. contradiction.
  - intros H [k [d ol]] He. cbn [snd]. specialize (H k).
    unfold split_len in H. pose proof (pmap_get_NoDup _ _ Hnd He) as Hg. cbn [fst snd] in Hg. rewrite Hg in H.
    destruct ol; [reflexivity|]. exfalso. apply H; auto. rewrite <- pm_keys. apply (in_map fst _ _ He).
Qed.

Theorem all_lens_iff :
  all_lens (pm t r) = true <->
  forall n, In n t -> cand n = true -> trivial_part (pb t r n) = false -> npedge n <> None.
Proof.
  rewrite all_lens_spec. split.
  - intros H n Hn Hc Ht E. apply (H (pb t r n)).
    + apply part_keys_In. eauto.
    + apply (split_len_missing _ n); auto. apply inducing_In. auto.
  - intros H b Hb. rewrite split_len_sum. apply inducing_nonempty in Hb.
    destruct (inducing b) as [|n ns] eqn:E; [congruence|].
    assert (Hall : forall o, In o (map (@npedge L) (n :: ns)) -> o <> None).
    { intros o Ho. apply in_map_iff in Ho as (n' & <- & Hn'). rewrite <- E in Hn'.
      apply inducing_In in Hn' as (H1 & H2 & H3 & H4). apply H; auto. rewrite H3. auto. }
    clear E. cbn [map osum]. cbn [map] in Hall.
    assert (Hgen : forall os a, a <> None -> (forall o, In o os -> o <> None) -> osum_from a os <> None).
    { induction os as [|o os IH]; intros a Ha Hos; simpl; auto.
      apply IH; [|intros; apply Hos; simpl; auto].
      destruct a; [|congruence]. destruct o eqn:Eo; [discriminate|]. exfalso. apply (Hos None); simpl; auto. }
    apply Hgen; [apply Hall; simpl; auto|intros; apply Hall; simpl; auto].
Qed.

(* the list of (key, (depth, length)) handed out by get_partitions_with_lengths *)
Lemma plen_get_lens (m : pmap) k : all_lens m = true ->
  plen_get (lens_of m) k =
  match pmap_get m k with Some (d, Some l) => Some (d, l) | _ => None end.
Proof.
  induction m as [|[k0 [d ol]] m IH]; [reflexivity|]. cbn [all_lens forallb lens_of flat_map snd fst].
  intros H. apply andb_true_iff in H as [H1 H2]. destruct ol as [l|]; [|discriminate].
  cbn [app plen_get pmap_get]. destruct (bits_eqb k k0); [reflexivity|]. apply IH, H2.
Qed.

Theorem gpwl_entry k : all_lens (pm t r) = true ->
  plen_get (lens_of (pm t r)) k =
  match split_depth k, split_len k with Some d, Some l => Some (d, l) | _, _ => None end.
Proof.
  intros H. rewrite plen_get_lens by auto. unfold split_depth, split_len.
  destruct (pmap_get (pm t r) k) as [[d [l|]]|]; reflexivity.
Qed.

End Accum.


(* ================================================================================================ *)
(* F. wrf_sum as a sum over the union of the two key sets                                            *)
(* ================================================================================================ *)
Notation plist := (list (bits * (nat * L))).

Lemma plen_get_In (m : plist) k v : plen_get m k = Some v -> In (k, v) m.
Proof.
  induction m as [|[k0 v0] m IH]; simpl; [discriminate|].
  destruct (bits_eqb k k0) eqn:E.
  - apply bits_eqb_iff in E. subst. intros H. injection H as ->. auto.
  - auto.
Qed.

Lemma plen_get_NoDup (m : plist) e : NoDup (map fst m) -> In e m -> plen_get m (fst e) = Some (snd e).
Proof.
  induction m as [|[k0 v0] m IH]; simpl; [tauto|]. intros Hnd [<-|Hin].
  - simpl. rewrite bits_eqb_refl. reflexivity.
  - apply NoDup_cons_iff in Hnd as [Hk Hnd]. destruct (bits_eqb (fst e) k0) eqn:E.
    + apply bits_eqb_iff in E. subst k0. exfalso. apply Hk. apply in_map. auto.
    + auto.
Qed.

Lemma plen_get_None (m : plist) k : plen_get m k = None <-> ~ In k (map fst m).
Proof.
  rewrite <- mem_bits_false, <- plen_get_mem. destruct (plen_get m k); simpl; split; congruence.
Qed.

Lemma fold_left_ext' {A B} (f g : A -> B -> A) l : (forall a x, f a x = g a x) ->
  forall a, fold_left f l a = fold_left g l a.
Proof. intros H. induction l as [|x l IH]; intros a; simpl; auto. rewrite H. apply IH. Qed.

Lemma fold_ladd_map {A} (h : A -> L) l : forall a,
  fold_left (fun acc e => ladd O acc (h e)) l a = fold_left (ladd O) (map h l) a.
Proof. induction l as [|x l IH]; intros a; simpl; auto. Qed.

Lemma fold_ladd_skip {A} (p : A -> bool) (h : A -> L) l : forall a,
  fold_left (fun acc e => if p e then acc else ladd O acc (h e)) l a
  = fold_left (ladd O) (map h (filter (fun e => negb (p e)) l)) a.
Proof. induction l as [|x l IH]; intros a; simpl; auto. destruct (p x); simpl; auto. Qed.

Lemma filter_map_comm {A B} (f : A -> B) (p : B -> bool) l :
  filter p (map f l) = map f (filter (fun x => p (f x)) l).
Proof. induction l as [|x l IH]; simpl; auto. destruct (p (f x)); simpl; congruence. Qed.

Lemma filter_all_false {A} (p : A -> bool) l : (forall x, In x l -> p x = false) -> filter p l = [].
Proof.
  induction l as [|x l IH]; simpl; auto. intros H. rewrite (H x) by auto. apply IH. intros; apply H; auto.
Qed.

Section WrfAlgebra.
Variable sq : bool.

(* |x| or x^2 for a difference; x or x^2 for a length met in one tree only *)
Definition wf_ (x : L) : L := if sq then lmul O x x else labs O x.
Definition wg_ (x : L) : L := if sq then lmul O x x else x.
Definition len_e (e : bits * (nat * L)) : L := snd (snd e).
Definition len_at (m : plist) (k : bits) : L := match plen_get m k with Some (_, l) => l | None => l0 O end.

Definition term1 (po : plist) (e : bits * (nat * L)) : L :=
  match plen_get po (fst e) with
  | Some (_, lo) => wf_ (lsub O (len_e e) lo)
  | None => wg_ (len_e e)
  end.

(* 8b. as written: first the splits of the first tree, then those only in the second *)
Theorem wrf_sum_terms (ps po : plist) :
  wrf_sum O sq ps po =
  fold_left (ladd O)
    (map (term1 po) ps ++
     map (fun e => wg_ (len_e e)) (filter (fun e => negb (is_some (plen_get ps (fst e)))) po)) (l0 O).
Proof.
  unfold wrf_sum. cbv zeta. rewrite fold_left_app.
  rewrite <- (fold_ladd_skip (fun e => is_some (plen_get ps (fst e))) (fun e => wg_ (len_e e))).
  rewrite <- (fold_ladd_map (term1 po)).
  match goal with |- fold_left ?f po ?a = fold_left ?g po ?b => assert (E : a = b) end.
  { apply fold_left_ext'. intros a e. unfold term1. destruct (plen_get po (fst e)) as [[d lo]|]; reflexivity. }
  rewrite E. apply fold_left_ext'.
  intros a e. destruct (plen_get ps (fst e)); reflexivity.
Qed.

(* the contribution of key k *)
Definition kterm (ps po : plist) (k : bits) : L :=
  match plen_get ps k, plen_get po k with
  | Some (_, a), Some (_, b) => wf_ (lsub O a b)
  | Some (_, a), None => wg_ a
  | None, Some (_, b) => wg_ b
  | None, None => l0 O
  end.
(* keys of the first list, then the keys only in the second *)
Definition ukeys (ps po : plist) : list bits :=
  map fst ps ++ filter (fun k => negb (mem_bits k (map fst ps))) (map fst po).

Lemma ukeys_In ps po k : In k (ukeys ps po) <-> In k (map fst ps) \/ In k (map fst po).
Proof.
  unfold ukeys. rewrite in_app_iff, filter_In, negb_true_iff, mem_bits_false.
  destruct (in_dec bits_eq_dec k (map fst ps)); tauto.
Qed.

Lemma ukeys_NoDup ps po : NoDup (map fst ps) -> NoDup (map fst po) -> NoDup (ukeys ps po).
Proof.
  intros H1 H2. unfold ukeys. apply NoDup_app_iff. repeat split; auto using NoDup_filter.
  intros x Hx Hx'. apply filter_In in Hx' as [_ Hx']. apply negb_true_iff, mem_bits_false in Hx'. auto.
Qed.

Theorem wrf_sum_keys (ps po : plist) :
  NoDup (map fst ps) -> NoDup (map fst po) ->
  wrf_sum O sq ps po = fold_left (ladd O) (map (kterm ps po) (ukeys ps po)) (l0 O).
Proof.
  intros N1 N2. rewrite wrf_sum_terms. unfold ukeys. rewrite map_app. f_equal. f_equal.
  - rewrite map_map. apply map_ext_in. intros e He. unfold term1, kterm.
    rewrite (plen_get_NoDup ps e N1 He). destruct e as [k [d a]]. cbn [fst snd len_e].
    destruct (plen_get po k) as [[d' b]|]; reflexivity.
  - rewrite filter_map_comm, map_map.
    rewrite (filter_ext (fun e : bits * (nat * L) => negb (is_some (plen_get ps (fst e))))
                        (fun e => negb (mem_bits (fst e) (map fst ps))))
      by (intros e; rewrite plen_get_mem; reflexivity).
    apply map_ext_in. intros e He. apply filter_In in He as [He Hn].
    apply negb_true_iff, mem_bits_false, plen_get_None in Hn. unfold kterm. rewrite Hn.
    rewrite (plen_get_NoDup po e N2 He). destruct e as [k [d b]]. reflexivity.
Qed.

(* 8c. with x - 0 and 0 - x contributing like x: one formula over the union of the keys, absent = 0 *)
Theorem wrf_sum_union (ps po : plist) :
  NoDup (map fst ps) -> NoDup (map fst po) ->
  (forall e, In e ps -> wf_ (lsub O (len_e e) (l0 O)) = wg_ (len_e e)) ->
  (forall e, In e po -> wf_ (lsub O (l0 O) (len_e e)) = wg_ (len_e e)) ->
  wrf_sum O sq ps po =
  fold_left (ladd O) (map (fun k => wf_ (lsub O (len_at ps k) (len_at po k))) (ukeys ps po)) (l0 O).
Proof.
  intros N1 N2 H1 H2. rewrite wrf_sum_keys by auto. f_equal. apply map_ext_in. intros k Hk.
  unfold kterm, len_at.
  destruct (plen_get ps k) as [[d a]|] eqn:E1; destruct (plen_get po k) as [[d' b]|] eqn:E2; auto.
  - apply plen_get_In in E1. symmetry. apply (H1 _ E1).
  - apply plen_get_In in E2. symmetry. apply (H2 _ E2).
  - exfalso. apply ukeys_In in Hk. apply plen_get_None in E1, E2. tauto.
Qed.

Section Laws.
Hypothesis ladd_assoc : forall x y z, ladd O x (ladd O y z) = ladd O (ladd O x y) z.
Hypothesis ladd_comm : forall x y, ladd O x y = ladd O y x.

Lemma fold_ladd_perm' (l l' : list L) :
  Permutation l l' -> forall a, fold_left (ladd O) l a = fold_left (ladd O) l' a.
Proof.
  induction 1; intros a; simpl; auto.
  - f_equal. rewrite <- !ladd_assoc. f_equal. apply ladd_comm.
  - rewrite IHPermutation1. auto.
Qed.

(* any duplicate-free enumeration of the union of the keys gives the same sum *)
Theorem wrf_sum_any_order (ps po : plist) (ks : list bits) :
  NoDup (map fst ps) -> NoDup (map fst po) ->
  NoDup ks -> (forall k, In k ks <-> In k (map fst ps) \/ In k (map fst po)) ->
  wrf_sum O sq ps po = fold_left (ladd O) (map (kterm ps po) ks) (l0 O).
Proof.
  intros N1 N2 Nk Hk. rewrite wrf_sum_keys by auto. apply fold_ladd_perm'. apply Permutation_map.
  apply NoDup_Permutation; auto using ukeys_NoDup. intros k. rewrite ukeys_In, Hk. tauto.
Qed.

Hypothesis wf_sym : forall a b, wf_ (lsub O a b) = wf_ (lsub O b a).

Lemma kterm_sym ps po k : kterm ps po k = kterm po ps k.
Proof.
  unfold kterm. destruct (plen_get ps k) as [[d a]|]; destruct (plen_get po k) as [[d' b]|]; auto.
Qed.

(* 8d. symmetry *)
Theorem wrf_sum_sym (ps po : plist) :
  NoDup (map fst ps) -> NoDup (map fst po) -> wrf_sum O sq ps po = wrf_sum O sq po ps.
Proof.
  intros N1 N2. rewrite (wrf_sum_keys po ps) by auto.
  rewrite (wrf_sum_any_order ps po (ukeys po ps)); auto using ukeys_NoDup.
  - f_equal. apply map_ext. intros k. apply kterm_sym.
  - intros k. rewrite ukeys_In. tauto.
Qed.

End Laws.

(* a list against itself: every term is f (l - l) *)
Theorem wrf_sum_self (ps : plist) :
  NoDup (map fst ps) ->
  wrf_sum O sq ps ps = fold_left (ladd O) (map (fun e => wf_ (lsub O (len_e e) (len_e e))) ps) (l0 O).
Proof.
  intros N. rewrite wrf_sum_terms.
  assert (E : filter (fun e : bits * (nat * L) => negb (is_some (plen_get ps (fst e)))) ps = []).
  { apply filter_all_false. intros e He. rewrite (plen_get_NoDup ps e N He). reflexivity. }
  rewrite E, app_nil_r.
  f_equal. apply map_ext_in. intros e He. unfold term1. rewrite (plen_get_NoDup ps e N He).
  destruct e as [k [d a]]. reflexivity.
Qed.

Corollary wrf_sum_self_zero (ps : plist) :
  NoDup (map fst ps) ->
  (forall a, wf_ (lsub O a a) = l0 O) -> ladd O (l0 O) (l0 O) = l0 O ->
  wrf_sum O sq ps ps = l0 O.
Proof.
  intros N Hz H0. rewrite wrf_sum_self by auto.
  induction ps as [|e ps IH]; [reflexivity|]. cbn [map fold_left]. rewrite Hz, H0. apply IH.
  simpl in N. apply NoDup_cons_iff in N. tauto.
Qed.

End WrfAlgebra.


(* ================================================================================================ *)
(* G. weighted RF and the Kuhner-Felsenstein radicand on trees                                       *)
(* ================================================================================================ *)
(* every branch that induces a reported split carries a length *)
Definition lengths_present (t : arena) (r : rtree) : Prop :=
  forall n, In n t -> cand n = true -> trivial_part (pb t r n) = false -> npedge n <> None.

(* the length of split k in the tree, zero where the split is absent *)
Definition slen (t : arena) (r : rtree) (k : bits) : L :=
  match split_len t r k with Some l => l | None => l0 O end.

(* the length map handed out by get_partitions_with_lengths *)
Definition lmap (t : arena) (r : rtree) : plist := lens_of (pm t r).

Lemma all_some_map {A} (os : list (option A)) : (forall o, In o os -> o <> None) -> exists ls, os = map Some ls.
Proof.
  induction os as [|o os IH]; intros H; [exists []; reflexivity|].
  destruct IH as (ls & ->); [intros; apply H; simpl; auto|].
  destruct o as [v|]; [|exfalso; apply (H None); simpl; auto]. exists (v :: ls). reflexivity.
Qed.

Section WeightedOne.
Variables (t : arena) (root : nat) (r : rtree).
Hypothesis G : Good t root r.
Hypothesis HP : lengths_present t r.

Lemma all_lens_present : all_lens (pm t r) = true.
Proof. apply (all_lens_iff t root r G). exact HP. Qed.

Lemma lmap_keys : map fst (lmap t r) = part_keys t r.
Proof. unfold lmap. rewrite lens_of_keys by apply all_lens_present. apply pm_keys. Qed.

Lemma lmap_NoDup : NoDup (map fst (lmap t r)).
Proof. rewrite lmap_keys. apply (part_keys_NoDup t root r G). Qed.

Lemma lmap_len_at k : len_at (lmap t r) k = slen t r k.
Proof.
  unfold len_at, lmap, slen. rewrite (gpwl_entry t r k all_lens_present).
  unfold split_depth, split_len. destruct (pmap_get (pm t r) k) as [[d [l|]]|]; reflexivity.
Qed.

Lemma lmap_entry e : In e (lmap t r) -> In (fst e) (part_keys t r) /\ len_e e = slen t r (fst e).
Proof.
  intros He. split.
  - rewrite <- lmap_keys. apply in_map. auto.
  - rewrite <- lmap_len_at. unfold len_at. rewrite (plen_get_NoDup _ e lmap_NoDup He).
    destruct e as [k [d l]]. reflexivity.
Qed.

(* every stored length is the left-to-right sum of the lengths of all inducing branches *)
Theorem lmap_entry_sum e : In e (lmap t r) ->
  exists n ns ls, inducing t r (fst e) = n :: ns /\ map (@npedge L) (n :: ns) = map Some ls /\
                  match ls with [] => False | x :: ls' => len_e e = fold_left (ladd O) ls' x end.
Proof.
  intros He. destruct (lmap_entry e He) as [Hk Hl].
  apply (inducing_nonempty t r) in Hk. destruct (inducing t r (fst e)) as [|n ns] eqn:E; [congruence|].
  assert (Hall : forall n', In n' (n :: ns) -> npedge n' <> None).
  { intros n' Hn'. rewrite <- E in Hn'. apply inducing_In in Hn' as (H1 & H2 & H3 & H4). apply HP; auto. rewrite H3; auto. }
  assert (Hls : exists ls, map (@npedge L) (n :: ns) = map Some ls).
  { apply all_some_map. intros o Ho. apply in_map_iff in Ho as (n' & <- & Hn'). auto. }
  destruct Hls as (ls & Hls). exists n, ns, ls. split; auto. split; auto.
  pose proof (split_len_all_present t r (fst e) n ns ls E Hls) as Hs.
  destruct ls as [|x ls']; [discriminate|]. rewrite Hl. unfold slen. rewrite Hs. reflexivity.
Qed.

End WeightedOne.

(* missing lengths: the stored entry is None, the request fails *)
Theorem gpwl_missing t root r n :
  Good t root r -> In n t -> cand n = true -> trivial_part (pb t r n) = false -> npedge n = None ->
  get_partitions_with_lengths O (tree_of t) = Err MissingBranchLengths.
Proof.
  intros G Hn Hc Ht E. rewrite (gpwl_fresh t root r G).
  destruct (all_lens (pm t r)) eqn:A; [|reflexivity].
  exfalso. apply (proj1 (all_lens_iff t root r G) A n); auto.
Qed.

Section WeightedTwo.
Variables (t1 t2 : arena) (root1 root2 : nat) (r1 r2 : rtree).
Hypothesis G1 : Good t1 root1 r1.
Hypothesis G2 : Good t2 root2 r2.

(* 8d'. a missing length in either tree: MissingBranchLengths *)
Theorem wrf_missing sq :
  (exists n, In n t1 /\ cand n = true /\ trivial_part (pb t1 r1 n) = false /\ npedge n = None) \/
  (exists n, In n t2 /\ cand n = true /\ trivial_part (pb t2 r2 n) = false /\ npedge n = None) ->
  weighted_rf O sq (tree_of t1) (tree_of t2) = Err MissingBranchLengths /\
  compare_topologies O (tree_of t1) (tree_of t2) = Err MissingBranchLengths.
Proof.
  intros H.
  assert (A : all_lens (pm t1 r1) && all_lens (pm t2 r2) = false).
  { apply andb_false_iff. destruct H as [(n & Hn & Hc & Ht & E)|(n & Hn & Hc & Ht & E)]; [left|right];
      apply not_true_iff_false; intros A.
    - apply (proj1 (all_lens_iff t1 root1 r1 G1) A n); auto.
    - apply (proj1 (all_lens_iff t2 root2 r2 G2) A n); auto. }
  rewrite (wrf_unfold sq t1 t2 root1 root2 r1 r2 G1 G2), (compare_topologies_unfold t1 t2 root1 root2 r1 r2 G1 G2).
  rewrite A. auto.
Qed.

(* conversely the only failure is a missing length *)
Theorem wrf_total sq :
  (exists v, weighted_rf O sq (tree_of t1) (tree_of t2) = Ok (v, TC t1 r1, TC t2 r2)) \/
  weighted_rf O sq (tree_of t1) (tree_of t2) = Err MissingBranchLengths.
Proof.
  rewrite (wrf_unfold sq t1 t2 root1 root2 r1 r2 G1 G2). destruct (_ && _); eauto.
Qed.

Hypothesis HP1 : lengths_present t1 r1.
Hypothesis HP2 : lengths_present t2 r2.

(* 8a. all lengths present: the value is wrf_sum over the two length maps *)
Theorem wrf_refines sq :
  weighted_rf O sq (tree_of t1) (tree_of t2) = Ok (wrf_sum O sq (lmap t1 r1) (lmap t2 r2), TC t1 r1, TC t2 r2) /\
  get_partitions_with_lengths O (tree_of t1) = Ok (lmap t1 r1, TC t1 r1) /\
  get_partitions_with_lengths O (tree_of t2) = Ok (lmap t2 r2, TC t2 r2).
Proof.
  rewrite (wrf_unfold sq t1 t2 root1 root2 r1 r2 G1 G2), (gpwl_fresh t1 root1 r1 G1), (gpwl_fresh t2 root2 r2 G2).
  rewrite (all_lens_present t1 root1 r1 G1 HP1), (all_lens_present t2 root2 r2 G2 HP2). auto.
Qed.

(* the keys of the union: splits of the first tree, then those only in the second *)
Definition union_keys : list bits :=
  part_keys t1 r1 ++ filter (fun k => negb (mem_bits k (part_keys t1 r1))) (part_keys t2 r2).

Lemma ukeys_lmap : ukeys (lmap t1 r1) (lmap t2 r2) = union_keys.
Proof.
  unfold ukeys, union_keys.
  rewrite (lmap_keys t1 root1 r1 G1 HP1), (lmap_keys t2 root2 r2 G2 HP2). reflexivity.
Qed.

(* 8c. the value as one sum over the union of the two split sets of f(len1 - len2), absent = 0 *)
Theorem wrf_refines_sum sq :
  (forall k, In k (part_keys t1 r1) -> wf_ sq (lsub O (slen t1 r1 k) (l0 O)) = wg_ sq (slen t1 r1 k)) ->
  (forall k, In k (part_keys t2 r2) -> wf_ sq (lsub O (l0 O) (slen t2 r2 k)) = wg_ sq (slen t2 r2 k)) ->
  weighted_rf O sq (tree_of t1) (tree_of t2) =
  Ok (fold_left (ladd O) (map (fun k => wf_ sq (lsub O (slen t1 r1 k) (slen t2 r2 k))) union_keys) (l0 O),
      TC t1 r1, TC t2 r2).
Proof.
  intros H1 H2. destruct (wrf_refines sq) as (-> & _). do 2 f_equal. f_equal.
  rewrite wrf_sum_union.
  - rewrite ukeys_lmap. f_equal. apply map_ext. intros k.
    rewrite (lmap_len_at t1 root1 r1 G1 HP1), (lmap_len_at t2 root2 r2 G2 HP2). reflexivity.
  - apply (lmap_NoDup t1 root1 r1 G1 HP1).
  - apply (lmap_NoDup t2 root2 r2 G2 HP2).
  - intros e He. destruct (lmap_entry t1 root1 r1 G1 HP1 e He) as [Hk ->]. auto.
  - intros e He. destruct (lmap_entry t2 root2 r2 G2 HP2 e He) as [Hk ->]. auto.
Qed.

(* weighted RF proper: sum of |len1 - len2| *)
Corollary wrf_value :
  (forall k, In k (part_keys t1 r1) -> labs O (lsub O (slen t1 r1 k) (l0 O)) = slen t1 r1 k) ->
  (forall k, In k (part_keys t2 r2) -> labs O (lsub O (l0 O) (slen t2 r2 k)) = slen t2 r2 k) ->
  weighted_rf O false (tree_of t1) (tree_of t2) =
  Ok (fold_left (ladd O) (map (fun k => labs O (lsub O (slen t1 r1 k) (slen t2 r2 k))) union_keys) (l0 O),
      TC t1 r1, TC t2 r2).
Proof. intros H1 H2. apply (wrf_refines_sum false); auto. Qed.

(* Kuhner-Felsenstein: the radicand is the sum of squared differences *)
Corollary kf_refines :
  (forall k, In k (part_keys t1 r1) ->
     lmul O (lsub O (slen t1 r1 k) (l0 O)) (lsub O (slen t1 r1 k) (l0 O)) = lmul O (slen t1 r1 k) (slen t1 r1 k)) ->
  (forall k, In k (part_keys t2 r2) ->
     lmul O (lsub O (l0 O) (slen t2 r2 k)) (lsub O (l0 O) (slen t2 r2 k)) = lmul O (slen t2 r2 k) (slen t2 r2 k)) ->
  weighted_rf O true (tree_of t1) (tree_of t2) =
  Ok (fold_left (ladd O)
        (map (fun k => lmul O (lsub O (slen t1 r1 k) (slen t2 r2 k)) (lsub O (slen t1 r1 k) (slen t2 r2 k))) union_keys)
        (l0 O),
      TC t1 r1, TC t2 r2).
Proof. intros H1 H2. apply (wrf_refines_sum true); auto. Qed.

(* 8d. symmetry, given an associative-commutative + and f(a - b) = f(b - a) *)
Theorem wrf_sym sq :
  (forall x y z, ladd O x (ladd O y z) = ladd O (ladd O x y) z) ->
  (forall x y, ladd O x y = ladd O y x) ->
  (forall a b, wf_ sq (lsub O a b) = wf_ sq (lsub O b a)) ->
  omap_out (fun x => fst (fst x)) (weighted_rf O sq (tree_of t1) (tree_of t2)) =
  omap_out (fun x => fst (fst x)) (weighted_rf O sq (tree_of t2) (tree_of t1)).
Proof.
  intros Ha Hc Hs.
  rewrite (wrf_unfold sq t1 t2 root1 root2 r1 r2 G1 G2), (wrf_unfold sq t2 t1 root2 root1 r2 r1 G2 G1).
  rewrite (all_lens_present t1 root1 r1 G1 HP1), (all_lens_present t2 root2 r2 G2 HP2). cbn.
  f_equal. apply wrf_sum_sym; auto.
  - apply (lmap_NoDup t1 root1 r1 G1 HP1).
  - apply (lmap_NoDup t2 root2 r2 G2 HP2).
Qed.

(* the report carries exactly these two values *)
Theorem report_weighted :
  exists c, compare_topologies O (tree_of t1) (tree_of t2) = Ok (c, TC t1 r1, TC t2 r2) /\
            weighted_rf O false (tree_of t1) (tree_of t2) = Ok (c_wrf c, TC t1 r1, TC t2 r2) /\
            weighted_rf O true (tree_of t1) (tree_of t2) = Ok (c_kf2 c, TC t1 r1, TC t2 r2) /\
            c_rf c = rf_value t1 t2 r1 r2 /\
            c_tot c = length (part_keys t2 r2) + length (part_keys t1 r1).
Proof.
  rewrite (compare_topologies_unfold t1 t2 root1 root2 r1 r2 G1 G2).
  rewrite !(wrf_unfold _ t1 t2 root1 root2 r1 r2 G1 G2).
  rewrite (all_lens_present t1 root1 r1 G1 HP1), (all_lens_present t2 root2 r2 G2 HP2). cbn [andb].
  eexists. split; [reflexivity|]. cbn. auto.
Qed.

End WeightedTwo.

(* symmetric even when lengths are missing: both orders fail alike *)
Theorem wrf_sym_missing sq t1 t2 root1 root2 r1 r2 :
  Good t1 root1 r1 -> Good t2 root2 r2 ->
  ~ (lengths_present t1 r1 /\ lengths_present t2 r2) ->
  weighted_rf O sq (tree_of t1) (tree_of t2) = Err MissingBranchLengths /\
  weighted_rf O sq (tree_of t2) (tree_of t1) = Err MissingBranchLengths.
Proof.
  intros G1 G2 H.
  rewrite (wrf_unfold sq t1 t2 root1 root2 r1 r2 G1 G2), (wrf_unfold sq t2 t1 root2 root1 r2 r1 G2 G1).
  rewrite (andb_comm (all_lens (pm t2 r2))).
  destruct (all_lens (pm t1 r1) && all_lens (pm t2 r2)) eqn:A; auto.
  exfalso. apply H. apply andb_true_iff in A as [A1 A2].
  split; [exact (proj1 (all_lens_iff t1 root1 r1 G1) A1)|exact (proj1 (all_lens_iff t2 root2 r2 G2) A2)].
Qed.

(* a tree against itself *)
Theorem wrf_self sq t root r :
  Good t root r -> lengths_present t r ->
  (forall a, wf_ sq (lsub O a a) = l0 O) -> ladd O (l0 O) (l0 O) = l0 O ->
  weighted_rf O sq (tree_of t) (tree_of t) = Ok (l0 O, TC t r, TC t r).
Proof.
  intros G HP Hz H0. destruct (wrf_refines t t root root r r G G HP HP sq) as (-> & _).
  rewrite wrf_sum_self_zero; auto. apply (lmap_NoDup t root r G HP).
Qed.


(* ================================================================================================ *)
(* H. the root-placement correction, at the level of leaf sets                                       *)
(* ================================================================================================ *)
Section RootSplit.
Variables (t : arena) (root : nat) (r : rtree).
Hypothesis G : Good t root r.

(* a two-child root: both branches induce the same split *)
Lemma root2_same_split a b : rch r = [a; b] -> part_of t a = part_of t b.
Proof.
  intros Hch. unfold part_of. apply canon_clade_bits_iff. right. intros x Hx.
  destruct r as [i cs]. simpl in Hch. subst cs.
  pose proof (g_uniq _ _ _ G) as Hu. rewrite rleaves_cons in Hu. cbn [flat_map] in Hu.
  rewrite app_nil_r, map_app in Hu. apply NoDup_app_iff in Hu as (_ & _ & Hdis).
  apply (leaf_idx_In t root _ G) in Hx as (j & Hj & <-).
  rewrite rleaves_cons in Hj. cbn [flat_map] in Hj. rewrite app_nil_r in Hj. apply in_app_iff in Hj.
  unfold clade. split.
  - intros Ha Hb. apply (Hdis _ Ha Hb).
  - intros Hb. destruct Hj as [Hj|Hj]; [apply in_map; auto|]. exfalso. apply Hb. apply in_map; auto.
Qed.

Lemma root_bits_two a b : rch r = [a; b] -> forall x, In x (root_bits t r) <-> x = part_of t a.
Proof.
  intros Hch x. unfold root_bits. rewrite Hch. cbn [map In]. rewrite <- (root2_same_split a b Hch).
  split; [intros [H|[H|[]]]; auto|auto].
Qed.

End RootSplit.

(* both roots have two children: the root splits agree iff the leaf sets below the first children
   form the same bipartition *)
Theorem same_root_two t1 t2 root1 root2 r1 r2 a1 b1 a2 b2 :
  Good t1 root1 r1 -> Good t2 root2 r2 -> leaf_idx t1 = leaf_idx t2 ->
  rch r1 = [a1; b1] -> rch r2 = [a2; b2] ->
  same_root_bits (root_bits t1 r1) (root_bits t2 r2) = true <->
  same_split (map (lab t1) (rleaves r1)) (clade (lab t1) a1) (clade (lab t2) a2).
Proof.
  intros G1 G2 E H1 H2. rewrite same_root_bits_spec.
  rewrite <- (partitions_same_split t1 root1 r1 G1).
  change (canon (clade_bits (leaf_idx t1) (clade (lab t1) a1))) with (part_of t1 a1).
  rewrite E. change (canon (clade_bits (leaf_idx t2) (clade (lab t2) a2))) with (part_of t2 a2).
  split.
  - intros H. apply (root_bits_two t2 root2 r2 G2 a2 b2 H2). apply H.
    apply (root_bits_two t1 root1 r1 G1 a1 b1 H1). reflexivity.
  - intros H x. rewrite (root_bits_two t1 root1 r1 G1 a1 b1 H1), (root_bits_two t2 root2 r2 G2 a2 b2 H2), H.
    tauto.
Qed.

(* the complete value for two trees with two-child roots *)
Theorem rf_rooted t1 t2 root1 root2 r1 r2 a1 b1 a2 b2 :
  Good t1 root1 r1 -> Good t2 root2 r2 -> leaf_idx t1 = leaf_idx t2 ->
  rch r1 = [a1; b1] -> rch r2 = [a2; b2] ->
  let k := rf_split (part_keys t1 r1) (part_keys t2 r2) in
  (k = 0 \/ same_split (map (lab t1) (rleaves r1)) (clade (lab t1) a1) (clade (lab t2) a2) ->
   robinson_foulds O (tree_of t1) (tree_of t2) = Ok (k, TC t1 r1, TC t2 r2)) /\
  (k <> 0 -> ~ same_split (map (lab t1) (rleaves r1)) (clade (lab t1) a1) (clade (lab t2) a2) ->
   robinson_foulds O (tree_of t1) (tree_of t2) = Ok (k + 2, TC t1 r1, TC t2 r2)).
Proof.
  intros G1 G2 E H1 H2 k.
  destruct (rf_refines t1 t2 root1 root2 r1 r2 G1 G2 E) as (-> & _).
  pose proof (same_root_two t1 t2 root1 root2 r1 r2 a1 b1 a2 b2 G1 G2 E H1 H2) as Hs.
  unfold rf_value, rf_corr, two_rooted. rewrite H1, H2. cbn [length Nat.eqb andb]. fold k.
  split.
  - intros [Hk|Hss].
    + rewrite Hk. cbn. reflexivity.
    + apply Hs in Hss. rewrite Hss, andb_false_r, Nat.add_0_r. reflexivity.
  - intros Hk Hss. apply Nat.eqb_neq in Hk. rewrite Hk.
    destruct (same_root_bits _ _); [exfalso; apply Hss, Hs; reflexivity|]. reflexivity.
Qed.


(* ================================================================================================ *)
(* I. the split count at the level of leaf-name sets (rsplits modulo same_split)                     *)
(* ================================================================================================ *)
(* decidable same_split *)
Definition ssb (X S S' : list str) : bool :=
  forallb (fun x => Bool.eqb (mem_str x S) (mem_str x S')) X ||
  forallb (fun x => Bool.eqb (mem_str x S) (negb (mem_str x S'))) X.

Lemma ssb_spec X S S' : ssb X S S' = true <-> same_split X S S'.
Proof.
  unfold ssb, same_split. rewrite orb_true_iff, !forallb_forall.
  assert (H1 : forall x, Bool.eqb (mem_str x S) (mem_str x S') = true <-> (In x S <-> In x S')).
  { intros x. rewrite eqb_true_iff, <- !mem_str_In. destruct (mem_str x S), (mem_str x S'); intuition congruence. }
  assert (H2 : forall x, Bool.eqb (mem_str x S) (negb (mem_str x S')) = true <-> (In x S <-> ~ In x S')).
  { intros x. rewrite eqb_true_iff, <- !mem_str_In. destruct (mem_str x S), (mem_str x S'); simpl; intuition congruence. }
  split; (intros [H|H]; [left|right]; intros x Hx; specialize (H x Hx)); first [apply H1; assumption|apply H2; assumption].
Qed.

(* keep one representative per class (the last occurrence) *)
Fixpoint dedup_by {A} (eqv : A -> A -> bool) (l : list A) : list A :=
  match l with
  | [] => []
  | x :: t => if existsb (eqv x) t then dedup_by eqv t else x :: dedup_by eqv t
  end.

Lemma dedup_by_incl {A} (eqv : A -> A -> bool) l x : In x (dedup_by eqv l) -> In x l.
Proof.
  induction l as [|y l IH]; simpl; auto. destruct (existsb (eqv y) l); simpl; intuition.
Qed.

Lemma dedup_by_image {A} (c : A -> bits) (eqv : A -> A -> bool) l :
  (forall x y, eqv x y = true <-> c x = c y) ->
  NoDup (map c (dedup_by eqv l)) /\ forall b, In b (map c (dedup_by eqv l)) <-> In b (map c l).
Proof.
  intros Hc. induction l as [|x l [IH1 IH2]]; simpl.
  - split; [constructor|tauto].
  - destruct (existsb (eqv x) l) eqn:E.
    + split; auto. intros b. rewrite IH2. split; auto. intros [<-|H]; auto.
      apply existsb_exists in E as (y & Hy & Hxy). apply Hc in Hxy. rewrite Hxy. apply in_map. auto.
    + simpl. split.
      * constructor; auto. rewrite IH2. intros H. apply in_map_iff in H as (y & Hy & Hin).
        apply not_true_iff_false in E. apply E. apply existsb_exists. exists y. split; auto. apply Hc. auto.
      * intros b. rewrite IH2. tauto.
Qed.

(* the splits of A without a counterpart in B, one per class *)
Definition only_in (X : list str) (A B : list (list str)) : list (list str) :=
  dedup_by (ssb X) (filter (fun S => negb (existsb (ssb X S) B)) A).
Definition count_only (X : list str) (A B : list (list str)) : nat := length (only_in X A B).

Lemma diff_count_spec (c : list str -> bits) X A B ps1 ps2 :
  (forall S S', ssb X S S' = true <-> c S = c S') ->
  NoDup ps1 -> (forall b, In b ps1 <-> In b (map c A)) -> (forall b, In b ps2 <-> In b (map c B)) ->
  diff_count ps1 ps2 = count_only X A B.
Proof.
  intros Hc Hnd H1 H2. unfold diff_count, count_only, only_in.
  destruct (dedup_by_image c (ssb X) (filter (fun S => negb (existsb (ssb X S) B)) A) Hc) as [Hd1 Hd2].
  rewrite <- (map_length c (dedup_by _ _)). apply Permutation_length.
  apply NoDup_Permutation; auto using NoDup_filter.
  intros b. rewrite Hd2, filter_In, negb_true_iff, mem_bits_false, H1, H2, !in_map_iff. split.
  - intros ((S & <- & HS) & Hno). exists S. split; auto. apply filter_In. split; auto.
    apply negb_true_iff, not_true_iff_false. intros Hex. apply existsb_exists in Hex as (S' & HS' & Hss).
    apply Hno. exists S'. split; auto. symmetry. apply Hc. auto.
  - intros (S & <- & HS). apply filter_In in HS as [HS Hno]. split; [eauto|].
    intros (S' & E & HS'). apply negb_true_iff, not_true_iff_false in Hno. apply Hno.
    apply existsb_exists. exists S'. split; auto. apply Hc. auto.
Qed.

Section SpecCount.
Variables (t1 t2 : arena) (root1 root2 : nat) (r1 r2 : rtree).
Hypothesis G1 : Good t1 root1 r1.
Hypothesis G2 : Good t2 root2 r2.
Hypothesis E : leaf_idx t1 = leaf_idx t2.

Let X := map (lab t1) (rleaves r1).
Let A1 := rsplits (lab t1) r1.
Let A2 := rsplits (lab t2) r2.
Let c := fun S : list str => canon (clade_bits (leaf_idx t1) S).

Lemma ssb_c S S' : ssb X S S' = true <-> c S = c S'.
Proof. rewrite ssb_spec. symmetry. apply (partitions_same_split t1 root1 r1 G1). Qed.

Lemma keys1_c b : In b (part_keys t1 r1) <-> In b (map c A1).
Proof.
  rewrite (partitions_spec O t1 root1 r1 G1 _ _ (get_partitions_pm t1 root1 r1 G1)), in_map_iff.
  split; intros (S & H1 & H2); exists S; auto.
Qed.

Lemma keys2_c b : In b (part_keys t2 r2) <-> In b (map c A2).
Proof.
  rewrite (partitions_spec O t2 root2 r2 G2 _ _ (get_partitions_pm t2 root2 r2 G2)), in_map_iff.
  unfold c. rewrite E. split; intros (S & H1 & H2); exists S; auto.
Qed.

(* 1'. the number of reported bitsets of one tree absent from the other = number of its non-trivial
   splits (as leaf-name bipartitions) that the other tree does not have *)
Theorem diff_count_splits :
  diff_count (part_keys t1 r1) (part_keys t2 r2) = count_only X A1 A2 /\
  diff_count (part_keys t2 r2) (part_keys t1 r1) = count_only X A2 A1.
Proof.
  split; apply (diff_count_spec c); auto using ssb_c, keys1_c, keys2_c.
  - apply (part_keys_NoDup t1 root1 r1 G1).
  - apply (part_keys_NoDup t2 root2 r2 G2).
Qed.

Theorem rf_split_spec :
  rf_split (part_keys t1 r1) (part_keys t2 r2) = count_only X A1 A2 + count_only X A2 A1.
Proof. unfold rf_split. destruct diff_count_splits as [-> ->]. reflexivity. Qed.

(* what the representative lists are (B is any list of splits) *)
Theorem only_in_spec (A B : list (list str)) :
  (forall S, In S (only_in X A B) -> In S A /\ forall S', In S' B -> ~ same_split X S S') /\
  (forall S, In S A -> (forall S', In S' B -> ~ same_split X S S') ->
             exists S0, In S0 (only_in X A B) /\ same_split X S S0) /\
  ForallOrdPairs (fun S S' => ~ same_split X S S') (only_in X A B).
Proof.
  unfold only_in.
  destruct (dedup_by_image c (ssb X) (filter (fun S => negb (existsb (ssb X S) B)) A) ssb_c) as [Hd1 Hd2].
  split; [|split].
  - intros S HS. apply dedup_by_incl in HS. apply filter_In in HS as [HS Hno]. split; auto.
    intros S' HS' Hss. apply negb_true_iff, not_true_iff_false in Hno. apply Hno.
    apply existsb_exists. exists S'. split; auto. apply ssb_spec. auto.
  - intros S HS Hno.
    assert (Hin : In (c S) (map c (filter (fun S => negb (existsb (ssb X S) B)) A))).
    { apply in_map. apply filter_In. split; auto. apply negb_true_iff, not_true_iff_false.
      intros Hex. apply existsb_exists in Hex as (S' & HS' & Hss). apply (Hno S' HS'). apply ssb_spec. auto. }
    apply Hd2 in Hin. apply in_map_iff in Hin as (S0 & E0 & HS0). exists S0. split; auto.
    apply ssb_spec, ssb_c. auto.
  - revert Hd1. generalize (dedup_by (ssb X) (filter (fun S => negb (existsb (ssb X S) B)) A)) as D.
    induction D as [|S D IH]; intros Hnd; [constructor|]. simpl in Hnd. apply NoDup_cons_iff in Hnd as [Hn Hnd].
    constructor; auto. apply Forall_forall. intros S' HS' Hss. apply Hn.
    apply ssb_spec, ssb_c in Hss. rewrite Hss. apply in_map. auto.
Qed.

(* ... and any other system of representatives has the same size: the count is canonical *)
Theorem only_in_unique (A B D : list (list str)) :
  (forall S, In S D -> In S A /\ forall S', In S' B -> ~ same_split X S S') ->
  (forall S, In S A -> (forall S', In S' B -> ~ same_split X S S') -> exists S0, In S0 D /\ same_split X S S0) ->
  ForallOrdPairs (fun S S' => ~ same_split X S S') D ->
  length D = count_only X A B.
Proof.
  intros D1 D2 D3. destruct (only_in_spec A B) as (O1 & O2 & O3).
  assert (Hnd : forall D0, ForallOrdPairs (fun S S' => ~ same_split X S S') D0 -> NoDup (map c D0)).
  { induction 1 as [|S D0 HS HF IH]; simpl; constructor; auto.
    intros Hin. apply in_map_iff in Hin as (S' & E' & HS'). rewrite Forall_forall in HS.
    apply (HS S' HS'). apply ssb_spec, ssb_c. auto. }
  unfold count_only. rewrite <- (map_length c D), <- (map_length c (only_in X A B)).
  apply Permutation_length. apply NoDup_Permutation; auto.
  intros b. rewrite !in_map_iff. split; intros (S & <- & HS).
  - destruct (D1 S HS) as [HA Hno]. destruct (O2 S HA Hno) as (S0 & HS0 & Hss).
    exists S0. split; auto. symmetry. apply ssb_c, ssb_spec. auto.
  - destruct (O1 S HS) as [HA Hno]. destruct (D2 S HA Hno) as (S0 & HS0 & Hss).
    exists S0. split; auto. symmetry. apply ssb_c, ssb_spec. auto.
Qed.

(* the full statement for roots that are not both two-child *)
Theorem rf_spec_unrooted :
  (length (rch r1) <> 2 \/ length (rch r2) <> 2) ->
  robinson_foulds O (tree_of t1) (tree_of t2) = Ok (count_only X A1 A2 + count_only X A2 A1, TC t1 r1, TC t2 r2).
Proof.
  intros H. rewrite (rf_unrooted t1 t2 root1 root2 r1 r2 G1 G2 E H). rewrite rf_split_spec. reflexivity.
Qed.

End SpecCount.


(* ================================================================================================ *)
(* J. a consistent, injective renaming of the taxa of both trees leaves the distance unchanged       *)
(* ================================================================================================ *)
Lemma existsb_map {A B} (p : B -> bool) (g : A -> B) l : existsb p (map g l) = existsb (fun x => p (g x)) l.
Proof. induction l as [|x l IH]; simpl; congruence. Qed.

Lemma existsb_ext' {A} (p q : A -> bool) l : (forall x, p x = q x) -> existsb p l = existsb q l.
Proof. intros H. induction l as [|x l IH]; simpl; congruence. Qed.

Lemma dedup_by_map {A B} (g : A -> B) (eqv : A -> A -> bool) (eqv' : B -> B -> bool) l :
  (forall x y, eqv' (g x) (g y) = eqv x y) ->
  dedup_by eqv' (map g l) = map g (dedup_by eqv l).
Proof.
  intros H. induction l as [|x l IH]; simpl; auto.
  rewrite existsb_map. rewrite (existsb_ext' _ (eqv x)) by (intros; apply H).
  destruct (existsb (eqv x) l); simpl; congruence.
Qed.

Section RenameCount.
Variable f : str -> str.
Hypothesis f_inj : forall x y, f x = f y -> x = y.

Lemma ssb_rename X S S' : ssb (map f X) (map f S) (map f S') = ssb X S S'.
Proof. apply eq_true_iff_eq. rewrite !ssb_spec. apply same_split_rename; auto. Qed.

Lemma only_in_rename X A B :
  only_in (map f X) (map (map f) A) (map (map f) B) = map (map f) (only_in X A B).
Proof.
  unfold only_in. rewrite filter_map_comm.
  rewrite (filter_ext _ (fun S => negb (existsb (ssb X S) B))).
  - apply dedup_by_map. intros; apply ssb_rename.
  - intros S. rewrite existsb_map. f_equal. apply existsb_ext'. intros S'. apply ssb_rename.
Qed.

Lemma count_only_rename X A B :
  count_only (map f X) (map (map f) A) (map (map f) B) = count_only X A B.
Proof. unfold count_only. rewrite only_in_rename. apply map_length. Qed.

End RenameCount.

Lemma same_set_transfer {A} (c d : A -> bits) (l1 l2 : list A) :
  (forall x y, d x = d y <-> c x = c y) ->
  (forall b, In b (map c l1) <-> In b (map c l2)) -> (forall b, In b (map d l1) <-> In b (map d l2)).
Proof.
  intros H Hc b. rewrite !in_map_iff. split; intros (x & <- & Hx).
  - assert (Hin : In (c x) (map c l2)) by (apply Hc; apply in_map; auto).
    apply in_map_iff in Hin as (y & E & Hy). exists y. split; auto. apply H. auto.
  - assert (Hin : In (c x) (map c l1)) by (apply Hc; apply in_map; auto).
    apply in_map_iff in Hin as (y & E & Hy). exists y. split; auto. apply H. auto.
Qed.

Section Rename.
Variable f : str -> str.
Hypothesis f_inj : forall x y, f x = f y -> x = y.

(* one renamed tree *)
Section RenOne.
Variables (t t' : arena) (root root' : nat) (r : rtree).
Hypothesis G : Good t root r.
Hypothesis G' : Good t' root' r.
Hypothesis Hlab : forall i, In i (rleaves r) -> lab t' i = f (lab t i).

Lemma ren_names : map (lab t') (rleaves r) = map f (map (lab t) (rleaves r)).
Proof. rewrite map_map. apply map_ext_in. auto. Qed.

Lemma ren_leaf_idx : Permutation (leaf_idx t') (map f (leaf_idx t)).
Proof.
  eapply Permutation_trans; [apply (leaf_idx_perm t' root' r G')|]. rewrite ren_names.
  apply Permutation_map, Permutation_sym, (leaf_idx_perm t root r G).
Qed.

Lemma ren_rsplits : rsplits (lab t') r = map (map f) (rsplits (lab t) r).
Proof. rewrite (rsplits_ext (lab t') (fun i => f (lab t i)) r Hlab). apply rsplits_rename. Qed.

Lemma ren_clade s : In s (subtrees r) -> clade (lab t') s = map f (clade (lab t) s).
Proof.
  intros Hs. unfold clade. rewrite map_map. apply map_ext_in. intros i Hi. apply Hlab.
  eapply subtrees_leaves_incl; eauto.
Qed.

Lemma ren_canon S S' :
  canon (clade_bits (leaf_idx t') (map f S)) = canon (clade_bits (leaf_idx t') (map f S')) <->
  canon (clade_bits (leaf_idx t) S) = canon (clade_bits (leaf_idx t) S').
Proof.
  rewrite (partitions_same_split t root r G), (partitions_same_split t' root' r G'), ren_names.
  apply same_split_rename; auto.
Qed.

Lemma ren_root_bits :
  root_bits t' r = map (fun S => canon (clade_bits (leaf_idx t') (map f S))) (map (clade (lab t)) (rch r)) /\
  root_bits t r = map (fun S => canon (clade_bits (leaf_idx t) S)) (map (clade (lab t)) (rch r)).
Proof.
  unfold root_bits. rewrite !map_map. split; [|reflexivity]. apply map_ext_in. intros s Hs.
  unfold part_of. rewrite ren_clade; auto.
  apply subtrees_cases. right. unfold proper_subtrees. apply in_flat_map. exists s. split; auto. apply subtrees_self.
Qed.

End RenOne.

Variables (t1 t1' t2 t2' : arena) (root1 root1' root2 root2' : nat) (r1 r2 : rtree).
Hypothesis G1 : Good t1 root1 r1.
Hypothesis G1' : Good t1' root1' r1.
Hypothesis G2 : Good t2 root2 r2.
Hypothesis G2' : Good t2' root2' r2.
Hypothesis Hlab1 : forall i, In i (rleaves r1) -> lab t1' i = f (lab t1 i).
Hypothesis Hlab2 : forall i, In i (rleaves r2) -> lab t2' i = f (lab t2 i).

Lemma ren_same_index : leaf_idx t1 = leaf_idx t2 -> leaf_idx t1' = leaf_idx t2'.
Proof.
  intros E. apply SS_perm_unique; auto using leaf_idx_sorted.
  eapply Permutation_trans; [apply (ren_leaf_idx t1 t1' root1 root1' r1 G1 G1' Hlab1)|].
  rewrite E. apply Permutation_sym, (ren_leaf_idx t2 t2' root2 root2' r2 G2 G2' Hlab2).
Qed.

Lemma ren_same_index_inv : leaf_idx t1' = leaf_idx t2' -> leaf_idx t1 = leaf_idx t2.
Proof.
  intros E. apply SS_perm_unique; auto using leaf_idx_sorted.
  pose proof (ren_leaf_idx t1 t1' root1 root1' r1 G1 G1' Hlab1) as P1.
  pose proof (ren_leaf_idx t2 t2' root2 root2' r2 G2 G2' Hlab2) as P2.
  rewrite E in P1.
  assert (P : Permutation (map f (leaf_idx t1)) (map f (leaf_idx t2))).
  { eapply Permutation_trans; [apply Permutation_sym, P1|apply P2]. }
  apply Permutation_map_inv in P as (l3 & E3 & P3).
  assert (E4 : leaf_idx t1 = l3).
  { clear -E3 f_inj. revert l3 E3. induction (leaf_idx t1) as [|x l IH]; intros [|y l3] E3; simpl in *; try discriminate; auto.
    injection E3 as Hxy Hl. f_equal; auto. }
  rewrite E4. apply Permutation_sym, P3.
Qed.

Theorem rf_value_rename :
  leaf_idx t1 = leaf_idx t2 -> rf_value t1' t2' r1 r2 = rf_value t1 t2 r1 r2.
Proof.
  intros E. pose proof (ren_same_index E) as E'.
  assert (Hk : rf_split (part_keys t1' r1) (part_keys t2' r2) = rf_split (part_keys t1 r1) (part_keys t2 r2)).
  { rewrite (rf_split_spec t1' t2' root1' root2' r1 r2 G1' G2' E'), (rf_split_spec t1 t2 root1 root2 r1 r2 G1 G2 E).
    rewrite (ren_names t1 t1' r1 Hlab1), (ren_rsplits t1 t1' r1 Hlab1), (ren_rsplits t2 t2' r2 Hlab2).
    rewrite !count_only_rename by auto. reflexivity. }
  unfold rf_value, rf_corr. rewrite Hk. f_equal.
  replace (same_root_bits (root_bits t1' r1) (root_bits t2' r2))
    with (same_root_bits (root_bits t1 r1) (root_bits t2 r2)); [reflexivity|].
  apply eq_true_iff_eq. rewrite !same_root_bits_spec.
  destruct (ren_root_bits t1 t1' r1 Hlab1) as [-> ->]. destruct (ren_root_bits t2 t2' r2 Hlab2) as [-> ->].
  rewrite <- E, <- E'. split; apply same_set_transfer; intros S S'.
  - apply (ren_canon t1 t1' root1 root1' r1 G1 G1' Hlab1).
  - symmetry. apply (ren_canon t1 t1' root1 root1' r1 G1 G1' Hlab1).
Qed.

(* the outcome of robinson_foulds (value or rejection) is the same before and after the renaming *)
Theorem rf_rename :
  omap_out (fun x => fst (fst x)) (robinson_foulds O (tree_of t1') (tree_of t2')) =
  omap_out (fun x => fst (fst x)) (robinson_foulds O (tree_of t1) (tree_of t2)).
Proof.
  rewrite (rf_unfold t1' t2' root1' root2' r1 r2 G1' G2'), (rf_unfold t1 t2 root1 root2 r1 r2 G1 G2).
  destruct (list_eqb str_eqb (leaf_idx t1) (leaf_idx t2)) eqn:E.
  - apply list_eqb_str_iff in E. rewrite (proj2 (list_eqb_str_iff _ _) (ren_same_index E)). cbn.
    rewrite (rf_value_rename E). reflexivity.
  - replace (list_eqb str_eqb (leaf_idx t1') (leaf_idx t2')) with false; [reflexivity|].
    symmetry. apply not_true_iff_false. intros E'. apply list_eqb_str_iff, ren_same_index_inv in E'.
    rewrite (proj2 (list_eqb_str_iff _ _) E') in E. discriminate.
Qed.

End Rename.


(* ================================================================================================ *)
(* K. a common rescaling of both trees scales the weighted distances                                 *)
(* ================================================================================================ *)
Section Scale.
Variable c : L.
Hypothesis distr_c : forall a b, lmul O (ladd O a b) c = ladd O (lmul O a c) (lmul O b c).

Notation resc := (rescale_node O c).

Lemma nth_error_resc (t : arena) i :
  nth_error (rescale O t c) i = option_map resc (nth_error t i).
Proof. unfold rescale. apply nth_error_map. Qed.

Lemma Rep_resc (t : arena) : forall r p d i, Rep t p d i r -> Rep (rescale O t c) p d i r.
Proof.
  induction r as [j cs IH] using rtree_ind'. intros p d i HR.
  destruct (Rep_inv _ _ _ _ _ HR) as (n & cs' & Heq & Hn & Hdel & Hid & Hp & Hd & HF & He1 & He2).
  injection Heq as -> ->.
  apply Rep_node with (n := resc n); simpl; auto.
  - rewrite nth_error_resc, Hn. reflexivity.
  - eapply Forall2_impl_In; [|eassumption]. simpl. intros a b _ Hb HRb.
    rewrite Forall_forall in IH. eapply IH; eauto.
  - intros ch nc Hc Hnc. rewrite nth_error_resc in Hnc.
    destruct (nth_error t ch) as [nc0|] eqn:E; simpl in Hnc; [|discriminate].
    injection Hnc as <-. simpl. rewrite (edge_get_map (fun e => lmul O e c)). f_equal. eauto.
  - intros ch Hc. rewrite (edge_get_map (fun e => lmul O e c)) in Hc. apply He2.
    destruct (edge_get (nedges n) ch); simpl in *; congruence.
Qed.

Lemma live_resc (t : arena) i : live (rescale O t c) i <-> live t i.
Proof.
  unfold live. split.
  - intros (n & Hn & Hd). rewrite nth_error_resc in Hn.
    destruct (nth_error t i) as [n0|]; simpl in Hn; [|discriminate]. injection Hn as <-. eauto.
  - intros (n & Hn & Hd). exists (resc n). rewrite nth_error_resc, Hn. auto.
Qed.

Lemma lab_resc (t : arena) i : lab (rescale O t c) i = lab t i.
Proof. unfold lab, lname. rewrite nth_error_resc. destruct (nth_error t i); reflexivity. Qed.

Lemma get_leaves_resc (t : arena) : get_leaves (rescale O t c) = get_leaves t.
Proof.
  unfold get_leaves, rescale. induction t as [|n t IH]; simpl; auto.
  change (is_tip (resc n)) with (is_tip n). destruct (negb (ndeleted n) && is_tip n); simpl; congruence.
Qed.

Lemma leaf_idx_resc (t : arena) : leaf_idx (rescale O t c) = leaf_idx t.
Proof. unfold leaf_idx. rewrite get_leaves_resc. f_equal. apply map_ext. apply lab_resc. Qed.

Lemma Good_resc t root r : Good t root r -> Good (rescale O t c) root r.
Proof.
  intros G. constructor.
  - apply Rep_resc, (g_rep _ _ _ G).
  - apply (g_nd _ _ _ G).
  - intros i Hi. apply (g_live _ _ _ G), live_resc, Hi.
  - intros i Hi. pose proof (g_named _ _ _ G i Hi) as H. unfold lname in *. rewrite nth_error_resc.
    destruct (nth_error t i); auto.
  - rewrite (map_ext _ _ (lab_resc t)). apply (g_uniq _ _ _ G).
Qed.

Lemma part_of_resc (t : arena) s : part_of (rescale O t c) s = part_of t s.
Proof. unfold part_of, clade. rewrite leaf_idx_resc, (map_ext _ _ (lab_resc t)). reflexivity. Qed.

Lemma pb_resc (t : arena) r n : pb (rescale O t c) r (resc n) = pb t r n.
Proof. unfold pb. apply part_of_resc. Qed.

Lemma cands_resc (t : arena) : cands (rescale O t c) = map resc (cands t).
Proof. unfold cands, rescale. rewrite filter_map_comm. reflexivity. Qed.

Definition scale_pe (e : bits * (nat * option L)) : bits * (nat * option L) :=
  (fst e, (fst (snd e), option_map (fun v => lmul O v c) (snd (snd e)))).
Definition scale_le (e : bits * (nat * L)) : bits * (nat * L) :=
  (fst e, (fst (snd e), lmul O (snd (snd e)) c)).

Lemma pmap_get_scale (m : pmap) k :
  pmap_get (map scale_pe m) k =
  option_map (fun v => (fst v, option_map (fun x => lmul O x c) (snd v))) (pmap_get m k).
Proof.
  induction m as [|[k0 [d ol]] m IH]; [reflexivity|]. simpl. destruct (bits_eqb k k0); [reflexivity|]. apply IH.
Qed.

Lemma pmap_set_scale (m : pmap) k d ol :
  pmap_set (map scale_pe m) k (d, option_map (fun x => lmul O x c) ol) = map scale_pe (pmap_set m k (d, ol)).
Proof.
  induction m as [|[k0 [d0 ol0]] m IH]; [reflexivity|]. simpl. destruct (bits_eqb k k0); [reflexivity|].
  simpl. f_equal. apply IH.
Qed.

Lemma m_next_scale (t : arena) r (m : pmap) n :
  m_next (rescale O t c) r O (map scale_pe m) (resc n) = map scale_pe (m_next t r O m n).
Proof.
  unfold m_next. rewrite pb_resc. destruct (trivial_part (pb t r n)); [reflexivity|].
  rewrite pmap_get_scale. change (ndepth (resc n)) with (ndepth n).
  change (npedge (resc n)) with (option_map (fun e => lmul O e c) (npedge n)).
  rewrite <- pmap_set_scale. f_equal. f_equal.
  destruct (npedge n) as [nl|], (pmap_get m (pb t r n)) as [[d [ol|]]|]; simpl; auto.
  rewrite distr_c. reflexivity.
Qed.

Lemma pm_resc (t : arena) r : pm (rescale O t c) r = map scale_pe (pm t r).
Proof.
  unfold pm. rewrite cands_resc.
  change (@nil (bits * (nat * option L))) with (map scale_pe []) at 1.
  generalize (@nil (bits * (nat * option L))) as m. induction (cands t) as [|n l IH]; intros m; [reflexivity|].
  cbn [map fold_left]. rewrite m_next_scale. apply IH.
Qed.

Lemma all_lens_scale (m : pmap) : all_lens (map scale_pe m) = all_lens m.
Proof.
  unfold all_lens. induction m as [|[k [d [l|]]] m IH]; simpl; auto.
Qed.

Lemma lens_of_scale (m : pmap) : lens_of (map scale_pe m) = map scale_le (lens_of m).
Proof.
  unfold lens_of. induction m as [|[k [d [l|]]] m IH]; simpl; auto. f_equal. apply IH.
Qed.

Lemma plen_get_scale (po : plist) k :
  plen_get (map scale_le po) k = option_map (fun v => (fst v, lmul O (snd v) c)) (plen_get po k).
Proof.
  induction po as [|[k0 [d l]] po IH]; [reflexivity|]. simpl. destruct (bits_eqb k k0); [reflexivity|]. apply IH.
Qed.

Section ScaleSum.
Variables (sq : bool) (c' : L).
Hypothesis distr_c' : forall a b, lmul O (ladd O a b) c' = ladd O (lmul O a c') (lmul O b c').
Hypothesis zero_c' : lmul O (l0 O) c' = l0 O.
Hypothesis wf_scale : forall a b, wf_ sq (lsub O (lmul O a c) (lmul O b c)) = lmul O (wf_ sq (lsub O a b)) c'.
Hypothesis wg_scale : forall a, wg_ sq (lmul O a c) = lmul O (wg_ sq a) c'.

Lemma fold_ladd_scale' (l : list L) : forall a,
  fold_left (ladd O) (map (fun x => lmul O x c') l) (lmul O a c') = lmul O (fold_left (ladd O) l a) c'.
Proof. induction l as [|x l IH]; intros a; simpl; auto. rewrite <- distr_c'. apply IH. Qed.

Theorem wrf_sum_scale (ps po : plist) :
  wrf_sum O sq (map scale_le ps) (map scale_le po) = lmul O (wrf_sum O sq ps po) c'.
Proof.
  rewrite !wrf_sum_terms. rewrite <- fold_ladd_scale', zero_c'. f_equal.
  rewrite map_app. f_equal.
  - rewrite !map_map. apply map_ext. intros [k [d a]]. unfold term1. cbn [scale_le fst snd len_e].
    rewrite plen_get_scale. destruct (plen_get po k) as [[d' lo]|]; cbn [option_map fst snd]; auto.
  - rewrite filter_map_comm, !map_map.
    rewrite (filter_ext (fun x => negb (is_some (plen_get (map scale_le ps) (fst (scale_le x)))))
                        (fun x => negb (is_some (plen_get ps (fst x))))).
    + apply map_ext. intros [k [d a]]. cbn [scale_le fst snd len_e]. apply wg_scale.
    + intros [k [d a]]. cbn [scale_le fst]. rewrite plen_get_scale. destruct (plen_get ps k); reflexivity.
Qed.

(* weighted RF / KF radicand of the two rescaled trees = the original value times c' (c' = c for the
   weighted RF with c >= 0, c' = c * c for the KF radicand); failures are the same *)
Theorem wrf_scale t1 t2 root1 root2 r1 r2 :
  Good t1 root1 r1 -> Good t2 root2 r2 ->
  omap_out (fun x => fst (fst x)) (weighted_rf O sq (tree_of (rescale O t1 c)) (tree_of (rescale O t2 c))) =
  omap_out (fun x => lmul O (fst (fst x)) c') (weighted_rf O sq (tree_of t1) (tree_of t2)).
Proof.
  intros G1 G2.
  rewrite (wrf_unfold sq _ _ root1 root2 r1 r2 (Good_resc _ _ _ G1) (Good_resc _ _ _ G2)).
  rewrite (wrf_unfold sq t1 t2 root1 root2 r1 r2 G1 G2).
  rewrite !pm_resc, !all_lens_scale, !lens_of_scale.
  destruct (all_lens (pm t1 r1) && all_lens (pm t2 r2)); [|reflexivity].
  cbn. rewrite wrf_sum_scale. reflexivity.
Qed.

End ScaleSum.

(* RF itself ignores the lengths *)
Theorem rf_scale t1 t2 root1 root2 r1 r2 :
  Good t1 root1 r1 -> Good t2 root2 r2 ->
  omap_out (fun x => fst (fst x)) (robinson_foulds O (tree_of (rescale O t1 c)) (tree_of (rescale O t2 c))) =
  omap_out (fun x => fst (fst x)) (robinson_foulds O (tree_of t1) (tree_of t2)).
Proof.
  intros G1 G2.
  rewrite (rf_unfold _ _ root1 root2 r1 r2 (Good_resc _ _ _ G1) (Good_resc _ _ _ G2)).
  rewrite (rf_unfold t1 t2 root1 root2 r1 r2 G1 G2). rewrite !leaf_idx_resc.
  destruct (negb _); [reflexivity|]. cbn. f_equal.
  unfold rf_value, rf_corr, root_bits.
  assert (Hk : forall t r, part_keys (rescale O t c) r = part_keys t r).
  { intros t r. unfold part_keys. rewrite cands_resc, map_map. do 2 f_equal. apply map_ext. intros n. apply pb_resc. }
  rewrite !Hk. rewrite !(map_ext _ _ (part_of_resc _)). reflexivity.
Qed.

End Scale.


(* ================================================================================================ *)
(* L. weighted distances between a tree and a child-reordering of itself                             *)
(* ================================================================================================ *)
(* slot by slot the same node, children listed in another order *)
Definition reord_node (n n' : node) : Prop :=
  nid n = nid n' /\ nname n = nname n' /\ nparent n = nparent n' /\
  Permutation (nchildren n) (nchildren n') /\ npedge n = npedge n' /\ ndeleted n = ndeleted n'.
Definition reord_arena (t t' : arena) : Prop := Forall2 reord_node t t'.

Lemma Forall2_nth_error {A B} (R : A -> B -> Prop) l l' : Forall2 R l l' ->
  forall i, match nth_error l i, nth_error l' i with
            | Some a, Some b => R a b
            | None, None => True
            | _, _ => False
            end.
Proof. induction 1; intros [|i]; simpl; auto. apply IHForall2. Qed.

Lemma map_eq_Forall2 {A B} (g : A -> B) l : forall l', map g l = map g l' -> Forall2 (fun a b => g a = g b) l l'.
Proof.
  induction l as [|a l IH]; intros [|b l'] H; simpl in H; try discriminate; constructor.
  - injection H; auto.
  - apply IH. injection H; auto.
Qed.

Lemma flat_map_perm_pointwise {A B} (f : A -> list B) l l' :
  Forall2 (fun a b => Permutation (f a) (f b)) l l' -> Permutation (flat_map f l) (flat_map f l').
Proof. induction 1; simpl; auto. apply Permutation_app; auto. Qed.

Lemma Forall2_map_eq {A B C} (R : A -> B -> Prop) (f : A -> C) (g : B -> C) l l' :
  Forall2 R l l' -> (forall a b, R a b -> f a = g b) -> map f l = map g l'.
Proof. intros HF H. induction HF; simpl; auto. f_equal; auto. Qed.

Lemma is_tip_perm (n n' : node) : Permutation (nchildren n) (nchildren n') -> is_tip n = is_tip n'.
Proof.
  unfold is_tip. intros H. destruct (nchildren n), (nchildren n'); auto.
  - apply Permutation_nil in H. discriminate.
  - apply Permutation_sym, Permutation_nil in H. discriminate.
Qed.

Section Reorder.
Variables (t t' : arena) (root root' : nat) (r r' : rtree).
Hypothesis G : Good t root r.
Hypothesis G' : Good t' root' r'.
Hypothesis HRe : reord_arena t t'.

Lemma reord_slot i n n' : nth_error t i = Some n -> nth_error t' i = Some n' -> reord_node n n'.
Proof. intros H1 H2. pose proof (Forall2_nth_error _ _ _ HRe i) as H. rewrite H1, H2 in H. exact H. Qed.

Lemma reord_lab i : lab t' i = lab t i.
Proof.
  unfold lab, lname. pose proof (Forall2_nth_error _ _ _ HRe i) as H.
  destruct (nth_error t i) as [n|], (nth_error t' i) as [n'|]; try tauto.
  destruct H as (_ & -> & _). reflexivity.
Qed.

Lemma reord_get_leaves : get_leaves t' = get_leaves t.
Proof.
  unfold get_leaves. symmetry.
  apply (Forall2_map_eq reord_node); [|intros a b H; apply H].
  apply Forall2_filter; auto. intros a b (_ & _ & _ & Hch & _ & Hdel).
  rewrite Hdel, (is_tip_perm a b Hch). reflexivity.
Qed.

Lemma reord_leaf_idx : leaf_idx t' = leaf_idx t.
Proof. unfold leaf_idx. rewrite reord_get_leaves. f_equal. apply map_ext. apply reord_lab. Qed.

Lemma reord_cand n n' : reord_node n n' -> cand n = cand n'.
Proof.
  intros (_ & _ & Hp & Hch & _ & Hdel). unfold cand, is_root. rewrite Hdel, Hp, (is_tip_perm n n' Hch). reflexivity.
Qed.

Lemma reord_cands : Forall2 reord_node (cands t) (cands t').
Proof. unfold cands. apply Forall2_filter; auto. apply reord_cand. Qed.

(* the subtrees hanging at the same id hold the same leaves *)
Lemma reord_leaves : forall s s' p d p' d' i,
  Rep t p d i s -> Rep t' p' d' i s' -> Permutation (rleaves s) (rleaves s').
Proof.
  induction s as [j cs IH] using rtree_ind'. intros s' p d p' d' i HR HR'.
  destruct (Rep_inv _ _ _ _ _ HR) as (n & cs0 & Heq & Hn & _ & _ & _ & _ & HF & _).
  injection Heq as -> <-.
  destruct (Rep_inv _ _ _ _ _ HR') as (n' & cs' & -> & Hn' & _ & _ & _ & _ & HF' & _).
  destruct (reord_slot i n n' Hn Hn') as (_ & _ & _ & Hch & _).
  rewrite (Forall2_Rep_rid _ _ _ _ _ HF), (Forall2_Rep_rid _ _ _ _ _ HF') in Hch.
  destruct cs as [|c cs].
  - apply Permutation_nil in Hch. destruct cs'; [reflexivity|discriminate].
  - destruct cs' as [|c' cs']; [apply Permutation_sym, Permutation_nil in Hch; discriminate|].
    rewrite !rleaves_cons.
    apply Permutation_map_inv in Hch as (cs2 & E2 & P2).
    eapply Permutation_trans; [|apply Permutation_flat_map, Permutation_sym, P2].
    apply flat_map_perm_pointwise.
    eapply Forall2_impl_In; [|apply (map_eq_Forall2 rid _ _ E2)].
    intros a b Ha Hb Hab. cbv beta in Hab.
    rewrite Forall_forall in IH.
    destruct (Forall2_In_r _ _ _ _ HF Ha) as (k & _ & HRa).
    assert (Hb' : In b (c' :: cs')) by (eapply Permutation_in; [apply Permutation_sym, P2|exact Hb]).
    destruct (Forall2_In_r _ _ _ _ HF' Hb') as (k' & _ & HRb).
    pose proof (Rep_rid _ _ _ _ _ HRa) as Ek. pose proof (Rep_rid _ _ _ _ _ HRb) as Ek'.
    rewrite <- Ek in HRa. rewrite <- Ek', <- Hab in HRb.
    eapply (IH a Ha); eauto.
Qed.

Lemma reord_pb n n' : In n t -> In n' t' -> reord_node n n' -> cand n = true -> pb t' r' n' = pb t r n.
Proof.
  intros Hn Hn' Hre Hc. pose proof Hre as (Hid & _).
  assert (Hc' : cand n' = true) by (rewrite <- (reord_cand n n' Hre); auto).
  destruct (cand_sub t root r G n Hn Hc) as (s & Hs & _ & Es).
  destruct (cand_sub t' root' r' G' n' Hn' Hc') as (s' & Hs' & _ & Es').
  assert (Hss : In s (subtrees r)) by (apply subtrees_cases; auto).
  assert (Hss' : In s' (subtrees r')) by (apply subtrees_cases; auto).
  unfold pb. rewrite <- Es, <- Es', (sub_at_spec t root r G s Hss), (sub_at_spec t' root' r' G' s' Hss').
  destruct (Rep_subtree_any t root r G s Hss) as (p & d & HR).
  destruct (Rep_subtree_any t' root' r' G' s' Hss') as (p' & d' & HR').
  assert (E : rid s' = rid s) by congruence. rewrite E in HR'.
  pose proof (reord_leaves s s' _ _ _ _ _ HR HR') as HP.
  unfold part_of. rewrite reord_leaf_idx. f_equal. apply clade_bits_eq_iff. intros x _.
  unfold clade. rewrite (map_ext _ _ reord_lab). split; apply Permutation_in; auto using Permutation_map, Permutation_sym.
Qed.

Lemma reord_cands_pb :
  Forall2 (fun n n' => pb t r n = pb t' r' n' /\ npedge n = npedge n') (cands t) (cands t').
Proof.
  eapply Forall2_impl_In; [|apply reord_cands]. intros n n' Hn Hn' Hre. cbv beta.
  apply filter_In in Hn as [Hn Hc]. apply filter_In in Hn' as [Hn' _].
  split; [symmetry; apply reord_pb; auto|]. destruct Hre as (_ & _ & _ & _ & H & _). exact H.
Qed.

Lemma reord_part_keys : part_keys t' r' = part_keys t r.
Proof.
  unfold part_keys. do 2 f_equal. symmetry.
  apply (Forall2_map_eq _ _ _ _ _ reord_cands_pb). intros a b [H _]. exact H.
Qed.

Lemma reord_inducing b : map (@npedge L) (inducing t' r' b) = map (@npedge L) (inducing t r b).
Proof.
  unfold inducing. symmetry.
  apply (Forall2_map_eq (fun n n' => pb t r n = pb t' r' n' /\ npedge n = npedge n')); [|intros x y [_ H]; exact H].
  apply Forall2_filter; [apply reord_cands_pb|]. intros x y [H _]. rewrite H. reflexivity.
Qed.

Theorem reord_split_len b : split_len t' r' b = split_len t r b.
Proof. rewrite !split_len_sum, reord_inducing. reflexivity. Qed.

Lemma reord_lengths_present : lengths_present t r -> lengths_present t' r'.
Proof.
  intros HP. refine (proj1 (all_lens_iff t' root' r' G') _). refine (proj2 (all_lens_spec t' root' r' G') _).
  intros b Hb. rewrite reord_split_len. rewrite reord_part_keys in Hb.
  refine (proj1 (all_lens_spec t root r G) _ b Hb). exact (proj2 (all_lens_iff t root r G) HP).
Qed.

(* RF: zero (no lengths involved; stated here for the arena-level notion of reordering) *)
Theorem rf_reorder_arena : robinson_foulds O (tree_of t) (tree_of t') = Ok (0, TC t r, TC t' r').
Proof.
  apply (rf_same_sets t t' root root' r r'); auto.
  - symmetry. apply reord_leaf_idx.
  - intros b. rewrite reord_part_keys. tauto.
Qed.

(* weighted RF and the KF radicand: every term is f (l - l) *)
Theorem wrf_reorder_arena sq :
  lengths_present t r ->
  (forall a, wf_ sq (lsub O a a) = l0 O) -> ladd O (l0 O) (l0 O) = l0 O ->
  weighted_rf O sq (tree_of t) (tree_of t') = Ok (l0 O, TC t r, TC t' r').
Proof.
  intros HP Hz H0. pose proof (reord_lengths_present HP) as HP'.
  destruct (wrf_refines t t' root root' r r' G G' HP HP' sq) as (-> & _). do 2 f_equal. f_equal.
  pose proof (lmap_NoDup t root r G HP) as N1. pose proof (lmap_NoDup t' root' r' G' HP') as N2.
  rewrite wrf_sum_keys by auto. rewrite (ukeys_lmap t t' root root' r r' G G' HP HP').
  unfold union_keys. rewrite reord_part_keys.
  rewrite (filter_all_false _ (part_keys t r)), app_nil_r
    by (intros k Hk; apply negb_false_iff, mem_bits_In; auto).
  assert (Hall : forall k, In k (part_keys t r) -> kterm sq (lmap t r) (lmap t' r') k = l0 O).
  { intros k Hk. unfold kterm, lmap.
    rewrite (gpwl_entry t r k (all_lens_present t root r G HP)), (gpwl_entry t' r' k (all_lens_present t' root' r' G' HP')).
    rewrite reord_split_len.
    assert (Hsl : split_len t r k <> None).
    { exact (proj1 (all_lens_spec t root r G) (all_lens_present t root r G HP) k Hk). }
    assert (Hd : forall tt rr, split_depth tt rr k = None -> split_len tt rr k = None).
    { intros tt rr. unfold split_depth, split_len. destruct (pmap_get (pm tt rr) k) as [[d ol]|]; [discriminate|auto]. }
    destruct (split_len t r k) as [l|] eqn:El; [|congruence].
    destruct (split_depth t r k) as [d|] eqn:Ed; [|apply Hd in Ed; congruence].
    destruct (split_depth t' r' k) as [d'|] eqn:Ed'; [apply Hz|].
    apply Hd in Ed'. rewrite reord_split_len in Ed'. congruence. }
  induction (part_keys t r) as [|k ks IH]; [reflexivity|].
  cbn [map fold_left]. rewrite Hall by (simpl; auto). rewrite H0. apply IH. intros; apply Hall; simpl; auto.
Qed.

End Reorder.


(* ================================================================================================ *)
(* N. the inducing nodes of a split, at the level of the rose tree                                   *)
(* ================================================================================================ *)
Section InducingSpec.
Variables (t : arena) (root : nat) (r : rtree).
Hypothesis G : Good t root r.

Lemma cand_live n : In n t -> cand n = true -> exists i, nth_error t i = Some n /\ nid n = i.
Proof.
  intros Hn Hc. apply In_nth_error in Hn as (i & Hi). exists i. split; auto.
  apply (good_nid t root r G); auto. exists n. split; auto.
  unfold cand in Hc. destruct (ndeleted n); [discriminate|reflexivity].
Qed.

(* the nodes whose lengths are summed for b are exactly the slots of the split nodes (Splits.split_nodes:
   non-root internal nodes with at least two leaves on either side) whose clade gives b *)
Theorem inducing_spec b n :
  In n (inducing t r b) <->
  exists s, In s (split_nodes r) /\ nth_error t (rid s) = Some n /\ part_of t s = b.
Proof.
  rewrite inducing_In. split.
  - intros (Hn & Hc & Hb & Ht). destruct (cand_sub t root r G n Hn Hc) as (s & Hs & Hi & Es).
    assert (Hss : In s (subtrees r)) by (apply subtrees_cases; auto).
    assert (Hp : pb t r n = part_of t s) by (unfold pb; rewrite <- Es, (sub_at_spec t root r G s Hss); reflexivity).
    exists s. split; [|split].
    + apply in_split_nodes. split; auto. split; auto. apply (trivial_part_of t root r G s Hss). congruence.
    + destruct (cand_live n Hn Hc) as (i & Hi' & Ei). congruence.
    + congruence.
  - intros (s & Hs & Hn & Hb). apply in_split_nodes in Hs as (Hs & Hi & H1 & H2).
    assert (Hss : In s (subtrees r)) by (apply subtrees_cases; auto).
    destruct (sub_cand t root r G s Hs Hi) as (n' & Hn' & Hc' & En').
    destruct (cand_live n' Hn' Hc') as (i & Hi' & Ei).
    assert (n' = n) by congruence. subst n'.
    assert (Hp : pb t r n = part_of t s) by (unfold pb; rewrite En', (sub_at_spec t root r G s Hss); reflexivity).
    repeat split; auto; try congruence.
    rewrite <- Hb. apply (trivial_part_of t root r G s Hss). auto.
Qed.

(* a unary node and its only child induce the same split: every member of a unary chain contributes *)
Lemma unary_same_split s c : rch s = [c] -> part_of t s = part_of t c.
Proof.
  intros H. unfold part_of, clade. destruct s as [i cs]. simpl in H. subst cs.
  rewrite rleaves_cons. simpl. rewrite app_nil_r. reflexivity.
Qed.

(* a two-child root: the slots of both children are inducing nodes of the one root split *)
Theorem root2_inducing a b na nb :
  rch r = [a; b] -> In a (split_nodes r) -> In b (split_nodes r) ->
  nth_error t (rid a) = Some na -> nth_error t (rid b) = Some nb ->
  In na (inducing t r (part_of t a)) /\ In nb (inducing t r (part_of t a)).
Proof.
  intros Hch Ha Hb Hna Hnb. split; apply inducing_spec.
  - exists a. auto.
  - exists b. repeat split; auto. symmetry. apply (root2_same_split t root r G a b Hch).
Qed.

End InducingSpec.

End RFArena.

(* ================================================================================================ *)
(* M. concrete instances: the hypotheses are satisfiable and the formulas give the computed values   *)
(* ================================================================================================ *)
Module RFExample.
Import ZArith.
Definition OZ : LenOps Z :=
  Build_LenOps Z 0%Z 1%Z Z.add Z.sub Z.mul Z.div Z.abs Z.ltb Z.eqb Z.of_nat 1000000%Z.

Definition mkz (i : nat) (nm : option str) (p : option nat) (ch : list nat) (pe : option nat)
               (es : list (nat * nat)) (d : nat) : @node Z :=
  mkNode i nm p ch (option_map Z.of_nat pe) None (map (fun kv => (fst kv, Z.of_nat (snd kv))) es) d false.
Definition A : str := [65%N]. Definition B : str := [66%N]. Definition C : str := [67%N].
Definition D : str := [68%N]. Definition E : str := [69%N].

(* ((A:1,B:2):3,(C:4,(D:5,E:6):7):8); *)
Definition t1 : @arena Z :=
  [ mkz 0 None None [1;4] None [(1,3);(4,8)] 0;
    mkz 1 None (Some 0) [2;3] (Some 3) [(2,1);(3,2)] 1;
    mkz 2 (Some A) (Some 1) [] (Some 1) [] 2; mkz 3 (Some B) (Some 1) [] (Some 2) [] 2;
    mkz 4 None (Some 0) [5;6] (Some 8) [(5,4);(6,7)] 1;
    mkz 5 (Some C) (Some 4) [] (Some 4) [] 2;
    mkz 6 None (Some 4) [7;8] (Some 7) [(7,5);(8,6)] 2;
    mkz 7 (Some D) (Some 6) [] (Some 5) [] 3; mkz 8 (Some E) (Some 6) [] (Some 6) [] 3 ].
Definition r1 : rtree := RT 0 [RT 1 [RT 2 []; RT 3 []]; RT 4 [RT 5 []; RT 6 [RT 7 []; RT 8 []]]].

(* ((A:1,C:1):2,B:1,(D:1,E:1):3); *)
Definition t2 : @arena Z :=
  [ mkz 0 None None [1;4;5] None [(1,2);(4,1);(5,3)] 0;
    mkz 1 None (Some 0) [2;3] (Some 2) [(2,1);(3,1)] 1;
    mkz 2 (Some A) (Some 1) [] (Some 1) [] 2; mkz 3 (Some C) (Some 1) [] (Some 1) [] 2;
    mkz 4 (Some B) (Some 0) [] (Some 1) [] 1;
    mkz 5 None (Some 0) [6;7] (Some 3) [(6,1);(7,1)] 1;
    mkz 6 (Some D) (Some 5) [] (Some 1) [] 2; mkz 7 (Some E) (Some 5) [] (Some 1) [] 2 ].
Definition r2 : rtree := RT 0 [RT 1 [RT 2 []; RT 3 []]; RT 4 []; RT 5 [RT 6 []; RT 7 []]].

(* ((A:1,C:1):2,(B:1,(D:1,E:1):3):1); *)
Definition t3 : @arena Z :=
  [ mkz 0 None None [1;4] None [(1,2);(4,1)] 0;
    mkz 1 None (Some 0) [2;3] (Some 2) [(2,1);(3,1)] 1;
    mkz 2 (Some A) (Some 1) [] (Some 1) [] 2; mkz 3 (Some C) (Some 1) [] (Some 1) [] 2;
    mkz 4 None (Some 0) [5;6] (Some 1) [(5,1);(6,3)] 1;
    mkz 5 (Some B) (Some 4) [] (Some 1) [] 2;
    mkz 6 None (Some 4) [7;8] (Some 3) [(7,1);(8,1)] 2;
    mkz 7 (Some D) (Some 6) [] (Some 1) [] 3; mkz 8 (Some E) (Some 6) [] (Some 1) [] 3 ].
Definition r3 : rtree := RT 0 [RT 1 [RT 2 []; RT 3 []]; RT 4 [RT 5 []; RT 6 [RT 7 []; RT 8 []]]].

Ltac edge_back :=
  let c := fresh "c" in let Hc := fresh "Hc" in
  intros c Hc; do 9 (destruct c as [|c]; [simpl in Hc |- *; solve [auto 12 | congruence]|]);
  simpl in Hc; congruence.

Ltac rep_tac :=
  repeat (econstructor; try reflexivity;
          try (intros c nc Hin Hn; simpl in Hin; intuition; subst c; simpl in Hn; injection Hn as <-; reflexivity);
          try edge_back).

Tactic Notation "good_tac" integer(n) :=
  constructor;
  [ rep_tac
  | unfold ids; simpl; repeat constructor; simpl; intuition; try discriminate
  | intros i (nn & Hn & Hd); unfold ids; simpl; do n (destruct i as [|i]; [tauto|]); destruct i; discriminate
  | simpl; intros i Hi; intuition; subst; discriminate
  | simpl; repeat constructor; simpl; intuition; try discriminate ].

Lemma good1 : Good t1 0 r1.
Proof. unfold r1. good_tac 9. Qed.
Lemma good2 : Good t2 0 r2.
Proof. unfold r2. good_tac 8. Qed.
Lemma good3 : Good t3 0 r3.
Proof. unfold r3. good_tac 9. Qed.

Definition val {X Y Z'} (o : outcome (X * Y * Z')) : option X := match o with Ok (v, _, _) => Some v | _ => None end.

(* the model's results ... *)
Example rf_12 : val (robinson_foulds OZ (tree_of t1) (tree_of t2)) = Some 2.
Proof. vm_compute. reflexivity. Qed.
Example rf_13 : val (robinson_foulds OZ (tree_of t1) (tree_of t3)) = Some 4.
Proof. vm_compute. reflexivity. Qed.
Example wrf_12 : val (weighted_rf OZ false (tree_of t1) (tree_of t2)) = Some 17%Z.
Proof. vm_compute. reflexivity. Qed.
Example kf_12 : val (weighted_rf OZ true (tree_of t1) (tree_of t2)) = Some 141%Z.
Proof. vm_compute. reflexivity. Qed.

(* ... and the right-hand sides of the theorems *)
Example rf_value_12 : rf_value t1 t2 r1 r2 = 2 /\ rf_split (part_keys t1 r1) (part_keys t2 r2) = 2.
Proof. vm_compute. auto. Qed.
Example rf_value_13 : rf_value t1 t3 r1 r3 = 4 /\ rf_split (part_keys t1 r1) (part_keys t3 r3) = 2.
Proof. vm_compute. auto. Qed.
Example count_12 :
  count_only (map (lab t1) (rleaves r1)) (rsplits (lab t1) r1) (rsplits (lab t2) r2) = 1 /\
  count_only (map (lab t1) (rleaves r1)) (rsplits (lab t2) r2) (rsplits (lab t1) r1) = 1.
Proof. vm_compute. auto. Qed.
(* AB|CDE is induced by both branches of the two-child root: 3 + 8 *)
Example slen_1 : map (fun k => slen OZ t1 r1 k) (part_keys t1 r1) = [11; 7]%Z.
Proof. vm_compute. reflexivity. Qed.
Example sum_12 :
  fold_left Z.add (map (fun k => Z.abs (slen OZ t1 r1 k - slen OZ t2 r2 k)) (union_keys t1 t2 r1 r2)) 0%Z = 17%Z.
Proof. vm_compute. reflexivity. Qed.

(* the theorems instantiated *)
Example rf_12_thm : robinson_foulds OZ (tree_of t1) (tree_of t2) = Ok (2, TC OZ t1 r1, TC OZ t2 r2).
Proof.
  rewrite (rf_spec_unrooted OZ t1 t2 0 0 r1 r2 good1 good2); [|vm_compute; reflexivity|right; vm_compute; discriminate].
  destruct count_12 as [-> ->]. reflexivity.
Qed.

End RFExample.

(* ================================================================================================ *)
(* assumptions of the main results                                                                  *)
(* ================================================================================================ *)
Print Assumptions rf_unfold.
Print Assumptions rf_refines.
Print Assumptions rf_unrooted.
Print Assumptions rf_sym.
Print Assumptions rf_leafset_mismatch.
Print Assumptions rf_self.
Print Assumptions rf_reorder.
Print Assumptions rf_unary.
Print Assumptions rf_reroot.
Print Assumptions rf_norm_value.
Print Assumptions rf_norm_unit_interval.
Print Assumptions compare_topologies_unfold.
Print Assumptions rf_report.
Print Assumptions report_agrees.
Print Assumptions report_weighted.
Print Assumptions pm_get.
Print Assumptions split_len_sum.
Print Assumptions split_len_all_present.
Print Assumptions split_len_missing.
Print Assumptions all_lens_iff.
Print Assumptions lmap_entry_sum.
Print Assumptions wrf_sum_terms.
Print Assumptions wrf_sum_keys.
Print Assumptions wrf_sum_union.
Print Assumptions wrf_sum_sym.
Print Assumptions wrf_refines.
Print Assumptions wrf_refines_sum.
Print Assumptions wrf_value.
Print Assumptions kf_refines.
Print Assumptions wrf_sym.
Print Assumptions wrf_missing.
Print Assumptions wrf_self.
Print Assumptions RFExample.rf_12_thm.
Print Assumptions rf_same_sets.
Print Assumptions rf_multifurcating_roots.
Print Assumptions same_root_two.
Print Assumptions rf_rooted.
Print Assumptions diff_count_splits.
Print Assumptions rf_split_spec.
Print Assumptions only_in_spec.
Print Assumptions only_in_unique.
Print Assumptions rf_spec_unrooted.
Print Assumptions rf_value_rename.
Print Assumptions rf_rename.
Print Assumptions rf_scale.
Print Assumptions wrf_sum_scale.
Print Assumptions wrf_scale.
Print Assumptions rf_reorder_arena.
Print Assumptions wrf_reorder_arena.
Print Assumptions wrf_sum_any_order.
Print Assumptions wrf_sym_missing.
Print Assumptions wrf_total.
Print Assumptions gpwl_fresh.
Print Assumptions gpwl_missing.
Print Assumptions gpwl_entry.
Print Assumptions inducing_spec.
Print Assumptions root2_inducing.
Print Assumptions unary_same_split.
Print Assumptions split_depth_last.
