(* Effects.v — property C11: what the editing operations do to the represented tree.
   prune removes exactly one subtree, merge_children regroups exactly two siblings, rescale multiplies
   every length, compress / resolve / ladderize establish their postconditions and keep the leaves. *)
From Coq Require Import List Arith Lia Bool Permutation Sorted.
From PT Require Import Arena Spec Queries RepLib WFOps.
From PT Require Traversals.
From PT Require Import Paths.
Import ListNotations.

Local Arguments ids : simpl never.

(* ================================================================================================ *)
(* 0. rose trees: subtrees and local rewriting                                                       *)
(* ================================================================================================ *)
Fixpoint rsub_first (x : nat) (cs : list rtree) : option rtree :=
  match cs with
  | [] => None
  | c :: rest => match rsub x c with Some s => Some s | None => rsub_first x rest end
  end.

Lemma rsub_RT x i cs :
  rsub x (RT i cs) = if Nat.eqb i x then Some (RT i cs) else rsub_first x cs.
Proof.
  simpl. destruct (Nat.eqb i x); auto.
  induction cs as [|c cs IH]; simpl; auto.
  destruct (rsub x c); simpl; auto.
Qed.

Lemma rsub_notin x : forall r, ~ In x (ids r) -> rsub x r = None.
Proof.
  induction r as [i cs IH] using rtree_ind'. intros Hn. rewrite rsub_RT.
  destruct (Nat.eqb_spec i x) as [->|Hne]; [exfalso; apply Hn; apply in_ids_RT; auto|].
  assert (Hn' : ~ In x (flat_map ids cs)) by (intros H; apply Hn; apply in_ids_RT; auto).
  clear Hn. induction IH as [|c cs Hc _ IHcs]; simpl; auto.
  rewrite Hc, IHcs; auto; intros H; apply Hn'; simpl; apply in_or_app; auto.
Qed.

Lemma rsub_first_Some x cs s : rsub_first x cs = Some s -> exists c, In c cs /\ rsub x c = Some s.
Proof.
  induction cs as [|c cs IH]; simpl; [discriminate|].
  destruct (rsub x c) eqn:E.
  - intros [= <-]. exists c; auto.
  - intros H. destruct (IH H) as (c' & ? & ?). exists c'; auto.
Qed.

Lemma rsub_spec x : forall r s, rsub x r = Some s ->
  rid s = x /\ incl (ids s) (ids r) /\ (rid r <> x -> incl (ids s) (flat_map ids (rch r))).
Proof.
  induction r as [i cs IH] using rtree_ind'. intros s. rewrite rsub_RT.
  destruct (Nat.eqb_spec i x) as [->|Hne].
  - intros [= <-]. simpl. splits; auto using incl_refl. congruence.
  - intros H. apply rsub_first_Some in H as (c & Hc & Hs). rewrite Forall_forall in IH.
    destruct (IH c Hc s Hs) as (H1 & H2 & _).
    assert (H3 : incl (ids s) (flat_map ids cs)).
    { intros j Hj. apply in_flat_map. exists c. auto. }
    splits; auto. intros j Hj. apply in_ids_RT. auto.
Qed.

Lemma rsub_rid x r s : rsub x r = Some s -> rid s = x.
Proof. intros H. apply rsub_spec in H. tauto. Qed.
Lemma rsub_incl x r s : rsub x r = Some s -> incl (ids s) (ids r).
Proof. intros H. apply rsub_spec in H. tauto. Qed.

Lemma rsub_self r : rsub (rid r) r = Some r.
Proof. destruct r as [i cs]. rewrite rsub_RT. simpl. rewrite Nat.eqb_refl. auto. Qed.

Lemma rsub_in x : forall r, In x (ids r) -> exists s, rsub x r = Some s.
Proof.
  induction r as [i cs IH] using rtree_ind'. intros Hx. rewrite rsub_RT.
  destruct (Nat.eqb_spec i x); [eauto|]. apply in_ids_RT in Hx as [?|Hx]; [congruence|].
  apply in_flat_map in Hx as (c & Hc & Hxc). rewrite Forall_forall in IH.
  destruct (IH c Hc Hxc) as (s & Hs).
  clear -Hc Hs. induction cs; simpl in *; [tauto|]. destruct Hc as [->|Hc].
  - rewrite Hs. eauto.
  - destruct (rsub x a); eauto.
Qed.

Lemma rsub_first_in x cs c :
  NoDup (flat_map ids cs) -> In c cs -> In x (ids c) -> rsub_first x cs = rsub x c.
Proof.
  induction cs as [|a cs IH]; simpl; [tauto|]. intros Hnd Hc Hx.
  apply NoDup_app_iff in Hnd as (H1 & H2 & H3). destruct Hc as [->|Hc].
  - destruct (rsub_in x c Hx) as (s & ->). auto.
  - rewrite (rsub_notin x a); auto. intros Hin. eapply H3; eauto. apply in_flat_map; eauto.
Qed.

Lemma rsub_NoDup x : forall r s, NoDup (ids r) -> rsub x r = Some s -> NoDup (ids s).
Proof.
  induction r as [i cs IH] using rtree_ind'. intros s Hnd. rewrite rsub_RT.
  destruct (Nat.eqb_spec i x); [intros [= <-]; auto|].
  intros H. apply rsub_first_Some in H as (c & Hc & Hs). rewrite Forall_forall in IH.
  eapply IH; eauto. rewrite ids_RT in Hnd. apply NoDup_cons_iff in Hnd as [_ Hnd].
  eapply NoDup_flat_map_in; eauto.
Qed.

Lemma rsub_trans P x : forall r sP sx,
  NoDup (ids r) -> rsub P r = Some sP -> rsub x sP = Some sx -> rsub x r = Some sx.
Proof.
  induction r as [i cs IH] using rtree_ind'. intros sP sx Hnd HP Hx.
  rewrite rsub_RT in HP. destruct (Nat.eqb_spec i P) as [->|Hne]; [injection HP as <-; auto|].
  apply rsub_first_Some in HP as (c & Hc & HPc). rewrite Forall_forall in IH.
  rewrite ids_RT in Hnd. apply NoDup_cons_iff in Hnd as [Hi Hnd].
  pose proof (NoDup_flat_map_in _ _ _ Hnd Hc) as Hndc.
  pose proof (IH c Hc _ _ Hndc HPc Hx) as Hxc.
  assert (Hin : In x (ids c)). { apply (rsub_incl _ _ _ Hxc). rewrite <- (rsub_rid _ _ _ Hxc). apply In_rid_ids. }
  rewrite rsub_RT. destruct (Nat.eqb_spec i x) as [->|Hne'].
  - exfalso. apply Hi. apply in_flat_map; eauto.
  - rewrite (rsub_first_in x cs c); auto.
Qed.

(* apply f to the subtree rooted at P *)
Fixpoint rmap_at (P : nat) (f : rtree -> rtree) (r : rtree) {struct r} : rtree :=
  match r with RT i cs => if Nat.eqb i P then f r else RT i (map (rmap_at P f) cs) end.

Lemma map_id_in {A} (g : A -> A) l : (forall x, In x l -> g x = x) -> map g l = l.
Proof. intros H. rewrite <- (map_id l) at 2. apply map_ext_in. auto. Qed.

Lemma rmap_at_notin P f : forall r, ~ In P (ids r) -> rmap_at P f r = r.
Proof.
  induction r as [i cs IH] using rtree_ind'. intros Hn. simpl.
  destruct (Nat.eqb_spec i P) as [->|Hne]; [exfalso; apply Hn; apply in_ids_RT; auto|].
  f_equal. apply map_id_in. intros c Hc. rewrite Forall_forall in IH. apply IH; auto.
  intros Hin. apply Hn. apply in_ids_RT. right. apply in_flat_map; eauto.
Qed.

Lemma rmap_at_split P f i cs l1 c l2 :
  i <> P -> NoDup (flat_map ids cs) -> cs = l1 ++ c :: l2 -> In P (ids c) ->
  rmap_at P f (RT i cs) = RT i (l1 ++ rmap_at P f c :: l2).
Proof.
  intros Hne Hnd -> HP. simpl. destruct (Nat.eqb_spec i P); [congruence|]. f_equal.
  rewrite flat_map_app in Hnd. simpl in Hnd.
  apply NoDup_app_iff in Hnd as (_ & Hnd & Hd1). apply NoDup_app_iff in Hnd as (_ & _ & Hd2).
  rewrite map_app. simpl. f_equal; [|f_equal]; apply map_id_in; intros c' Hc'; apply rmap_at_notin; intros Hin.
  - eapply Hd1; [apply in_flat_map; eauto|]. apply in_or_app; auto.
  - eapply Hd2; eauto. apply in_flat_map; eauto.
Qed.

Lemma rmap_at_const P f : forall r sP,
  NoDup (ids r) -> rsub P r = Some sP -> rmap_at P f r = rmap_at P (fun _ => f sP) r.
Proof.
  induction r as [i cs IH] using rtree_ind'. intros sP Hnd HP.
  rewrite rsub_RT in HP. simpl. destruct (Nat.eqb_spec i P) as [->|Hne]; [injection HP as <-; auto|].
  f_equal. apply map_ext_in. intros c Hc.
  rewrite ids_RT in Hnd. apply NoDup_cons_iff in Hnd as [Hi Hnd].
  destruct (in_dec Nat.eq_dec P (ids c)) as [Hin|Hnin].
  - rewrite Forall_forall in IH. apply IH; auto.
    + eapply NoDup_flat_map_in; eauto.
    + rewrite <- HP. symmetry. apply rsub_first_in; auto.
  - rewrite !rmap_at_notin; auto.
Qed.

(* removing the subtree rooted at x (x is not the root) *)
Fixpoint rdel (x : nat) (r : rtree) {struct r} : rtree :=
  match r with
  | RT i cs => RT i (flat_map (fun c => if Nat.eqb (rid c) x then [] else [rdel x c]) cs)
  end.
Lemma rdel_RT x i cs :
  rdel x (RT i cs) = RT i (map (rdel x) (filter (fun c => negb (Nat.eqb (rid c) x)) cs)).
Proof.
  cbn [rdel]. f_equal. induction cs as [|c cs IH]; simpl; auto.
  destruct (Nat.eqb (rid c) x); simpl; congruence.
Qed.
Definition del_child (x : nat) (s : rtree) : rtree :=
  match s with RT i cs => RT i (filter (fun c => negb (Nat.eqb (rid c) x)) cs) end.

Lemma rdel_notin x : forall r, ~ In x (flat_map ids (rch r)) -> rdel x r = r.
Proof.
  induction r as [i cs IH] using rtree_ind'. rewrite rdel_RT. simpl. intros Hn. f_equal.
  rewrite filter_id.
  - apply map_id_in. intros c Hc. rewrite Forall_forall in IH. apply IH; auto.
    intros Hin. apply Hn. apply in_flat_map. exists c. split; auto.
    destruct c as [j ccs]. apply in_ids_RT. auto.
  - intros c Hc. apply negb_true_iff, Nat.eqb_neq. intros <-. apply Hn.
    apply in_flat_map. exists c. split; auto. apply In_rid_ids.
Qed.

Lemma rdel_rmap x P : forall r csP,
  NoDup (ids r) -> rsub P r = Some (RT P csP) -> In x (map rid csP) ->
  rdel x r = rmap_at P (del_child x) r.
Proof.
  induction r as [i cs IH] using rtree_ind'. intros csP Hnd HP Hx.
  pose proof Hnd as Hnd0. rewrite ids_RT in Hnd. apply NoDup_cons_iff in Hnd as [Hi Hnd].
  rewrite rsub_RT in HP. destruct (Nat.eqb_spec i P) as [->|Hne].
  - injection HP as <-. rewrite rdel_RT. simpl. rewrite Nat.eqb_refl. f_equal. apply map_id_in. intros c Hc.
    apply filter_In in Hc as [Hc Hcx]. apply negb_true_iff, Nat.eqb_neq in Hcx.
    apply rdel_notin. intros Hin. apply in_map_iff in Hx as (c0 & <- & Hc0).
    apply Hcx. f_equal. apply (flat_map_NoDup_inj ids cs c c0 (rid c0)); auto.
    + destruct c as [j ccs]. apply in_ids_RT. auto.
    + apply In_rid_ids.
  - apply rsub_first_Some in HP as (c & Hc & HPc).
    pose proof (NoDup_flat_map_in _ _ _ Hnd Hc) as Hndc.
    destruct (rsub_spec _ _ _ HPc) as (_ & Hincl & Hstrict). simpl in Hstrict.
    assert (HPin : In P (ids c)). { apply Hincl. apply in_ids_RT. auto. }
    assert (Hxsub : In x (flat_map ids csP)) by (apply In_map_rid_flat; auto).
    assert (Hxc : In x (ids c)). { apply Hincl. apply in_ids_RT. auto. }
    assert (Hxrid : rid c <> x).
    { intros Heq. destruct (Nat.eq_dec (rid c) P) as [HcP|HcP].
      - pose proof (rsub_NoDup _ _ _ Hndc HPc) as HndP. rewrite ids_RT in HndP.
        apply NoDup_cons_iff in HndP as [HPn _]. apply HPn. congruence.
      - specialize (Hstrict HcP). destruct c as [j ccs]. simpl in *. subst j.
        rewrite ids_RT in Hndc. apply NoDup_cons_iff in Hndc as [Hj _]. apply Hj.
        apply Hstrict. apply in_ids_RT. auto. }
    apply in_split in Hc as (l1 & l2 & ->).
    rewrite (rmap_at_split P _ i _ l1 c l2); auto.
    rewrite rdel_RT. f_equal.
    rewrite flat_map_app in Hnd. simpl in Hnd.
    apply NoDup_app_iff in Hnd as (_ & Hnd & Hd1). apply NoDup_app_iff in Hnd as (_ & _ & Hd2).
    assert (Hother : forall c', In c' l1 \/ In c' l2 -> ~ In x (ids c')).
    { intros c' [Hc'|Hc'] Hin.
      - eapply Hd1; [apply in_flat_map; eauto|]. apply in_or_app; auto.
      - eapply Hd2; eauto. apply in_flat_map; eauto. }
    assert (Hkeep : forall l, (forall c', In c' l -> ~ In x (ids c')) ->
              map (rdel x) (filter (fun c => negb (Nat.eqb (rid c) x)) l) = l).
    { intros l Hl. rewrite filter_id.
      - apply map_id_in. intros c' Hc'. apply rdel_notin. intros Hin. apply (Hl c' Hc').
        destruct c' as [j ccs]. apply in_ids_RT. auto.
      - intros c' Hc'. apply negb_true_iff, Nat.eqb_neq. intros <-. apply (Hl c' Hc'). apply In_rid_ids. }
    rewrite filter_app, map_app. simpl. apply Nat.eqb_neq in Hxrid. rewrite Hxrid. simpl.
    rewrite !Hkeep by auto. f_equal. f_equal.
    rewrite Forall_forall in IH. eapply IH; eauto. apply in_or_app. simpl; auto.
Qed.

Lemma ids_rdel_incl x : forall r, incl (ids (rdel x r)) (ids r).
Proof.
  induction r as [i cs IH] using rtree_ind'. intros j Hj. rewrite rdel_RT in Hj. apply in_ids_RT in Hj.
  apply in_ids_RT. destruct Hj as [?|Hj]; auto. right.
  apply in_flat_map in Hj as (c' & Hc' & Hj). apply in_map_iff in Hc' as (c & <- & Hc).
  apply filter_In in Hc as [Hc _]. rewrite Forall_forall in IH.
  apply in_flat_map. exists c. split; auto. apply IH; auto.
Qed.

(* ================================================================================================ *)
(* 1. the shape of an arena: the rose tree is a function of the child lists                          *)
(* ================================================================================================ *)
Section Effects.
Context {L : Type}.
Notation arena := (@arena L).
Notation node := (@node L).
Implicit Types (t : arena) (n : node).

Inductive Shape (t : arena) : nat -> rtree -> Prop :=
| Shape_node : forall i n cs,
    nth_error t i = Some n -> Forall2 (Shape t) (nchildren n) cs -> Shape t i (RT i cs).

Lemma Shape_inv t i r :
  Shape t i r -> exists n cs, r = RT i cs /\ nth_error t i = Some n /\ Forall2 (Shape t) (nchildren n) cs.
Proof. intros H. inversion H; subst. eauto. Qed.

Lemma Shape_rid t i r : Shape t i r -> rid r = i.
Proof. intros H. inversion H; auto. Qed.

Lemma Forall2_Shape_rid t l cs : Forall2 (Shape t) l cs -> l = map rid cs.
Proof. induction 1; simpl; auto. f_equal; auto. symmetry. eapply Shape_rid; eauto. Qed.

Lemma Rep_Shape t : forall r p d i, Rep t p d i r -> Shape t i r.
Proof.
  induction r as [i0 cs IH] using rtree_ind'. intros p d i HR.
  destruct (Rep_inv _ _ _ _ _ HR) as (n & cs' & Heq & Hn & _ & _ & _ & _ & HF & _).
  injection Heq as -> ->. econstructor; eauto.
  eapply Forall2_impl_In; [|exact HF]. simpl. intros a b _ Hb Hab.
  rewrite Forall_forall in IH. eapply IH; eauto.
Qed.

Lemma Shape_fun t : forall r r' i, Shape t i r -> Shape t i r' -> r = r'.
Proof.
  induction r as [i0 cs IH] using rtree_ind'. intros r' i H1 H2.
  destruct (Shape_inv _ _ _ H1) as (n & cs1 & Heq & Hn & HF1). injection Heq as -> ->.
  destruct (Shape_inv _ _ _ H2) as (n' & cs2 & -> & Hn' & HF2).
  assert (n' = n) by congruence. subst n'. f_equal.
  clear Hn Hn' H1 H2. revert cs2 HF2. induction HF1 as [|a b l cs1 Hab HF1 IHF]; intros cs2 HF2.
  - inversion HF2; auto.
  - inversion HF2 as [|? b' ? cs2' Hab' HF2']; subst. inversion IH; subst. f_equal; eauto.
Qed.

Definition cheq (t t' : arena) (j : nat) : Prop :=
  exists n n', nth_error t j = Some n /\ nth_error t' j = Some n' /\ nchildren n' = nchildren n.

Lemma cheq_same t t' j n : nth_error t j = Some n -> nth_error t' j = nth_error t j -> cheq t t' j.
Proof. intros Hn He. exists n, n. rewrite He. auto. Qed.

Lemma Shape_frame t t' : forall r i, Shape t i r -> (forall j, In j (ids r) -> cheq t t' j) -> Shape t' i r.
Proof.
  induction r as [i0 cs IH] using rtree_ind'. intros i H Hfr.
  destruct (Shape_inv _ _ _ H) as (n & cs1 & Heq & Hn & HF). injection Heq as -> ->.
  destruct (Hfr i) as (m & m' & Hm & Hm' & Hch); [apply in_ids_RT; auto|].
  assert (m = n) by congruence. subst m.
  econstructor; eauto. rewrite Hch.
  eapply Forall2_impl_In; [|exact HF]. simpl. intros a b _ Hb Hab.
  rewrite Forall_forall in IH. eapply IH; eauto.
  intros j Hj. apply Hfr. apply in_ids_RT. right. apply in_flat_map; eauto.
Qed.

Lemma Shape_live_ids t : forall r i j, Shape t i r -> In j (ids r) -> exists n, nth_error t j = Some n.
Proof.
  induction r as [i0 cs IH] using rtree_ind'. intros i j H Hj.
  destruct (Shape_inv _ _ _ H) as (n & cs1 & Heq & Hn & HF). injection Heq as -> ->.
  apply in_ids_RT in Hj as [<-|Hj]; eauto.
  apply in_flat_map in Hj as (c & Hc & Hj). destruct (Forall2_In_r _ _ _ _ HF Hc) as (k & _ & Hk).
  rewrite Forall_forall in IH. eapply IH; eauto.
Qed.

Lemma Shape_rsub t x : forall r i s, Shape t i r -> rsub x r = Some s -> Shape t x s.
Proof.
  induction r as [i0 cs IH] using rtree_ind'. intros i s H Hs.
  destruct (Shape_inv _ _ _ H) as (n & cs1 & Heq & Hn & HF). injection Heq as -> ->.
  rewrite rsub_RT in Hs. destruct (Nat.eqb_spec i x) as [->|Hne]; [injection Hs as <-; auto|].
  apply rsub_first_Some in Hs as (c & Hc & Hs). destruct (Forall2_In_r _ _ _ _ HF Hc) as (k & _ & Hk).
  rewrite Forall_forall in IH. eapply IH; eauto.
Qed.

Lemma Rep_rsub t x : forall r p d i s, Rep t p d i r -> rsub x r = Some s -> exists px dx, Rep t px dx x s.
Proof.
  induction r as [i0 cs IH] using rtree_ind'. intros p d i s HR Hs.
  destruct (Rep_inv _ _ _ _ _ HR) as (n & cs' & Heq & Hn & _ & _ & _ & _ & HF & _).
  injection Heq as -> ->.
  rewrite rsub_RT in Hs. destruct (Nat.eqb_spec i x) as [->|Hne]; [injection Hs as <-; eauto|].
  apply rsub_first_Some in Hs as (c & Hc & Hs). destruct (Forall2_In_r _ _ _ _ HF Hc) as (k & _ & Hk).
  rewrite Forall_forall in IH. eapply IH; eauto.
Qed.

(* replacing the subtree rooted at P *)
Lemma Shape_surgery t t' P sP sP' : forall r i,
  Shape t i r -> NoDup (ids r) -> rsub P r = Some sP -> Shape t' P sP' ->
  (forall j, In j (ids r) -> ~ In j (ids sP) -> cheq t t' j) ->
  Shape t' i (rmap_at P (fun _ => sP') r).
Proof.
  induction r as [i0 cs IH] using rtree_ind'. intros i H Hnd HP HP' Hfr.
  destruct (Shape_inv _ _ _ H) as (n & cs1 & Heq & Hn & HF). injection Heq as -> ->.
  rewrite rsub_RT in HP. destruct (Nat.eqb_spec i P) as [->|Hne].
  - simpl. rewrite Nat.eqb_refl. auto.
  - apply rsub_first_Some in HP as (c & Hc & HPc).
    pose proof Hnd as Hnd0. rewrite ids_RT in Hnd. apply NoDup_cons_iff in Hnd as [Hi Hnd].
    destruct (rsub_spec _ _ _ HPc) as (HridP & Hincl & _).
    assert (HPin : In P (ids c)). { apply Hincl. rewrite <- HridP. apply In_rid_ids. }
    apply in_split in Hc as (l1 & l2 & ->).
    rewrite (rmap_at_split P _ i _ l1 c l2); auto.
    pose proof Hnd as Hnd1. rewrite flat_map_app in Hnd1. simpl in Hnd1.
    apply NoDup_app_iff in Hnd1 as (_ & Hnd23 & Hd1). apply NoDup_app_iff in Hnd23 as (Hndc & _ & Hd2).
    assert (HsPc : forall j, In j (ids sP) -> In j (ids c)) by (intros; apply Hincl; auto).
    destruct (Hfr i) as (m & m' & Hm & Hm' & Hch).
    { apply in_ids_RT; auto. }
    { intros Hin. apply Hi. rewrite flat_map_app. apply in_or_app. right. simpl. apply in_or_app. auto. }
    assert (m = n) by congruence. subst m.
    econstructor; eauto. rewrite Hch.
    apply Forall2_app_inv_r in HF as (k1 & k2' & HF1 & HF2 & ->).
    inversion HF2 as [|kc ? k2 ? Hkc HF2' Ek Ec]; subst. clear HF2.
    apply Forall2_app; [|constructor].
    + eapply Forall2_impl_In; [|exact HF1]. simpl. intros a b _ Hb Hab.
      eapply Shape_frame; eauto. intros j Hj. apply Hfr.
      * apply in_ids_RT. right. rewrite flat_map_app. apply in_or_app. left. apply in_flat_map; eauto.
      * intros Hin. apply (Hd1 j); [apply in_flat_map; eauto|]. apply in_or_app; left; auto.
    + rewrite Forall_forall in IH. eapply IH; eauto.
      * apply in_or_app; simpl; auto.
      * intros j Hj Hn'. apply Hfr; auto. apply in_ids_RT. right. rewrite flat_map_app.
        apply in_or_app. right. simpl. apply in_or_app. auto.
    + eapply Forall2_impl_In; [|exact HF2']. simpl. intros a b _ Hb Hab.
      eapply Shape_frame; eauto. intros j Hj. apply Hfr.
      * apply in_ids_RT. right. rewrite flat_map_app. apply in_or_app. right. simpl. apply in_or_app. right.
        apply in_flat_map; eauto.
      * intros Hin. apply (Hd2 j (HsPc j Hin)). apply in_flat_map; eauto.
Qed.

(* a WFS arena represents the tree given by its shape *)
Theorem Rep_of_shape t root n r :
  WFS t -> nth_error t root = Some n -> ndeleted n = false -> nparent n = None -> Shape t root r ->
  Rep t None 0 root r /\ NoDup (ids r) /\ (forall i, live t i -> In i (ids r)).
Proof.
  intros [Hwf _] Hn Hd Hp Hs.
  destruct Hwf as [Hno|(root0 & r0 & HR & Hnd & Hlive)]; [exfalso; apply (Hno root); exists n; auto|].
  assert (Hin : In root (ids r0)) by (apply Hlive; exists n; auto).
  pose proof (Rep_root_unique _ _ _ _ _ _ _ HR Hin Hn Hp) as ->.
  pose proof (Shape_fun _ _ _ _ (Rep_Shape _ _ _ _ _ HR) Hs) as ->. auto.
Qed.

Lemma WFS_Rep t root r :
  WFS t -> Rep t None 0 root r -> NoDup (ids r) /\ (forall i, live t i -> In i (ids r)).
Proof.
  intros Hwf HR. destruct (Rep_inv _ _ _ _ _ HR) as (n & cs & _ & Hn & Hd & _ & Hp & _).
  destruct (Rep_of_shape t root n r Hwf Hn Hd Hp (Rep_Shape _ _ _ _ _ HR)) as (_ & ? & ?). auto.
Qed.

End Effects.

Lemma rsub_redge P : forall r s u v, rsub P r = Some s -> redge s u v -> redge r u v.
Proof.
  induction r as [i cs IH] using rtree_ind'. intros s u v Hs He. rewrite rsub_RT in Hs.
  destruct (Nat.eqb_spec i P) as [->|Hne]; [injection Hs as <-; auto|].
  apply rsub_first_Some in Hs as (c & Hc & Hs). apply redge_down with (c := c); auto.
  rewrite Forall_forall in IH. eapply IH; eauto.
Qed.

(* ================================================================================================ *)
(* 2. prune                                                                                          *)
(* ================================================================================================ *)
Section Prune.
Context {L : Type}.
Notation arena := (@arena L).
Notation node := (@node L).
Implicit Types (t : arena) (n : node).

(* everything of a node except its child list and child-side records *)
Definition same_labels n n' : Prop :=
  nid n' = nid n /\ nname n' = nname n /\ nparent n' = nparent n /\ npedge n' = npedge n /\
  ncomment n' = ncomment n /\ ndeleted n' = ndeleted n.

Lemma nrc_labels n c n' : node_remove_child n c = Some n' -> same_labels n n'.
Proof.
  unfold node_remove_child. destruct (index_of c (nchildren n)); [|discriminate].
  intros [= <-]. repeat split.
Qed.

Lemma nrc_children_filter n c n' :
  NoDup (nchildren n) -> node_remove_child n c = Some n' ->
  nchildren n' = filter (fun k => negb (Nat.eqb k c)) (nchildren n) /\
  nedges n' = edge_remove (nedges n) c.
Proof.
  intros Hnd H. destruct (nrc_inv _ _ _ H) as (l1 & l2 & Hs & _ & Hch & He & _). split; auto.
  rewrite Hch. symmetry. eapply filter_remove_first; eauto.
Qed.

(* prune removes exactly the subtree rooted at x: the tree becomes [rdel x r]; the slots of the subtree
   are tombstones; the parent of x loses x from its child list and its child-side record; every other
   slot of the arena is untouched *)
Theorem prune_exact t t' root r x :
  WFS t -> Rep t None 0 root r -> In x (ids r) -> x <> root -> prune t x = Ok t' ->
  exists P sx nP nP',
    redge r P x /\ rsub x r = Some sx /\
    Rep t' None 0 root (rdel x r) /\ NoDup (ids (rdel x r)) /\
    (forall i, live t' i <-> In i (ids (rdel x r))) /\
    (forall i, In i (ids (rdel x r)) <-> In i (ids r) /\ ~ In i (ids sx)) /\
    length t' = length t /\
    (forall i, In i (ids sx) -> nth_error t' i = Some tombstone) /\
    (forall i, ~ In i (ids sx) -> i <> P -> nth_error t' i = nth_error t i) /\
    nth_error t P = Some nP /\ nth_error t' P = Some nP' /\ ~ In P (ids sx) /\
    same_labels nP nP' /\ ndepth nP' = ndepth nP /\
    nchildren nP' = filter (fun k => negb (Nat.eqb k x)) (nchildren nP) /\
    nedges nP' = edge_remove (nedges nP) x.
Proof.
  intros Hwfs HR Hxr Hne Hpr. pose proof Hwfs as [Hwf Hse].
  destruct (WFS_Rep _ _ _ Hwfs HR) as [Hnd Hlive].
  destruct (Rep_parent _ _ _ _ _ _ HR Hxr Hne) as (P & nP & nx & HPr & HnP & HdP & Hnx & Hpx & HxP).
  destruct (rsub_in P r HPr) as (sP & HsP).
  destruct (Rep_rsub _ _ _ _ _ _ _ HR HsP) as (pp & dp & HRP).
  destruct (Rep_inv _ _ _ _ _ HRP) as (n & cs & -> & Hn & _ & _ & _ & _ & HF & _).
  assert (n = nP) by congruence. subst n.
  pose proof (rsub_NoDup _ _ _ Hnd HsP) as HndP.
  pose proof (Forall2_Rep_rid _ _ _ _ _ HF) as Hch.
  destruct (Forall2_In_l _ _ _ _ HF HxP) as (sx & Hsx & HRx).
  pose proof (Rep_rid _ _ _ _ _ HRx) as Hridx.
  rewrite ids_RT in HndP. apply NoDup_cons_iff in HndP as [HPn Hndcs].
  pose proof (NoDup_flat_map_in _ _ _ Hndcs Hsx) as Hndx.
  assert (HPx : ~ In P (ids sx)). { intros Hin. apply HPn. apply in_flat_map; eauto. }
  assert (Hxsx : In x (ids sx)). { rewrite <- Hridx. apply In_rid_ids. }
  assert (Hsub_x : rsub x r = Some sx).
  { eapply rsub_trans; eauto. rewrite rsub_RT.
    destruct (Nat.eqb_spec P x) as [->|_]; [exfalso; auto|].
    rewrite (rsub_first_in x cs sx); auto. rewrite <- Hridx. apply rsub_self. }
  assert (Hpre : prune_pre t (Some P) x sx).
  { split; auto. exists nP. split; auto. apply get_Ok; auto. }
  destruct (prune_f_spec sx (fuel_of t) t (Some P) (S dp) x HRx Hndx
              (Rep0_height_fuel _ _ _ _ (Rep_Rep0 _ _ _ _ _ HRx) Hndx) Hse Hpre)
    as (t2 & Hr2 & Hlen2 & Htomb2 & Hfr2 & Hpost2 & Hse2).
  unfold prune in Hpr. rewrite Hr2 in Hpr. injection Hpr as <-.
  destruct (Hpost2 nP HnP) as (nP' & Hrm & HnP').
  assert (Hndch : NoDup (nchildren nP)) by (rewrite Hch; apply NoDup_map_rid; auto).
  destruct (nrc_children_filter _ _ _ Hndch Hrm) as [Hch' Hed'].
  pose proof (nrc_labels _ _ _ Hrm) as Hlab.
  assert (Hfr : forall i, ~ In i (ids sx) -> i <> P -> nth_error t2 i = nth_error t i).
  { intros i Hi HiP. apply Hfr2; auto. congruence. }
  (* the shape of the new arena *)
  assert (HsxP : forall j, In j (ids sx) -> In j (ids (RT P cs))).
  { intros j Hj. apply in_ids_RT. right. apply in_flat_map; eauto. }
  assert (HShP : Shape t2 P (del_child x (RT P cs))).
  { simpl. econstructor; eauto. rewrite Hch', Hch.
    assert (HF' : Forall2 (fun c s => rid s = c /\ (c <> x -> Shape t2 c s)) (map rid cs) cs).
    { rewrite <- Hch. eapply Forall2_impl_In; [|exact HF]. simpl. intros a b Ha Hb Hab. split.
      - eapply Rep_rid; eauto.
      - intros Hax. eapply Shape_frame; [eapply Rep_Shape; eauto|].
        intros j Hj. destruct (Rep_ids_live _ _ _ _ _ _ Hab Hj) as (nj & Hnj & _).
        eapply cheq_same; eauto. apply Hfr.
        + intros Hjx. apply Hax. rewrite <- (Rep_rid _ _ _ _ _ Hab), <- Hridx. f_equal.
          apply (flat_map_NoDup_inj ids cs b sx j); auto.
        + intros ->. apply HPn. apply in_flat_map; eauto. }
    eapply Forall2_impl_In; [|eapply Forall2_filter; [exact HF'|]].
    - simpl. intros a b Ha _ [_ Hab]. apply Hab. apply filter_In in Ha as [_ Ha].
      apply negb_true_iff, Nat.eqb_neq in Ha. auto.
    - simpl. intros a b [-> _]. reflexivity. }
  assert (HSh : Shape t2 root (rmap_at P (fun _ => del_child x (RT P cs)) r)).
  { eapply Shape_surgery; eauto; [eapply Rep_Shape; eauto|].
    intros j Hj Hjn. destruct (Rep_ids_live _ _ _ _ _ _ HR Hj) as (nj & Hnj & _).
    eapply cheq_same; eauto. apply Hfr; [|intros ->; apply Hjn; apply in_ids_RT; auto]. auto. }
  rewrite <- (rmap_at_const P (del_child x) r (RT P cs)) in HSh by auto.
  rewrite <- (rdel_rmap x P r cs) in HSh by (auto; congruence).
  destruct (Rep_inv _ _ _ _ _ HR) as (nroot & ? & _ & Hnroot & Hdroot & _ & Hproot & _).
  assert (Hroot_sx : ~ In root (ids sx)).
  { intros Hin. apply Hne. symmetry. eapply (Rep_root_unique _ _ _ _ _ _ _ HRx Hin); eauto. }
  assert (exists nr', nth_error t2 root = Some nr' /\ ndeleted nr' = false /\ nparent nr' = None)
    as (nr' & Hnr' & Hdr' & Hpr').
  { destruct (Nat.eq_dec root P) as [->|HrP].
    - exists nP'. destruct Hlab as (_ & _ & Hp & _ & _ & Hd). assert (nroot = nP) by congruence. subst.
      splits; auto; congruence.
    - exists nroot. rewrite Hfr; auto. }
  assert (Hwfs2 : WFS t2) by (eapply prune_wf; eauto; unfold prune; eauto).
  destruct (Rep_of_shape t2 root nr' _ Hwfs2 Hnr' Hdr' Hpr' HSh) as (HR2 & Hnd2 & Hlive2).
  assert (Hids : forall i, In i (ids (rdel x r)) <-> In i (ids r) /\ ~ In i (ids sx)).
  { intros i. split.
    - intros Hi. split; [apply (ids_rdel_incl x r); auto|].
      intros Hix. destruct (Rep_ids_live _ _ _ _ _ _ HR2 Hi) as (ni & Hni & Hdi).
      rewrite Htomb2 in Hni by auto. injection Hni as <-. discriminate.
    - intros [Hi Hix]. apply Hlive2. destruct (Rep_ids_live _ _ _ _ _ _ HR Hi) as (ni & Hni & Hdi).
      destruct (Nat.eq_dec i P) as [->|HiP].
      + exists nP'. split; auto. destruct Hlab as (_ & _ & _ & _ & _ & Hd). congruence.
      + exists ni. rewrite Hfr; auto. }
  exists P, sx, nP, nP'. splits; auto.
  - apply (rsub_redge P r (RT P cs)); auto. rewrite <- Hridx. constructor. auto.
  - intros i. split; auto. intros Hi. eapply Rep_ids_live; eauto.
  - destruct (nrc_inv _ _ _ Hrm) as (? & ? & _ & _ & _ & _ & _ & _ & _ & Hdp & _). auto.
Qed.

(* pruning the root empties the tree *)
Theorem prune_root t t' root r :
  WFS t -> Rep t None 0 root r -> prune t root = Ok t' ->
  (forall i, ~ live t' i) /\ length t' = length t /\
  (forall i, In i (ids r) -> nth_error t' i = Some tombstone) /\
  (forall i, ~ In i (ids r) -> nth_error t' i = nth_error t i).
Proof.
  intros Hwfs HR Hpr. pose proof Hwfs as [Hwf Hse].
  destruct (WFS_Rep _ _ _ Hwfs HR) as [Hnd Hlive].
  destruct (prune_f_spec r (fuel_of t) t None 0 root HR Hnd
              (Rep0_height_fuel _ _ _ _ (Rep_Rep0 _ _ _ _ _ HR) Hnd) Hse I)
    as (t2 & Hr2 & Hlen2 & Htomb2 & Hfr2 & _ & Hse2).
  unfold prune in Hpr. rewrite Hr2 in Hpr. injection Hpr as <-. splits; auto.
  - intros j (nj & Hnj & Hdj). destruct (in_dec Nat.eq_dec j (ids r)) as [Hin|Hnin].
    + rewrite Htomb2 in Hnj by auto. injection Hnj as <-. discriminate.
    + rewrite Hfr2 in Hnj by (auto; congruence). apply Hnin. apply Hlive. exists nj; auto.
  - intros i Hi. apply Hfr2; auto. congruence.
Qed.

End Prune.

(* ================================================================================================ *)
(* 3. merge_children                                                                                 *)
(* ================================================================================================ *)
Definition keep2 (a b : nat) (k : nat) : bool := negb (Nat.eqb k a) && negb (Nat.eqb k b).

(* the children a and b of the root of s are moved (in this order) under a fresh last child [new] *)
Definition group_at (a b new : nat) (s : rtree) : rtree :=
  match s with
  | RT i cs => RT i (filter (fun c => keep2 a b (rid c)) cs ++
                     [RT new (filter (fun c => Nat.eqb (rid c) a) cs ++ filter (fun c => Nat.eqb (rid c) b) cs)])
  end.
Definition regroup_spec (p a b new : nat) (r : rtree) : rtree := rmap_at p (group_at a b new) r.

Lemma filter_rid_single cs s :
  NoDup (map rid cs) -> In s cs -> filter (fun c => Nat.eqb (rid c) (rid s)) cs = [s].
Proof.
  induction cs as [|c cs IH]; simpl; [tauto|]. intros Hnd Hs. inversion Hnd as [|? ? Hc Hnd']; subst.
  destruct Hs as [->|Hs].
  - rewrite Nat.eqb_refl. f_equal. clear -Hc. induction cs as [|c cs IH]; simpl; auto.
    destruct (Nat.eqb_spec (rid c) (rid s)) as [E|_]; [exfalso; apply Hc; simpl; auto|].
    apply IH. intros H. apply Hc. simpl; auto.
  - destruct (Nat.eqb_spec (rid c) (rid s)) as [E|_]; auto.
    exfalso. apply Hc. rewrite E. apply in_map; auto.
Qed.

Section Merge.
Context {L : Type}.
Notation arena := (@arena L).
Notation node := (@node L).
Implicit Types (t : arena) (n : node).

Ltac slot :=
  repeat first [ rewrite nth_error_replace_nth_neq by (auto; congruence)
               | rewrite nth_error_replace_nth_eq by (rewrite ?replace_nth_length; auto; lia) ].

Local Arguments reset_depth_f : simpl never.

Lemma reset_depth_only : forall fuel t i d t',
  reset_depth_f fuel t i d = Ok t' -> depth_only t t' /\ length t' = length t.
Proof.
  induction fuel as [|f IH]; intros t i d t' H; [discriminate|]. cbn [reset_depth_f] in H.
  apply bind_Ok in H as (n & Hg & H). apply get_Ok in Hg as [Hn _].
  assert (H1 : depth_only t (replace_nth i (set_ndepth n d) t) /\
               length (replace_nth i (set_ndepth n d) t) = length t)
    by (split; [apply depth_only_replace; auto | apply replace_nth_length]).
  eapply (foldM_inv (fun s => depth_only t s /\ length s = length t)); [|exact H1|exact H].
  intros s a s' [Hs1 Hs2] Hstep. destruct (IH _ _ _ _ Hstep). split; [eapply depth_only_trans; eauto|congruence].
Qed.

Lemma reset_depth_dead : forall fuel t i d t' j n,
  reset_depth_f fuel t i d = Ok t' -> nth_error t j = Some n -> ndeleted n = true -> nth_error t' j = Some n.
Proof.
  induction fuel as [|f IH]; intros t i d t' j n H Hn Hd; [discriminate|]. cbn [reset_depth_f] in H.
  apply bind_Ok in H as (n0 & Hg & H). apply get_Ok in Hg as [Hn0 Hd0].
  assert (Hij : j <> i) by (intros ->; congruence).
  eapply (foldM_inv (fun s => nth_error s j = Some n)); [| |exact H].
  - intros s a s' Hs Hstep. cbv beta in Hstep. eapply IH; eauto.
  - rewrite nth_error_replace_nth_neq; auto.
Qed.

Lemma depth_only_nth t t' j n :
  depth_only t t' -> nth_error t j = Some n -> exists d, nth_error t' j = Some (set_ndepth n d).
Proof. intros H Hn. apply H; auto. Qed.

Lemma depth_only_nth_inv t t' j n' :
  depth_only t t' -> length t' = length t -> nth_error t' j = Some n' ->
  exists n, nth_error t j = Some n /\ n' = set_ndepth n (ndepth n').
Proof.
  intros Hdo Hlen Hn'. pose proof (nth_error_Some_lt _ _ _ Hn') as Hlt. rewrite Hlen in Hlt.
  destruct (nth_error t j) as [n|] eqn:E; [|apply nth_error_None in E; lia].
  destruct (Hdo _ _ E) as (d' & Hd'). rewrite Hd' in Hn'. injection Hn' as <-. exists n. auto.
Qed.

Lemma onat_eqb_spec (x y : option nat) : onat_eqb x y = true <-> x = y.
Proof.
  destruct x, y; simpl; split; try congruence; try discriminate.
  - intros H. apply Nat.eqb_eq in H. congruence.
  - intros [= ->]. apply Nat.eqb_refl.
Qed.

(* merging non-siblings, or a node with itself, is refused and changes nothing *)
Theorem merge_refused t a b na nb e1 e2 pe nm :
  get t a = Ok na -> get t b = Ok nb -> nparent na <> nparent nb ->
  merge_children t a b e1 e2 pe nm = (Err MergingNonSiblingNodes, t).
Proof.
  intros Ha Hb Hne. unfold merge_children. rewrite Ha, Hb.
  destruct (onat_eqb (nparent na) (nparent nb)) eqn:E; [apply onat_eqb_spec in E; contradiction|].
  reflexivity.
Qed.

Theorem merge_same_refused t a na e1 e2 pe nm :
  get t a = Ok na -> merge_children t a a e1 e2 pe nm = (Err MergingNonSiblingNodes, t).
Proof.
  intros Ha. unfold merge_children. rewrite Ha.
  rewrite (proj2 (onat_eqb_spec _ _) eq_refl). cbn [negb]. rewrite Nat.eqb_refl. reflexivity.
Qed.

Theorem merge_dead t a b e1 e2 pe nm :
  (~ live t a \/ ~ live t b) ->
  fst (merge_children t a b e1 e2 pe nm) = Err NodeNotFound /\ snd (merge_children t a b e1 e2 pe nm) = t.
Proof.
  intros H. unfold merge_children.
  assert (Hdead : forall j, ~ live t j -> get t j = Err NodeNotFound).
  { intros j Hj. unfold get. destruct (nth_error t j) as [n|] eqn:E; auto.
    destruct (ndeleted n) eqn:D; auto. exfalso. apply Hj. exists n; auto. }
  destruct (get t a) as [n1| | |] eqn:Ha.
  - destruct H as [H|H]; [exfalso; apply H; apply get_live; eauto|].
    rewrite (Hdead _ H). auto.
  - destruct H as [H|H].
    + rewrite (Hdead _ H) in Ha. injection Ha as <-. auto.
    + unfold get in Ha. destruct (nth_error t a) as [n|]; [destruct (ndeleted n)|]; inversion Ha; auto.
  - unfold get in Ha. destruct (nth_error t a) as [n|]; [destruct (ndeleted n)|]; inversion Ha.
  - unfold get in Ha. destruct (nth_error t a) as [n|]; [destruct (ndeleted n)|]; inversion Ha.
Qed.

Lemma nac_labels n c e : same_labels n (node_add_child n c e).
Proof. destruct e; repeat split. Qed.
Lemma same_labels_trans n1 n2 n3 : same_labels n1 n2 -> same_labels n2 n3 -> same_labels n1 n3.
Proof. unfold same_labels. intuition congruence. Qed.
Lemma same_labels_refl n : same_labels n n.
Proof. repeat split. Qed.

(* the description of the new node *)
Definition merged_node (nN : node) (new p a b : nat) (e1 e2 pe : option L) (nm : option str) : Prop :=
  nid nN = new /\ nname nN = nm /\ nparent nN = Some p /\ nchildren nN = [a; b] /\ npedge nN = pe /\
  ncomment nN = None /\ ndeleted nN = false /\
  edge_get (nedges nN) a = e1 /\ edge_get (nedges nN) b = e2 /\
  (forall c, c <> a -> c <> b -> edge_get (nedges nN) c = None).

Theorem merge_exact t root r a b p na nb e1 e2 pe nm :
  WFS t -> Rep t None 0 root r ->
  get t a = Ok na -> get t b = Ok nb -> nparent na = Some p -> nparent nb = Some p -> a <> b ->
  let new := length t in
  let r' := regroup_spec p a b new r in
  exists t' nP nP' nN da db,
    merge_children t a b e1 e2 pe nm = (Ok (t', new), t') /\
    length t' = S (length t) /\
    Rep t' None 0 root r' /\ NoDup (ids r') /\ (forall i, live t' i <-> In i (ids r')) /\
    (* the two merged nodes hang below the new node with the given lengths *)
    nth_error t' a = Some (set_ndepth (node_set_parent na new e1) da) /\
    nth_error t' b = Some (set_ndepth (node_set_parent nb new e2) db) /\
    (* their former parent *)
    nth_error t p = Some nP /\ nth_error t' p = Some nP' /\ same_labels nP nP' /\
    nchildren nP' = filter (keep2 a b) (nchildren nP) ++ [new] /\
    (forall c, c <> a -> c <> b -> c <> new -> edge_get (nedges nP') c = edge_get (nedges nP) c) /\
    edge_get (nedges nP') a = None /\ edge_get (nedges nP') b = None /\ edge_get (nedges nP') new = pe /\
    (* the new node *)
    nth_error t' new = Some nN /\ merged_node nN new p a b e1 e2 pe nm /\
    (* every other slot: identical up to the cached depth *)
    (forall j n, nth_error t j = Some n -> j <> a -> j <> b -> j <> p ->
       exists d, nth_error t' j = Some (set_ndepth n d)).
Proof.
  intros Hwfs HR Hga Hgb Hpa Hpb Hab new r'. pose proof Hwfs as [Hwf Hse].
  destruct (WFS_Rep _ _ _ Hwfs HR) as [Hnd Hlive].
  destruct (WF_parent_of _ _ _ _ Hwf Hga Hpa) as (nP & HgP & Hc1).
  destruct (WF_parent_of _ _ _ _ Hwf Hgb Hpb) as (nP0 & HgP0 & Hc2).
  assert (nP0 = nP) by congruence. subst nP0. clear HgP0.
  destruct (nrc_Some nP a Hc1) as (pn1 & l1 & l2 & Hrm1 & Hs1 & _ & Hch1 & _).
  assert (Hc2' : In b (nchildren pn1)).
  { rewrite Hch1. rewrite Hs1 in Hc2. apply in_app_or in Hc2 as [?|[?|?]]; try congruence; apply in_or_app; auto. }
  destruct (nrc_Some pn1 b Hc2') as (pn2 & m1 & m2 & Hrm2 & _).
  destruct (merge_chain_wf t p nP a b na nb e1 e2 pe nm pn1 pn2 Hwfs HgP Hga Hgb Hc1 Hc2 Hab Hrm1 Hrm2)
    as (t8 & Hchain & Hwf8).
  pose proof HgP as HgP'. apply get_Ok in HgP' as [HnP HdP].
  pose proof Hga as Hga'. apply get_Ok in Hga' as [Hna Hda].
  pose proof Hgb as Hgb'. apply get_Ok in Hgb' as [Hnb Hdb].
  destruct (WF_node_facts t p nP Hwf HnP HdP) as (Hndch & Hchl & He2 & FidP).
  destruct (nrc2_facts nP a b pn1 pn2 Hndch (Hse _ _ HnP) Hab Hrm1 Hrm2)
    as (F1 & F2 & F3 & F4 & F5 & Fch & Feo & Fe1 & Fe2 & Fks).
  assert (HgP2 : get (replace_nth p pn2 t) p = Ok pn2).
  { apply get_Ok. split; [eapply nth_error_replace_nth_eq'; eauto|congruence]. }
  assert (Hmc : merge_children t a b e1 e2 pe nm = (Ok (t8, new), t8)).
  { unfold merge_children. rewrite Hga, Hgb, Hpa, Hpb. cbn [onat_eqb]. rewrite Nat.eqb_refl. cbn [negb].
    replace (Nat.eqb a b) with false by (symmetry; apply Nat.eqb_neq; auto).
    rewrite HgP. cbn [bind]. rewrite Hrm1, Hrm2.
    rewrite (add_child_Ok _ _ _ _ _ _ HgP2). rewrite replace_nth_length.
    unfold merge_chain in Hchain. cbv iota beta. rewrite Hchain. reflexivity. }
  (* the arena, slot by slot *)
  assert (HltP : p < length t) by (eapply nth_error_Some_lt; eauto).
  assert (Hlta : a < length t) by (eapply nth_error_Some_lt; eauto).
  assert (Hltb : b < length t) by (eapply nth_error_Some_lt; eauto).
  destruct (Hchl _ Hc1) as [_ HaP]. destruct (Hchl _ Hc2) as [_ HbP].
  assert (Han : a <> new) by (unfold new; lia). assert (Hbn : b <> new) by (unfold new; lia).
  assert (HPn : p <> new) by (unfold new; lia).
  fold new in Hchain.
  set (T := replace_nth p pn2 t) in *.
  assert (HlenT : length T = length t) by apply replace_nth_length.
  set (Y := leaf_node new None None p pe (ndepth pn2 + 1)) in *.
  set (XP := node_add_child pn2 new pe) in *.
  assert (HltPT : p < length T) by lia.
  destruct (slots_add_leaf T p XP Y HltPT) as (HsP & Hsnew & Hsfr & Hslen).
  set (T1 := replace_nth p XP (T ++ [Y])) in *. rewrite HlenT in Hsnew, Hsfr, Hslen. fold new in Hsnew, Hsfr.
  unfold merge_chain in Hchain.
  apply bind_Ok in Hchain as (t2 & Ht2 & Hchain). apply upd_inv in Ht2 as (y & Hgy & ->).
  assert (y = Y). { apply get_Ok in Hgy as [Hy _]. congruence. } subst y.
  set (XN := set_nname (node_add_child (node_add_child Y a e1) b e2) nm) in *.
  apply bind_Ok in Hchain as (t3 & Ht3 & Hchain). apply upd_inv in Ht3 as (x1 & Hgx1 & ->).
  assert (x1 = na).
  { apply get_Ok in Hgx1 as [Hx _]. revert Hx. slot. rewrite Hsfr by auto. unfold T. slot. congruence. }
  subst x1. set (A := node_set_parent na new e1) in *.
  apply bind_Ok in Hchain as (t4 & Ht4 & Hchain). apply upd_inv in Ht4 as (x2 & Hgx2 & ->).
  assert (x2 = nb).
  { apply get_Ok in Hgx2 as [Hx _]. revert Hx. slot. rewrite Hsfr by auto. unfold T. slot. congruence. }
  subst x2. set (B := node_set_parent nb new e2) in *.
  set (t4 := replace_nth b B (replace_nth a A (replace_nth new XN T1))) in *.
  apply bind_Ok in Hchain as (pp & _ & Hreset).
  destruct (reset_depth_only _ _ _ _ _ Hreset) as [Hdo Hlen8].
  assert (HlenT1 : length T1 = S (length t)) by auto.
  assert (Hlen4 : length t4 = S (length t)) by (unfold t4; rewrite !replace_nth_length; auto).
  assert (S_new : nth_error t4 new = Some XN) by (unfold t4; slot; auto).
  assert (S_P : nth_error t4 p = Some XP) by (unfold t4; slot; auto).
  assert (S_a : nth_error t4 a = Some A) by (unfold t4; slot; auto).
  assert (S_b : nth_error t4 b = Some B) by (unfold t4; slot; auto).
  assert (S_o : forall j, j <> p -> j <> new -> j <> a -> j <> b -> nth_error t4 j = nth_error t j).
  { intros. unfold t4. slot. rewrite Hsfr by auto. unfold T. slot. auto. }
  destruct (depth_only_nth _ _ _ _ Hdo S_new) as (dN & S8_new).
  destruct (depth_only_nth _ _ _ _ Hdo S_P) as (dP & S8_P).
  destruct (depth_only_nth _ _ _ _ Hdo S_a) as (da & S8_a).
  destruct (depth_only_nth _ _ _ _ Hdo S_b) as (db & S8_b).
  assert (S8_o : forall j n, nth_error t j = Some n -> j <> a -> j <> b -> j <> p ->
                   exists d, nth_error t8 j = Some (set_ndepth n d)).
  { intros j n Hn H1 H2 H3. apply (depth_only_nth _ _ _ _ Hdo). rewrite S_o; auto.
    apply nth_error_Some_lt in Hn. unfold new. lia. }
  destruct (nac_fields pn2 new pe) as (Gid & Gpar & Gpe & Gdep & Gdel & Gch).
  fold XP in Gid, Gpar, Gpe, Gdep, Gdel, Gch.
  assert (Hcheq : forall j n, nth_error t j = Some n -> j <> p -> cheq t t8 j).
  { intros j n Hn HjP. destruct (Nat.eq_dec j a) as [->|Hja]; [|destruct (Nat.eq_dec j b) as [->|Hjb]].
    - exists na, (set_ndepth A da). auto.
    - exists nb, (set_ndepth B db). auto.
    - destruct (S8_o j n Hn Hja Hjb HjP) as (d & Hd). exists n, (set_ndepth n d). auto. }
  (* the shape *)
  assert (HPr : In p (ids r)) by (apply Hlive; exists nP; auto).
  destruct (rsub_in p r HPr) as (sP & HsubP).
  destruct (Rep_rsub _ _ _ _ _ _ _ HR HsubP) as (pq & dp & HRP).
  destruct (Rep_inv _ _ _ _ _ HRP) as (n & cs & -> & Hn & _ & _ & _ & _ & HF & _).
  assert (n = nP) by congruence. subst n.
  pose proof (rsub_NoDup _ _ _ Hnd HsubP) as HndP.
  pose proof (Forall2_Rep_rid _ _ _ _ _ HF) as Hch.
  rewrite ids_RT in HndP. apply NoDup_cons_iff in HndP as [HPn' Hndcs].
  assert (HF8 : Forall2 (Shape t8) (nchildren nP) cs).
  { eapply Forall2_impl_In; [|exact HF]. simpl. intros c s _ Hs Hcs.
    eapply Shape_frame; [eapply Rep_Shape; eauto|].
    intros j Hj. destruct (Rep_ids_live _ _ _ _ _ _ Hcs Hj) as (nj & Hnj & _).
    eapply Hcheq; eauto. intros ->. apply HPn'. apply in_flat_map; eauto. }
  destruct (Forall2_In_l _ _ _ _ HF8 Hc1) as (sa & Hsa & HSa).
  destruct (Forall2_In_l _ _ _ _ HF8 Hc2) as (sb & Hsb & HSb).
  pose proof (Shape_rid _ _ _ HSa) as Hrida. pose proof (Shape_rid _ _ _ HSb) as Hridb.
  assert (Hndrid : NoDup (map rid cs)) by (apply NoDup_map_rid; auto).
  assert (HXN : nid XN = new /\ nparent XN = Some p /\ npedge XN = pe /\ ndeleted XN = false /\
                nchildren XN = [a; b] /\ nname XN = nm /\ ncomment XN = None)
    by (unfold XN, Y; destruct e1, e2; simpl; auto 10).
  destruct HXN as (W1 & W2 & W3 & W4 & W5 & W6 & W7).
  assert (HShP : Shape t8 p (group_at a b new (RT p cs))).
  { simpl. econstructor; [exact S8_P|]. simpl. rewrite Gch, Fch. apply Forall2_app.
    - eapply Forall2_filter; eauto. simpl. intros c s Hcs. rewrite (Shape_rid _ _ _ Hcs). reflexivity.
    - constructor; [|constructor].
      assert (Hfa : filter (fun c => Nat.eqb (rid c) a) cs = [sa])
        by (rewrite <- Hrida; apply filter_rid_single; auto).
      assert (Hfb : filter (fun c => Nat.eqb (rid c) b) cs = [sb])
        by (rewrite <- Hridb; apply filter_rid_single; auto).
      rewrite Hfa, Hfb. simpl.
      econstructor; [exact S8_new|]. change (nchildren (set_ndepth XN dN)) with (nchildren XN).
      rewrite W5. repeat constructor; auto. }
  assert (HSh : Shape t8 root (rmap_at p (fun _ => group_at a b new (RT p cs)) r)).
  { eapply Shape_surgery; eauto; [eapply Rep_Shape; eauto|].
    intros j Hj Hjn. destruct (Rep_ids_live _ _ _ _ _ _ HR Hj) as (nj & Hnj & _).
    eapply Hcheq; eauto. intros ->. apply Hjn. apply in_ids_RT; auto. }
  rewrite <- (rmap_at_const p (group_at a b new) r (RT p cs)) in HSh by auto.
  fold (regroup_spec p a b new r) in HSh. fold r' in HSh.
  destruct (Rep_inv _ _ _ _ _ HR) as (nroot & ? & _ & Hnroot & Hdroot & _ & Hproot & _).
  assert (exists nr', nth_error t8 root = Some nr' /\ ndeleted nr' = false /\ nparent nr' = None)
    as (nr' & Hnr' & Hdr' & Hpr').
  { destruct (Nat.eq_dec root p) as [->|HrP].
    - eexists. split; [exact S8_P|]. simpl. assert (nroot = nP) by congruence. subst nroot. split; congruence.
    - destruct (S8_o root nroot Hnroot) as (d & Hd); auto; try (intros ->; congruence).
      eexists. split; [exact Hd|]. simpl. auto. }
  destruct (Rep_of_shape t8 root nr' _ Hwf8 Hnr' Hdr' Hpr' HSh) as (HR8 & Hnd8 & Hlive8).
  exists t8, nP, (set_ndepth XP dP), (set_ndepth XN dN), da, db. splits; auto.
  - congruence.
  - intros i. split; auto. intros Hi. eapply Rep_ids_live; eauto.
  - assert (Hl : same_labels nP XP).
    { eapply same_labels_trans; [eapply same_labels_trans; eapply nrc_labels; eauto|apply nac_labels]. }
    exact Hl.
  - simpl. rewrite Gch, Fch. reflexivity.
  - intros c Hq1 Hq2 Hq3. simpl. unfold XP. rewrite nac_edge_neq by auto. auto.
  - simpl. unfold XP. rewrite nac_edge_neq; auto.
  - simpl. unfold XP. rewrite nac_edge_neq; auto.
  - simpl. unfold XP. apply nac_edge_eq. rewrite Feo; auto.
    destruct (edge_get (nedges nP) new) eqn:E; auto. exfalso.
    assert (Hin : In new (nchildren nP)) by (apply He2; congruence).
    apply Hchl in Hin as [Hl _]. apply live_lt in Hl. unfold new in Hl. lia.
  - unfold merged_node. simpl. splits; auto.
    + unfold XN. simpl. rewrite nac_edge_neq by auto. apply nac_edge_eq. reflexivity.
    + unfold XN. simpl. apply nac_edge_eq. rewrite nac_edge_neq by auto. reflexivity.
    + intros c Hca Hcb. unfold XN. simpl. rewrite !nac_edge_neq by auto. reflexivity.
Qed.

End Merge.

(* ================================================================================================ *)
(* 4. rescale                                                                                        *)
(* ================================================================================================ *)
Section Rescale.
Context {L : Type}.
Notation arena := (@arena L).
Notation node := (@node L).
Implicit Types (t : arena) (n : node).
Variable O : LenOps L.

(* every length, parent side and child side, is multiplied by f; nothing else changes *)
Theorem rescale_exact t f :
  length (rescale O t f) = length t /\
  (forall i, nth_error (rescale O t f) i = option_map (rescale_node O f) (nth_error t i)) /\
  (forall n, let n' := rescale_node O f n in
     nid n' = nid n /\ nname n' = nname n /\ nparent n' = nparent n /\ nchildren n' = nchildren n /\
     ncomment n' = ncomment n /\ ndepth n' = ndepth n /\ ndeleted n' = ndeleted n /\
     npedge n' = option_map (fun e => lmul O e f) (npedge n) /\
     map fst (nedges n') = map fst (nedges n) /\
     map snd (nedges n') = map (fun e => lmul O e f) (map snd (nedges n)) /\
     (forall c, edge_get (nedges n') c = option_map (fun e => lmul O e f) (edge_get (nedges n) c))).
Proof.
  splits.
  - unfold rescale. apply map_length.
  - intros i. apply nth_error_rescale.
  - intros n n'. unfold n'. simpl. splits; auto.
    + rewrite map_map. reflexivity.
    + rewrite !map_map. reflexivity.
    + intros c. apply (edge_get_map (fun e => lmul O e f)).
Qed.

Theorem rescale_tree t f root r :
  Rep t None 0 root r -> Rep (rescale O t f) None 0 root r.
Proof. apply Rep_rescale. Qed.

Lemma get_leaves_rescale t f : get_leaves (rescale O t f) = get_leaves t.
Proof.
  unfold get_leaves, rescale. induction t as [|n t IH]; simpl; auto.
  change (is_tip (rescale_node O f n)) with (is_tip n).
  destruct (negb (ndeleted n) && is_tip n); simpl; congruence.
Qed.

Section Laws.
Variable f : L.
Hypothesis lmul_0 : lmul O (l0 O) f = l0 O.
Hypothesis lmul_add : forall a b, lmul O (ladd O a b) f = ladd O (lmul O a f) (lmul O b f).

Lemma fold_ladd_scale (l : list L) : forall a,
  fold_left (ladd O) (map (fun e => lmul O e f) l) (lmul O a f) = lmul O (fold_left (ladd O) l a) f.
Proof. induction l as [|x l IH]; intros a; simpl; auto. rewrite <- lmul_add. apply IH. Qed.

Lemma path_len_scale (es : list (option L)) :
  path_len O (map (option_map (fun e => lmul O e f)) es) = option_map (fun e => lmul O e f) (path_len O es).
Proof.
  unfold path_len.
  assert (Hall : all_present (map (option_map (fun e => lmul O e f)) es) = all_present es).
  { unfold all_present. induction es as [|[e|] es IH]; simpl; auto. }
  assert (Hpr : present (map (option_map (fun e => lmul O e f)) es) = map (fun e => lmul O e f) (present es)).
  { clear Hall. unfold present. induction es as [|[e|] es IH]; simpl; auto. f_equal; auto. }
  rewrite Hall, Hpr. destruct (all_present es); simpl; auto.
  rewrite <- lmul_0 at 1. rewrite fold_ladd_scale. reflexivity.
Qed.

Lemma edge_of_rescale t x : edge_of (rescale O t f) x = option_map (fun e => lmul O e f) (edge_of t x).
Proof. unfold edge_of. rewrite nth_error_rescale. destruct (nth_error t x); reflexivity. Qed.

(* every path length is multiplied by f (and stays absent when absent); the edge count is unchanged *)
Theorem rescale_dist t root r a b :
  WFS t -> Rep t None 0 root r -> In a (ids r) -> In b (ids r) ->
  exists d k, get_distance O t a b = Ok (d, k) /\
              get_distance O (rescale O t f) a b = Ok (option_map (fun e => lmul O e f) d, k).
Proof.
  intros Hwfs HR Ha Hb. destruct (WFS_Rep _ _ _ Hwfs HR) as [Hnd _].
  destruct (dist_refines O _ _ _ _ _ HR Hnd Ha Hb) as (pa & pb & Hpa & Hpb & Hd).
  destruct (dist_refines O _ _ _ _ _ (Rep_rescale O t f _ _ _ _ HR) Hnd Ha Hb) as (pa' & pb' & Hpa' & Hpb' & Hd').
  rewrite Hpa in Hpa'. rewrite Hpb in Hpb'. injection Hpa' as <-. injection Hpb' as <-.
  cbv zeta in *. do 2 eexists. split; [exact Hd|]. rewrite Hd'. f_equal. f_equal.
  rewrite <- path_len_scale, map_map. f_equal. apply map_ext. intros x. apply edge_of_rescale.
Qed.

End Laws.
End Rescale.

(* ================================================================================================ *)
(* 5. compress                                                                                       *)
(* ================================================================================================ *)
Section Compress.
Context {L : Type}.
Notation arena := (@arena L).
Notation node := (@node L).
Implicit Types (t : arena) (n : node).
Variable O : LenOps L.

Ltac slot :=
  repeat first [ rewrite nth_error_replace_nth_neq by (auto; congruence)
               | rewrite nth_error_replace_nth_eq by (rewrite ?replace_nth_length; auto; lia) ].

Local Arguments reset_depth_f : simpl never.

Lemma WF_child t P nP c :
  WF t -> nth_error t P = Some nP -> ndeleted nP = false -> In c (nchildren nP) ->
  exists nc, nth_error t c = Some nc /\ ndeleted nc = false /\ nparent nc = Some P /\
             ndepth nc = S (ndepth nP) /\ edge_get (nedges nP) c = npedge nc /\ nid nc = c.
Proof.
  intros Hwf HnP HdP Hc. assert (HlP : live t P) by (exists nP; auto).
  destruct (WF_edit t P Hwf HlP) as (root & r & sP & pp & dp & rest & _ & _ & _ & HRP & _).
  destruct (Rep_inv _ _ _ _ _ HRP) as (nP0 & cs & -> & HnP0 & _ & _ & _ & Hdep & HF & He1 & _).
  assert (nP0 = nP) by congruence. subst nP0.
  destruct (Forall2_In_l _ _ _ _ HF Hc) as (s & _ & HRc).
  destruct (Rep_inv _ _ _ _ _ HRc) as (nc & ? & _ & Hnc & Hdc & Hidc & Hpc & Hdepc & _).
  exists nc. splits; auto. congruence.
Qed.

Definition compress_edge (pe ce : option L) : option (option L) :=
  match pe, ce with
  | Some p, Some c => Some (Some (ladd O p c))
  | None, None => Some None
  | _, _ => None
  end.

(* one compression step, slot by slot: [id] (a non-root node with the single child [child]) becomes a
   tombstone, [child] is re-attached to the parent P of [id] with the summed length, P gets [child] as
   its last child instead of [id]; every other slot is unchanged up to the cached depth *)
Lemma compress_node_exact t t' id :
  WFS t -> compress_node O t id = Ok t' ->
  exists n P child nP nc new_edge nP' dc,
    nth_error t id = Some n /\ ndeleted n = false /\ nparent n = Some P /\ nchildren n = [child] /\
    nth_error t P = Some nP /\ ndeleted nP = false /\
    nth_error t child = Some nc /\ ndeleted nc = false /\ nparent nc = Some id /\
    id <> P /\ child <> P /\ child <> id /\ In id (nchildren nP) /\ ~ In child (nchildren nP) /\
    compress_edge (npedge n) (npedge nc) = Some new_edge /\
    length t' = length t /\
    nth_error t' id = Some tombstone /\
    nth_error t' child = Some (set_ndepth (node_set_parent nc P new_edge) dc) /\
    nth_error t' P = Some nP' /\ same_labels nP nP' /\
    nchildren nP' = filter (fun k => negb (Nat.eqb k id)) (nchildren nP) ++ [child] /\
    (forall c, c <> id -> c <> child -> edge_get (nedges nP') c = edge_get (nedges nP) c) /\
    edge_get (nedges nP') child = new_edge /\ edge_get (nedges nP') id = None /\
    (forall j m, j <> id -> j <> P -> j <> child -> nth_error t j = Some m ->
       exists d, nth_error t' j = Some (set_ndepth m d)).
Proof.
  intros [Hwf Hse] H. unfold compress_node in H.
  apply bind_Ok in H as (n & Hgn & H).
  destruct (nparent n) as [P|] eqn:Hpar; [|discriminate].
  destruct (nchildren n) as [|child [|]] eqn:Hchn; try discriminate.
  match type of H with match ?X with _ => _ end = _ => destruct X as [new_edge|] eqn:Hne; [|discriminate] end.
  apply bind_Ok in H as (t1 & Ht1 & H).
  apply bind_Ok in H as (t2 & Ht2 & H).
  apply bind_Ok in H as (pn & Hpn & H).
  apply bind_Ok in H as (t3 & Ht3 & H).
  apply bind_Ok in H as (nid3 & Hg3 & H).
  apply bind_Ok in H as (pn4 & Hpn4 & H).
  pose proof Hgn as Hgn'. apply get_Ok in Hgn' as [Hn Hdeln].
  destruct (WF_parent_of _ _ _ _ Hwf Hgn Hpar) as (nP & HgP & HidP).
  pose proof HgP as HgP'. apply get_Ok in HgP' as [HnP HdP].
  destruct (WF_node_facts t P nP Hwf HnP HdP) as (HndchP & HchlP & He2P & _).
  destruct (HchlP _ HidP) as [_ HidP'].
  assert (Hcin : In child (nchildren n)) by (rewrite Hchn; simpl; auto).
  destruct (WF_child t id n child Hwf Hn Hdeln Hcin) as (nc & Hnc & Hdelc & Hpc & Hdepc & Hec & _).
  destruct (WF_child t P nP id Hwf HnP HdP HidP) as (n0 & Hn0 & _ & _ & Hdepn & _).
  assert (n0 = n) by congruence. subst n0.
  destruct (WF_node_facts t id n Hwf Hn Hdeln) as (_ & Hchln & _ & _).
  destruct (Hchln _ Hcin) as [_ Hchildid].
  assert (HchildP : child <> P). { intros ->. assert (nc = nP) by congruence. subst nc. lia. }
  assert (Hchild_nP : ~ In child (nchildren nP)).
  { intros Hin. destruct (WF_child t P nP child Hwf HnP HdP Hin) as (nc' & Hnc' & _ & Hpc' & _).
    assert (nc' = nc) by congruence. subst nc'. congruence. }
  assert (Hnone : edge_get (nedges nP) child = None).
  { destruct (edge_get (nedges nP) child) eqn:E; auto. exfalso. apply Hchild_nP. apply He2P. congruence. }
  rewrite Hec in Hne. fold (compress_edge (npedge n) (npedge nc)) in Hne.
  (* the arenas *)
  apply upd_inv in Ht1 as (nc' & Hgc & ->).
  assert (nc' = nc). { apply get_Ok in Hgc as [Hx _]. congruence. } subst nc'.
  apply upd_inv in Ht2 as (x & Hgx & ->).
  assert (x = nP). { apply get_Ok in Hgx as [Hx _]. revert Hx. slot. congruence. } subst x.
  assert (HltP : P < length t) by (eapply nth_error_Some_lt; eauto).
  assert (Hltid : id < length t) by (eapply nth_error_Some_lt; eauto).
  assert (Hltc : child < length t) by (eapply nth_error_Some_lt; eauto).
  assert (pn = node_add_child nP child new_edge).
  { apply get_Ok in Hpn as [Hx _]. revert Hx. slot. congruence. } subst pn.
  destruct (node_remove_child (node_add_child nP child new_edge) id) as [pn'|] eqn:Hrm; [|discriminate].
  injection Ht3 as <-.
  destruct (nac_fields nP child new_edge) as (Gid & Gpar & Gpe & Gdep & Gdel & Gch).
  assert (Hndch : NoDup (nchildren (node_add_child nP child new_edge))).
  { rewrite Gch. apply NoDup_app_iff. splits; auto.
    - repeat constructor. simpl; tauto.
    - intros j Hj [<-|[]]. auto. }
  destruct (nrc_children_filter _ _ _ Hndch Hrm) as [Hch' Hed'].
  rewrite Gch, filter_app in Hch'. simpl in Hch'.
  replace (Nat.eqb child id) with false in Hch' by (symmetry; apply Nat.eqb_neq; auto). simpl in Hch'.
  set (t4 := replace_nth id tombstone
               (replace_nth P pn' (replace_nth P (node_add_child nP child new_edge)
                  (replace_nth child (node_set_parent nc P new_edge) t)))) in *.
  assert (S_id : nth_error t4 id = Some tombstone) by (unfold t4; slot; auto).
  assert (S_P : nth_error t4 P = Some pn') by (unfold t4; slot; auto).
  assert (S_c : nth_error t4 child = Some (node_set_parent nc P new_edge)) by (unfold t4; slot; auto).
  assert (S_o : forall j, j <> id -> j <> P -> j <> child -> nth_error t4 j = nth_error t j)
    by (intros; unfold t4; slot; auto).
  destruct (reset_depth_only _ _ _ _ _ H) as [Hdo Hlen].
  destruct (depth_only_nth _ _ _ _ Hdo S_id) as (d1 & S8_id).
  destruct (depth_only_nth _ _ _ _ Hdo S_P) as (dP & S8_P).
  destruct (depth_only_nth _ _ _ _ Hdo S_c) as (dc & S8_c).
  exists n, P, child, nP, nc, new_edge, (set_ndepth pn' dP), dc.
  assert (Hlen4 : length t4 = length t) by (unfold t4; rewrite !replace_nth_length; auto).
  splits; auto; try congruence.
  - eapply reset_depth_dead; eauto.
  - eapply same_labels_trans; [apply nac_labels|].
    eapply same_labels_trans; [eapply nrc_labels; eauto|]. repeat split.
  - simpl. rewrite Hed'. intros c Hc1 Hc2. rewrite edge_get_remove_neq by auto. apply nac_edge_neq; auto.
  - simpl. rewrite Hed'. rewrite edge_get_remove_neq by auto. apply nac_edge_eq; auto.
  - simpl. rewrite Hed'. apply edge_get_remove_eq. apply nac_sorted. eauto.
  - intros j m Hj1 Hj2 Hj3 Hm. apply (depth_only_nth _ _ _ _ Hdo). rewrite S_o; auto.
Qed.

(* ---- leaves ---- *)
Definition leafkey n : option nat := if negb (ndeleted n) && is_tip n then Some (nid n) else None.

Lemma get_leaves_ext t : forall t',
  length t <= length t' ->
  (forall j n n', nth_error t j = Some n -> nth_error t' j = Some n' -> leafkey n' = leafkey n) ->
  (forall j n', length t <= j -> nth_error t' j = Some n' -> leafkey n' = None) ->
  get_leaves t' = get_leaves t.
Proof.
  unfold get_leaves. induction t as [|n t IH]; intros t' Hlen Hold Hnew.
  - simpl. induction t' as [|n' t' IH']; simpl; auto.
    assert (Hk : leafkey n' = None) by (apply (Hnew 0); simpl; auto; lia).
    unfold leafkey in Hk. destruct (negb (ndeleted n') && is_tip n'); [discriminate|].
    apply IH'; simpl; [lia|intros j ? ? Hj; destruct j; discriminate|].
    intros j m _ Hm. apply (Hnew (S j)); simpl; auto; lia.
  - destruct t' as [|n' t']; simpl in Hlen; [lia|].
    assert (Hk : leafkey n' = leafkey n) by (apply (Hold 0); reflexivity).
    simpl. unfold leafkey in Hk.
    assert (IHt : map nid (filter (fun n => negb (ndeleted n) && is_tip n) t') =
                  map nid (filter (fun n => negb (ndeleted n) && is_tip n) t)).
    { apply IH; [lia| |].
      - intros j m m' Hm Hm'. apply (Hold (S j)); auto.
      - intros j m' Hj Hm'. apply (Hnew (S j)); simpl; auto; lia. }
    destruct (negb (ndeleted n') && is_tip n'), (negb (ndeleted n) && is_tip n); simpl; congruence.
Qed.

Lemma leafkey_set_ndepth n d : leafkey (set_ndepth n d) = leafkey n.
Proof. reflexivity. Qed.

Lemma leafkey_nontip n : nchildren n <> [] -> leafkey n = None.
Proof. unfold leafkey, is_tip. destruct (nchildren n); [congruence|]. rewrite andb_false_r. auto. Qed.

Lemma leafkey_dead n : ndeleted n = true -> leafkey n = None.
Proof. unfold leafkey. intros ->. reflexivity. Qed.

Lemma compress_node_leaves t t' id :
  WFS t -> compress_node O t id = Ok t' -> get_leaves t' = get_leaves t.
Proof.
  intros Hwfs H.
  destruct (compress_node_exact t t' id Hwfs H)
    as (n & P & child & nP & nc & ne & nP' & dc & Hn & Hdn & Hpn & Hchn & HnP & HdP & Hnc & Hdc & Hpc &
        HidP & HcP & Hcid & HinP & HninP & _ & Hlen & Sid & Sc & SP & Hlab & HchP' & _ & _ & _ & So).
  apply get_leaves_ext; [lia| |].
  - intros j m m' Hm Hm'.
    destruct (Nat.eq_dec j id) as [->|H1]; [|destruct (Nat.eq_dec j P) as [->|H2];
                                              [|destruct (Nat.eq_dec j child) as [->|H3]]].
    + assert (m = n) by congruence. assert (m' = tombstone) by congruence. subst.
      rewrite (leafkey_nontip n) by (rewrite Hchn; discriminate). reflexivity.
    + assert (m = nP) by congruence. assert (m' = nP') by congruence. subst.
      rewrite !leafkey_nontip; auto.
      * intros E. rewrite E in HinP. auto.
      * rewrite HchP'. intros E. apply app_eq_nil in E as [_ E]. discriminate.
    + assert (m = nc) by congruence. subst m. rewrite Sc in Hm'. injection Hm' as <-. reflexivity.
    + destruct (So j m H1 H2 H3 Hm) as (d & Hd). rewrite Hd in Hm'. injection Hm' as <-. reflexivity.
  - intros j m' Hj Hm'. apply nth_error_Some_lt in Hm'. lia.
Qed.

(* ---- the loop ---- *)
Fixpoint compress_go (ids : list nat) (t : arena) : outcome arena * arena :=
  match ids with
  | [] => (Ok t, t)
  | i :: rest => match compress_node O t i with
                 | Ok t' => compress_go rest t'
                 | other => (other, t)
                 end
  end.

Lemma compress_unfold t :
  compress O t =
  compress_go (map nid (filter (fun n => negb (ndeleted n) && negb (is_root n) && Nat.eqb (length (nchildren n)) 1) t)) t.
Proof. reflexivity. Qed.

(* compress keeps the leaves, whatever it returns *)
Theorem compress_leaves t : WFS t -> get_leaves (snd (compress O t)) = get_leaves t.
Proof.
  rewrite compress_unfold. generalize (map nid (filter (fun n : node => negb (ndeleted n) && negb (is_root n) && Nat.eqb (length (nchildren n)) 1) t)).
  intros l. revert t. induction l as [|i l IH]; intros t Hwfs; simpl; auto.
  destruct (compress_node O t i) as [t1| | |] eqn:E; simpl; auto.
  rewrite IH by (eapply compress_node_wf; eauto). eapply compress_node_leaves; eauto.
Qed.

(* a live non-root node with exactly one child *)
Definition unary t j : Prop :=
  exists n, nth_error t j = Some n /\ ndeleted n = false /\ nparent n <> None /\ length (nchildren n) = 1.

Lemma length_filter_remove (l : list nat) x :
  NoDup l -> In x l -> S (length (filter (fun k => negb (Nat.eqb k x)) l)) = length l.
Proof.
  intros Hnd Hin. apply in_split in Hin as (l1 & l2 & ->).
  rewrite (filter_remove_first _ l1 l2 x Hnd eq_refl). rewrite !app_length. simpl. lia.
Qed.

Lemma compress_node_unary t t' id :
  WFS t -> compress_node O t id = Ok t' -> forall j, unary t' j -> unary t j /\ j <> id.
Proof.
  intros Hwfs H j (m' & Hm' & Hd' & Hp' & Hl').
  destruct (compress_node_exact t t' id Hwfs H)
    as (n & P & child & nP & nc & ne & nP' & dc & Hn & Hdn & Hpn & Hchn & HnP & HdP & Hnc & Hdc & Hpc &
        HidP & HcP & Hcid & HinP & HninP & _ & Hlen & Sid & Sc & SP & Hlab & HchP' & _ & _ & _ & So).
  destruct Hwfs as [Hwf _].
  destruct (WF_node_facts t P nP Hwf HnP HdP) as (HndchP & _).
  destruct (Nat.eq_dec j id) as [->|H1]; [|destruct (Nat.eq_dec j P) as [->|H2];
                                            [|destruct (Nat.eq_dec j child) as [->|H3]]].
  - rewrite Sid in Hm'. injection Hm' as <-. discriminate.
  - split; auto. assert (m' = nP') by congruence. subst m'. exists nP.
    destruct Hlab as (_ & _ & Hp & _ & _ & Hd). splits; auto; try congruence.
    rewrite HchP', app_length in Hl'. simpl in Hl'.
    rewrite <- (length_filter_remove _ id HndchP HinP). lia.
  - split; auto. rewrite Sc in Hm'. injection Hm' as <-. exists nc. simpl in *. splits; auto. congruence.
  - split; auto. assert (Hlt : j < length t) by (rewrite <- Hlen; eapply nth_error_Some_lt; eauto).
    destruct (nth_error t j) as [m|] eqn:Hm; [|apply nth_error_None in Hm; lia].
    destruct (So j m H1 H2 H3 Hm) as (d & Hd). rewrite Hd in Hm'. injection Hm' as <-.
    exists m. simpl in *. auto.
Qed.

(* postcondition of a successful compress: no live non-root node with a single child is left *)
Theorem compress_post t t' :
  WFS t -> fst (compress O t) = Ok t' ->
  snd (compress O t) = t' /\ WFS t' /\ forall j, ~ unary t' j.
Proof.
  intros Hwfs. rewrite compress_unfold.
  assert (Hinit : forall j, unary t j ->
            In j (map nid (filter (fun n : node => negb (ndeleted n) && negb (is_root n) && Nat.eqb (length (nchildren n)) 1) t))).
  { intros j (n & Hn & Hd & Hp & Hl). destruct Hwfs as [Hwf _].
    destruct (WF_node_facts t j n Hwf Hn Hd) as (_ & _ & _ & Hid).
    apply in_map_iff. exists n. split; auto. apply filter_In. split; [eapply nth_error_In; eauto|].
    rewrite Hd, Hl. unfold is_root. destruct (nparent n); [reflexivity|congruence]. }
  revert Hinit.
  generalize (map nid (filter (fun n : node => negb (ndeleted n) && negb (is_root n) && Nat.eqb (length (nchildren n)) 1) t)).
  intros l. revert t Hwfs. induction l as [|i l IH]; intros t Hwfs Hinit; simpl.
  - intros [= <-]. splits; auto.
  - destruct (compress_node O t i) as [t1| | |] eqn:E; simpl; try discriminate.
    apply IH; [eapply compress_node_wf; eauto|].
    intros j Hj. destruct (compress_node_unary _ _ _ Hwfs E j Hj) as [Hu Hne].
    destruct (Hinit j Hu) as [Hij|Hjl]; [congruence|exact Hjl].
Qed.

End Compress.

(* ================================================================================================ *)
(* 6. resolve                                                                                        *)
(* ================================================================================================ *)
Section Resolve.
Context {L : Type}.
Notation arena := (@arena L).
Notation node := (@node L).
Implicit Types (t : arena) (n : node).
Variable O : LenOps L.

Ltac slot :=
  repeat first [ rewrite nth_error_replace_nth_neq by (auto; congruence)
               | rewrite nth_error_replace_nth_eq by (rewrite ?replace_nth_length; auto; lia) ].

Local Arguments reset_depth_f : simpl never.

Lemma length_filter_keep2 (l : list nat) a b :
  NoDup l -> In a l -> In b l -> a <> b -> S (S (length (filter (keep2 a b) l))) = length l.
Proof.
  intros Hnd Ha Hb Hab.
  assert (E : filter (keep2 a b) l = filter (fun k => negb (Nat.eqb k b)) (filter (fun k => negb (Nat.eqb k a)) l)).
  { rewrite filter_filter. reflexivity. }
  rewrite E. rewrite length_filter_remove.
  - apply length_filter_remove; auto.
  - apply NoDup_filter; auto.
  - apply filter_In. split; auto. apply negb_true_iff, Nat.eqb_neq. auto.
Qed.

(* one grouping step of resolve, slot by slot *)
Lemma resolve_once_exact t node n c1 c2 n1 t2 t3 pn t4 n2 t5 t6 pn2 t7 pp t8 :
  WFS t -> get t node = Ok n -> In c1 (nchildren n) -> In c2 (nchildren n) -> c1 <> c2 ->
  let new := length t in
  let T1 := replace_nth node (node_add_child n new (Some (l0 O)))
              (t ++ [leaf_node new None None node (Some (l0 O)) (ndepth n + 1)]) in
  get T1 c1 = Ok n1 ->
  upd T1 new (fun x => node_add_child x c1 (npedge n1)) = Ok t2 ->
  upd t2 c1 (fun x => node_set_parent x new (npedge n1)) = Ok t3 ->
  get t3 node = Ok pn ->
  match node_remove_child pn c1 with Some pn' => Ok (replace_nth node pn' t3) | None => Err NodeError end = Ok t4 ->
  get t4 c2 = Ok n2 ->
  upd t4 new (fun x => node_add_child x c2 (npedge n2)) = Ok t5 ->
  upd t5 c2 (fun x => node_set_parent x new (npedge n2)) = Ok t6 ->
  get t6 node = Ok pn2 ->
  match node_remove_child pn2 c2 with Some pn' => Ok (replace_nth node pn' t6) | None => Err NodeError end = Ok t7 ->
  get t7 new = Ok pp ->
  reset_depth_f (fuel_of t7) t7 new (ndepth pp) = Ok t8 ->
  WFS t8 /\ length t8 = S (length t) /\
  nth_error t c1 = Some n1 /\ nth_error t c2 = Some n2 /\
  c1 <> node /\ c2 <> node /\ c1 < new /\ c2 < new /\ node < new /\
  (exists nP', nth_error t8 node = Some nP' /\ same_labels n nP' /\
     nchildren nP' = filter (keep2 c1 c2) (nchildren n) ++ [new] /\
     S (length (nchildren nP')) = length (nchildren n)) /\
  (exists d, nth_error t8 c1 = Some (set_ndepth (node_set_parent n1 new (npedge n1)) d)) /\
  (exists d, nth_error t8 c2 = Some (set_ndepth (node_set_parent n2 new (npedge n2)) d)) /\
  (exists nN, nth_error t8 new = Some nN /\
     merged_node nN new node c1 c2 (npedge n1) (npedge n2) (Some (l0 O)) None) /\
  (forall j m, j <> node -> j <> c1 -> j <> c2 -> nth_error t j = Some m ->
     exists d, nth_error t8 j = Some (set_ndepth m d)).
Proof.
  intros Hwfs Hgn Hc1 Hc2 Hc12 new T1 Hg1 Ht2 Ht3 Hgpn Ht4 Hg2 Ht5 Ht6 Hgpn2 Ht7 Hgpp Ht8.
  pose proof Hwfs as [Hwf Hse]. pose proof Hgn as Hgn'. apply get_Ok in Hgn' as [Hn Hdn].
  destruct (WF_node_facts t node n Hwf Hn Hdn) as (Hndch & Hchl & He2 & FidP).
  assert (HltP : node < length t) by (eapply nth_error_Some_lt; eauto).
  destruct (Hchl _ Hc1) as [Hl1 Hc1P]. destruct (Hchl _ Hc2) as [Hl2 Hc2P].
  assert (Hlt1 : c1 < length t) by (apply live_lt; auto).
  assert (Hlt2 : c2 < length t) by (apply live_lt; auto).
  assert (Hc1n : c1 <> new) by (unfold new; lia). assert (Hc2n : c2 <> new) by (unfold new; lia).
  assert (HPn : node <> new) by (unfold new; lia).
  set (pe := Some (l0 O)) in *.
  set (Y := leaf_node new None None node pe (ndepth n + 1)) in *.
  set (XP0 := node_add_child n new pe) in *.
  destruct (slots_add_leaf t node XP0 Y HltP) as (HsP & Hsnew & Hsfr & Hslen).
  fold T1 in HsP, Hsnew, Hsfr, Hslen. fold new in Hsnew, Hsfr.
  apply get_Ok in Hg1 as [Hn1 Hd1]. rewrite Hsfr in Hn1 by auto.
  set (e1 := npedge n1) in *.
  assert (Hg_new : get T1 new = Ok Y) by (apply get_Ok; auto).
  rewrite (upd_Ok _ _ _ _ Hg_new) in Ht2. injection Ht2 as <-.
  assert (Hg_c1 : get (replace_nth new (node_add_child Y c1 e1) T1) c1 = Ok n1).
  { apply get_Ok. split; auto. slot. rewrite Hsfr by auto. auto. }
  rewrite (upd_Ok _ _ _ _ Hg_c1) in Ht3. injection Ht3 as <-.
  set (A := node_set_parent n1 new e1) in *.
  assert (pn = XP0). { apply get_Ok in Hgpn as [Hx _]. revert Hx. slot. congruence. } subst pn.
  destruct (node_remove_child XP0 c1) as [pn'|] eqn:Hrm1; [|discriminate]. injection Ht4 as <-.
  apply get_Ok in Hg2 as [Hn2 Hd2]. revert Hn2. slot. rewrite Hsfr by auto. intros Hn2.
  set (e2 := npedge n2) in *.
  set (t4' := replace_nth node pn' (replace_nth c1 A (replace_nth new (node_add_child Y c1 e1) T1))) in *.
  assert (Hg_new4 : get t4' new = Ok (node_add_child Y c1 e1)).
  { apply get_Ok. split; [unfold t4'; slot; auto|]. unfold Y. destruct e1; reflexivity. }
  rewrite (upd_Ok _ _ _ _ Hg_new4) in Ht5. injection Ht5 as <-.
  set (XN := node_add_child (node_add_child Y c1 e1) c2 e2) in *.
  assert (Hg_c2 : get (replace_nth new XN t4') c2 = Ok n2).
  { apply get_Ok. split; auto. unfold t4'. slot. rewrite Hsfr by auto. auto. }
  rewrite (upd_Ok _ _ _ _ Hg_c2) in Ht6. injection Ht6 as <-.
  set (B := node_set_parent n2 new e2) in *.
  assert (pn2 = pn'). { apply get_Ok in Hgpn2 as [Hx _]. revert Hx. unfold t4'. slot. congruence. } subst pn2.
  destruct (node_remove_child pn' c2) as [pn''|] eqn:Hrm2; [|discriminate]. injection Ht7 as <-.
  set (t7' := replace_nth node pn'' (replace_nth c2 B (replace_nth new XN t4'))) in *.
  assert (S_P : nth_error t7' node = Some pn'') by (unfold t7', t4'; slot; auto).
  assert (S_new : nth_error t7' new = Some XN) by (unfold t7', t4'; slot; auto).
  assert (S_c1 : nth_error t7' c1 = Some A) by (unfold t7', t4'; slot; auto).
  assert (S_c2 : nth_error t7' c2 = Some B) by (unfold t7', t4'; slot; auto).
  assert (S_o : forall j, j <> node -> j <> new -> j <> c1 -> j <> c2 -> nth_error t7' j = nth_error t j).
  { intros. unfold t7', t4'. slot. rewrite Hsfr by auto. auto. }
  assert (pp = XN). { apply get_Ok in Hgpp as [Hx _]. congruence. } subst pp.
  destruct (nac_fields n new pe) as (Gid & Gpar & Gpe & Gdep & Gdel & Gch).
  fold XP0 in Gid, Gpar, Gpe, Gdep, Gdel, Gch.
  assert (Hnew_none : edge_get (nedges n) new = None).
  { destruct (edge_get (nedges n) new) eqn:E; auto. exfalso.
    assert (Hin : In new (nchildren n)) by (apply He2; congruence).
    apply Hchl in Hin as [Hl _]. apply live_lt in Hl. unfold new in Hl. lia. }
  assert (Hnd0 : NoDup (nchildren XP0)).
  { rewrite Gch. apply NoDup_app_iff. splits; auto.
    - repeat constructor. simpl; tauto.
    - intros j Hj [<-|[]]. apply Hchl in Hj as [Hl _]. apply live_lt in Hl. unfold new in Hl. lia. }
  assert (Hks0 : ksorted (nedges XP0)) by (apply nac_sorted; eauto).
  destruct (nrc2_facts XP0 c1 c2 pn' pn'' Hnd0 Hks0 Hc12 Hrm1 Hrm2)
    as (F1 & F2 & F3 & F4 & F5 & Fch & Feo & Fe1 & Fe2 & Fks).
  assert (nid XN = new /\ nparent XN = Some node /\ npedge XN = pe /\ ndeleted XN = false /\
          nchildren XN = [c1; c2] /\ ndepth XN = ndepth n + 1 /\ nname XN = None /\ ncomment XN = None)
    as (W1 & W2 & W3 & W4 & W5 & W6 & W7 & W8)
    by (unfold XN, Y; destruct e1, e2; simpl; auto 10).
  rewrite W6 in Ht8.
  assert (Fch' : nchildren pn'' = filter (keep2 c1 c2) (nchildren n) ++ [new]).
  { rewrite Fch, Gch, filter_app. simpl.
    replace (Nat.eqb new c1) with false by (symmetry; apply Nat.eqb_neq; auto).
    replace (Nat.eqb new c2) with false by (symmetry; apply Nat.eqb_neq; auto). reflexivity. }
  assert (Hwfs8 : WFS t8).
  { destruct (group2_wf t t7' node n c1 c2 n1 n2 pe e1 e2 pn'' XN) as (t8' & Hr8 & Hwfs8); auto; try congruence.
    - intros c Hq1 Hq2 Hq3. rewrite Feo by auto. unfold XP0. apply nac_edge_neq; auto.
    - rewrite Feo by auto. unfold XP0. apply nac_edge_eq; auto.
    - unfold XN. rewrite nac_edge_neq by auto. apply nac_edge_eq. reflexivity.
    - unfold XN. apply nac_edge_eq. rewrite nac_edge_neq by auto. reflexivity.
    - unfold XN. intros c Hc.
      destruct (Nat.eq_dec c c2) as [->|Hcc2]; auto. rewrite nac_edge_neq in Hc by auto.
      destruct (Nat.eq_dec c c1) as [->|Hcc1]; auto. rewrite nac_edge_neq in Hc by auto.
      simpl in Hc. congruence.
    - unfold t7', t4'. repeat apply SortedEdges_replace.
      + apply SortedEdges_app; auto. constructor.
      + auto.
      + apply nac_sorted. constructor.
      + unfold A. simpl. eauto.
      + destruct (nrc_inv _ _ _ Hrm1) as (? & ? & _ & _ & _ & -> & _). apply ksorted_remove. auto.
      + unfold XN. apply nac_sorted, nac_sorted. constructor.
      + unfold B. simpl. eauto.
      + auto.
    - fold new in Hr8. congruence. }
  destruct (reset_depth_only _ _ _ _ _ Ht8) as [Hdo Hlen8].
  assert (Hlen7 : length t7' = S (length t)).
  { unfold t7', t4'. rewrite !replace_nth_length. auto. }
  destruct (depth_only_nth _ _ _ _ Hdo S_new) as (dN & S8_new).
  destruct (depth_only_nth _ _ _ _ Hdo S_P) as (dP & S8_P).
  destruct (depth_only_nth _ _ _ _ Hdo S_c1) as (d1 & S8_1).
  destruct (depth_only_nth _ _ _ _ Hdo S_c2) as (d2 & S8_2).
  splits; auto; try lia; try congruence.
  - exists (set_ndepth pn'' dP). splits; auto.
    + eapply same_labels_trans; [apply nac_labels|].
      eapply same_labels_trans; [eapply nrc_labels; eauto|].
      eapply same_labels_trans; [eapply nrc_labels; eauto|]. repeat split.
    + simpl. rewrite Fch', app_length. simpl.
      pose proof (length_filter_keep2 _ c1 c2 Hndch Hc1 Hc2 Hc12). lia.
  - exists (set_ndepth XN dN). split; auto. unfold merged_node. simpl. splits; auto.
    + unfold XN. rewrite nac_edge_neq by auto. apply nac_edge_eq. reflexivity.
    + unfold XN. apply nac_edge_eq. rewrite nac_edge_neq by auto. reflexivity.
    + intros c Hca Hcb. unfold XN. rewrite !nac_edge_neq by auto. reflexivity.
  - intros j m H1 H2 H3 Hm. apply (depth_only_nth _ _ _ _ Hdo). rewrite S_o; auto.
    apply nth_error_Some_lt in Hm. unfold new. lia.
Qed.

(* a node created by resolve: zero length, no name, no comment, live, one or two children *)
Definition fresh n : Prop :=
  npedge n = Some (l0 O) /\ nname n = None /\ ncomment n = None /\ ndeleted n = false /\
  nchildren n <> [] /\ length (nchildren n) <= 2.

(* what may happen to a pre-existing slot: labels, length and liveness are kept, the child list does
   not grow and does not become empty *)
Definition kept n n' : Prop :=
  nid n' = nid n /\ nname n' = nname n /\ npedge n' = npedge n /\ ncomment n' = ncomment n /\
  ndeleted n' = ndeleted n /\ length (nchildren n') <= length (nchildren n) /\
  (nchildren n' = [] <-> nchildren n = []).

Definition rext t t' : Prop :=
  length t <= length t' /\
  (forall j m, nth_error t j = Some m -> exists m', nth_error t' j = Some m' /\ kept m m') /\
  (forall j m', length t <= j -> nth_error t' j = Some m' -> fresh m').

Lemma kept_refl n : kept n n.
Proof. unfold kept. splits; auto. tauto. Qed.

Lemma kept_trans n1 n2 n3 : kept n1 n2 -> kept n2 n3 -> kept n1 n3.
Proof. unfold kept. intros (?&?&?&?&?&?&?) (?&?&?&?&?&?&?). splits; try congruence; try lia; tauto. Qed.

Lemma kept_set_ndepth n d : kept n (set_ndepth n d).
Proof. unfold kept. simpl. splits; auto. tauto. Qed.

Lemma kept_reparent n p d : kept n (set_ndepth (node_set_parent n p (npedge n)) d).
Proof. unfold kept. simpl. splits; auto. tauto. Qed.

Lemma kept_fresh n n' : fresh n -> kept n n' -> fresh n'.
Proof.
  unfold fresh, kept. intros (?&?&?&?&?&?) (?&?&?&?&?&?&?). splits; try congruence; try lia; tauto.
Qed.

Lemma rext_refl t : rext t t.
Proof.
  unfold rext. splits; auto.
  - intros j m Hm. exists m. split; auto. apply kept_refl.
  - intros j m' Hj Hm'. apply nth_error_Some_lt in Hm'. lia.
Qed.

Lemma rext_trans t1 t2 t3 : rext t1 t2 -> rext t2 t3 -> rext t1 t3.
Proof.
  intros (Hl1 & Ho1 & Hf1) (Hl2 & Ho2 & Hf2). unfold rext. splits; [lia| |].
  - intros j m Hm. destruct (Ho1 _ _ Hm) as (m2 & Hm2 & Hk2). destruct (Ho2 _ _ Hm2) as (m3 & Hm3 & Hk3).
    exists m3. split; auto. eapply kept_trans; eauto.
  - intros j m3 Hj Hm3. destruct (Nat.lt_ge_cases j (length t2)) as [Hlt|Hge].
    + destruct (nth_error t2 j) as [m2|] eqn:Hm2; [|apply nth_error_None in Hm2; lia].
      destruct (Ho2 _ _ Hm2) as (m3' & Hm3' & Hk3). assert (m3' = m3) by congruence. subst m3'.
      eapply kept_fresh; eauto.
    + eauto.
Qed.

Lemma resolve_node_exact : forall fuel t node ch t' rest,
  WFS t -> resolve_node_f O fuel t node ch = Ok (Some (t', rest)) ->
  WFS t' /\ rext t t' /\ exists m', nth_error t' node = Some m' /\ length (nchildren m') <= 2.
Proof.
  induction fuel as [|f IH]; intros t node ch t' rest Hwfs H; [discriminate|].
  simpl in H.
  apply bind_Ok in H as (n & Hgn & H).
  destruct ch as [|[c1 c2] ch']; [discriminate|].
  destruct (negb (mem_nat c1 (nchildren n) && mem_nat c2 (nchildren n) && negb (Nat.eqb c1 c2))) eqn:Hcond; [discriminate|].
  apply negb_false_iff in Hcond. apply andb_prop in Hcond as [Hcond Hc12]. apply andb_prop in Hcond as [Hc1 Hc2].
  apply mem_nat_In in Hc1, Hc2. apply negb_true_iff, Nat.eqb_neq in Hc12.
  rewrite (add_child_Ok _ _ _ _ _ _ Hgn) in H. rewrite bind_ret in H.
  apply bind_Ok in H as (n1 & Hg1 & H).
  apply bind_Ok in H as (t2 & Ht2 & H).
  apply bind_Ok in H as (t3 & Ht3 & H).
  apply bind_Ok in H as (pn & Hgpn & H).
  apply bind_Ok in H as (t4 & Ht4 & H).
  apply bind_Ok in H as (n2 & Hg2 & H).
  apply bind_Ok in H as (t5 & Ht5 & H).
  apply bind_Ok in H as (t6 & Ht6 & H).
  apply bind_Ok in H as (pn2 & Hgpn2 & H).
  apply bind_Ok in H as (t7 & Ht7 & H).
  apply bind_Ok in H as (pp & Hgpp & H).
  apply bind_Ok in H as (t8 & Ht8 & H).
  destruct (resolve_once_exact t node n c1 c2 n1 t2 t3 pn t4 n2 t5 t6 pn2 t7 pp t8
              Hwfs Hgn Hc1 Hc2 Hc12 Hg1 Ht2 Ht3 Hgpn Ht4 Hg2 Ht5 Ht6 Hgpn2 Ht7 Hgpp Ht8)
    as (Hwfs8 & Hlen8 & Hn1 & Hn2 & Hc1P & Hc2P & Hlt1 & Hlt2 & HltP &
        (nP' & SP & Hlab & HchP' & HlenP') & (d1 & S1) & (d2 & S2) & (nN & SN & HN) & So).
  pose proof Hgn as Hgn'. apply get_Ok in Hgn' as [Hn Hdn].
  assert (Hext : rext t t8).
  { unfold rext. splits; [lia| |].
    - intros j m Hm.
      destruct (Nat.eq_dec j node) as [->|H1]; [|destruct (Nat.eq_dec j c1) as [->|H2];
                                                [|destruct (Nat.eq_dec j c2) as [->|H3]]].
      + assert (m = n) by congruence. subst m. exists nP'. split; auto.
        destruct Hlab as (?&?&?&?&?&?). unfold kept. splits; auto; try lia.
        split; intros E; exfalso.
        * rewrite HchP' in E. apply app_eq_nil in E as [_ E]. discriminate.
        * rewrite E in Hc1. auto.
      + assert (m = n1) by congruence. subst m. eexists. split; [exact S1|]. apply kept_reparent.
      + assert (m = n2) by congruence. subst m. eexists. split; [exact S2|]. apply kept_reparent.
      + destruct (So j m H1 H2 H3 Hm) as (d & Hd). eexists. split; [exact Hd|]. apply kept_set_ndepth.
    - intros j m' Hj Hm'. pose proof (nth_error_Some_lt _ _ _ Hm') as Hlt. rewrite Hlen8 in Hlt.
      assert (j = length t) by lia. subst j. assert (m' = nN) by congruence. subst m'.
      destruct HN as (_ & Hnm & _ & Hch & Hpe & Hcm & Hdel & _). unfold fresh. rewrite Hch. simpl.
      splits; auto. discriminate. }
  destruct (Nat.leb (length (nchildren n) - 1) 2) eqn:Hle.
  - injection H as <- <-. splits; auto. exists nP'. split; auto. apply Nat.leb_le in Hle. lia.
  - destruct (IH _ _ _ _ _ Hwfs8 H) as (Hwfs' & Hext' & Hnode). splits; auto.
    eapply rext_trans; eauto.
Qed.

Definition resolve_step (st : option (arena * list (nat * nat))) (id : nat)
  : outcome (option (arena * list (nat * nat))) :=
  match st with
  | None => Ok None
  | Some (t, ch) => resolve_node_f O (fuel_of t) t id ch
  end.

Lemma resolve_fold_None l : foldM resolve_step l None = Ok None.
Proof. induction l; simpl; auto. Qed.

Lemma resolve_fold : forall l tc ch tf chf,
  WFS tc -> foldM resolve_step l (Some (tc, ch)) = Ok (Some (tf, chf)) ->
  WFS tf /\ rext tc tf /\
  (forall j m, In j l -> nth_error tf j = Some m -> length (nchildren m) <= 2).
Proof.
  induction l as [|id l IH]; intros tc ch tf chf Hwfs H; cbn [foldM] in H.
  - injection H as <- <-. splits; auto using rext_refl. simpl; tauto.
  - apply bind_Ok in H as (st & Hst & H). unfold resolve_step in Hst. destruct st as [[t1 ch1]|]; [|rewrite resolve_fold_None in H; discriminate].
    destruct (resolve_node_exact _ _ _ _ _ _ Hwfs Hst) as (Hwfs1 & Hext1 & m1 & Hm1 & Hle1).
    destruct (IH _ _ _ _ Hwfs1 H) as (Hwfsf & Hextf & Hl). splits; auto.
    + eapply rext_trans; eauto.
    + intros j m [<-|Hj] Hm; eauto.
      destruct Hextf as (_ & Ho & _). destruct (Ho _ _ Hm1) as (mf & Hmf & Hk).
      assert (mf = m) by congruence. subst mf. destruct Hk as (_&_&_&_&_&Hk&_). lia.
Qed.

(* postcondition of resolve: every live node has at most two children; the leaves are the same; every
   pre-existing slot keeps its id, name, length, comment and liveness; the nodes created have length
   0, no name and no comment *)
Theorem resolve_post t t' choices :
  WFS t -> resolve O t choices = Ok (Some t') ->
  WFS t' /\
  (forall j m, nth_error t' j = Some m -> ndeleted m = false -> length (nchildren m) <= 2) /\
  get_leaves t' = get_leaves t /\
  length t <= length t' /\
  (forall j m', length t <= j -> nth_error t' j = Some m' -> fresh m') /\
  (forall j m, nth_error t j = Some m -> exists m', nth_error t' j = Some m' /\ kept m m').
Proof.
  intros Hwfs H. unfold resolve in H. apply bind_Ok in H as (r & Hfold & H).
  destruct r as [[t2 [|]]|]; try discriminate. injection H as <-.
  change (foldM resolve_step (map nid (filter (fun n : node => Nat.ltb 2 (length (nchildren n))) t))
            (Some (t, choices)) = Ok (Some (t2, []))) in Hfold.
  destruct (resolve_fold _ _ _ _ _ Hwfs Hfold) as (Hwfs2 & (Hlen & Hold & Hnew) & Hbin).
  splits; auto.
  - intros j m Hm Hd. destruct (Nat.lt_ge_cases j (length t)) as [Hlt|Hge].
    + destruct (nth_error t j) as [m0|] eqn:Hm0; [|apply nth_error_None in Hm0; lia].
      destruct (Hold _ _ Hm0) as (m' & Hm' & Hk). assert (m' = m) by congruence. subst m'.
      destruct Hk as (_&_&_&_&Hdel&Hcnt&_).
      destruct (Nat.le_gt_cases (length (nchildren m0)) 2) as [Hle|Hgt]; [lia|].
      apply (Hbin j m); auto. destruct Hwfs as [Hwf _].
      destruct (WF_node_facts t j m0 Hwf Hm0) as (_ & _ & _ & Hid); [congruence|].
      apply in_map_iff. exists m0. split; auto. apply filter_In. split; [eapply nth_error_In; eauto|].
      apply Nat.ltb_lt. auto.
    + destruct (Hnew _ _ Hge Hm) as (_&_&_&_&_&?). auto.
  - apply get_leaves_ext; auto.
    + intros j m m' Hm Hm'. destruct (Hold _ _ Hm) as (m'' & Hm'' & Hk). assert (m'' = m') by congruence. subst m''.
      destruct Hk as (Hid&_&_&_&Hdel&_&Htip). unfold leafkey, is_tip. rewrite Hid, Hdel.
      destruct (nchildren m'), (nchildren m); auto; exfalso; destruct Htip as [H1 H2];
        try (specialize (H1 eq_refl); discriminate); try (specialize (H2 eq_refl); discriminate).
    + intros j m' Hj Hm'. destruct (Hnew _ _ Hj Hm') as (_&_&_&_&Hne&_). apply leafkey_nontip. auto.
Qed.

End Resolve.

(* ================================================================================================ *)
(* 7. ladderize                                                                                      *)
(* ================================================================================================ *)
Section Ladderize.
Context {L : Type}.
Notation arena := (@arena L).
Notation node := (@node L).
Implicit Types (t : arena) (n : node).

Definition ladder_step (st : arena * list nat) (id : nat) : outcome (arena * list nat) :=
  let '(t, cnt) := st in
  n <- get t id ;;
  let c := fold_left (fun acc ch => acc + nth ch cnt 0 + 1) (nchildren n) (nth id cnt 0) in
  let cnt' := replace_nth id c cnt in
  let ch' := stable_sort (fun a b => Nat.leb (nth a cnt' 0) (nth b cnt' 0)) (nchildren n) in
  Ok (replace_nth id (set_nchildren n ch') t, cnt').

Lemma ladderize_unfold t :
  ladderize t = (r <- get_root t ;; lo <- levelorder t r ;;
                 st <- foldM ladder_step (rev lo) (t, repeat 0 (length t)) ;; Ok (fst st)).
Proof.
  unfold ladderize. destruct (get_root t); simpl; auto. destruct (levelorder t a); simpl; auto.
  match goal with |- bind ?X _ = bind ?Y _ => change X with Y; destruct Y as [[t' c]| | |] end; reflexivity.
Qed.

(* only child lists change, and each is permuted (no well-formedness needed) *)
Definition perm_of t t' : Prop :=
  length t' = length t /\
  forall j n, nth_error t j = Some n ->
    exists ch, nth_error t' j = Some (set_nchildren n ch) /\ Permutation ch (nchildren n).

Lemma set_nchildren_id n : set_nchildren n (nchildren n) = n.
Proof. destruct n; reflexivity. Qed.

Lemma perm_of_refl t : perm_of t t.
Proof. split; auto. intros j n Hn. exists (nchildren n). rewrite set_nchildren_id. auto. Qed.

Lemma ladder_step_perm t st id st' :
  perm_of t (fst st) -> ladder_step st id = Ok st' -> perm_of t (fst st').
Proof.
  destruct st as [tc cnt]. simpl. intros [Hlen Hp] H.
  apply bind_Ok in H as (m & Hg & H). injection H as <-. simpl. apply get_Ok in Hg as [Hm _].
  split; [rewrite replace_nth_length; auto|].
  intros j n Hn. destruct (Hp j n Hn) as (ch & Hch & Hperm).
  destruct (Nat.eq_dec j id) as [->|Hne].
  - assert (m = set_nchildren n ch) by congruence. subst m. eexists. split.
    + erewrite nth_error_replace_nth_eq' by eauto. reflexivity.
    + simpl. eapply Permutation_trans; [apply stable_sort_perm|]. auto.
  - exists ch. rewrite nth_error_replace_nth_neq; auto.
Qed.

Theorem ladderize_perm t t' : ladderize t = Ok t' -> perm_of t t'.
Proof.
  rewrite ladderize_unfold. intros H.
  apply bind_Ok in H as (root & _ & H). apply bind_Ok in H as (lo & _ & H).
  apply bind_Ok in H as (st & Hfold & H). injection H as <-.
  refine (foldM_inv (fun st : arena * list nat => perm_of t (fst st)) _ _ _ _ _ _ Hfold).
  - intros s a s' Hs Hstep. eapply ladder_step_perm; eauto.
  - apply perm_of_refl.
Qed.

End Ladderize.

(* ---- the ladderized tree ---------------------------------------------------------------------- *)
Definition size_leb (a b : rtree) : bool := Nat.leb (rsize a) (rsize b).

Fixpoint rladder (r : rtree) {struct r} : rtree :=
  match r with RT i cs => RT i (stable_sort size_leb (map rladder cs)) end.

(* number of (strict) descendants of node a in r *)
Definition desc (r : rtree) (a : nat) : nat :=
  match rsub a r with Some s => rsize s - 1 | None => 0 end.

Lemma rid_rladder r : rid (rladder r) = rid r.
Proof. destruct r; reflexivity. Qed.

Lemma ids_rladder_perm : forall r, Permutation (ids (rladder r)) (ids r).
Proof.
  induction r as [i cs IH] using rtree_ind'. cbn [rladder]. rewrite !ids_RT. apply perm_skip.
  eapply Permutation_trans; [apply Permutation_flat_map, stable_sort_perm|].
  rewrite flat_map_concat_map, map_map, <- flat_map_concat_map.
  apply Traversals.flat_map_Permutation_ext. exact IH.
Qed.

Lemma rsize_rladder r : rsize (rladder r) = rsize r.
Proof. rewrite !rsize_ids. apply Permutation_length, ids_rladder_perm. Qed.

Lemma insert_sorted_map {A B} (g : A -> B) (leb : A -> A -> bool) (leb' : B -> B -> bool) x l :
  (forall y, In y l -> leb' (g x) (g y) = leb x y) ->
  map g (insert_sorted leb x l) = insert_sorted leb' (g x) (map g l).
Proof.
  induction l as [|y l IH]; simpl; auto. intros H. rewrite (H y) by auto.
  destruct (leb x y); simpl; auto. f_equal. apply IH. intros; apply H; auto.
Qed.

Lemma stable_sort_map {A B} (g : A -> B) (leb : A -> A -> bool) (leb' : B -> B -> bool) l :
  (forall x y, In x l -> In y l -> leb' (g x) (g y) = leb x y) ->
  map g (stable_sort leb l) = stable_sort leb' (map g l).
Proof.
  unfold stable_sort. induction l as [|x l IH]; simpl; auto. intros H.
  rewrite <- IH by (intros; apply H; auto). apply insert_sorted_map.
  intros y Hy. apply H; auto. right. eapply Permutation_in; [apply (stable_sort_perm leb)|exact Hy].
Qed.

Lemma stable_sort_ext {A} (leb leb' : A -> A -> bool) l :
  (forall x y, In x l -> In y l -> leb' x y = leb x y) -> stable_sort leb l = stable_sort leb' l.
Proof.
  intros H. pose proof (stable_sort_map (fun x => x) leb leb' l H) as E. rewrite !map_id in E. exact E.
Qed.

Lemma insert_sorted_sorted {A} (key : A -> nat) x l :
  Sorted (fun a b => key a <= key b) l ->
  Sorted (fun a b => key a <= key b) (insert_sorted (fun a b => Nat.leb (key a) (key b)) x l).
Proof.
  induction 1 as [|y l Hl IH Hy]; simpl; [repeat constructor|].
  destruct (Nat.leb_spec (key x) (key y)).
  - constructor; [constructor; auto|]. constructor. auto.
  - constructor; auto. destruct l as [|z l]; simpl in *.
    + constructor. lia.
    + destruct (Nat.leb_spec (key x) (key z)); constructor; try lia. inversion Hy; auto.
Qed.

Lemma stable_sort_sorted {A} (key : A -> nat) l :
  Sorted (fun a b => key a <= key b) (stable_sort (fun a b => Nat.leb (key a) (key b)) l).
Proof. unfold stable_sort. induction l; simpl; [constructor|]. apply insert_sorted_sorted. auto. Qed.

Lemma leb_pred a b : 1 <= a -> 1 <= b -> Nat.leb (a - 1) (b - 1) = Nat.leb a b.
Proof. intros. destruct (Nat.leb_spec a b), (Nat.leb_spec (a - 1) (b - 1)); auto; lia. Qed.

Lemma desc_child r P cs c :
  NoDup (ids r) -> rsub P r = Some (RT P cs) -> In c cs -> desc r (rid c) = rsize c - 1.
Proof.
  intros Hnd HP Hc. unfold desc. erewrite rsub_trans; eauto.
  pose proof (rsub_NoDup _ _ _ Hnd HP) as HndP. rewrite ids_RT in HndP. apply NoDup_cons_iff in HndP as [HPn Hndcs].
  rewrite rsub_RT. destruct (Nat.eqb_spec P (rid c)) as [E|_].
  - exfalso. apply HPn. rewrite E. apply in_flat_map. exists c. split; auto. apply In_rid_ids.
  - rewrite (rsub_first_in (rid c) cs c); auto using In_rid_ids, rsub_self.
Qed.

(* the child list of the ladderized node, as a sort of the original child ids by descendant count *)
Lemma rladder_children r P cs :
  NoDup (ids r) -> rsub P r = Some (RT P cs) ->
  map rid (stable_sort size_leb (map rladder cs)) =
  stable_sort (fun a b => Nat.leb (desc r a) (desc r b)) (map rid cs).
Proof.
  intros Hnd HP.
  rewrite (stable_sort_map rid size_leb (fun a b => Nat.leb (desc r a) (desc r b))).
  - f_equal. rewrite map_map. apply map_ext. intros; apply rid_rladder.
  - intros x y Hx Hy. apply in_map_iff in Hx as (cx & <- & Hcx). apply in_map_iff in Hy as (cy & <- & Hcy).
    rewrite !rid_rladder. rewrite (desc_child r P cs cx), (desc_child r P cs cy) by auto.
    unfold size_leb. rewrite !rsize_rladder. apply leb_pred; apply Traversals.rsize_pos.
Qed.

Section Ladderize2.
Context {L : Type}.
Notation arena := (@arena L).
Notation node := (@node L).
Implicit Types (t : arena) (n : node).

Lemma foldM_app {A S} (g : S -> A -> outcome S) l1 l2 s :
  foldM g (l1 ++ l2) s = bind (foldM g l1 s) (foldM g l2).
Proof. revert s; induction l1 as [|a l1 IH]; simpl; auto. intros s. destruct (g s a); simpl; auto. Qed.

Lemma nth_replace_nth_eq k (x : nat) l : k < length l -> nth k (replace_nth k x l) 0 = x.
Proof. revert k; induction l; destruct k; simpl; intros; try lia; auto. apply IHl; lia. Qed.

Lemma nth_replace_nth_neq k j (x : nat) l : j <> k -> nth j (replace_nth k x l) 0 = nth j l 0.
Proof. revert k j; induction l; destruct k, j; simpl; intros; try congruence; auto. Qed.

(* the subtree s has been processed: each of its nodes has its children sorted and its counter set *)
Inductive Lad (t t1 : arena) (cnt : list nat) : rtree -> Prop :=
| Lad_node : forall i cs n,
    nth_error t i = Some n ->
    nth_error t1 i = Some (set_nchildren n (map rid (stable_sort size_leb (map rladder cs)))) ->
    nth i cnt 0 = rsize (RT i cs) - 1 ->
    Forall (Lad t t1 cnt) cs ->
    Lad t t1 cnt (RT i cs).

Lemma Lad_cnt t t1 cnt s : Lad t t1 cnt s -> nth (rid s) cnt 0 = rsize s - 1.
Proof. intros H. inversion H; subst. auto. Qed.

Lemma Lad_frame t t1 cnt t2 cnt2 : forall s,
  Lad t t1 cnt s ->
  (forall j, In j (ids s) -> nth_error t2 j = nth_error t1 j /\ nth j cnt2 0 = nth j cnt 0) ->
  Lad t t2 cnt2 s.
Proof.
  induction s as [i cs IH] using rtree_ind'. intros HL Hfr. inversion HL as [? ? n Hn Hn1 Hc HF]; subst.
  destruct (Hfr i) as [E1 E2]; [apply in_ids_RT; auto|].
  apply Lad_node with (n := n); auto; try congruence.
  rewrite Forall_forall in *. intros c Hc'. apply IH; auto.
  intros j Hj. apply Hfr. apply in_ids_RT. right. apply in_flat_map; eauto.
Qed.

Lemma Lad_rsub t t1 cnt x : forall r s, Lad t t1 cnt r -> rsub x r = Some s -> Lad t t1 cnt s.
Proof.
  induction r as [i cs IH] using rtree_ind'. intros s HL Hs. rewrite rsub_RT in Hs.
  destruct (Nat.eqb_spec i x) as [->|Hne]; [injection Hs as <-; auto|].
  apply rsub_first_Some in Hs as (c & Hc & Hs). inversion HL as [? ? n Hn Hn1 Hcn HF]; subst.
  rewrite Forall_forall in *. eapply IH; eauto.
Qed.

Lemma Lad_Shape t t1 cnt : forall s, Lad t t1 cnt s -> Shape t1 (rid s) (rladder s).
Proof.
  induction s as [i cs IH] using rtree_ind'. intros HL. inversion HL as [? ? n Hn Hn1 Hcn HF]; subst.
  cbn [rladder rid]. econstructor; [exact Hn1|]. simpl.
  assert (Hall : Forall (fun x => Shape t1 (rid x) x) (stable_sort size_leb (map rladder cs))).
  { apply Forall_forall. intros x Hx.
    eapply Permutation_in in Hx; [|apply stable_sort_perm]. apply in_map_iff in Hx as (c & <- & Hc).
    rewrite rid_rladder. rewrite Forall_forall in *. auto. }
  clear - Hall. induction Hall; simpl; constructor; auto.
Qed.

Lemma count_fold cnt cs : forall a,
  Forall (fun c => nth (rid c) cnt 0 = rsize c - 1) cs ->
  fold_left (fun acc ch => acc + nth ch cnt 0 + 1) (map rid cs) a = a + Traversals.fsize cs.
Proof.
  induction cs as [|c cs IH]; intros a H; simpl; [lia|]. inversion H; subst.
  rewrite IH by auto. pose proof (Traversals.rsize_pos c). lia.
Qed.

Definition root_ready t tc cnt (s : rtree) : Prop :=
  exists n, nth_error t (rid s) = Some n /\ ndeleted n = false /\ nchildren n = map rid (rch s) /\
            nth_error tc (rid s) = Some n /\ nth (rid s) cnt 0 = 0 /\ Forall (Lad t tc cnt) (rch s).

Lemma ladder_roots t : forall rs tc cnt,
  NoDup (flat_map ids rs) -> length tc = length t -> length cnt = length t ->
  Forall (root_ready t tc cnt) rs ->
  exists tc' cnt', foldM ladder_step (map rid rs) (tc, cnt) = Ok (tc', cnt') /\
    length tc' = length t /\ length cnt' = length t /\
    (forall j, ~ In j (map rid rs) -> nth_error tc' j = nth_error tc j /\ nth j cnt' 0 = nth j cnt 0) /\
    Forall (Lad t tc' cnt') rs.
Proof.
  induction rs as [|s rs IH]; intros tc cnt Hnd Hlt Hlc Hready.
  - exists tc, cnt. simpl. splits; auto.
  - inversion Hready as [|? ? Hs Hrs]; subst. destruct s as [i cs].
    destruct Hs as (n & Hn & Hdel & Hch & Hnc & Hci & HLcs). simpl in Hn, Hch, Hnc, Hci, HLcs.
    cbn [flat_map] in Hnd. apply NoDup_app_iff in Hnd as (Hnds & Hndrs & Hdisj).
    rewrite ids_RT in Hnds. apply NoDup_cons_iff in Hnds as [Hi Hndcs].
    assert (Hilt : i < length t) by (eapply nth_error_Some_lt; eauto).
    assert (Hg : get tc i = Ok n) by (apply get_Ok; auto).
    set (c := fold_left (fun acc ch => acc + nth ch cnt 0 + 1) (nchildren n) (nth i cnt 0)).
    set (cnt2 := replace_nth i c cnt).
    set (ch' := stable_sort (fun a b => Nat.leb (nth a cnt2 0) (nth b cnt2 0)) (nchildren n)).
    set (tc2 := replace_nth i (set_nchildren n ch') tc).
    assert (Hstep : ladder_step (tc, cnt) i = Ok (tc2, cnt2)).
    { unfold ladder_step. rewrite Hg. reflexivity. }
    assert (Hcnt_cs : Forall (fun c0 => nth (rid c0) cnt 0 = rsize c0 - 1) cs).
    { rewrite Forall_forall in *. intros c0 Hc0. apply Lad_cnt with (t := t) (t1 := tc). auto. }
    assert (Hc : c = Traversals.fsize cs).
    { unfold c. rewrite Hch, Hci, count_fold by auto. lia. }
    assert (Hfr2 : forall j, j <> i -> nth_error tc2 j = nth_error tc j /\ nth j cnt2 0 = nth j cnt 0).
    { intros j Hj. unfold tc2, cnt2. rewrite nth_error_replace_nth_neq, nth_replace_nth_neq; auto. }
    assert (Hch' : ch' = map rid (stable_sort size_leb (map rladder cs))).
    { unfold ch'. rewrite Hch.
      rewrite (stable_sort_map rid size_leb (fun a b => Nat.leb (nth a cnt2 0) (nth b cnt2 0))).
      - f_equal. rewrite map_map. apply map_ext. intros; symmetry; apply rid_rladder.
      - intros x y Hx Hy. apply in_map_iff in Hx as (cx & <- & Hcx). apply in_map_iff in Hy as (cy & <- & Hcy).
        rewrite !rid_rladder. rewrite Forall_forall in Hcnt_cs.
        assert (Hne : forall c0, In c0 cs -> rid c0 <> i).
        { intros c0 Hc0 E. apply Hi. apply in_flat_map. exists c0. split; auto. rewrite <- E. apply In_rid_ids. }
        rewrite (proj2 (Hfr2 _ (Hne _ Hcx))), (proj2 (Hfr2 _ (Hne _ Hcy))).
        rewrite (Hcnt_cs _ Hcx), (Hcnt_cs _ Hcy). unfold size_leb. rewrite !rsize_rladder.
        apply leb_pred; apply Traversals.rsize_pos. }
    assert (HL2 : Lad t tc2 cnt2 (RT i cs)).
    { apply Lad_node with (n := n); auto.
      - unfold tc2. rewrite nth_error_replace_nth_eq by lia. rewrite Hch'. reflexivity.
      - unfold cnt2. rewrite nth_replace_nth_eq by lia. rewrite Hc, Traversals.rsize_RT. lia.
      - rewrite Forall_forall in *. intros c0 Hc0. eapply Lad_frame; [apply HLcs; auto|].
        intros j Hj. apply Hfr2. intros ->. apply Hi. apply in_flat_map; eauto. }
    assert (Hready2 : Forall (root_ready t tc2 cnt2) rs).
    { rewrite Forall_forall in *. intros s' Hs'. destruct (Hrs s' Hs') as (n' & H1 & H2 & H3 & H4 & H5 & H6).
      assert (Hnot : forall j, In j (ids s') -> j <> i).
      { intros j Hj ->. eapply Hdisj; [apply in_ids_RT; left; reflexivity|]. apply in_flat_map; eauto. }
      exists n'. splits; auto.
      - rewrite (proj1 (Hfr2 _ (Hnot _ (In_rid_ids s')))). auto.
      - rewrite (proj2 (Hfr2 _ (Hnot _ (In_rid_ids s')))). auto.
      - rewrite Forall_forall in *. intros c0 Hc0. eapply Lad_frame; [apply H6; auto|].
        intros j Hj. apply Hfr2. apply Hnot. destruct s' as [i' cs']. apply in_ids_RT. right.
        apply in_flat_map; eauto. }
    destruct (IH tc2 cnt2 Hndrs) as (tc' & cnt' & Hfold & Hl1 & Hl2 & Hfr & HLrs); auto.
    { unfold tc2. rewrite replace_nth_length. auto. }
    { unfold cnt2. rewrite replace_nth_length. auto. }
    exists tc', cnt'. splits; auto.
    + cbn [map foldM rid]. rewrite Hstep. exact Hfold.
    + intros j Hj. simpl in Hj. destruct (Hfr j) as [E1 E2]; [tauto|].
      destruct (Hfr2 j) as [E3 E4]; [intros ->; tauto|]. split; congruence.
    + constructor; auto. eapply Lad_frame; [exact HL2|].
      intros j Hj. apply Hfr. intros Hin. apply in_map_iff in Hin as (s' & <- & Hs').
      eapply Hdisj; [apply in_ids_RT; exact (proj1 (in_ids_RT _ _ _) Hj)|].
      apply in_flat_map. exists s'. split; auto. apply In_rid_ids.
Qed.

Lemma in_forest_children (fs : list rtree) j :
  In j (flat_map ids (flat_map rch fs)) <-> exists s, In s fs /\ In j (flat_map ids (rch s)).
Proof.
  split.
  - intros H. apply in_flat_map in H as (c & Hc & Hj). apply in_flat_map in Hc as (s & Hs & Hc).
    exists s. split; auto. apply in_flat_map; eauto.
  - intros (s & Hs & H). apply in_flat_map in H as (c & Hc & Hj). apply in_flat_map. exists c. split; auto.
    apply in_flat_map; eauto.
Qed.

Lemma forest_children_incl (fs : list rtree) j :
  In j (flat_map ids (flat_map rch fs)) -> In j (flat_map ids fs).
Proof.
  intros H. apply in_forest_children in H as (s & Hs & Hj). apply in_flat_map. exists s. split; auto.
  destruct s. apply in_ids_RT. auto.
Qed.

Lemma forest_children_NoDup (fs : list rtree) :
  NoDup (flat_map ids fs) -> NoDup (flat_map ids (flat_map rch fs)).
Proof.
  induction fs as [|[i cs] fs IH]; cbn [flat_map rch]; auto. intros H.
  apply NoDup_app_iff in H as (H1 & H2 & H3). rewrite ids_RT in H1. apply NoDup_cons_iff in H1 as [_ H1].
  rewrite flat_map_app. apply NoDup_app_iff. splits; auto.
  intros j Hj Hj'. apply (H3 j); [apply in_ids_RT; auto|]. apply forest_children_incl; auto.
Qed.

Lemma ladder_forest t : forall f fs tc cnt,
  Forall (fun s => Shape t (rid s) s) fs -> NoDup (flat_map ids fs) -> Traversals.fheight fs <= f ->
  length tc = length t -> length cnt = length t ->
  (forall j, In j (flat_map ids fs) -> live t j) ->
  (forall j, In j (flat_map ids fs) -> nth_error tc j = nth_error t j /\ nth j cnt 0 = 0) ->
  exists tc' cnt',
    foldM ladder_step (rev (level_forest f fs)) (tc, cnt) = Ok (tc', cnt') /\
    length tc' = length t /\ length cnt' = length t /\
    (forall j, ~ In j (flat_map ids fs) -> nth_error tc' j = nth_error tc j /\ nth j cnt' 0 = nth j cnt 0) /\
    Forall (Lad t tc' cnt') fs.
Proof.
  induction f as [|f IH]; intros fs tc cnt HSh Hnd Hh Hlt Hlc Hlive Hun.
  - assert (fs = []) by (apply Traversals.fheight_0; lia). subst fs.
    exists tc, cnt. simpl. splits; auto.
  - destruct fs as [|s0 fs0] eqn:Efs; [exists tc, cnt; simpl; splits; auto|]. rewrite <- Efs in *.
    assert (Hne : fs <> []) by (rewrite Efs; discriminate).
    assert (Hlev : level_forest (S f) fs = map rid fs ++ level_forest f (flat_map rch fs)).
    { rewrite Efs. reflexivity. }
    rewrite Hlev, rev_app_distr, foldM_app. clear Efs s0 fs0 Hlev.
    set (gs := flat_map rch fs).
    assert (HShg : Forall (fun s => Shape t (rid s) s) gs).
    { apply Forall_forall. intros c Hc. apply in_flat_map in Hc as (s & Hs & Hc).
      rewrite Forall_forall in HSh. specialize (HSh s Hs).
      destruct (Shape_inv _ _ _ HSh) as (n & cs & Heq & Hn & HF). rewrite Heq in Hc. simpl in Hc.
      destruct (Forall2_In_r _ _ _ _ HF Hc) as (k & _ & Hk). rewrite (Shape_rid _ _ _ Hk). auto. }
    destruct (IH gs tc cnt HShg) as (tc1 & cnt1 & Hfold1 & Hl1 & Hc1 & Hfr1 & HL1); auto.
    { apply forest_children_NoDup; auto. }
    { pose proof (Traversals.fheight_flat_rch fs Hne). fold gs in H. lia. }
    { intros j Hj. apply Hlive. apply forest_children_incl; auto. }
    { intros j Hj. apply Hun. apply forest_children_incl; auto. }
    rewrite Hfold1. cbn [bind]. rewrite <- map_rev.
    assert (Hroot_out : forall s, In s fs -> ~ In (rid s) (flat_map ids gs)).
    { intros s Hs Hin. apply in_forest_children in Hin as (s' & Hs' & Hj).
      assert (Hins' : In (rid s) (ids s')) by (destruct s'; apply in_ids_RT; auto).
      assert (s = s') by (apply (flat_map_NoDup_inj ids fs s s' (rid s)); auto using In_rid_ids). subst s'.
      pose proof (NoDup_flat_map_in _ _ _ Hnd Hs) as Hnds. destruct s as [i cs]. rewrite ids_RT in Hnds.
      apply NoDup_cons_iff in Hnds as [Hi _]. auto. }
    destruct (ladder_roots t (rev fs) tc1 cnt1) as (tc2 & cnt2 & Hfold2 & Hl2 & Hc2 & Hfr2 & HL2); auto.
    { eapply Permutation_NoDup; [|exact Hnd]. apply Permutation_flat_map, Permutation_rev. }
    { apply Forall_rev. apply Forall_forall. intros s Hs.
      rewrite Forall_forall in HSh. pose proof (HSh s Hs) as HSs.
      destruct (Shape_inv _ _ _ HSs) as (n & cs & Heq & Hn & HF).
      assert (Hins : In (rid s) (flat_map ids fs)) by (apply in_flat_map; exists s; auto using In_rid_ids).
      destruct (Hlive _ Hins) as (n' & Hn' & Hdel). assert (n' = n) by congruence. subst n'.
      destruct (Hun _ Hins) as [E1 E2]. destruct (Hfr1 _ (Hroot_out s Hs)) as [E3 E4].
      exists n. rewrite Heq. simpl. splits; auto; try congruence.
      - apply (Forall2_Shape_rid t); auto.
      - rewrite Forall_forall in *. intros c Hc. apply HL1. apply in_flat_map. exists s. split; auto.
        rewrite Heq. auto. }
    exists tc2, cnt2. splits; auto.
    + intros j Hj.
      assert (Hj1 : ~ In j (map rid (rev fs))).
      { intros Hin. apply in_map_iff in Hin as (s & <- & Hs). apply in_rev in Hs. apply Hj.
        apply in_flat_map. exists s. auto using In_rid_ids. }
      assert (Hj2 : ~ In j (flat_map ids gs)) by (intros Hin; apply Hj; apply forest_children_incl; auto).
      destruct (Hfr2 _ Hj1), (Hfr1 _ Hj2). split; congruence.
    + apply Forall_forall. intros s Hs. rewrite Forall_forall in HL2. apply HL2. apply in_rev.
      rewrite rev_involutive. auto.
Qed.

Lemma nth_repeat0 k j : nth j (repeat 0 k) 0 = 0.
Proof. revert j; induction k; destruct j; simpl; auto. Qed.

(* ladderize: the tree becomes [rladder r]: below every node the children are stably sorted by their
   number of descendants; ids, names, lengths, comments, parents, depths are untouched and every child
   list is a permutation of the old one *)
Theorem ladderize_post t t' root r :
  WFS t -> Rep t None 0 root r -> ladderize t = Ok t' ->
  Rep t' None 0 root (rladder r) /\ NoDup (ids (rladder r)) /\
  (forall i, live t' i <-> In i (ids (rladder r))) /\
  Permutation (ids (rladder r)) (ids r) /\
  perm_of t t' /\
  (forall j n n', In j (ids r) -> nth_error t j = Some n -> nth_error t' j = Some n' ->
     n' = set_nchildren n (nchildren n') /\
     nchildren n' = stable_sort (fun a b => Nat.leb (desc r a) (desc r b)) (nchildren n) /\
     Sorted (fun a b => desc r a <= desc r b) (nchildren n')) /\
  (forall j, ~ In j (ids r) -> nth_error t' j = nth_error t j).
Proof.
  intros Hwfs HR Hlad. pose proof (ladderize_perm _ _ Hlad) as Hperm.
  destruct (WFS_Rep _ _ _ Hwfs HR) as [Hnd Hlive].
  pose proof (ladderize_wf _ _ Hwfs Hlad) as Hwfs'.
  rewrite ladderize_unfold in Hlad.
  apply bind_Ok in Hlad as (x & Hroot & Hlad).
  pose proof (get_root_WF _ _ _ _ HR Hlive Hroot) as ->.
  rewrite (Traversals.levelorder_refines _ _ _ _ _ HR Hnd) in Hlad. cbn [bind] in Hlad.
  apply bind_Ok in Hlad as (st & Hfold & Hlad). injection Hlad as <-.
  destruct (ladder_forest t (rheight r) [r] t (repeat 0 (length t))) as (tc & cnt & Hf & Hl1 & Hl2 & Hfr & HL).
  { constructor; [|constructor]. rewrite (Rep_rid _ _ _ _ _ HR). eapply Rep_Shape; eauto. }
  { simpl. rewrite app_nil_r. auto. }
  { simpl. lia. }
  { auto. }
  { apply repeat_length. }
  { intros j Hj. simpl in Hj. rewrite app_nil_r in Hj. eapply Rep_ids_live; eauto. }
  { intros j _. split; auto. apply nth_repeat0. }
  pose proof (eq_trans (eq_sym Hfold) Hf) as Est. injection Est as ->. clear Hfold. simpl fst in *.
  inversion HL as [|? ? HLr _]; subst. clear HL.
  pose proof (Lad_Shape _ _ _ _ HLr) as HSh. rewrite (Rep_rid _ _ _ _ _ HR) in HSh.
  destruct (Rep_inv _ _ _ _ _ HR) as (nroot & cs0 & -> & Hnroot & Hdroot & _ & Hproot & _).
  inversion HLr as [? ? n0 Hn0 Hn0' _ _]; subst.
  assert (n0 = nroot) by congruence. subst n0.
  destruct (Rep_of_shape tc root _ _ Hwfs' Hn0' Hdroot Hproot HSh) as (HR' & Hnd' & Hlive').
  splits; auto.
  - intros i. split; auto. intros Hi. eapply Rep_ids_live; eauto.
  - apply ids_rladder_perm.
  - intros j n n' Hj Hn Hn'. destruct (rsub_in j _ Hj) as (s & Hs).
    pose proof (Lad_rsub _ _ _ _ _ _ HLr Hs) as HLs.
    pose proof (rsub_rid _ _ _ Hs) as Hrid. destruct s as [j' cs]. simpl in Hrid. subst j'.
    inversion HLs as [? ? m Hm Hm' _ _]; subst. assert (m = n) by congruence. subst m.
    rewrite Hm' in Hn'. injection Hn' as <-. cbn [nchildren set_nchildren].
    assert (Hch : nchildren n = map rid cs).
    { apply (Forall2_Shape_rid t). pose proof (Shape_rsub _ _ _ _ _ (Rep_Shape _ _ _ _ _ HR) Hs) as HSs.
      destruct (Shape_inv _ _ _ HSs) as (m & cs' & Heq & Hm2 & HF). injection Heq as <-.
      assert (m = n) by congruence. subst m. auto. }
    rewrite (rladder_children _ j cs Hnd Hs), Hch. splits; auto.
    apply stable_sort_sorted.
  - intros j Hj. destruct (Hfr j) as [E _]; auto. simpl. rewrite app_nil_r. auto.
Qed.

End Ladderize2.

(* ---- operations that only touch child lists keep every distance ------------------------------- *)
Section UpStructure.
Context {L : Type}.
Notation arena := (@arena L).
Notation node := (@node L).
Implicit Types (t : arena) (n : node).
Variable O : LenOps L.

(* same liveness, parent and length in every slot *)
Definition up_eq t t' : Prop :=
  length t' = length t /\
  forall j n, nth_error t j = Some n ->
    exists n', nth_error t' j = Some n' /\ ndeleted n' = ndeleted n /\ nparent n' = nparent n /\
               npedge n' = npedge n.

Lemma get_up_eq t t' j :
  up_eq t t' ->
  match get t j with
  | Ok n => exists n', get t' j = Ok n' /\ nparent n' = nparent n /\ npedge n' = npedge n
  | Err e => get t' j = Err e
  | Panic s => get t' j = Panic s
  | OutOfFuel => get t' j = OutOfFuel
  end.
Proof.
  intros [Hlen H]. unfold get. destruct (nth_error t j) as [n|] eqn:E.
  - destruct (H _ _ E) as (n' & -> & Hd & Hp & He). rewrite Hd. destruct (ndeleted n); eauto.
  - apply nth_error_None in E. rewrite (proj2 (nth_error_None t' j)) by lia. auto.
Qed.

Lemma path_up_eq t t' : up_eq t t' -> forall fuel x acc, path_up_f fuel t' x acc = path_up_f fuel t x acc.
Proof.
  intros H. induction fuel as [|f IH]; intros x acc; simpl; auto.
  pose proof (get_up_eq t t' x H) as Hg. destruct (get t x) as [n| | |].
  - destruct Hg as (n' & -> & Hp & _). simpl. rewrite Hp. destruct (nparent n); auto.
  - rewrite Hg; auto.
  - rewrite Hg; auto.
  - rewrite Hg; auto.
Qed.

Theorem dist_up_eq t t' a b : up_eq t t' -> get_distance O t' a b = get_distance O t a b.
Proof.
  intros H. unfold get_distance. destruct (Nat.eqb a b); auto.
  unfold get_path_from_root, fuel_of. rewrite (proj1 H), !(path_up_eq t t' H).
  generalize (path_up_f (S (length t)) t a []). intros [pa| | |]; cbn [bind]; auto.
  generalize (path_up_f (S (length t)) t b []). intros [pb| | |]; cbn [bind]; auto.
  f_equal. generalize (skipn (first_diff pa pb 0) pa ++ skipn (first_diff pa pb 0) pb).
  intros l. generalize (l0 O, true, 0). induction l as [|x l IH]; intros st; simpl; auto.
  destruct st as [[d al] br].
  pose proof (get_up_eq t t' x H) as Hg. destruct (get t x) as [n| | |].
  - destruct Hg as (n' & -> & _ & He). simpl. rewrite He. destruct (npedge n); simpl; auto.
  - rewrite Hg; auto.
  - rewrite Hg; auto.
  - rewrite Hg; auto.
Qed.

Lemma perm_of_up_eq t t' : perm_of t t' -> up_eq t t'.
Proof.
  intros [Hlen H]. split; auto. intros j n Hn. destruct (H _ _ Hn) as (ch & Hch & _).
  eexists. split; [exact Hch|]. simpl. auto.
Qed.

(* ladderize keeps the leaves and every distance (length and edge count) *)
Theorem ladderize_dist t t' a b : ladderize t = Ok t' -> get_distance O t' a b = get_distance O t a b.
Proof. intros H. apply dist_up_eq, perm_of_up_eq, ladderize_perm, H. Qed.

Theorem ladderize_leaves t t' : ladderize t = Ok t' -> get_leaves t' = get_leaves t.
Proof.
  intros H. destruct (ladderize_perm _ _ H) as [Hlen Hp].
  apply get_leaves_ext; [lia| |].
  - intros j n n' Hn Hn'. destruct (Hp _ _ Hn) as (ch & Hch & Hperm).
    rewrite Hch in Hn'. injection Hn' as <-. unfold leafkey, is_tip. simpl.
    destruct ch, (nchildren n); auto.
    + apply Permutation_nil in Hperm. discriminate.
    + apply Permutation_sym, Permutation_nil in Hperm. discriminate.
  - intros j n' Hj Hn'. apply nth_error_Some_lt in Hn'. lia.
Qed.

End UpStructure.

Section LeafLive.
Context {L : Type}.
Notation arena := (@arena L).
Implicit Types (t : arena).

Lemma leaf_live t a : WFS t -> In a (get_leaves t) -> live t a.
Proof.
  intros [Hwf _] H. unfold get_leaves in H. apply in_map_iff in H as (n & <- & Hn).
  apply filter_In in Hn as [Hn Hb]. apply andb_prop in Hb as [Hd _]. apply negb_true_iff in Hd.
  apply In_nth_error in Hn as (j & Hj).
  destruct (WF_node_facts t j n Hwf Hj Hd) as (_ & _ & _ & ->). exists n. auto.
Qed.
End LeafLive.

(* ================================================================================================ *)
(* 8. compress keeps every path length                                                               *)
(* ================================================================================================ *)
Lemma skipn_length_app {A} (q a : list A) : skipn (length q) (q ++ a) = a.
Proof. induction q; simpl; auto. Qed.

Lemma tails_filter (f : nat -> bool) pc c0 ta tb :
  f c0 = true -> (forall z, In z ta -> In z tb -> False) ->
  skipn (cpl (filter f (pc ++ c0 :: ta)) (filter f (pc ++ c0 :: tb))) (filter f (pc ++ c0 :: ta)) = filter f ta /\
  skipn (cpl (filter f (pc ++ c0 :: ta)) (filter f (pc ++ c0 :: tb))) (filter f (pc ++ c0 :: tb)) = filter f tb.
Proof.
  intros Hc Hdis. rewrite !filter_app. simpl. rewrite Hc.
  change (c0 :: filter f ta) with ([c0] ++ filter f ta). change (c0 :: filter f tb) with ([c0] ++ filter f tb).
  rewrite !app_assoc, cpl_app, (cpl_disjoint (filter f ta) (filter f tb)), Nat.add_0_r.
  - split; apply skipn_length_app.
  - intros z Hz1 Hz2. apply filter_In in Hz1 as [Hz1 _]. apply filter_In in Hz2 as [Hz2 _]. eauto.
Qed.

Section CompressDist.
Context {L : Type}.
Notation arena := (@arena L).
Notation node := (@node L).
Implicit Types (t : arena) (n : node).
Variable O : LenOps L.
Hypothesis ladd_assoc : forall x y z, ladd O x (ladd O y z) = ladd O (ladd O x y) z.

Lemma fold_ladd_merge lu lv x y a0 :
  fold_left (ladd O) (lu ++ ladd O x y :: lv) a0 = fold_left (ladd O) (lu ++ x :: y :: lv) a0.
Proof. rewrite !fold_left_app. simpl. rewrite ladd_assoc. reflexivity. Qed.

Lemma all_present_app (e1 e2 : list (option L)) : all_present (e1 ++ e2) = all_present e1 && all_present e2.
Proof. unfold all_present. apply forallb_app. Qed.

Lemma present_app (e1 e2 : list (option L)) : present (e1 ++ e2) = present e1 ++ present e2.
Proof. unfold present. apply flat_map_app. Qed.

Definition notid (id : nat) (k : nat) : bool := negb (Nat.eqb k id).

Lemma filter_notid_id id l : ~ In id l -> filter (notid id) l = l.
Proof.
  intros H. apply filter_id. intros x Hx. apply negb_true_iff, Nat.eqb_neq. intros ->. auto.
Qed.

Lemma path_len_merge (E E' : nat -> option L) u v id c :
  ~ In id u -> ~ In id v -> ~ In c u -> ~ In c v -> c <> id ->
  (forall x, x <> c -> x <> id -> E' x = E x) ->
  E' c = match E id, E c with Some p, Some q => Some (ladd O p q) | _, _ => None end ->
  (E id = None <-> E c = None) ->
  path_len O (map E' (filter (notid id) (u ++ id :: c :: v))) = path_len O (map E (u ++ id :: c :: v)).
Proof.
  intros Hu Hv Hcu Hcv Hcid Hsame Hc Hiff.
  assert (Hf : filter (notid id) (id :: c :: v) = c :: v).
  { cbn [filter].
    assert (H1 : notid id id = false) by (unfold notid; rewrite Nat.eqb_refl; auto).
    assert (H2 : notid id c = true) by (unfold notid; apply negb_true_iff, Nat.eqb_neq; auto).
    rewrite H1, H2, filter_notid_id by auto. reflexivity. }
  rewrite filter_app, Hf, filter_notid_id by auto. rewrite !map_app. cbn [map].
  assert (Eu : map E' u = map E u).
  { apply map_ext_in. intros x Hx. apply Hsame; intros ->; auto. }
  assert (Ev : map E' v = map E v).
  { apply map_ext_in. intros x Hx. apply Hsame; intros ->; auto. }
  rewrite Eu, Ev, Hc. unfold path_len.
  rewrite !all_present_app, !present_app.
  destruct (E id) as [p|] eqn:Eid, (E c) as [q|] eqn:Ec.
  - cbn [all_present forallb present flat_map app andb].
    destruct (all_present (map E u) && all_present (map E v)) eqn:Hall.
    + change (forallb (fun o : option L => match o with Some _ => true | None => false end) (map E v))
        with (all_present (map E v)). rewrite Hall. f_equal. apply fold_ladd_merge.
    + change (forallb (fun o : option L => match o with Some _ => true | None => false end) (map E v))
        with (all_present (map E v)). rewrite Hall. reflexivity.
  - exfalso. destruct Hiff as [_ H]. specialize (H eq_refl). discriminate.
  - exfalso. destruct Hiff as [H _]. specialize (H eq_refl). discriminate.
  - cbn [all_present forallb andb]. rewrite !andb_false_r. reflexivity.
Qed.

Lemma path_len_same (E E' : nat -> option L) l id c :
  ~ In id l -> ~ In c l -> (forall x, x <> c -> x <> id -> E' x = E x) ->
  path_len O (map E' (filter (notid id) l)) = path_len O (map E l).
Proof.
  intros Hid Hc Hsame. rewrite filter_notid_id by auto. f_equal.
  apply map_ext_in. intros x Hx. apply Hsame; intros ->; auto.
Qed.

(* what a compression step does to liveness, parents and lengths *)
Lemma compress_node_up t t' id :
  WFS t -> compress_node O t id = Ok t' ->
  exists n P child nc new_edge,
    nth_error t id = Some n /\ ndeleted n = false /\ nparent n = Some P /\ nchildren n = [child] /\
    nth_error t child = Some nc /\ nparent nc = Some id /\ child <> id /\ id <> P /\ child <> P /\
    compress_edge O (npedge n) (npedge nc) = Some new_edge /\
    length t' = length t /\
    nth_error t' id = Some tombstone /\
    (forall j m, nth_error t j = Some m -> j <> id ->
       exists m', nth_error t' j = Some m' /\ ndeleted m' = ndeleted m /\
         nparent m' = (if Nat.eqb j child then Some P else nparent m) /\
         npedge m' = (if Nat.eqb j child then new_edge else npedge m)).
Proof.
  intros Hwfs H.
  destruct (compress_node_exact O t t' id Hwfs H)
    as (n & P & child & nP & nc & ne & nP' & dc & Hn & Hdn & Hpn & Hchn & HnP & HdP & Hnc & Hdc & Hpc &
        HidP & HcP & Hcid & HinP & HninP & Hce & Hlen & Sid & Sc & SP & Hlab & HchP' & _ & _ & _ & So).
  exists n, P, child, nc, ne. splits; auto.
  intros j m Hm Hjid.
  destruct (Nat.eqb_spec j child) as [->|Hjc].
  - assert (m = nc) by congruence. subst m. eexists. split; [exact Sc|]. simpl. auto.
  - destruct (Nat.eq_dec j P) as [->|HjP].
    + assert (m = nP) by congruence. subst m. exists nP'. destruct Hlab as (_ & _ & Hp & He & _ & Hd). auto.
    + destruct (So j m Hjid HjP Hjc Hm) as (d & Hd). eexists. split; [exact Hd|]. simpl. auto.
Qed.

Lemma last_in {A} : forall (l2 l1 : list A) x l3 y, l1 ++ x :: l2 = l3 ++ [y] -> In y (x :: l2).
Proof.
  induction l2 as [|z l2 _] using rev_ind; intros l1 x l3 y H.
  - apply app_inj_tail in H as [_ ->]. simpl; auto.
  - rewrite app_comm_cons, app_assoc in H. apply app_inj_tail in H as [_ ->].
    right. apply in_or_app. simpl; auto.
Qed.

Lemma NoDup_mid2 (u v : list nat) x y :
  NoDup (u ++ x :: y :: v) -> ~ In x u /\ ~ In x v /\ ~ In y u /\ ~ In y v /\ y <> x.
Proof.
  intros H. apply NoDup_app_iff in H as (_ & H2 & H3).
  apply NoDup_cons_iff in H2 as [Hx H2]. apply NoDup_cons_iff in H2 as [Hy _].
  splits.
  - intros Hin. apply (H3 x Hin). simpl; auto.
  - intros Hin. apply Hx. simpl; auto.
  - intros Hin. apply (H3 y Hin). simpl; auto.
  - auto.
  - intros ->. apply Hx. simpl; auto.
Qed.

Lemma compress_node_paths t t' id root r root' r' :
  WFS t -> compress_node O t id = Ok t' -> WFS t' ->
  Rep t None 0 root r -> Rep t' None 0 root' r' ->
  forall k q x, length q <= k -> rpath x r = Some q -> x <> id ->
    rpath x r' = Some (filter (notid id) q).
Proof.
  intros Hwfs Hc Hwfs' HR HR'.
  destruct (WFS_Rep _ _ _ Hwfs HR) as [Hnd Hlive]. destruct (WFS_Rep _ _ _ Hwfs' HR') as [Hnd' Hlive'].
  destruct (compress_node_up t t' id Hwfs Hc)
    as (n & P & child & nc & ne & Hn & Hdn & Hpn & Hchn & Hnc & Hpc & Hcid & HidP & HcP & _ & Hlen & Sid & Sup).
  assert (Hgid : get t id = Ok n) by (apply get_Ok; auto).
  assert (Hkeep : forall y, y <> id -> filter (notid id) [y] = [y]).
  { intros y Hy. simpl. unfold notid. apply Nat.eqb_neq in Hy. rewrite Hy. reflexivity. }
  assert (Hdrop : filter (notid id) [id] = []).
  { simpl. unfold notid. rewrite Nat.eqb_refl. reflexivity. }
  induction k as [|k IH]; intros q x Hk Hq Hx.
  { pose proof (rpath_length _ _ _ Hq). lia. }
  pose proof (rpath_In _ _ _ Hq) as Hin.
  destruct (Rep_ids_live _ _ _ _ _ _ HR Hin) as (m & Hm & Hdm).
  assert (Hg : get t x = Ok m) by (apply get_Ok; auto).
  destruct (Sup x m Hm Hx) as (m' & Hm' & Hdm' & Hpm' & _).
  assert (Hin' : In x (ids r')) by (apply Hlive'; exists m'; split; auto; congruence).
  assert (Hg' : get t' x = Ok m') by (apply get_Ok; split; auto; congruence).
  destruct (nparent m) as [par|] eqn:Hpar.
  - destruct (parent_rpath t root r x m par HR Hnd Hin Hg Hpar) as (Hparin & pq & Hpq & Hxq).
    rewrite Hq in Hxq. injection Hxq as ->. rewrite app_length in Hk. simpl in Hk.
    destruct (Nat.eqb_spec x child) as [->|Hxc].
    + assert (m = nc) by congruence. subst m. assert (par = id) by congruence. subst par.
      assert (HidIn : In id (ids r)) by auto.
      destruct (parent_rpath t root r id n P HR Hnd HidIn Hgid Hpn) as (HPin & pP & HpP & Hidq).
      rewrite Hpq in Hidq. injection Hidq as ->. rewrite app_length in Hk. simpl in Hk.
      destruct (parent_rpath t' root' r' child m' P HR' Hnd' Hin' Hg' Hpm') as (_ & pP' & HpP' & Hcq').
      rewrite (IH pP P) in HpP'; auto; try lia. injection HpP' as <-.
      rewrite Hcq'. f_equal. rewrite !filter_app, Hdrop, Hkeep, app_nil_r; auto.
    + assert (Hparid : par <> id).
      { intros ->. destruct Hwfs as [Hwf _].
        destruct (WF_parent_of _ _ _ _ Hwf Hg Hpar) as (n0 & Hg0 & Hin0).
        assert (n0 = n) by congruence. subst n0. rewrite Hchn in Hin0. simpl in Hin0. intuition. }
      destruct (parent_rpath t' root' r' x m' par HR' Hnd' Hin' Hg' Hpm') as (_ & pq' & Hpq' & Hxq').
      rewrite (IH pq par) in Hpq'; auto; try lia. injection Hpq' as <-.
      rewrite Hxq'. f_equal. rewrite filter_app, Hkeep; auto.
  - pose proof (Rep_root_unique _ _ _ _ _ _ _ HR Hin Hm Hpar) as Ex.
    assert (Hxc : x <> child) by (intros ->; congruence).
    apply Nat.eqb_neq in Hxc. rewrite Hxc in Hpm'.
    pose proof (Rep_root_unique _ _ _ _ _ _ _ HR' Hin' Hm' Hpm') as Ex'.
    pose proof (rpath_root r) as Hr. rewrite (Rep_rid _ _ _ _ _ HR), <- Ex in Hr. rewrite Hq in Hr. injection Hr as ->.
    pose proof (rpath_root r') as Hr'. rewrite (Rep_rid _ _ _ _ _ HR'), <- Ex' in Hr'. rewrite Hr'.
    f_equal. symmetry. apply Hkeep. auto.
Qed.

Lemma edge_of_nth t x m : nth_error t x = Some m -> edge_of t x = npedge m.
Proof. unfold edge_of. intros ->. reflexivity. Qed.

(* one compression step keeps the length of the path between any two surviving nodes *)
Lemma compress_node_dist t t' id a b :
  WFS t -> compress_node O t id = Ok t' -> live t' a -> live t' b ->
  live t a /\ live t b /\
  exists d k k', get_distance O t a b = Ok (d, k) /\ get_distance O t' a b = Ok (d, k').
Proof.
  intros Hwfs Hc Hla' Hlb'. pose proof (compress_node_wf O _ _ _ Hwfs Hc) as Hwfs'.
  destruct (compress_node_up t t' id Hwfs Hc)
    as (n & P & child & nc & ne & Hn & Hdn & Hpn & Hchn & Hnc & Hpc & Hcid & HidP & HcP & Hce & Hlen & Sid & Sup).
  assert (Hsurv : forall x, live t' x -> x <> id /\ live t x).
  { intros x (m' & Hm' & Hd'). assert (Hx : x <> id) by (intros ->; rewrite Sid in Hm'; injection Hm' as <-; discriminate).
    split; auto. pose proof (nth_error_Some_lt _ _ _ Hm') as Hlt. rewrite Hlen in Hlt.
    destruct (nth_error t x) as [m|] eqn:Hm; [|apply nth_error_None in Hm; lia].
    destruct (Sup x m Hm Hx) as (m2 & Hm2 & Hd2 & _). exists m. split; auto. congruence. }
  destruct (Hsurv a Hla') as [Haid Hla]. destruct (Hsurv b Hlb') as [Hbid Hlb]. splits; auto.
  destruct Hwfs as [Hwf Hse]. pose proof Hwf as Hwf0.
  destruct Hwf as [Hno|(root & r & HR & Hnd & Hlive)]; [exfalso; eapply Hno; eauto|].
  destruct Hwfs' as [Hwf' Hse']. pose proof Hwf' as Hwf0'.
  destruct Hwf' as [Hno|(root' & r' & HR' & Hnd' & Hlive')]; [exfalso; eapply Hno; eauto|].
  pose proof (Hlive _ Hla) as Har. pose proof (Hlive _ Hlb) as Hbr.
  destruct (dist_refines O _ _ _ _ _ HR Hnd Har Hbr) as (pa & pb & Hpa & Hpb & Hd). cbv zeta in Hd.
  destruct (dist_refines O _ _ _ _ _ HR' Hnd' (Hlive' _ Hla') (Hlive' _ Hlb')) as (pa' & pb' & Hpa' & Hpb' & Hd').
  cbv zeta in Hd'.
  pose proof (compress_node_paths t t' id root r root' r' (conj Hwf0 Hse) Hc (conj Hwf0' Hse') HR HR') as Hpaths.
  rewrite (Hpaths _ pa a (le_n _) Hpa Haid) in Hpa'. injection Hpa' as <-.
  rewrite (Hpaths _ pb b (le_n _) Hpb Hbid) in Hpb'. injection Hpb' as <-.
  destruct (lca_spec _ _ _ _ _ Hnd Hpa Hpb) as (pc & c0 & _ & _ & Hsa & Hsb & _ & _).
  set (ta := skipn (cpl pa pb) pa) in *. set (tb := skipn (cpl pa pb) pb) in *.
  assert (Hdis : forall z, In z ta -> In z tb -> False).
  { intros z. apply (lca_tails_disjoint _ _ _ _ _ z Hnd Hpa Hpb). }
  assert (Hgid : get t id = Ok n) by (apply get_Ok; auto).
  (* in a root path, id is followed by its only child and child is preceded by id *)
  assert (Hafter : forall x q pre post, rpath x r = Some q -> x <> id -> q = pre ++ id :: post ->
                     exists post', post = child :: post').
  { intros x q pre post Hq Hx ->. destruct post as [|h post'].
    - destruct (rpath_last _ _ _ Hq) as (q' & E). apply app_inj_tail in E as [_ E]. congruence.
    - exists post'. f_equal. pose proof (rpath_linked _ _ _ Hq) as Hl. apply linked_split in Hl.
      destruct (redge_arena _ _ _ _ _ _ _ HR Hl) as (nu & nv & Hgu & _ & _ & Hin).
      assert (nu = n) by congruence. subst nu. rewrite Hchn in Hin. simpl in Hin. intuition. }
  assert (Hbefore : forall x q pre post, rpath x r = Some q -> q = pre ++ child :: post ->
                      exists pre', pre = pre' ++ [id]).
  { intros x q pre post Hq ->. destruct pre as [|u pre _] using rev_ind.
    - exfalso. destruct (rpath_head _ _ _ Hq) as (q' & E). simpl in E. injection E as E _.
      rewrite (Rep_rid _ _ _ _ _ HR) in E. subst child.
      destruct (Rep_inv _ _ _ _ _ HR) as (nr & ? & _ & Hnr & _ & _ & Hpr & _). congruence.
    - exists pre. f_equal. f_equal. pose proof (rpath_linked _ _ _ Hq) as Hl.
      rewrite <- app_assoc in Hl. simpl in Hl. apply linked_split in Hl.
      destruct (redge_arena _ _ _ _ _ _ _ HR Hl) as (nu & nv & _ & Hgv & Hpv & _).
      apply get_Ok in Hgv as [Hnv _]. assert (nv = nc) by congruence. subst nv. congruence. }
  assert (Hc0 : c0 <> id).
  { intros ->. destruct (Hafter a pa pc ta Hpa Haid Hsa) as (ta' & Eta).
    destruct (Hafter b pb pc tb Hpb Hbid Hsb) as (tb' & Etb).
    apply (Hdis child); [rewrite Eta|rewrite Etb]; simpl; auto. }
  assert (Hf0 : notid id c0 = true) by (unfold notid; apply negb_true_iff, Nat.eqb_neq; auto).
  destruct (tails_filter (notid id) pc c0 ta tb Hf0 Hdis) as [Eta Etb].
  rewrite <- Hsa, <- Hsb in Eta, Etb. rewrite Eta, Etb in Hd'. rewrite <- filter_app in Hd'.
  exists (path_len O (map (edge_of t) (ta ++ tb))). do 2 eexists. split; [exact Hd|].
  rewrite Hd'. f_equal. f_equal.
  (* the edge maps *)
  assert (Hsame : forall x, x <> child -> x <> id -> edge_of t' x = edge_of t x).
  { intros x Hxc Hxid. destruct (nth_error t x) as [m|] eqn:Hm.
    - destruct (Sup x m Hm Hxid) as (m' & Hm' & _ & _ & He). apply Nat.eqb_neq in Hxc. rewrite Hxc in He.
      rewrite (edge_of_nth _ _ _ Hm), (edge_of_nth _ _ _ Hm'). auto.
    - unfold edge_of. rewrite Hm. apply nth_error_None in Hm.
      rewrite (proj2 (nth_error_None t' x)) by lia. auto. }
  assert (Hechild : edge_of t' child =
            match edge_of t id, edge_of t child with Some p, Some q => Some (ladd O p q) | _, _ => None end).
  { destruct (Sup child nc Hnc Hcid) as (m' & Hm' & _ & _ & He). rewrite Nat.eqb_refl in He.
    rewrite (edge_of_nth _ _ _ Hm'), (edge_of_nth _ _ _ Hn), (edge_of_nth _ _ _ Hnc), He.
    unfold compress_edge in Hce. destruct (npedge n), (npedge nc); congruence. }
  assert (Hiff : edge_of t id = None <-> edge_of t child = None).
  { rewrite (edge_of_nth _ _ _ Hn), (edge_of_nth _ _ _ Hnc).
    unfold compress_edge in Hce. destruct (npedge n), (npedge nc); split; congruence. }
  assert (Hndl : NoDup (ta ++ tb)).
  { apply NoDup_app_iff. splits.
    - pose proof (rpath_NoDup _ _ _ Hnd Hpa) as H. rewrite Hsa in H. apply NoDup_app_iff in H as (_ & H & _).
      apply NoDup_cons_iff in H as [_ H]. auto.
    - pose proof (rpath_NoDup _ _ _ Hnd Hpb) as H. rewrite Hsb in H. apply NoDup_app_iff in H as (_ & H & _).
      apply NoDup_cons_iff in H as [_ H]. auto.
    - intros z H1 H2. eapply Hdis; eauto. }
  destruct (in_dec Nat.eq_dec id (ta ++ tb)) as [Hidl|Hidl].
  - apply in_app_or in Hidl as [Hin|Hin]; apply in_split in Hin as (u & w & Eu).
    + assert (Epa : pa = (pc ++ c0 :: u) ++ id :: w) by (rewrite Hsa, Eu, <- app_assoc; reflexivity).
      destruct (Hafter a pa _ w Hpa Haid Epa) as (v & ->).
      rewrite Eu, <- app_assoc. cbn [app].
      rewrite Eu, <- app_assoc in Hndl. cbn [app] in Hndl.
      destruct (NoDup_mid2 _ _ _ _ Hndl) as (N1 & N2 & N3 & N4 & N5).
      apply path_len_merge; auto.
    + assert (Epb : pb = (pc ++ c0 :: u) ++ id :: w) by (rewrite Hsb, Eu, <- app_assoc; reflexivity).
      destruct (Hafter b pb _ w Hpb Hbid Epb) as (v & ->).
      rewrite Eu, app_assoc. rewrite Eu, app_assoc in Hndl.
      destruct (NoDup_mid2 _ _ _ _ Hndl) as (N1 & N2 & N3 & N4 & N5).
      apply path_len_merge; auto.
  - apply path_len_same with (c := child); auto.
    intros Hcl. apply Hidl. apply in_app_or in Hcl as [Hin|Hin]; apply in_split in Hin as (u & w & Eu).
    + assert (Epa : pa = (pc ++ c0 :: u) ++ child :: w) by (rewrite Hsa, Eu, <- app_assoc; reflexivity).
      destruct (Hbefore a pa _ w Hpa Epa) as (pre' & Epre). apply last_in in Epre as [E|E]; [congruence|].
      apply in_or_app. left. rewrite Eu. apply in_or_app. auto.
    + assert (Epb : pb = (pc ++ c0 :: u) ++ child :: w) by (rewrite Hsb, Eu, <- app_assoc; reflexivity).
      destruct (Hbefore b pb _ w Hpb Epb) as (pre' & Epre). apply last_in in Epre as [E|E]; [congruence|].
      apply in_or_app. right. rewrite Eu. apply in_or_app. auto.
Qed.

Lemma compress_go_dist : forall l t a b,
  WFS t -> live (snd (compress_go O l t)) a -> live (snd (compress_go O l t)) b ->
  live t a /\ live t b /\
  exists d k k', get_distance O t a b = Ok (d, k) /\ get_distance O (snd (compress_go O l t)) a b = Ok (d, k').
Proof.
  induction l as [|i l IH]; intros t a b Hwfs Ha Hb; simpl in *.
  - splits; auto. destruct Hwfs as [Hwf _].
    destruct Hwf as [Hno|(root & r & HR & Hnd & Hlive)]; [exfalso; eapply Hno; eauto|].
    destruct (dist_refines O _ _ _ _ _ HR Hnd (Hlive _ Ha) (Hlive _ Hb)) as (pa & pb & _ & _ & Hd).
    cbv zeta in Hd. do 3 eexists. split; exact Hd.
  - destruct (compress_node O t i) as [t1| | |] eqn:E; simpl in *.
    2-4: (splits; auto; destruct Hwfs as [Hwf _];
          destruct Hwf as [Hno|(root & r & HR & Hnd & Hlive)]; [exfalso; eapply Hno; eauto|];
          destruct (dist_refines O _ _ _ _ _ HR Hnd (Hlive _ Ha) (Hlive _ Hb)) as (pa & pb & _ & _ & Hd);
          cbv zeta in Hd; do 3 eexists; split; exact Hd).
    pose proof (compress_node_wf O _ _ _ Hwfs E) as Hwfs1.
    destruct (IH t1 a b Hwfs1 Ha Hb) as (Ha1 & Hb1 & d & k & k' & Hd1 & Hd').
    destruct (compress_node_dist t t1 i a b Hwfs E Ha1 Hb1) as (Ha0 & Hb0 & d0 & k0 & k0' & Hd0 & Hd0').
    splits; auto. rewrite Hd1 in Hd0'. injection Hd0' as <- <-. eauto.
Qed.

(* compress leaves the length of the path between any two surviving nodes (in particular between any
   two leaves) unchanged, whatever it returns; only associativity of the addition is used *)
Theorem compress_dist t a b :
  WFS t -> live (snd (compress O t)) a -> live (snd (compress O t)) b ->
  exists d k k', get_distance O t a b = Ok (d, k) /\ get_distance O (snd (compress O t)) a b = Ok (d, k').
Proof.
  intros Hwfs Ha Hb. rewrite compress_unfold in *.
  destruct (compress_go_dist _ t a b Hwfs Ha Hb) as (_ & _ & H). exact H.
Qed.

Corollary compress_leaf_dist t a b :
  WFS t -> In a (get_leaves t) -> In b (get_leaves t) ->
  exists d k k', get_distance O t a b = Ok (d, k) /\ get_distance O (snd (compress O t)) a b = Ok (d, k').
Proof.
  intros Hwfs Ha Hb. pose proof (compress_wf O t Hwfs) as Hwfs'.
  rewrite <- (compress_leaves O t Hwfs) in Ha, Hb.
  apply compress_dist; auto using leaf_live.
Qed.

End CompressDist.


(* ================================================================================================ *)
(* 9. resolve keeps every path length                                                                *)
(* ================================================================================================ *)
Lemma tails_filter_gen (f : nat -> bool) q ta tb :
  (forall z, In z ta -> In z tb -> False) ->
  skipn (cpl (filter f (q ++ ta)) (filter f (q ++ tb))) (filter f (q ++ ta)) = filter f ta /\
  skipn (cpl (filter f (q ++ ta)) (filter f (q ++ tb))) (filter f (q ++ tb)) = filter f tb.
Proof.
  intros Hdis. rewrite !filter_app.
  rewrite cpl_app, (cpl_disjoint (filter f ta) (filter f tb)), Nat.add_0_r.
  - split; apply skipn_length_app.
  - intros z Hz1 Hz2. apply filter_In in Hz1 as [Hz1 _]. apply filter_In in Hz2 as [Hz2 _]. eauto.
Qed.

Section ResolveDist.
Context {L : Type}.
Notation arena := (@arena L).
Notation node := (@node L).
Implicit Types (t : arena) (n : node).
Variable O : LenOps L.

Local Arguments reset_depth_f : simpl never.

(* one grouping step of resolve_node_f, as a relation *)
Definition resolve_once_rel t (node c1 c2 : nat) t8 : Prop :=
  exists n n1 t2 t3 pn t4 n2 t5 t6 pn2 t7 pp,
    get t node = Ok n /\ In c1 (nchildren n) /\ In c2 (nchildren n) /\ c1 <> c2 /\
    let new := length t in
    let T1 := replace_nth node (node_add_child n new (Some (l0 O)))
                (t ++ [leaf_node new None None node (Some (l0 O)) (ndepth n + 1)]) in
    get T1 c1 = Ok n1 /\
    upd T1 new (fun x => node_add_child x c1 (npedge n1)) = Ok t2 /\
    upd t2 c1 (fun x => node_set_parent x new (npedge n1)) = Ok t3 /\
    get t3 node = Ok pn /\
    match node_remove_child pn c1 with Some pn' => Ok (replace_nth node pn' t3) | None => Err NodeError end = Ok t4 /\
    get t4 c2 = Ok n2 /\
    upd t4 new (fun x => node_add_child x c2 (npedge n2)) = Ok t5 /\
    upd t5 c2 (fun x => node_set_parent x new (npedge n2)) = Ok t6 /\
    get t6 node = Ok pn2 /\
    match node_remove_child pn2 c2 with Some pn' => Ok (replace_nth node pn' t6) | None => Err NodeError end = Ok t7 /\
    get t7 new = Ok pp /\
    reset_depth_f (fuel_of t7) t7 new (ndepth pp) = Ok t8.

(* any reflexive transitive relation that holds for every grouping step holds for resolve *)
Section Steps.
Variable R : arena -> arena -> Prop.
Hypothesis R_refl : forall t, R t t.
Hypothesis R_trans : forall t1 t2 t3, R t1 t2 -> R t2 t3 -> R t1 t3.
Hypothesis R_step : forall t node c1 c2 t8, WFS t -> resolve_once_rel t node c1 c2 t8 -> R t t8.

Lemma resolve_node_steps : forall fuel t node ch t' rest,
  WFS t -> resolve_node_f O fuel t node ch = Ok (Some (t', rest)) -> R t t'.
Proof.
  induction fuel as [|f IH]; intros t node ch t' rest Hwfs H; [discriminate|].
  simpl in H.
  apply bind_Ok in H as (n & Hgn & H).
  destruct ch as [|[c1 c2] ch']; [discriminate|].
  destruct (negb (mem_nat c1 (nchildren n) && mem_nat c2 (nchildren n) && negb (Nat.eqb c1 c2))) eqn:Hcond; [discriminate|].
  apply negb_false_iff in Hcond. apply andb_prop in Hcond as [Hcond Hc12]. apply andb_prop in Hcond as [Hc1 Hc2].
  apply mem_nat_In in Hc1, Hc2. apply negb_true_iff, Nat.eqb_neq in Hc12.
  rewrite (add_child_Ok _ _ _ _ _ _ Hgn) in H. rewrite bind_ret in H.
  apply bind_Ok in H as (n1 & Hg1 & H).
  apply bind_Ok in H as (t2 & Ht2 & H).
  apply bind_Ok in H as (t3 & Ht3 & H).
  apply bind_Ok in H as (pn & Hgpn & H).
  apply bind_Ok in H as (t4 & Ht4 & H).
  apply bind_Ok in H as (n2 & Hg2 & H).
  apply bind_Ok in H as (t5 & Ht5 & H).
  apply bind_Ok in H as (t6 & Ht6 & H).
  apply bind_Ok in H as (pn2 & Hgpn2 & H).
  apply bind_Ok in H as (t7 & Ht7 & H).
  apply bind_Ok in H as (pp & Hgpp & H).
  apply bind_Ok in H as (t8 & Ht8 & H).
  assert (Hrel : resolve_once_rel t node c1 c2 t8).
  { exists n, n1, t2, t3, pn, t4, n2, t5, t6, pn2, t7, pp. cbv zeta. splits; auto. }
  pose proof (R_step _ _ _ _ _ Hwfs Hrel) as HR8.
  destruct (resolve_once_exact O t node n c1 c2 n1 t2 t3 pn t4 n2 t5 t6 pn2 t7 pp t8
              Hwfs Hgn Hc1 Hc2 Hc12 Hg1 Ht2 Ht3 Hgpn Ht4 Hg2 Ht5 Ht6 Hgpn2 Ht7 Hgpp Ht8) as (Hwfs8 & _).
  destruct (Nat.leb (length (nchildren n) - 1) 2).
  - injection H as <- <-. auto.
  - eapply R_trans; [exact HR8|]. eapply IH; eauto.
Qed.

Lemma resolve_fold_steps : forall l tc ch tf chf,
  WFS tc -> foldM (resolve_step O) l (Some (tc, ch)) = Ok (Some (tf, chf)) -> R tc tf.
Proof.
  induction l as [|id l IH]; intros tc ch tf chf Hwfs H; cbn [foldM] in H.
  - injection H as <- <-. auto.
  - apply bind_Ok in H as (st & Hst & H). unfold resolve_step in Hst.
    destruct st as [[t1 ch1]|]; [|rewrite resolve_fold_None in H; discriminate].
    destruct (resolve_node_exact O _ _ _ _ _ _ Hwfs Hst) as (Hwfs1 & _).
    eapply R_trans; [eapply resolve_node_steps; eauto|]. eapply IH; eauto.
Qed.

Theorem resolve_steps t t' choices : WFS t -> resolve O t choices = Ok (Some t') -> R t t'.
Proof.
  intros Hwfs H. unfold resolve in H. apply bind_Ok in H as (r & Hfold & H).
  destruct r as [[t2 [|]]|]; try discriminate. injection H as <-.
  change (foldM (resolve_step O) (map nid (filter (fun n : node => Nat.ltb 2 (length (nchildren n))) t))
            (Some (t, choices)) = Ok (Some (t2, []))) in Hfold.
  eapply resolve_fold_steps; eauto.
Qed.
End Steps.

(* liveness, parents and lengths after one grouping step *)
Lemma resolve_once_up t node c1 c2 t8 :
  WFS t -> resolve_once_rel t node c1 c2 t8 ->
  let new := length t in
  WFS t8 /\ length t8 = S (length t) /\ node < new /\
  (exists nN, nth_error t8 new = Some nN /\ ndeleted nN = false /\ nparent nN = Some node /\
              npedge nN = Some (l0 O)) /\
  (exists n1 n2, nth_error t c1 = Some n1 /\ nth_error t c2 = Some n2 /\
                 nparent n1 = Some node /\ nparent n2 = Some node) /\
  (forall j m, nth_error t j = Some m ->
     exists m8, nth_error t8 j = Some m8 /\ ndeleted m8 = ndeleted m /\ npedge m8 = npedge m /\
       nparent m8 = (if Nat.eqb j c1 || Nat.eqb j c2 then Some new else nparent m)).
Proof.
  intros Hwfs (n & n1 & t2 & t3 & pn & t4 & n2 & t5 & t6 & pn2 & t7 & pp & Hgn & Hc1 & Hc2 & Hc12 & Hrel) new.
  cbv zeta in Hrel. destruct Hrel as (Hg1 & Ht2 & Ht3 & Hgpn & Ht4 & Hg2 & Ht5 & Ht6 & Hgpn2 & Ht7 & Hgpp & Ht8).
  destruct (resolve_once_exact O t node n c1 c2 n1 t2 t3 pn t4 n2 t5 t6 pn2 t7 pp t8
              Hwfs Hgn Hc1 Hc2 Hc12 Hg1 Ht2 Ht3 Hgpn Ht4 Hg2 Ht5 Ht6 Hgpn2 Ht7 Hgpp Ht8)
    as (Hwfs8 & Hlen8 & Hn1 & Hn2 & Hc1P & Hc2P & Hlt1 & Hlt2 & HltP &
        (nP' & SP & Hlab & HchP' & HlenP') & (d1 & S1) & (d2 & S2) & (nN & SN & HN) & So).
  pose proof Hgn as Hgn'. apply get_Ok in Hgn' as [Hn Hdn]. destruct Hwfs as [Hwf Hse].
  destruct (WF_child t node n c1 Hwf Hn Hdn Hc1) as (n1' & Hn1' & _ & Hp1 & _).
  destruct (WF_child t node n c2 Hwf Hn Hdn Hc2) as (n2' & Hn2' & _ & Hp2 & _).
  assert (n1' = n1) by congruence. assert (n2' = n2) by congruence. subst n1' n2'.
  splits; auto.
  - exists nN. destruct HN as (_ & _ & Hp & _ & Hpe & _ & Hd & _). auto.
  - exists n1, n2. auto.
  - intros j m Hm.
    destruct (Nat.eqb_spec j c1) as [->|H1]; [|destruct (Nat.eqb_spec j c2) as [->|H2]]; cbn [orb].
    + assert (m = n1) by congruence. subst m. eexists. split; [exact S1|]. simpl. auto.
    + assert (m = n2) by congruence. subst m. eexists. split; [exact S2|]. simpl. auto.
    + destruct (Nat.eq_dec j node) as [->|H3].
      * assert (m = n) by congruence. subst m. exists nP'. destruct Hlab as (_ & _ & Hp & He & _ & Hd). auto.
      * destruct (So j m H3 H1 H2 Hm) as (d & Hd). eexists. split; [exact Hd|]. simpl. auto.
Qed.

Section Laws.
Hypothesis ladd_0_r : forall x, ladd O x (l0 O) = x.

Lemma path_len_drop0 (E E8 : nat -> option L) l new :
  NoDup l -> E8 new = Some (l0 O) -> (forall x, x <> new -> E8 x = E x) ->
  path_len O (map E (filter (notid new) l)) = path_len O (map E8 l).
Proof.
  intros Hnd Hnew Hsame. destruct (in_dec Nat.eq_dec new l) as [Hin|Hnin].
  - apply in_split in Hin as (u & v & ->).
    pose proof (NoDup_remove_2 _ _ _ Hnd) as Hn.
    assert (Hu : ~ In new u) by (intros H; apply Hn; apply in_or_app; auto).
    assert (Hv : ~ In new v) by (intros H; apply Hn; apply in_or_app; auto).
    rewrite filter_app. cbn [filter].
    assert (H1 : notid new new = false) by (unfold notid; rewrite Nat.eqb_refl; auto).
    rewrite H1, !filter_notid_id by auto. rewrite !map_app. cbn [map]. rewrite Hnew.
    assert (Eu : map E u = map E8 u).
    { apply map_ext_in. intros x Hx. symmetry. apply Hsame. intros ->. auto. }
    assert (Ev : map E v = map E8 v).
    { apply map_ext_in. intros x Hx. symmetry. apply Hsame. intros ->. auto. }
    rewrite Eu, Ev. unfold path_len. rewrite !all_present_app, !present_app.
    assert (Hap : all_present (Some (l0 O) :: map E8 v) = all_present (map E8 v)) by reflexivity.
    assert (Hpr : present (Some (l0 O) :: map E8 v) = l0 O :: present (map E8 v)) by reflexivity.
    rewrite Hap, Hpr.
    destruct (all_present (map E8 u) && all_present (map E8 v)); auto.
    f_equal. rewrite !fold_left_app. cbn [fold_left]. rewrite ladd_0_r. reflexivity.
  - rewrite filter_notid_id by auto. f_equal. apply map_ext_in. intros x Hx. symmetry. apply Hsame.
    intros ->. auto.
Qed.

Lemma resolve_once_paths t node c1 c2 t8 root r root8 r8 :
  WFS t -> resolve_once_rel t node c1 c2 t8 ->
  Rep t None 0 root r -> Rep t8 None 0 root8 r8 ->
  forall k q8 x, length q8 <= k -> rpath x r8 = Some q8 -> x <> length t ->
    rpath x r = Some (filter (notid (length t)) q8).
Proof.
  intros Hwfs Hrel HR HR8.
  destruct (resolve_once_up t node c1 c2 t8 Hwfs Hrel)
    as (Hwfs8 & Hlen8 & HltP & (nN & SN & HdN & HpN & HeN) & (n1 & n2 & Hn1 & Hn2 & Hp1 & Hp2) & Sup).
  destruct (WFS_Rep _ _ _ Hwfs HR) as [Hnd Hlive]. destruct (WFS_Rep _ _ _ Hwfs8 HR8) as [Hnd8 Hlive8].
  set (new := length t) in *.
  assert (HgN : get t8 new = Ok nN) by (apply get_Ok; auto).
  assert (HnewIn : In new (ids r8)) by (apply Hlive8; exists nN; auto).
  assert (Hkeep : forall y, y <> new -> filter (notid new) [y] = [y]).
  { intros y Hy. simpl. unfold notid. apply Nat.eqb_neq in Hy. rewrite Hy. reflexivity. }
  assert (Hdrop : filter (notid new) [new] = []).
  { simpl. unfold notid. rewrite Nat.eqb_refl. reflexivity. }
  induction k as [|k IH]; intros q8 x Hk Hq Hx.
  { pose proof (rpath_length _ _ _ Hq). lia. }
  pose proof (rpath_In _ _ _ Hq) as Hin8.
  destruct (Rep_ids_live _ _ _ _ _ _ HR8 Hin8) as (m8 & Hm8 & Hdm8).
  assert (Hg8 : get t8 x = Ok m8) by (apply get_Ok; auto).
  assert (Hxlt : x < length t).
  { pose proof (nth_error_Some_lt _ _ _ Hm8). unfold new in Hx. lia. }
  destruct (nth_error t x) as [m|] eqn:Hm; [|apply nth_error_None in Hm; lia].
  destruct (Sup x m Hm) as (m8' & Hm8' & Hdm & _ & Hpm). assert (m8' = m8) by congruence. subst m8'.
  assert (Hg : get t x = Ok m) by (apply get_Ok; split; auto; congruence).
  assert (Hin : In x (ids r)) by (apply Hlive; exists m; split; auto; congruence).
  assert (HnodeIn : node <> new) by lia.
  destruct (Nat.eqb x c1 || Nat.eqb x c2) eqn:Hxc.
  - assert (Hpx : nparent m = Some node).
    { apply orb_prop in Hxc as [E|E]; apply Nat.eqb_eq in E; subst x; congruence. }
    destruct (parent_rpath t8 root8 r8 x m8 new HR8 Hnd8 Hin8 Hg8 Hpm) as (_ & pnew & Hpnew & Hxq).
    rewrite Hq in Hxq. injection Hxq as ->. rewrite app_length in Hk. simpl in Hk.
    destruct (parent_rpath t8 root8 r8 new nN node HR8 Hnd8 HnewIn HgN HpN) as (_ & pnode8 & Hpnode8 & Hnq).
    rewrite Hpnew in Hnq. injection Hnq as ->. rewrite app_length in Hk. simpl in Hk.
    destruct (parent_rpath t root r x m node HR Hnd Hin Hg Hpx) as (_ & pn & Hpn & Hxq).
    rewrite (IH pnode8 node) in Hpn; auto; try lia. injection Hpn as <-.
    rewrite Hxq. f_equal. rewrite !filter_app, Hdrop, Hkeep, app_nil_r; auto.
  - destruct (nparent m) as [par|] eqn:Hpar.
    + destruct (parent_rpath t root r x m par HR Hnd Hin Hg Hpar) as (Hparin & pq & Hpq & Hxq).
      assert (Hparnew : par <> new).
      { apply (Rep_ids_live _ _ _ _ _ _ HR) in Hparin. apply live_lt in Hparin. unfold new. lia. }
      destruct (parent_rpath t8 root8 r8 x m8 par HR8 Hnd8 Hin8 Hg8 Hpm) as (_ & pq8 & Hpq8 & Hxq8).
      rewrite Hq in Hxq8. injection Hxq8 as ->. rewrite app_length in Hk. simpl in Hk.
      rewrite (IH pq8 par) in Hpq; auto; try lia. injection Hpq as <-.
      rewrite Hxq. f_equal. rewrite filter_app, Hkeep; auto.
    + pose proof (Rep_root_unique _ _ _ _ _ _ _ HR Hin Hm Hpar) as Ex.
      pose proof (Rep_root_unique _ _ _ _ _ _ _ HR8 Hin8 Hm8 Hpm) as Ex8.
      pose proof (rpath_root r8) as Hr8. rewrite (Rep_rid _ _ _ _ _ HR8), <- Ex8 in Hr8.
      rewrite Hq in Hr8. injection Hr8 as ->.
      pose proof (rpath_root r) as Hr. rewrite (Rep_rid _ _ _ _ _ HR), <- Ex in Hr. rewrite Hr.
      f_equal. symmetry. apply Hkeep. auto.
Qed.

(* the relation preserved by every step *)
Definition dist_pres t t' : Prop :=
  WFS t -> WFS t' /\
  forall a b, live t a -> live t b ->
    live t' a /\ live t' b /\
    exists d k k', get_distance O t a b = Ok (d, k) /\ get_distance O t' a b = Ok (d, k').

Lemma dist_pres_refl t : dist_pres t t.
Proof.
  intros Hwfs. split; auto. intros a b Ha Hb. splits; auto. destruct Hwfs as [Hwf _].
  destruct Hwf as [Hno|(root & r & HR & Hnd & Hlive)]; [exfalso; eapply Hno; eauto|].
  destruct (dist_refines O _ _ _ _ _ HR Hnd (Hlive _ Ha) (Hlive _ Hb)) as (pa & pb & _ & _ & Hd).
  cbv zeta in Hd. do 3 eexists. split; exact Hd.
Qed.

Lemma dist_pres_trans t1 t2 t3 : dist_pres t1 t2 -> dist_pres t2 t3 -> dist_pres t1 t3.
Proof.
  intros H12 H23 Hwfs1. destruct (H12 Hwfs1) as [Hwfs2 H12']. destruct (H23 Hwfs2) as [Hwfs3 H23'].
  split; auto. intros a b Ha Hb.
  destruct (H12' a b Ha Hb) as (Ha2 & Hb2 & d & k & k' & Hd1 & Hd2).
  destruct (H23' a b Ha2 Hb2) as (Ha3 & Hb3 & d' & k2 & k3 & Hd2' & Hd3).
  splits; auto. rewrite Hd2 in Hd2'. injection Hd2' as <- <-. eauto.
Qed.

Lemma resolve_once_dist t node c1 c2 t8 :
  WFS t -> resolve_once_rel t node c1 c2 t8 -> dist_pres t t8.
Proof.
  intros Hwfs Hrel _.
  destruct (resolve_once_up t node c1 c2 t8 Hwfs Hrel)
    as (Hwfs8 & Hlen8 & HltP & (nN & SN & HdN & HpN & HeN) & _ & Sup).
  split; auto. intros a b Hla Hlb.
  assert (Hsurv : forall x, live t x -> live t8 x /\ x <> length t).
  { intros x Hx. pose proof (live_lt _ _ Hx) as Hlt. destruct Hx as (m & Hm & Hd).
    destruct (Sup x m Hm) as (m8 & Hm8 & Hd8 & _). split; [|lia]. exists m8. split; auto. congruence. }
  destruct (Hsurv a Hla) as [Hla8 Hanew]. destruct (Hsurv b Hlb) as [Hlb8 Hbnew]. splits; auto.
  pose proof Hwfs as [Hwf Hse].
  destruct Hwf as [Hno|(root & r & HR & Hnd & Hlive)]; [exfalso; eapply Hno; eauto|].
  pose proof Hwfs8 as [Hwf8 Hse8].
  destruct Hwf8 as [Hno|(root8 & r8 & HR8 & Hnd8 & Hlive8)]; [exfalso; eapply Hno; eauto|].
  destruct (dist_refines O _ _ _ _ _ HR Hnd (Hlive _ Hla) (Hlive _ Hlb)) as (pa & pb & Hpa & Hpb & Hd).
  destruct (dist_refines O _ _ _ _ _ HR8 Hnd8 (Hlive8 _ Hla8) (Hlive8 _ Hlb8)) as (pa8 & pb8 & Hpa8 & Hpb8 & Hd8).
  cbv zeta in Hd, Hd8.
  pose proof (resolve_once_paths t node c1 c2 t8 root r root8 r8 Hwfs Hrel HR HR8) as Hpaths.
  rewrite (Hpaths _ pa8 a (le_n _) Hpa8 Hanew) in Hpa. injection Hpa as <-.
  rewrite (Hpaths _ pb8 b (le_n _) Hpb8 Hbnew) in Hpb. injection Hpb as <-.
  destruct (lca_spec _ _ _ _ _ Hnd8 Hpa8 Hpb8) as (pc & c0 & _ & _ & Hsa & Hsb & _ & _).
  set (ta := skipn (cpl pa8 pb8) pa8) in *. set (tb := skipn (cpl pa8 pb8) pb8) in *.
  assert (Hdis : forall z, In z ta -> In z tb -> False).
  { intros z. apply (lca_tails_disjoint _ _ _ _ _ z Hnd8 Hpa8 Hpb8). }
  assert (Hsa' : pa8 = (pc ++ [c0]) ++ ta) by (rewrite <- app_assoc; exact Hsa).
  assert (Hsb' : pb8 = (pc ++ [c0]) ++ tb) by (rewrite <- app_assoc; exact Hsb).
  destruct (tails_filter_gen (notid (length t)) (pc ++ [c0]) ta tb Hdis) as [Eta Etb].
  rewrite <- Hsa', <- Hsb' in Eta, Etb. rewrite Eta, Etb in Hd. rewrite <- filter_app in Hd.
  do 3 eexists. split; [exact Hd|]. rewrite Hd8. f_equal. f_equal. symmetry.
  apply path_len_drop0.
  - apply NoDup_app_iff. splits.
    + pose proof (rpath_NoDup _ _ _ Hnd8 Hpa8) as H. rewrite Hsa in H. apply NoDup_app_iff in H as (_ & H & _).
      apply NoDup_cons_iff in H as [_ H]. auto.
    + pose proof (rpath_NoDup _ _ _ Hnd8 Hpb8) as H. rewrite Hsb in H. apply NoDup_app_iff in H as (_ & H & _).
      apply NoDup_cons_iff in H as [_ H]. auto.
    + intros z H1 H2. eapply Hdis; eauto.
  - rewrite (edge_of_nth _ _ _ SN). auto.
  - intros x Hx. destruct (nth_error t x) as [m|] eqn:Hm.
    + destruct (Sup x m Hm) as (m8 & Hm8 & _ & He & _).
      rewrite (edge_of_nth _ _ _ Hm), (edge_of_nth _ _ _ Hm8). auto.
    + unfold edge_of. rewrite Hm. apply nth_error_None in Hm.
      rewrite (proj2 (nth_error_None t8 x)) by lia. auto.
Qed.

(* resolve leaves the length of the path between any two nodes of the old tree unchanged; only
   x + 0 = x is used *)
Theorem resolve_dist t t' choices a b :
  WFS t -> resolve O t choices = Ok (Some t') -> live t a -> live t b ->
  live t' a /\ live t' b /\
  exists d k k', get_distance O t a b = Ok (d, k) /\ get_distance O t' a b = Ok (d, k').
Proof.
  intros Hwfs H Ha Hb.
  pose proof (resolve_steps dist_pres dist_pres_refl dist_pres_trans resolve_once_dist t t' choices Hwfs H) as HP.
  destruct (HP Hwfs) as [_ HP']. auto.
Qed.

Corollary resolve_leaf_dist t t' choices a b :
  WFS t -> resolve O t choices = Ok (Some t') -> In a (get_leaves t) -> In b (get_leaves t) ->
  exists d k k', get_distance O t a b = Ok (d, k) /\ get_distance O t' a b = Ok (d, k').
Proof.
  intros Hwfs H Ha Hb.
  destruct (resolve_dist t t' choices a b Hwfs H (leaf_live _ _ Hwfs Ha) (leaf_live _ _ Hwfs Hb)) as (_ & _ & E).
  exact E.
Qed.

End Laws.
End ResolveDist.

(* ==== assumptions ==== *)
Print Assumptions prune_exact.
Print Assumptions prune_root.
Print Assumptions merge_exact.
Print Assumptions merge_refused.
Print Assumptions merge_same_refused.
Print Assumptions merge_dead.
Print Assumptions rescale_exact.
Print Assumptions rescale_dist.
Print Assumptions compress_post.
Print Assumptions compress_leaves.
Print Assumptions resolve_post.
Print Assumptions ladderize_perm.
Print Assumptions ladderize_post.
Print Assumptions ladderize_leaves.
Print Assumptions ladderize_dist.
Print Assumptions compress_dist.
Print Assumptions compress_leaf_dist.
Print Assumptions resolve_dist.
Print Assumptions resolve_leaf_dist.
