(* Formats.v — property C16: each of the nine output formats prints exactly the full-format text of the
   tree in which the fields the format omits have been erased. *)
From PT Require Import Arena Spec Queries Newick.

Section Formats.
Context {L : Type}.
Notation node := (@node L).
Notation arena := (@arena L).

Definition keeps_name (f : nformat) (tip : bool) : bool :=
  match f with
  | AllFields | NoComments | OnlyNames | LeafLengthsAllNames => true
  | LeafLengthsLeafNames | InternalLengthsLeafNames | AllLengthsLeafNames => tip
  | _ => false
  end.
Definition keeps_length (f : nformat) (tip : bool) : bool :=
  match f with
  | AllFields | NoComments | OnlyLengths | AllLengthsLeafNames => true
  | InternalLengthsLeafNames => negb tip
  | LeafLengthsLeafNames | LeafLengthsAllNames => tip
  | _ => false
  end.
Definition keeps_comment (f : nformat) : bool :=
  match f with AllFields => true | _ => false end.

(* clears exactly the fields format f omits; everything structural is kept *)
Definition erase (f : nformat) (n : node) : node :=
  mkNode (nid n)
         (if keeps_name f (is_tip n) then nname n else None)
         (nparent n) (nchildren n)
         (if keeps_length f (is_tip n) then npedge n else None)
         (if keeps_comment f then ncomment n else None)
         (nedges n) (ndepth n) (ndeleted n).

Lemma allfields_id : forall n : node, erase AllFields n = n.
Proof. intros []; reflexivity. Qed.

Lemma is_tip_erase : forall f (n : node), is_tip (erase f n) = is_tip n.
Proof. reflexivity. Qed.
Lemma nchildren_erase : forall f (n : node), nchildren (erase f n) = nchildren n.
Proof. reflexivity. Qed.
Lemma nparent_erase : forall f (n : node), nparent (erase f n) = nparent n.
Proof. reflexivity. Qed.
Lemma ndeleted_erase : forall f (n : node), ndeleted (erase f n) = ndeleted n.
Proof. reflexivity. Qed.
Lemma nid_erase : forall f (n : node), nid (erase f n) = nid n.
Proof. reflexivity. Qed.
Lemma is_root_erase : forall f (n : node), is_root (erase f n) = is_root n.
Proof. reflexivity. Qed.

(* the table: 9 formats x tip/internal *)
Theorem format_table : forall f (n : node),
  node_to_newick f n = node_to_newick AllFields (erase f n).
Proof.
  intros f n. unfold node_to_newick, fmt_name, fmt_length, fmt_comment.
  unfold erase; cbn [nname npedge ncomment].
  destruct f, (is_tip n); cbn [keeps_name keeps_length keeps_comment negb];
    rewrite ?app_nil_r; reflexivity.
Qed.

Lemma get_map_erase : forall f (t : arena) i,
  get (map (erase f) t) i =
  match get t i with Ok n => Ok (erase f n) | Err e => Err e | Panic s => Panic s | OutOfFuel => OutOfFuel end.
Proof.
  intros f t i. unfold get. rewrite nth_error_map.
  destruct (nth_error t i) as [n|]; cbn; [|reflexivity].
  destruct (ndeleted n); reflexivity.
Qed.

Lemma get_root_map_erase : forall f (t : arena), get_root (map (erase f) t) = get_root t.
Proof.
  intros f t. unfold get_root.
  assert (H : forall l : list node,
    filter (fun n => negb (ndeleted n) && is_root n) (map (erase f) l) =
    map (erase f) (filter (fun n => negb (ndeleted n) && is_root n) l)).
  { induction l as [|a l IH]; cbn [map filter]; [reflexivity|].
    rewrite ndeleted_erase, is_root_erase.
    destruct (negb (ndeleted a) && is_root a); cbn [map]; rewrite IH; reflexivity. }
  rewrite H. destruct (filter _ t); reflexivity.
Qed.

Lemma mapM_ext_in : forall {A B} (g h : A -> outcome B) l,
  (forall x, In x l -> g x = h x) -> mapM g l = mapM h l.
Proof.
  induction l as [|a l IH]; intros H; cbn; [reflexivity|].
  rewrite (H a (or_introl eq_refl)), IH; [reflexivity|].
  intros; apply H; right; assumption.
Qed.

Lemma impl_erased : forall f k (t : arena) root,
  to_newick_impl_f k t root f = to_newick_impl_f k (map (erase f) t) root AllFields.
Proof.
  intros f k. induction k as [|k IH]; intros t root; [reflexivity|].
  cbn [to_newick_impl_f]. rewrite get_map_erase.
  destruct (get t root) as [n| | |]; cbn [bind]; try reflexivity.
  rewrite nchildren_erase. destruct (nchildren n) as [|c cs].
  - apply f_equal, format_table.
  - rewrite (mapM_ext_in _ (fun c0 => match to_newick_impl_f k (map (erase f) t) c0 AllFields with
                                      | Ok s => Ok s | Err _ => Panic 21 | Panic s => Panic s
                                      | OutOfFuel => OutOfFuel end) (c :: cs)).
    2:{ intros x _. rewrite IH. reflexivity. }
    destruct (mapM _ (c :: cs)); cbn [bind]; try reflexivity.
    rewrite format_table. reflexivity.
Qed.

Theorem formatted_is_erased : forall (t : arena) f,
  to_formatted_newick t f = to_newick (map (erase f) t).
Proof.
  intros t f. unfold to_newick, to_formatted_newick.
  rewrite get_root_map_erase. destruct (get_root t) as [r| | |]; cbn [bind]; try reflexivity.
  unfold fuel_of. rewrite map_length, impl_erased. reflexivity.
Qed.

(* the nine rows spelled out: which fields survive *)
Theorem erase_spec : forall f (n : node),
  nid (erase f n) = nid n /\ nparent (erase f n) = nparent n /\ nchildren (erase f n) = nchildren n /\
  nedges (erase f n) = nedges n /\ ndepth (erase f n) = ndepth n /\ ndeleted (erase f n) = ndeleted n /\
  nname (erase f n) = (if keeps_name f (is_tip n) then nname n else None) /\
  npedge (erase f n) = (if keeps_length f (is_tip n) then npedge n else None) /\
  ncomment (erase f n) = (if keeps_comment f then ncomment n else None).
Proof. intros; repeat split. Qed.

End Formats.

Print Assumptions format_table.
Print Assumptions formatted_is_erased.
Print Assumptions allfields_id.
