(* Generators.v — C17: the random tree generators (Yule, caterpillar, ETE3-like), for EVERY sequence of
   random draws (the explicit choice lists of Gen.v), return a rooted binary tree with exactly n uniquely
   named leaves and 2n-1 nodes, all branch lengths present (and drawn from the supplied list) when lengths
   are requested and all absent otherwise; the caterpillar generator returns the caterpillar. *)
From Coq Require Import List Arith NArith Lia Bool Permutation.
From PT Require Import Arena Spec Queries Matrix Gen RepLib WFOps Traversals Stats.
Import ListNotations.

Local Arguments ids : simpl never.

(* ================================================================================================ *)
(* 0. decimal rendering is injective                                                                 *)
(* ================================================================================================ *)
Definition dec_val (s : str) (a : N) : N := fold_left (fun a c => (10 * a + (c - 48))%N) s a.

Lemma dec_val_cons c s a : dec_val (c :: s) a = dec_val s (10 * a + (c - 48))%N.
Proof. reflexivity. Qed.

Lemma dec_digits_val : forall fuel n acc,
  (N.to_nat n < fuel) -> dec_val (dec_digits fuel n acc) 0%N = dec_val acc n.
Proof.
  induction fuel as [|f IH]; intros n acc Hlt; [lia|].
  cbn [dec_digits]. cbv zeta.
  assert (Hn : n = (10 * (n / 10) + n mod 10)%N) by (apply N.div_mod; lia).
  assert (Hq : n = 0%N \/ (n / 10 < n)%N).
  { destruct (N.eq_dec n 0); auto. right. apply N.div_lt; lia. }
  remember (n mod 10)%N as r eqn:Hr. clear Hr. remember (n / 10)%N as q eqn:Hq'. clear Hq'.
  destruct (N.eqb_spec q 0%N) as [E|E].
  - rewrite dec_val_cons. f_equal. lia.
  - rewrite IH.
    + rewrite dec_val_cons. f_equal. lia.
    + lia.
Qed.

Lemma dec_of_nat_val n : dec_val (dec_of_nat n) 0%N = N.of_nat n.
Proof. unfold dec_of_nat. rewrite dec_digits_val by lia. reflexivity. Qed.

Theorem dec_of_nat_inj i j : dec_of_nat i = dec_of_nat j -> i = j.
Proof.
  intros H. apply (f_equal (fun s => dec_val s 0%N)) in H. rewrite !dec_of_nat_val in H. lia.
Qed.

Theorem tip_name_inj i j : tip_name i = tip_name j -> i = j.
Proof. unfold tip_name. intros H. apply app_inv_head in H. apply dec_of_nat_inj; auto. Qed.

(* ================================================================================================ *)
(* 1. no panic / no fuel exhaustion: generic part                                                    *)
(* ================================================================================================ *)
Definition safe {A} (o : outcome A) : Prop :=
  match o with Panic _ => False | OutOfFuel => False | _ => True end.

Lemma safe_bind {A B} (o : outcome A) (f : A -> outcome B) :
  safe o -> (forall a, o = Ok a -> safe (f a)) -> safe (bind o f).
Proof. destruct o; simpl; auto. Qed.

Lemma safe_foldM {A S} (g : S -> A -> outcome S) l :
  (forall s a, safe (g s a)) -> forall s, safe (foldM g l s).
Proof.
  intros Hg. induction l; simpl; intros s; auto. apply safe_bind; auto.
Qed.

(* local copies of three small facts about strings (also in Splits.v) *)
Lemma g_str_eqb_iff a b : str_eqb a b = true <-> a = b.
Proof.
  revert b. induction a as [|x a IH]; intros [|y b]; simpl; split; intros H; try reflexivity; try discriminate.
  - apply andb_true_iff in H as [H1 H2]. apply N.eqb_eq in H1. apply IH in H2. congruence.
  - injection H as -> ->. apply andb_true_iff. split; [apply N.eqb_refl | apply IH; reflexivity].
Qed.

Lemma g_mem_str_false x l : ~ In x l -> mem_str x l = false.
Proof.
  intros H. unfold mem_str. destruct (existsb (str_eqb x) l) eqn:E; auto.
  apply existsb_exists in E as (y & Hy & E). apply g_str_eqb_iff in E. subst. tauto.
Qed.

Lemma g_dedup_str_NoDup_id l : NoDup l -> dedup_str l = l.
Proof.
  induction 1 as [|x l Hx _ IH]; simpl; auto.
  rewrite (g_mem_str_false _ _ Hx), IH. reflexivity.
Qed.

Lemma NoDup_map_in {A B} (f : A -> B) l :
  (forall x y, In x l -> In y l -> f x = f y -> x = y) -> NoDup l -> NoDup (map f l).
Proof.
  intros Hinj Hnd. induction Hnd as [|x l Hx Hnd IH]; simpl; constructor.
  - intros Hin. apply in_map_iff in Hin as (y & E & Hy).
    assert (y = x) by (apply Hinj; simpl; auto). subst. tauto.
  - apply IH. intros; apply Hinj; simpl; auto.
Qed.

Section Gen.
Context {L : Type}.
Notation arena := (@arena L).
Notation node := (@node L).
Implicit Types (t : arena).

Lemma safe_get t i : safe (get t i).
Proof. unfold get. destruct (nth_error t i) as [n|]; simpl; auto. destruct (ndeleted n); simpl; auto. Qed.

Lemma safe_upd t i f : safe (upd t i f).
Proof. unfold upd. apply safe_bind; [apply safe_get|]. simpl; auto. Qed.

Lemma safe_add_child t n p e : safe (add_child t n p e).
Proof.
  unfold add_child. destruct (Nat.leb (length t) p); simpl; auto.
  apply safe_bind; [apply safe_get|]. intros np _. unfold add.
  apply safe_bind; [apply safe_upd|]. intros t2 _.
  apply safe_bind; [apply safe_upd|]. intros t3 _. simpl; auto.
Qed.

Lemma safe_name_tips t l : safe (name_tips t l).
Proof. unfold name_tips. apply safe_foldM. intros. apply safe_upd. Qed.

Lemma safe_ete3_loop : forall steps b t deq parents (lens : list L),
  safe (gen_ete3_loop steps b t deq parents lens).
Proof.
  induction steps as [|k IH]; intros b t deq parents lens; simpl.
  - destruct parents; simpl; auto. destruct lens; simpl; auto.
  - destruct parents as [|p ps]; simpl; auto.
    destruct (take2 b lens) as [[[l1' l2'] lens']|]; simpl; auto.
    destruct (if onat_eqb (hd_error deq) (Some p) then Some (tl deq)
              else if onat_eqb (last_opt deq) (Some p) then Some (removelast deq) else None); simpl; auto.
    apply safe_bind; [apply safe_add_child|]. intros [t1 c1] _.
    apply safe_bind; [apply safe_add_child|]. intros [t2 c2] _. apply IH.
Qed.

Theorem ete3_no_panic n b parents (lens : list L) : safe (generate_tree n b parents lens).
Proof.
  unfold generate_tree. destruct (Nat.eqb n 0); simpl; auto.
  apply safe_bind; [apply safe_ete3_loop|]. intros [[t deq]|] _; simpl; auto.
  apply safe_bind; [apply safe_name_tips|]. simpl; auto.
Qed.

Lemma safe_cat_loop : forall steps i n b t parent (lens : list L),
  safe (gen_cat_loop steps i n b t parent lens).
Proof.
  induction steps as [|k IH]; intros i n b t parent lens; simpl.
  - destruct lens; simpl; auto.
  - destruct (take2 b lens) as [[[l1' l2'] lens']|]; simpl; auto.
    destruct (Nat.eqb i (n - 1)).
    + apply safe_bind; [apply safe_add_child|]. intros [t1 c1] _.
      apply safe_bind; [apply safe_add_child|]. intros [t2 c2] _. apply IH.
    + apply safe_bind; [apply safe_add_child|]. intros [t1 c1] _.
      apply safe_bind; [apply safe_add_child|]. intros [t2 c2] _. apply IH.
Qed.

Theorem cat_no_panic n b (lens : list L) : safe (generate_caterpillar n b lens).
Proof. unfold generate_caterpillar. simpl. apply safe_cat_loop. Qed.

Theorem gen_zero_refused b parents (lens : list L) :
  generate_tree 0 b parents lens = Err IsEmpty /\ generate_yule 0 b parents lens = Err IsEmpty.
Proof. split; reflexivity. Qed.

(* ================================================================================================ *)
(* 2. splitting a tip: two consecutive add_child on the same parent                                  *)
(* ================================================================================================ *)
Lemma replace_nth_twice_app {A} k (x y : A) l m :
  k < length l -> replace_nth k y (replace_nth k x l ++ m) = replace_nth k y (l ++ m).
Proof.
  revert k; induction l as [|a l IH]; intros [|k] H; simpl in *; try lia; auto.
  f_equal. apply IH. lia.
Qed.

Lemma count_replace {A} (q : A -> bool) k (x old : A) l :
  nth_error l k = Some old ->
  length (filter q (replace_nth k x l)) + (if q old then 1 else 0)
  = length (filter q l) + (if q x then 1 else 0).
Proof.
  revert k; induction l as [|a l IH]; intros [|k] H; simpl in *; try discriminate.
  - injection H as ->. destruct (q old), (q x); simpl; lia.
  - specialize (IH _ H). destruct (q a); simpl; lia.
Qed.

Lemma nac_fields' (nd : node) c e :
  nid (node_add_child nd c e) = nid nd /\ nparent (node_add_child nd c e) = nparent nd /\
  npedge (node_add_child nd c e) = npedge nd /\ ndepth (node_add_child nd c e) = ndepth nd /\
  ndeleted (node_add_child nd c e) = ndeleted nd /\ nchildren (node_add_child nd c e) = nchildren nd ++ [c] /\
  nname (node_add_child nd c e) = nname nd.
Proof. destruct e; simpl; auto 10. Qed.

Definition split_node (np : node) (c : nat) (e1 e2 : option L) : node :=
  node_add_child (node_add_child np c e1) (S c) e2.

Definition split_arena t (p : nat) (np : node) (nm1 nm2 : option str) (e1 e2 : option L) : arena :=
  replace_nth p (split_node np (length t) e1 e2)
    (t ++ [leaf_node (length t) nm1 None p e1 (ndepth np + 1);
           leaf_node (S (length t)) nm2 None p e2 (ndepth np + 1)]).

Lemma split_node_fields np c e1 e2 :
  nid (split_node np c e1 e2) = nid np /\ nparent (split_node np c e1 e2) = nparent np /\
  npedge (split_node np c e1 e2) = npedge np /\ ndeleted (split_node np c e1 e2) = ndeleted np /\
  nchildren (split_node np c e1 e2) = nchildren np ++ [c; S c] /\
  nname (split_node np c e1 e2) = nname np.
Proof.
  unfold split_node.
  destruct (nac_fields' (node_add_child np c e1) (S c) e2) as (A1 & A2 & A3 & A4 & A5 & A6 & A7).
  destruct (nac_fields' np c e1) as (B1 & B2 & B3 & B4 & B5 & B6 & B7).
  rewrite A1, A2, A3, A5, A6, A7, B1, B2, B3, B5, B6, B7, <- app_assoc. simpl. auto 10.
Qed.

Lemma split2_inv t p nm1 nm2 e1 e2 t1 c1 t2 c2 :
  add_child t (new_node nm1 None) p e1 = Ok (t1, c1) ->
  add_child t1 (new_node nm2 None) p e2 = Ok (t2, c2) ->
  exists np, get t p = Ok np /\ c1 = length t /\ c2 = S (length t) /\
             t2 = split_arena t p np nm1 nm2 e1 e2 /\ (WFS t -> WFS t2).
Proof.
  intros H1 H2.
  assert (Hwf : WFS t -> WFS t2) by (intros; eapply add_child_wf; [eapply add_child_wf|]; eauto).
  apply add_child_inv in H1 as (np & Hg & -> & ->).
  apply add_child_inv in H2 as (np' & Hg' & -> & ->).
  pose proof (get_lt _ _ _ Hg) as Hlt.
  exists np. splits; auto.
  - rewrite replace_nth_length, app_length. simpl. lia.
  - apply get_Ok in Hg' as [Hn' _].
    rewrite nth_error_replace_nth_eq in Hn' by (rewrite app_length; simpl; lia).
    injection Hn' as <-.
    rewrite replace_nth_length, app_length. simpl length. rewrite Nat.add_1_r.
    destruct (nac_fields np (length t) e1) as (_ & _ & _ & -> & _).
    unfold split_arena, split_node.
    rewrite replace_nth_twice_app by (rewrite app_length; simpl; lia).
    rewrite <- app_assoc. reflexivity.
Qed.

(* the slots of a split arena *)
Lemma split_slots t p np nm1 nm2 e1 e2 :
  nth_error t p = Some np ->
  let t2 := split_arena t p np nm1 nm2 e1 e2 in
  length t2 = S (S (length t)) /\
  nth_error t2 p = Some (split_node np (length t) e1 e2) /\
  nth_error t2 (length t) = Some (leaf_node (length t) nm1 None p e1 (ndepth np + 1)) /\
  nth_error t2 (S (length t)) = Some (leaf_node (S (length t)) nm2 None p e2 (ndepth np + 1)) /\
  (forall j, j <> p -> j < length t -> nth_error t2 j = nth_error t j).
Proof.
  intros Hn. pose proof (nth_error_Some_lt _ _ _ Hn) as Hlt. intros t2. unfold t2, split_arena.
  splits.
  - rewrite replace_nth_length, app_length. simpl. lia.
  - apply nth_error_replace_nth_eq. rewrite app_length. simpl. lia.
  - rewrite nth_error_replace_nth_neq by lia. rewrite nth_error_app2 by lia. rewrite Nat.sub_diag. reflexivity.
  - rewrite nth_error_replace_nth_neq by lia. rewrite nth_error_app2 by lia.
    replace (S (length t) - length t) with 1 by lia. reflexivity.
  - intros j Hj Hjl. rewrite nth_error_replace_nth_neq by lia. apply nth_error_app1; auto.
Qed.

(* inversion form: every slot of the split arena is one of the four kinds *)
Lemma split_slots_inv t p np nm1 nm2 e1 e2 j nd :
  nth_error t p = Some np ->
  nth_error (split_arena t p np nm1 nm2 e1 e2) j = Some nd ->
  (j = p /\ nd = split_node np (length t) e1 e2) \/
  (j = length t /\ nd = leaf_node (length t) nm1 None p e1 (ndepth np + 1)) \/
  (j = S (length t) /\ nd = leaf_node (S (length t)) nm2 None p e2 (ndepth np + 1)) \/
  (j <> p /\ j < length t /\ nth_error t j = Some nd).
Proof.
  intros Hn Hj. pose proof (nth_error_Some_lt _ _ _ Hn) as Hlt.
  destruct (split_slots t p np nm1 nm2 e1 e2 Hn) as (Hlen & HP & HA & HB & Hfr).
  pose proof (nth_error_Some_lt _ _ _ Hj) as Hjl. rewrite Hlen in Hjl.
  destruct (Nat.eq_dec j p) as [->|Hne]; [left; split; congruence|].
  destruct (Nat.eq_dec j (length t)) as [->|Hne1]; [right; left; split; congruence|].
  destruct (Nat.eq_dec j (S (length t))) as [->|Hne2]; [right; right; left; split; congruence|].
  right; right; right. splits; auto; try lia. rewrite <- Hfr; auto; lia.
Qed.

Definition tipq (nd : node) : bool := negb (ndeleted nd) && is_tip nd.

Lemma split_n_leaves t p np nm1 nm2 e1 e2 :
  nth_error t p = Some np -> ndeleted np = false -> nchildren np = [] ->
  n_leaves (split_arena t p np nm1 nm2 e1 e2) = S (n_leaves t).
Proof.
  intros Hn Hd Hc. unfold n_leaves, split_arena. fold tipq.
  pose proof (nth_error_Some_lt _ _ _ Hn) as Hlt.
  pose proof (count_replace tipq p (split_node np (length t) e1 e2) np
                (t ++ [leaf_node (length t) nm1 None p e1 (ndepth np + 1);
                       leaf_node (S (length t)) nm2 None p e2 (ndepth np + 1)])) as HC.
  rewrite nth_error_app1 in HC by auto. specialize (HC Hn).
  rewrite filter_app, app_length in HC.
  destruct (split_node_fields np (length t) e1 e2) as (_ & _ & _ & Fd & Fc & _).
  assert (Q1 : tipq np = true) by (unfold tipq, is_tip; rewrite Hd, Hc; reflexivity).
  assert (Q2 : tipq (split_node np (length t) e1 e2) = false).
  { unfold tipq, is_tip. rewrite Fd, Fc, Hd, Hc. reflexivity. }
  rewrite Q1, Q2 in HC. simpl in HC. lia.
Qed.

(* ================================================================================================ *)
(* 3. the invariant of the generator loops                                                           *)
(* ================================================================================================ *)
Definition edge_ok (P : L -> Prop) (b : bool) (e : option L) : Prop :=
  if b then exists l, e = Some l /\ P l else e = None.

(* k = number of splits performed so far *)
Record GI (P : L -> Prop) (b : bool) (k : nat) (t : arena) : Prop := {
  gi_wfs : WFS t;
  gi_len : length t = 2 * k + 1;
  gi_nl : n_leaves t = k + 1;
  gi_slot : forall i nd, nth_error t i = Some nd ->
      ndeleted nd = false /\ nid nd = i /\ (nchildren nd = [] \/ exists a c, nchildren nd = [a; c]);
  gi_root : exists n0, nth_error t 0 = Some n0 /\ nparent n0 = None /\ npedge n0 = None /\
      (k = 0 \/ exists a c, nchildren n0 = [a; c]);
  gi_nonroot : forall i nd, nth_error t i = Some nd -> i <> 0 ->
      (exists p, nparent nd = Some p) /\ edge_ok P b (npedge nd)
}.

Definition tipat t (i : nat) : Prop := exists nd, nth_error t i = Some nd /\ nchildren nd = [].

Definition t0 : arena := fst (add (@nil node) (new_node None None)).

Lemma GI_init P b : GI P b 0 t0.
Proof.
  constructor.
  - apply add_root_wf.
  - reflexivity.
  - reflexivity.
  - intros [|[|i]] nd H; try discriminate. injection H as <-. simpl. auto.
  - eexists. simpl. splits; eauto.
  - intros [|[|i]] nd H; try discriminate. congruence.
Qed.

Lemma tipat_t0 i : tipat t0 i <-> i = 0.
Proof.
  split.
  - intros (nd & H & _). destruct i as [|[|i]]; auto; discriminate.
  - intros ->. eexists. split; reflexivity.
Qed.

Lemma GI_get P b k t i nd : GI P b k t -> nth_error t i = Some nd -> get t i = Ok nd.
Proof. intros G H. apply get_Ok. split; auto. apply (gi_slot _ _ _ _ G _ _ H). Qed.

Lemma GI_split P b k t p np nm1 nm2 e1 e2 :
  GI P b k t -> nth_error t p = Some np -> nchildren np = [] ->
  edge_ok P b e1 -> edge_ok P b e2 ->
  WFS (split_arena t p np nm1 nm2 e1 e2) ->
  GI P b (S k) (split_arena t p np nm1 nm2 e1 e2).
Proof.
  intros G Hn Hc He1 He2 Hwf.
  destruct (gi_slot _ _ _ _ G _ _ Hn) as (Hd & Hid & _).
  destruct (split_slots t p np nm1 nm2 e1 e2 Hn) as (Hlen & HP & HA & HB & Hfr).
  destruct (split_node_fields np (length t) e1 e2) as (Fi & Fp & Fe & Fd & Fc & Fn).
  rewrite Hc in Fc. simpl in Fc.
  pose proof (nth_error_Some_lt _ _ _ Hn) as Hlt.
  constructor; auto.
  - rewrite Hlen, (gi_len _ _ _ _ G). lia.
  - rewrite split_n_leaves by auto. rewrite (gi_nl _ _ _ _ G). lia.
  - intros j nd Hj.
    destruct (split_slots_inv _ _ _ _ _ _ _ _ _ Hn Hj) as [[-> ->]|[[-> ->]|[[-> ->]|(Hne & Hjl & Hj')]]].
    + rewrite Fd, Fi, Fc. splits; auto. right; eauto.
    + simpl. auto.
    + simpl. auto.
    + apply (gi_slot _ _ _ _ G _ _ Hj').
  - destruct (gi_root _ _ _ _ G) as (n0 & H0 & Hp0 & He0 & Hk0).
    destruct (Nat.eq_dec p 0) as [->|Hp].
    + assert (np = n0) by congruence. subst n0.
      exists (split_node np (length t) e1 e2). splits; try congruence. right; eauto.
    + exists n0. splits; auto.
      * rewrite Hfr; auto; lia.
      * destruct Hk0 as [->|Hk0]; auto.
        pose proof (gi_len _ _ _ _ G). lia.
  - intros j nd Hj Hj0.
    destruct (split_slots_inv _ _ _ _ _ _ _ _ _ Hn Hj) as [[-> ->]|[[-> ->]|[[-> ->]|(Hne & Hjl & Hj')]]].
    + rewrite Fp, Fe. apply (gi_nonroot _ _ _ _ G _ _ Hn Hj0).
    + simpl. split; eauto.
    + simpl. split; eauto.
    + apply (gi_nonroot _ _ _ _ G _ _ Hj' Hj0).
Qed.

Lemma tipat_split t p np nm1 nm2 e1 e2 i :
  nth_error t p = Some np -> nchildren np = [] ->
  tipat (split_arena t p np nm1 nm2 e1 e2) i <->
  (tipat t i /\ i <> p) \/ i = length t \/ i = S (length t).
Proof.
  intros Hn Hc.
  destruct (split_slots t p np nm1 nm2 e1 e2 Hn) as (Hlen & HP & HA & HB & Hfr).
  destruct (split_node_fields np (length t) e1 e2) as (_ & _ & _ & _ & Fc & _).
  rewrite Hc in Fc. simpl in Fc.
  split.
  - intros (nd & Hj & Hcj).
    destruct (split_slots_inv _ _ _ _ _ _ _ _ _ Hn Hj) as [[-> ->]|[[-> ->]|[[-> ->]|(Hne & Hjl & Hj')]]]; auto.
    + congruence.
    + left. split; auto. exists nd; auto.
  - intros [[(nd & Hj & Hcj) Hne]|[->| ->]].
    + exists nd. split; auto. rewrite Hfr; auto. eapply nth_error_Some_lt; eauto.
    + eexists; split; eauto.
    + eexists; split; eauto.
Qed.

Lemma tipat_lt t i : tipat t i -> i < length t.
Proof. intros (nd & H & _). eapply nth_error_Some_lt; eauto. Qed.

(* get_leaves lists exactly the tips, without repetition *)
Lemma In_get_leaves P b k t i : GI P b k t -> In i (get_leaves t) <-> tipat t i.
Proof.
  intros G. unfold get_leaves. rewrite in_map_iff. split.
  - intros (nd & Hid & Hin). apply filter_In in Hin as [Hin Hq].
    apply In_nth_error in Hin as (j & Hj).
    destruct (gi_slot _ _ _ _ G _ _ Hj) as (Hd & Hid' & _).
    assert (j = i) by congruence. subst j. exists nd. split; [congruence|].
    rewrite Hd in Hq. simpl in Hq. unfold is_tip in Hq. destruct (nchildren nd); auto. discriminate Hq.
  - intros (nd & Hj & Hc). destruct (gi_slot _ _ _ _ G _ _ Hj) as (Hd & Hid' & _).
    exists nd. split; auto. apply filter_In. split; [eapply nth_error_In; eauto|].
    unfold is_tip. rewrite Hd, Hc. reflexivity.
Qed.

Lemma GI_tree P b k t : GI P b k t ->
  exists r, Rep t None 0 0 r /\ NoDup (ids r) /\ (forall i, live t i -> In i (ids r)).
Proof.
  intros G. destruct (gi_root _ _ _ _ G) as (n0 & H0 & Hp0 & _).
  destruct (gi_slot _ _ _ _ G _ _ H0) as (Hd0 & _).
  assert (Hl0 : live t 0) by (exists n0; auto).
  destruct (WFS_WF _ (gi_wfs _ _ _ _ G)) as [Hno|(root & r & HR & Hnd & Hcov)]; [exfalso; eapply Hno; eauto|].
  assert (root = 0).
  { symmetry. eapply Rep_root_unique; eauto. }
  subst root. eauto.
Qed.

Lemma NoDup_get_leaves P b k t : GI P b k t -> NoDup (get_leaves t).
Proof.
  intros G. destruct (GI_tree _ _ _ _ G) as (r & HR & Hnd & Hcov).
  rewrite (get_leaves_sorted t 0 r HR Hcov). apply NoDup_filter, NoDup_live_idx.
Qed.

Lemma length_get_leaves t : length (get_leaves t) = n_leaves t.
Proof. unfold get_leaves, n_leaves. apply map_length. Qed.

(* ================================================================================================ *)
(* 4. naming the tips changes names only                                                             *)
(* ================================================================================================ *)
Definition ren1 (nd nd' : node) : Prop := exists nm, nd' = set_nname nd nm.
Definition renamed t t' : Prop := Forall2 ren1 t t'.

Lemma renamed_refl t : renamed t t.
Proof. induction t; constructor; auto. exists (nname a). destruct a; reflexivity. Qed.

Lemma renamed_trans t1 t2 t3 : renamed t1 t2 -> renamed t2 t3 -> renamed t1 t3.
Proof.
  intros H; revert t3; induction H as [|x y l l' Hxy Hll IH]; intros t3 H3; inversion H3 as [|y' z l'' l3 Hyz Hl3]; subst;
    constructor.
  - destruct Hxy as (a & ->). destruct Hyz as (c & ->). exists c. reflexivity.
  - apply IH; auto.
Qed.

Lemma renamed_replace t i nd nm : nth_error t i = Some nd -> renamed t (replace_nth i (set_nname nd nm) t).
Proof.
  revert i; induction t as [|a t IH]; intros [|i] H; simpl in *; try discriminate.
  - injection H as ->. constructor; [exists nm; auto|apply renamed_refl].
  - constructor; [exists (nname a); destruct a; reflexivity|]. apply IH; auto.
Qed.

Lemma renamed_length t t' : renamed t t' -> length t' = length t.
Proof. induction 1; simpl; auto. Qed.

Lemma renamed_nth_r t t' i nd' : renamed t t' -> nth_error t' i = Some nd' ->
  exists nd nm, nth_error t i = Some nd /\ nd' = set_nname nd nm.
Proof.
  intros H; revert i; induction H; intros [|i] Hi; simpl in *; try discriminate; eauto.
  injection Hi as <-. destruct H as (nm & ->). eauto.
Qed.

Lemma renamed_nth_l t t' i nd : renamed t t' -> nth_error t i = Some nd ->
  exists nm, nth_error t' i = Some (set_nname nd nm).
Proof.
  intros H; revert i; induction H; intros [|i] Hi; simpl in *; try discriminate; eauto.
  injection Hi as <-. destruct H as (nm & ->). eauto.
Qed.

Lemma renamed_n_leaves t t' : renamed t t' -> n_leaves t' = n_leaves t.
Proof.
  unfold n_leaves. induction 1; simpl; auto. destruct H as (nm & ->). simpl.
  unfold is_tip. simpl. destruct (negb (ndeleted x) && _); simpl; auto.
Qed.

Lemma Rep_renamed t t' : renamed t t' -> forall r p d i, Rep t p d i r -> Rep t' p d i r.
Proof.
  intros Hren. induction r using RepLib.rtree_ind'. intros p d j HR.
  destruct (RepLib.Rep_inv _ _ _ _ _ HR) as (n & cs' & Heq & Hn & Hdel & Hid & Hp & Hd & HF & He1 & He2).
  injection Heq as -> ->.
  destruct (renamed_nth_l _ _ _ _ Hren Hn) as (nm & Hn').
  apply Rep_node with (n := set_nname n nm); simpl; auto.
  - eapply Forall2_impl_In; [|eassumption]. simpl. intros a c _ Hc HRc.
    rewrite Forall_forall in H. eapply H; eauto.
  - intros c nc Hc Hnc. destruct (renamed_nth_r _ _ _ _ Hren Hnc) as (nc0 & nm0 & Hnc0 & ->). simpl. eauto.
Qed.

Lemma live_renamed t t' i : renamed t t' -> (live t' i <-> live t i).
Proof.
  intros Hren. unfold live. split.
  - intros (nd' & Hn & Hd). destruct (renamed_nth_r _ _ _ _ Hren Hn) as (nd & nm & Hnd & ->). eauto.
  - intros (nd & Hn & Hd). destruct (renamed_nth_l _ _ _ _ Hren Hn) as (nm & Hn'). eauto.
Qed.

Lemma WFS_renamed t t' : renamed t t' -> WFS t -> WFS t'.
Proof.
  intros Hren [Hwf Hse]. split.
  - destruct Hwf as [Hno|(root & r & HR & Hnd & Hlive)].
    + left. intros i Hi. apply (Hno i). apply (live_renamed _ _ _ Hren); auto.
    + right. exists root, r. splits; auto.
      * eapply Rep_renamed; eauto.
      * intros i Hi. apply Hlive. apply (live_renamed _ _ _ Hren); auto.
  - intros i nd' Hn. destruct (renamed_nth_r _ _ _ _ Hren Hn) as (nd & nm & Hnd & ->). simpl. eauto.
Qed.

Lemma GI_renamed P b k t t' : renamed t t' -> GI P b k t -> GI P b k t'.
Proof.
  intros Hren G. constructor.
  - eapply WFS_renamed; eauto. apply G.
  - rewrite (renamed_length _ _ Hren). apply G.
  - rewrite (renamed_n_leaves _ _ Hren). apply G.
  - intros i nd' Hn. destruct (renamed_nth_r _ _ _ _ Hren Hn) as (nd & nm & Hnd & ->). simpl.
    apply (gi_slot _ _ _ _ G _ _ Hnd).
  - destruct (gi_root _ _ _ _ G) as (n0 & H0 & Hp0 & He0 & Hk0).
    destruct (renamed_nth_l _ _ _ _ Hren H0) as (nm & Hn'). exists (set_nname n0 nm). simpl. auto.
  - intros i nd' Hn Hi. destruct (renamed_nth_r _ _ _ _ Hren Hn) as (nd & nm & Hnd & ->). simpl.
    apply (gi_nonroot _ _ _ _ G _ _ Hnd Hi).
Qed.

Lemma tipat_renamed t t' i : renamed t t' -> (tipat t' i <-> tipat t i).
Proof.
  intros Hren. unfold tipat. split.
  - intros (nd' & Hn & Hc). destruct (renamed_nth_r _ _ _ _ Hren Hn) as (nd & nm & Hnd & ->). eauto.
  - intros (nd & Hn & Hc). destruct (renamed_nth_l _ _ _ _ Hren Hn) as (nm & Hn'). eauto.
Qed.

Definition name_step (t : arena) (p : nat * nat) : outcome arena :=
  upd t (snd p) (fun x => set_nname x (Some (tip_name (fst p)))).

Lemma name_loop_spec : forall l s t t',
  foldM name_step (combine (seq s (length l)) l) t = Ok t' -> NoDup l ->
  renamed t t' /\
  (forall j i, nth_error l j = Some i ->
     exists nd', nth_error t' i = Some nd' /\ nname nd' = Some (tip_name (s + j))) /\
  (forall i nd', ~ In i l -> nth_error t' i = Some nd' ->
     exists nd, nth_error t i = Some nd /\ nname nd' = nname nd).
Proof.
  induction l as [|a l IH]; intros s t t' H Hnd.
  - simpl in H. injection H as <-. splits.
    + apply renamed_refl.
    + intros [|j] i Hj; discriminate.
    + intros i nd' _ Hi. eauto.
  - simpl in H. apply bind_Ok in H as (t1 & H1 & H). unfold name_step in H1. simpl in H1.
    apply upd_inv in H1 as (n & Hg & ->). apply get_Ok in Hg as [Hn Hdel].
    apply NoDup_cons_iff in Hnd as [Hna Hnd].
    destruct (IH _ _ _ H Hnd) as (Hren & Hnamed & Hother).
    pose proof (nth_error_Some_lt _ _ _ Hn) as Hlt.
    splits.
    + eapply renamed_trans; [apply renamed_replace; eauto|eauto].
    + intros [|j] i Hj; simpl in Hj.
      * injection Hj as <-.
        destruct (renamed_nth_l _ _ a _ Hren (nth_error_replace_nth_eq _ _ _ Hlt)) as (nm & Hn').
        eexists. split; eauto.
        destruct (Hother _ _ Hna Hn') as (nd & Hnd1 & ->).
        rewrite nth_error_replace_nth_eq in Hnd1 by auto. injection Hnd1 as <-. simpl.
        rewrite Nat.add_0_r. reflexivity.
      * destruct (Hnamed _ _ Hj) as (nd' & Hn' & Hnm). exists nd'. split; auto.
        rewrite Hnm. f_equal. f_equal. lia.
    + intros i nd' Hi Hn'. simpl in Hi.
      destruct (Hother i nd') as (nd & Hnd1 & Hnm); auto.
      rewrite nth_error_replace_nth_neq in Hnd1 by (intros ->; tauto). eauto.
Qed.

Lemma name_tips_spec l t t' :
  name_tips t l = Ok t' -> NoDup l ->
  renamed t t' /\
  (forall j i, nth_error l j = Some i ->
     exists nd', nth_error t' i = Some nd' /\ nname nd' = Some (tip_name j)) /\
  (forall i nd', ~ In i l -> nth_error t' i = Some nd' ->
     exists nd, nth_error t i = Some nd /\ nname nd' = nname nd).
Proof. intros H Hnd. apply (name_loop_spec l 0 t t'); auto. Qed.

(* ================================================================================================ *)
(* 5. what is established for a generated tree                                                       *)
(* ================================================================================================ *)
Definition names_none t : Prop := forall i nd, nth_error t i = Some nd -> nname nd = None.

Lemma names_none_t0 : names_none t0.
Proof. intros [|[|i]] nd H; try discriminate. injection H as <-. reflexivity. Qed.

Lemma names_none_split t p np e1 e2 :
  nth_error t p = Some np -> names_none t -> names_none (split_arena t p np None None e1 e2).
Proof.
  intros Hn Hnone j nd Hj.
  destruct (split_slots_inv _ _ _ _ _ _ _ _ _ Hn Hj) as [[-> ->]|[[-> ->]|[[-> ->]|(Hne & Hjl & Hj')]]]; eauto.
  destruct (split_node_fields np (length t) e1 e2) as (_ & _ & _ & _ & _ & ->). eauto.
Qed.

(* every leaf is named Tip_j for some j in [lo, lo + n), and different leaves carry different names *)
Definition names_ok (lo n : nat) t : Prop :=
  (forall i nd, nth_error t i = Some nd -> nchildren nd = [] ->
     exists j, lo <= j < lo + n /\ nname nd = Some (tip_name j)) /\
  (forall i i' nd nd', nth_error t i = Some nd -> nth_error t i' = Some nd' ->
     nchildren nd = [] -> nchildren nd' = [] -> i <> i' -> nname nd <> nname nd').

Lemma tips_length P b k t l :
  GI P b k t -> NoDup l -> (forall i, In i l <-> tipat t i) -> length l = k + 1.
Proof.
  intros G Hnd Hl. rewrite <- (gi_nl _ _ _ _ G), <- length_get_leaves.
  apply Permutation_length. apply NoDup_Permutation; auto.
  - eapply NoDup_get_leaves; eauto.
  - intros i. rewrite Hl. symmetry. eapply In_get_leaves; eauto.
Qed.

Lemma name_tips_ok P b k t l t' :
  GI P b k t -> NoDup l -> (forall i, In i l <-> tipat t i) -> name_tips t l = Ok t' ->
  GI P b k t' /\ names_ok 0 (k + 1) t'.
Proof.
  intros G Hnd Hl H. pose proof (tips_length _ _ _ _ _ G Hnd Hl) as Hlen.
  destruct (name_tips_spec _ _ _ H Hnd) as (Hren & Hnamed & _).
  split; [eapply GI_renamed; eauto|].
  assert (Hidx : forall i nd, nth_error t' i = Some nd -> nchildren nd = [] ->
            exists j, nth_error l j = Some i /\ nname nd = Some (tip_name j)).
  { intros i nd Hi Hc.
    assert (Hin : In i l). { apply Hl. apply (tipat_renamed _ _ _ Hren). exists nd; auto. }
    apply In_nth_error in Hin as (j & Hj). exists j. split; auto.
    destruct (Hnamed _ _ Hj) as (nd' & Hn' & Hnm). congruence. }
  split.
  - intros i nd Hi Hc. destruct (Hidx _ _ Hi Hc) as (j & Hj & Hnm). exists j. split; auto.
    apply nth_error_Some_lt in Hj. lia.
  - intros i i' nd nd' Hi Hi' Hc Hc' Hne E.
    destruct (Hidx _ _ Hi Hc) as (j & Hj & Hnm). destruct (Hidx _ _ Hi' Hc') as (j' & Hj' & Hnm').
    rewrite Hnm, Hnm' in E. assert (E' : tip_name j = tip_name j') by congruence.
    apply tip_name_inj in E'. subst j'. congruence.
Qed.

Lemma take2_ok P b (lens : list L) l1 l2 lens' :
  Forall P lens -> take2 b lens = Some (l1, l2, lens') ->
  edge_ok P b l1 /\ edge_ok P b l2 /\ Forall P lens'.
Proof.
  intros HF H. unfold take2 in H. destruct b.
  - destruct lens as [|a [|c r]]; try discriminate. injection H as <- <- <-.
    inversion HF as [|? ? Pa HF1]; subst. inversion HF1 as [|? ? Pc HF2]; subst.
    simpl. splits; eauto.
  - injection H as <- <- <-. simpl. auto.
Qed.

(* ---- ETE3-like ------------------------------------------------------------------------------------ *)
Lemma onat_eqb_Some o p : onat_eqb o (Some p) = true -> o = Some p.
Proof. destruct o; simpl; try discriminate. intros H. apply Nat.eqb_eq in H. congruence. Qed.

Lemma hd_error_tl {A} (l : list A) x : hd_error l = Some x -> l = x :: tl l.
Proof. destruct l; simpl; congruence. Qed.

Lemma last_opt_removelast {A} (l : list A) x : last_opt l = Some x -> l = removelast l ++ [x].
Proof.
  induction l as [|a [|c l] IH]; intros H; try discriminate.
  - simpl in H. injection H as ->. reflexivity.
  - change (last_opt (a :: c :: l)) with (last_opt (c :: l)) in H.
    change (removelast (a :: c :: l)) with (a :: removelast (c :: l)). simpl app. f_equal. auto.
Qed.

Lemma deq_step t p np nm1 nm2 e1 e2 deq dq :
  Permutation deq (p :: dq) -> NoDup deq -> (forall i, In i deq <-> tipat t i) ->
  nth_error t p = Some np -> nchildren np = [] ->
  NoDup (dq ++ [length t; S (length t)]) /\
  forall i, In i (dq ++ [length t; S (length t)]) <-> tipat (split_arena t p np nm1 nm2 e1 e2) i.
Proof.
  intros Hperm Hnd Hl Hn Hc.
  assert (Hnd' : NoDup (p :: dq)) by (eapply Permutation_NoDup; eauto).
  apply NoDup_cons_iff in Hnd' as [Hp Hdq].
  assert (Hin : forall i, In i dq <-> tipat t i /\ i <> p).
  { intros i. rewrite <- Hl. split.
    - intros Hi. split; [eapply Permutation_in; [apply Permutation_sym; eauto|right; auto]|intros ->; auto].
    - intros [Hi Hne]. eapply Permutation_in in Hi; [|eauto]. destruct Hi; congruence. }
  split.
  - apply NoDup_app_iff. splits; auto.
    + repeat constructor; simpl; intuition lia.
    + intros j Hj [<-|[<-|[]]]; apply Hin in Hj as [Hj _]; apply tipat_lt in Hj; lia.
  - intros i. rewrite (tipat_split _ _ _ _ _ _ _ _ Hn Hc), in_app_iff, Hin. simpl. intuition.
Qed.

Lemma deq_choice (deq : list nat) p dq :
  (if onat_eqb (hd_error deq) (Some p) then Some (tl deq)
   else if onat_eqb (last_opt deq) (Some p) then Some (removelast deq) else None) = Some dq ->
  Permutation deq (p :: dq).
Proof.
  destruct (onat_eqb (hd_error deq) (Some p)) eqn:E1.
  - intros [= <-]. apply onat_eqb_Some, hd_error_tl in E1. rewrite <- E1. reflexivity.
  - destruct (onat_eqb (last_opt deq) (Some p)) eqn:E2; [|discriminate].
    intros [= <-]. apply onat_eqb_Some, last_opt_removelast in E2. rewrite E2 at 1.
    apply Permutation_sym, Permutation_cons_append.
Qed.

(* one loop step: a tip is split by two add_child *)
Lemma split_step P b k t p nm1 nm2 e1 e2 t1 c1 t2 c2 :
  GI P b k t -> tipat t p -> edge_ok P b e1 -> edge_ok P b e2 ->
  add_child t (new_node nm1 None) p e1 = Ok (t1, c1) ->
  add_child t1 (new_node nm2 None) p e2 = Ok (t2, c2) ->
  exists np, nth_error t p = Some np /\ nchildren np = [] /\ c1 = length t /\ c2 = S (length t) /\
             t2 = split_arena t p np nm1 nm2 e1 e2 /\ GI P b (S k) t2.
Proof.
  intros G (np0 & Hn0 & Hc0) He1 He2 H1 H2.
  destruct (split2_inv _ _ _ _ _ _ _ _ _ _ H1 H2) as (np & Hg & -> & -> & -> & Hwf).
  apply get_Ok in Hg as [Hn Hd]. assert (np0 = np) by congruence. subst np0.
  exists np. splits; auto. apply GI_split; auto. apply Hwf. apply G.
Qed.

Definition EI (P : L -> Prop) (b : bool) (k : nat) t (deq : list nat) : Prop :=
  GI P b k t /\ names_none t /\ NoDup deq /\ (forall i, In i deq <-> tipat t i).

Lemma ete3_loop_inv P b : forall steps k t deq parents lens t' deq',
  EI P b k t deq -> Forall P lens ->
  gen_ete3_loop steps b t deq parents lens = Ok (Some (t', deq')) ->
  EI P b (k + steps) t' deq'.
Proof.
  induction steps as [|s IH]; intros k t deq parents lens t' deq' HE HF H; simpl in H.
  - destruct parents; [|discriminate]. destruct lens; [|discriminate]. injection H as <- <-.
    rewrite Nat.add_0_r. auto.
  - destruct parents as [|p ps]; [discriminate|].
    destruct (take2 b lens) as [[[l1' l2'] lens']|] eqn:Ht; [|discriminate].
    destruct (take2_ok _ _ _ _ _ _ HF Ht) as (He1 & He2 & HF').
    destruct HE as (G & Hnone & Hnd & Hl).
    destruct (if onat_eqb (hd_error deq) (Some p) then Some (tl deq)
              else if onat_eqb (last_opt deq) (Some p) then Some (removelast deq) else None) as [dq|] eqn:Edq;
      [|discriminate].
    apply deq_choice in Edq.
    apply bind_Ok in H as ([t1 c1] & H1 & H). apply bind_Ok in H as ([t2 c2] & H2 & H).
    assert (Htp : tipat t p). { apply Hl. eapply Permutation_in; [apply Permutation_sym; eauto|left; auto]. }
    destruct (split_step _ _ _ _ _ _ _ _ _ _ _ _ _ G Htp He1 He2 H1 H2) as (np & Hn & Hc & -> & -> & -> & G').
    replace (k + S s) with (S k + s) by lia.
    eapply IH; [|eauto|eauto].
    destruct (deq_step t p np None None l1' l2' deq dq Edq Hnd Hl Hn Hc) as (Hnd' & Hl').
    split; [auto|]. split; [apply names_none_split; auto|]. split; auto.
Qed.

Definition gen_final (P : L -> Prop) (b : bool) (lo n : nat) t : Prop :=
  GI P b (n - 1) t /\ names_ok lo n t.

Theorem ete3_final n b parents (lens : list L) t :
  generate_tree n b parents lens = Ok (Some t) -> gen_final (fun l => In l lens) b 0 n t.
Proof.
  unfold generate_tree. destruct (Nat.eqb_spec n 0) as [|Hn0]; [discriminate|].
  change (fst (add (@nil node) (new_node None None))) with t0. intros H.
  change (let '(t1, _) := add (@nil node) (new_node None None) in
          r <- gen_ete3_loop (n - 1) b t1 [0] parents lens ;;
          match r with None => Ok None | Some (t, deq) => t' <- name_tips t deq ;; Ok (Some t') end)
    with (r <- gen_ete3_loop (n - 1) b t0 [0] parents lens ;;
          match r with None => Ok None | Some (t, deq) => t' <- name_tips t deq ;; Ok (Some t') end) in H.
  apply bind_Ok in H as ([[t1 deq]|] & Hloop & H); [|discriminate].
  apply bind_Ok in H as (t' & Hname & H). injection H as <-.
  assert (HE0 : EI (fun l => In l lens) b 0 t0 [0]).
  { split; [apply GI_init|]. split; [apply names_none_t0|]. split.
    - repeat constructor. simpl; tauto.
    - intros i. rewrite tipat_t0. simpl. intuition. }
  eapply ete3_loop_inv in Hloop; [|eauto|apply Forall_forall; auto].
  destruct Hloop as (G & _ & Hnd & Hl). simpl in G.
  destruct (name_tips_ok _ _ _ _ _ _ G Hnd Hl Hname) as (G' & Hnames).
  split; auto. replace (n - 1 + 1) with n in Hnames by lia. auto.
Qed.


(* ---- Yule -------------------------------------------------------------------------------------------- *)
Lemma yule_unfold fuel n b t parents (lens : list L) :
  gen_yule_loop fuel n b t parents lens =
  if Nat.eqb (n_leaves t) n then
    match parents, lens with [], [] => Ok (Some t) | _, _ => Ok None end
  else
  match fuel with
  | 0 => OutOfFuel
  | S f =>
      match parents, take2 b lens with
      | p :: ps, Some (l1', l2', lens') =>
          if negb (mem_nat p (get_leaves t)) then Ok None else
          '(t1, _) <- add_child t (new_node None None) p l1' ;;
          '(t2, _) <- add_child t1 (new_node None None) p l2' ;;
          gen_yule_loop f n b t2 ps lens'
      | _, _ => Ok None
      end
  end.
Proof. destruct fuel; reflexivity. Qed.

Lemma yule_loop_inv P b n : forall fuel k t parents lens t',
  GI P b k t -> names_none t -> Forall P lens ->
  gen_yule_loop fuel n b t parents lens = Ok (Some t') ->
  GI P b (n - 1) t' /\ names_none t'.
Proof.
  induction fuel as [|f IH]; intros k t parents lens t' G Hnone HF H; rewrite yule_unfold in H.
  - destruct (Nat.eqb_spec (n_leaves t) n) as [E|E]; [|discriminate].
    destruct parents; [|discriminate]. destruct lens; [|discriminate]. injection H as <-.
    rewrite (gi_nl _ _ _ _ G) in E. subst n. replace (k + 1 - 1) with k by lia. auto.
  - destruct (Nat.eqb_spec (n_leaves t) n) as [E|E].
    { destruct parents; [|discriminate]. destruct lens; [|discriminate]. injection H as <-.
      rewrite (gi_nl _ _ _ _ G) in E. subst n. replace (k + 1 - 1) with k by lia. auto. }
    destruct parents as [|p ps]; [discriminate|].
    destruct (take2 b lens) as [[[l1' l2'] lens']|] eqn:Ht; [|discriminate].
    destruct (take2_ok _ _ _ _ _ _ HF Ht) as (He1 & He2 & HF').
    destruct (mem_nat p (get_leaves t)) eqn:Hm; simpl in H; [|discriminate].
    apply Stats.mem_nat_In in Hm. apply (In_get_leaves _ _ _ _ _ G) in Hm.
    apply bind_Ok in H as ([t1 c1] & H1 & H). apply bind_Ok in H as ([t2 c2] & H2 & H).
    destruct (split_step _ _ _ _ _ _ _ _ _ _ _ _ _ G Hm He1 He2 H1 H2) as (np & Hn & Hc & -> & -> & -> & G').
    eapply IH; eauto. apply names_none_split; auto.
Qed.

Theorem yule_final n b parents (lens : list L) t :
  generate_yule n b parents lens = Ok (Some t) -> gen_final (fun l => In l lens) b 0 n t.
Proof.
  unfold generate_yule. destruct (Nat.eqb_spec n 0) as [|Hn0]; [discriminate|]. intros H.
  change (r <- gen_yule_loop n n b t0 parents lens ;;
          match r with None => Ok None | Some t => t' <- name_tips t (get_leaves t) ;; Ok (Some t') end
          = Ok (Some t)) in H.
  apply bind_Ok in H as ([t1|] & Hloop & H); [|discriminate].
  apply bind_Ok in H as (t' & Hname & H). injection H as <-.
  assert (HF : Forall (fun l => In l lens) lens) by (apply Forall_forall; auto).
  destruct (yule_loop_inv _ b n _ 0 _ _ _ _ (GI_init _ b) names_none_t0 HF Hloop) as (G & _).
  destruct (name_tips_ok _ _ _ _ _ _ G (NoDup_get_leaves _ _ _ _ G) (fun i => In_get_leaves _ _ _ _ i G) Hname)
    as (G' & Hnames).
  split; auto. replace (n - 1 + 1) with n in Hnames by lia. auto.
Qed.

Lemma safe_yule_loop b n : forall fuel k t parents (lens : list L),
  GI (fun _ => True) b k t -> k + 1 <= n -> n <= k + 1 + fuel ->
  safe (gen_yule_loop fuel n b t parents lens).
Proof.
  induction fuel as [|f IH]; intros k t parents lens G H1 H2; rewrite yule_unfold;
    rewrite (gi_nl _ _ _ _ G).
  - destruct (Nat.eqb_spec (k + 1) n) as [E|E]; [|lia].
    destruct parents; simpl; auto. destruct lens; simpl; auto.
  - destruct (Nat.eqb_spec (k + 1) n) as [E|E].
    { destruct parents; simpl; auto. destruct lens; simpl; auto. }
    destruct parents as [|p ps]; simpl; auto.
    destruct (take2 b lens) as [[[l1' l2'] lens']|] eqn:Ht; simpl; auto.
    assert (HF : Forall (fun _ : L => True) lens) by (apply Forall_forall; auto).
    destruct (take2_ok _ _ _ _ _ _ HF Ht) as (He1 & He2 & HF').
    destruct (mem_nat p (get_leaves t)) eqn:Hm; simpl; auto.
    apply Stats.mem_nat_In in Hm. apply (In_get_leaves _ _ _ _ _ G) in Hm.
    apply safe_bind; [apply safe_add_child|]. intros [t1 c1] E1.
    apply safe_bind; [apply safe_add_child|]. intros [t2 c2] E2.
    destruct (split_step _ _ _ _ _ _ _ _ _ _ _ _ _ G Hm He1 He2 E1 E2) as (np & Hn & Hc & -> & -> & -> & G').
    eapply IH; eauto; lia.
Qed.

Theorem yule_no_panic n b parents (lens : list L) : safe (generate_yule n b parents lens).
Proof.
  unfold generate_yule. destruct (Nat.eqb_spec n 0) as [|Hn0]; simpl; auto.
  change (safe (r <- gen_yule_loop n n b t0 parents lens ;;
          match r with None => Ok None | Some t => t' <- name_tips t (get_leaves t) ;; Ok (Some t') end)).
  apply safe_bind.
  - eapply safe_yule_loop; [apply GI_init|lia|lia].
  - intros [t|] _; simpl; auto. apply safe_bind; [apply safe_name_tips|]. simpl; auto.
Qed.

Theorem gen_no_panic n b parents (lens : list L) :
  safe (generate_tree n b parents lens) /\ safe (generate_yule n b parents lens) /\
  safe (generate_caterpillar n b lens).
Proof. splits; [apply ete3_no_panic|apply yule_no_panic|apply cat_no_panic]. Qed.

(* ---- caterpillar ------------------------------------------------------------------------------------ *)
(* the spine: internal node number j sits in slot pid j = 0, 1, 3, 5, ...; its children are the next
   spine node pid (j+1) = 2j+1 and the leaf 2j+2 *)
Definition pid (j : nat) : nat := 2 * j - 1.

(* after m non-final steps: the current parent pid m is an unnamed tip *)
Definition CI (m : nat) t : Prop :=
  forall i nd, nth_error t i = Some nd ->
    (i = pid m /\ nchildren nd = [] /\ nname nd = None) \/
    (exists j, j < m /\ i = pid j /\ nchildren nd = [pid (S j); S (pid (S j))]) \/
    (exists j, 1 <= j <= m /\ i = 2 * j /\ nchildren nd = [] /\ nname nd = Some (tip_name j)).

(* after the final step (number m+1) *)
Definition CF (m : nat) t : Prop :=
  forall i nd, nth_error t i = Some nd ->
    (exists j, j <= m /\ i = pid j /\ nchildren nd = [pid (S j); S (pid (S j))]) \/
    (exists j, nchildren nd = [] /\ nname nd = Some (tip_name j) /\
       ((1 <= j <= m /\ i = 2 * j) \/ (j = m + 1 /\ i = 2 * m + 1) \/ (j = m + 2 /\ i = 2 * m + 2))).

Lemma CI_init : CI 0 t0.
Proof. intros [|[|i]] nd H; try discriminate. injection H as <-. left. simpl. auto. Qed.

Lemma CI_parent_tip P b m t : GI P b m t -> CI m t -> tipat t (pid m).
Proof.
  intros G HC. assert (Hlt : pid m < length t) by (rewrite (gi_len _ _ _ _ G); unfold pid; lia).
  destruct (nth_error t (pid m)) as [nd|] eqn:E; [|apply nth_error_None in E; lia].
  exists nd. split; auto.
  destruct (HC _ _ E) as [(_ & Hc & _)|[(j & Hj & Hi & _)|(j & Hj & Hi & _)]]; auto; unfold pid in *; lia.
Qed.

Lemma CI_step P b m t np e1 e2 :
  GI P b m t -> CI m t -> nth_error t (pid m) = Some np -> nchildren np = [] ->
  CI (S m) (split_arena t (pid m) np None (Some (tip_name (S m))) e1 e2).
Proof.
  intros G HC Hn Hc i nd Hi. pose proof (gi_len _ _ _ _ G) as Hlen.
  destruct (split_node_fields np (length t) e1 e2) as (_ & _ & _ & _ & Fc & Fn).
  rewrite Hc in Fc. simpl in Fc.
  destruct (split_slots_inv _ _ _ _ _ _ _ _ _ Hn Hi) as [[-> ->]|[[-> ->]|[[-> ->]|(Hne & Hjl & Hj')]]].
  - right; left. exists m. splits; auto. rewrite Fc, Hlen. unfold pid. replace (2 * S m - 1) with (2 * m + 1) by lia. reflexivity.
  - left. simpl. splits; auto. unfold pid. lia.
  - right; right. exists (S m). simpl. splits; auto; lia.
  - destruct (HC _ _ Hj') as [(Hi' & _)|[(j & Hj & Hi' & Hcj)|(j & Hj & Hi' & Hcj & Hnj)]]; [congruence| |].
    + right; left. exists j. splits; auto.
    + right; right. exists j. splits; auto; lia.
Qed.

Lemma CF_step P b m t np e1 e2 :
  GI P b m t -> CI m t -> nth_error t (pid m) = Some np -> nchildren np = [] ->
  CF m (split_arena t (pid m) np (Some (tip_name (S m))) (Some (tip_name (S m + 1))) e1 e2).
Proof.
  intros G HC Hn Hc i nd Hi. pose proof (gi_len _ _ _ _ G) as Hlen.
  destruct (split_node_fields np (length t) e1 e2) as (_ & _ & _ & _ & Fc & Fn).
  rewrite Hc in Fc. simpl in Fc.
  destruct (split_slots_inv _ _ _ _ _ _ _ _ _ Hn Hi) as [[-> ->]|[[-> ->]|[[-> ->]|(Hne & Hjl & Hj')]]].
  - left. exists m. splits; auto. rewrite Fc, Hlen. unfold pid. replace (2 * S m - 1) with (2 * m + 1) by lia. reflexivity.
  - right. exists (S m). simpl. splits; auto. right; left. lia.
  - right. exists (S m + 1). simpl. splits; auto. right; right. lia.
  - destruct (HC _ _ Hj') as [(Hi' & _)|[(j & Hj & Hi' & Hcj)|(j & Hj & Hi' & Hcj & Hnj)]]; [congruence| |].
    + left. exists j. splits; auto. lia.
    + right. exists j. splits; auto.
Qed.

Lemma cat_loop_inv P b n : forall steps m t parent lens t',
  S m + steps = n -> 1 <= steps ->
  GI P b m t -> CI m t -> parent = pid m -> Forall P lens ->
  gen_cat_loop steps (S m) n b t parent lens = Ok (Some t') ->
  GI P b (n - 1) t' /\ CF (n - 2) t'.
Proof.
  induction steps as [|k IH]; intros m t parent lens t' Hn Hs G HC -> HF H; [lia|].
  cbn [gen_cat_loop] in H.
  destruct (take2 b lens) as [[[l1' l2'] lens']|] eqn:Ht; [|discriminate].
  destruct (take2_ok _ _ _ _ _ _ HF Ht) as (He1 & He2 & HF').
  pose proof (CI_parent_tip _ _ _ _ G HC) as Htp.
  destruct (Nat.eqb_spec (S m) (n - 1)) as [E|E].
  - apply bind_Ok in H as ([t1 c1] & H1 & H). apply bind_Ok in H as ([t2 c2] & H2 & H).
    destruct (split_step _ _ _ _ _ _ _ _ _ _ _ _ _ G Htp He1 He2 H1 H2) as (np & Hnp & Hc & -> & -> & -> & G').
    assert (k = 0) by lia. subst k. cbn [gen_cat_loop] in H. destruct lens'; [|discriminate]. injection H as <-.
    replace (n - 1) with (S m) by lia. split; auto.
    replace (n - 2) with m by lia.
    eapply CF_step; eauto.
  - apply bind_Ok in H as ([t1 c1] & H1 & H). apply bind_Ok in H as ([t2 c2] & H2 & H).
    destruct (split_step _ _ _ _ _ _ _ _ _ _ _ _ _ G Htp He1 He2 H1 H2) as (np & Hnp & Hc & -> & -> & -> & G').
    eapply (IH (S m)); [| | | | |eauto|eauto]; try lia; auto.
    + eapply CI_step; eauto.
    + rewrite (gi_len _ _ _ _ G). unfold pid. lia.
Qed.

Theorem cat_final n b (lens : list L) t :
  2 <= n -> generate_caterpillar n b lens = Ok (Some t) ->
  gen_final (fun l => In l lens) b 1 n t /\ CF (n - 2) t.
Proof.
  intros Hn H. unfold generate_caterpillar in H.
  change (gen_cat_loop (n - 1) 1 n b t0 0 lens = Ok (Some t)) in H.
  assert (HF : Forall (fun l => In l lens) lens) by (apply Forall_forall; auto).
  destruct (cat_loop_inv (fun l => In l lens) b n (n - 1) 0 t0 0 lens t) as (G & HC); auto; try lia.
  - apply GI_init.
  - apply CI_init.
  - split; auto. split; auto.
    split.
    + intros i nd Hi Hc. destruct (HC _ _ Hi) as [(j & _ & _ & Hcj)|(j & _ & Hnm & Hj)]; [congruence|].
      exists j. split; auto. lia.
    + intros i i' nd nd' Hi Hi' Hc Hc' Hne E.
      destruct (HC _ _ Hi) as [(j & _ & _ & Hcj)|(j & _ & Hnm & Hj)]; [congruence|].
      destruct (HC _ _ Hi') as [(j' & _ & _ & Hcj')|(j' & _ & Hnm' & Hj')]; [congruence|].
      assert (E' : tip_name j = tip_name j') by congruence. apply tip_name_inj in E'. lia.
Qed.

(* ================================================================================================ *)
(* 6. the statements of C17                                                                          *)
(* ================================================================================================ *)
(* t is an outcome of one of the three generators, for some sequence of random draws *)
Definition generated (n : nat) (b : bool) (lens : list L) (t : arena) : Prop :=
  (exists parents, generate_tree n b parents lens = Ok (Some t)) \/
  (exists parents, generate_yule n b parents lens = Ok (Some t)) \/
  generate_caterpillar n b lens = Ok (Some t).

Lemma generated_final n b lens t :
  2 <= n -> generated n b lens t -> exists lo, gen_final (fun l => In l lens) b lo n t.
Proof.
  intros Hn [(ps & H)|[(ps & H)|H]].
  - exists 0. eapply ete3_final; eauto.
  - exists 0. eapply yule_final; eauto.
  - exists 1. eapply cat_final; eauto.
Qed.

Lemma Forall2_length' {A B} (R : A -> B -> Prop) l l' : Forall2 R l l' -> length l = length l'.
Proof. induction 1; simpl; auto. Qed.

Lemma slots_strict_binary t :
  (forall i nd, nth_error t i = Some nd -> nchildren nd = [] \/ exists a c, nchildren nd = [a; c]) ->
  forall r p d i, Rep t p d i r -> strict_binary r = true.
Proof.
  intros Hs. induction r as [j cs IH] using RepLib.rtree_ind'. intros p d i HR.
  destruct (RepLib.Rep_inv _ _ _ _ _ HR) as (n & cs' & Heq & Hn & _ & _ & _ & _ & HF & _).
  injection Heq as -> ->. simpl. apply andb_true_iff. split.
  - rewrite <- (Forall2_length' _ _ _ HF).
    destruct (Hs _ _ Hn) as [->|(a & c & ->)]; reflexivity.
  - apply forallb_forall. intros c Hc. destruct (Forall2_In_r _ _ _ _ HF Hc) as (kc & _ & HRc).
    rewrite Forall_forall in IH. eapply IH; eauto.
Qed.

Section Final.
Variables (n : nat) (b : bool) (lens : list L) (t : arena).
Hypothesis Hn : 2 <= n.
Hypothesis Hgen : generated n b lens t.

(* well-formed; no removed slot; 2n-1 nodes *)
Theorem gen_wf :
  WFS t /\ WF t /\ (forall i nd, nth_error t i = Some nd -> ndeleted nd = false /\ nid nd = i) /\
  length t = 2 * n - 1.
Proof.
  destruct (generated_final _ _ _ _ Hn Hgen) as (lo & G & _). splits.
  - apply G.
  - apply WFS_WF, G.
  - intros i nd H. destruct (gi_slot _ _ _ _ G _ _ H) as (? & ? & _). auto.
  - rewrite (gi_len _ _ _ _ G). lia.
Qed.

(* exactly n leaves *)
Theorem gen_leaves : n_leaves t = n /\ length (get_leaves t) = n /\ NoDup (get_leaves t).
Proof.
  destruct (generated_final _ _ _ _ Hn Hgen) as (lo & G & _).
  rewrite length_get_leaves, (gi_nl _ _ _ _ G). splits; try lia. eapply NoDup_get_leaves; eauto.
Qed.

(* binary and rooted, slot by slot: every node has no or two children, slot 0 is the only node without
   parent and has two children *)
Theorem gen_binary :
  (forall i nd, nth_error t i = Some nd -> length (nchildren nd) = 0 \/ length (nchildren nd) = 2) /\
  (exists n0, nth_error t 0 = Some n0 /\ nparent n0 = None /\ length (nchildren n0) = 2) /\
  (forall i nd, nth_error t i = Some nd -> i <> 0 -> nparent nd <> None).
Proof.
  destruct (generated_final _ _ _ _ Hn Hgen) as (lo & G & _). splits.
  - intros i nd H. destruct (gi_slot _ _ _ _ G _ _ H) as (_ & _ & [->|(a & c & ->)]); auto.
  - destruct (gi_root _ _ _ _ G) as (n0 & H0 & Hp0 & _ & [Hk|(a & c & Hc)]); [lia|].
    exists n0. rewrite Hc. auto.
  - intros i nd H Hi. destruct (gi_nonroot _ _ _ _ G _ _ H Hi) as ((p & ->) & _). discriminate.
Qed.

(* the same through the rose tree represented by the arena, and through the crate's own predicates *)
Theorem gen_binary_tree :
  exists r, Rep t None 0 0 r /\ NoDup (ids r) /\ (forall i, live t i -> In i (ids r)) /\
            strict_binary r = true /\ length (Spec.rch r) = 2 /\
            length (rleaves r) = n /\ rsize r = 2 * n - 1 /\
            is_rooted t = Ok true /\ is_binary t = Ok true /\ check_rooted_binary t = Ok tt.
Proof.
  destruct (generated_final _ _ _ _ Hn Hgen) as (lo & G & _).
  destruct (GI_tree _ _ _ _ G) as (r & HR & Hnd & Hcov). exists r.
  assert (Hsb : strict_binary r = true).
  { eapply slots_strict_binary; eauto. intros i nd H. apply (gi_slot _ _ _ _ G _ _ H). }
  assert (Hroot : length (Spec.rch r) = 2).
  { destruct (RepLib.Rep_inv _ _ _ _ _ HR) as (n0 & cs & -> & Hn0 & _ & _ & _ & _ & HF & _). simpl.
    rewrite <- (Forall2_length' _ _ _ HF).
    destruct (gi_root _ _ _ _ G) as (n0' & H0 & _ & _ & [Hk|(a & c & Hc)]); [lia|].
    assert (n0' = n0) by congruence. subst. rewrite Hc. reflexivity. }
  assert (HB : Blank t).
  { intros i nd H Hd. destruct (gi_slot _ _ _ _ G _ _ H) as (Hd' & _). congruence. }
  pose proof (strict_binary_arity _ Hsb) as Har.
  pose proof (is_rooted_refines t 0 r HR Hnd Hcov) as Hir. rewrite Hroot in Hir.
  pose proof (is_binary_refines t 0 r HR Hnd Hcov HB) as Hib. unfold binary_spec in Hib.
  rewrite Hroot, Har in Hib.
  splits; auto.
  - rewrite <- (n_leaves_refines t 0 r HR Hnd Hcov). rewrite (gi_nl _ _ _ _ G). lia.
  - rewrite rsize_ids. rewrite <- (Permutation_length (live_idx_perm t 0 r HR Hnd Hcov)).
    unfold live_idx. rewrite filter_id.
    + rewrite seq_length, (gi_len _ _ _ _ G). lia.
    + intros i Hi. apply in_seq in Hi. unfold livei.
      destruct (gi_slot _ _ _ _ G i (slot t i)) as (-> & _); auto. apply nth_error_slot. lia.
  - eapply check_rooted_binary_ok; eauto.
Qed.

(* all leaves are named Tip_j, with pairwise different names *)
Theorem gen_names_unique :
  (forall i nd, nth_error t i = Some nd -> nchildren nd = [] ->
     exists j, j <= n /\ nname nd = Some (tip_name j)) /\
  (forall i i' nd nd', nth_error t i = Some nd -> nth_error t i' = Some nd' ->
     nchildren nd = [] -> nchildren nd' = [] -> i <> i' -> nname nd <> nname nd').
Proof.
  destruct (generated_final _ _ _ _ Hn Hgen) as (lo & G & Hnm & Hdist). split; auto.
  intros i nd Hi Hc. destruct (Hnm _ _ Hi Hc) as (j & Hj & E). exists j. split; auto.
  destruct Hgen as [(ps & H)|[(ps & H)|H]].
  - destruct (ete3_final _ _ _ _ _ H) as (_ & Hnm' & _). destruct (Hnm' _ _ Hi Hc) as (j' & Hj' & E').
    assert (E2 : tip_name j = tip_name j') by congruence. apply tip_name_inj in E2. lia.
  - destruct (yule_final _ _ _ _ _ H) as (_ & Hnm' & _). destruct (Hnm' _ _ Hi Hc) as (j' & Hj' & E').
    assert (E2 : tip_name j = tip_name j') by congruence. apply tip_name_inj in E2. lia.
  - destruct (cat_final _ _ _ _ Hn H) as ((_ & Hnm' & _) & _). destruct (Hnm' _ _ Hi Hc) as (j' & Hj' & E').
    assert (E2 : tip_name j = tip_name j') by congruence. apply tip_name_inj in E2. lia.
Qed.

(* branch lengths: all present (and drawn from the supplied list) when requested, all absent otherwise *)
Theorem gen_lengths :
  (b = true -> forall i nd, nth_error t i = Some nd -> i <> 0 -> exists l, npedge nd = Some l /\ In l lens) /\
  (b = false -> forall i nd, nth_error t i = Some nd -> npedge nd = None) /\
  (forall nd, nth_error t 0 = Some nd -> npedge nd = None).
Proof.
  destruct (generated_final _ _ _ _ Hn Hgen) as (lo & G & _).
  assert (H0 : forall nd, nth_error t 0 = Some nd -> npedge nd = None).
  { intros nd H. destruct (gi_root _ _ _ _ G) as (n0 & H0 & _ & He & _). congruence. }
  splits; auto.
  - intros -> i nd H Hi. destruct (gi_nonroot _ _ _ _ G _ _ H Hi) as (_ & He). exact He.
  - intros -> i nd H. destruct (Nat.eq_dec i 0) as [->|Hi]; auto.
    destruct (gi_nonroot _ _ _ _ G _ _ H Hi) as (_ & He). exact He.
Qed.

(* the crate's own check of leaf names succeeds *)
Theorem gen_unique_names_check : has_unique_tip_names t = Ok true.
Proof.
  destruct (generated_final _ _ _ _ Hn Hgen) as (lo & G & Hnm & Hdist).
  set (nm := fun i => match nname (slot t i) with Some x => x | None => [] end).
  assert (Htip : forall i, In i (get_leaves t) ->
            nth_error t i = Some (slot t i) /\ nchildren (slot t i) = [] /\ nname (slot t i) = Some (nm i)).
  { intros i Hi. apply (In_get_leaves _ _ _ _ _ G) in Hi as (nd & Hi & Hc).
    rewrite (slot_nth_error _ _ _ Hi). splits; auto. unfold nm. rewrite (slot_nth_error _ _ _ Hi).
    destruct (Hnm _ _ Hi Hc) as (j & _ & ->). reflexivity. }
  assert (Hnames : get_leaf_names t = Ok (map Some (map nm (get_leaves t)))).
  { unfold get_leaf_names. rewrite map_map. apply mapM_ok. intros i Hi.
    destruct (Htip _ Hi) as (Hs & _ & Hname). rewrite (GI_get _ _ _ _ _ _ G Hs). congruence. }
  unfold has_unique_tip_names. rewrite Hnames. cbn [bind].
  assert (E1 : existsb (fun o : option str => match o with None => true | Some _ => false end)
                 (map Some (map nm (get_leaves t))) = false).
  { generalize (map nm (get_leaves t)). intros l0. induction l0 as [|x l0 IHl]; simpl; auto. }
  rewrite E1.
  assert (E2 : flat_map (fun o : option str => match o with Some x => [x] | None => [] end)
                 (map Some (map nm (get_leaves t))) = map nm (get_leaves t)).
  { generalize (map nm (get_leaves t)). intros l0. induction l0 as [|x l0 IHl]; simpl; auto. f_equal; auto. }
  rewrite E2. rewrite g_dedup_str_NoDup_id.
  - rewrite map_length, length_get_leaves, Nat.eqb_refl. reflexivity.
  - apply NoDup_map_in; [|eapply NoDup_get_leaves; eauto].
    intros i i' Hi Hi' E. destruct (Htip _ Hi) as (Hs & Hc & Hname). destruct (Htip _ Hi') as (Hs' & Hc' & Hname').
    destruct (Nat.eq_dec i i') as [|Hne]; auto. exfalso.
    apply (Hdist _ _ _ _ Hs Hs' Hc Hc' Hne). congruence.
Qed.

End Final.

(* ================================================================================================ *)
(* 7. the caterpillar generator returns the caterpillar                                              *)
(* ================================================================================================ *)
(* the subtree hanging from spine node number j with k internal nodes: ((((..),L),L),L) *)
Fixpoint cat_rt (k : nat) (j : nat) : rtree :=
  match k with
  | 0 => RT (pid j) []
  | S k' => RT (pid j) [cat_rt k' (S j); RT (S (pid (S j))) []]
  end.
Definition caterpillar_rtree (n : nat) : rtree := cat_rt (n - 1) 0.

Lemma CF_tip m t i nd :
  CF m t -> nth_error t i = Some nd -> (forall j, j <= m -> i <> pid j) -> nchildren nd = [].
Proof.
  intros HC Hi Hne. destruct (HC _ _ Hi) as [(j & Hj & -> & _)|(j & Hc & _)]; auto.
  exfalso. eapply Hne; eauto.
Qed.

Lemma CF_internal m t j nd :
  CF m t -> j <= m -> nth_error t (pid j) = Some nd -> nchildren nd = [pid (S j); S (pid (S j))].
Proof.
  intros HC Hj Hi. destruct (HC _ _ Hi) as [(j' & Hj' & E & Hc)|(j' & _ & _ & E)].
  - assert (j' = j) by (unfold pid in E; lia). subst. auto.
  - unfold pid in E. lia.
Qed.

Lemma cat_rep m t : CF m t -> forall k j p d r,
  j + k = m + 1 -> Rep t p d (pid j) r -> r = cat_rt k j.
Proof.
  intros HC. induction k as [|k IH]; intros j p d r Hjk HR;
    destruct (RepLib.Rep_inv _ _ _ _ _ HR) as (nd & cs & -> & Hn & _ & _ & _ & _ & HF & _).
  - rewrite (CF_tip _ _ _ _ HC Hn) in HF by (intros j' Hj'; unfold pid; lia).
    inversion HF. reflexivity.
  - assert (Hjm : j <= m) by lia. rewrite (CF_internal _ _ _ _ HC Hjm Hn) in HF.
    inversion HF as [|a r1 l1 cs1 HR1 HF1]; subst. inversion HF1 as [|a2 r2 l2 cs2 HR2 HF2]; subst.
    inversion HF2; subst. simpl. f_equal. f_equal.
    + eapply IH; [|eauto]. lia.
    + destruct (RepLib.Rep_inv _ _ _ _ _ HR2) as (nd2 & cs2 & -> & Hn2 & _ & _ & _ & _ & HF' & _).
      rewrite (CF_tip _ _ _ _ HC Hn2) in HF' by (intros j' Hj'; unfold pid; lia).
      inversion HF'. reflexivity.
Qed.

Lemma nleaves_cat k j : nleaves (cat_rt k j) = k + 1.
Proof.
  revert j; induction k as [|k IH]; intros j; auto.
  unfold nleaves in *. simpl. rewrite app_length, IH. simpl. lia.
Qed.

Lemma colless_cat k j : 2 * colless_spec (cat_rt k j) = k * (k - 1).
Proof.
  revert j; induction k as [|k IH]; intros j; auto.
  cbn [cat_rt colless_spec map sum_nat]. rewrite nleaves_cat.
  change (nleaves (RT (S (pid (S j))) [])) with 1.
  assert (E : abs_diff (k + 1) 1 = k).
  { unfold abs_diff. destruct (Nat.leb_spec (k + 1) 1); lia. }
  rewrite E. specialize (IH (S j)). destruct k; [simpl in *; lia|]. replace (S (S k) - 1) with (S k) by lia. replace (S k - 1) with k in IH by lia. nia.
Qed.

Theorem cat_shape n b (lens : list L) t :
  2 <= n -> generate_caterpillar n b lens = Ok (Some t) ->
  (* the arena represents the caterpillar *)
  Rep t None 0 0 (caterpillar_rtree n) /\ NoDup (ids (caterpillar_rtree n)) /\
  (forall i, live t i -> In i (ids (caterpillar_rtree n))) /\
  (* every internal node has a leaf child *)
  (forall i nd a c, nth_error t i = Some nd -> nchildren nd = [a; c] -> tipat t c) /\
  (* maximal Colless index *)
  colless t = Ok ((n - 1) * (n - 2) / 2).
Proof.
  intros Hn H. destruct (cat_final _ _ _ _ Hn H) as ((G & _) & HC).
  destruct (GI_tree _ _ _ _ G) as (r & HR & Hnd & Hcov).
  assert (Hr : r = caterpillar_rtree n).
  { apply (cat_rep (n - 2) t HC (n - 1) 0 None 0); auto. lia. }
  subst r. splits; auto.
  - intros i nd a c Hi Hc.
    destruct (HC _ _ Hi) as [(j & Hj & -> & Hcj)|(j & Hcj & _)]; [|congruence].
    rewrite Hcj in Hc. injection Hc as <- <-.
    assert (Hlt : S (pid (S j)) < length t) by (rewrite (gi_len _ _ _ _ G); unfold pid; lia).
    destruct (nth_error t (S (pid (S j)))) as [nd2|] eqn:E; [|apply nth_error_None in E; lia].
    exists nd2. split; auto. eapply CF_tip; eauto. intros j' Hj'. unfold pid. lia.
  - assert (HB : Blank t).
    { intros i nd Hi Hd. destruct (gi_slot _ _ _ _ G _ _ Hi) as (Hd' & _). congruence. }
    rewrite (colless_refines t 0 _ HR Hnd Hcov HB).
    + f_equal. unfold caterpillar_rtree. apply Nat.div_unique_exact; auto.
      rewrite colless_cat. replace (n - 1 - 1) with (n - 2) by lia. reflexivity.
    + unfold caterpillar_rtree. destruct (n - 1) eqn:E; [lia|]. reflexivity.
    + eapply slots_strict_binary; eauto. intros i nd Hi. apply (gi_slot _ _ _ _ G _ _ Hi).
Qed.

End Gen.

(* ---- assumptions ------------------------------------------------------------------------------------- *)
Print Assumptions dec_of_nat_inj.
Print Assumptions gen_zero_refused.
Print Assumptions gen_no_panic.
Print Assumptions gen_wf.
Print Assumptions gen_leaves.
Print Assumptions gen_binary.
Print Assumptions gen_binary_tree.
Print Assumptions gen_names_unique.
Print Assumptions gen_unique_names_check.
Print Assumptions gen_lengths.
Print Assumptions cat_shape.
