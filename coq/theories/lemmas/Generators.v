(* Generators.v — C17: the random tree generators (Yule, caterpillar, ETE3-like), for EVERY sequence of
   random draws (the explicit choice lists of Gen.v), return a rooted binary tree with exactly n uniquely
   named leaves and 2n-1 nodes, all branch lengths present (and drawn from the supplied list) when lengths
   are requested and all absent otherwise; the caterpillar generator returns the caterpillar. *)
From Coq Require Import List Arith NArith Lia Bool Permutation.
From PT Require Import Arena Spec Queries Matrix Gen RepLib WFOps Traversals Stats.
Import ListNotations.

Local Arguments ids : simpl never.

(* ================================================================================================ *)
(* 0. decimal rendering is injective                                                                 *)
(* ================================================================================================ *)
Definition dec_val (s : str) (a : N) : N := fold_left (fun a c => (10 * a + (c - 48))%N) s a.

Lemma dec_val_cons c s a : dec_val (c :: s) a = dec_val s (10 * a + (c - 48))%N.
Proof. reflexivity. Qed.

Lemma dec_digits_val : forall fuel n acc,
  (N.to_nat n < fuel) -> dec_val (dec_digits fuel n acc) 0%N = dec_val acc n.
Proof.
  induction fuel as [|f IH]; intros n acc Hlt; [lia|].
  cbn [dec_digits]. cbv zeta.
  assert (Hn : n = (10 * (n / 10) + n mod 10)%N) by (apply N.div_mod; lia).
  assert (Hq : n = 0%N \/ (n / 10 < n)%N).
  { destruct (N.eq_dec n 0); auto. right. apply N.div_lt; lia. }
  remember (n mod 10)%N as r eqn:Hr. clear Hr. remember (n / 10)%N as q eqn:Hq'. clear Hq'.
  destruct (N.eqb_spec q 0%N) as [E|E].
  - rewrite dec_val_cons. f_equal. lia.
  - rewrite IH.
    + rewrite dec_val_cons. f_equal. lia.
    + lia.
Qed.

Lemma dec_of_nat_val n : dec_val (dec_of_nat n) 0%N = N.of_nat n.
Proof. unfold dec_of_nat. rewrite dec_digits_val by lia. reflexivity. Qed.

Theorem dec_of_nat_inj i j : dec_of_nat i = dec_of_nat j -> i = j.
Proof.
  intros H. apply (f_equal (fun s => dec_val s 0%N)) in H. rewrite !dec_of_nat_val in H. lia.
Qed.

Theorem tip_name_inj i j : tip_name i = tip_name j -> i = j.
Proof. unfold tip_name. intros H. apply app_inv_head in H. apply dec_of_nat_inj; auto. Qed.

(* ================================================================================================ *)
(* 1. no panic / no fuel exhaustion: generic part                                                    *)
(* ================================================================================================ *)
Definition safe {A} (o : outcome A) : Prop :=
  match o with Panic _ => False | OutOfFuel => False | _ => True end.

Lemma safe_bind {A B} (o : outcome A) (f : A -> outcome B) :
  safe o -> (forall a, o = Ok a -> safe (f a)) -> safe (bind o f).
Proof. destruct o; simpl; auto. Qed.

Lemma safe_foldM {A S} (g : S -> A -> outcome S) l :
  (forall s a, safe (g s a)) -> forall s, safe (foldM g l s).
Proof.
  intros Hg. induction l; simpl; intros s; auto. apply safe_bind; auto.
Qed.

Section Gen.
Context {L : Type}.
Notation arena := (@arena L).
Notation node := (@node L).
Implicit Types (t : arena).

Lemma safe_get t i : safe (get t i).
Proof. unfold get. destruct (nth_error t i) as [n|]; simpl; auto. destruct (ndeleted n); simpl; auto. Qed.

Lemma safe_upd t i f : safe (upd t i f).
Proof. unfold upd. apply safe_bind; [apply safe_get|]. simpl; auto. Qed.

Lemma safe_add_child t n p e : safe (add_child t n p e).
Proof.
  unfold add_child. destruct (Nat.leb (length t) p); simpl; auto.
  apply safe_bind; [apply safe_get|]. intros np _. unfold add.
  apply safe_bind; [apply safe_upd|]. intros t2 _.
  apply safe_bind; [apply safe_upd|]. intros t3 _. simpl; auto.
Qed.

Lemma safe_name_tips t l : safe (name_tips t l).
Proof. unfold name_tips. apply safe_foldM. intros. apply safe_upd. Qed.

Lemma safe_ete3_loop : forall steps b t deq parents (lens : list L),
  safe (gen_ete3_loop steps b t deq parents lens).
Proof.
  induction steps as [|k IH]; intros b t deq parents lens; simpl.
  - destruct parents; simpl; auto. destruct lens; simpl; auto.
  - destruct parents as [|p ps]; simpl; auto.
    destruct (take2 b lens) as [[[l1' l2'] lens']|]; simpl; auto.
    destruct (if onat_eqb (hd_error deq) (Some p) then Some (tl deq)
              else if onat_eqb (last_opt deq) (Some p) then Some (removelast deq) else None); simpl; auto.
    apply safe_bind; [apply safe_add_child|]. intros [t1 c1] _.
    apply safe_bind; [apply safe_add_child|]. intros [t2 c2] _. apply IH.
Qed.

Theorem ete3_no_panic n b parents (lens : list L) : safe (generate_tree n b parents lens).
Proof.
  unfold generate_tree. destruct (Nat.eqb n 0); simpl; auto.
  apply safe_bind; [apply safe_ete3_loop|]. intros [[t deq]|] _; simpl; auto.
  apply safe_bind; [apply safe_name_tips|]. simpl; auto.
Qed.

Lemma safe_cat_loop : forall steps i n b t parent (lens : list L),
  safe (gen_cat_loop steps i n b t parent lens).
Proof.
  induction steps as [|k IH]; intros i n b t parent lens; simpl.
  - destruct lens; simpl; auto.
  - destruct (take2 b lens) as [[[l1' l2'] lens']|]; simpl; auto.
    destruct (Nat.eqb i (n - 1)).
    + apply safe_bind; [apply safe_add_child|]. intros [t1 c1] _.
      apply safe_bind; [apply safe_add_child|]. intros [t2 c2] _. apply IH.
    + apply safe_bind; [apply safe_add_child|]. intros [t1 c1] _.
      apply safe_bind; [apply safe_add_child|]. intros [t2 c2] _. apply IH.
Qed.

Theorem cat_no_panic n b (lens : list L) : safe (generate_caterpillar n b lens).
Proof. unfold generate_caterpillar. simpl. apply safe_cat_loop. Qed.

Theorem gen_zero_refused b parents (lens : list L) :
  generate_tree 0 b parents lens = Err IsEmpty /\ generate_yule 0 b parents lens = Err IsEmpty.
Proof. split; reflexivity. Qed.

(* ================================================================================================ *)
(* 2. splitting a tip: two consecutive add_child on the same parent                                  *)
(* ================================================================================================ *)
Lemma replace_nth_twice_app {A} k (x y : A) l m :
  k < length l -> replace_nth k y (replace_nth k x l ++ m) = replace_nth k y (l ++ m).
Proof.
  revert k; induction l as [|a l IH]; intros [|k] H; simpl in *; try lia; auto.
  f_equal. apply IH. lia.
Qed.

Lemma count_replace {A} (q : A -> bool) k (x old : A) l :
  nth_error l k = Some old ->
  length (filter q (replace_nth k x l)) + (if q old then 1 else 0)
  = length (filter q l) + (if q x then 1 else 0).
Proof.
  revert k; induction l as [|a l IH]; intros [|k] H; simpl in *; try discriminate.
  - injection H as ->. destruct (q old), (q x); simpl; lia.
  - specialize (IH _ H). destruct (q a); simpl; lia.
Qed.

Lemma nac_fields' (nd : node) c e :
  nid (node_add_child nd c e) = nid nd /\ nparent (node_add_child nd c e) = nparent nd /\
  npedge (node_add_child nd c e) = npedge nd /\ ndepth (node_add_child nd c e) = ndepth nd /\
  ndeleted (node_add_child nd c e) = ndeleted nd /\ nchildren (node_add_child nd c e) = nchildren nd ++ [c] /\
  nname (node_add_child nd c e) = nname nd.
Proof. destruct e; simpl; auto 10. Qed.

Definition split_node (np : node) (c : nat) (e1 e2 : option L) : node :=
  node_add_child (node_add_child np c e1) (S c) e2.

Definition split_arena t (p : nat) (np : node) (nm1 nm2 : option str) (e1 e2 : option L) : arena :=
  replace_nth p (split_node np (length t) e1 e2)
    (t ++ [leaf_node (length t) nm1 None p e1 (ndepth np + 1);
           leaf_node (S (length t)) nm2 None p e2 (ndepth np + 1)]).

Lemma split_node_fields np c e1 e2 :
  nid (split_node np c e1 e2) = nid np /\ nparent (split_node np c e1 e2) = nparent np /\
  npedge (split_node np c e1 e2) = npedge np /\ ndeleted (split_node np c e1 e2) = ndeleted np /\
  nchildren (split_node np c e1 e2) = nchildren np ++ [c; S c] /\
  nname (split_node np c e1 e2) = nname np.
Proof.
  unfold split_node.
  destruct (nac_fields' (node_add_child np c e1) (S c) e2) as (A1 & A2 & A3 & A4 & A5 & A6 & A7).
  destruct (nac_fields' np c e1) as (B1 & B2 & B3 & B4 & B5 & B6 & B7).
  rewrite A1, A2, A3, A5, A6, A7, B1, B2, B3, B5, B6, B7, <- app_assoc. simpl. auto 10.
Qed.

Lemma split2_inv t p nm1 nm2 e1 e2 t1 c1 t2 c2 :
  add_child t (new_node nm1 None) p e1 = Ok (t1, c1) ->
  add_child t1 (new_node nm2 None) p e2 = Ok (t2, c2) ->
  exists np, get t p = Ok np /\ c1 = length t /\ c2 = S (length t) /\
             t2 = split_arena t p np nm1 nm2 e1 e2 /\ (WFS t -> WFS t2).
Proof.
  intros H1 H2.
  assert (Hwf : WFS t -> WFS t2) by (intros; eapply add_child_wf; [eapply add_child_wf|]; eauto).
  apply add_child_inv in H1 as (np & Hg & -> & ->).
  apply add_child_inv in H2 as (np' & Hg' & -> & ->).
  pose proof (get_lt _ _ _ Hg) as Hlt.
  exists np. splits; auto.
  - rewrite replace_nth_length, app_length. simpl. lia.
  - apply get_Ok in Hg' as [Hn' _].
    rewrite nth_error_replace_nth_eq in Hn' by (rewrite app_length; simpl; lia).
    injection Hn' as <-.
    rewrite replace_nth_length, app_length. simpl length. rewrite Nat.add_1_r.
    destruct (nac_fields np (length t) e1) as (_ & _ & _ & -> & _).
    unfold split_arena, split_node.
    rewrite replace_nth_twice_app by (rewrite app_length; simpl; lia).
    rewrite <- app_assoc. reflexivity.
Qed.

(* the slots of a split arena *)
Lemma split_slots t p np nm1 nm2 e1 e2 :
  nth_error t p = Some np ->
  let t2 := split_arena t p np nm1 nm2 e1 e2 in
  length t2 = S (S (length t)) /\
  nth_error t2 p = Some (split_node np (length t) e1 e2) /\
  nth_error t2 (length t) = Some (leaf_node (length t) nm1 None p e1 (ndepth np + 1)) /\
  nth_error t2 (S (length t)) = Some (leaf_node (S (length t)) nm2 None p e2 (ndepth np + 1)) /\
  (forall j, j <> p -> j < length t -> nth_error t2 j = nth_error t j).
Proof.
  intros Hn. pose proof (nth_error_Some_lt _ _ _ Hn) as Hlt. intros t2. unfold t2, split_arena.
  splits.
  - rewrite replace_nth_length, app_length. simpl. lia.
  - apply nth_error_replace_nth_eq. rewrite app_length. simpl. lia.
  - rewrite nth_error_replace_nth_neq by lia. rewrite nth_error_app2 by lia. rewrite Nat.sub_diag. reflexivity.
  - rewrite nth_error_replace_nth_neq by lia. rewrite nth_error_app2 by lia.
    replace (S (length t) - length t) with 1 by lia. reflexivity.
  - intros j Hj Hjl. rewrite nth_error_replace_nth_neq by lia. apply nth_error_app1; auto.
Qed.

(* inversion form: every slot of the split arena is one of the four kinds *)
Lemma split_slots_inv t p np nm1 nm2 e1 e2 j nd :
  nth_error t p = Some np ->
  nth_error (split_arena t p np nm1 nm2 e1 e2) j = Some nd ->
  (j = p /\ nd = split_node np (length t) e1 e2) \/
  (j = length t /\ nd = leaf_node (length t) nm1 None p e1 (ndepth np + 1)) \/
  (j = S (length t) /\ nd = leaf_node (S (length t)) nm2 None p e2 (ndepth np + 1)) \/
  (j <> p /\ j < length t /\ nth_error t j = Some nd).
Proof.
  intros Hn Hj. pose proof (nth_error_Some_lt _ _ _ Hn) as Hlt.
  destruct (split_slots t p np nm1 nm2 e1 e2 Hn) as (Hlen & HP & HA & HB & Hfr).
  pose proof (nth_error_Some_lt _ _ _ Hj) as Hjl. rewrite Hlen in Hjl.
  destruct (Nat.eq_dec j p) as [->|Hne]; [left; split; congruence|].
  destruct (Nat.eq_dec j (length t)) as [->|Hne1]; [right; left; split; congruence|].
  destruct (Nat.eq_dec j (S (length t))) as [->|Hne2]; [right; right; left; split; congruence|].
  right; right; right. splits; auto; try lia. rewrite <- Hfr; auto; lia.
Qed.

Definition tipq (nd : node) : bool := negb (ndeleted nd) && is_tip nd.

Lemma split_n_leaves t p np nm1 nm2 e1 e2 :
  nth_error t p = Some np -> ndeleted np = false -> nchildren np = [] ->
  n_leaves (split_arena t p np nm1 nm2 e1 e2) = S (n_leaves t).
Proof.
  intros Hn Hd Hc. unfold n_leaves, split_arena. fold tipq.
  pose proof (nth_error_Some_lt _ _ _ Hn) as Hlt.
  pose proof (count_replace tipq p (split_node np (length t) e1 e2) np
                (t ++ [leaf_node (length t) nm1 None p e1 (ndepth np + 1);
                       leaf_node (S (length t)) nm2 None p e2 (ndepth np + 1)])) as HC.
  rewrite nth_error_app1 in HC by auto. specialize (HC Hn).
  rewrite filter_app, app_length in HC.
  destruct (split_node_fields np (length t) e1 e2) as (_ & _ & _ & Fd & Fc & _).
  assert (Q1 : tipq np = true) by (unfold tipq, is_tip; rewrite Hd, Hc; reflexivity).
  assert (Q2 : tipq (split_node np (length t) e1 e2) = false).
  { unfold tipq, is_tip. rewrite Fd, Fc, Hd, Hc. reflexivity. }
  rewrite Q1, Q2 in HC. simpl in HC. lia.
Qed.

(* ================================================================================================ *)
(* 3. the invariant of the generator loops                                                           *)
(* ================================================================================================ *)
Definition edge_ok (P : L -> Prop) (b : bool) (e : option L) : Prop :=
  if b then exists l, e = Some l /\ P l else e = None.

(* k = number of splits performed so far *)
Record GI (P : L -> Prop) (b : bool) (k : nat) (t : arena) : Prop := {
  gi_wfs : WFS t;
  gi_len : length t = 2 * k + 1;
  gi_nl : n_leaves t = k + 1;
  gi_slot : forall i nd, nth_error t i = Some nd ->
      ndeleted nd = false /\ nid nd = i /\ (nchildren nd = [] \/ exists a c, nchildren nd = [a; c]);
  gi_root : exists n0, nth_error t 0 = Some n0 /\ nparent n0 = None /\ npedge n0 = None /\
      (k = 0 \/ exists a c, nchildren n0 = [a; c]);
  gi_nonroot : forall i nd, nth_error t i = Some nd -> i <> 0 ->
      (exists p, nparent nd = Some p) /\ edge_ok P b (npedge nd)
}.

Definition tipat t (i : nat) : Prop := exists nd, nth_error t i = Some nd /\ nchildren nd = [].

Definition t0 : arena := fst (add (@nil node) (new_node None None)).

Lemma GI_init P b : GI P b 0 t0.
Proof.
  constructor.
  - apply add_root_wf.
  - reflexivity.
  - reflexivity.
  - intros [|[|i]] nd H; try discriminate. injection H as <-. simpl. auto.
  - eexists. simpl. splits; eauto.
  - intros [|[|i]] nd H; try discriminate. congruence.
Qed.

Lemma tipat_t0 i : tipat t0 i <-> i = 0.
Proof.
  split.
  - intros (nd & H & _). destruct i as [|[|i]]; auto; discriminate.
  - intros ->. eexists. split; reflexivity.
Qed.

Lemma GI_get P b k t i nd : GI P b k t -> nth_error t i = Some nd -> get t i = Ok nd.
Proof. intros G H. apply get_Ok. split; auto. apply (gi_slot _ _ _ _ G _ _ H). Qed.

Lemma GI_split P b k t p np nm1 nm2 e1 e2 :
  GI P b k t -> nth_error t p = Some np -> nchildren np = [] ->
  edge_ok P b e1 -> edge_ok P b e2 ->
  WFS (split_arena t p np nm1 nm2 e1 e2) ->
  GI P b (S k) (split_arena t p np nm1 nm2 e1 e2).
Proof.
  intros G Hn Hc He1 He2 Hwf.
  destruct (gi_slot _ _ _ _ G _ _ Hn) as (Hd & Hid & _).
  destruct (split_slots t p np nm1 nm2 e1 e2 Hn) as (Hlen & HP & HA & HB & Hfr).
  destruct (split_node_fields np (length t) e1 e2) as (Fi & Fp & Fe & Fd & Fc & Fn).
  rewrite Hc in Fc. simpl in Fc.
  pose proof (nth_error_Some_lt _ _ _ Hn) as Hlt.
  constructor; auto.
  - rewrite Hlen, (gi_len _ _ _ _ G). lia.
  - rewrite split_n_leaves by auto. rewrite (gi_nl _ _ _ _ G). lia.
  - intros j nd Hj.
    destruct (split_slots_inv _ _ _ _ _ _ _ _ _ Hn Hj) as [[-> ->]|[[-> ->]|[[-> ->]|(Hne & Hjl & Hj')]]].
    + rewrite Fd, Fi, Fc. splits; auto. right; eauto.
    + simpl. auto.
    + simpl. auto.
    + apply (gi_slot _ _ _ _ G _ _ Hj').
  - destruct (gi_root _ _ _ _ G) as (n0 & H0 & Hp0 & He0 & Hk0).
    destruct (Nat.eq_dec p 0) as [->|Hp].
    + assert (np = n0) by congruence. subst n0.
      exists (split_node np (length t) e1 e2). splits; try congruence. right; eauto.
    + exists n0. splits; auto.
      * rewrite Hfr; auto; lia.
      * destruct Hk0 as [->|Hk0]; auto.
        pose proof (gi_len _ _ _ _ G). lia.
  - intros j nd Hj Hj0.
    destruct (split_slots_inv _ _ _ _ _ _ _ _ _ Hn Hj) as [[-> ->]|[[-> ->]|[[-> ->]|(Hne & Hjl & Hj')]]].
    + rewrite Fp, Fe. apply (gi_nonroot _ _ _ _ G _ _ Hn Hj0).
    + simpl. split; eauto.
    + simpl. split; eauto.
    + apply (gi_nonroot _ _ _ _ G _ _ Hj' Hj0).
Qed.

Lemma tipat_split t p np nm1 nm2 e1 e2 i :
  nth_error t p = Some np -> nchildren np = [] ->
  tipat (split_arena t p np nm1 nm2 e1 e2) i <->
  (tipat t i /\ i <> p) \/ i = length t \/ i = S (length t).
Proof.
  intros Hn Hc.
  destruct (split_slots t p np nm1 nm2 e1 e2 Hn) as (Hlen & HP & HA & HB & Hfr).
  destruct (split_node_fields np (length t) e1 e2) as (_ & _ & _ & _ & Fc & _).
  rewrite Hc in Fc. simpl in Fc.
  split.
  - intros (nd & Hj & Hcj).
    destruct (split_slots_inv _ _ _ _ _ _ _ _ _ Hn Hj) as [[-> ->]|[[-> ->]|[[-> ->]|(Hne & Hjl & Hj')]]]; auto.
    + congruence.
    + left. split; auto. exists nd; auto.
  - intros [[(nd & Hj & Hcj) Hne]|[->| ->]].
    + exists nd. split; auto. rewrite Hfr; auto. eapply nth_error_Some_lt; eauto.
    + eexists; split; eauto.
    + eexists; split; eauto.
Qed.

Lemma tipat_lt t i : tipat t i -> i < length t.
Proof. intros (nd & H & _). eapply nth_error_Some_lt; eauto. Qed.

(* get_leaves lists exactly the tips, without repetition *)
Lemma In_get_leaves P b k t i : GI P b k t -> In i (get_leaves t) <-> tipat t i.
Proof.
  intros G. unfold get_leaves. rewrite in_map_iff. split.
  - intros (nd & Hid & Hin). apply filter_In in Hin as [Hin Hq].
    apply In_nth_error in Hin as (j & Hj).
    destruct (gi_slot _ _ _ _ G _ _ Hj) as (Hd & Hid' & _).
    assert (j = i) by congruence. subst j. exists nd. split; auto.
    rewrite Hd in Hq. simpl in Hq. unfold is_tip in Hq. destruct (nchildren nd); auto; discriminate.
  - intros (nd & Hj & Hc). destruct (gi_slot _ _ _ _ G _ _ Hj) as (Hd & Hid' & _).
    exists nd. split; auto. apply filter_In. split; [eapply nth_error_In; eauto|].
    unfold is_tip. rewrite Hd, Hc. reflexivity.
Qed.

Lemma GI_tree P b k t : GI P b k t ->
  exists r, Rep t None 0 0 r /\ NoDup (ids r) /\ (forall i, live t i -> In i (ids r)).
Proof.
  intros G. destruct (gi_root _ _ _ _ G) as (n0 & H0 & Hp0 & _).
  destruct (gi_slot _ _ _ _ G _ _ H0) as (Hd0 & _).
  assert (Hl0 : live t 0) by (exists n0; auto).
  destruct (WFS_WF _ (gi_wfs _ _ _ _ G)) as [Hno|(root & r & HR & Hnd & Hcov)]; [exfalso; eapply Hno; eauto|].
  assert (root = 0).
  { symmetry. eapply Rep_root_unique; eauto. }
  subst root. eauto.
Qed.

Lemma NoDup_get_leaves P b k t : GI P b k t -> NoDup (get_leaves t).
Proof.
  intros G. destruct (GI_tree _ _ _ _ G) as (r & HR & Hnd & Hcov).
  rewrite (get_leaves_sorted t 0 r HR Hcov). apply NoDup_filter, NoDup_live_idx.
Qed.

Lemma length_get_leaves t : length (get_leaves t) = n_leaves t.
Proof. unfold get_leaves, n_leaves. apply map_length. Qed.

End Gen.
