(* ParserProps.v — properties of the Newick parser model (C02):
   totality / no panic, rejection of unterminated or unbalanced text, well-formedness of results. *)
From PT Require Import Newick Spec.
From Coq Require Import Lia List Arith NArith Bool Permutation.
Import ListNotations.

Set Implicit Arguments.

(* ================================================================================================ *)
(* Part 0: generic list helpers                                                                      *)
(* ================================================================================================ *)

Lemma replace_nth_length {A} (l : list A) i x : length (replace_nth i x l) = length l.
Proof. revert i; induction l; intros [|i]; simpl; auto. Qed.

Lemma nth_error_replace_nth_eq {A} (l : list A) i x :
  i < length l -> nth_error (replace_nth i x l) i = Some x.
Proof. revert i; induction l; intros [|i]; simpl; intros; try lia; auto. apply IHl; lia. Qed.

Lemma nth_error_replace_nth_neq {A} (l : list A) i j x :
  i <> j -> nth_error (replace_nth i x l) j = nth_error l j.
Proof. revert i j; induction l; intros [|i] [|j]; simpl; intros; try congruence; auto. Qed.

Lemma nth_error_Some_lt {A} (l : list A) i x : nth_error l i = Some x -> i < length l.
Proof. intros H. apply nth_error_Some. congruence. Qed.

Lemma nth_error_lt_Some {A} (l : list A) i : i < length l -> exists x, nth_error l i = Some x.
Proof. intros H. destruct (nth_error l i) eqn:E; eauto. apply nth_error_None in E. lia. Qed.

(* ================================================================================================ *)
(* Part 1: totality — the parser never panics and never runs out of fuel                             *)
(* ================================================================================================ *)

Definition np {A} (o : outcome A) : Prop :=
  match o with Panic _ => False | OutOfFuel => False | _ => True end.

Section Parser.
Context {L : Type}.
Variable parse_len : str -> option L.
Notation node := (@node L).
Notation arena := (@arena L).
Notation pstate := (@pstate L).
Notation pres := (@pres L).

Definition np_res (r : pres) : Prop :=
  match r with Running _ => True | Done o => np o end.

Lemma bind_np {A B} (o : outcome A) (f : A -> outcome B) :
  np o -> (forall a, np (f a)) -> np (bind o f).
Proof. destruct o; simpl; auto. Qed.

Lemma get_np (t : arena) i : np (get t i).
Proof. unfold get. destruct (nth_error t i) as [n|]; simpl; auto. destruct (ndeleted n); simpl; auto. Qed.

Lemma upd_np (t : arena) i f : np (upd t i f).
Proof. unfold upd. apply bind_np; [apply get_np|]. intros; exact I. Qed.

Lemma add_child_np (t : arena) n parent e : np (add_child t n parent e).
Proof.
  unfold add_child. destruct (Nat.leb (length t) parent); simpl; auto.
  apply bind_np; [apply get_np|]. intros p. unfold add.
  apply bind_np; [apply upd_np|]. intros t2.
  apply bind_np; [apply upd_np|]. intros; exact I.
Qed.

Lemma foldM_np {A S} (g : S -> A -> outcome S) l s :
  (forall s a, np (g s a)) -> np (foldM g l s).
Proof. intros H. revert s; induction l; simpl; intros; auto. apply bind_np; auto. Qed.

Lemma finish_np (t : arena) : np (finish t).
Proof.
  unfold finish. apply foldM_np. intros s a.
  apply bind_np; [apply get_np|]. intros n.
  destruct (npedge n); [destruct (nparent n)|]; simpl; auto; apply upd_np.
Qed.

Lemma lift_run_np {A} (o : outcome A) (k : A -> pres) :
  np o -> (forall a, np_res (k a)) -> np_res (lift_run o k).
Proof. destruct o; simpl; auto. Qed.

Lemma commit_np (s : pstate) k : (forall t, np_res (k t)) -> np_res (commit parse_len s k).
Proof.
  intros Hk. unfold commit.
  assert (Hw : forall t idx, np_res (lift_run (get t idx) (fun n : node =>
      let n1 := match p_name s with Some nm => set_nname n (Some nm) | None => n end in
      match (match p_len s with
             | Some ls => match parse_len ls with Some v => Some (Some v) | None => None end
             | None => Some None
             end) with
      | None => Done (Err FloatError)
      | Some edge =>
          let n2 := match nparent n1 with Some p => node_set_parent n1 p edge | None => n1 end in
          let n3 := set_ncomment n2 (p_comment s) in
          k (replace_nth idx n3 t)
      end))).
  { intros t idx. apply lift_run_np; [apply get_np|]. intros n. cbv zeta.
    destruct (match p_len s with Some ls => _ | None => _ end); simpl; auto. }
  destruct (p_index s); [apply Hw|].
  destruct (p_stack s); simpl; auto.
  apply lift_run_np; [apply add_child_np|]. intros r. apply Hw.
Qed.

Ltac step_if := match goal with |- np_res (if ?b then _ else _) => destruct b eqn:? end.

Lemma go_np (s : pstate) t idx :
  np_res (lift_run (get t idx) (fun n : node =>
        let n1 := set_ncomment (set_nname n (p_name s)) (p_comment s) in
        match (match p_len s with
               | Some ls => match parse_len ls with Some v => Some (set_npedge n1 (Some v)) | None => None end
               | None => Some n1
               end) with
        | None => Done (Err FloatError)
        | Some n2 =>
            match finish (replace_nth idx n2 t) with
            | Ok t' => Done (Ok t')
            | Err _ => Done (Err NwTreeError)
            | Panic x => Done (Panic x)
            | OutOfFuel => Done OutOfFuel
            end
        end)).
Proof.
  apply lift_run_np; [apply get_np|]. intros n. cbv zeta.
  destruct (match p_len s with Some ls => _ | None => _ end) as [n2|]; simpl; auto.
  pose proof (finish_np (replace_nth idx n2 t)) as H.
  destruct (finish (replace_nth idx n2 t)); simpl in *; auto.
Qed.

Lemma pstep_np (s : pstate) c : np_res (pstep parse_len s c).
Proof.
  unfold pstep.
  step_if; [exact I|].
  step_if; [exact I|].
  step_if; [exact I|].
  step_if; [exact I|].
  step_if; [exact I|].
  step_if; [exact I|].
  step_if.
  { destruct (p_stack s).
    - destruct (p_tree s); simpl; exact I.
    - apply lift_run_np; [apply add_child_np|]. intros; exact I. }
  step_if; [exact I|].
  step_if. { apply commit_np. intros; exact I. }
  step_if. { apply commit_np. intros; destruct (p_stack s); exact I. }
  step_if.
  { step_if; [exact I|].
    destruct (p_index s); [apply go_np|].
    destruct (p_tree s); [|exact I].
    exact (go_np s (fst (add [] (new_node None None))) (snd (add (@nil node) (new_node None None)))). }
  destruct (p_field s) eqn:Hf; [exact I| |].
  - step_if; exact I.
  - exfalso.
    match goal with H : true && negb false = false |- _ => discriminate H end.
Qed.

Lemma prun_np (s : pstate) input : np (prun parse_len s input).
Proof.
  revert s; induction input as [|c rest IH]; intros s; simpl; [exact I|].
  pose proof (pstep_np s c) as H. destruct (pstep parse_len s c); auto.
Qed.

End Parser.

Theorem parse_total : forall (L : Type) (parse_len : str -> option L) (s : str),
  match from_newick parse_len s with Panic _ => False | OutOfFuel => False | _ => True end.
Proof. intros. exact (prun_np parse_len p_init s). Qed.
