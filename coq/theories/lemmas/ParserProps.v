(* ParserProps.v — properties of the Newick parser model (C02):
   totality / no panic, rejection of unterminated or unbalanced text, well-formedness of results. *)
From PT Require Import Newick Spec.
From Coq Require Import Lia List Arith NArith Bool Permutation.
Import ListNotations.

Set Implicit Arguments.

(* ================================================================================================ *)
(* Part 0: generic list helpers                                                                      *)
(* ================================================================================================ *)

Lemma replace_nth_length {A} (l : list A) i x : length (replace_nth i x l) = length l.
Proof. revert i; induction l; intros [|i]; simpl; auto. Qed.

Lemma nth_error_replace_nth_eq {A} (l : list A) i x :
  i < length l -> nth_error (replace_nth i x l) i = Some x.
Proof. revert i; induction l; intros [|i]; simpl; intros; try lia; auto. apply IHl; lia. Qed.

Lemma nth_error_replace_nth_neq {A} (l : list A) i j x :
  i <> j -> nth_error (replace_nth i x l) j = nth_error l j.
Proof. revert i j; induction l; intros [|i] [|j]; simpl; intros; try congruence; auto. Qed.

Lemma nth_error_Some_lt {A} (l : list A) i x : nth_error l i = Some x -> i < length l.
Proof. intros H. apply nth_error_Some. congruence. Qed.

Lemma nth_error_lt_Some {A} (l : list A) i : i < length l -> exists x, nth_error l i = Some x.
Proof. intros H. destruct (nth_error l i) eqn:E; eauto. apply nth_error_None in E. lia. Qed.

(* ================================================================================================ *)
(* Part 1: totality — the parser never panics and never runs out of fuel                             *)
(* ================================================================================================ *)

Definition np {A} (o : outcome A) : Prop :=
  match o with Panic _ => False | OutOfFuel => False | _ => True end.

Section Parser.
Context {L : Type}.
Variable parse_len : str -> option L.
Notation node := (@node L).
Notation arena := (@arena L).
Notation pstate := (@pstate L).
Notation pres := (@pres L).

Definition np_res (r : pres) : Prop :=
  match r with Running _ => True | Done o => np o end.

Lemma bind_np {A B} (o : outcome A) (f : A -> outcome B) :
  np o -> (forall a, np (f a)) -> np (bind o f).
Proof. destruct o; simpl; auto. Qed.

Lemma get_np (t : arena) i : np (get t i).
Proof. unfold get. destruct (nth_error t i) as [n|]; simpl; auto. destruct (ndeleted n); simpl; auto. Qed.

Lemma upd_np (t : arena) i f : np (upd t i f).
Proof. unfold upd. apply bind_np; [apply get_np|]. intros; exact I. Qed.

Lemma add_child_np (t : arena) n parent e : np (add_child t n parent e).
Proof.
  unfold add_child. destruct (Nat.leb (length t) parent); simpl; auto.
  apply bind_np; [apply get_np|]. intros p. unfold add.
  apply bind_np; [apply upd_np|]. intros t2.
  apply bind_np; [apply upd_np|]. intros; exact I.
Qed.

Lemma foldM_np {A S} (g : S -> A -> outcome S) l s :
  (forall s a, np (g s a)) -> np (foldM g l s).
Proof. intros H. revert s; induction l; simpl; intros; auto. apply bind_np; auto. Qed.

Lemma finish_np (t : arena) : np (finish t).
Proof.
  unfold finish. apply foldM_np. intros s a.
  apply bind_np; [apply get_np|]. intros n.
  destruct (npedge n); [destruct (nparent n)|]; simpl; auto; apply upd_np.
Qed.

Lemma lift_run_np {A} (o : outcome A) (k : A -> pres) :
  np o -> (forall a, np_res (k a)) -> np_res (lift_run o k).
Proof. destruct o; simpl; auto. Qed.

Lemma commit_np (s : pstate) k : (forall t, np_res (k t)) -> np_res (commit parse_len s k).
Proof.
  intros Hk. unfold commit.
  assert (Hw : forall t idx, np_res (lift_run (get t idx) (fun n : node =>
      let n1 := match p_name s with Some nm => set_nname n (Some nm) | None => n end in
      match (match p_len s with
             | Some ls => match parse_len ls with Some v => Some (Some v) | None => None end
             | None => Some None
             end) with
      | None => Done (Err FloatError)
      | Some edge =>
          let n2 := match nparent n1 with Some p => node_set_parent n1 p edge | None => n1 end in
          let n3 := set_ncomment n2 (p_comment s) in
          k (replace_nth idx n3 t)
      end))).
  { intros t idx. apply lift_run_np; [apply get_np|]. intros n. cbv zeta.
    destruct (match p_len s with Some ls => _ | None => _ end); simpl; auto. }
  destruct (p_index s); [apply Hw|].
  destruct (p_stack s); simpl; auto.
  apply lift_run_np; [apply add_child_np|]. intros r. apply Hw.
Qed.

Ltac step_if := match goal with |- np_res (if ?b then _ else _) => destruct b eqn:? end.

Lemma go_np (s : pstate) t idx :
  np_res (lift_run (get t idx) (fun n : node =>
        let n1 := set_ncomment (set_nname n (p_name s)) (p_comment s) in
        match (match p_len s with
               | Some ls => match parse_len ls with Some v => Some (set_npedge n1 (Some v)) | None => None end
               | None => Some n1
               end) with
        | None => Done (Err FloatError)
        | Some n2 =>
            match finish (replace_nth idx n2 t) with
            | Ok t' => Done (Ok t')
            | Err _ => Done (Err NwTreeError)
            | Panic x => Done (Panic x)
            | OutOfFuel => Done OutOfFuel
            end
        end)).
Proof.
  apply lift_run_np; [apply get_np|]. intros n. cbv zeta.
  destruct (match p_len s with Some ls => _ | None => _ end) as [n2|]; simpl; auto.
  pose proof (finish_np (replace_nth idx n2 t)) as H.
  destruct (finish (replace_nth idx n2 t)); simpl in *; auto.
Qed.

Lemma pstep_np (s : pstate) c : np_res (pstep parse_len s c).
Proof.
  unfold pstep.
  step_if; [exact I|].
  step_if; [exact I|].
  step_if; [exact I|].
  step_if; [exact I|].
  step_if; [exact I|].
  step_if; [exact I|].
  step_if.
  { destruct (p_stack s).
    - destruct (p_tree s); simpl; exact I.
    - apply lift_run_np; [apply add_child_np|]. intros; exact I. }
  step_if; [exact I|].
  step_if. { apply commit_np. intros; exact I. }
  step_if. { apply commit_np. intros; destruct (p_stack s); exact I. }
  step_if.
  { step_if; [exact I|].
    destruct (p_index s); [apply go_np|].
    destruct (p_tree s); [|exact I].
    exact (go_np s (fst (add [] (new_node None None))) (snd (add (@nil node) (new_node None None)))). }
  destruct (p_field s) eqn:Hf; [exact I| |].
  - step_if; exact I.
  - exfalso.
    match goal with H : true && negb false = false |- _ => discriminate H end.
Qed.

Lemma prun_np (s : pstate) input : np (prun parse_len s input).
Proof.
  revert s; induction input as [|c rest IH]; intros s; simpl; [exact I|].
  pose proof (pstep_np s c) as H. destruct (pstep parse_len s c); auto.
Qed.

End Parser.

Theorem parse_total : forall (L : Type) (parse_len : str -> option L) (s : str),
  match from_newick parse_len s with Panic _ => False | OutOfFuel => False | _ => True end.
Proof. intros. exact (prun_np parse_len p_init s). Qed.

(* ================================================================================================ *)
(* Part 2: shape predicates on arenas (no parser involved)                                           *)
(* ================================================================================================ *)

Lemma rtree_ind' (P : rtree -> Prop) :
  (forall i cs, Forall P cs -> P (RT i cs)) -> forall r, P r.
Proof. intros H. fix IH 1. intros [i cs]. apply H. induction cs; constructor; auto. Qed.

Lemma replace_nth_app_last {A} (l : list A) x y : replace_nth (length l) y (l ++ [x]) = l ++ [y].
Proof. induction l; simpl; auto. f_equal; auto. Qed.

Lemma replace_nth_app_l {A} (l l' : list A) i y :
  i < length l -> replace_nth i y (l ++ l') = replace_nth i y l ++ l'.
Proof. revert i; induction l; intros [|i]; simpl; intros; try lia; auto. f_equal. apply IHl. lia. Qed.

Section Shape.
Context {L : Type}.
Notation node := (@node L).
Notation arena := (@arena L).

Definition same_tree (n n' : node) : Prop :=
  nparent n' = nparent n /\ ndepth n' = ndepth n /\ nchildren n' = nchildren n.
Definition same_meta (n n' : node) : Prop :=
  nid n' = nid n /\ ndeleted n' = ndeleted n /\ nedges n' = nedges n.

(* Rep without the liveness / id / edge-mirror clauses: those are tracked globally (Good) or
   established only by the finishing pass. *)
Inductive Rep0 (t : arena) : option nat -> nat -> rtree -> Prop :=
| Rep0_node : forall p d i n cs,
    nth_error t i = Some n -> nparent n = p -> ndepth n = d -> nchildren n = map rid cs ->
    Forall (Rep0 t (Some i) (S d)) cs ->
    Rep0 t p d (RT i cs).

Definition sh (t t' : arena) (j : nat) : Prop :=
  forall n, nth_error t j = Some n -> exists n', nth_error t' j = Some n' /\ same_tree n n'.

Lemma sh_eq t t' j : nth_error t' j = nth_error t j -> sh t t' j.
Proof. intros H n Hn. exists n. rewrite H. repeat split; auto. Qed.

Lemma Rep0_transfer (t t' : arena) : forall r p d,
  Rep0 t p d r -> (forall j, In j (ids r) -> sh t t' j) -> Rep0 t' p d r.
Proof.
  induction r as [i cs IH] using rtree_ind'. intros p d HR Hs.
  inversion HR; subst.
  destruct (Hs i (or_introl eq_refl) _ H1) as [n' [Hn' [Hp [Hd Hc]]]].
  econstructor; eauto; try congruence.
  rewrite Forall_forall in *. intros c Hc'. apply IH; auto.
  intros j Hj. apply Hs. simpl. right. apply in_flat_map. eauto.
Qed.

Definition Good (t : arena) : Prop :=
  forall i n, nth_error t i = Some n ->
    ndeleted n = false /\ nid n = i /\ nedges n = [] /\ (forall p, nparent n = Some p -> p < i).

Definition NodeIs (t : arena) (i : nat) (p : option nat) (d : nat) (cl : list nat) : Prop :=
  exists n, nth_error t i = Some n /\ nparent n = p /\ ndepth n = d /\ nchildren n = cl.

Lemma NodeIs_sh t t' i p d cl : NodeIs t i p d cl -> sh t t' i -> NodeIs t' i p d cl.
Proof.
  intros [n [Hn [Hp [Hd Hc]]]] Hs. destruct (Hs _ Hn) as [n' [Hn' [Hp' [Hd' Hc']]]].
  exists n'. repeat split; congruence.
Qed.

Definition frame := (nat * list rtree)%type.

(* the stack of open nodes (head = innermost); [above] is the id of the next inner open node *)
Fixpoint Frames (t : arena) (above : list nat) (fs : list frame) : Prop :=
  match fs with
  | [] => True
  | (i, done) :: below =>
      NodeIs t i (match below with [] => None | (p, _) :: _ => Some p end) (length below)
             (map rid done ++ above)
      /\ Forall (Rep0 t (Some i) (S (length below))) done
      /\ Frames t [i] below
  end.

Fixpoint zip_ids (fs : list frame) : list nat :=
  match fs with
  | [] => []
  | (i, done) :: below => zip_ids below ++ i :: flat_map pre done
  end.

Lemma Forall_Rep0_transfer (t t' : arena) p d cs :
  Forall (Rep0 t p d) cs -> (forall j, In j (flat_map pre cs) -> sh t t' j) -> Forall (Rep0 t' p d) cs.
Proof.
  intros H Hs. rewrite Forall_forall in *. intros r Hr.
  eapply Rep0_transfer; eauto. intros j Hj. apply Hs. apply in_flat_map. eauto.
Qed.

Lemma Frames_transfer (t t' : arena) : forall fs above,
  Frames t above fs -> (forall j, In j (zip_ids fs) -> sh t t' j) -> Frames t' above fs.
Proof.
  induction fs as [|[i done] below IH]; simpl; auto.
  intros above [HN [HD HF]] Hs. repeat split.
  - eapply NodeIs_sh; eauto. apply Hs. apply in_or_app. right. left. auto.
  - eapply Forall_Rep0_transfer; eauto. intros j Hj. apply Hs. apply in_or_app. right. right. auto.
  - apply IH; auto. intros j Hj. apply Hs. apply in_or_app. auto.
Qed.

(* the parser invariant on (tree, pending index, stack, open count) *)
Definition PI (t : arena) (idx : option nat) (stack : list nat) (open : nat) : Prop :=
  Good t /\ open = length stack /\ (forall i, idx = Some i -> i < length t) /\
  ( (t = [] /\ stack = [])
  \/ (exists fs, fs <> [] /\ stack = map fst fs /\ Frames t [] fs /\ zip_ids fs = seq 0 (length t))
  \/ (stack = [] /\ exists r, Rep0 t None 0 r /\ ids r = seq 0 (length t))).

Lemma PI_transfer t t' idx st op :
  PI t idx st op -> length t' = length t -> Good t' -> (forall j, sh t t' j) -> PI t' idx st op.
Proof.
  intros [HG [Ho [Hi Hc]]] Hl HG' Hs. split; [auto|split; [auto|split]].
  - intros i E. rewrite Hl. auto.
  - destruct Hc as [[Ht Hst]|[[fs [Hne [Hst [HF Hz]]]]|[Hst [r [HR Hids]]]]].
    + left. subst. destruct t'; simpl in *; auto; discriminate.
    + right. left. exists fs. repeat split; auto.
      * eapply Frames_transfer; eauto.
      * rewrite Hl; auto.
    + right. right. split; auto. exists r. split.
      * eapply Rep0_transfer; eauto.
      * rewrite Hl; auto.
Qed.

Lemma PI_shape t idx st op j n n3 :
  PI t idx st op -> nth_error t j = Some n -> same_tree n n3 -> same_meta n n3 ->
  PI (replace_nth j n3 t) idx st op.
Proof.
  intros HP Hn Ht Hm. pose proof (nth_error_Some_lt _ _ Hn) as Hlt.
  eapply PI_transfer; eauto.
  - apply replace_nth_length.
  - destruct HP as [HG _]. intros i m Hm'.
    destruct (Nat.eq_dec j i) as [->|Hne].
    + rewrite nth_error_replace_nth_eq in Hm' by auto. inversion Hm'; subst.
      destruct (HG _ _ Hn) as [A [B [C D]]]. destruct Hm as [A' [B' C']]. destruct Ht as [T1 _].
      split; [congruence|]. split; [congruence|]. split; [congruence|]. rewrite T1. exact D.
    + rewrite nth_error_replace_nth_neq in Hm' by auto. eauto.
  - intros i. destruct (Nat.eq_dec j i) as [->|Hne].
    + intros m Hm'. exists n3. rewrite nth_error_replace_nth_eq by auto. split; congruence.
    + apply sh_eq. apply nth_error_replace_nth_neq; auto.
Qed.

Lemma PI_idx t idx idx' st op :
  PI t idx st op -> (forall i, idx' = Some i -> i < length t) -> PI t idx' st op.
Proof. intros [HG [Ho [Hi Hc]]] H. split; [auto|split; [auto|split]]; auto. Qed.

(* --- add_child of a fresh unlabeled leaf ------------------------------------------------------- *)
Lemma add_leaf_spec (t : arena) parent t' id :
  add_child t (new_node None None) parent None = Ok (t', id) ->
  exists pn, nth_error t parent = Some pn /\ id = length t /\ length t' = S (length t) /\
    nth_error t' parent = Some (set_nchildren pn (nchildren pn ++ [length t])) /\
    nth_error t' (length t) = Some (mkNode (length t) None (Some parent) [] None None [] (ndepth pn + 1) false) /\
    (forall j, j <> parent -> j <> length t -> nth_error t' j = nth_error t j).
Proof.
  unfold add_child. destruct (Nat.leb (length t) parent) eqn:Hle; [discriminate|].
  apply Nat.leb_gt in Hle.
  unfold get at 1. destruct (nth_error t parent) as [pn|] eqn:Hpn; [|discriminate].
  destruct (ndeleted pn) eqn:Hdel; [discriminate|]. simpl bind. unfold add.
  unfold upd at 1. unfold get. rewrite nth_error_app2 by lia. rewrite Nat.sub_diag. simpl.
  rewrite replace_nth_app_last.
  unfold upd, get. rewrite nth_error_app1 by lia. rewrite Hpn, Hdel. simpl.
  intros H. inversion H; subst; clear H.
  exists pn. split; auto. split; auto.
  rewrite replace_nth_app_l by lia.
  split. { rewrite app_length, replace_nth_length. simpl. lia. }
  split. { rewrite nth_error_app1 by (rewrite replace_nth_length; lia).
           rewrite nth_error_replace_nth_eq by lia. reflexivity. }
  split. { rewrite nth_error_app2 by (rewrite replace_nth_length; lia).
           rewrite replace_nth_length, Nat.sub_diag. reflexivity. }
  intros j Hj1 Hj2. destruct (Nat.lt_ge_cases j (length t)).
  - rewrite nth_error_app1 by (rewrite replace_nth_length; lia).
    apply nth_error_replace_nth_neq; auto.
  - assert (nth_error t j = None) as -> by (apply nth_error_None; lia).
    apply nth_error_None. rewrite app_length, replace_nth_length. simpl. lia.
Qed.

Lemma Good_single (n : node) :
  ndeleted n = false -> nid n = 0 -> nedges n = [] -> nparent n = None -> Good [n].
Proof.
  intros A B C D [|i] m Hm; simpl in Hm.
  - inversion Hm; subst. repeat split; auto. intros p E. congruence.
  - destruct i; discriminate.
Qed.

Lemma PI_root idx op :
  PI [] idx [] op -> PI (fst (add [] (new_node None None))) idx [0] (S op).
Proof.
  intros [HG [Ho [Hi Hc]]]. simpl.
  split; [apply Good_single; reflexivity|].
  split; [simpl in *; lia|].
  split. { intros i E. specialize (Hi _ E). simpl in Hi. lia. }
  right. left. exists [(0, [])]. split; [discriminate|]. split; [reflexivity|].
  split; [|reflexivity]. simpl. repeat split; auto.
  eexists. repeat split; reflexivity.
Qed.

(* the facts shared by "new leaf under the innermost open node" and "open a new inner node" *)
Lemma add_leaf_frames (t t' : arena) parent id done below :
  add_child t (new_node None None) parent None = Ok (t', id) ->
  Good t ->
  Frames t [] ((parent, done) :: below) ->
  zip_ids ((parent, done) :: below) = seq 0 (length t) ->
  id = length t /\ length t' = S (length t) /\ Good t' /\
  NodeIs t' parent (match below with [] => None | (p, _) :: _ => Some p end) (length below)
         (map rid done ++ [id]) /\
  NodeIs t' id (Some parent) (S (length below)) [] /\
  Forall (Rep0 t' (Some parent) (S (length below))) done /\
  Frames t' [parent] below.
Proof.
  intros Hadd HG [HN [HD HF]] Hz.
  destruct (add_leaf_spec _ _ Hadd) as [pn [Hpn [-> [Hlen [Hp' [Hnew Hother]]]]]].
  simpl in Hz.
  assert (Hnd : NoDup (zip_ids below ++ parent :: flat_map pre done)) by (rewrite Hz; apply seq_NoDup).
  apply NoDup_remove_2 in Hnd.
  assert (Hlt : forall j, In j (zip_ids below ++ flat_map pre done) -> j < length t).
  { intros j Hj. assert (In j (seq 0 (length t))) as Hin.
    { rewrite <- Hz. apply in_app_or in Hj. apply in_or_app. destruct Hj; auto. right; right; auto. }
    apply in_seq in Hin. lia. }
  assert (Hsh : forall j, In j (zip_ids below ++ flat_map pre done) -> sh t t' j).
  { intros j Hj. apply sh_eq. apply Hother.
    - intros ->. auto.
    - specialize (Hlt _ Hj). lia. }
  destruct HN as [pn0 [Hpn0 [Hpp [Hpd Hpc]]]]. rewrite Hpn in Hpn0. inversion Hpn0; subst pn0; clear Hpn0.
  rewrite app_nil_r in Hpc.
  split; auto. split; auto. split.
  { intros i m Hm. destruct (Nat.eq_dec i parent) as [->|Hne].
    - rewrite Hp' in Hm. inversion Hm; subst; simpl. apply (HG _ _ Hpn).
    - destruct (Nat.eq_dec i (length t)) as [->|Hne2].
      + rewrite Hnew in Hm. inversion Hm; subst; simpl. repeat split; auto.
        intros p E. inversion E; subst. eapply nth_error_Some_lt; eauto.
      + rewrite Hother in Hm by auto. eauto. }
  split. { eexists. split; [exact Hp'|]. simpl. rewrite Hpc. auto. }
  split. { eexists. split; [exact Hnew|]. simpl. rewrite Hpd. repeat split; auto. apply Nat.add_1_r. }
  split.
  - eapply Forall_Rep0_transfer; eauto. intros j Hj. apply Hsh. apply in_or_app; auto.
  - eapply Frames_transfer; eauto. intros j Hj. apply Hsh. apply in_or_app; auto.
Qed.

Lemma stack_frames (fs : list frame) parent rest :
  parent :: rest = map fst fs -> exists done below, fs = (parent, done) :: below /\ rest = map fst below.
Proof.
  destruct fs as [|[i done] below]; simpl; intros H; inversion H; subst. eauto.
Qed.

Lemma PI_open_inv t idx parent rest op :
  PI t idx (parent :: rest) op ->
  Good t /\ op = S (length rest) /\ (forall i, idx = Some i -> i < length t) /\
  exists done below, rest = map fst below /\ Frames t [] ((parent, done) :: below) /\
     zip_ids ((parent, done) :: below) = seq 0 (length t).
Proof.
  intros [HG [Ho [Hi Hc]]]. split; auto. split; auto. split; auto.
  destruct Hc as [[_ Hst]|[[fs [Hne [Hst [HF Hz]]]]|[Hst _]]]; try discriminate.
  destruct (stack_frames _ Hst) as [done [below [-> Hr]]]. eauto.
Qed.

Lemma PI_leaf t idx parent rest op t' id :
  PI t idx (parent :: rest) op ->
  add_child t (new_node None None) parent None = Ok (t', id) ->
  PI t' idx (parent :: rest) op /\ id < length t'.
Proof.
  intros HP Hadd. destruct (PI_open_inv HP) as [HG [Ho [Hi [done [below [Hr [HF Hz]]]]]]].
  destruct (add_leaf_frames Hadd HG HF Hz) as [-> [Hlen [HG' [HNp [HNn [HD HFb]]]]]].
  split; [|lia].
  split; auto. split; auto. split. { intros i E. specialize (Hi _ E). lia. }
  right. left. exists ((parent, done ++ [RT (length t) []]) :: below).
  split; [discriminate|]. split; [simpl; congruence|]. split.
  - simpl. split.
    + rewrite map_app, app_nil_r. exact HNp.
    + split; auto. apply Forall_app. split; auto. constructor; auto.
      destruct HNn as [n [A [B [C D]]]]. econstructor; eauto.
  - simpl in *. rewrite flat_map_app. simpl. rewrite ?app_nil_r.
    rewrite Hlen, seq_S, <- Hz. simpl. rewrite <- app_assoc. simpl. reflexivity.
Qed.

Lemma PI_push t idx parent rest op t' id :
  PI t idx (parent :: rest) op ->
  add_child t (new_node None None) parent None = Ok (t', id) ->
  PI t' idx (id :: parent :: rest) (S op).
Proof.
  intros HP Hadd. destruct (PI_open_inv HP) as [HG [Ho [Hi [done [below [Hr [HF Hz]]]]]]].
  destruct (add_leaf_frames Hadd HG HF Hz) as [-> [Hlen [HG' [HNp [HNn [HD HFb]]]]]].
  split; auto. split; [simpl; lia|]. split. { intros i E. specialize (Hi _ E). lia. }
  right. left. exists ((length t, []) :: (parent, done) :: below).
  split; [discriminate|]. split; [simpl; congruence|]. split.
  - simpl. split; [exact HNn|]. split; [constructor|]. split; auto.
  - simpl in *. rewrite Hlen, seq_S, <- Hz. simpl. reflexivity.
Qed.

Lemma PI_pop t idx parent rest op :
  PI t idx (parent :: rest) op -> PI t (Some parent) rest (op - 1).
Proof.
  intros HP. destruct (PI_open_inv HP) as [HG [Ho [Hi [done [below [Hr [HF Hz]]]]]]].
  destruct HF as [HN [HD HFb]].
  split; auto. split; [lia|]. split.
  { intros i E. inversion E; subst. destruct HN as [n [A _]]. eapply nth_error_Some_lt; eauto. }
  rewrite app_nil_r in HN.
  destruct below as [|[q doneq] below'].
  - right. right. split; auto. exists (RT parent done). split; auto.
    destruct HN as [n [A [B [C D]]]]. econstructor; eauto.
  - right. left. exists ((q, doneq ++ [RT parent done]) :: below').
    split; [discriminate|]. split; [simpl in *; congruence|].
    simpl in HFb. destruct HFb as [HNq [HDq HFq]]. split.
    + simpl. split; [rewrite map_app, app_nil_r; exact HNq|]. split; auto.
      apply Forall_app. split; auto. constructor; auto.
      destruct HN as [n [A [B [C D]]]]. econstructor; eauto.
    + rewrite <- Hz. simpl. rewrite flat_map_app. simpl. rewrite ?app_nil_r.
      rewrite <- !app_assoc. simpl. reflexivity.
Qed.

End Shape.

(* ================================================================================================ *)
(* Part 3: the parser preserves the invariant                                                        *)
(* ================================================================================================ *)
Section ParserInv.
Context {L : Type}.
Variable parse_len : str -> option L.
Notation node := (@node L).
Notation arena := (@arena L).
Notation pstate := (@pstate L).
Notation pres := (@pres L).

Definition PInv (s : pstate) : Prop := PI (p_tree s) (p_index s) (p_stack s) (p_open s).

Lemma PInv_init : PInv (@p_init L).
Proof.
  unfold PInv; simpl. split.
  - intros [|i] n H; discriminate H.
  - split; auto. split; [intros i E; discriminate|]. left; auto.
Qed.

Definition is_fail (r : pres) : Prop :=
  match r with Done (Ok _) => False | Done _ => True | Running _ => False end.

Lemma get_Ok (t : arena) i n : get t i = Ok n -> nth_error t i = Some n /\ ndeleted n = false.
Proof.
  unfold get. destruct (nth_error t i) as [m|]; [|discriminate].
  destruct (ndeleted m) eqn:E; [discriminate|]. intros H; inversion H; subst; auto.
Qed.

Lemma lift_run_cases {A} (o : outcome A) (k : A -> pres) :
  is_fail (lift_run o k) \/ exists a, o = Ok a /\ lift_run o k = k a.
Proof. destruct o; simpl; eauto. Qed.

Definition with_node (s : pstate) (k : arena -> pres) (t : arena) (idx : nat) : pres :=
  lift_run (get t idx) (fun n =>
    let n1 := match p_name s with Some nm => set_nname n (Some nm) | None => n end in
    match (match p_len s with
           | Some ls => match parse_len ls with Some v => Some (Some v) | None => None end
           | None => Some None
           end) with
    | None => Done (Err FloatError)
    | Some edge =>
        let n2 := match nparent n1 with Some p => node_set_parent n1 p edge | None => n1 end in
        let n3 := set_ncomment n2 (p_comment s) in
        k (replace_nth idx n3 t)
    end).

Lemma commit_unfold s k :
  commit parse_len s k =
  match p_index s with
  | Some idx => with_node s k (p_tree s) idx
  | None =>
      match p_stack s with
      | parent :: _ =>
          lift_run (add_child (p_tree s) (new_node None None) parent None)
                   (fun r => with_node s k (fst r) (snd r))
      | [] => Done (Err NoSubtreeParent)
      end
  end.
Proof. reflexivity. Qed.

Lemma with_node_cases s k t idx :
  is_fail (with_node s k t idx) \/
  exists n n3, nth_error t idx = Some n /\ same_tree n n3 /\ same_meta n n3 /\
               with_node s k t idx = k (replace_nth idx n3 t).
Proof.
  unfold with_node. destruct (get t idx) as [n| | |] eqn:Hg; simpl lift_run; try (left; exact I).
  cbv zeta. apply get_Ok in Hg. destruct Hg as [Hn Hd].
  destruct (match p_len s with Some ls => _ | None => _ end) as [edge|]; [|left; exact I].
  right. eexists. eexists. split; [exact Hn|]. split; [|split; [|reflexivity]].
  - destruct (p_name s); simpl; destruct (nparent n) eqn:E; simpl; repeat split; auto.
  - destruct (p_name s); simpl; destruct (nparent n) eqn:E; simpl; repeat split; auto.
Qed.

Lemma commit_PI s k op :
  PI (p_tree s) (p_index s) (p_stack s) op ->
  is_fail (commit parse_len s k) \/
  exists t', PI t' None (p_stack s) op /\ commit parse_len s k = k t'.
Proof.
  intros HP. rewrite commit_unfold.
  destruct (p_index s) as [idx|] eqn:Hidx.
  - destruct (with_node_cases s k (p_tree s) idx) as [Hf|[n [n3 [Hn [Ht [Hm Heq]]]]]]; [left; auto|].
    right. eexists. split; [|exact Heq].
    eapply PI_idx; [eapply PI_shape; eauto|]. intros i E; discriminate.
  - destruct (p_stack s) as [|parent rest] eqn:Hst; [left; exact I|].
    destruct (lift_run_cases (add_child (p_tree s) (new_node None None) parent None)
                (fun r => with_node s k (fst r) (snd r))) as [Hf|[[t0 id] [Hadd Heq]]]; [left; auto|].
    rewrite Heq. simpl fst; simpl snd.
    destruct (PI_leaf HP Hadd) as [HP' Hlt].
    destruct (with_node_cases s k t0 id) as [Hf|[n [n3 [Hn [Ht [Hm Heq']]]]]]; [left; auto|].
    right. eexists. split; [|exact Heq'].
    eapply PI_idx; [eapply PI_shape; eauto|]. intros i E; discriminate.
Qed.

Ltac step_if_eq :=
  match goal with |- (if ?b then _ else _) = _ -> _ => destruct b eqn:? end.
Ltac label_only HP := let H := fresh in intros H; inversion H; subst; exact HP.

Lemma pstep_PInv s c s' : PInv s -> pstep parse_len s c = Running s' -> PInv s'.
Proof.
  intros HP. unfold pstep.
  step_if_eq; [label_only HP|].
  step_if_eq; [label_only HP|].
  step_if_eq; [label_only HP|].
  step_if_eq; [label_only HP|].
  step_if_eq; [label_only HP|].
  step_if_eq; [label_only HP|].
  step_if_eq.
  { unfold PInv in HP. destruct (p_stack s) as [|parent rest] eqn:Hst.
    - destruct (p_tree s) eqn:Ht; [|discriminate].
      intros H; inversion H; subst. unfold PInv; simpl. apply (PI_root HP).
    - destruct (lift_run_cases (add_child (p_tree s) (new_node None None) parent None)
        (fun r => Running (mkP (fst r) (p_field s) (p_name s) (p_len s) (p_comment s) (p_index s)
                               (snd r :: parent :: rest) (S (p_open s)) (p_quotes s))))
        as [Hf|[[t0 id] [Hadd Heq]]].
      + intros H. rewrite H in Hf. destruct Hf.
      + rewrite Heq. intros H; inversion H; subst. unfold PInv; simpl.
        eapply PI_push; eauto. }
  step_if_eq; [label_only HP|].
  step_if_eq.
  { destruct (commit_PI s (fun t => Running (mkP t FName None None None None (p_stack s) (p_open s) (p_quotes s))) HP)
      as [Hf|[t' [HP' Heq]]].
    - intros H. rewrite H in Hf. destruct Hf.
    - rewrite Heq. intros H; inversion H; subst. exact HP'. }
  step_if_eq.
  { set (s1 := mkP (p_tree s) (p_field s) (p_name s) (p_len s) (p_comment s) (p_index s) (p_stack s) (p_open s - 1) (p_quotes s)).
    destruct (@commit_PI s1 (fun t =>
      match p_stack s with
      | parent :: rest => Running (mkP t FName None None None (Some parent) rest (p_open s - 1) (p_quotes s))
      | [] => Done (Err NoSubtreeParent)
      end) (p_open s) HP) as [Hf|[t' [HP' Heq]]].
    - intros H. rewrite H in Hf. destruct Hf.
    - rewrite Heq. simpl in HP'. destruct (p_stack s) as [|parent rest]; [discriminate|].
      intros H; inversion H; subst. unfold PInv; simpl. eapply PI_pop; eauto. }
  step_if_eq.
  { step_if_eq; [discriminate|].
    destruct (p_index s).
    - unfold lift_run. destruct (get (p_tree s) n); try discriminate.
      destruct (match p_len s with Some ls => _ | None => _ end); [|discriminate].
      destruct (finish _); discriminate.
    - destruct (p_tree s); [|discriminate]. simpl.
      destruct (match p_len s with Some ls => _ | None => _ end); [|discriminate].
      destruct (finish _); discriminate. }
  destruct (p_field s); [label_only HP| |discriminate].
  step_if_eq; [discriminate|label_only HP].
Qed.

End ParserInv.

(* ================================================================================================ *)
(* Part 4: the finishing pass establishes the edge mirror; closed states are well formed            *)
(* ================================================================================================ *)
Section Finish.
Context {L : Type}.
Notation node := (@node L).
Notation arena := (@arena L).

Lemma edge_get_insert (es : list (nat * L)) c v c' :
  edge_get (edge_insert es c v) c' = if Nat.eqb c c' then Some v else edge_get es c'.
Proof.
  induction es as [|[k w] es IH]; simpl.
  - destruct (Nat.eqb c c'); auto.
  - destruct (Nat.eqb_spec k c) as [->|Hkc]; simpl.
    + destruct (Nat.eqb c c'); auto.
    + destruct (Nat.ltb c k); simpl.
      * destruct (Nat.eqb c c'); auto.
      * rewrite IH. destruct (Nat.eqb_spec k c') as [->|Hkc'].
        -- destruct (Nat.eqb_spec c c'); auto. congruence.
        -- auto.
Qed.

Lemma map_nid_seq_gen (t : arena) : forall k,
  (forall i n, nth_error t i = Some n -> nid n = k + i) -> map (@nid L) t = seq k (length t).
Proof.
  induction t as [|a t IH]; simpl; intros k H; auto. f_equal.
  - rewrite (H 0 a eq_refl). lia.
  - apply IH. intros i n Hn. rewrite (H (S i) n Hn). lia.
Qed.

Lemma map_nid_seq (t : arena) : Good t -> map (@nid L) t = seq 0 (length t).
Proof. intros HG. apply map_nid_seq_gen. intros i n Hn. apply HG in Hn. simpl. tauto. Qed.

Definition fin_step (t : arena) (id : nat) : outcome arena :=
  n <- get t id ;;
  match npedge n, nparent n with
  | Some e, Some p => upd t p (fun x => node_set_child_edge x id (Some e))
  | _, _ => Ok t
  end.

Lemma finish_unfold (t : arena) : finish t = foldM fin_step (map (@nid L) t) t.
Proof. reflexivity. Qed.

Definition EdgeOf (t : arena) (i c : nat) : option L :=
  match nth_error t c with
  | Some nc => match nparent nc with
               | Some p => if Nat.eqb p i then npedge nc else None
               | None => None
               end
  | None => None
  end.

Definition same_but_edges (n n' : node) : Prop :=
  nid n' = nid n /\ nparent n' = nparent n /\ nchildren n' = nchildren n /\ npedge n' = npedge n /\
  ndepth n' = ndepth n /\ ndeleted n' = ndeleted n /\ nname n' = nname n /\ ncomment n' = ncomment n.

Definition FinInv (t1 : arena) (k : nat) (tk : arena) : Prop :=
  length tk = length t1 /\
  forall i n, nth_error t1 i = Some n ->
    exists n', nth_error tk i = Some n' /\ same_but_edges n n' /\
      forall c, edge_get (nedges n') c = if Nat.ltb c k then EdgeOf t1 i c else None.

Lemma ltb_S_neq c k : c <> k -> Nat.ltb c (S k) = Nat.ltb c k.
Proof.
  intros H. destruct (Nat.ltb_spec c k); [apply Nat.ltb_lt|apply Nat.ltb_ge]; lia.
Qed.

Lemma fin_step_inv t1 k tk tk' :
  FinInv t1 k tk -> k < length t1 -> fin_step tk k = Ok tk' -> FinInv t1 (S k) tk'.
Proof.
  intros [Hlen HI] Hk Hstep.
  destruct (nth_error_lt_Some _ Hk) as [nk Hnk].
  destruct (HI _ _ Hnk) as [nk' [Hnk' [Hsame Hedge]]].
  unfold fin_step in Hstep. unfold get in Hstep at 1. rewrite Hnk' in Hstep.
  destruct (ndeleted nk') eqn:Hdel; [discriminate|]. simpl in Hstep.
  assert (HE : forall i, EdgeOf t1 i k =
             match npedge nk', nparent nk' with
             | Some e, Some p => if Nat.eqb p i then Some e else None
             | _, _ => None
             end).
  { intros i. unfold EdgeOf. rewrite Hnk.
    destruct Hsame as (_ & -> & _ & -> & _).
    destruct (nparent nk); destruct (npedge nk); auto. destruct (Nat.eqb _ _); auto. }
  assert (Hkk : Nat.ltb k (S k) = true) by (apply Nat.ltb_lt; lia).
  assert (Hkk' : Nat.ltb k k = false) by (apply Nat.ltb_irrefl).
  assert (Hkeep : (forall i, EdgeOf t1 i k = None) -> FinInv t1 (S k) tk).
  { intros HN. split; auto. intros i n Hn. destruct (HI _ _ Hn) as [n' [Hn' [Hs He]]].
    exists n'. split; auto. split; auto. intros c. rewrite He.
    destruct (Nat.eq_dec c k) as [->|Hck].
    - rewrite Hkk, Hkk', HN. auto.
    - rewrite ltb_S_neq by auto. auto. }
  destruct (npedge nk') as [e|] eqn:Hpe; [destruct (nparent nk') as [p|] eqn:Hpp|].
  - unfold upd in Hstep. destruct (get tk p) as [np'| | |] eqn:Hg; try discriminate.
    simpl in Hstep. inversion Hstep; subst tk'; clear Hstep.
    unfold get in Hg. destruct (nth_error tk p) as [np0|] eqn:Hnp'; [|discriminate].
    destruct (ndeleted np0); [discriminate|]. inversion Hg; subst np0; clear Hg.
    split. { rewrite replace_nth_length; auto. }
    intros i n Hn. destruct (HI _ _ Hn) as [n' [Hn' [Hs He]]].
    destruct (Nat.eq_dec p i) as [->|Hne].
    + rewrite Hn' in Hnp'. inversion Hnp'; subst np'.
      eexists. split. { apply nth_error_replace_nth_eq. eapply nth_error_Some_lt; eauto. }
      split. { exact Hs. }
      intros c. simpl. rewrite edge_get_insert, He.
      destruct (Nat.eqb_spec k c) as [<-|Hkc].
      * rewrite Hkk, HE, Nat.eqb_refl. auto.
      * rewrite ltb_S_neq by auto. auto.
    + exists n'. split. { rewrite nth_error_replace_nth_neq; auto. }
      split; auto. intros c. rewrite He.
      destruct (Nat.eq_dec c k) as [->|Hck].
      * rewrite Hkk, Hkk', HE. apply Nat.eqb_neq in Hne. rewrite Hne. auto.
      * rewrite ltb_S_neq by auto. auto.
  - inversion Hstep; subst tk'. apply Hkeep. intros i. rewrite HE. auto.
  - inversion Hstep; subst tk'. apply Hkeep. intros i. rewrite HE. auto.
Qed.

Lemma fin_fold t1 : forall m k tk t',
  k + m = length t1 -> FinInv t1 k tk -> foldM fin_step (seq k m) tk = Ok t' ->
  FinInv t1 (length t1) t'.
Proof.
  induction m as [|m IH]; simpl; intros k tk t' Hkm HI Hf.
  - inversion Hf; subst. replace (length t1) with k by lia. auto.
  - destruct (fin_step tk k) as [tk'| | |] eqn:E; try discriminate. simpl in Hf.
    eapply (IH (S k)); [lia| |exact Hf]. eapply fin_step_inv; eauto. lia.
Qed.

Lemma finish_spec t1 t' : Good t1 -> finish t1 = Ok t' -> FinInv t1 (length t1) t'.
Proof.
  intros HG Hf. rewrite finish_unfold, map_nid_seq in Hf by auto.
  eapply (@fin_fold t1 (length t1) 0); eauto.
  split; auto. intros i n Hn. exists n. split; auto. split; [repeat split; auto|].
  intros c. destruct (HG _ _ Hn) as (_ & _ & -> & _). reflexivity.
Qed.

(* --- from Rep0 + pointwise node facts to Rep ---------------------------------------------------- *)
Lemma Forall2_map_rid (R : nat -> rtree -> Prop) cs :
  Forall (fun r => R (rid r) r) cs -> Forall2 R (map rid cs) cs.
Proof. induction 1; simpl; constructor; auto. Qed.

Lemma Rep0_root_node (t : arena) p d r :
  Rep0 t p d r -> exists n, nth_error t (rid r) = Some n /\ nparent n = p /\ ndepth n = d.
Proof. intros H; inversion H; subst; simpl; eauto. Qed.

Lemma Rep0_parent (t : arena) : forall r p d, Rep0 t p d r -> forall c, In c (ids r) ->
  c = rid r \/ exists j nj nc, nth_error t j = Some nj /\ In c (nchildren nj) /\
                               nth_error t c = Some nc /\ nparent nc = Some j.
Proof.
  induction r as [i cs IH] using rtree_ind'. intros p d HR c Hc.
  inversion HR; subst. simpl in Hc. destruct Hc as [->|Hc]; [left; auto|]. right.
  apply in_flat_map in Hc. destruct Hc as [rc [Hrc Hc]].
  rewrite Forall_forall in IH, H7.
  destruct (IH _ Hrc _ _ (H7 _ Hrc) _ Hc) as [->|Hex]; auto.
  destruct (Rep0_root_node (H7 _ Hrc)) as [nc [Hnc [Hpc _]]].
  exists i, n, nc. repeat split; auto. rewrite H6. apply in_map; auto.
Qed.

Lemma Rep0_Rep (t : arena) : forall r p d, Rep0 t p d r ->
  (forall i n, nth_error t i = Some n ->
     ndeleted n = false /\ nid n = i /\
     (forall c nc, nth_error t c = Some nc -> nparent nc = Some i -> edge_get (nedges n) c = npedge nc) /\
     (forall c, edge_get (nedges n) c <> None -> In c (nchildren n))) ->
  Rep t p d (rid r) r.
Proof.
  induction r as [i cs IH] using rtree_ind'. intros p d HR HN.
  inversion HR; subst. simpl. destruct (HN _ _ H1) as (A & B & C & D).
  rewrite Forall_forall in IH, H7.
  econstructor; eauto.
  - rewrite H6. apply Forall2_map_rid. apply Forall_forall. intros rc Hrc. apply IH; auto.
  - intros c nc Hin Hnc. apply C; auto. rewrite H6 in Hin. apply in_map_iff in Hin.
    destruct Hin as [rc [<- Hrc]]. destruct (Rep0_root_node (H7 _ Hrc)) as [nc' [Hnc' [Hp _]]].
    congruence.
Qed.

Definition Closed (t : arena) : Prop :=
  Good t /\ exists r, Rep0 t None 0 r /\ ids r = seq 0 (length t).

(* what the parser guarantees about a returned tree *)
Definition ParsedTree (t : arena) : Prop :=
  t <> [] /\
  (forall i n, nth_error t i = Some n ->
     ndeleted n = false /\ nid n = i /\ (forall p, nparent n = Some p -> p < i)) /\
  exists r, Rep t None 0 0 r /\ ids r = seq 0 (length t).

Lemma ids_seq_root r m : ids r = seq 0 m -> rid r = 0 /\ m <> 0.
Proof. destruct r as [i cs]; destruct m; simpl; intros H; inversion H; auto. Qed.

Theorem finish_closed t1 t' : Closed t1 -> finish t1 = Ok t' -> ParsedTree t'.
Proof.
  intros [HG [r [HR Hids]]] Hf. destruct (finish_spec HG Hf) as [Hlen HI].
  destruct (ids_seq_root _ _ Hids) as [Hroot Hne].
  assert (Hback : forall i n', nth_error t' i = Some n' -> exists n, nth_error t1 i = Some n /\
            same_but_edges n n' /\ forall c, edge_get (nedges n') c = EdgeOf t1 i c).
  { intros i n' Hn'. pose proof (nth_error_Some_lt _ _ Hn') as Hlt. rewrite Hlen in Hlt.
    destruct (nth_error_lt_Some _ Hlt) as [n Hn]. destruct (HI _ _ Hn) as [n2 [Hn2 [Hs He]]].
    rewrite Hn' in Hn2. inversion Hn2; subst n2. exists n. split; auto. split; auto.
    intros c. rewrite He. destruct (Nat.ltb_spec c (length t1)); auto.
    unfold EdgeOf. assert (nth_error t1 c = None) as -> by (apply nth_error_None; lia). auto. }
  split. { intros ->. simpl in Hlen. congruence. }
  split. { intros i n' Hn'. destruct (Hback _ _ Hn') as [n [Hn [Hs _]]].
           destruct (HG _ _ Hn) as (A & B & _ & D). destruct Hs as (S1 & S2 & _ & _ & _ & S6 & _).
           split; [congruence|]. split; [congruence|]. rewrite S2. exact D. }
  exists r. split; [|rewrite Hlen; auto].
  cut (Rep t' None 0 (rid r) r); [rewrite Hroot; auto|].
  apply Rep0_Rep.
  { eapply Rep0_transfer; [exact HR|]. intros j _ n Hn. destruct (HI _ _ Hn) as [n' [Hn' [Hs _]]].
    exists n'. split; auto. destruct Hs as (_ & S2 & S3 & _ & S5 & _). repeat split; auto. }
  intros i n' Hn'. destruct (Hback _ _ Hn') as [n [Hn [Hs He]]].
  destruct (HG _ _ Hn) as (A & B & _). destruct Hs as (S1 & S2 & S3 & S4 & S5 & S6 & _).
  split; [congruence|]. split; [congruence|]. split.
  - intros c nc' Hnc' Hpar. destruct (Hback _ _ Hnc') as [nc [Hnc [Hsc _]]].
    destruct Hsc as (_ & T2 & _ & T4 & _).
    rewrite He. unfold EdgeOf. rewrite Hnc. rewrite <- T2, Hpar, Nat.eqb_refl. auto.
  - intros c Hc. rewrite He in Hc. unfold EdgeOf in Hc.
    destruct (nth_error t1 c) as [nc|] eqn:Hnc; [|congruence].
    destruct (nparent nc) as [q|] eqn:Hq; [|congruence].
    destruct (Nat.eqb_spec q i) as [->|]; [|congruence].
    assert (Hin : In c (ids r)).
    { rewrite Hids. apply in_seq. apply nth_error_Some_lt in Hnc. lia. }
    destruct (Rep0_parent HR _ Hin) as [->|[j [nj [nc2 [Hnj [Hcj [Hnc2 Hp2]]]]]]].
    + destruct (Rep0_root_node HR) as [n0 [Hn0 [Hp0 _]]]. congruence.
    + assert (j = i) by congruence. subst j. rewrite S3. congruence.
Qed.

Lemma ParsedTree_WF t : ParsedTree t -> WF t.
Proof.
  intros (Hne & Hall & r & HR & Hids). right. exists 0, r. split; auto. split.
  - rewrite Hids. apply seq_NoDup.
  - intros i [n [Hn _]]. rewrite Hids. apply in_seq. apply nth_error_Some_lt in Hn. lia.
Qed.

(* --- consequences of ParsedTree, stated without rose trees -------------------------------------- *)
Lemma Rep_rid (t : arena) p d i r : Rep t p d i r -> rid r = i.
Proof. intros H; inversion H; subst; auto. Qed.

Lemma Forall2_rid_map (R : nat -> rtree -> Prop) l cs :
  Forall2 R l cs -> (forall c r, R c r -> rid r = c) -> l = map rid cs.
Proof. induction 1; simpl; intros HR; auto. f_equal; auto. symmetry; auto. Qed.

Lemma Forall2_Forall_r (R : nat -> rtree -> Prop) (Q : rtree -> Prop) l cs :
  Forall2 R l cs -> Forall (fun r => forall c, R c r -> Q r) cs -> Forall Q cs.
Proof. induction 1; intros HF; inversion HF; subst; constructor; eauto. Qed.

Lemma Rep_Rep0 (t : arena) : forall r p d i, Rep t p d i r -> Rep0 t p d r.
Proof.
  induction r as [i cs IH] using rtree_ind'. intros p d j HR. inversion HR; subst.
  econstructor; eauto.
  - eapply Forall2_rid_map; eauto. intros c r Hr. eapply Rep_rid; eauto.
  - eapply Forall2_Forall_r; eauto. eapply Forall_impl; [|exact IH].
    intros r Hr c Hc. eapply Hr; eauto.
Qed.

Lemma In_rid_pre r : In (rid r) (pre r).
Proof. destruct r; simpl; auto. Qed.

Lemma Rep0_child (t : arena) : forall r p d, Rep0 t p d r ->
  forall j nj c, In j (ids r) -> nth_error t j = Some nj -> In c (nchildren nj) ->
  exists nc, nth_error t c = Some nc /\ nparent nc = Some j /\ ndepth nc = S (ndepth nj) /\ In c (ids r).
Proof.
  induction r as [i cs IH] using rtree_ind'. intros p d HR j nj c Hj Hnj Hc.
  inversion HR; subst. rewrite Forall_forall in IH, H7. simpl in Hj. destruct Hj as [<-|Hj].
  - rewrite H1 in Hnj. inversion Hnj; subst nj. rewrite H6 in Hc. apply in_map_iff in Hc.
    destruct Hc as [rc [<- Hrc]]. destruct (Rep0_root_node (H7 _ Hrc)) as [nc [Hnc [Hp Hd]]].
    exists nc. repeat split; auto. simpl. right. apply in_flat_map. exists rc. split; auto.
    apply In_rid_pre.
  - apply in_flat_map in Hj. destruct Hj as [rc [Hrc Hj]].
    destruct (IH _ Hrc _ _ (H7 _ Hrc) _ _ _ Hj Hnj Hc) as [nc [A [B [C D]]]].
    exists nc. repeat split; auto. simpl. right. apply in_flat_map. eauto.
Qed.

Section Consequences.
Variable t : arena.
Hypothesis HPT : ParsedTree t.

Lemma PT_no_tombstone : forall i n, nth_error t i = Some n -> ndeleted n = false.
Proof. destruct HPT as (_ & H & _). intros i n Hn. apply (H _ _ Hn). Qed.

Lemma PT_ids : forall i n, nth_error t i = Some n -> nid n = i.
Proof. destruct HPT as (_ & H & _). intros i n Hn. apply (H _ _ Hn). Qed.

Lemma PT_single_root : forall i n, nth_error t i = Some n ->
  (nparent n = None <-> i = 0) /\
  (forall p, nparent n = Some p -> p < i /\ exists np, nth_error t p = Some np).
Proof.
  destruct HPT as (Hne & Hall & r & HR & Hids). apply Rep_Rep0 in HR.
  intros i n Hn. pose proof (nth_error_Some_lt _ _ Hn) as Hlt.
  destruct (Rep0_root_node HR) as [n0 [Hn0 [Hp0 _]]].
  destruct (ids_seq_root _ _ Hids) as [Hroot _]. rewrite Hroot in Hn0.
  assert (Hin : In i (ids r)) by (rewrite Hids; apply in_seq; lia).
  split.
  - split.
    + intros Hp. destruct (Rep0_parent HR _ Hin) as [->|[j [nj [nc [_ [_ [Hnc Hpj]]]]]]]; auto. congruence.
    + intros ->. congruence.
  - intros p Hp. destruct (Hall _ _ Hn) as (_ & _ & Hlt'). specialize (Hlt' _ Hp). split; auto.
    apply nth_error_lt_Some. lia.
Qed.

Lemma PT_parent_child_consistent : forall p c np nc,
  nth_error t p = Some np -> nth_error t c = Some nc ->
  (In c (nchildren np) <-> nparent nc = Some p).
Proof.
  destruct HPT as (Hne & Hall & r & HR & Hids). apply Rep_Rep0 in HR.
  intros p c np nc Hnp Hnc.
  pose proof (nth_error_Some_lt _ _ Hnp) as Hltp. pose proof (nth_error_Some_lt _ _ Hnc) as Hltc.
  assert (Hinp : In p (ids r)) by (rewrite Hids; apply in_seq; lia).
  assert (Hinc : In c (ids r)) by (rewrite Hids; apply in_seq; lia).
  split.
  - intros Hc. destruct (Rep0_child HR _ _ Hinp Hnp Hc) as [nc' [A [B _]]]. congruence.
  - intros Hp. destruct (Rep0_parent HR _ Hinc) as [->|[j [nj [nc2 [Hnj [Hcj [Hnc2 Hp2]]]]]]].
    + destruct (Rep0_root_node HR) as [n0 [Hn0 [Hp0 _]]]. congruence.
    + assert (j = p) by congruence. subst j. congruence.
Qed.

Lemma PT_children_in_range : forall p np c,
  nth_error t p = Some np -> In c (nchildren np) -> p < c /\ c < length t.
Proof.
  destruct HPT as (Hne & Hall & r & HR & Hids). apply Rep_Rep0 in HR.
  intros p np c Hnp Hc. pose proof (nth_error_Some_lt _ _ Hnp) as Hltp.
  assert (Hinp : In p (ids r)) by (rewrite Hids; apply in_seq; lia).
  destruct (Rep0_child HR _ _ Hinp Hnp Hc) as [nc [A [B _]]].
  split; [|eapply nth_error_Some_lt; eauto]. destruct (Hall _ _ A) as (_ & _ & Hlt). auto.
Qed.

Lemma PT_depth_exact : forall i n, nth_error t i = Some n ->
  match nparent n with
  | None => ndepth n = 0
  | Some p => exists np, nth_error t p = Some np /\ ndepth n = S (ndepth np)
  end.
Proof.
  intros i n Hn. destruct (PT_single_root _ Hn) as [Hroot Hpar].
  destruct HPT as (Hne & Hall & r & HR & Hids). apply Rep_Rep0 in HR.
  destruct (nparent n) as [p|] eqn:Hp.
  - destruct (Hpar _ eq_refl) as [Hlt [np Hnp]]. exists np. split; auto.
    assert (Hinp : In p (ids r)).
    { rewrite Hids; apply in_seq. apply nth_error_Some_lt in Hnp. lia. }
    assert (Hc : In i (nchildren np)).
    { eapply PT_parent_child_consistent; eauto. }
    destruct (Rep0_child HR _ _ Hinp Hnp Hc) as [nc [A [B [C _]]]]. congruence.
  - assert (i = 0) by (apply Hroot; auto). subst i.
    destruct (Rep0_root_node HR) as [n0 [Hn0 [_ Hd0]]].
    destruct (ids_seq_root _ _ Hids) as [Hr0 _]. rewrite Hr0 in Hn0. congruence.
Qed.

End Consequences.

End Finish.

(* ================================================================================================ *)
(* Part 5: results of the parser are well formed                                                     *)
(* ================================================================================================ *)
Section ParserWF.
Context {L : Type}.
Variable parse_len : str -> option L.
Notation node := (@node L).
Notation arena := (@arena L).
Notation pstate := (@pstate L).
Notation pres := (@pres L).

Lemma PI_closed (t : arena) idx op : PI t idx [] op -> t <> [] -> Closed t.
Proof.
  intros [HG [Ho [Hi Hc]]] Hne. split; auto.
  destruct Hc as [[Ht _]|[[fs [Hfs [Hst _]]]|[_ Hr]]]; auto; try contradiction.
  destruct fs; [contradiction|discriminate].
Qed.

Lemma PI_single : PI [set_nid (@new_node L None None) 0] (Some 0) [] 0.
Proof.
  split; [apply Good_single; reflexivity|]. split; auto. split.
  { intros i E; inversion E; subst; simpl; lia. }
  right. right. split; auto. exists (RT 0 []). split; [|reflexivity].
  econstructor; try reflexivity. constructor.
Qed.

Ltac step_if_eq :=
  match goal with |- (if ?b then _ else _) = _ -> _ => destruct b eqn:? end.

Lemma semi_go (s : pstate) t idx t' :
  PI t (Some idx) [] 0 ->
  lift_run (get t idx) (fun n : node =>
        let n1 := set_ncomment (set_nname n (p_name s)) (p_comment s) in
        match (match p_len s with
               | Some ls => match parse_len ls with Some v => Some (set_npedge n1 (Some v)) | None => None end
               | None => Some n1
               end) with
        | None => Done (Err FloatError)
        | Some n2 =>
            match finish (replace_nth idx n2 t) with
            | Ok t' => Done (Ok t')
            | Err _ => Done (Err NwTreeError)
            | Panic x => Done (Panic x)
            | OutOfFuel => Done OutOfFuel
            end
        end) = Done (Ok t') ->
  exists t1, Closed t1 /\ finish t1 = Ok t'.
Proof.
  intros HP. destruct (get t idx) as [n| | |] eqn:Hg; simpl lift_run; try discriminate.
  cbv zeta. apply get_Ok in Hg. destruct Hg as [Hn _].
  destruct (match p_len s with Some ls => _ | None => _ end) as [n2|] eqn:Hn2; [|discriminate].
  destruct (finish (replace_nth idx n2 t)) as [tf| | |] eqn:Hfin; try discriminate.
  intros H; inversion H; subst tf; clear H.
  exists (replace_nth idx n2 t). split; auto.
  apply PI_closed with (idx := Some idx) (op := 0).
  - eapply PI_shape; eauto.
    + destruct (p_len s); [destruct (parse_len _)|]; inversion Hn2; subst; simpl; repeat split; auto.
    + destruct (p_len s); [destruct (parse_len _)|]; inversion Hn2; subst; simpl; repeat split; auto.
  - intros E. apply (f_equal (@length _)) in E. rewrite replace_nth_length in E.
    apply nth_error_Some_lt in Hn. simpl in E. lia.
Qed.

Lemma pstep_done_ok s c t :
  PInv s -> pstep parse_len s c = Done (Ok t) ->
  (c = ch_semi /\ p_open s = 0) /\ exists t1, Closed t1 /\ finish t1 = Ok t.
Proof.
  intros HP. unfold pstep.
  step_if_eq; [discriminate|].
  step_if_eq; [discriminate|].
  step_if_eq; [discriminate|].
  step_if_eq; [discriminate|].
  step_if_eq; [discriminate|].
  step_if_eq; [discriminate|].
  step_if_eq.
  { destruct (p_stack s).
    - destruct (p_tree s); discriminate.
    - destruct (add_child _ _ _ _); discriminate. }
  step_if_eq; [discriminate|].
  step_if_eq.
  { destruct (commit_PI parse_len s (fun t => Running (mkP t FName None None None None (p_stack s) (p_open s) (p_quotes s))) HP)
      as [Hf|[t' [HP' Heq]]].
    - intros H. rewrite H in Hf. destruct Hf.
    - rewrite Heq. discriminate. }
  step_if_eq.
  { set (s1 := mkP (p_tree s) (p_field s) (p_name s) (p_len s) (p_comment s) (p_index s) (p_stack s) (p_open s - 1) (p_quotes s)).
    destruct (@commit_PI _ parse_len s1 (fun t =>
      match p_stack s with
      | parent :: rest => Running (mkP t FName None None None (Some parent) rest (p_open s - 1) (p_quotes s))
      | [] => Done (Err NoSubtreeParent)
      end) (p_open s) HP) as [Hf|[t' [HP' Heq]]].
    - intros H. rewrite H in Hf. destruct Hf.
    - rewrite Heq. destruct (p_stack s); discriminate. }
  step_if_eq.
  { step_if_eq; [discriminate|].
    assert (Hop : p_open s = 0).
    { destruct (Nat.eqb_spec (p_open s) 0); auto; discriminate. }
    assert (Hc : c = ch_semi) by (apply N.eqb_eq; auto).
    intros H. split; auto. revert H.
    unfold PInv in HP.
    assert (Hst : p_stack s = []).
    { destruct HP as [_ [Ho _]]. rewrite Hop in Ho. destruct (p_stack s); auto; discriminate. }
    rewrite Hst, Hop in HP.
    destruct (p_index s) as [idx|] eqn:Hidx.
    - apply semi_go; auto.
    - destruct (p_tree s) eqn:Ht; [|discriminate].
      change (let '(t1, id) := add [] (@new_node L None None) in ?g t1 id)
        with (g [set_nid (@new_node L None None) 0] 0).
      apply semi_go. apply PI_single. }
  destruct (p_field s); [discriminate| |discriminate].
  step_if_eq; discriminate.
Qed.

Lemma prun_PInv s input t :
  PInv s -> prun parse_len s input = Ok t -> exists t1, Closed t1 /\ finish t1 = Ok t.
Proof.
  revert s; induction input as [|c rest IH]; intros s HP; simpl; [discriminate|].
  destruct (pstep parse_len s c) as [s'|r] eqn:Hs.
  - apply IH. eapply pstep_PInv; eauto.
  - intros ->. eapply pstep_done_ok; eauto.
Qed.

Theorem parse_tree s t : from_newick parse_len s = Ok t -> ParsedTree t.
Proof.
  intros H. destruct (prun_PInv _ (PInv_init (L:=L)) H) as [t1 [Hc Hf]].
  eapply finish_closed; eauto.
Qed.

End ParserWF.

(* ================================================================================================ *)
(* Part 6: rejections — a closing ';' is required and the structural parentheses are balanced        *)
(* ================================================================================================ *)

(* An independent scanner: it follows only the quote flag and the current field (exactly the first
   tests of the state machine) and keeps the characters '(' ')' ';' that are read as delimiters;
   it stops at the first delimiter ';'. *)
Inductive sk_act := SkSkip (q : bool) (f : field) | SkOpen | SkClose | SkSemi.

Definition sk_step (q : bool) (f : field) (c : N) : sk_act :=
  if q && (match f with FName => true | _ => false end) && negb (c =? ch_quote)%N then SkSkip q f
  else if (match f with FComment => true | _ => false end) && negb (c =? ch_rbr)%N then SkSkip q f
  else if is_ws c && negb q then SkSkip q f
  else if (c =? ch_quote)%N then SkSkip (negb q) f
  else if (c =? ch_lbr)%N then SkSkip q FComment
  else if (c =? ch_rbr)%N then SkSkip q FName
  else if (c =? ch_lpar)%N then SkOpen
  else if (c =? ch_colon)%N then SkSkip q FLength
  else if (c =? ch_comma)%N then SkSkip q FName
  else if (c =? ch_rpar)%N then SkClose
  else if (c =? ch_semi)%N then SkSemi
  else SkSkip q f.

Fixpoint skel (q : bool) (f : field) (s : str) : list N :=
  match s with
  | [] => []
  | c :: r =>
      match sk_step q f c with
      | SkSkip q' f' => skel q' f' r
      | SkOpen => ch_lpar :: skel q f r
      | SkClose => ch_rpar :: skel q FName r
      | SkSemi => [ch_semi]
      end
  end.
Definition skeleton (s : str) : list N := skel false FName s.

(* depth never negative, zero at the ';', and the ';' is the last kept character *)
Fixpoint balanced_from (d : nat) (l : list N) : bool :=
  match l with
  | [] => false
  | c :: l' =>
      if (c =? ch_lpar)%N then balanced_from (S d) l'
      else if (c =? ch_rpar)%N then match d with 0 => false | S d' => balanced_from d' l' end
      else if (c =? ch_semi)%N then Nat.eqb d 0 && match l' with [] => true | _ => false end
      else false
  end.
Definition balanced (l : list N) : bool := balanced_from 0 l.

Lemma balanced_from_semi d l : balanced_from d l = true -> In ch_semi l.
Proof.
  revert d; induction l as [|c l IH]; simpl; intros d H; [discriminate|].
  destruct (c =? ch_lpar)%N; [right; eapply IH; eassumption|].
  destruct (c =? ch_rpar)%N; [destruct d; [discriminate|right; eapply IH; eassumption]|].
  destruct (c =? ch_semi)%N eqn:E; [|discriminate]. left. apply N.eqb_eq; auto.
Qed.

Lemma balanced_from_count d l :
  balanced_from d l = true ->
  d + count_occ N.eq_dec l ch_lpar = count_occ N.eq_dec l ch_rpar.
Proof.
  revert d; induction l as [|c l IH]; intros d H; [discriminate|].
  cbn [balanced_from] in H. cbn [count_occ].
  destruct (N.eqb_spec c ch_lpar) as [->|Hl].
  - apply IH in H. destruct (N.eq_dec ch_lpar ch_lpar); [|congruence].
    destruct (N.eq_dec ch_lpar ch_rpar); [discriminate|]. lia.
  - destruct (N.eqb_spec c ch_rpar) as [->|Hr].
    + destruct d; [discriminate|]. apply IH in H.
      destruct (N.eq_dec ch_rpar ch_lpar); [discriminate|].
      destruct (N.eq_dec ch_rpar ch_rpar); [|congruence]. lia.
    + destruct (N.eqb_spec c ch_semi) as [->|Hs]; [|discriminate].
      destruct l; [|rewrite andb_false_r in H; discriminate].
      destruct (Nat.eqb_spec d 0); [|discriminate]. subst. reflexivity.
Qed.

Lemma In_skel c : forall s q f, In c (skel q f s) -> In c s.
Proof.
  induction s as [|a s IH]; simpl; intros q f H; auto.
  unfold sk_step in H.
  repeat match type of H with
         | In _ (match (if ?b then _ else _) with _ => _ end) => destruct b eqn:?
         end;
  simpl in H; try (right; eapply IH; eassumption);
  repeat match goal with E : (a =? _)%N = true |- _ => apply N.eqb_eq in E end;
  try (destruct H as [H|H]; [left; congruence|]); try (right; eapply IH; eassumption);
  try contradiction.
Qed.

Section Reject.
Context {L : Type}.
Variable parse_len : str -> option L.
Notation pstate := (@pstate L).

(* one step of the parser against one step of the scanner *)
Definition step_agrees (s : pstate) (c : N) : Prop :=
  match sk_step (p_quotes s) (p_field s) c with
  | SkSkip q' f' =>
      (forall t, pstep parse_len s c <> Done (Ok t)) /\
      (forall s', pstep parse_len s c = Running s' ->
                  p_quotes s' = q' /\ p_field s' = f' /\ p_open s' = p_open s)
  | SkOpen =>
      (forall t, pstep parse_len s c <> Done (Ok t)) /\
      (forall s', pstep parse_len s c = Running s' ->
                  p_quotes s' = p_quotes s /\ p_field s' = p_field s /\ p_open s' = S (p_open s))
  | SkClose =>
      (forall t, pstep parse_len s c <> Done (Ok t)) /\
      (forall s', pstep parse_len s c = Running s' ->
                  p_quotes s' = p_quotes s /\ p_field s' = FName /\ p_open s = S (p_open s'))
  | SkSemi =>
      (forall s', pstep parse_len s c <> Running s') /\
      (forall t, pstep parse_len s c = Done (Ok t) -> p_open s = 0)
  end.

Ltac sk_if :=
  match goal with
  | |- match (if ?b then _ else _) with _ => _ end => destruct b eqn:?; cbv beta iota
  end.
Ltac skip_running :=
  split; [intros ? ?; discriminate
         |let H := fresh in intros ? H; inversion H; subst; simpl; auto].

Lemma pstep_agrees s c : PInv s -> step_agrees s c.
Proof.
  intros HP. unfold step_agrees, pstep, sk_step.
  sk_if; [skip_running|].
  sk_if; [skip_running|].
  sk_if; [skip_running|].
  sk_if; [skip_running|].
  sk_if; [skip_running|].
  sk_if; [skip_running|].
  sk_if.
  { destruct (p_stack s) as [|parent rest].
    - destruct (p_tree s); [skip_running|split; intros; discriminate].
    - destruct (add_child (p_tree s) (new_node None None) parent None) as [[t0 id]| | |]; simpl;
        [skip_running|split; intros; discriminate..]. }
  sk_if; [skip_running|].
  sk_if.
  { destruct (commit_PI parse_len s (fun t => Running (mkP t FName None None None None (p_stack s) (p_open s) (p_quotes s))) HP)
      as [Hf|[t' [HP' Heq]]].
    - split; intros ? H; rewrite H in Hf; destruct Hf.
    - rewrite Heq. skip_running. }
  sk_if.
  { set (s1 := mkP (p_tree s) (p_field s) (p_name s) (p_len s) (p_comment s) (p_index s) (p_stack s) (p_open s - 1) (p_quotes s)).
    destruct (@commit_PI _ parse_len s1 (fun t =>
      match p_stack s with
      | parent :: rest => Running (mkP t FName None None None (Some parent) rest (p_open s - 1) (p_quotes s))
      | [] => Done (Err NoSubtreeParent)
      end) (p_open s) HP) as [Hf|[t' [HP' Heq]]].
    - split; intros ? H; rewrite H in Hf; destruct Hf.
    - rewrite Heq. destruct HP as [_ [Ho _]].
      destruct (p_stack s) as [|parent rest]; [split; intros; discriminate|].
      split; [intros ? ?; discriminate|].
      intros s' H; inversion H; subst; simpl. repeat split; auto. simpl in Ho. lia. }
  sk_if.
  { destruct (negb (p_open s =? 0)) eqn:Hop.
    - split; intros; discriminate.
    - assert (Hop' : p_open s = 0) by (destruct (Nat.eqb_spec (p_open s) 0); auto; discriminate).
      split; [|auto]. intros s'.
      destruct (p_index s).
      + unfold lift_run. destruct (get (p_tree s) n); try discriminate.
        destruct (match p_len s with Some ls => _ | None => _ end); [|discriminate].
        destruct (finish _); discriminate.
      + destruct (p_tree s); [|discriminate]. simpl.
        destruct (match p_len s with Some ls => _ | None => _ end); [|discriminate].
        destruct (finish _); discriminate. }
  destruct (p_field s); [skip_running| |split; intros; discriminate].
  destruct (is_ws c); [split; intros; discriminate|skip_running].
Qed.

Lemma prun_balanced s input t :
  PInv s -> prun parse_len s input = Ok t ->
  balanced_from (p_open s) (skel (p_quotes s) (p_field s) input) = true.
Proof.
  revert s; induction input as [|c rest IH]; intros s HP; simpl; [discriminate|].
  pose proof (pstep_agrees c HP) as Hag. unfold step_agrees in Hag.
  destruct (pstep parse_len s c) as [s'|r] eqn:Hs.
  - intros Hrun. assert (HP' : PInv s') by (eapply pstep_PInv; eauto). specialize (IH _ HP' Hrun).
    destruct (sk_step (p_quotes s) (p_field s) c) as [q' f'| | |].
    + destruct Hag as [_ Hr]. destruct (Hr _ eq_refl) as [<- [<- <-]]. exact IH.
    + destruct Hag as [_ Hr]. destruct (Hr _ eq_refl) as [E1 [E2 E3]].
      rewrite E1, E2, E3 in IH. exact IH.
    + destruct Hag as [_ Hr]. destruct (Hr _ eq_refl) as [E1 [E2 E3]].
      rewrite E1, E2 in IH. rewrite E3. exact IH.
    + destruct Hag as [Hr _]. exfalso. eapply Hr; eauto.
  - intros ->.
    destruct (sk_step (p_quotes s) (p_field s) c) as [q' f'| | |].
    + destruct Hag as [Hr _]. exfalso. eapply Hr; eauto.
    + destruct Hag as [Hr _]. exfalso. eapply Hr; eauto.
    + destruct Hag as [Hr _]. exfalso. eapply Hr; eauto.
    + destruct Hag as [_ Hr]. rewrite (Hr _ eq_refl). reflexivity.
Qed.

End Reject.

(* ================================================================================================ *)
(* Part 7: the theorems of C02, for an arbitrary [parse_len]                                         *)
(* ================================================================================================ *)
Section Main.
Variable L : Type.
Variable parse_len : str -> option L.
Variable s : str.
Variable t : @arena L.
Hypothesis Hparse : from_newick parse_len s = Ok t.

(* (3) well-formedness *)
Theorem parse_parsed_tree : ParsedTree t.
Proof. eapply parse_tree; eauto. Qed.

Theorem parse_wf :
  WF t /\ t <> [] /\ (forall i n, nth_error t i = Some n -> ndeleted n = false).
Proof.
  pose proof parse_parsed_tree as H. split; [apply ParsedTree_WF; auto|].
  split; [apply H|]. apply PT_no_tombstone; auto.
Qed.

(* the rose tree is rooted at slot 0 and its preorder is the arena order *)
Theorem parse_preorder : exists r, Rep t None 0 0 r /\ ids r = seq 0 (length t).
Proof. apply parse_parsed_tree. Qed.

Theorem parse_no_tombstone : forall i n, nth_error t i = Some n -> ndeleted n = false.
Proof. apply PT_no_tombstone, parse_parsed_tree. Qed.

Theorem parse_ids : forall i n, nth_error t i = Some n -> nid n = i.
Proof. apply PT_ids, parse_parsed_tree. Qed.

Theorem parse_single_root : forall i n, nth_error t i = Some n ->
  (nparent n = None <-> i = 0) /\
  (forall p, nparent n = Some p -> p < i /\ exists np, nth_error t p = Some np).
Proof. apply PT_single_root, parse_parsed_tree. Qed.

Theorem parse_parent_child_consistent : forall p c np nc,
  nth_error t p = Some np -> nth_error t c = Some nc ->
  (In c (nchildren np) <-> nparent nc = Some p).
Proof. apply PT_parent_child_consistent, parse_parsed_tree. Qed.

Theorem parse_children_in_range : forall p np c,
  nth_error t p = Some np -> In c (nchildren np) -> p < c /\ c < length t.
Proof. apply PT_children_in_range, parse_parsed_tree. Qed.

Theorem parse_depth_exact : forall i n, nth_error t i = Some n ->
  match nparent n with
  | None => ndepth n = 0
  | Some p => exists np, nth_error t p = Some np /\ ndepth n = S (ndepth np)
  end.
Proof. apply PT_depth_exact, parse_parsed_tree. Qed.

(* (2) rejections *)
Theorem parse_balanced : balanced (skeleton s) = true.
Proof. exact (@prun_balanced L parse_len p_init s t (PInv_init (L:=L)) Hparse). Qed.

Theorem parse_semicolon_delim : In ch_semi (skeleton s).
Proof. eapply balanced_from_semi. apply parse_balanced. Qed.

Theorem parse_needs_semicolon : In 59%N s.
Proof. eapply In_skel. apply parse_semicolon_delim. Qed.

Theorem parse_paren_count :
  count_occ N.eq_dec (skeleton s) ch_lpar = count_occ N.eq_dec (skeleton s) ch_rpar.
Proof. apply (balanced_from_count 0). apply parse_balanced. Qed.

End Main.

(* the run returns Ok only from a state whose open-delimiter count is 0 *)
Theorem parse_ok_open_zero : forall (L : Type) (parse_len : str -> option L) (st : @pstate L) c t,
  PInv st -> pstep parse_len st c = Done (Ok t) -> c = ch_semi /\ p_open st = 0.
Proof. intros. eapply pstep_done_ok; eauto. Qed.

(* sanity: the hypotheses are satisfiable and the scanner behaves as intended *)
Example ex_parse_ok :
  match from_newick (fun _ => @None nat) [40;65;44;40;66;44;67;41;68;41;69;59]%N with
  | Ok t => length t = 5
  | _ => False
  end.
Proof. vm_compute. reflexivity. Qed.
Example ex_skeleton :
  skeleton [40;34;40;34;44;91;41;93;40;66;41;41;59;40]%N = [40;40;41;41;59]%N.
Proof. vm_compute. reflexivity. Qed.
Example ex_unbalanced : balanced (skeleton [40;65;44;66;59]%N) = false.
Proof. vm_compute. reflexivity. Qed.

Print Assumptions parse_total.
Print Assumptions parse_wf.
Print Assumptions parse_parsed_tree.
Print Assumptions parse_preorder.
Print Assumptions parse_no_tombstone.
Print Assumptions parse_ids.
Print Assumptions parse_single_root.
Print Assumptions parse_parent_child_consistent.
Print Assumptions parse_children_in_range.
Print Assumptions parse_depth_exact.
Print Assumptions parse_balanced.
Print Assumptions parse_semicolon_delim.
Print Assumptions parse_needs_semicolon.
Print Assumptions parse_paren_count.
Print Assumptions parse_ok_open_zero.
