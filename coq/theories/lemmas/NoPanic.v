(* NoPanic.v — C20: every fallible library operation applied to a constructible but unsuitable tree or
   matrix returns an error value or a valid answer; it never panics and never fails to terminate.

   "Constructible" = the reachable-state invariant [Inv] of Invariants.v (any names — unnamed, duplicated —,
   any mixture of branch lengths, any shape including the single node and the arena without live node);
   arguments (node ids, bit lists, names, texts, choices, formats) are arbitrary.  Most theorems need less
   than Inv (WF or WFS, sometimes nothing); section 7 restates everything under Inv.

   [safe o]  : o is [Ok _] or [Err _]   (not [Panic _], not [OutOfFuel]).
   [sp P o]  : safe, and P holds of the value when o = Ok _.

   ------------------------------------------------------------------------------------------------
   function                                       theorem
   ------------------------------------------------------------------------------------------------
   1. arena queries
   preorder / postorder / inorder / levelorder    preorder_safe postorder_safe inorder_safe levelorder_safe
   get_subtree / get_descendants                  get_subtree_safe get_descendants_safe
   get_subtree_leaves                             get_subtree_leaves_safe
   get_path_from_root                             path_safe
   get_common_ancestor                            lca_safe
   get_distance                                   dist_safe
   get_root / is_rooted / is_binary               get_root_safe is_rooted_safe is_binary_safe
   cherries / colless / sackin                    cherries_safe colless_safe sackin_safe
   height / diameter / length_                    height_safe diameter_safe length_safe
   get_leaf_names / has_unique_tip_names          get_leaf_names_safe has_unique_tip_names_safe
   2. trees with caches (fresh [tree_of t], and every cache state [CS] reachable through the queries)
   init_leaf_index                                init_leaf_index_safe init_any_sp
   get_partition                                  get_partition_safe get_partition_any_sp
   get_partitions                                 get_partitions_safe get_partitions_any_sp
   get_partitions_with_lengths                    get_partitions_with_lengths_safe .._any_sp
   partition_to_leaves (any bit list)             partition_to_leaves_safe partition_to_leaves_any_sp
   robinson_foulds / robinson_foulds_norm         robinson_foulds_safe robinson_foulds_norm_safe .._any_sp
   weighted_rf (both variants)                    weighted_rf_safe weighted_rf_any_sp
   compare_topologies                             compare_topologies_safe compare_topologies_any_sp
   compare_branch_lengths (tips or not)           compare_branch_lengths_safe compare_branch_lengths_any_sp
   closure of the cache states                    cached_queries_closed cached_comparisons_closed
   3. matrices of a tree, writers, layout
   distance_matrix                                distance_matrix_safe
   distance_matrix_recursive                      distance_matrix_recursive_safe .._any_sp
   to_formatted_newick (9 formats) / to_newick    to_formatted_newick_safe to_newick_safe
   to_nexus                                       to_nexus_safe
   radial_layout                                  radial_layout_safe
   4. matrices as values (sizes 0, 1, 2, ...)
   taxa_index / dm_get / dm_set / dm_to_map       taxa_index_safe dm_get_safe dm_set_safe dm_to_map_safe
   to_phylip (square or triangular)               to_phylip_safe
   from_phylip_tril / from_phylip_strict          from_phylip_tril_safe from_phylip_strict_safe
   upgma                                          upgma_safe upgma_too_small
   5. mutators (outcome component)
   add_child                                      add_child_safe
   prune                                          prune_safe
   compress                                       compress_safe (compress_node_safe)
   resolve (any choices)                          resolve_safe (resolve_node_safe)
   ladderize / reset_depths                       ladderize_safe reset_depths_safe
   merge_children                                 merge_children_safe
   6. constructors
   from_newick (any text)                         from_newick_safe
   generate_tree / _yule / _caterpillar           generators_safe
   7. summary under Inv                           C20_queries C20_comparisons C20_cached C20_mutators
                                                  C20_matrix C20_readers C20_upgma C20_reachable
   ------------------------------------------------------------------------------------------------
   The list of what is NOT covered is at the end of the file. *)
From Coq Require Import List Arith NArith Lia Bool Permutation Sorted.
From PT Require Import Arena Spec Queries Newick Matrix Gen RepLib WFOps Stats Paths Invariants.
From PT Require Traversals Splits RF DistMatrix Tril PhylipProps UpgmaProps Generators LayoutProps Effects.
Import ListNotations.

(* ================================================================================================ *)
(* 0. outcomes                                                                                        *)
(* ================================================================================================ *)
Definition safe {A} (o : outcome A) : Prop :=
  match o with Panic _ | OutOfFuel => False | _ => True end.

(* safe, with a postcondition on the value *)
Definition sp {A} (P : A -> Prop) (o : outcome A) : Prop :=
  match o with Ok a => P a | Err _ => True | _ => False end.

Lemma sp_safe {A} (P : A -> Prop) o : sp P o -> safe o.
Proof. destruct o; simpl; auto. Qed.

Lemma safe_sp {A} (o : outcome A) : safe o -> sp (fun _ => True) o.
Proof. destruct o; simpl; auto. Qed.

Lemma sp_eq {A} (o : outcome A) : safe o -> sp (fun a => o = Ok a) o.
Proof. destruct o; simpl; auto. Qed.

Lemma sp_mono {A} (P Q : A -> Prop) o : sp P o -> (forall a, P a -> Q a) -> sp Q o.
Proof. destruct o; simpl; auto. Qed.

Lemma sp_conj {A} (P Q : A -> Prop) o : sp P o -> sp Q o -> sp (fun a => P a /\ Q a) o.
Proof. destruct o; simpl; auto. Qed.

Lemma sp_bind {A B} (Q : A -> Prop) (P : B -> Prop) (o : outcome A) (f : A -> outcome B) :
  sp Q o -> (forall a, Q a -> sp P (f a)) -> sp P (bind o f).
Proof. destruct o; simpl; auto. Qed.

Lemma safe_bind {A B} (o : outcome A) (f : A -> outcome B) :
  safe o -> (forall a, o = Ok a -> safe (f a)) -> safe (bind o f).
Proof. destruct o; simpl; auto. Qed.

Lemma safe_bind_sp {A B} (Q : A -> Prop) (o : outcome A) (f : A -> outcome B) :
  sp Q o -> (forall a, Q a -> safe (f a)) -> safe (bind o f).
Proof. destruct o; simpl; auto. Qed.

Lemma sp_elim {A} (P : A -> Prop) o a : sp P o -> o = Ok a -> P a.
Proof. intros H ->. exact H. Qed.

Lemma safe_mapM {A B} (g : A -> outcome B) l : (forall x, In x l -> safe (g x)) -> safe (mapM g l).
Proof.
  induction l as [|x l IH]; intros H; simpl; auto.
  apply safe_bind; [apply H; simpl; auto|]. intros r _.
  apply safe_bind; [apply IH; intros; apply H; simpl; auto|]. intros; exact I.
Qed.

Lemma sp_mapM {A B} (Q : B -> Prop) (g : A -> outcome B) l :
  (forall x, In x l -> sp Q (g x)) -> sp (Forall Q) (mapM g l).
Proof.
  induction l as [|x l IH]; intros H; simpl; auto.
  eapply sp_bind; [apply H; simpl; auto|]. intros r Hr.
  eapply sp_bind; [apply IH; intros; apply H; simpl; auto|]. intros rs Hrs. simpl. constructor; auto.
Qed.

Lemma safe_concat_mapM {A B} (g : A -> outcome (list B)) l :
  (forall x, In x l -> safe (g x)) -> safe (concat_mapM g l).
Proof.
  induction l as [|x l IH]; intros H; simpl; auto.
  apply safe_bind; [apply H; simpl; auto|]. intros r _.
  apply safe_bind; [apply IH; intros; apply H; simpl; auto|]. intros; exact I.
Qed.

Lemma sp_foldM {A S} (I : S -> Prop) (g : S -> A -> outcome S) l :
  (forall s x, I s -> In x l -> sp I (g s x)) -> forall s, I s -> sp I (foldM g l s).
Proof.
  induction l as [|x l IH]; intros H s Hs; simpl; auto.
  eapply sp_bind; [apply H; simpl; auto|]. intros s' Hs'. apply IH; auto. intros; apply H; simpl; auto.
Qed.

Lemma safe_foldM {A S} (g : S -> A -> outcome S) l :
  (forall s x, In x l -> safe (g s x)) -> forall s, safe (foldM g l s).
Proof.
  intros H s. eapply sp_safe. apply (sp_foldM (fun _ => True)); auto.
  intros s' x _ Hx. apply safe_sp; auto.
Qed.

Lemma filter_none {A} (p : A -> bool) l : (forall x, In x l -> p x = false) -> filter p l = [].
Proof.
  induction l as [|x l IH]; intros H; simpl; auto. rewrite (H x) by (simpl; auto). apply IH.
  intros; apply H; simpl; auto.
Qed.

(* ================================================================================================ *)
(* 1. arena queries                                                                                   *)
(* ================================================================================================ *)
Section ArenaQueries.
Context {L : Type}.
Notation arena := (@arena L).
Notation node := (@node L).
Implicit Types (t : arena).

Definition NoLive t : Prop := forall i, ~ live t i.
Definition TreeOf t (root : nat) (r : rtree) : Prop :=
  Rep t None 0 root r /\ NoDup (ids r) /\ (forall i, live t i -> In i (ids r)).

Lemma WF_cases t : WF t -> NoLive t \/ exists root r, TreeOf t root r.
Proof. intros [H|(root & r & H)]; [left|right]; eauto. Qed.

Lemma live_or_dead t i : live t i \/ dead t i.
Proof.
  unfold live, dead. destruct (nth_error t i) as [n|] eqn:E.
  - destruct (ndeleted n) eqn:D; [right|left; eauto]. intros n' [= <-]. exact D.
  - right. intros n' H. discriminate.
Qed.

Lemma dead_get t i : dead t i -> get t i = Err NodeNotFound.
Proof. apply Traversals.get_dead. Qed.

Lemma nolive_dead t i : NoLive t -> dead t i.
Proof. intros Hno. destruct (live_or_dead t i) as [H|H]; auto. exfalso. eapply Hno; eauto. Qed.

Lemma get_safe t i : safe (get t i).
Proof. unfold get. destruct (nth_error t i) as [n|]; [destruct (ndeleted n)|]; exact I. Qed.

Lemma upd_safe t i f : safe (upd t i f).
Proof. unfold upd. apply safe_bind; [apply get_safe|]. intros; exact I. Qed.

Lemma tree_sub t root r i :
  TreeOf t root r -> live t i -> exists p d s, Rep t p d i s /\ NoDup (ids s) /\ incl (ids s) (ids r).
Proof. intros (HR & HN & HL) Hl. eapply Rep_sub_nd; eauto. Qed.

(* a start node is either dead (every traversal answers NodeNotFound) or the root of a subtree *)
Lemma start_cases t i : WF t -> dead t i \/ exists p d s, Rep t p d i s /\ NoDup (ids s).
Proof.
  intros Hwf. destruct (live_or_dead t i) as [Hl|Hd]; auto. right.
  destruct (WF_cases t Hwf) as [Hno|(root & r & HT)]; [exfalso; eapply Hno; eauto|].
  destruct (tree_sub _ _ _ _ HT Hl) as (p & d & s & H1 & H2 & _). eauto.
Qed.

(* ---- traversals and listings --------------------------------------------------------------------------- *)
Theorem preorder_safe t i : WF t -> safe (preorder t i).
Proof.
  intros Hwf. destruct (start_cases t i Hwf) as [Hd|(p & d & s & HR & HN)].
  - destruct (Traversals.traversal_dead_start t i Hd) as (-> & _). exact I.
  - rewrite (Traversals.preorder_refines _ _ _ _ _ HR HN). exact I.
Qed.

Theorem postorder_safe t i : WF t -> safe (postorder t i).
Proof.
  intros Hwf. destruct (start_cases t i Hwf) as [Hd|(p & d & s & HR & HN)].
  - destruct (Traversals.traversal_dead_start t i Hd) as (_ & -> & _). exact I.
  - rewrite (Traversals.postorder_refines _ _ _ _ _ HR HN). exact I.
Qed.

Theorem inorder_safe t i : WF t -> safe (inorder t i).
Proof.
  intros Hwf. destruct (start_cases t i Hwf) as [Hd|(p & d & s & HR & HN)].
  - destruct (Traversals.traversal_dead_start t i Hd) as (_ & _ & -> & _). exact I.
  - destruct (Nat.le_gt_cases (max_arity s) 2) as [Ha|Ha].
    + rewrite (Traversals.inorder_refines_binary _ _ _ _ _ HR HN Ha). exact I.
    + rewrite (Traversals.inorder_refuses _ _ _ _ _ HR HN Ha). exact I.
Qed.

Theorem levelorder_safe t i : WF t -> safe (levelorder t i).
Proof.
  intros Hwf. destruct (start_cases t i Hwf) as [Hd|(p & d & s & HR & HN)].
  - destruct (Traversals.traversal_dead_start t i Hd) as (_ & _ & _ & ->). exact I.
  - rewrite (Traversals.levelorder_refines _ _ _ _ _ HR HN). exact I.
Qed.

Theorem get_subtree_safe t i : WF t -> safe (get_subtree t i).
Proof. apply preorder_safe. Qed.

Theorem get_descendants_safe t i : WF t -> safe (get_descendants t i).
Proof.
  intros Hwf. destruct (start_cases t i Hwf) as [Hd|(p & d & s & HR & HN)].
  - unfold get_descendants. rewrite (dead_get _ _ Hd). exact I.
  - rewrite (Traversals.get_descendants_refines _ _ _ _ _ HR HN). exact I.
Qed.

Theorem get_subtree_leaves_safe t i : WF t -> safe (get_subtree_leaves t i).
Proof.
  intros Hwf. unfold get_subtree_leaves. apply safe_bind; [apply get_subtree_safe; auto|]. intros; exact I.
Qed.

(* ---- paths, common ancestor, distance ---------------------------------------------------------------- *)
Theorem path_safe t i : WF t -> safe (get_path_from_root t i).
Proof.
  intros Hwf. destruct (live_or_dead t i) as [Hl|Hd].
  - destruct (WF_cases t Hwf) as [Hno|(root & r & HR & HN & HL)]; [exfalso; eapply Hno; eauto|].
    destruct (path_refines t root r i HR HN (HL _ Hl)) as (p & -> & _). exact I.
  - rewrite (path_dead t i Hd). exact I.
Qed.

Theorem lca_safe t a b : WF t -> safe (get_common_ancestor t a b).
Proof.
  intros Hwf. destruct (Nat.eq_dec a b) as [->|Hne]; [rewrite lca_self; exact I|].
  destruct (live_or_dead t a) as [Hla|Hda]; [|rewrite (lca_dead_l t a b Hne Hda); exact I].
  destruct (WF_cases t Hwf) as [Hno|(root & r & HR & HN & HL)]; [exfalso; eapply Hno; eauto|].
  destruct (live_or_dead t b) as [Hlb|Hdb].
  - destruct (lca_refines t root r a b HR HN (HL _ Hla) (HL _ Hlb)) as (c & -> & _). exact I.
  - rewrite (lca_dead_r t root r a b HR HN (HL _ Hla) Hne Hdb). exact I.
Qed.

Theorem dist_safe (O : LenOps L) t a b : WF t -> safe (get_distance O t a b).
Proof.
  intros Hwf. destruct (Nat.eq_dec a b) as [->|Hne]; [rewrite dist_self; exact I|].
  destruct (live_or_dead t a) as [Hla|Hda]; [|rewrite (dist_dead_l O t a b Hne Hda); exact I].
  destruct (WF_cases t Hwf) as [Hno|(root & r & HR & HN & HL)]; [exfalso; eapply Hno; eauto|].
  destruct (live_or_dead t b) as [Hlb|Hdb].
  - destruct (dist_refines O t root r a b HR HN (HL _ Hla) (HL _ Hlb)) as (pa & pb & _ & _ & H).
    cbv zeta in H. rewrite H. exact I.
  - rewrite (dist_dead_r O t root r a b HR HN (HL _ Hla) Hne Hdb). exact I.
Qed.

(* ---- root, shape predicates, balance indices ------------------------------------------------------------ *)
Theorem get_root_safe t : safe (get_root t).
Proof. unfold get_root. destruct (filter _ t); exact I. Qed.

Theorem is_rooted_safe t : safe (is_rooted t).
Proof.
  unfold is_rooted. apply safe_bind; [apply get_root_safe|]. intros r _.
  destruct t; [exact I|]. apply safe_bind; [apply get_safe|]. intros; exact I.
Qed.

Lemma is_binary_loop_safe t ns : safe (is_binary_loop t ns).
Proof.
  induction ns as [|n ns IH]; simpl; [exact I|].
  destruct (nparent n).
  - destruct (Nat.ltb 2 _); auto. exact I.
  - apply safe_bind; [apply is_rooted_safe|]. intros r _.
    destruct (r && _); [exact I|]. destruct (negb r && _); [exact I|]. exact IH.
Qed.

Theorem is_binary_safe t : safe (is_binary t).
Proof. apply is_binary_loop_safe. Qed.

Lemma cherries_loop_safe t ns : forall acc, safe (cherries_loop t ns acc).
Proof.
  induction ns as [|n ns IH]; intros acc; simpl; [exact I|].
  destruct (nchildren n) as [|a [|b [|? ?]]]; auto.
  apply safe_bind; [apply get_safe|]. intros na _. destruct (is_tip na); auto.
  apply safe_bind; [apply get_safe|]. intros nb _. destruct (is_tip nb); auto.
Qed.

Theorem cherries_safe t : safe (cherries t).
Proof.
  unfold cherries. apply safe_bind; [apply is_binary_safe|]. intros b _.
  destruct (negb b); [exact I|]. destruct t; [exact I|]. apply cherries_loop_safe.
Qed.

Lemma check_rooted_binary_safe t : safe (check_rooted_binary t).
Proof.
  unfold check_rooted_binary. apply safe_bind; [apply is_rooted_safe|]. intros r _.
  destruct (negb r); [exact I|]. apply safe_bind; [apply is_binary_safe|]. intros b _.
  destruct (negb b); exact I.
Qed.

Lemma colless_loop_safe t ns : WF t -> forall acc, safe (colless_loop t ns acc).
Proof.
  intros Hwf. induction ns as [|n ns IH]; intros acc; simpl; [exact I|].
  destruct (nchildren n) as [|a more]; auto.
  apply safe_bind; [apply get_subtree_leaves_safe; auto|]. intros l _.
  apply safe_bind; [|intros; apply IH].
  destruct more as [|b ?]; [exact I|].
  apply safe_bind; [apply get_subtree_leaves_safe; auto|]. intros; exact I.
Qed.

Theorem colless_safe t : WF t -> safe (colless t).
Proof.
  intros Hwf. unfold colless. apply safe_bind; [apply check_rooted_binary_safe|]. intros _ _.
  apply colless_loop_safe; auto.
Qed.

(* the ids listed by get_leaves are live slots (the [Panic 1] / [Panic 2] / [Panic 14] sites) *)
Lemma leaves_live t i : WF t -> In i (get_leaves t) -> exists n, get t i = Ok n.
Proof.
  intros Hwf Hi. destruct (WF_cases t Hwf) as [Hno|(root & r & HR & HN & HL)].
  - destruct (empty_leaves t Hno) as [E _]. rewrite E in Hi. destruct Hi.
  - eexists. eapply ids_get; eauto. eapply leaves_in_ids; eauto.
Qed.

Theorem sackin_safe t : WF t -> safe (sackin t).
Proof.
  intros Hwf. unfold sackin. apply safe_bind; [apply check_rooted_binary_safe|]. intros _ _.
  apply safe_bind; [|intros; exact I]. apply safe_mapM. intros i Hi.
  destruct (leaves_live t i Hwf Hi) as (n & ->). exact I.
Qed.

Theorem height_safe (O : LenOps L) t : WF t -> safe (height O t).
Proof.
  intros Hwf. destruct (WF_cases t Hwf) as [Hno|(root & r & HR & HN & HL)].
  - destruct (empty_indices t O Hno) as (_ & _ & -> & _). exact I.
  - destruct (Nat.eq_dec (length (Spec.rch r)) 2) as [H2|H2].
    + rewrite (height_refines t root r HR HN HL O H2). destruct (lmax_list _ _); exact I.
    + rewrite (height_refuses t root r HR HN HL O H2). exact I.
Qed.

Theorem diameter_safe (O : LenOps L) t : WF t -> safe (diameter O t).
Proof.
  intros Hwf. destruct (WF_cases t Hwf) as [Hno|(root & r & HR & HN & HL)].
  - destruct (empty_indices t O Hno) as (_ & _ & _ & ->). exact I.
  - rewrite (diameter_refines t root r HR HN HL O). destruct (lmax_list _ _); exact I.
Qed.

Theorem length_safe (O : LenOps L) t : safe (length_ O t).
Proof. unfold length_. destruct (forallb _ _); exact I. Qed.

(* ---- leaf names --------------------------------------------------------------------------------------------- *)
Lemma get_leaf_names_ok t : WF t -> exists ns, get_leaf_names t = Ok ns /\ length ns = length (get_leaves t).
Proof.
  intros Hwf. destruct (WF_cases t Hwf) as [Hno|(root & r & HR & HN & HL)].
  - destruct (empty_leaves t Hno) as [E _]. unfold get_leaf_names. rewrite E. exists []. auto.
  - rewrite (Splits.rep_get_leaf_names t root r HR HL). eexists. split; eauto. apply map_length.
Qed.

Theorem get_leaf_names_safe t : WF t -> safe (get_leaf_names t).
Proof. intros Hwf. destruct (get_leaf_names_ok t Hwf) as (ns & -> & _). exact I. Qed.

Theorem has_unique_tip_names_safe t : WF t -> safe (has_unique_tip_names t).
Proof.
  intros Hwf. unfold has_unique_tip_names. apply safe_bind; [apply get_leaf_names_safe; auto|].
  intros ns _. destruct (existsb _ ns); exact I.
Qed.

End ArenaQueries.

(* ================================================================================================ *)
(* 2. trees with caches: leaf index, bipartitions, comparisons                                        *)
(*                                                                                                    *)
(*   init_leaf_index (any caches)                 init_leaf_index_safe                                *)
(*   get_partition (any id)                       get_partition_safe                                  *)
(*   get_partitions / _with_lengths               get_partitions_safe get_partitions_with_lengths_safe*)
(*   partition_to_leaves (any bit list)           partition_to_leaves_safe                            *)
(*   robinson_foulds / _norm                      robinson_foulds_safe robinson_foulds_norm_safe      *)
(*   weighted_rf (both variants)                  weighted_rf_safe                                    *)
(*   compare_topologies                           compare_topologies_safe                             *)
(*   compare_branch_lengths (tips or not)         compare_branch_lengths_safe                         *)
(* ================================================================================================ *)
Section TreeQueries.
Context {L : Type}.
Variable O : LenOps L.
Notation arena := (@arena L).
Notation node := (@node L).
Notation tree := (@tree L).
Implicit Types (t : arena).

Theorem init_leaf_index_safe (tc : tree) : WF (nodes tc) -> safe (init_leaf_index tc).
Proof.
  intros Hwf. unfold init_leaf_index. destruct (nodes tc) as [|x a] eqn:E; [exact I|]. rewrite <- E in Hwf |- *.
  destruct (leaf_index tc); [exact I|].
  apply safe_bind; [apply get_leaf_names_safe; auto|]. intros ns _.
  destruct (negb _); [exact I|].
  apply safe_bind; [apply has_unique_tip_names_safe; auto|]. intros u _. destruct (negb u); exact I.
Qed.

(* the index is computed once *)
Lemma init_idem (tc t1 : tree) : init_leaf_index tc = Ok t1 -> init_leaf_index t1 = Ok t1.
Proof.
  unfold init_leaf_index at 1. destruct (nodes tc) as [|x a] eqn:E; [discriminate|]. rewrite <- E.
  assert (Hne : nodes tc <> []) by (rewrite E; discriminate).
  destruct (leaf_index tc) as [li|] eqn:Eli.
  - intros [= <-]. eapply Splits.init_leaf_index_keeps; eauto.
  - destruct (get_leaf_names (nodes tc)); simpl; try discriminate.
    destruct (negb _); [discriminate|].
    destruct (has_unique_tip_names (nodes tc)) as [u| | |]; simpl; try discriminate.
    destruct (negb u); [discriminate|]. intros [= <-].
    eapply Splits.init_leaf_index_keeps; simpl; eauto.
Qed.

Lemma bind_init {B} (tc : tree) (k : tree -> outcome B) :
  bind (init_leaf_index tc) k = bind (init_leaf_index tc) (fun c1 : tree => bind (init_leaf_index c1) k).
Proof. destruct (init_leaf_index tc) as [c1| | |] eqn:E; simpl; auto. rewrite (init_idem _ _ E). reflexivity. Qed.

(* the two kinds of arena on which the leaf index can be built *)
Definition St t (li : list str) : Prop :=
  (exists root r, Splits.Good t root r /\ li = Splits.leaf_idx t) \/ (NoLive t /\ t <> [] /\ li = []).

Lemma St_nonempty t li : St t li -> t <> [].
Proof. intros [(root & r & G & _)|(_ & H & _)]; auto. eapply Splits.t_nonempty; eauto. Qed.

Lemma St_WF t li : St t li -> WF t.
Proof.
  intros [(root & r & G & _)|(H & _)]; [|left; auto].
  right. exists root, r. destruct G; auto.
Qed.

Lemma n_leaves_length t : n_leaves t = length (get_leaves t).
Proof. unfold n_leaves, get_leaves. rewrite map_length. reflexivity. Qed.

Lemma nolive_leaf_names t : NoLive t -> get_leaf_names t = Ok [].
Proof. intros Hno. unfold get_leaf_names. destruct (empty_leaves t Hno) as [-> _]. reflexivity. Qed.

Lemma nolive_unique t : NoLive t -> has_unique_tip_names t = Ok true.
Proof.
  intros Hno. unfold has_unique_tip_names. rewrite (nolive_leaf_names t Hno). simpl.
  destruct (empty_leaves t Hno) as [_ ->]. reflexivity.
Qed.

Lemma init_fresh_sp t pc : WF t ->
  sp (fun tc => exists li, St t li /\ tc = mkTree t (Some li) pc) (init_leaf_index (mkTree t None pc)).
Proof.
  intros Hwf. destruct (match t with [] => true | _ => false end) eqn:Ee.
  { destruct t; [exact I|discriminate]. }
  assert (Hne : t <> []) by (intros ->; discriminate).
  destruct (WF_cases t Hwf) as [Hno|(root & r & HR & HN & HL)].
  - rewrite Splits.init_leaf_index_unfold by exact Hne. cbn [leaf_index nodes partitions].
    rewrite (nolive_leaf_names t Hno), (nolive_unique t Hno). destruct (empty_leaves t Hno) as [_ E2].
    rewrite E2. simpl. exists []. split; auto. right. auto.
  - destruct (has_unique_tip_names t) as [[|]| | |] eqn:Hu.
    + pose proof (Splits.unique_names_Good t root r HR HN HL Hu) as G.
      rewrite (Splits.init_leaf_index_fresh t root r G pc). simpl.
      exists (Splits.leaf_idx t). split; auto. left. eauto.
    + rewrite Splits.init_leaf_index_unfold by exact Hne. cbn [leaf_index nodes partitions].
      rewrite (Splits.rep_get_leaf_names t root r HR HL). cbn [bind].
      destruct (negb _); [exact I|]. rewrite Hu. exact I.
    + rewrite Splits.init_leaf_index_unfold by exact Hne. cbn [leaf_index nodes partitions].
      rewrite (Splits.rep_get_leaf_names t root r HR HL). cbn [bind].
      destruct (negb _); [exact I|]. rewrite Hu. exact I.
    + pose proof (has_unique_tip_names_safe t Hwf) as H. rewrite Hu in H. destruct H.
    + pose proof (has_unique_tip_names_safe t Hwf) as H. rewrite Hu in H. destruct H.
Qed.

Lemma init_cached t li pc : t <> [] -> init_leaf_index (mkTree t (Some li) pc) = Ok (mkTree t (Some li) pc).
Proof. intros Hne. eapply Splits.init_leaf_index_keeps; simpl; eauto. Qed.

(* ---- get_partition ----------------------------------------------------------------------------------------- *)
Lemma get_partition_via_init (tc : tree) idx :
  get_partition tc idx = bind (init_leaf_index tc) (fun c1 : tree => get_partition c1 idx).
Proof. unfold get_partition. apply bind_init. Qed.

Lemma get_partition_dead t li pc idx : t <> [] -> dead t idx ->
  get_partition (mkTree t (Some li) pc) idx = Err NodeNotFound.
Proof.
  intros Hne Hd. unfold get_partition. rewrite init_cached by auto. cbn [bind nodes].
  unfold get_subtree_leaves, get_subtree.
  destruct (Traversals.traversal_dead_start t idx Hd) as (-> & _). reflexivity.
Qed.

Lemma in_ids_subtree r i : In i (ids r) -> exists s, In s (Splits.subtrees r) /\ rid s = i.
Proof.
  unfold ids. rewrite <- Splits.map_rid_subtrees. intros H. apply in_map_iff in H as (s & <- & Hs). eauto.
Qed.

Lemma get_partition_sp t li pc idx : St t li ->
  sp (fun x => snd x = mkTree t (Some li) pc) (get_partition (mkTree t (Some li) pc) idx).
Proof.
  intros HS. pose proof (St_nonempty _ _ HS) as Hne.
  destruct (live_or_dead t idx) as [Hl|Hd]; [|rewrite get_partition_dead; auto; exact I].
  destruct HS as [(root & r & G & ->)|(Hno & _ & _)]; [|exfalso; eapply Hno; eauto].
  destruct (in_ids_subtree r idx (Splits.g_live _ _ _ G _ Hl)) as (s & Hs & <-).
  rewrite (Splits.get_partition_good t root r G pc s Hs). reflexivity.
Qed.

Theorem get_partition_safe t idx : WF t -> safe (get_partition (tree_of t) idx).
Proof.
  intros Hwf. rewrite get_partition_via_init. eapply safe_bind_sp; [apply init_fresh_sp; auto|].
  intros tc (li & HS & ->). eapply sp_safe, get_partition_sp; auto.
Qed.

(* ---- init_partitions, get_partitions ---------------------------------------------------------------------- *)
Lemma nolive_deleted t n : NoLive t -> In n t -> ndeleted n = true.
Proof.
  intros Hno Hin. apply In_nth_error in Hin as (i & Hi). destruct (ndeleted n) eqn:D; auto.
  exfalso. apply (Hno i). exists n. auto.
Qed.

(* the tree value after the partitions cache has been filled *)
Definition St2 t (tc : tree) : Prop :=
  (exists root r, Splits.Good t root r /\ tc = RF.TC O t r) \/
  (NoLive t /\ t <> [] /\ tc = mkTree t (Some []) (Some [])).

Lemma St2_St t tc : St2 t tc -> exists li m, St t li /\ tc = mkTree t (Some li) (Some m).
Proof.
  intros [(root & r & G & ->)|(Hno & Hne & ->)].
  - exists (Splits.leaf_idx t), (RF.pm O t r). split; [left; eauto|reflexivity].
  - exists [], []. split; [right; auto|reflexivity].
Qed.

Lemma St2_shape t tc : St2 t tc -> t <> [] /\ exists li m, tc = mkTree t (Some li) (Some m).
Proof.
  intros H. destruct (St2_St _ _ H) as (li & m & HS & ->). split; [eapply St_nonempty; eauto|eauto].
Qed.

Lemma init_partitions_sp t li : St t li -> sp (St2 t) (init_partitions O (mkTree t (Some li) None)).
Proof.
  intros [(root & r & G & ->)|(Hno & Hne & ->)].
  - change (mkTree t (Some (Splits.leaf_idx t)) None) with (Splits.T1 t).
    rewrite (RF.init_partitions_pm O t root r G). left. eauto.
  - unfold init_partitions. rewrite init_cached by auto. cbn [bind partitions nodes].
    replace (filter _ t) with (@nil node).
    + simpl. right. auto.
    + symmetry. apply filter_none. intros n Hn.
      rewrite (nolive_deleted t n Hno Hn). reflexivity.
Qed.

Lemma init_partitions_St2 t tc : St2 t tc -> init_partitions O tc = Ok tc.
Proof.
  intros H. destruct (St2_shape _ _ H) as (Hne & li & m & ->).
  unfold init_partitions. rewrite init_cached by auto. reflexivity.
Qed.

(* ---- the cache states reachable from a fresh tree through the query API ------------------------------- *)
(* fresh / leaf index filled / leaf index and partitions filled *)
Definition CSi t (tc : tree) : Prop := (exists li, St t li /\ tc = mkTree t (Some li) None) \/ St2 t tc.
Definition CS t (tc : tree) : Prop := tc = tree_of t \/ CSi t tc.

Lemma CS_fresh t : CS t (tree_of t).
Proof. left. reflexivity. Qed.

Lemma St2_CS t tc : St2 t tc -> CS t tc.
Proof. intros H. right. right. exact H. Qed.

Lemma CS_nodes t tc : CS t tc -> nodes tc = t.
Proof.
  intros [->|[(li & _ & ->)|H]]; try reflexivity.
  destruct (St2_shape _ _ H) as (_ & li & m & ->). reflexivity.
Qed.

Lemma init_any_sp t tc : WF t -> CS t tc -> sp (CSi t) (init_leaf_index tc).
Proof.
  intros Hwf [->|[(li & HS & ->)|H2]].
  - eapply sp_mono; [apply (init_fresh_sp t None Hwf)|]. intros tc' (li & HS & ->). left. eauto.
  - rewrite init_cached by (eapply St_nonempty; eauto). left. eauto.
  - destruct (St2_shape _ _ H2) as (Hne & li & m & E). rewrite E. rewrite init_cached by auto.
    simpl. right. rewrite <- E. exact H2.
Qed.

Theorem get_partition_any_sp t tc idx : WF t -> CS t tc -> sp (fun x => CS t (snd x)) (get_partition tc idx).
Proof.
  intros Hwf HC. rewrite get_partition_via_init. eapply sp_bind; [apply init_any_sp; eauto|].
  intros tc1 [(li & HS & ->)|H2].
  - eapply sp_mono; [apply get_partition_sp; auto|]. intros x ->. right. left. eauto.
  - destruct (St2_St _ _ H2) as (li & m & HS & E). rewrite E.
    eapply sp_mono; [apply get_partition_sp; auto|]. intros x ->. rewrite <- E. apply St2_CS; auto.
Qed.

Theorem get_partitions_any_sp t tc : WF t -> CS t tc -> sp (fun x => St2 t (snd x)) (get_partitions O tc).
Proof.
  intros Hwf HC. unfold get_partitions. eapply sp_bind; [apply init_any_sp; eauto|].
  intros tc1 [(li & HS & ->)|H2].
  - eapply sp_bind; [apply init_partitions_sp; eauto|]. intros tc2 H2.
    destruct (St2_shape _ _ H2) as (_ & li' & m & E). rewrite E in *. simpl. exact H2.
  - rewrite (init_partitions_St2 _ _ H2). cbn [bind].
    destruct (St2_shape _ _ H2) as (_ & li' & m & E). rewrite E in *. simpl. exact H2.
Qed.

Theorem get_partitions_sp t : WF t -> sp (fun x => St2 t (snd x)) (get_partitions O (tree_of t)).
Proof. intros Hwf. apply get_partitions_any_sp; auto. apply CS_fresh. Qed.

Theorem get_partitions_safe t : WF t -> safe (get_partitions O (tree_of t)).
Proof. intros. eapply sp_safe, get_partitions_sp; auto. Qed.

Lemma get_partitions_cached t li (m : @pmap L) : t <> [] ->
  get_partitions O (mkTree t (Some li) (Some m)) = Ok (map fst m, mkTree t (Some li) (Some m)).
Proof.
  intros Hne. unfold get_partitions. rewrite init_cached by auto. cbn [bind].
  unfold init_partitions. rewrite init_cached by auto. reflexivity.
Qed.

Lemma get_partitions_again_sp t tc : St2 t tc -> sp (fun x => snd x = tc) (get_partitions O tc).
Proof.
  intros H. destruct (St2_shape _ _ H) as (Hne & li & m & ->). rewrite get_partitions_cached by auto. reflexivity.
Qed.

Theorem get_partitions_with_lengths_any_sp t tc :
  WF t -> CS t tc -> sp (fun x => St2 t (snd x)) (get_partitions_with_lengths O tc).
Proof.
  intros Hwf HC. unfold get_partitions_with_lengths. eapply sp_bind; [apply init_any_sp; eauto|].
  assert (Hfin : forall tc2, St2 t tc2 ->
            sp (fun x : list (bits * (nat * L)) * tree => St2 t (snd x))
               match partitions tc2 with
               | Some m =>
                   r <- mapM (fun e : bits * (nat * option L) =>
                                match snd (snd e) with
                                | Some l => Ok (fst e, (fst (snd e), l))
                                | None => Err MissingBranchLengths
                                end) m ;; Ok (r, tc2)
               | None => Panic 12
               end).
  { intros tc2 H2. destruct (St2_shape _ _ H2) as (_ & li' & m & E). rewrite E in *. cbn [partitions].
    eapply sp_bind with (Q := fun _ => True); [|intros; exact H2].
    apply safe_sp, safe_mapM. intros e _. destruct (snd (snd e)); exact I. }
  intros tc1 [(li & HS & ->)|H2].
  - eapply sp_bind; [apply init_partitions_sp; eauto|]. exact Hfin.
  - rewrite (init_partitions_St2 _ _ H2). cbn [bind]. apply Hfin; auto.
Qed.

Theorem get_partitions_with_lengths_sp t :
  WF t -> sp (fun x => St2 t (snd x)) (get_partitions_with_lengths O (tree_of t)).
Proof. intros Hwf. apply get_partitions_with_lengths_any_sp; auto. apply CS_fresh. Qed.

Theorem get_partitions_with_lengths_safe t : WF t -> safe (get_partitions_with_lengths O (tree_of t)).
Proof. intros. eapply sp_safe, get_partitions_with_lengths_sp; auto. Qed.

(* ---- partition_to_leaves: any bit list ------------------------------------------------------------------- *)
Lemma leaves_of_bits_safe li b : safe (leaves_of_bits li b).
Proof.
  unfold leaves_of_bits. apply safe_foldM. intros acc p _.
  destruct (snd p); [|exact I]. destruct (nth_error li (fst p)); exact I.
Qed.

Theorem partition_to_leaves_any_sp t tc b :
  WF t -> CS t tc -> sp (fun x => CS t (snd x)) (partition_to_leaves tc b).
Proof.
  intros Hwf HC. unfold partition_to_leaves. eapply sp_bind; [apply init_any_sp; eauto|].
  intros tc1 H1.
  assert (exists li, leaf_index tc1 = Some li) as (li & ->).
  { destruct H1 as [(li & _ & ->)|H2]; [simpl; eauto|].
    destruct (St2_shape _ _ H2) as (_ & li & m & ->). simpl; eauto. }
  eapply sp_bind with (Q := fun _ => True); [apply safe_sp, leaves_of_bits_safe|].
  intros s _. simpl. right. exact H1.
Qed.

Theorem partition_to_leaves_safe t b : WF t -> safe (partition_to_leaves (tree_of t) b).
Proof. intros Hwf. eapply sp_safe, (partition_to_leaves_any_sp t (tree_of t) b Hwf (CS_fresh t)). Qed.

(* ---- root_parts and the comparisons ------------------------------------------------------------------------ *)
Lemma root_parts_sp t tc : St2 t tc -> sp (fun x => snd x = tc) (root_parts tc).
Proof.
  intros [(root & r & G & ->)|(Hno & Hne & ->)].
  - unfold RF.TC. rewrite (RF.root_parts_good t root r G). reflexivity.
  - unfold root_parts. cbn [nodes]. destruct (empty_root t Hno) as [-> _]. exact I.
Qed.

Section Pairs.
Variables (t1 t2 : arena) (s o : tree).
Hypothesis W1 : WF t1.
Hypothesis W2 : WF t2.
Hypothesis C1 : CS t1 s.
Hypothesis C2 : CS t2 o.

Theorem robinson_foulds_any_sp :
  sp (fun x => St2 t1 (snd (fst x)) /\ St2 t2 (snd x)) (robinson_foulds O s o).
Proof.
  unfold robinson_foulds.
  eapply sp_bind; [apply (get_partitions_any_sp t1 s W1 C1)|]. intros [ps s1] Hs1. cbn [snd] in Hs1.
  eapply sp_bind; [apply (get_partitions_any_sp t2 o W2 C2)|]. intros [po o1] Ho1. cbn [snd] in Ho1.
  destruct (negb (ostrs_eqb _ _)); [exact I|].
  eapply sp_bind; [apply (root_parts_sp t1 _ Hs1)|]. intros [rs s2] E1. cbn [snd] in E1. subst s2.
  eapply sp_bind; [apply (root_parts_sp t2 _ Ho1)|]. intros [ro o2] E2. cbn [snd] in E2. subst o2.
  eapply sp_bind; [apply safe_sp, is_rooted_safe|]. intros sr _.
  eapply sp_bind with (Q := fun _ => True); [destruct sr; [apply safe_sp, is_rooted_safe|exact I]|].
  intros or _. destruct (sr && or && _ && _); simpl; auto.
Qed.

Theorem robinson_foulds_norm_any_sp :
  sp (fun x => St2 t1 (snd (fst x)) /\ St2 t2 (snd x)) (robinson_foulds_norm O s o).
Proof.
  unfold robinson_foulds_norm.
  eapply sp_bind; [apply robinson_foulds_any_sp|]. intros [[rf s1] o1] [Hs1 Ho1]. cbn [fst snd] in *.
  eapply sp_bind; [apply (get_partitions_again_sp t1 _ Hs1)|]. intros [ps s2] E1. cbn [snd] in E1. subst s2.
  eapply sp_bind; [apply (get_partitions_again_sp t2 _ Ho1)|]. intros [po o2] E2. cbn [snd] in E2. subst o2.
  simpl. auto.
Qed.

Theorem weighted_rf_any_sp sq :
  sp (fun x => St2 t1 (snd (fst x)) /\ St2 t2 (snd x)) (weighted_rf O sq s o).
Proof.
  unfold weighted_rf.
  eapply sp_bind; [apply (get_partitions_with_lengths_any_sp t1 s W1 C1)|]. intros [ps s1] Hs1.
  eapply sp_bind; [apply (get_partitions_with_lengths_any_sp t2 o W2 C2)|]. intros [po o1] Ho1.
  simpl in *. auto.
Qed.

Theorem compare_topologies_any_sp :
  sp (fun x => St2 t1 (snd (fst x)) /\ St2 t2 (snd x)) (compare_topologies O s o).
Proof.
  unfold compare_topologies.
  eapply sp_bind; [apply (get_partitions_with_lengths_any_sp t1 s W1 C1)|]. intros [ps s1] Hs1. cbn [snd] in Hs1.
  eapply sp_bind; [apply (get_partitions_with_lengths_any_sp t2 o W2 C2)|]. intros [po o1] Ho1. cbn [snd] in Ho1.
  cbv zeta.
  eapply sp_bind; [apply (root_parts_sp t1 _ Hs1)|]. intros [rs s2] E1. cbn [snd] in E1. subst s2.
  eapply sp_bind; [apply (root_parts_sp t2 _ Ho1)|]. intros [ro o2] E2. cbn [snd] in E2. subst o2.
  eapply sp_bind; [apply safe_sp, is_rooted_safe|]. intros sr _.
  eapply sp_bind with (Q := fun _ => True); [destruct sr; [apply safe_sp, is_rooted_safe|exact I]|].
  intros or _. simpl. auto.
Qed.

End Pairs.

Theorem robinson_foulds_sp t1 t2 : WF t1 -> WF t2 ->
  sp (fun x => St2 t1 (snd (fst x)) /\ St2 t2 (snd x)) (robinson_foulds O (tree_of t1) (tree_of t2)).
Proof. intros H1 H2. exact (robinson_foulds_any_sp t1 t2 _ _ H1 H2 (CS_fresh t1) (CS_fresh t2)). Qed.

Theorem robinson_foulds_safe t1 t2 : WF t1 -> WF t2 -> safe (robinson_foulds O (tree_of t1) (tree_of t2)).
Proof. intros. eapply sp_safe, robinson_foulds_sp; auto. Qed.

Theorem robinson_foulds_norm_safe t1 t2 :
  WF t1 -> WF t2 -> safe (robinson_foulds_norm O (tree_of t1) (tree_of t2)).
Proof. intros H1 H2. eapply sp_safe, (robinson_foulds_norm_any_sp t1 t2 _ _ H1 H2 (CS_fresh t1) (CS_fresh t2)). Qed.

Theorem weighted_rf_safe sq t1 t2 : WF t1 -> WF t2 -> safe (weighted_rf O sq (tree_of t1) (tree_of t2)).
Proof. intros H1 H2. eapply sp_safe, (weighted_rf_any_sp t1 t2 _ _ H1 H2 (CS_fresh t1) (CS_fresh t2)). Qed.

Theorem compare_topologies_safe t1 t2 :
  WF t1 -> WF t2 -> safe (compare_topologies O (tree_of t1) (tree_of t2)).
Proof. intros H1 H2. eapply sp_safe, (compare_topologies_any_sp t1 t2 _ _ H1 H2 (CS_fresh t1) (CS_fresh t2)). Qed.

(* terminal_branches: the [Panic 13] / [Panic 14] sites *)
Lemma terminal_branches_safe t : WF t -> safe (terminal_branches t).
Proof.
  intros Hwf. unfold terminal_branches.
  destruct (has_unique_tip_names t) as [[|]| | |] eqn:Hu; simpl; try exact I.
  - destruct (WF_cases t Hwf) as [Hno|(root & r & HR & HN & HL)].
    + destruct (empty_leaves t Hno) as [-> _]. exact I.
    + pose proof (Splits.unique_names_Good t root r HR HN HL Hu) as G.
      apply safe_mapM. intros i Hi.
      apply (Splits.in_get_leaves t root r G) in Hi.
      destruct (Splits.leaf_get t root r G i Hi) as (n & -> & _ & ->). exact I.
  - pose proof (has_unique_tip_names_safe t Hwf) as H. rewrite Hu in H. destruct H.
  - pose proof (has_unique_tip_names_safe t Hwf) as H. rewrite Hu in H. destruct H.
Qed.

Theorem compare_branch_lengths_any_sp t1 t2 (s o : tree) tips :
  WF t1 -> WF t2 -> CS t1 s -> CS t2 o ->
  sp (fun x => St2 t1 (snd (fst x)) /\ St2 t2 (snd x)) (compare_branch_lengths O s o tips).
Proof.
  intros H1 H2 C1 C2. unfold compare_branch_lengths.
  eapply sp_bind; [apply (get_partitions_with_lengths_any_sp t1 s H1 C1)|]. intros [ps s1] Hs1. cbn [snd] in Hs1.
  eapply sp_bind; [apply (get_partitions_with_lengths_any_sp t2 o H2 C2)|]. intros [po o1] Ho1. cbn [snd] in Ho1.
  cbv zeta. destruct (negb tips); [simpl; auto|].
  pose proof Hs1 as Hs1'. pose proof Ho1 as Ho1'.
  destruct (St2_shape _ _ Hs1) as (_ & l1 & m1 & E1). destruct (St2_shape _ _ Ho1) as (_ & l2 & m2 & E2).
  assert (N1 : nodes s1 = t1) by (rewrite E1; reflexivity).
  assert (N2 : nodes o1 = t2) by (rewrite E2; reflexivity).
  rewrite N1, N2.
  eapply sp_bind with (Q := fun _ => True); [apply safe_sp, terminal_branches_safe; auto|]. intros st _.
  eapply sp_bind with (Q := fun _ => True); [apply safe_sp, terminal_branches_safe; auto|]. intros ot _.
  eapply sp_bind with (Q := fun _ => True).
  { apply safe_sp, safe_foldM. intros [[sb ob] cb] e _. destruct (snd (snd e)); [|exact I].
    destruct (assoc_str ot (fst e)) as [[d2 [lo|]]|]; exact I. }
  intros r1 _. eapply sp_bind with (Q := fun _ => True); [|intros; simpl; auto].
  apply safe_sp, safe_foldM. intros [[sb ob] cb] e _. destruct (assoc_str st (fst e)); [exact I|].
  destruct (snd (snd e)); exact I.
Qed.

Theorem compare_branch_lengths_safe t1 t2 tips :
  WF t1 -> WF t2 -> safe (compare_branch_lengths O (tree_of t1) (tree_of t2) tips).
Proof. intros H1 H2. eapply sp_safe, (compare_branch_lengths_any_sp t1 t2 _ _ tips H1 H2 (CS_fresh t1) (CS_fresh t2)). Qed.

(* every cache state: the queries are safe and leave the tree in a cache state again, so the theorems
   apply to any sequence of queries *)
Theorem cached_queries_closed t (tc : tree) : WF t -> CS t tc ->
  safe (init_leaf_index tc) /\
  (forall i, sp (fun x => CS t (snd x)) (get_partition tc i)) /\
  sp (fun x => CS t (snd x)) (get_partitions O tc) /\
  sp (fun x => CS t (snd x)) (get_partitions_with_lengths O tc) /\
  (forall b, sp (fun x => CS t (snd x)) (partition_to_leaves tc b)).
Proof.
  intros Hwf HC. repeat split.
  - eapply sp_safe, init_any_sp; eauto.
  - intros i. apply get_partition_any_sp; auto.
  - eapply sp_mono; [apply get_partitions_any_sp; eauto|]. intros x. apply St2_CS.
  - eapply sp_mono; [apply get_partitions_with_lengths_any_sp; eauto|]. intros x. apply St2_CS.
  - intros b. apply partition_to_leaves_any_sp; auto.
Qed.

Theorem cached_comparisons_closed t1 t2 (s o : tree) : WF t1 -> WF t2 -> CS t1 s -> CS t2 o ->
  let post := fun (s' o' : tree) => CS t1 s' /\ CS t2 o' in
  sp (fun x => post (snd (fst x)) (snd x)) (robinson_foulds O s o) /\
  sp (fun x => post (snd (fst x)) (snd x)) (robinson_foulds_norm O s o) /\
  (forall sq, sp (fun x => post (snd (fst x)) (snd x)) (weighted_rf O sq s o)) /\
  sp (fun x => post (snd (fst x)) (snd x)) (compare_topologies O s o) /\
  (forall tips, sp (fun x => post (snd (fst x)) (snd x)) (compare_branch_lengths O s o tips)).
Proof.
  intros W1 W2 C1 C2 post.
  repeat split; intros.
  - eapply sp_mono; [apply (robinson_foulds_any_sp t1 t2 s o W1 W2 C1 C2)|].
    intros x [A B]; split; apply St2_CS; auto.
  - eapply sp_mono; [apply (robinson_foulds_norm_any_sp t1 t2 s o W1 W2 C1 C2)|].
    intros x [A B]; split; apply St2_CS; auto.
  - eapply sp_mono; [apply (weighted_rf_any_sp t1 t2 s o W1 W2 C1 C2)|].
    intros x [A B]; split; apply St2_CS; auto.
  - eapply sp_mono; [apply (compare_topologies_any_sp t1 t2 s o W1 W2 C1 C2)|].
    intros x [A B]; split; apply St2_CS; auto.
  - eapply sp_mono; [apply (compare_branch_lengths_any_sp t1 t2 s o tips W1 W2 C1 C2)|].
    intros x [A B]; split; apply St2_CS; auto.
Qed.

End TreeQueries.

(* ================================================================================================ *)
(* 3. distance matrices of a tree, writers, layout                                                    *)
(*                                                                                                    *)
(*   distance_matrix                              distance_matrix_safe                                *)
(*   distance_matrix_recursive                    distance_matrix_recursive_safe                      *)
(*   to_formatted_newick (9 formats) / to_newick  to_formatted_newick_safe to_newick_safe             *)
(*   to_nexus                                     to_nexus_safe                                       *)
(*   radial_layout                                radial_layout_safe                                  *)
(* ================================================================================================ *)
Section Writers.
Context {L : Type}.
Variable O : LenOps L.
Notation arena := (@arena L).
Notation node := (@node L).
Notation tree := (@tree L).
Implicit Types (t : arena).

Theorem distance_matrix_safe t : WF t -> safe (distance_matrix O t).
Proof.
  intros Hwf. destruct (WF_cases t Hwf) as [Hno|(root & r & HR & HN & HL)].
  - destruct (empty_leaves t Hno) as [_ E]. rewrite (DistMatrix.dm_empty O t E). exact I.
  - destruct (DistMatrix.dm_no_panic O t root r HR HN HL) as [(m & ->)| ->]; exact I.
Qed.

Theorem distance_matrix_recursive_safe t : WF t -> safe (distance_matrix_recursive O (tree_of t)).
Proof.
  intros Hwf. pose proof (init_fresh_sp t None Hwf) as Hi. fold (tree_of t) in Hi.
  destruct (init_leaf_index (tree_of t)) as [tc|e| |] eqn:E; simpl in Hi; try contradiction.
  - destruct Hi as (li & [(root & r & G & ->)|(Hno & Hne & ->)] & ->).
    + destruct G as [HR HN HL Hnamed Huniq].
      destruct (DistMatrix.dmr_no_panic O t root r HR HN HL Hnamed Huniq) as [(m & tc & ->)| ->]; exact I.
    + unfold distance_matrix_recursive. cbv zeta. rewrite E. cbn [bind leaf_index nodes tree_of].
      destruct (empty_leaves t Hno) as [E1 E2]. rewrite E1, E2. simpl. exact I.
  - unfold distance_matrix_recursive. cbv zeta. rewrite E. exact I.
Qed.

(* the same on any cache state: the matrix part of the computation only reads the arena and the index *)
Definition dmr_body (a : arena) (taxa : list str) : outcome (@dmat L) :=
  let size := length a in
  let n := n_leaves a in
  if negb (Nat.eqb (length taxa) n) then Err TMatrixError else
  rows <- mapM (fun tip => r <- dmr_impl O (S (S size)) a tip None (repeat (linf O) size) (l0 O) ;; Ok (tip, r))
               (get_leaves a) ;;
  cells <- foldM (fun (cells : list L) (pr : nat * nat) =>
             let d := match rows_get rows (fst pr) with
                      | Some row => nth (snd pr) row (linf O)
                      | None => linf O end in
             n1 <- get a (fst pr) ;; n2 <- get a (snd pr) ;;
             match nname n1, nname n2 with
             | Some a1, Some a2 =>
                 if str_eqb a1 a2 then Panic 19 else
                 match find_str a1 taxa, find_str a2 taxa with
                 | Some i, Some j => Ok (replace_at cells (tril_idx i j) d)
                 | _, _ => Err TMatrixError
                 end
             | _, _ => Panic 20
             end) (pairs (get_leaves a)) (repeat (l0 O) (n * (n - 1) / 2)) ;;
  Ok (mkDmat n taxa cells).

Lemma dmr_unfold (tc : tree) :
  distance_matrix_recursive O tc =
  c1 <- init_leaf_index tc ;;
  match leaf_index c1 with
  | None => Panic 18
  | Some taxa => d <- dmr_body (nodes tc) taxa ;; Ok (d, c1)
  end.
Proof.
  unfold distance_matrix_recursive, dmr_body. cbv zeta.
  destruct (init_leaf_index tc) as [c1| | |]; cbn [bind]; try reflexivity.
  destruct (leaf_index c1); try reflexivity. destruct (negb _); try reflexivity.
  destruct (mapM _ _); cbn [bind]; try reflexivity. destruct (foldM _ _ _); reflexivity.
Qed.

Lemma dmr_body_safe t li : WF t -> St t li -> safe (dmr_body t li).
Proof.
  intros Hwf [(root & r & G & ->)|(Hno & Hne & ->)].
  - pose proof (distance_matrix_recursive_safe t Hwf) as H. rewrite dmr_unfold in H.
    unfold tree_of in H. rewrite (Splits.init_leaf_index_fresh t root r G None) in H.
    cbn [bind leaf_index nodes] in H. destruct (dmr_body t (Splits.leaf_idx t)); simpl in H; auto.
  - unfold dmr_body. cbv zeta. destruct (empty_leaves t Hno) as [E1 E2]. rewrite E1, E2. simpl. exact I.
Qed.

Theorem distance_matrix_recursive_any_sp t (tc : tree) :
  WF t -> CS O t tc -> sp (fun x => CS O t (snd x)) (distance_matrix_recursive O tc).
Proof.
  intros Hwf HC. rewrite dmr_unfold. rewrite (CS_nodes O t tc HC).
  eapply sp_bind; [apply init_any_sp; eauto|]. intros c1 H1.
  assert (exists li, St t li /\ leaf_index c1 = Some li) as (li & HS & ->).
  { destruct H1 as [(li & HS & ->)|H2]; [simpl; eauto|].
    destruct (St2_St O _ _ H2) as (li & m & HS & ->). simpl; eauto. }
  eapply sp_bind with (Q := fun _ => True); [apply safe_sp, dmr_body_safe; auto|].
  intros d _. simpl. right. exact H1.
Qed.

(* ---- Newick / Nexus writers ----------------------------------------------------------------------------- *)
Lemma mapM_all_ok {A B} (g : A -> outcome B) l :
  (forall x, In x l -> exists y, g x = Ok y) -> exists ys, mapM g l = Ok ys.
Proof.
  induction l as [|x l IH]; intros H; simpl; eauto.
  destruct (H x) as (y & ->); simpl; auto. destruct IH as (ys & ->); [intros; apply H; simpl; auto|].
  simpl. eauto.
Qed.

Lemma to_newick_impl_ok t f : forall r p d i fuel,
  Rep t p d i r -> rheight r <= fuel -> exists s, to_newick_impl_f fuel t i f = Ok s.
Proof.
  induction r as [j cs IH] using RepLib.rtree_ind'. intros p d i fuel HR Hf.
  destruct (RepLib.Rep_inv _ _ _ _ _ HR) as (n & cs' & Heq & Hn & Hdel & _ & _ & _ & HF & _).
  injection Heq as -> ->.
  destruct fuel as [|k]; [simpl in Hf; lia|]. cbn [to_newick_impl_f].
  assert (Hg : get t i = Ok n) by (apply get_Ok; auto). rewrite Hg. cbn [bind].
  destruct (nchildren n) as [|c0 cl] eqn:Ech; [eauto|]. rewrite <- Ech in *.
  match goal with |- exists s, bind (mapM ?g _) _ = _ =>
    destruct (mapM_all_ok g (nchildren n)) as (subs & Hs) end.
  - intros c Hc. destruct (Forall2_In_l _ _ _ _ HF Hc) as (rc & Hrc & HRc).
    rewrite Forall_forall in IH. destruct (IH rc Hrc _ _ _ k HRc) as (s & ->); eauto.
    simpl in Hf. pose proof (rheight_child rc cs' Hrc). lia.
  - rewrite Hs. simpl. eauto.
Qed.

Theorem to_formatted_newick_safe t f : WF t -> safe (to_formatted_newick t f).
Proof.
  intros Hwf. unfold to_formatted_newick.
  destruct (WF_cases t Hwf) as [Hno|(root & r & HR & HN & HL)].
  - destruct (empty_root t Hno) as [-> _]. exact I.
  - rewrite (get_root_refines t root r HR HL). cbn [bind].
    destruct (to_newick_impl_ok t f r None 0 root (fuel_of t) HR) as (s & ->); [|exact I].
    pose proof (Traversals.rheight_le_length _ _ _ _ _ HR HN). unfold fuel_of. lia.
Qed.

Theorem to_newick_safe t : WF t -> safe (to_newick t).
Proof. apply to_formatted_newick_safe. Qed.

Theorem to_nexus_safe t : WF t -> safe (to_nexus t).
Proof. intros Hwf. unfold to_nexus. apply safe_bind; [apply to_newick_safe; auto|]. intros; exact I. Qed.

Theorem radial_layout_safe t : WF t -> safe (radial_layout O t).
Proof.
  intros Hwf. destruct (WF_cases t Hwf) as [Hno|(root & r & HR & HN & HL)].
  - unfold radial_layout. destruct (empty_root t Hno) as [-> _]. exact I.
  - rewrite (LayoutProps.layout_refines_gen O t root r HR HN HL). destruct (LayoutProps.all_lengths t r); exact I.
Qed.

End Writers.

(* ================================================================================================ *)
(* 4. distance matrices as values: accessors, Phylip codec, UPGMA                                     *)
(*                                                                                                    *)
(*   taxa_index / dm_get / dm_set / dm_to_map     taxa_index_safe dm_get_safe dm_set_safe dm_to_map_safe *)
(*   to_phylip (square or triangular)             to_phylip_safe                                      *)
(*   from_phylip_tril / from_phylip_strict        from_phylip_tril_safe from_phylip_strict_safe       *)
(*   upgma                                        upgma_safe upgma_too_small                          *)
(* ================================================================================================ *)
Section MatrixSide.
Context {L : Type}.
Variable O : LenOps L.
Notation dmat := (@dmat L).

(* a constructible matrix: size 0, 1, 2, ... with its full triangular cell vector *)
Definition MatOK (m : dmat) : Prop :=
  length (mcells m) = msize m * (msize m - 1) / 2 /\ msize m = length (mtaxa m).

Theorem taxa_index_safe (m : dmat) x : safe (taxa_index m x).
Proof. unfold taxa_index. destruct (find_str x (mtaxa m)); exact I. Qed.

Lemma pair_index_sp (m : dmat) a b :
  sp (fun idx => idx < msize m * (msize m - 1) / 2) (pair_index m a b).
Proof.
  destruct (Tril.pair_index_no_panic m a b) as [(idx & H)|(e & H)]; rewrite H; [|exact I].
  destruct (Tril.pair_index_ok m a b idx H) as (i & j & _ & _ & _ & Hij & Hi & Hj & ->).
  apply Tril.tril_lt_any; auto.
Qed.

Theorem dm_get_safe (m : dmat) a b : MatOK m -> safe (dm_get O m a b).
Proof.
  intros [Hlen _]. unfold dm_get. destruct (str_eqb a b); [exact I|].
  eapply safe_bind_sp; [apply pair_index_sp|]. intros idx Hidx. rewrite <- Hlen in Hidx.
  apply nth_error_Some in Hidx. destruct (nth_error (mcells m) idx); [exact I|congruence].
Qed.

Theorem dm_set_safe (m : dmat) a b v : MatOK m -> safe (dm_set O m a b v).
Proof.
  intros [Hlen _]. unfold dm_set. destruct (str_eqb a b); [destruct (leqb O v (l0 O)); exact I|].
  eapply safe_bind_sp; [apply pair_index_sp|]. intros idx Hidx. rewrite <- Hlen in Hidx.
  apply Nat.ltb_lt in Hidx. rewrite Hidx. exact I.
Qed.

Theorem dm_to_map_safe (m : dmat) : MatOK m -> safe (dm_to_map O m).
Proof.
  intros HM. unfold dm_to_map. apply safe_mapM. intros p _.
  apply safe_bind; [apply dm_get_safe; auto|]. intros; exact I.
Qed.

Theorem to_phylip_safe (m : dmat) square : MatOK m -> safe (to_phylip O m square).
Proof.
  intros [Hlen Hsz]. unfold to_phylip. apply safe_bind; [|intros; exact I].
  apply safe_mapM. intros [i nm] Hin. cbn [fst snd].
  assert (Hi : i < msize m).
  { apply in_combine_l in Hin. apply in_seq in Hin. lia. }
  apply safe_bind; [|intros; exact I]. apply safe_mapM. intros j Hj. apply in_seq in Hj.
  destruct (Nat.eqb_spec i j) as [->|Hne]; [exact I|].
  assert (Hjm : j < msize m) by (destruct square; lia).
  unfold tril_to_vec_index.
  replace (Nat.eqb i j) with false by (symmetry; apply Nat.eqb_neq; auto).
  replace (Nat.leb (msize m) i) with false by (symmetry; apply Nat.leb_gt; auto).
  replace (Nat.leb (msize m) j) with false by (symmetry; apply Nat.leb_gt; auto).
  cbn [orb]. pose proof (Tril.tril_lt_any (msize m) i j Hne Hi Hjm) as Hlt. rewrite <- Hlen in Hlt.
  apply nth_error_Some in Hlt. destruct (nth_error (mcells m) (tril_idx i j)); [exact I|congruence].
Qed.

Theorem from_phylip_tril_safe (parse_cell : str -> option L) text : safe (from_phylip_tril parse_cell text).
Proof. exact (PhylipProps.tril_no_panic parse_cell text). Qed.

Theorem from_phylip_strict_safe (parse_cell : str -> option L) text sq :
  safe (from_phylip_strict O parse_cell text sq).
Proof. exact (PhylipProps.strict_no_panic O parse_cell text sq). Qed.

Theorem upgma_safe (Fin : L -> Prop) (HSep : UpgmaProps.Separated O Fin) (m : dmat) :
  UpgmaProps.upgma_pre Fin m -> safe (upgma O m).
Proof. intros H. destruct (UpgmaProps.upgma_ok O Fin HSep m H) as (t & ->). exact I. Qed.

Theorem upgma_too_small (m : dmat) : msize m < 2 -> upgma O m = Err IndexError /\ safe (upgma O m).
Proof. intros H. rewrite (UpgmaProps.upgma_small O m H). split; [reflexivity|exact I]. Qed.

End MatrixSide.

(* ================================================================================================ *)
(* 5. mutators: the returned outcome is never a panic / a non-termination                             *)
(*                                                                                                    *)
(*   add_child (any parent id)                    add_child_safe                                      *)
(*   reset_depths / ladderize                     reset_depths_safe ladderize_safe                    *)
(*   prune (any id)                               prune_safe                                          *)
(*   merge_children (any pair)                    merge_children_safe                                 *)
(*   compress                                     compress_safe                                       *)
(*   resolve (any choices)                        resolve_safe                                        *)
(* ================================================================================================ *)
Section Mutators.
Context {L : Type}.
Variable O : LenOps L.
Notation arena := (@arena L).
Notation node := (@node L).
Implicit Types (t : arena).

Local Arguments reset_depth_f : simpl never.
Local Arguments ids : simpl never.

Ltac slot :=
  repeat first [ rewrite nth_error_replace_nth_neq by (auto; congruence)
               | rewrite nth_error_replace_nth_eq by (rewrite ?replace_nth_length; auto; lia) ].

Theorem add_child_safe t nm cm p e : safe (add_child t (new_node nm cm) p e).
Proof.
  pose proof (get_safe t p) as Hs. destruct (get t p) as [pn|err| |] eqn:Hg; simpl in Hs; try contradiction.
  - rewrite (add_child_Ok _ _ _ _ _ _ Hg). exact I.
  - unfold add_child. destruct (Nat.leb _ _); [exact I|]. rewrite Hg. exact I.
Qed.

Theorem reset_depths_safe t : WF t -> safe (reset_depths t).
Proof.
  intros Hwf. unfold reset_depths. destruct (WF_cases t Hwf) as [Hno|(root & r & HR & HN & HL)].
  - destruct (empty_root t Hno) as [-> _]. exact I.
  - rewrite (get_root_refines t root r HR HL). cbn [bind].
    pose proof (Rep_Rep0 _ _ _ _ _ HR) as HR0.
    destruct (reset_depth_f_spec r (fuel_of t) t None root 0 HR0 HN (Rep0_height_fuel _ _ _ _ HR0 HN))
      as (t' & -> & _). exact I.
Qed.

Theorem ladderize_safe t : WF t -> safe (ladderize t).
Proof.
  intros Hwf. unfold ladderize. apply safe_bind; [apply get_root_safe|]. intros r _.
  apply safe_bind; [apply levelorder_safe; auto|]. intros lo _.
  apply safe_bind; [|intros [t' c] _; exact I].
  apply safe_foldM. intros [s cnt] id _. apply safe_bind; [apply get_safe|]. intros; exact I.
Qed.

Theorem prune_safe t x : WFS t -> safe (prune t x).
Proof.
  intros [Hwf Hse]. unfold prune.
  destruct (live_or_dead t x) as [Hlx|Hd].
  2:{ unfold fuel_of. cbn [prune_f]. rewrite (dead_get t x Hd). exact I. }
  destruct Hwf as [Hno|(root & r & HR & Hnd & Hlive)]; [exfalso; eapply Hno; eauto|].
  pose proof (Hlive _ Hlx) as Hxr.
  destruct (Nat.eq_dec x root) as [->|Hne].
  - destruct (prune_f_spec r (fuel_of t) t None 0 root HR Hnd
                (Rep0_height_fuel _ _ _ _ (Rep_Rep0 _ _ _ _ _ HR) Hnd) Hse I) as (t2 & -> & _). exact I.
  - destruct (Rep_parent _ _ _ _ _ _ HR Hxr Hne) as (P & nP & nx & HPr & HnP & HdP & Hnx & Hpx & HxP).
    assert (HlP : live t P) by (exists nP; auto).
    destruct (WF_edit t P (or_intror (ex_intro _ root (ex_intro _ r (conj HR (conj Hnd Hlive))))) HlP)
      as (root' & r' & sP & pp & dp & rest & HR' & Hnd' & Hlive' & HRP & Hperm & HndP & Hndr & Hdisj & Hrl & _ & Hk).
    destruct (Rep_inv _ _ _ _ _ HRP) as (n & cs & -> & Hn & Hdel & Hid & Hp & Hd & HF & He1 & He2).
    assert (n = nP) by congruence. subst n.
    destruct (nrc_Some nP x HxP) as (nP' & k1 & k2 & Hrm & Hch & Hnk1 & Hch' & Hed' & Fid & Fpar & Fpe & Fdep & Fdel).
    rewrite Hch in HF. apply Forall2_app_inv_l in HF as (l1 & l2' & HF1 & HF2 & ->).
    inversion HF2 as [|? sx ? l2 HRx HF2' Hk2e Hcl]. clear HF2 Hk2e. subst l2'.
    rewrite ids_RT, flat_map_app in HndP. simpl in HndP.
    apply NoDup_cons_iff in HndP as [HPn HndP].
    apply NoDup_app_iff in HndP as (Hnd1 & Hnd23 & Hd1).
    apply NoDup_app_iff in Hnd23 as (Hndx & Hnd2 & Hd2).
    assert (HPx : ~ In P (ids sx)). { intros Hin. apply HPn. apply in_or_app. right. apply in_or_app; auto. }
    assert (Hpre : prune_pre t (Some P) x sx).
    { split; auto. exists nP. split; auto. apply get_Ok; auto. }
    destruct (prune_f_spec sx (fuel_of t) t (Some P) (S dp) x HRx Hndx
                (Rep0_height_fuel _ _ _ _ (Rep_Rep0 _ _ _ _ _ HRx) Hndx) Hse Hpre) as (t2 & -> & _).
    exact I.
Qed.

Theorem merge_children_safe t c1 c2 e1 e2 pe nm :
  WFS t -> safe (fst (merge_children t c1 c2 e1 e2 pe nm)).
Proof.
  intros Hwfs. pose proof Hwfs as [Hwf Hse]. unfold merge_children.
  pose proof (get_safe t c1) as Hs1.
  destruct (get t c1) as [n1|err1| |] eqn:Hg1; simpl in Hs1; try contradiction; [|exact I].
  pose proof (get_safe t c2) as Hs2.
  destruct (get t c2) as [n2|err2| |] eqn:Hg2; simpl in Hs2; try contradiction; [|exact I].
  destruct (negb (onat_eqb (nparent n1) (nparent n2))) eqn:Hpar; [exact I|].
  destruct (Nat.eqb c1 c2) eqn:Hc12; [exact I|].
  apply Nat.eqb_neq in Hc12. apply Bool.negb_false_iff in Hpar.
  destruct (nparent n1) as [pid|] eqn:Hp1.
  - destruct (nparent n2) as [pid2|] eqn:Hp2; simpl in Hpar; [|discriminate].
    apply Nat.eqb_eq in Hpar. subst pid2.
    destruct (WF_parent_of _ _ _ _ Hwf Hg1 Hp1) as (nP & HgP & Hc1).
    destruct (WF_parent_of _ _ _ _ Hwf Hg2 Hp2) as (nP' & HgP' & Hc2).
    assert (nP' = nP) by congruence. subst nP'.
    destruct (nrc_Some nP c1 Hc1) as (pn1 & l1 & l2 & Hrm1 & Hs1' & _ & Hch1 & _).
    assert (Hc2' : In c2 (nchildren pn1)).
    { rewrite Hch1. rewrite Hs1' in Hc2. apply in_app_or in Hc2 as [?|[?|?]]; try congruence; apply in_or_app; auto. }
    destruct (nrc_Some pn1 c2 Hc2') as (pn2 & m1 & m2 & Hrm2 & _).
    destruct (merge_chain_wf t pid nP c1 c2 n1 n2 e1 e2 pe nm pn1 pn2 Hwfs HgP Hg1 Hg2 Hc1 Hc2 Hc12 Hrm1 Hrm2)
      as (t8 & Hchain & Hwf8).
    rewrite HgP. simpl. rewrite Hrm1, Hrm2.
    assert (HgP2 : get (replace_nth pid pn2 t) pid = Ok pn2).
    { apply get_Ok in HgP as [HnP HdP]. apply get_Ok. split.
      - eapply nth_error_replace_nth_eq'; eauto.
      - destruct (nrc_inv _ _ _ Hrm1) as (? & ? & _ & _ & _ & _ & _ & _ & _ & _ & Q1).
        destruct (nrc_inv _ _ _ Hrm2) as (? & ? & _ & _ & _ & _ & _ & _ & _ & _ & Q2). congruence. }
    rewrite (add_child_Ok _ _ _ _ _ _ HgP2). rewrite replace_nth_length.
    unfold merge_chain in Hchain. cbv iota beta. rewrite Hchain. exact I.
  - destruct (nparent n2) eqn:Hp2; simpl in Hpar; [discriminate|].
    exfalso. apply Hc12. eapply WF_root_of; eauto.
Qed.

(* ---- compress ---------------------------------------------------------------------------------------------- *)
(* the proof follows WFOps.compress_node_wf: the surgery leaves a subtree at [child] on which the depth
   recomputation terminates within its fuel *)
Lemma compress_node_safe t id : WFS t -> safe (compress_node O t id).
Proof.
  intros [Hwf Hse]. unfold compress_node.
  apply safe_bind; [apply get_safe|]. intros n Hgn.
  destruct (nparent n) as [P|] eqn:Hpar; [|exact I].
  destruct (nchildren n) as [|child [|]] eqn:Hchn; try exact I.
  match goal with |- safe (match ?X with _ => _ end) => destruct X as [new_edge|] eqn:Hne; [|exact I] end.
  clear Hne.
  apply safe_bind; [apply upd_safe|]. intros t1 Ht1.
  apply safe_bind; [apply upd_safe|]. intros t2 Ht2.
  apply safe_bind; [apply get_safe|]. intros pn Hpn.
  apply safe_bind; [destruct (node_remove_child pn id); exact I|]. intros t3 Ht3.
  apply safe_bind; [apply get_safe|]. intros nid3 Hg3.
  apply safe_bind; [apply get_safe|]. intros pn4 Hpn4.
  (* structure of the tree around id *)
  pose proof Hgn as Hgn'. apply get_Ok in Hgn' as [Hn Hdeln].
  assert (Hlid : live t id) by (exists n; auto).
  pose proof Hwf as Hwf0.
  destruct Hwf as [Hno|(root & r & HR & Hnd & Hlive)]; [exfalso; eapply Hno; eauto|].
  pose proof (Hlive _ Hlid) as Hidr.
  assert (Hidroot : id <> root).
  { intros ->. destruct (Rep_inv _ _ _ _ _ HR) as (n0 & ? & _ & Hn0 & _ & _ & Hp0 & _). congruence. }
  destruct (Rep_parent _ _ _ _ _ _ HR Hidr Hidroot) as (P' & nP & nx & HPr & HnP & HdP & Hnx & Hpx & HidP).
  assert (nx = n) by congruence. subst nx. assert (P' = P) by congruence. subst P'.
  assert (HlP : live t P) by (exists nP; auto).
  destruct (WF_edit t P Hwf0 HlP)
    as (root' & r' & sP & pp & dp & rest & _ & _ & Hlive' & HRP & Hperm & HndP & Hndr & Hdisj & Hrl & _ & Hk).
  destruct (Rep_inv _ _ _ _ _ HRP) as (nP0 & cs & -> & HnP0 & _ & FidP & FparP & FdepP & HF & He1 & He2).
  assert (nP0 = nP) by congruence. subst nP0.
  destruct (Forall2_In_l _ _ _ _ HF HidP) as (s_id & Hsid & HRid).
  destruct (Rep_inv _ _ _ _ _ HRid) as (n0 & ccs & -> & Hn0 & _ & _ & _ & Fdepn & HFc & He1n & He2n).
  assert (n0 = n) by congruence. subst n0.
  rewrite Hchn in HFc. apply Forall2_singleton_l in HFc as (sc & -> & HRc).
  rewrite ids_RT in HndP. apply NoDup_cons_iff in HndP as [HPn Hndcs].
  pose proof (NoDup_flat_map_in _ _ _ Hndcs Hsid) as Hndsid.
  rewrite ids_RT in Hndsid. simpl in Hndsid. rewrite app_nil_r in Hndsid.
  apply NoDup_cons_iff in Hndsid as [Hidsc Hndsc].
  pose proof (Forall2_Rep_rid _ _ _ _ _ HF) as Hch.
  assert (Hchild_sc : In child (ids sc)). { rewrite <- (Rep_rid _ _ _ _ _ HRc). apply In_rid_ids. }
  assert (Hsc_sid : forall j, In j (ids sc) -> In j (ids (RT id [sc]))).
  { intros j Hj. rewrite ids_RT. simpl. rewrite app_nil_r. auto. }
  assert (Hsid_cs : forall j, In j (ids (RT id [sc])) -> In j (flat_map ids cs)).
  { intros j Hj. apply in_flat_map. eauto. }
  assert (Hid_sid : In id (ids (RT id [sc]))) by (rewrite ids_RT; simpl; auto).
  assert (HidP' : id <> P) by (intros ->; auto).
  assert (HchildP : child <> P) by (intros ->; auto).
  assert (Hchildid : child <> id) by (intros Heq; apply Hidsc; rewrite <- Heq; auto).
  set (keep := fun k => negb (Nat.eqb k id)).
  set (cs_keep := filter (fun s => keep (rid s)) cs).
  set (ks' := filter keep (nchildren nP)).
  assert (Hkeep_sid : forall s j, In s cs_keep -> In j (ids s) -> ~ In j (ids (RT id [sc]))).
  { intros s j Hs Hj Hj'. apply filter_In in Hs as [Hs Hks].
    assert (s = RT id [sc]) by (apply (flat_map_NoDup_inj ids cs s (RT id [sc]) j); auto). subst s.
    unfold keep in Hks. simpl in Hks. rewrite Nat.eqb_refl in Hks. discriminate. }
  assert (Hchild_nP : ~ In child (nchildren nP)).
  { rewrite Hch. intros Hin. apply in_map_iff in Hin as (s & Hrs & Hs).
    assert (s = RT id [sc]).
    { apply (flat_map_NoDup_inj ids cs s (RT id [sc]) child); auto. rewrite <- Hrs. apply In_rid_ids. }
    subst s. simpl in Hrs. congruence. }
  assert (Hnone : edge_get (nedges nP) child = None).
  { destruct (edge_get (nedges nP) child) eqn:E; auto. exfalso. apply Hchild_nP. apply He2. congruence. }
  (* the arenas *)
  apply upd_inv in Ht1 as (nc & Hgc & ->).
  pose proof Hgc as Hgc'. apply get_Ok in Hgc' as [Hnc Hdelc].
  apply upd_inv in Ht2 as (x & Hgx & ->).
  assert (x = nP). { apply get_Ok in Hgx as [Hx _]. revert Hx. slot. congruence. } subst x.
  assert (HltP : P < length t) by (eapply nth_error_Some_lt; eauto).
  assert (Hltid : id < length t) by (eapply nth_error_Some_lt; eauto).
  assert (Hltc : child < length t) by (eapply nth_error_Some_lt; eauto).
  assert (pn = node_add_child nP child new_edge).
  { apply get_Ok in Hpn as [Hx _]. revert Hx. slot. congruence. } subst pn.
  destruct (node_remove_child (node_add_child nP child new_edge) id) as [pn'|] eqn:Hrm; [|discriminate].
  injection Ht3 as <-.
  destruct (nac_fields nP child new_edge) as (Gid & Gpar & Gpe & Gdep & Gdel & Gch).
  destruct (nrc_inv _ _ _ Hrm) as (l1 & l2 & Hsplit & Hnl1 & Hch' & Hed' & Fid & Fpar & Fpe & Fdep & Fdel).
  assert (Hndch : NoDup (nchildren nP ++ [child])).
  { apply NoDup_app_iff. splits.
    - rewrite Hch. apply NoDup_map_rid; auto.
    - repeat constructor. simpl; tauto.
    - intros j Hj [<-|[]]. auto. }
  assert (Hch'' : nchildren pn' = ks' ++ [child]).
  { rewrite Hch'. rewrite <- (filter_remove_first _ l1 l2 id Hndch); [|congruence].
    rewrite filter_app. simpl. replace (Nat.eqb child id) with false by (symmetry; apply Nat.eqb_neq; auto).
    reflexivity. }
  set (t4 := replace_nth id tombstone
               (replace_nth P pn' (replace_nth P (node_add_child nP child new_edge)
                  (replace_nth child (node_set_parent nc P new_edge) t)))) in *.
  assert (S_id : nth_error t4 id = Some tombstone) by (unfold t4; slot; auto).
  assert (S_P : nth_error t4 P = Some pn') by (unfold t4; slot; auto).
  assert (S_c : nth_error t4 child = Some (node_set_parent nc P new_edge)) by (unfold t4; slot; auto).
  assert (S_o : forall j, j <> id -> j <> P -> j <> child -> nth_error t4 j = nth_error t j)
    by (intros; unfold t4; slot; auto).
  assert (pn4 = pn'). { apply get_Ok in Hpn4 as [Hx _]. congruence. } subst pn4.
  assert (Hdp : ndepth pn' = dp) by congruence.
  rewrite Hdp.
  assert (Hks'_in : forall c, In c ks' -> In c (nchildren nP) /\ c <> id).
  { intros c Hc. apply filter_In in Hc as [Hc Hkc]. split; auto. unfold keep in Hkc.
    intros ->. rewrite Nat.eqb_refl in Hkc. discriminate. }
  assert (Hkeep_cs : forall j, In j (flat_map ids cs_keep) -> In j (flat_map ids cs))
    by (intros j; apply flat_map_filter_incl).
  assert (Hkeep_ne : forall j, In j (flat_map ids cs_keep) -> j <> id /\ j <> child /\ j <> P).
  { intros j Hj. pose proof (Hkeep_cs _ Hj) as Hj'. apply in_flat_map in Hj as (s & Hs & Hjs).
    splits; intros ->; auto; eapply Hkeep_sid; eauto. }
  destruct (regroup t t4 P pp dp rest nP pn' ks' cs_keep child sc) as (t5 & Hr5 & Hwfs5); auto; try congruence.
  - eapply Forall2_filter; eauto. intros a b Hab. simpl. rewrite (Rep_rid _ _ _ _ _ Hab). auto.
  - intros c nc0 Hc Hnc0. apply Hks'_in in Hc as [Hc Hcid].
    rewrite Hed', edge_get_remove_neq by auto. rewrite nac_edge_neq by congruence. eauto.
  - apply NoDup_cons_iff. split.
    + intros Hin. apply HPn. auto.
    + apply NoDup_flat_map_filter. auto.
  - intros j Hj. apply Hdisj. apply in_ids_RT. destruct Hj as [->|Hj]; auto.
  - intros j Hj. apply S_o; intros ->; eapply Hdisj; eauto; apply in_ids_RT; auto.
  - intros j Hj. apply Hkeep_ne in Hj as (? & ? & ?). apply S_o; auto.
  - intros na Hna. assert (na = node_set_parent nc P new_edge) by congruence. subst na. simpl.
    rewrite Hed', edge_get_remove_neq by auto. apply nac_edge_eq. auto.
  - intros c Hc. rewrite Hed' in Hc. rewrite Hch''.
    assert (Hcid : c <> id).
    { intros ->. rewrite edge_get_remove_eq in Hc; [congruence|]. apply nac_sorted. eauto. }
    rewrite edge_get_remove_neq in Hc by auto. apply in_or_app.
    destruct (Nat.eq_dec c child) as [->|Hcc]; [right; simpl; auto|left].
    rewrite nac_edge_neq in Hc by auto. apply filter_In. split; auto.
    unfold keep. apply Nat.eqb_neq in Hcid. rewrite Hcid. reflexivity.
  - eapply Rep0_reparent; eauto. intros j Hj Hjc. apply S_o; auto; intros ->; auto.
  - intros j Hj. splits.
    + intros ->. auto.
    + intros Hj'. apply in_flat_map in Hj' as (s & Hs & Hjs). eapply Hkeep_sid; eauto.
    + apply Hdisj. apply in_ids_RT. auto.
  - unfold t4. repeat apply SortedEdges_replace; auto.
    + simpl. eauto.
    + apply nac_sorted. eauto.
    + rewrite Hed'. apply ksorted_remove. apply nac_sorted. eauto.
    + apply tombstone_sorted.
  - intros j Hj.
    assert (Hjid : j <> id). { intros ->. destruct Hj as (nj & Hnj & Hdj). rewrite S_id in Hnj. injection Hnj as <-. discriminate. }
    destruct (Nat.eq_dec j P) as [->|HjP]; auto.
    assert (Hlj : live t j).
    { destruct (Nat.eq_dec j child) as [->|Hjc]; [exists nc; auto|].
      destruct Hj as (nj & Hnj & Hdj). rewrite S_o in Hnj by auto. exists nj; auto. }
    apply Hlive' in Hlj. eapply Permutation_in in Hlj; [|exact Hperm].
    apply in_app_or in Hlj as [Hlj|Hlj]; auto.
    apply in_ids_RT in Hlj as [?|Hlj]; [congruence|].
    apply in_flat_map in Hlj as (s & Hs & Hjs).
    destruct (keep (rid s)) eqn:Hks.
    + right. left. apply in_flat_map. exists s. split; auto. apply filter_In. auto.
    + right. right. left. unfold keep in Hks. apply Bool.negb_false_iff, Nat.eqb_eq in Hks.
      assert (s = RT id [sc]) by (eapply rid_inj_in; eauto). subst s.
      apply in_ids_RT in Hjs as [?|Hjs]; [congruence|]. simpl in Hjs. rewrite app_nil_r in Hjs. auto.
  - rewrite Hr5. exact I.
Qed.

Theorem compress_safe t : WFS t -> safe (fst (compress O t)).
Proof.
  unfold compress. generalize (map (@nid L) (filter (fun n => negb (ndeleted n) && negb (is_root n) && Nat.eqb (length (nchildren n)) 1) t)).
  intros l. revert t. induction l as [|i l IH]; intros t Hwfs; simpl; [exact I|].
  pose proof (compress_node_safe t i Hwfs) as Hs.
  destruct (compress_node O t i) as [t'|err| |] eqn:E; simpl in Hs; try contradiction; [|exact I].
  apply IH. eapply compress_node_wf; eauto.
Qed.

(* ---- resolve ------------------------------------------------------------------------------------------------ *)
(* one grouping step: the final depth recomputation succeeds (after WFOps.resolve_node_wf / group2_wf) *)
Lemma resolve_once_reset_ok t node n c1 c2 n1 t2 t3 pn t4 n2 t5 t6 pn2 t7 pp :
  WFS t -> get t node = Ok n -> In c1 (nchildren n) -> In c2 (nchildren n) -> c1 <> c2 ->
  let new := length t in
  let T1 := replace_nth node (node_add_child n new (Some (l0 O)))
              (t ++ [leaf_node new None None node (Some (l0 O)) (ndepth n + 1)]) in
  get T1 c1 = Ok n1 ->
  upd T1 new (fun x => node_add_child x c1 (npedge n1)) = Ok t2 ->
  upd t2 c1 (fun x => node_set_parent x new (npedge n1)) = Ok t3 ->
  get t3 node = Ok pn ->
  match node_remove_child pn c1 with Some pn' => Ok (replace_nth node pn' t3) | None => Err NodeError end = Ok t4 ->
  get t4 c2 = Ok n2 ->
  upd t4 new (fun x => node_add_child x c2 (npedge n2)) = Ok t5 ->
  upd t5 c2 (fun x => node_set_parent x new (npedge n2)) = Ok t6 ->
  get t6 node = Ok pn2 ->
  match node_remove_child pn2 c2 with Some pn' => Ok (replace_nth node pn' t6) | None => Err NodeError end = Ok t7 ->
  get t7 new = Ok pp ->
  exists t8, reset_depth_f (fuel_of t7) t7 new (ndepth pp) = Ok t8.
Proof.
  intros Hwfs Hgn Hc1 Hc2 Hc12 new T1 Hg1 Ht2 Ht3 Hgpn Ht4 Hg2 Ht5 Ht6 Hgpn2 Ht7 Hgpp.
  pose proof Hwfs as [Hwf Hse]. pose proof Hgn as Hgn'. apply get_Ok in Hgn' as [Hn Hdn].
  destruct (WF_node_facts t node n Hwf Hn Hdn) as (Hndch & Hchl & He2 & FidP).
  assert (HltP : node < length t) by (eapply nth_error_Some_lt; eauto).
  destruct (Hchl _ Hc1) as [Hl1 Hc1P]. destruct (Hchl _ Hc2) as [Hl2 Hc2P].
  assert (Hlt1 : c1 < length t) by (apply live_lt; auto).
  assert (Hlt2 : c2 < length t) by (apply live_lt; auto).
  assert (Hc1n : c1 <> new) by (unfold new; lia). assert (Hc2n : c2 <> new) by (unfold new; lia).
  assert (HPn : node <> new) by (unfold new; lia).
  set (pe := Some (l0 O)) in *.
  set (Y := leaf_node new None None node pe (ndepth n + 1)) in *.
  set (XP0 := node_add_child n new pe) in *.
  destruct (slots_add_leaf t node XP0 Y HltP) as (HsP & Hsnew & Hsfr & Hslen).
  fold T1 in HsP, Hsnew, Hsfr, Hslen. fold new in Hsnew, Hsfr.
  apply get_Ok in Hg1 as [Hn1 Hd1]. rewrite Hsfr in Hn1 by auto.
  set (e1 := npedge n1) in *.
  assert (Hg_new : get T1 new = Ok Y) by (apply get_Ok; auto).
  rewrite (upd_Ok _ _ _ _ Hg_new) in Ht2. injection Ht2 as <-.
  assert (Hg_c1 : get (replace_nth new (node_add_child Y c1 e1) T1) c1 = Ok n1).
  { apply get_Ok. split; auto. slot. rewrite Hsfr by auto. auto. }
  rewrite (upd_Ok _ _ _ _ Hg_c1) in Ht3. injection Ht3 as <-.
  set (A := node_set_parent n1 new e1) in *.
  assert (pn = XP0). { apply get_Ok in Hgpn as [Hx _]. revert Hx. slot. congruence. } subst pn.
  destruct (node_remove_child XP0 c1) as [pn'|] eqn:Hrm1; [|discriminate]. injection Ht4 as <-.
  apply get_Ok in Hg2 as [Hn2 Hd2]. revert Hn2. slot. rewrite Hsfr by auto. intros Hn2.
  set (e2 := npedge n2) in *.
  set (t4' := replace_nth node pn' (replace_nth c1 A (replace_nth new (node_add_child Y c1 e1) T1))) in *.
  assert (Hg_new4 : get t4' new = Ok (node_add_child Y c1 e1)).
  { apply get_Ok. split; [unfold t4'; slot; auto|]. unfold Y. destruct e1; reflexivity. }
  rewrite (upd_Ok _ _ _ _ Hg_new4) in Ht5. injection Ht5 as <-.
  set (XN := node_add_child (node_add_child Y c1 e1) c2 e2) in *.
  assert (Hg_c2 : get (replace_nth new XN t4') c2 = Ok n2).
  { apply get_Ok. split; auto. unfold t4'. slot. rewrite Hsfr by auto. auto. }
  rewrite (upd_Ok _ _ _ _ Hg_c2) in Ht6. injection Ht6 as <-.
  set (B := node_set_parent n2 new e2) in *.
  assert (pn2 = pn'). { apply get_Ok in Hgpn2 as [Hx _]. revert Hx. unfold t4'. slot. congruence. } subst pn2.
  destruct (node_remove_child pn' c2) as [pn''|] eqn:Hrm2; [|discriminate]. injection Ht7 as <-.
  set (t7' := replace_nth node pn'' (replace_nth c2 B (replace_nth new XN t4'))) in *.
  assert (S_P : nth_error t7' node = Some pn'') by (unfold t7', t4'; slot; auto).
  assert (S_new : nth_error t7' new = Some XN) by (unfold t7', t4'; slot; auto).
  assert (S_c1 : nth_error t7' c1 = Some A) by (unfold t7', t4'; slot; auto).
  assert (S_c2 : nth_error t7' c2 = Some B) by (unfold t7', t4'; slot; auto).
  assert (S_o : forall j, j <> node -> j <> new -> j <> c1 -> j <> c2 -> nth_error t7' j = nth_error t j).
  { intros. unfold t7', t4'. slot. rewrite Hsfr by auto. auto. }
  assert (pp = XN). { apply get_Ok in Hgpp as [Hx _]. congruence. } subst pp.
  destruct (nac_fields n new pe) as (Gid & Gpar & Gpe & Gdep & Gdel & Gch).
  fold XP0 in Gid, Gpar, Gpe, Gdep, Gdel, Gch.
  assert (Hnew_none : edge_get (nedges n) new = None).
  { destruct (edge_get (nedges n) new) eqn:E; auto. exfalso.
    assert (Hin : In new (nchildren n)) by (apply He2; congruence).
    apply Hchl in Hin as [Hl _]. apply live_lt in Hl. unfold new in Hl. lia. }
  assert (Hnd0 : NoDup (nchildren XP0)).
  { rewrite Gch. apply NoDup_app_iff. splits; auto.
    - repeat constructor. simpl; tauto.
    - intros j Hj [<-|[]]. apply Hchl in Hj as [Hl _]. apply live_lt in Hl. unfold new in Hl. lia. }
  assert (Hks0 : ksorted (nedges XP0)) by (apply nac_sorted; eauto).
  destruct (nrc2_facts XP0 c1 c2 pn' pn'' Hnd0 Hks0 Hc12 Hrm1 Hrm2)
    as (F1 & F2 & F3 & F4 & F5 & Fch & Feo & Fe1 & Fe2 & Fks).
  assert (nid XN = new /\ nparent XN = Some node /\ npedge XN = pe /\ ndeleted XN = false /\
          nchildren XN = [c1; c2] /\ ndepth XN = ndepth n + 1) as (W1 & W2 & W3 & W4 & W5 & W6)
    by (unfold XN, Y; destruct e1, e2; simpl; auto 10).
  rewrite W6.
  destruct (group2_wf t t7' node n c1 c2 n1 n2 pe e1 e2 pn'' XN) as (t8' & Hr8 & Hwfs8); auto; try congruence.
  - rewrite Fch, Gch, filter_app. simpl.
    replace (Nat.eqb new c1) with false by (symmetry; apply Nat.eqb_neq; auto).
    replace (Nat.eqb new c2) with false by (symmetry; apply Nat.eqb_neq; auto). reflexivity.
  - intros c Hq1 Hq2 Hq3. rewrite Feo by auto. unfold XP0. apply nac_edge_neq; auto.
  - rewrite Feo by auto. unfold XP0. apply nac_edge_eq; auto.
  - unfold XN. rewrite nac_edge_neq by auto. apply nac_edge_eq. reflexivity.
  - unfold XN. apply nac_edge_eq. rewrite nac_edge_neq by auto. reflexivity.
  - unfold XN. intros c Hc.
    destruct (Nat.eq_dec c c2) as [->|Hcc2]; auto. rewrite nac_edge_neq in Hc by auto.
    destruct (Nat.eq_dec c c1) as [->|Hcc1]; auto. rewrite nac_edge_neq in Hc by auto.
    simpl in Hc. congruence.
  - unfold t7', t4'. repeat apply SortedEdges_replace.
    + apply SortedEdges_app; auto. constructor.
    + auto.
    + apply nac_sorted. constructor.
    + unfold A. simpl. eauto.
    + destruct (nrc_inv _ _ _ Hrm1) as (? & ? & _ & _ & _ & -> & _). apply ksorted_remove. auto.
    + unfold XN. apply nac_sorted, nac_sorted. constructor.
    + unfold B. simpl. eauto.
    + auto.
  - exists t8'. fold new in Hr8. exact Hr8.
Qed.

Lemma resolve_node_safe : forall fuel t id ch,
  WFS t -> 1 <= fuel -> (forall n, get t id = Ok n -> length (nchildren n) <= fuel + 2) ->
  safe (resolve_node_f O fuel t id ch).
Proof.
  induction fuel as [|f IH]; intros t id ch Hwfs Hf Hlen; [lia|].
  cbn [resolve_node_f].
  apply safe_bind; [apply get_safe|]. intros n Hgn.
  destruct ch as [|[c1 c2] rest]; [exact I|].
  destruct (negb (mem_nat c1 (nchildren n) && mem_nat c2 (nchildren n) && negb (Nat.eqb c1 c2))) eqn:Hcond; [exact I|].
  apply Bool.negb_false_iff in Hcond. apply andb_prop in Hcond as [Hcond Hc12]. apply andb_prop in Hcond as [Hc1 Hc2].
  apply mem_nat_In in Hc1, Hc2. apply Bool.negb_true_iff, Nat.eqb_neq in Hc12.
  rewrite (add_child_Ok _ _ _ _ _ _ Hgn). rewrite bind_ret.
  apply safe_bind; [apply get_safe|]. intros n1 Hg1.
  apply safe_bind; [apply upd_safe|]. intros t2 Ht2.
  apply safe_bind; [apply upd_safe|]. intros t3 Ht3.
  apply safe_bind; [apply get_safe|]. intros pn Hgpn.
  apply safe_bind; [destruct (node_remove_child pn c1); exact I|]. intros t4 Ht4.
  apply safe_bind; [apply get_safe|]. intros n2 Hg2.
  apply safe_bind; [apply upd_safe|]. intros t5 Ht5.
  apply safe_bind; [apply upd_safe|]. intros t6 Ht6.
  apply safe_bind; [apply get_safe|]. intros pn2 Hgpn2.
  apply safe_bind; [destruct (node_remove_child pn2 c2); exact I|]. intros t7 Ht7.
  apply safe_bind; [apply get_safe|]. intros pp Hgpp.
  destruct (resolve_once_reset_ok t id n c1 c2 n1 t2 t3 pn t4 n2 t5 t6 pn2 t7 pp
              Hwfs Hgn Hc1 Hc2 Hc12 Hg1 Ht2 Ht3 Hgpn Ht4 Hg2 Ht5 Ht6 Hgpn2 Ht7 Hgpp) as (t8 & Ht8).
  rewrite Ht8. rewrite bind_ret.
  destruct (Nat.leb (length (nchildren n) - 1) 2) eqn:Hle; [exact I|].
  apply Nat.leb_gt in Hle. pose proof (Hlen n Hgn) as Hn.
  destruct (Effects.resolve_once_exact O t id n c1 c2 n1 t2 t3 pn t4 n2 t5 t6 pn2 t7 pp t8
              Hwfs Hgn Hc1 Hc2 Hc12 Hg1 Ht2 Ht3 Hgpn Ht4 Hg2 Ht5 Ht6 Hgpn2 Ht7 Hgpp Ht8)
    as (Hwfs8 & _ & _ & _ & _ & _ & _ & _ & _ & (nP' & HnP' & _ & _ & Hcnt) & _).
  apply IH; auto; [lia|].
  intros n' Hg'. apply get_Ok in Hg' as [Hn' _]. assert (n' = nP') by congruence. subst n'. lia.
Qed.

Theorem resolve_safe t ch : WFS t -> safe (resolve O t ch).
Proof.
  intros Hwfs. unfold resolve.
  eapply safe_bind_sp with (Q := fun st : option (arena * list (nat * nat)) =>
                                   match st with Some (t', _) => WFS t' | None => True end).
  - apply sp_foldM; [|exact Hwfs]. intros [[s c]|] x Hs _; [|exact I].
    assert (Hsafe : safe (resolve_node_f O (fuel_of s) s x c)).
    { apply resolve_node_safe; auto; [unfold fuel_of; lia|].
      intros n Hg. apply get_Ok in Hg as [Hn Hd]. destruct Hs as [Hwf _].
      destruct (WF_node_facts s x n Hwf Hn Hd) as (Hnd & Hl & _).
      pose proof (NoDup_bounded_length (nchildren n) (length s) Hnd) as Hb.
      unfold fuel_of. assert (length (nchildren n) <= length s); [|lia].
      apply Hb. intros c' Hc'. apply live_lt. apply Hl; auto. }
    destruct (resolve_node_f O (fuel_of s) s x c) as [[[t' r']|]|e| |] eqn:E; simpl in Hsafe; try contradiction;
      simpl; auto.
    eapply resolve_node_wf; eauto.
  - intros [[t' [|]]|] _; exact I.
Qed.

End Mutators.

(* ================================================================================================ *)
(* 6. constructors (re-exported from ParserProps / Generators)                                        *)
(*                                                                                                    *)
(*   from_newick (any text)                       from_newick_safe                                    *)
(*   generate_tree / _yule / _caterpillar         generators_safe                                     *)
(* ================================================================================================ *)
Theorem from_newick_safe {L : Type} (parse_len : str -> option L) (s : str) : safe (from_newick parse_len s).
Proof. exact (ParserProps.parse_total parse_len s). Qed.

Theorem generators_safe {L : Type} n b parents (lens : list L) :
  safe (generate_tree n b parents lens) /\ safe (generate_yule n b parents lens) /\
  safe (generate_caterpillar n b lens).
Proof. exact (Generators.gen_no_panic n b parents lens). Qed.

(* ================================================================================================ *)
(* 7. C20 — the statements under the reachable-state invariant                                        *)
(* ================================================================================================ *)
Section C20.
Context {L : Type}.
Variable O : LenOps L.
Notation arena := (@arena L).
Notation dmat := (@dmat L).

(* (a) queries on one arena: every id / pair of ids / bit list / format *)
Theorem C20_queries (t : arena) : Inv t ->
  (forall i, safe (preorder t i) /\ safe (postorder t i) /\ safe (inorder t i) /\ safe (levelorder t i) /\
             safe (get_subtree t i) /\ safe (get_descendants t i) /\ safe (get_subtree_leaves t i) /\
             safe (get_path_from_root t i) /\ safe (get_partition (tree_of t) i)) /\
  (forall a b, safe (get_common_ancestor t a b) /\ safe (get_distance O t a b)) /\
  safe (get_root t) /\ safe (is_rooted t) /\ safe (is_binary t) /\
  safe (cherries t) /\ safe (colless t) /\ safe (sackin t) /\
  safe (height O t) /\ safe (diameter O t) /\ safe (length_ O t) /\
  safe (get_leaf_names t) /\ safe (has_unique_tip_names t) /\ safe (init_leaf_index (tree_of t)) /\
  safe (get_partitions O (tree_of t)) /\ safe (get_partitions_with_lengths O (tree_of t)) /\
  (forall b, safe (partition_to_leaves (tree_of t) b)) /\
  safe (distance_matrix O t) /\ safe (distance_matrix_recursive O (tree_of t)) /\
  safe (to_newick t) /\ (forall f, safe (to_formatted_newick t f)) /\ safe (to_nexus t) /\
  safe (radial_layout O t).
Proof.
  intros HI. pose proof (Inv_WF t HI) as Hwf.
  split; [intros i; repeat split|]; [apply preorder_safe|apply postorder_safe|apply inorder_safe|
    apply levelorder_safe|apply get_subtree_safe|apply get_descendants_safe|apply get_subtree_leaves_safe|
    apply path_safe|apply get_partition_safe|]; auto.
  split; [intros a b; split; [apply lca_safe|apply dist_safe]; auto|].
  repeat split.
  - apply get_root_safe.
  - apply is_rooted_safe.
  - apply is_binary_safe.
  - apply cherries_safe.
  - apply colless_safe; auto.
  - apply sackin_safe; auto.
  - apply height_safe; auto.
  - apply diameter_safe; auto.
  - apply length_safe.
  - apply get_leaf_names_safe; auto.
  - apply has_unique_tip_names_safe; auto.
  - apply init_leaf_index_safe; auto.
  - apply get_partitions_safe; auto.
  - apply get_partitions_with_lengths_safe; auto.
  - intros b. apply partition_to_leaves_safe; auto.
  - apply distance_matrix_safe; auto.
  - apply distance_matrix_recursive_safe; auto.
  - apply to_newick_safe; auto.
  - intros f. apply to_formatted_newick_safe; auto.
  - apply to_nexus_safe; auto.
  - apply radial_layout_safe; auto.
Qed.

(* (b) comparisons between two arenas *)
Theorem C20_comparisons (t1 t2 : arena) : Inv t1 -> Inv t2 ->
  safe (robinson_foulds O (tree_of t1) (tree_of t2)) /\
  safe (robinson_foulds_norm O (tree_of t1) (tree_of t2)) /\
  (forall sq, safe (weighted_rf O sq (tree_of t1) (tree_of t2))) /\
  safe (compare_topologies O (tree_of t1) (tree_of t2)) /\
  (forall tips, safe (compare_branch_lengths O (tree_of t1) (tree_of t2) tips)).
Proof.
  intros H1 H2. pose proof (Inv_WF _ H1) as W1. pose proof (Inv_WF _ H2) as W2. repeat split.
  - apply robinson_foulds_safe; auto.
  - apply robinson_foulds_norm_safe; auto.
  - intros sq. apply weighted_rf_safe; auto.
  - apply compare_topologies_safe; auto.
  - intros tips. apply compare_branch_lengths_safe; auto.
Qed.

(* (b') the same on every cache state reachable through the query API: fresh, leaf index filled, leaf index
   and partitions filled; every query leaves the tree(s) in such a state again *)
Theorem C20_cached (t1 t2 : arena) (s o : @tree L) : Inv t1 -> Inv t2 -> CS O t1 s -> CS O t2 o ->
  (safe (init_leaf_index s) /\
   (forall i, sp (fun x => CS O t1 (snd x)) (get_partition s i)) /\
   sp (fun x => CS O t1 (snd x)) (get_partitions O s) /\
   sp (fun x => CS O t1 (snd x)) (get_partitions_with_lengths O s) /\
   (forall b, sp (fun x => CS O t1 (snd x)) (partition_to_leaves s b)) /\
   sp (fun x => CS O t1 (snd x)) (distance_matrix_recursive O s)) /\
  (let post := fun (s' o' : @tree L) => CS O t1 s' /\ CS O t2 o' in
   sp (fun x => post (snd (fst x)) (snd x)) (robinson_foulds O s o) /\
   sp (fun x => post (snd (fst x)) (snd x)) (robinson_foulds_norm O s o) /\
   (forall sq, sp (fun x => post (snd (fst x)) (snd x)) (weighted_rf O sq s o)) /\
   sp (fun x => post (snd (fst x)) (snd x)) (compare_topologies O s o) /\
   (forall tips, sp (fun x => post (snd (fst x)) (snd x)) (compare_branch_lengths O s o tips))).
Proof.
  intros H1 H2 C1 C2. pose proof (Inv_WF _ H1) as W1. pose proof (Inv_WF _ H2) as W2. split.
  - destruct (cached_queries_closed O t1 s W1 C1) as (A & B & C & D & E).
    repeat split; auto. apply distance_matrix_recursive_any_sp; auto.
  - apply cached_comparisons_closed; auto.
Qed.

(* (c) mutators: the returned outcome, for all arguments; the arena left behind satisfies Inv again
   (Invariants.inv_step) *)
Theorem C20_mutators (t : arena) : Inv t ->
  (forall nm cm p e, safe (add_child t (new_node nm cm) p e)) /\
  (forall x, safe (prune t x)) /\
  safe (fst (compress O t)) /\
  (forall ch, safe (resolve O t ch)) /\
  safe (ladderize t) /\ safe (reset_depths t) /\
  (forall c1 c2 e1 e2 pe nm, safe (fst (merge_children t c1 c2 e1 e2 pe nm))).
Proof.
  intros HI. pose proof (Inv_WFS t HI) as Hwfs. pose proof (Inv_WF t HI) as Hwf. repeat split.
  - intros. apply add_child_safe.
  - intros. apply prune_safe; auto.
  - apply compress_safe; auto.
  - intros. apply resolve_safe; auto.
  - apply ladderize_safe; auto.
  - apply reset_depths_safe; auto.
  - intros. apply merge_children_safe; auto.
Qed.

(* (d) matrices of any size (0, 1, 2, ...) with a full triangular cell vector; any names / values *)
Theorem C20_matrix (m : dmat) : MatOK m ->
  (forall a b, safe (dm_get O m a b)) /\ (forall a b v, safe (dm_set O m a b v)) /\
  (forall x, safe (taxa_index m x)) /\ safe (dm_to_map O m) /\ (forall sq, safe (to_phylip O m sq)).
Proof.
  intros HM. repeat split; intros.
  - apply dm_get_safe; auto.
  - apply dm_set_safe; auto.
  - apply taxa_index_safe.
  - apply dm_to_map_safe; auto.
  - apply to_phylip_safe; auto.
Qed.

(* (e) readers: any text *)
Theorem C20_readers (parse_cell parse_len : str -> option L) (text : str) :
  safe (from_phylip_tril parse_cell text) /\ (forall sq, safe (from_phylip_strict O parse_cell text sq)) /\
  safe (from_newick parse_len text).
Proof.
  repeat split; intros.
  - apply from_phylip_tril_safe.
  - apply from_phylip_strict_safe.
  - apply from_newick_safe.
Qed.

(* (f) UPGMA: fewer than two taxa is an error value; a well-formed input gives a tree satisfying Inv *)
Theorem C20_upgma (Fin : L -> Prop) (HSep : UpgmaProps.Separated O Fin) (m : dmat) :
  (msize m < 2 -> upgma O m = Err IndexError) /\
  (UpgmaProps.upgma_pre Fin m -> safe (upgma O m) /\ forall t, upgma O m = Ok t -> Inv t).
Proof.
  split.
  - intros H. apply (upgma_too_small O m H).
  - intros H. split; [eapply upgma_safe; eauto|]. intros t Ht. eapply upgma_inv; eauto.
Qed.

(* (g) every arena reachable from the empty arena by the editing operations (whatever they returned) *)
Corollary C20_reachable (ops : list (@op L)) :
  let t := fold_left (step O) ops (@nil (@node L)) in
  Inv t /\
  (forall i, safe (preorder t i) /\ safe (get_path_from_root t i) /\ safe (get_partition (tree_of t) i) /\
             safe (prune t i)) /\
  safe (get_partitions O (tree_of t)) /\ safe (distance_matrix O t) /\ safe (to_newick t) /\
  safe (fst (compress O t)) /\ (forall ch, safe (resolve O t ch)).
Proof.
  intros t. assert (HI : Inv t) by apply inv_reachable.
  destruct (C20_queries t HI) as (Hq & _ & _ & _ & _ & _ & _ & _ & _ & _ & _ & _ & _ & _ & Hgp & _ & _ & Hdm & _ & Hnw & _).
  destruct (C20_mutators t HI) as (_ & Hpr & Hco & Hre & _).
  split; auto. split; [|auto].
  intros i. destruct (Hq i) as (H1 & _ & _ & _ & _ & _ & _ & H8 & H9). auto.
Qed.

End C20.

(* ------------------------------------------------------------------------------------------------
   NOT covered by a theorem of this file:
     - arenas outside Inv (several roots, hand-made cycles, live slots whose id field differs from
       their position): not attempted;
     - trees whose caches are inconsistent with their arena (a leaf index / partitions cache that was
       not produced by the queries on that same arena): only the cache states [CS] reachable through
       the API are covered;
     - add_child is stated for nodes built by Node::new / new_named ([new_node nm cm]), not for an
       arbitrary record (e.g. one already flagged as removed);
     - upgma between "fewer than two taxa" and UpgmaProps.upgma_pre (wrong cell count, cells outside
       [Fin], a comparison that is not [Separated]): for an arbitrary LenOps the unwrap at site 34 is
       reachable (UpgmaProps.upgma_total);
     - dm_set_taxa, tril_to_vec_index, dm_min, dm_max, dm_indexed, get_leaves, n_leaves, search_nodes,
       get_by_name, rescale, tree_of / with_nodes / reset_bipartition_cache: total functions without
       Panic site or fuel, nothing to prove;
     - termination is "no OutOfFuel with the fuel fixed in the model"; that the fuel of the model is
       not a restriction of the real code on arenas outside Inv is not claimed.
   ------------------------------------------------------------------------------------------------ *)

Print Assumptions C20_queries.
Print Assumptions C20_comparisons.
Print Assumptions C20_cached.
Print Assumptions C20_mutators.
Print Assumptions C20_matrix.
Print Assumptions C20_readers.
Print Assumptions C20_upgma.
Print Assumptions C20_reachable.
Print Assumptions generators_safe.
