(* Tril.v — the pair <-> cell correspondence of the triangular storage is a bijection for every
   matrix size, and the storage laws of DistanceMatrix that follow from it.  PROOF FILE. *)
From PT Require Import Matrix.
From Coq Require Import Lia ZArith NArith List Arith Bool.
Import ListNotations.

(* ---- triangular numbers ------------------------------------------------------------------------- *)
Definition T (p : nat) : nat := p * (p + 1) / 2.

Lemma even_pp1 : forall p, exists m, p * (p + 1) = 2 * m.
Proof.
  induction p as [|p [m Hm]].
  - exists 0. reflexivity.
  - exists (m + p + 1). lia.
Qed.

Lemma T_double : forall p, 2 * T p = p * (p + 1).
Proof.
  intros p. unfold T. destruct (even_pp1 p) as [m Hm]. rewrite Hm.
  replace (2 * m) with (m * 2) by lia. rewrite Nat.div_mul by lia. lia.
Qed.

Lemma T_S : forall p, T (S p) = T p + S p.
Proof.
  intros p. pose proof (T_double p). pose proof (T_double (S p)). nia.
Qed.

Lemma T_0 : T 0 = 0.
Proof. reflexivity. Qed.

Lemma T_mono : forall p q, p <= q -> T p <= T q.
Proof.
  intros p q H. induction H.
  - lia.
  - rewrite T_S. lia.
Qed.

Lemma T_smono : forall p q, p < q -> T p < T q.
Proof.
  intros p q H. apply Nat.lt_le_trans with (T (S p)).
  - rewrite T_S. lia.
  - apply T_mono. lia.
Qed.

Lemma tri_pred : forall i, (i - 1) * i / 2 = T (i - 1).
Proof.
  intros i. unfold T. destruct i as [|i].
  - reflexivity.
  - replace (S i - 1) with i by lia. replace (i + 1) with (S i) by lia. reflexivity.
Qed.

Lemma tri_size : forall n, n * (n - 1) / 2 = T (n - 1).
Proof. intros n. rewrite Nat.mul_comm. apply tri_pred. Qed.

Lemma tril_idx_lt : forall i j, j < i -> tril_idx i j = T (i - 1) + j.
Proof.
  intros i j H. unfold tril_idx. apply Nat.ltb_lt in H. rewrite H. rewrite tri_pred. reflexivity.
Qed.

(* uniqueness of the row containing a cell *)
Lemma T_row_unique : forall k p q, T p <= k < T (S p) -> T q <= k < T (S q) -> p = q.
Proof.
  intros k p q [Hp1 Hp2] [Hq1 Hq2].
  destruct (Nat.lt_trichotomy p q) as [H|[H|H]]; [|assumption|].
  - assert (T (S p) <= T q) by (apply T_mono; lia). lia.
  - assert (T (S q) <= T p) by (apply T_mono; lia). lia.
Qed.

(* ---- the six index theorems -------------------------------------------------------------------- *)
Theorem tril_sym : forall i j, tril_idx i j = tril_idx j i.
Proof.
  intros i j. unfold tril_idx.
  destruct (Nat.ltb j i) eqn:E1; destruct (Nat.ltb i j) eqn:E2; try reflexivity.
  - apply Nat.ltb_lt in E1. apply Nat.ltb_lt in E2. lia.
  - apply Nat.ltb_ge in E1. apply Nat.ltb_ge in E2. assert (i = j) by lia. subst. reflexivity.
Qed.

Theorem tril_lt : forall n i j, j < i -> i < n -> tril_idx i j < n * (n - 1) / 2.
Proof.
  intros n i j Hj Hi. rewrite tril_idx_lt by assumption. rewrite tri_size.
  assert (T (S (i - 1)) <= T (n - 1)) by (apply T_mono; lia).
  rewrite T_S in H. lia.
Qed.

Theorem tril_inj : forall i j i' j', j < i -> j' < i' -> tril_idx i j = tril_idx i' j' -> i = i' /\ j = j'.
Proof.
  intros i j i' j' H H' E. rewrite !tril_idx_lt in E by assumption.
  assert (i - 1 = i' - 1).
  { apply (T_row_unique (T (i - 1) + j)).
    - rewrite T_S. lia.
    - rewrite E. rewrite T_S. lia. }
  assert (i = i') by lia. subst i'. lia.
Qed.

(* the square-root formula finds the row *)
Lemma sqrt_row : forall k,
  let p := (N.to_nat (N.sqrt (1 + 8 * N.of_nat k)) - 1) / 2 in T p <= k < T (S p).
Proof.
  intros k p.
  pose proof (N.sqrt_spec (1 + 8 * N.of_nat k) (N.le_0_l _)) as [Hs1 Hs2].
  set (s := N.sqrt (1 + 8 * N.of_nat k)) in *.
  assert (H1 : N.to_nat s * N.to_nat s <= 1 + 8 * k) by lia.
  assert (H2 : 1 + 8 * k < (N.to_nat s + 1) * (N.to_nat s + 1)).
  { lia. }
  set (s' := N.to_nat s) in *.
  assert (Hp : 2 * p <= s' - 1 < 2 * p + 2).
  { unfold p. pose proof (Nat.div_mod (s' - 1) 2). pose proof (Nat.mod_upper_bound (s' - 1) 2). lia. }
  assert (s' >= 1) by nia.
  pose proof (T_double p). pose proof (T_S p).
  split.
  - assert ((2 * p + 1) * (2 * p + 1) <= s' * s') by (apply Nat.mul_le_mono; lia).
    nia.
  - assert ((s' + 1) * (s' + 1) <= (2 * p + 3) * (2 * p + 3)) by (apply Nat.mul_le_mono; lia).
    nia.
Qed.

Lemma tril_inv_eq : forall k,
  tril_inv k = let p := (N.to_nat (N.sqrt (1 + 8 * N.of_nat k)) - 1) / 2 in (p + 1, k - T p).
Proof. reflexivity. Qed.

Theorem tril_inv_l : forall i j, j < i -> tril_inv (tril_idx i j) = (i, j).
Proof.
  intros i j H. rewrite tril_inv_eq. cbv zeta.
  pose proof (sqrt_row (tril_idx i j)) as Hr. cbv zeta in Hr.
  set (p := (N.to_nat (N.sqrt (1 + 8 * N.of_nat (tril_idx i j))) - 1) / 2) in *.
  rewrite tril_idx_lt in * by assumption.
  assert (p = i - 1).
  { apply (T_row_unique (T (i - 1) + j)); [assumption|]. rewrite T_S. lia. }
  rewrite H0. f_equal; lia.
Qed.

Theorem tril_inv_r : forall k, let '(i, j) := tril_inv k in j < i /\ tril_idx i j = k.
Proof.
  intros k. rewrite tril_inv_eq. cbv zeta.
  pose proof (sqrt_row k) as Hr. cbv zeta in Hr.
  set (p := (N.to_nat (N.sqrt (1 + 8 * N.of_nat k)) - 1) / 2) in *.
  rewrite T_S in Hr.
  assert (k - T p < p + 1) by lia.
  split; [assumption|].
  rewrite tril_idx_lt by assumption. replace (p + 1 - 1) with p by lia. lia.
Qed.

Theorem tril_surj : forall n k, k < n * (n - 1) / 2 ->
  let '(i, j) := tril_inv k in j < i /\ i < n /\ tril_idx i j = k.
Proof.
  intros n k Hk. pose proof (tril_inv_r k) as Hr.
  pose proof (sqrt_row k) as Hs. cbv zeta in Hs.
  rewrite tril_inv_eq in *. cbv zeta in *.
  set (p := (N.to_nat (N.sqrt (1 + 8 * N.of_nat k)) - 1) / 2) in *.
  destruct Hr as [Hr1 Hr2]. repeat split; try assumption.
  rewrite tri_size in Hk.
  destruct (Nat.lt_ge_cases (p + 1) n) as [G|G]; [assumption|].
  assert (T (n - 1) <= T p) by (apply T_mono; lia). lia.
Qed.

(* unordered versions *)
Lemma tril_lt_any : forall n i j, i <> j -> i < n -> j < n -> tril_idx i j < n * (n - 1) / 2.
Proof.
  intros n i j Hne Hi Hj. destruct (Nat.lt_ge_cases j i).
  - apply tril_lt; assumption.
  - rewrite tril_sym. apply tril_lt; lia.
Qed.

Lemma tril_inj_any : forall i j i' j', i <> j -> i' <> j' -> tril_idx i j = tril_idx i' j' ->
  (i = i' /\ j = j') \/ (i = j' /\ j = i').
Proof.
  intros i j i' j' H H' E.
  destruct (Nat.lt_ge_cases j i); destruct (Nat.lt_ge_cases j' i').
  - left. apply tril_inj; assumption.
  - right. rewrite (tril_sym i' j') in E. apply tril_inj in E; lia.
  - right. rewrite (tril_sym i j) in E. apply tril_inj in E; lia.
  - left. rewrite (tril_sym i j), (tril_sym i' j') in E. apply tril_inj in E; lia.
Qed.

(* ---- strings and first-match search ---------------------------------------------------------------- *)
Lemma str_eqb_eq : forall a b, str_eqb a b = true <-> a = b.
Proof.
  induction a as [|x a IH]; destruct b as [|y b]; simpl; split; intros H; try reflexivity; try discriminate.
  - apply andb_true_iff in H. destruct H as [H1 H2]. apply N.eqb_eq in H1. apply IH in H2. congruence.
  - inversion H; subst. apply andb_true_iff. split; [apply N.eqb_refl | apply IH; reflexivity].
Qed.

Lemma str_eqb_refl : forall a, str_eqb a a = true.
Proof. intros a. apply str_eqb_eq. reflexivity. Qed.

Lemma str_eqb_neq : forall a b, str_eqb a b = false <-> a <> b.
Proof.
  intros a b. split; intros H.
  - intros E. apply str_eqb_eq in E. congruence.
  - destruct (str_eqb a b) eqn:E; [|reflexivity]. apply str_eqb_eq in E. contradiction.
Qed.

Lemma find_index_some : forall {A} (p : A -> bool) l i, find_index p l = Some i ->
  exists x, nth_error l i = Some x /\ p x = true /\
            forall j y, j < i -> nth_error l j = Some y -> p y = false.
Proof.
  intros A p. induction l as [|a l IH]; intros i H; simpl in H; [discriminate|].
  destruct (p a) eqn:Pa.
  - inversion H; subst. exists a. repeat split; [assumption|]. intros j y Hj. lia.
  - destruct (find_index p l) as [i'|] eqn:F; simpl in H; [|discriminate].
    inversion H; subst. destruct (IH i' eq_refl) as [x [Hx [Px Hfirst]]].
    exists x. repeat split; try assumption.
    intros [|j] y Hj Hy; simpl in Hy.
    + inversion Hy; subst. assumption.
    + apply (Hfirst j); [lia|assumption].
Qed.

Lemma find_index_none : forall {A} (p : A -> bool) l, find_index p l = None ->
  forall x, In x l -> p x = false.
Proof.
  intros A p. induction l as [|a l IH]; intros H x Hin; simpl in *; [contradiction|].
  destruct (p a) eqn:Pa; [discriminate|].
  destruct (find_index p l) eqn:F; simpl in H; [discriminate|].
  destruct Hin as [->|Hin]; [assumption|]. apply IH; [reflexivity|assumption].
Qed.

Lemma find_index_first : forall {A} (p : A -> bool) l i x, nth_error l i = Some x -> p x = true ->
  (forall j y, j < i -> nth_error l j = Some y -> p y = false) -> find_index p l = Some i.
Proof.
  intros A p. induction l as [|a l IH]; intros i x Hn Px Hfirst.
  - destruct i; discriminate.
  - destruct i as [|i]; simpl in *.
    + inversion Hn; subst. rewrite Px. reflexivity.
    + rewrite (Hfirst 0 a) by (try lia; reflexivity).
      rewrite (IH i x Hn Px); [reflexivity|].
      intros j y Hj Hy. apply (Hfirst (S j)); [lia|assumption].
Qed.

Lemma find_str_some : forall a l i, find_str a l = Some i -> nth_error l i = Some a.
Proof.
  intros a l i H. apply find_index_some in H. destruct H as [x [Hx [Px _]]].
  apply str_eqb_eq in Px. subst. assumption.
Qed.

Lemma find_str_lt : forall a l i, find_str a l = Some i -> i < length l.
Proof.
  intros a l i H. apply find_str_some in H. apply nth_error_Some. congruence.
Qed.

Lemma find_str_in : forall a l, In a l -> exists i, find_str a l = Some i.
Proof.
  intros a l Hin. destruct (find_str a l) as [i|] eqn:F; [eauto|].
  pose proof (find_index_none _ _ F a Hin) as H. rewrite str_eqb_refl in H. discriminate.
Qed.

Lemma find_str_none : forall a l, find_str a l = None <-> ~ In a l.
Proof.
  intros a l. split.
  - intros F Hin. destruct (find_str_in a l Hin) as [i Hi]. congruence.
  - intros Hn. destruct (find_str a l) as [i|] eqn:F; [|reflexivity].
    apply find_str_some in F. apply nth_error_In in F. contradiction.
Qed.

(* two names found at the same position are the same name *)
Lemma find_str_same : forall a b l i, find_str a l = Some i -> find_str b l = Some i -> a = b.
Proof.
  intros a b l i Ha Hb. apply find_str_some in Ha. apply find_str_some in Hb. congruence.
Qed.

Lemma find_str_nodup : forall a l i, NoDup l -> (find_str a l = Some i <-> nth_error l i = Some a).
Proof.
  intros a l i Hnd. split; [apply find_str_some|]. intros Hn.
  apply (find_index_first _ _ _ a Hn (str_eqb_refl a)).
  intros j y Hj Hy. apply str_eqb_neq. intros E. subst y.
  assert (j = i); [|lia].
  apply (proj1 (NoDup_nth_error l) Hnd).
  - apply nth_error_Some. congruence.
  - congruence.
Qed.

Lemma nth_error_ext_eq : forall {A} (l l' : list A), (forall n, nth_error l n = nth_error l' n) -> l = l'.
Proof.
  intros A. induction l as [|a l IH]; destruct l' as [|b l']; intros H; try reflexivity;
    try (specialize (H 0); discriminate).
  f_equal.
  - specialize (H 0). simpl in H. congruence.
  - apply IH. intros n. apply (H (S n)).
Qed.

(* ---- replace_at ------------------------------------------------------------------------------------ *)
Section MatrixLaws.
Context {L : Type}.
Variable O : LenOps L.
Notation dmat := (@dmat L).

Lemma replace_at_length : forall (l : list L) k v, length (replace_at l k v) = length l.
Proof. induction l as [|h t IH]; intros [|k] v; simpl; auto. Qed.

Lemma replace_at_same : forall (l : list L) k v, k < length l -> nth_error (replace_at l k v) k = Some v.
Proof.
  induction l as [|h t IH]; intros [|k] v H; simpl in *; try lia; [reflexivity|]. apply IH. lia.
Qed.

Lemma replace_at_other : forall (l : list L) k k' v, k <> k' -> nth_error (replace_at l k v) k' = nth_error l k'.
Proof.
  induction l as [|h t IH]; intros [|k] [|k'] v H; simpl; try reflexivity; try lia. apply IH. lia.
Qed.

(* ---- pair_index ------------------------------------------------------------------------------------ *)
Lemma pair_index_ok : forall (m : dmat) a b idx, pair_index m a b = Ok idx ->
  exists i j, find_str a (mtaxa m) = Some i /\ find_str b (mtaxa m) = Some j /\
              a <> b /\ i <> j /\ i < msize m /\ j < msize m /\ idx = tril_idx i j.
Proof.
  intros m a b idx H. unfold pair_index, taxa_index, tril_to_vec_index in H.
  destruct (str_eqb a b) eqn:Eab; [discriminate|].
  destruct (find_str a (mtaxa m)) as [i|]; simpl in H; [|discriminate].
  destruct (find_str b (mtaxa m)) as [j|]; simpl in H; [|discriminate].
  destruct (Nat.eqb i j) eqn:E1; simpl in H; [discriminate|].
  destruct (Nat.leb (msize m) i) eqn:E2; simpl in H; [discriminate|].
  destruct (Nat.leb (msize m) j) eqn:E3; simpl in H; [discriminate|].
  inversion H; subst. exists i, j.
  apply str_eqb_neq in Eab. apply Nat.eqb_neq in E1. apply Nat.leb_gt in E2. apply Nat.leb_gt in E3.
  repeat split; assumption.
Qed.

Lemma pair_index_intro : forall (m : dmat) a b i j, a <> b ->
  find_str a (mtaxa m) = Some i -> find_str b (mtaxa m) = Some j -> i < msize m -> j < msize m ->
  pair_index m a b = Ok (tril_idx i j).
Proof.
  intros m a b i j Hab Ha Hb Hi Hj. unfold pair_index, taxa_index, tril_to_vec_index.
  apply str_eqb_neq in Hab. rewrite Hab, Ha. simpl. rewrite Hb. simpl.
  assert (i <> j).
  { intros ->. apply str_eqb_neq in Hab. apply Hab. eapply find_str_same; eassumption. }
  apply Nat.eqb_neq in H. rewrite H. apply Nat.leb_gt in Hi. apply Nat.leb_gt in Hj. rewrite Hi, Hj.
  reflexivity.
Qed.

Lemma pair_index_sym : forall (m : dmat) a b, pair_index m a b = pair_index m b a.
Proof.
  intros m a b. unfold pair_index, taxa_index, tril_to_vec_index.
  destruct (str_eqb a b) eqn:Eab.
  - apply str_eqb_eq in Eab. subst. rewrite str_eqb_refl. reflexivity.
  - assert (str_eqb b a = false) as ->.
    { apply str_eqb_neq. apply str_eqb_neq in Eab. congruence. }
    destruct (find_str a (mtaxa m)) as [i|]; destruct (find_str b (mtaxa m)) as [j|]; simpl;
      try reflexivity.
    rewrite (Nat.eqb_sym j i), (tril_sym j i).
    destruct (Nat.eqb i j); destruct (Nat.leb (msize m) i); destruct (Nat.leb (msize m) j); reflexivity.
Qed.

Lemma pair_index_ext : forall (m m' : dmat) a b, msize m' = msize m -> mtaxa m' = mtaxa m ->
  pair_index m' a b = pair_index m a b.
Proof.
  intros m m' a b Hs Ht. unfold pair_index, taxa_index, tril_to_vec_index. rewrite Hs, Ht. reflexivity.
Qed.

Lemma pair_index_no_panic : forall (m : dmat) a b,
  (exists idx, pair_index m a b = Ok idx) \/ (exists e, pair_index m a b = Err e).
Proof.
  intros m a b. unfold pair_index, taxa_index, tril_to_vec_index.
  destruct (str_eqb a b); [right; eauto|].
  destruct (find_str a (mtaxa m)) as [i|]; simpl; [|right; eauto].
  destruct (find_str b (mtaxa m)) as [j|]; simpl; [|right; eauto].
  destruct (Nat.eqb i j || Nat.leb (msize m) i || Nat.leb (msize m) j); [right|left]; eauto.
Qed.

(* with the taxa present, distinct, and the size field consistent, the pair index exists and is in range *)
Lemma pair_index_total : forall (m : dmat) a b,
  msize m = length (mtaxa m) -> a <> b -> In a (mtaxa m) -> In b (mtaxa m) ->
  exists i j, find_str a (mtaxa m) = Some i /\ find_str b (mtaxa m) = Some j /\ i <> j /\
              i < msize m /\ j < msize m /\ pair_index m a b = Ok (tril_idx i j) /\
              tril_idx i j < msize m * (msize m - 1) / 2.
Proof.
  intros m a b Hsz Hab Ha Hb.
  destruct (find_str_in _ _ Ha) as [i Hi]. destruct (find_str_in _ _ Hb) as [j Hj].
  pose proof (find_str_lt _ _ _ Hi). pose proof (find_str_lt _ _ _ Hj).
  assert (i <> j) by (intros ->; apply Hab; eapply find_str_same; eassumption).
  exists i, j. repeat split; try assumption; try lia.
  - apply pair_index_intro; try assumption; lia.
  - apply tril_lt_any; try assumption; lia.
Qed.

(* ---- get / set laws -------------------------------------------------------------------------------- *)
Theorem get_diag : forall (m : dmat) a, dm_get O m a a = Ok (l0 O).
Proof. intros m a. unfold dm_get. rewrite str_eqb_refl. reflexivity. Qed.

Theorem get_sym : forall (m : dmat) a b, dm_get O m a b = dm_get O m b a.
Proof.
  intros m a b. unfold dm_get. rewrite (pair_index_sym m a b).
  destruct (str_eqb a b) eqn:E.
  - apply str_eqb_eq in E. subst. rewrite str_eqb_refl. reflexivity.
  - assert (str_eqb b a = false) as ->; [|reflexivity].
    apply str_eqb_neq. apply str_eqb_neq in E. congruence.
Qed.

(* dm_get on distinct names reads the cell tril_idx i j, where i, j are the first positions of the names *)
Theorem get_spec : forall (m : dmat) a b i j, a <> b ->
  find_str a (mtaxa m) = Some i -> find_str b (mtaxa m) = Some j -> i < msize m -> j < msize m ->
  dm_get O m a b = match nth_error (mcells m) (tril_idx i j) with Some v => Ok v | None => Panic 30 end.
Proof.
  intros m a b i j Hab Ha Hb Hi Hj. unfold dm_get.
  rewrite (proj2 (str_eqb_neq a b) Hab). rewrite (pair_index_intro m a b i j) by assumption. reflexivity.
Qed.

Theorem set_diag : forall (m : dmat) a v,
  dm_set O m a a v = if leqb O v (l0 O) then Ok m else Err NonZeroIdenticalDistance.
Proof. intros m a v. unfold dm_set. rewrite str_eqb_refl. reflexivity. Qed.

(* shape of a successful off-diagonal set *)
Lemma set_inv : forall (m m' : dmat) a b v, a <> b -> dm_set O m a b v = Ok m' ->
  exists idx, pair_index m a b = Ok idx /\ idx < length (mcells m) /\
              m' = mkDmat (msize m) (mtaxa m) (replace_at (mcells m) idx v).
Proof.
  intros m m' a b v Hab H. unfold dm_set in H. rewrite (proj2 (str_eqb_neq a b) Hab) in H.
  destruct (pair_index m a b) as [idx| | |]; simpl in H; try discriminate.
  destruct (Nat.ltb idx (length (mcells m))) eqn:Lt; [|discriminate].
  apply Nat.ltb_lt in Lt. inversion H. eauto.
Qed.

Theorem set_frame : forall (m m' : dmat) a b v, dm_set O m a b v = Ok m' ->
  msize m' = msize m /\ mtaxa m' = mtaxa m /\ length (mcells m') = length (mcells m).
Proof.
  intros m m' a b v H. destruct (str_eqb a b) eqn:E.
  - unfold dm_set in H. rewrite E in H. destruct (leqb O v (l0 O)); inversion H; subst. auto.
  - apply str_eqb_neq in E. destruct (set_inv _ _ _ _ _ E H) as (idx & _ & _ & ->). simpl.
    rewrite replace_at_length. auto.
Qed.

Theorem get_set_same : forall (m m' : dmat) a b v, a <> b -> dm_set O m a b v = Ok m' ->
  dm_get O m' a b = Ok v /\ dm_get O m' b a = Ok v.
Proof.
  intros m m' a b v Hab H.
  assert (G : dm_get O m' a b = Ok v).
  { destruct (set_inv _ _ _ _ _ Hab H) as (idx & Hp & Hlt & ->).
    unfold dm_get. rewrite (proj2 (str_eqb_neq a b) Hab).
    rewrite (pair_index_ext m) by reflexivity. rewrite Hp. simpl.
    rewrite replace_at_same by assumption. reflexivity. }
  split; [assumption|]. rewrite get_sym. assumption.
Qed.

Theorem get_set_other : forall (m m' : dmat) a b c d v,
  (c, d) <> (a, b) -> (c, d) <> (b, a) -> dm_set O m a b v = Ok m' ->
  dm_get O m' c d = dm_get O m c d.
Proof.
  intros m m' a b c d v N1 N2 H.
  destruct (str_eqb a b) eqn:Eab.
  { unfold dm_set in H. rewrite Eab in H. destruct (leqb O v (l0 O)); inversion H; subst. reflexivity. }
  apply str_eqb_neq in Eab.
  destruct (set_inv _ _ _ _ _ Eab H) as (idx & Hp & Hlt & ->).
  unfold dm_get. destruct (str_eqb c d) eqn:Ecd; [reflexivity|]. apply str_eqb_neq in Ecd.
  rewrite (pair_index_ext m) by reflexivity.
  destruct (pair_index m c d) as [idx'| | |] eqn:Hq; simpl; try reflexivity.
  rewrite replace_at_other; [reflexivity|].
  intros E. subst idx'.
  apply pair_index_ok in Hp. destruct Hp as (i & j & Ha & Hb & _ & Hij & _ & _ & ->).
  apply pair_index_ok in Hq. destruct Hq as (i' & j' & Hc & Hd & _ & Hij' & _ & _ & Eq).
  apply tril_inj_any in Eq; try assumption.
  destruct Eq as [[-> ->]|[-> ->]].
  - apply N1. f_equal; eapply find_str_same; eassumption.
  - apply N2. f_equal; eapply find_str_same; eassumption.
Qed.

Theorem set_ok : forall (m : dmat) a b v,
  length (mcells m) = msize m * (msize m - 1) / 2 -> msize m = length (mtaxa m) ->
  a <> b -> In a (mtaxa m) -> In b (mtaxa m) ->
  exists m', dm_set O m a b v = Ok m'.
Proof.
  intros m a b v Hlen Hsz Hab Ha Hb.
  destruct (pair_index_total m a b Hsz Hab Ha Hb) as (i & j & _ & _ & _ & _ & _ & Hp & Hlt).
  unfold dm_set. rewrite (proj2 (str_eqb_neq a b) Hab), Hp. simpl.
  rewrite <- Hlen in Hlt. apply Nat.ltb_lt in Hlt. rewrite Hlt. eauto.
Qed.

Theorem get_ok : forall (m : dmat) a b,
  length (mcells m) = msize m * (msize m - 1) / 2 -> msize m = length (mtaxa m) ->
  In a (mtaxa m) -> In b (mtaxa m) ->
  exists v, dm_get O m a b = Ok v.
Proof.
  intros m a b Hlen Hsz Ha Hb. destruct (str_eqb a b) eqn:Eab.
  - apply str_eqb_eq in Eab. subst. rewrite get_diag. eauto.
  - apply str_eqb_neq in Eab.
    destruct (pair_index_total m a b Hsz Eab Ha Hb) as (i & j & _ & _ & _ & _ & _ & Hp & Hlt).
    unfold dm_get. rewrite (proj2 (str_eqb_neq a b) Eab), Hp. simpl.
    rewrite <- Hlen in Hlt. apply nth_error_Some in Hlt.
    destruct (nth_error (mcells m) (tril_idx i j)); [eauto|congruence].
Qed.

(* whatever the names, a matrix with a full-length cell vector never panics *)
Theorem set_no_panic : forall (m : dmat) a b v s,
  length (mcells m) = msize m * (msize m - 1) / 2 -> dm_set O m a b v <> Panic s.
Proof.
  intros m a b v s Hlen. unfold dm_set. destruct (str_eqb a b).
  - destruct (leqb O v (l0 O)); discriminate.
  - destruct (pair_index m a b) as [idx| | |] eqn:Hp; simpl; try discriminate.
    + apply pair_index_ok in Hp. destruct Hp as (i & j & _ & _ & _ & Hij & Hi & Hj & ->).
      pose proof (tril_lt_any _ _ _ Hij Hi Hj) as Hlt. rewrite <- Hlen in Hlt.
      apply Nat.ltb_lt in Hlt. rewrite Hlt. discriminate.
    + destruct (pair_index_no_panic m a b) as [[x Hx]|[x Hx]]; congruence.
Qed.

Theorem get_no_panic : forall (m : dmat) a b s,
  length (mcells m) = msize m * (msize m - 1) / 2 -> dm_get O m a b <> Panic s.
Proof.
  intros m a b s Hlen. unfold dm_get. destruct (str_eqb a b); [discriminate|].
  destruct (pair_index m a b) as [idx| | |] eqn:Hp; simpl; try discriminate.
  - apply pair_index_ok in Hp. destruct Hp as (i & j & _ & _ & _ & Hij & Hi & Hj & ->).
    pose proof (tril_lt_any _ _ _ Hij Hi Hj) as Hlt. rewrite <- Hlen in Hlt.
    apply nth_error_Some in Hlt. destruct (nth_error (mcells m) (tril_idx i j)); [discriminate|congruence].
  - destruct (pair_index_no_panic m a b) as [[x Hx]|[x Hx]]; congruence.
Qed.

(* ---- iteration in storage order -------------------------------------------------------------------- *)
Lemma nth_error_combine_seq : forall (l : list L) s k,
  nth_error (combine (seq s (length l)) l) k = option_map (fun v => (s + k, v)) (nth_error l k).
Proof.
  induction l as [|h t IH]; intros s k; simpl.
  - destruct k; reflexivity.
  - destruct k as [|k]; simpl.
    + rewrite Nat.add_0_r. reflexivity.
    + rewrite IH. replace (S s + k) with (s + S k) by lia. reflexivity.
Qed.

(* the k-th element of the iteration is cell k, labelled with the pair tril_inv k *)
Theorem indexed_nth : forall (m : dmat) k,
  nth_error (dm_indexed m) k = option_map (fun v => (tril_inv k, v)) (nth_error (mcells m) k).
Proof.
  intros m k. unfold dm_indexed. rewrite nth_error_map, nth_error_combine_seq.
  destruct (nth_error (mcells m) k); reflexivity.
Qed.

Theorem indexed_length : forall (m : dmat), length (dm_indexed m) = length (mcells m).
Proof.
  intros m. unfold dm_indexed. rewrite map_length, combine_length, seq_length. lia.
Qed.

Theorem indexed_agrees : forall (m : dmat) i j v, In (i, j, v) (dm_indexed m) ->
  j < i /\ nth_error (mcells m) (tril_idx i j) = Some v.
Proof.
  intros m i j v Hin. apply In_nth_error in Hin. destruct Hin as [k Hk].
  rewrite indexed_nth in Hk. destruct (nth_error (mcells m) k) as [w|] eqn:Hw; simpl in Hk; [|discriminate].
  assert (Hij : tril_inv k = (i, j)) by congruence. assert (w = v) by congruence. subst w. pose proof (tril_inv_r k) as Hr. rewrite Hij in Hr. destruct Hr as [Hr1 Hr2].
  rewrite Hr2. auto.
Qed.

(* for a full-length cell vector the labels are valid row/column numbers *)
Theorem indexed_in_range : forall (m : dmat) i j v,
  length (mcells m) = msize m * (msize m - 1) / 2 -> In (i, j, v) (dm_indexed m) -> j < i /\ i < msize m.
Proof.
  intros m i j v Hlen Hin. apply In_nth_error in Hin. destruct Hin as [k Hk].
  rewrite indexed_nth in Hk. destruct (nth_error (mcells m) k) as [w|] eqn:Hw; simpl in Hk; [|discriminate].
  assert (Hij : tril_inv k = (i, j)) by congruence. assert (w = v) by congruence. subst w.
  assert (Hlt : k < msize m * (msize m - 1) / 2) by (rewrite <- Hlen; apply nth_error_Some; congruence).
  pose proof (tril_surj _ _ Hlt) as Hs. rewrite Hij in Hs. tauto.
Qed.

(* the iteration visits the cells 0, 1, ..., len-1 in this order, each exactly once *)
Theorem indexed_order : forall (m : dmat),
  map (fun e : nat * nat * L => tril_idx (fst (fst e)) (snd (fst e))) (dm_indexed m)
  = seq 0 (length (mcells m)).
Proof.
  intros m. apply nth_error_ext_eq. intros k. rewrite nth_error_map, indexed_nth.
  destruct (nth_error (mcells m) k) as [w|] eqn:Hw; cbn [option_map].
  - pose proof (tril_inv_r k) as Hr. destruct (tril_inv k) as [i j]. cbn [fst snd]. destruct Hr as [_ ->].
    symmetry. assert (k < length (mcells m)) by (apply nth_error_Some; congruence).
    rewrite nth_error_nth' with (d := 0) by (rewrite seq_length; assumption).
    rewrite seq_nth by assumption. reflexivity.
  - symmetry. apply nth_error_None. rewrite seq_length. apply nth_error_None. assumption.
Qed.

Theorem indexed_values : forall (m : dmat), map snd (dm_indexed m) = mcells m.
Proof.
  intros m. apply nth_error_ext_eq. intros k. rewrite nth_error_map, indexed_nth.
  destruct (nth_error (mcells m) k); reflexivity.
Qed.

(* every (i, j) with j < i < n is visited, when the cell vector has full length *)
Theorem indexed_complete : forall (m : dmat) i j,
  length (mcells m) = msize m * (msize m - 1) / 2 -> j < i -> i < msize m ->
  exists v, nth_error (dm_indexed m) (tril_idx i j) = Some (i, j, v).
Proof.
  intros m i j Hlen Hj Hi. pose proof (tril_lt _ _ _ Hj Hi) as Hlt. rewrite <- Hlen in Hlt.
  apply nth_error_Some in Hlt. rewrite indexed_nth, (tril_inv_l _ _ Hj).
  destruct (nth_error (mcells m) (tril_idx i j)) as [v|]; [|congruence]. exists v. reflexivity.
Qed.

(* ---- to_map ------------------------------------------------------------------------------------------ *)
Lemma mapM_Forall2 : forall {A B} (g : A -> outcome B) xs ys, mapM g xs = Ok ys ->
  Forall2 (fun x y => g x = Ok y) xs ys.
Proof.
  intros A B g. induction xs as [|x xs IH]; intros ys H; simpl in H.
  - inversion H. constructor.
  - destruct (g x) as [y| | |] eqn:Gx; simpl in H; try discriminate.
    destruct (mapM g xs) as [ys'| | |] eqn:Gxs; simpl in H; try discriminate.
    inversion H; subst. constructor; [assumption|]. apply IH. reflexivity.
Qed.

Lemma mapM_ok : forall {A B} (g : A -> outcome B) xs, (forall x, In x xs -> exists y, g x = Ok y) ->
  exists ys, mapM g xs = Ok ys.
Proof.
  intros A B g. induction xs as [|x xs IH]; intros H; simpl.
  - eauto.
  - destruct (H x (or_introl eq_refl)) as [y Hy]. rewrite Hy. simpl.
    destruct IH as [ys Hys]; [intros z Hz; apply H; right; assumption|]. rewrite Hys. simpl. eauto.
Qed.

Theorem to_map_agrees : forall (m : dmat) l, dm_to_map O m = Ok l ->
  (forall a b v, In (a, b, v) l -> dm_get O m a b = Ok v) /\
  map fst l = list_prod (mtaxa m) (mtaxa m) /\
  length l = length (mtaxa m) * length (mtaxa m).
Proof.
  intros m l H. unfold dm_to_map in H. apply mapM_Forall2 in H.
  assert (Hmap : map fst l = list_prod (mtaxa m) (mtaxa m)).
  { induction H as [|p y xs ys Hy _ IH]; [reflexivity|]. simpl. rewrite IH. f_equal.
    destruct (dm_get O m (fst p) (snd p)); simpl in Hy; try discriminate.
    inversion Hy; subst. simpl. destruct p; reflexivity. }
  split; [|split].
  - intros a b v Hin. clear Hmap.
    induction H as [|p y xs ys Hy _ IH]; [contradiction|].
    destruct Hin as [->|Hin]; [|apply IH; assumption].
    destruct (dm_get O m (fst p) (snd p)) as [w| | |] eqn:G; simpl in Hy; try discriminate.
    inversion Hy; subst. assumption.
  - assumption.
  - rewrite <- (map_length fst), Hmap. apply prod_length.
Qed.

Theorem to_map_ok : forall (m : dmat),
  length (mcells m) = msize m * (msize m - 1) / 2 -> msize m = length (mtaxa m) ->
  exists l, dm_to_map O m = Ok l.
Proof.
  intros m Hlen Hsz. unfold dm_to_map. apply mapM_ok. intros [a b] Hin. apply in_prod_iff in Hin.
  destruct Hin as [Ha Hb]. simpl. destruct (get_ok m a b Hlen Hsz Ha Hb) as [v Hv]. rewrite Hv. simpl. eauto.
Qed.

(* ---- min / max ------------------------------------------------------------------------------------- *)
(* the fold step shared by dm_min and dm_max, for an arbitrary comparison *)
Definition pick {K : Type} (lt : L -> L -> bool) (acc : option (K * L)) (e : K * L) : option (K * L) :=
  match acc with
  | None => Some e
  | Some (_, av) => if lt (snd e) av then Some e else acc
  end.

Lemma dm_min_pick : forall (m : dmat), dm_min O m = fold_left (pick (lltb O)) (dm_indexed m) None.
Proof. reflexivity. Qed.
Lemma dm_max_pick : forall (m : dmat),
  dm_max O m = fold_left (pick (fun x y => lltb O y x)) (dm_indexed m) None.
Proof. reflexivity. Qed.

Section Pick.
Context {K : Type}.
Variable lt : L -> L -> bool.
Hypothesis lt_irrefl : forall x, lt x x = false.
Hypothesis lt_trans : forall x y z, lt x y = true -> lt y z = true -> lt x z = true.

(* partial-order version (covers f64 with NaN): the winner is a cell that no cell is strictly below *)
Lemma pick_minimal : forall (l : list (K * L)),
  match fold_left (pick lt) l None with
  | None => l = []
  | Some e => exists k, nth_error l k = Some e /\ forall x, In x l -> lt (snd x) (snd e) = false
  end.
Proof.
  induction l as [|x l IH] using rev_ind; [reflexivity|].
  rewrite fold_left_app. simpl.
  destruct (fold_left (pick lt) l None) as [[ek ev]|]; simpl.
  - destruct IH as (k & Hk & Hmin). destruct (lt (snd x) ev) eqn:Hx.
    + exists (length l). split.
      * rewrite nth_error_app2 by lia. rewrite Nat.sub_diag. reflexivity.
      * intros y Hy. apply in_app_or in Hy. destruct Hy as [Hy|[<-|[]]]; [|apply lt_irrefl].
        destruct (lt (snd y) (snd x)) eqn:Hyx; [|reflexivity].
        rewrite <- (Hmin y Hy). simpl. symmetry. eapply lt_trans; eassumption.
    + exists k. split.
      * rewrite nth_error_app1; [assumption|]. apply nth_error_Some. congruence.
      * intros y Hy. apply in_app_or in Hy. destruct Hy as [Hy|[<-|[]]]; [apply Hmin; assumption|assumption].
  - subst l. exists 0. split; [reflexivity|]. intros y [<-|[]]. apply lt_irrefl.
Qed.

(* strict weak order: additionally the winner is strictly below every earlier cell, i.e. it is the FIRST
   minimal cell in storage order *)
Hypothesis lt_cotrans : forall x y z, lt x y = true -> lt x z = true \/ lt z y = true.

Lemma pick_first_minimal : forall (l : list (K * L)),
  match fold_left (pick lt) l None with
  | None => l = []
  | Some e => exists k, nth_error l k = Some e /\
                (forall x, In x l -> lt (snd x) (snd e) = false) /\
                (forall k' x, k' < k -> nth_error l k' = Some x -> lt (snd e) (snd x) = true)
  end.
Proof.
  induction l as [|x l IH] using rev_ind; [reflexivity|].
  pose proof (pick_minimal (l ++ [x])) as Hm.
  rewrite fold_left_app in *. simpl in *.
  destruct (fold_left (pick lt) l None) as [[ek ev]|]; simpl in *.
  - destruct IH as (k & Hk & Hmin & Hfirst).
    assert (Hkl : k < length l) by (apply nth_error_Some; congruence).
    destruct (lt (snd x) ev) eqn:Hx.
    + destruct Hm as (k0 & _ & Hm). exists (length l). split; [|split].
      * rewrite nth_error_app2 by lia. rewrite Nat.sub_diag. reflexivity.
      * assumption.
      * intros k' y Hk' Hy. rewrite nth_error_app1 in Hy by assumption.
        destruct (Nat.lt_trichotomy k' k) as [Hlt|[->|Hgt]].
        -- eapply lt_trans; [eassumption|]. apply (Hfirst k' y Hlt Hy).
        -- rewrite Hk in Hy. inversion Hy; subst. assumption.
        -- destruct (lt_cotrans _ _ (snd y) Hx) as [H|H]; [assumption|].
           apply nth_error_In in Hy. rewrite (Hmin y Hy) in H. discriminate.
    + destruct Hm as (k0 & _ & Hm). exists k. split; [|split].
      * rewrite nth_error_app1 by assumption. assumption.
      * assumption.
      * intros k' y Hk' Hy. rewrite nth_error_app1 in Hy by lia. apply (Hfirst k' y Hk' Hy).
  - subst l. exists 0. split; [reflexivity|]. split.
    + intros y [<-|[]]. apply lt_irrefl.
    + intros k' y Hk'. lia.
Qed.

End Pick.

Lemma indexed_nth_some : forall (m : dmat) k i j v, nth_error (dm_indexed m) k = Some (i, j, v) ->
  nth_error (mcells m) k = Some v /\ tril_inv k = (i, j) /\ j < i /\ tril_idx i j = k.
Proof.
  intros m k i j v H. rewrite indexed_nth in H.
  destruct (nth_error (mcells m) k) as [w|]; simpl in H; [|discriminate].
  assert (Hij : tril_inv k = (i, j)) by congruence. assert (w = v) by congruence. subst w.
  pose proof (tril_inv_r k) as Hr. rewrite Hij in Hr. tauto.
Qed.

Lemma indexed_in_cell : forall (m : dmat) k w, nth_error (mcells m) k = Some w ->
  In (tril_inv k, w) (dm_indexed m).
Proof.
  intros m k w H. apply nth_error_In with k. rewrite indexed_nth, H. reflexivity.
Qed.

Theorem min_none : forall (m : dmat), dm_min O m = None <-> mcells m = [].
Proof.
  intros m. rewrite dm_min_pick. split; intros H.
  - assert (E : dm_indexed m = []).
    { generalize (dm_indexed m) H. intros [|x l]; [reflexivity|]. simpl.
      assert (forall l (e : nat * nat * L), fold_left (pick (lltb O)) l (Some e) <> None) as F.
      { induction l0 as [|y l0 IH]; intros e; simpl; [discriminate|].
        destruct e as [ek ev]. destruct (lltb O (snd y) ev); apply IH. }
      intros G. exfalso. exact (F _ _ G). }
    apply length_zero_iff_nil. rewrite <- indexed_length, E. reflexivity.
  - unfold dm_indexed. rewrite H. reflexivity.
Qed.

Theorem max_none : forall (m : dmat), dm_max O m = None <-> mcells m = [].
Proof.
  intros m. rewrite dm_max_pick. split; intros H.
  - assert (E : dm_indexed m = []).
    { generalize (dm_indexed m) H. intros [|x l]; [reflexivity|]. simpl.
      assert (forall l (e : nat * nat * L),
                fold_left (pick (fun x y => lltb O y x)) l (Some e) <> None) as F.
      { induction l0 as [|y l0 IH]; intros e; simpl; [discriminate|].
        destruct e as [ek ev]. destruct (lltb O ev (snd y)); apply IH. }
      intros G. exfalso. exact (F _ _ G). }
    apply length_zero_iff_nil. rewrite <- indexed_length, E. reflexivity.
  - unfold dm_indexed. rewrite H. reflexivity.
Qed.

Section Order.
Hypothesis lt_irrefl : forall x, lltb O x x = false.
Hypothesis lt_trans : forall x y z, lltb O x y = true -> lltb O y z = true -> lltb O x z = true.

(* partial order (e.g. f64 with NaN): the reported cell is a real cell (i, j) <-> k and nothing is below it *)
Theorem min_is_minimal : forall (m : dmat) i j v, dm_min O m = Some (i, j, v) ->
  exists k, nth_error (mcells m) k = Some v /\ tril_inv k = (i, j) /\ j < i /\ tril_idx i j = k /\
            forall k' w, nth_error (mcells m) k' = Some w -> lltb O w v = false.
Proof.
  intros m i j v H. rewrite dm_min_pick in H.
  pose proof (pick_minimal (K := nat * nat) (lltb O) lt_irrefl lt_trans (dm_indexed m)) as P.
  rewrite H in P. destruct P as (k & Hk & Hmin).
  apply indexed_nth_some in Hk. destruct Hk as (Hc & Hinv & Hji & Hidx).
  exists k. repeat split; try assumption.
  intros k' w Hw. apply (Hmin _ (indexed_in_cell m k' w Hw)).
Qed.

Theorem max_is_maximal : forall (m : dmat) i j v, dm_max O m = Some (i, j, v) ->
  exists k, nth_error (mcells m) k = Some v /\ tril_inv k = (i, j) /\ j < i /\ tril_idx i j = k /\
            forall k' w, nth_error (mcells m) k' = Some w -> lltb O v w = false.
Proof.
  intros m i j v H. rewrite dm_max_pick in H.
  pose proof (pick_minimal (K := nat * nat) (fun x y => lltb O y x) lt_irrefl
                (fun x y z H1 H2 => lt_trans z y x H2 H1) (dm_indexed m)) as P.
  rewrite H in P. destruct P as (k & Hk & Hmin).
  apply indexed_nth_some in Hk. destruct Hk as (Hc & Hinv & Hji & Hidx).
  exists k. repeat split; try assumption.
  intros k' w Hw. apply (Hmin _ (indexed_in_cell m k' w Hw)).
Qed.

(* strict weak order: it is moreover the FIRST such cell in storage order *)
Hypothesis lt_cotrans : forall x y z, lltb O x y = true -> lltb O x z = true \/ lltb O z y = true.

Theorem min_is_min : forall (m : dmat) i j v, dm_min O m = Some (i, j, v) ->
  exists k, nth_error (mcells m) k = Some v /\ tril_inv k = (i, j) /\ j < i /\ tril_idx i j = k /\
            (forall k' w, nth_error (mcells m) k' = Some w -> lltb O w v = false) /\
            (forall k' w, k' < k -> nth_error (mcells m) k' = Some w -> lltb O v w = true).
Proof.
  intros m i j v H. rewrite dm_min_pick in H.
  pose proof (pick_first_minimal (K := nat * nat) (lltb O) lt_irrefl lt_trans lt_cotrans (dm_indexed m)) as P.
  rewrite H in P. destruct P as (k & Hk & Hmin & Hfirst).
  apply indexed_nth_some in Hk. destruct Hk as (Hc & Hinv & Hji & Hidx).
  exists k. repeat split; try assumption.
  - intros k' w Hw. apply (Hmin _ (indexed_in_cell m k' w Hw)).
  - intros k' w Hk' Hw. apply (Hfirst k' (tril_inv k', w) Hk'). rewrite indexed_nth, Hw. reflexivity.
Qed.

Theorem max_is_max : forall (m : dmat) i j v, dm_max O m = Some (i, j, v) ->
  exists k, nth_error (mcells m) k = Some v /\ tril_inv k = (i, j) /\ j < i /\ tril_idx i j = k /\
            (forall k' w, nth_error (mcells m) k' = Some w -> lltb O v w = false) /\
            (forall k' w, k' < k -> nth_error (mcells m) k' = Some w -> lltb O w v = true).
Proof.
  intros m i j v H. rewrite dm_max_pick in H.
  pose proof (pick_first_minimal (K := nat * nat) (fun x y => lltb O y x) lt_irrefl
                (fun x y z H1 H2 => lt_trans z y x H2 H1)
                (fun x y z H1 => match lt_cotrans y x z H1 with or_introl A => or_intror A | or_intror B => or_introl B end)
                (dm_indexed m)) as P.
  rewrite H in P. destruct P as (k & Hk & Hmin & Hfirst).
  apply indexed_nth_some in Hk. destruct Hk as (Hc & Hinv & Hji & Hidx).
  exists k. repeat split; try assumption.
  - intros k' w Hw. apply (Hmin _ (indexed_in_cell m k' w Hw)).
  - intros k' w Hk' Hw. apply (Hfirst k' (tril_inv k', w) Hk'). rewrite indexed_nth, Hw. reflexivity.
Qed.

End Order.

End MatrixLaws.

(* ---- audit ------------------------------------------------------------------------------------------ *)
Print Assumptions tril_sym.
Print Assumptions tril_lt.
Print Assumptions tril_inj.
Print Assumptions tril_inv_l.
Print Assumptions tril_inv_r.
Print Assumptions tril_surj.
Print Assumptions str_eqb_eq.
Print Assumptions find_str_nodup.
Print Assumptions get_diag.
Print Assumptions get_sym.
Print Assumptions get_spec.
Print Assumptions get_set_same.
Print Assumptions get_set_other.
Print Assumptions set_frame.
Print Assumptions set_ok.
Print Assumptions get_ok.
Print Assumptions set_no_panic.
Print Assumptions get_no_panic.
Print Assumptions indexed_nth.
Print Assumptions indexed_agrees.
Print Assumptions indexed_in_range.
Print Assumptions indexed_order.
Print Assumptions indexed_complete.
Print Assumptions to_map_agrees.
Print Assumptions to_map_ok.
Print Assumptions min_none.
Print Assumptions max_none.
Print Assumptions min_is_minimal.
Print Assumptions max_is_maximal.
Print Assumptions min_is_min.
Print Assumptions max_is_max.
