(* FormatsRT.v — C16, "so parsing it back yields the same topology carrying only the retained fields":
   the text of format f parses back to the labelled tree [lerase f r]: the shape and child order of r, every label the
   format omits cleared, every label it keeps unchanged — and nothing else.  Combines Formats.v (the formatted text is the
   full text of the erased arena) with RoundTrip.v (C01). *)
From PT Require Import Arena Spec Queries Newick ParserProps RoundTrip Formats.
From Coq Require Import List Bool.
Import ListNotations.

Section FormatsRT.
Variable L : Type.
Variable print_len : L -> str.
Variable parse_len : str -> option L.
Variable ok_len : L -> Prop.
Hypothesis H1 : forall l, ok_len l -> parse_len (print_len l) = Some l.
Hypothesis H2 : forall l, print_len l <> [] /\ Forall safe_char (print_len l).
Notation arena := (@arena L).
Notation ltree := (ltree L).
Notation skel_list := (skel_list L).

Definition no_children (cs : list ltree) : bool := match cs with [] => true | _ => false end.

(* the labelled tree a format shows *)
Fixpoint lerase (f : nformat) (r : ltree) : ltree :=
  match r with
  | RoundTrip.LT nm ln cm cs =>
      RoundTrip.LT (if keeps_name f (no_children cs) then nm else None)
         (if keeps_length f (no_children cs) then ln else None)
         (if keeps_comment f then cm else None)
         (map (lerase f) cs)
  end.

Lemma lerase_all r : lerase AllFields r = r.
Proof.
  induction r as [nm ln cm cs IH] using (ltree_ind' L). cbn [lerase keeps_name keeps_length keeps_comment]. f_equal.
  induction IH as [|c cs Hc _ IHcs]; cbn [map]; [reflexivity|]. rewrite Hc, IHcs. reflexivity.
Qed.

Lemma lsize_lerase f r : lsize (lerase f r) = lsize r.
Proof.
  induction r as [nm ln cm cs IH] using (ltree_ind' L). cbn [lerase lsize]. f_equal.
  induction IH as [|c cs Hc _ IHcs]; cbn [map fold_right]; [reflexivity|]. rewrite Hc, IHcs. reflexivity.
Qed.

Lemma skel_list_lerase f cs :
  Forall (fun c => forall k, skel k (lerase f c) = skel k c) cs ->
  forall k, skel_list k (map (lerase f) cs) = skel_list k cs.
Proof.
  induction 1 as [|c cs Hc _ IH]; intros k; cbn [map skel_list]; [reflexivity|].
  rewrite Hc, lsize_lerase, IH. reflexivity.
Qed.

(* same topology: the skeleton (shape, child order, preorder numbering) is untouched *)
Lemma skel_lerase f r : forall k, skel k (lerase f r) = skel k r.
Proof.
  induction r as [nm ln cm cs IH] using (ltree_ind' L). intros k.
  cbn [lerase]. rewrite !(skel_eq L). f_equal. apply skel_list_lerase. exact IH.
Qed.

(* admissible labels stay admissible when some are cleared *)
Lemma labels_ok_lerase f r : labels_ok ok_len r -> labels_ok ok_len (lerase f r).
Proof.
  induction r as [nm ln cm cs IH] using (ltree_ind' L). intros Hok. inversion Hok as [? ? ? ? Hn Hl Hc Hcs]; subst.
  cbn [lerase]. constructor.
  - destruct (keeps_name f _); [exact Hn|exact I].
  - destruct (keeps_length f _); [exact Hl|exact I].
  - destruct (keeps_comment f); [exact Hc|exact I].
  - clear Hok Hn Hl Hc. induction IH as [|c cs Hc' _ IHcs]; cbn [map]; constructor.
    + apply Hc'. inversion Hcs; assumption.
    + apply IHcs. inversion Hcs; assumption.
Qed.

Lemma nth_error_map_erase f (t : arena) i n :
  nth_error t i = Some n -> nth_error (map (erase f) t) i = Some (erase f n).
Proof. intros H. rewrite nth_error_map, H. reflexivity. Qed.

(* erasing the arena erases the represented labelled tree *)
Lemma LRep_erase f (t : arena) : forall r p d i,
  LRep t p d i r -> LRep (map (erase f) t) p d i (lerase f r).
Proof.
  induction r as [nm ln cm cs IH] using (ltree_ind' L). intros p d i HR.
  inversion HR as [? ? ? n ? ? ? ? Hn Hdel Hid Hpar Hdep Hnm Hln Hcm Hch]; subst.
  assert (Htip : is_tip n = no_children cs).
  { unfold is_tip, no_children. inversion Hch; reflexivity. }
  cbn [lerase]. apply (LRep_node L) with (n := erase f n); cbn [erase nid nname nparent nchildren npedge ncomment ndepth ndeleted];
    try (rewrite <- Htip); auto using nth_error_map_erase.
  clear HR Hn Htip. revert Hch IH. generalize (nchildren n) as cl. intros cl Hch IH.
  induction Hch as [|c r' cl cs' Hc _ IHch]; cbn [map]; constructor.
  - inversion IH; subst. auto.
  - inversion IH; subst. auto.
Qed.

(* C16: the text of every format parses back to exactly the erased labelled tree, on the original skeleton, and the re-parsed tree
   writes (in full format) the same text again *)
Theorem formatted_parse_back (t : arena) (f : nformat) root d r txt :
  LRep t None d root r -> get_root t = Ok root -> labels_ok ok_len r ->
  to_formatted_newick t f = Ok txt ->
  exists t' : arena,
    from_newick parse_len (flatten print_len txt) = Ok t' /\
    LRep t' None 0 0 (lerase f r) /\
    Rep t' None 0 0 (skel 0 r) /\ ids (skel 0 r) = seq 0 (length t') /\ WF t' /\
    to_newick t' = Ok txt.
Proof.
  intros HR Hroot Hok Hw. rewrite formatted_is_erased in Hw.
  destruct (round_trip L print_len parse_len ok_len H1 H2 (map (erase f) t) root d (lerase f r) txt) as [t' (P1 & P2 & P3 & P4 & P5 & P6)].
  - apply LRep_erase. exact HR.
  - rewrite get_root_map_erase. exact Hroot.
  - apply labels_ok_lerase. exact Hok.
  - exact Hw.
  - exists t'. rewrite skel_lerase in P3, P4. repeat split; assumption.
Qed.
End FormatsRT.

Print Assumptions formatted_parse_back.
Print Assumptions skel_lerase.
Print Assumptions lerase_all.
