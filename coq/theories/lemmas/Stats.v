(* Stats.v — tree statistics (property C12): leaf count, rooted / binary predicates, cherries, Colless,
   Sackin, total length, height and diameter computed by arena scans equal the textbook values of
   the represented rose tree. *)
From Coq Require Import List Arith Lia Bool Permutation.
From PT Require Import Arena Spec Queries RepLib Paths.
From PT Require Traversals.
Import ListNotations.

Local Arguments ids : simpl never.

(* ================================================================================================ *)
(* 0. generic list helpers                                                                           *)
(* ================================================================================================ *)
Lemma filter_map_comm {A B} (f : A -> B) (p : B -> bool) l :
  filter p (map f l) = map f (filter (fun x => p (f x)) l).
Proof. induction l as [|x l IH]; simpl; auto. destruct (p (f x)); simpl; rewrite IH; auto. Qed.

Lemma filter_ext_in' {A} (p q : A -> bool) l :
  (forall x, In x l -> p x = q x) -> filter p l = filter q l.
Proof.
  induction l as [|x l IH]; simpl; auto. intros H.
  rewrite (H x) by auto. rewrite IH by auto. auto.
Qed.

Lemma sum_nat_app a b : sum_nat (a ++ b) = sum_nat a + sum_nat b.
Proof. induction a; simpl; auto. lia. Qed.

Lemma sum_nat_perm l l' : Permutation l l' -> sum_nat l = sum_nat l'.
Proof. induction 1; simpl; lia. Qed.

Lemma sum_nat_flat_map {A} (f : A -> list nat) l :
  sum_nat (flat_map f l) = sum_nat (map (fun x => sum_nat (f x)) l).
Proof. induction l; simpl; auto. rewrite sum_nat_app. lia. Qed.

Lemma sum_nat_map_ext_in {A} (f g : A -> nat) l :
  (forall x, In x l -> f x = g x) -> sum_nat (map f l) = sum_nat (map g l).
Proof. intros H. f_equal. apply map_ext_in. auto. Qed.

(* entries outside the filter contribute nothing *)
Lemma sum_nat_filter {A} (f : A -> nat) (p : A -> bool) l :
  (forall x, In x l -> p x = false -> f x = 0) ->
  sum_nat (map f l) = sum_nat (map f (filter p l)).
Proof.
  induction l as [|x l IH]; simpl; auto. intros H.
  destruct (p x) eqn:E; simpl; rewrite IH by auto; auto. rewrite (H x); auto.
Qed.

Lemma forallb_filter {A} (g : A -> bool) (p : A -> bool) l :
  (forall x, In x l -> p x = false -> g x = true) ->
  forallb g l = forallb g (filter p l).
Proof.
  induction l as [|x l IH]; simpl; auto. intros H.
  destruct (p x) eqn:E; simpl; rewrite IH by auto; auto. rewrite (H x); auto.
Qed.

Lemma forallb_perm {A} (g : A -> bool) l l' : Permutation l l' -> forallb g l = forallb g l'.
Proof.
  induction 1; simpl; auto; try congruence.
  destruct (g x), (g y); auto.
Qed.

Lemma forallb_map {A B} (f : A -> B) (g : B -> bool) l : forallb g (map f l) = forallb (fun x => g (f x)) l.
Proof. induction l; simpl; auto. rewrite IHl; auto. Qed.

Lemma forallb_flat_map {A B} (f : A -> list B) (g : B -> bool) l :
  forallb g (flat_map f l) = forallb (fun x => forallb g (f x)) l.
Proof. induction l; simpl; auto. rewrite forallb_app, IHl. auto. Qed.

Lemma forallb_ext_in {A} (f g : A -> bool) l :
  (forall x, In x l -> f x = g x) -> forallb f l = forallb g l.
Proof. induction l; simpl; auto. intros H. rewrite (H a), IHl; auto. Qed.

Lemma mapM_ok {A B} (g : A -> outcome B) (f : A -> B) l :
  (forall x, In x l -> g x = Ok (f x)) -> mapM g l = Ok (map f l).
Proof.
  induction l as [|x l IH]; simpl; auto. intros H.
  rewrite (H x) by auto. simpl. rewrite IH by auto. auto.
Qed.


Lemma mem_nat_In x l : mem_nat x l = true <-> In x l.
Proof.
  unfold mem_nat. rewrite existsb_exists. split.
  - intros (y & Hy & E). apply Nat.eqb_eq in E. subst; auto.
  - intros H. exists x. split; auto. apply Nat.eqb_refl.
Qed.

Lemma in_pairs {A} (l : list A) a b : In (a, b) (pairs l) -> In a l /\ In b l.
Proof.
  induction l as [|x l IH]; simpl; [tauto|]. intros H. apply in_app_or in H as [H|H].
  - apply in_map_iff in H as (y & [= <- <-] & Hy). auto.
  - apply IH in H. tauto.
Qed.

(* ================================================================================================ *)
(* 1. specifications on rose trees                                                                   *)
(* ================================================================================================ *)

(* every node has at most k children *)
Fixpoint arity_le (k : nat) (r : rtree) : bool :=
  match r with RT _ cs => Nat.leb (length cs) k && forallb (arity_le k) cs end.

(* the crate's notion of "binary": a rooted tree (two children at the root) has at most two children
   everywhere; an unrooted one may have up to three children at the root *)
Definition binary_spec (r : rtree) : bool :=
  if Nat.eqb (length (rch r)) 2 then arity_le 2 r
  else Nat.leb (length (rch r)) 3 && forallb (arity_le 2) (rch r).

(* every node has no or exactly two children *)
Fixpoint strict_binary (r : rtree) : bool :=
  match r with
  | RT _ cs => (Nat.eqb (length cs) 0 || Nat.eqb (length cs) 2) && forallb strict_binary cs
  end.

Definition is_leaf (r : rtree) : bool := match rch r with [] => true | _ => false end.

(* number of nodes with exactly two children, both of them leaves *)
Definition is_cherry (r : rtree) : bool :=
  match rch r with [a; b] => is_leaf a && is_leaf b | _ => false end.
Fixpoint cherries_spec (r : rtree) : nat :=
  match r with
  | RT i cs => (if is_cherry (RT i cs) then 1 else 0) + sum_nat (map cherries_spec cs)
  end.

Definition nleaves (r : rtree) : nat := length (rleaves r).

(* Colless index: sum over the internal nodes of | #leaves(left) - #leaves(right) | *)
Fixpoint colless_spec (r : rtree) : nat :=
  match r with
  | RT i cs => (match cs with [a; b] => abs_diff (nleaves a) (nleaves b) | _ => 0 end)
               + sum_nat (map colless_spec cs)
  end.

(* what the code computes on arbitrary arities: first child against second child (0 if absent) *)
Definition colless_node (cs : list rtree) : nat :=
  match cs with
  | [] => 0
  | a :: more => abs_diff (nleaves a) (match more with b :: _ => nleaves b | [] => 0 end)
  end.
Fixpoint colless_gen (r : rtree) : nat :=
  match r with RT i cs => colless_node cs + sum_nat (map colless_gen cs) end.

(* depths of the leaves of r, the root of r being at depth d *)
Fixpoint leaf_depths (d : nat) (r : rtree) : list nat :=
  match r with
  | RT _ [] => [d]
  | RT _ cs => flat_map (leaf_depths (S d)) cs
  end.
(* Sackin index: sum over the leaves of their depth *)
Definition sackin_spec (r : rtree) : nat := sum_nat (leaf_depths 0 r).


(* sum of a per-node quantity over all nodes of a tree *)
Fixpoint tree_sum (g : rtree -> nat) (r : rtree) : nat :=
  match r with RT i cs => g (RT i cs) + sum_nat (map (tree_sum g) cs) end.

Lemma cherries_tree_sum r : cherries_spec r = tree_sum (fun c => if is_cherry c then 1 else 0) r.
Proof.
  induction r as [i cs IH] using rtree_ind'. cbn [cherries_spec tree_sum]. f_equal. f_equal.
  apply map_ext_in. rewrite Forall_forall in IH. auto.
Qed.

Lemma colless_tree_sum r : colless_gen r = tree_sum (fun c => colless_node (rch c)) r.
Proof.
  induction r as [i cs IH] using rtree_ind'. cbn [colless_gen tree_sum]. f_equal. f_equal.
  apply map_ext_in. rewrite Forall_forall in IH. auto.
Qed.

Lemma fold_max_le {A} (f : A -> nat) b k l :
  fold_right (fun c acc => Nat.max (f c) acc) b l <= k <-> b <= k /\ forall c, In c l -> f c <= k.
Proof.
  induction l as [|x l IH]; simpl.
  - intuition.
  - rewrite Nat.max_lub_iff, IH. intuition (subst; auto).
Qed.

(* [arity_le] is a bound on Spec's [max_arity] *)
Lemma arity_le_max k r : arity_le k r = Nat.leb (max_arity r) k.
Proof.
  induction r as [i cs IH] using rtree_ind'. rewrite Forall_forall in IH.
  apply eq_true_iff_eq. cbn [arity_le]. rewrite andb_true_iff, forallb_forall, !Nat.leb_le.
  rewrite Traversals.max_arity_RT, fold_max_le.
  split; intros [H1 H2]; split; auto; intros c Hc; specialize (IH c Hc); specialize (H2 c Hc).
  - apply Nat.leb_le. congruence.
  - rewrite IH. apply Nat.leb_le. auto.
Qed.

Lemma map_flat_map {A B C} (f : B -> C) (g : A -> list B) l :
  map f (flat_map g l) = flat_map (fun x => map f (g x)) l.
Proof. induction l; simpl; auto. rewrite map_app, IHl. auto. Qed.

Lemma strict_binary_arity r : strict_binary r = true -> arity_le 2 r = true.
Proof.
  induction r as [i cs IH] using rtree_ind'. simpl. intros H.
  apply andb_true_iff in H as [Hl Hc]. apply andb_true_iff. split.
  - apply orb_true_iff in Hl as [E|E]; apply Nat.eqb_eq in E; apply Nat.leb_le; lia.
  - rewrite forallb_forall in *. rewrite Forall_forall in IH. auto.
Qed.

Lemma strict_binary_colless r : strict_binary r = true -> colless_gen r = colless_spec r.
Proof.
  induction r as [i cs IH] using rtree_ind'. simpl. intros H.
  apply andb_true_iff in H as [Hl Hc].
  assert (E : map colless_gen cs = map colless_spec cs).
  { apply map_ext_in. intros c Hin. rewrite Forall_forall in IH. apply IH; auto.
    rewrite forallb_forall in Hc; auto. }
  rewrite E. f_equal.
  destruct cs as [|a [|b [|c cs]]]; simpl in *; auto; discriminate.
Qed.

(* ================================================================================================ *)
(* 2. arena scans                                                                                    *)
(* ================================================================================================ *)
Section Stats.
Context {L : Type}.
Notation arena := (@arena L).
Notation node := (@node L).
Implicit Types (t : arena) (n : node).

(* the slot at position i (a blank slot outside the arena) *)
Definition slot t (i : nat) : node := nth i t tombstone.
Definition livei t (i : nat) : bool := negb (ndeleted (slot t i)).
(* the live positions, in arena order *)
Definition live_idx t : list nat := filter (livei t) (seq 0 (length t)).

(* removed slots hold exactly the tombstone written by [prune] / [compress_node] *)
Definition Blank t : Prop :=
  forall i n, nth_error t i = Some n -> ndeleted n = true -> n = tombstone.

Lemma map_slot_seq t : map (slot t) (seq 0 (length t)) = t.
Proof.
  unfold slot. induction t as [|a t IH]; simpl; auto. f_equal.
  rewrite <- seq_shift, map_map. simpl. exact IH.
Qed.

Lemma slot_nth_error t i n : nth_error t i = Some n -> slot t i = n.
Proof. intros H. unfold slot. apply nth_error_nth; auto. Qed.

Lemma nth_error_slot t i : i < length t -> nth_error t i = Some (slot t i).
Proof. intros H. unfold slot. apply nth_error_nth'; auto. Qed.

Lemma live_iff t i : live t i <-> i < length t /\ livei t i = true.
Proof.
  unfold live, livei. split.
  - intros (n & Hn & Hd). split; [eapply nth_error_Some_lt; eauto|].
    rewrite (slot_nth_error _ _ _ Hn), Hd. auto.
  - intros [Hlt Hl]. exists (slot t i). split; [apply nth_error_slot; auto|].
    destruct (ndeleted (slot t i)); auto; discriminate.
Qed.

Lemma In_live_idx t i : In i (live_idx t) <-> live t i.
Proof.
  unfold live_idx. rewrite filter_In, in_seq, live_iff. simpl. intuition lia.
Qed.

Lemma NoDup_live_idx t : NoDup (live_idx t).
Proof. apply NoDup_filter, seq_NoDup. Qed.

(* a scan that skips removed slots visits the live positions in order *)
Lemma scan_live t (q : node -> bool) :
  filter (fun n => negb (ndeleted n) && q n) t
  = map (slot t) (filter (fun i => q (slot t i)) (live_idx t)).
Proof.
  rewrite <- (map_slot_seq t) at 1. rewrite filter_map_comm. f_equal.
  unfold live_idx. rewrite filter_filter. apply filter_ext. intros i. reflexivity.
Qed.

Lemma Blank_slot t i : Blank t -> livei t i = false -> slot t i = tombstone.
Proof.
  intros HB Hl. unfold livei in Hl. destruct (Nat.lt_ge_cases i (length t)) as [Hlt|Hge].
  - apply (HB i); [apply nth_error_slot; auto|]. destruct (ndeleted (slot t i)); auto; discriminate.
  - unfold slot. apply nth_overflow; auto.
Qed.

(* a scan that does not test the removal flag, on an arena whose removed slots are blank *)
Lemma scan_blank t (q : node -> bool) :
  Blank t -> q tombstone = false ->
  filter q t = map (slot t) (filter (fun i => q (slot t i)) (live_idx t)).
Proof.
  intros HB Hq. rewrite <- scan_live. apply filter_ext_in'. intros n Hin.
  destruct (ndeleted n) eqn:E; simpl; auto.
  apply In_nth_error in Hin as (i & Hi). rewrite (HB _ _ Hi E). auto.
Qed.

Lemma sum_blank t (f : node -> nat) :
  Blank t -> f tombstone = 0 ->
  sum_nat (map f t) = sum_nat (map (fun i => f (slot t i)) (live_idx t)).
Proof.
  intros HB Hf. rewrite <- (map_slot_seq t) at 1. rewrite map_map. unfold live_idx.
  apply sum_nat_filter. intros i _ Hl. rewrite Blank_slot; auto.
Qed.

Lemma forallb_blank t (g : node -> bool) :
  Blank t -> g tombstone = true ->
  forallb g t = forallb (fun i => g (slot t i)) (live_idx t).
Proof.
  intros HB Hg. rewrite <- (map_slot_seq t) at 1. rewrite forallb_map. unfold live_idx.
  apply forallb_filter. intros i _ Hl. rewrite Blank_slot; auto.
Qed.


(* the slot of a represented node *)
Lemma Rep_slot t p d i r0 :
  Rep t p d i r0 ->
  exists cs, r0 = RT i cs /\ nth_error t i = Some (slot t i) /\ ndeleted (slot t i) = false /\
    nparent (slot t i) = p /\ ndepth (slot t i) = d /\
    Forall2 (fun c r => Rep t (Some i) (S d) c r) (nchildren (slot t i)) cs.
Proof.
  intros H. destruct (Rep_inv _ _ _ _ _ H) as (n & cs & -> & Hn & Hdel & Hid & Hp & Hd & HF & _).
  exists cs. rewrite (slot_nth_error _ _ _ Hn). repeat split; auto.
Qed.

Lemma Forall2_length {A B} (R : A -> B -> Prop) l l' : Forall2 R l l' -> length l = length l'.
Proof. induction 1; simpl; auto. Qed.

Lemma NoDup_all_eq (l : list nat) x :
  NoDup l -> In x l -> (forall y, In y l -> y = x) -> l = [x].
Proof.
  intros Hnd Hin Hall. destruct l as [|a [|b l]]; simpl in *; try tauto.
  - destruct Hin as [->|[]]. auto.
  - exfalso. assert (a = x) by auto. assert (b = x) by auto. subst.
    inversion Hnd; subst. simpl in *; tauto.
Qed.

Lemma is_rooted_unfold t :
  t <> [] -> is_rooted t = (r <- get_root t ;; n <- get t r ;; Ok (Nat.eqb (length (nchildren n)) 2)).
Proof. destruct t; [congruence|reflexivity]. Qed.

(* ---- is_binary: the loop is a conjunction over all slots ----------------------------------------- *)
Definition okb (b : bool) n : bool :=
  match nparent n with
  | None => negb (b && Nat.ltb 2 (length (nchildren n))) && negb (negb b && Nat.ltb 3 (length (nchildren n)))
  | Some _ => negb (Nat.ltb 2 (length (nchildren n)))
  end.

Lemma is_binary_loop_ok t b ns :
  is_rooted t = Ok b -> is_binary_loop t ns = Ok (forallb (okb b) ns).
Proof.
  intros Hb. induction ns as [|n ns IH]; simpl; auto. unfold okb at 1.
  destruct (nparent n).
  - destruct (Nat.ltb 2 _); simpl; auto.
  - rewrite Hb. simpl. destruct (b && _); simpl; auto. destruct (negb b && _); simpl; auto.
Qed.

Lemma sub_arity t b : forall c p d i,
  Rep t (Some p) d i c -> forallb (fun j => okb b (slot t j)) (ids c) = arity_le 2 c.
Proof.
  induction c as [i0 cs IH] using rtree_ind'. intros p d i HR.
  destruct (Rep_slot _ _ _ _ _ HR) as (cs' & Heq & Hn & Hdel & Hp & Hd & HF). injection Heq as -> <-.
  rewrite ids_RT. simpl. f_equal.
  - unfold okb. rewrite Hp. rewrite (Forall2_length _ _ _ HF). rewrite Nat.leb_antisym. auto.
  - rewrite forallb_flat_map. apply forallb_ext_in. intros c Hc.
    destruct (Forall2_In_r _ _ _ _ HF Hc) as (k & _ & HRc).
    rewrite Forall_forall in IH. eapply IH; eauto.
Qed.


(* subtrees of a duplicate-free tree are duplicate-free *)
Lemma Rep_sub_nd t x : forall r p d i,
  Rep t p d i r -> NoDup (ids r) -> In x (ids r) ->
  exists px dx sx, Rep t px dx x sx /\ NoDup (ids sx) /\ incl (ids sx) (ids r).
Proof.
  induction r as [i0 cs IH] using rtree_ind'. intros p d i HR Hnd Hin.
  destruct (Rep_slot _ _ _ _ _ HR) as (cs' & Heq & Hn & Hdel & Hp & Hd & HF). injection Heq as -> <-.
  rewrite ids_RT in Hin. destruct Hin as [->|Hin].
  - exists p, d, (RT x cs). repeat split; auto. apply incl_refl.
  - apply in_flat_map in Hin as (c & Hc & Hxc).
    destruct (Forall2_In_r _ _ _ _ HF Hc) as (kc & Hkc & HRc).
    rewrite Forall_forall in IH. rewrite ids_RT in Hnd. inversion Hnd as [|? ? _ Hnd']; subst.
    destruct (IH c Hc _ _ _ HRc (NoDup_flat_map_in _ _ _ Hnd' Hc) Hxc) as (px & dx & sx & HRx & Hndx & Hincl).
    exists px, dx, sx. repeat split; auto. intros k Hk. rewrite ids_RT. right. apply in_flat_map. eauto.
Qed.

Lemma Rep_get t p d i c : Rep t p d i c -> get t i = Ok (slot t i).
Proof. intros H. destruct (Rep_slot _ _ _ _ _ H) as (cs & _ & Hn & Hdel & _). apply get_Ok; auto. Qed.

Lemma Rep_tipb t p d i c : Rep t p d i c -> Traversals.tipb t i = is_leaf c.
Proof.
  intros H. unfold Traversals.tipb. rewrite (Rep_get _ _ _ _ _ H).
  destruct (Rep_slot _ _ _ _ _ H) as (cs & -> & _ & _ & _ & _ & HF).
  unfold is_tip, is_leaf. simpl. inversion HF; auto.
Qed.

(* summing a per-slot quantity over the nodes of a represented tree *)
Lemma tree_sum_ids t (F : nat -> nat) (g : rtree -> nat) :
  (forall c p d i, Rep t p d i c -> NoDup (ids c) -> F i = g c) ->
  forall c p d i, Rep t p d i c -> NoDup (ids c) -> sum_nat (map F (ids c)) = tree_sum g c.
Proof.
  intros HFg. induction c as [i0 cs IH] using rtree_ind'. intros p d i HR Hnd.
  pose proof (HFg _ _ _ _ HR Hnd) as Hi.
  destruct (Rep_slot _ _ _ _ _ HR) as (cs' & Heq & Hn & Hdel & Hp & Hd & HF). injection Heq as -> <-.
  rewrite ids_RT. cbn [map sum_nat tree_sum]. rewrite Hi. f_equal.
  rewrite map_flat_map, sum_nat_flat_map. f_equal. apply map_ext_in. intros c Hc.
  destruct (Forall2_In_r _ _ _ _ HF Hc) as (k & _ & HRc).
  rewrite Forall_forall in IH. eapply IH; eauto.
  rewrite ids_RT in Hnd. inversion Hnd; subst. eapply NoDup_flat_map_in; eauto.
Qed.

(* ---- cherries -------------------------------------------------------------------------------------- *)
Definition cherry_val t n : nat :=
  match nchildren n with
  | [a; b] => if Traversals.tipb t a && Traversals.tipb t b then 1 else 0
  | _ => 0
  end.

Lemma cherries_loop_ok t ns : forall acc,
  (forall n c, In n ns -> In c (nchildren n) -> live t c) ->
  cherries_loop t ns acc = Ok (acc + sum_nat (map (cherry_val t) ns)).
Proof.
  induction ns as [|n ns IH]; intros acc Hl; simpl.
  - f_equal. lia.
  - assert (Hl' : forall n c, In n ns -> In c (nchildren n) -> live t c) by (intros; eapply Hl; simpl; eauto).
    unfold cherry_val at 1.
    destruct (nchildren n) as [|a [|b [|c l]]] eqn:E; try (rewrite IH by auto; f_equal; lia).
    assert (Ha : live t a) by (apply (Hl n); simpl; auto; rewrite E; simpl; auto).
    assert (Hb : live t b) by (apply (Hl n); simpl; auto; rewrite E; simpl; auto).
    apply get_live in Ha as (na & Ha). apply get_live in Hb as (nb & Hb).
    unfold Traversals.tipb. rewrite Ha, Hb. simpl.
    destruct (is_tip na); simpl; [destruct (is_tip nb)|]; simpl; rewrite IH by auto; f_equal; lia.
Qed.

Lemma cherry_val_spec t c p d i :
  Rep t p d i c -> cherry_val t (slot t i) = if is_cherry c then 1 else 0.
Proof.
  intros H. destruct (Rep_slot _ _ _ _ _ H) as (cs & -> & _ & _ & _ & _ & HF).
  unfold cherry_val, is_cherry. simpl.
  inversion HF as [|a ra la lra Ha HF1]; subst; auto.
  inversion HF1 as [|b rb lb lrb Hb HF2]; subst; auto.
  inversion HF2; subst; auto.
  rewrite (Rep_tipb _ _ _ _ _ Ha), (Rep_tipb _ _ _ _ _ Hb). auto.
Qed.

(* ---- colless --------------------------------------------------------------------------------------- *)
Definition nl t (j : nat) : nat :=
  match get_subtree_leaves t j with Ok l => length l | _ => 0 end.
Definition colless_val t n : nat :=
  match nchildren n with
  | [] => 0
  | a :: more => abs_diff (nl t a) (match more with b :: _ => nl t b | [] => 0 end)
  end.

Lemma colless_loop_ok t ns : forall acc,
  (forall n c, In n ns -> In c (nchildren n) -> exists l, get_subtree_leaves t c = Ok l) ->
  colless_loop t ns acc = Ok (acc + sum_nat (map (colless_val t) ns)).
Proof.
  induction ns as [|n ns IH]; intros acc Hl; simpl.
  - f_equal. lia.
  - assert (Hl' : forall n c, In n ns -> In c (nchildren n) -> exists l, get_subtree_leaves t c = Ok l)
      by (intros; eapply Hl; simpl; eauto).
    unfold colless_val at 1.
    destruct (nchildren n) as [|a more] eqn:E; [rewrite IH by auto; f_equal; lia|].
    destruct (Hl n a) as (la & Ha); simpl; auto; [rewrite E; simpl; auto|].
    unfold nl. rewrite Ha. simpl.
    destruct more as [|b more]; simpl.
    + rewrite IH by auto. f_equal. lia.
    + destruct (Hl n b) as (lb & Hb); simpl; auto; [rewrite E; simpl; auto|].
      rewrite Hb. simpl. rewrite IH by auto. f_equal. lia.
Qed.

Lemma nl_spec t c p d i : Rep t p d i c -> NoDup (ids c) -> nl t i = nleaves c.
Proof.
  intros H Hnd. unfold nl. rewrite (Traversals.get_subtree_leaves_refines _ _ _ _ _ H Hnd). auto.
Qed.

Lemma colless_val_spec t c p d i :
  Rep t p d i c -> NoDup (ids c) -> colless_val t (slot t i) = colless_node (rch c).
Proof.
  intros H Hnd. destruct (Rep_slot _ _ _ _ _ H) as (cs & -> & _ & _ & _ & _ & HF).
  unfold colless_val, colless_node. simpl.
  rewrite ids_RT in Hnd. inversion Hnd as [|? ? _ Hnd']; subst.
  inversion HF as [|a ra la lra Ha HF1]; subst; auto.
  rewrite (nl_spec _ _ _ _ _ Ha) by (eapply NoDup_flat_map_in; eauto; simpl; auto).
  inversion HF1 as [|b rb lb lrb Hb HF2]; subst; auto.
  rewrite (nl_spec _ _ _ _ _ Hb) by (eapply NoDup_flat_map_in; eauto; simpl; auto). auto.
Qed.

(* ---- sackin: cached depths ------------------------------------------------------------------------ *)
Lemma leaf_depths_slots t : forall c p d i,
  Rep t p d i c -> map (fun j => ndepth (slot t j)) (rleaves c) = leaf_depths d c.
Proof.
  induction c as [i0 cs IH] using rtree_ind'. intros p d i HR.
  destruct (Rep_slot _ _ _ _ _ HR) as (cs' & Heq & Hn & Hdel & Hp & Hd & HF). injection Heq as -> <-.
  destruct cs as [|c0 cs0]; [simpl; rewrite Hd; auto|].
  cbn [rleaves leaf_depths]. rewrite map_flat_map.
  apply Traversals.flat_map_Forall_ext. rewrite Forall_forall in *. intros c Hc.
  destruct (Forall2_In_r _ _ _ _ HF Hc) as (k & _ & HRc). eapply IH; eauto.
Qed.


Lemma is_binary_err t n t' e :
  t = n :: t' -> nparent n = None -> is_rooted t = Err e -> is_binary t = Err e.
Proof. intros Et Hp Hr. unfold is_binary. rewrite Et at 2. simpl. rewrite Hp, Hr. auto. Qed.

Lemma cherries_unfold t :
  t <> [] -> cherries t = (b <- is_binary t ;; if negb b then Err IsNotBinary else cherries_loop t t 0).
Proof. destruct t; [congruence|reflexivity]. Qed.


(* the members of l that are positions of the arena, in increasing order *)
Definition sorted_ids t (l : list nat) : list nat := filter (fun i => mem_nat i l) (seq 0 (length t)).

Lemma edge_of_slot t i : edge_of t i = npedge (slot t i).
Proof.
  unfold edge_of. destruct (Nat.lt_ge_cases i (length t)) as [Hlt|Hge].
  - rewrite nth_error_slot; auto.
  - unfold slot. rewrite nth_overflow by auto. apply nth_error_None in Hge. rewrite Hge. auto.
Qed.

Lemma fold_present (O : LenOps L) (es : list (option L)) : forall a,
  fold_left (fun acc o => match o with Some e => ladd O acc e | None => acc end) es a
  = fold_left (ladd O) (present es) a.
Proof. induction es as [|[e|] es IH]; intros a; simpl; auto. Qed.

(* ================================================================================================ *)
(* 3. a represented tree that covers the live slots                                                  *)
(* ================================================================================================ *)
Section Tree.
Variables (t : arena) (root : nat) (r : rtree).
Hypothesis HR : Rep t None 0 root r.
Hypothesis Hnd : NoDup (ids r).
Hypothesis Hcov : forall i, live t i -> In i (ids r).

Lemma live_idx_perm : Permutation (live_idx t) (ids r).
Proof.
  apply NoDup_Permutation; auto using NoDup_live_idx.
  intros i. rewrite In_live_idx. split; auto. intros. eapply Rep_ids_live; eauto.
Qed.

Lemma ids_get i : In i (ids r) -> get t i = Ok (slot t i).
Proof.
  intros Hin. destruct (Rep_ids_live _ _ _ _ _ _ HR Hin) as (n & Hn & Hd).
  rewrite (slot_nth_error _ _ _ Hn). apply get_Ok; auto.
Qed.

Lemma ids_nid i : In i (ids r) -> nid (slot t i) = i.
Proof.
  intros Hin. destruct (Rep_ids_live _ _ _ _ _ _ HR Hin) as (n & Hn & Hd).
  rewrite (slot_nth_error _ _ _ Hn). eapply Rep_ids_nid; eauto.
Qed.

Lemma live_idx_nid i : In i (live_idx t) -> nid (slot t i) = i.
Proof. intros H. apply ids_nid, Hcov, In_live_idx; auto. Qed.

Lemma tipb_slot i : In i (ids r) -> Traversals.tipb t i = is_tip (slot t i).
Proof. intros Hin. unfold Traversals.tipb. rewrite ids_get; auto. Qed.

(* ---- leaves ------------------------------------------------------------------------------------- *)
(* the leaves are listed by increasing id *)
Lemma get_leaves_sorted :
  get_leaves t = filter (fun i => is_tip (slot t i)) (live_idx t).
Proof.
  unfold get_leaves. rewrite scan_live, map_map.
  erewrite map_ext_in; [apply map_id|]. intros i Hi. cbv beta.
  apply filter_In in Hi as [Hi _]. apply live_idx_nid; auto.
Qed.

Theorem get_leaves_perm : Permutation (get_leaves t) (rleaves r).
Proof.
  rewrite get_leaves_sorted.
  rewrite <- (Traversals.filter_tip_pre t r _ _ _ HR). fold (ids r).
  rewrite <- (filter_ext_in' (fun i => is_tip (slot t i)) (Traversals.tipb t) (ids r))
    by (intros; symmetry; apply tipb_slot; auto).
  apply NoDup_Permutation.
  - apply NoDup_filter, NoDup_live_idx.
  - apply NoDup_filter; auto.
  - intros i. rewrite !filter_In. rewrite (Permutation_in' eq_refl live_idx_perm). tauto.
Qed.

Theorem n_leaves_refines : n_leaves t = length (rleaves r).
Proof.
  rewrite <- (Permutation_length get_leaves_perm). unfold get_leaves. rewrite map_length. auto.
Qed.

(* ---- root, rooted, binary ------------------------------------------------------------------------- *)
Lemma root_in : In root (ids r).
Proof. rewrite <- (Rep_rid _ _ _ _ _ HR). apply In_rid_ids. Qed.

Lemma root_idx : filter (fun i => is_root (slot t i)) (live_idx t) = [root].
Proof.
  destruct (Rep_slot _ _ _ _ _ HR) as (cs & Heq & Hn & Hdel & Hp & Hd & HF).
  apply NoDup_all_eq.
  - apply NoDup_filter, NoDup_live_idx.
  - apply filter_In. split.
    + apply In_live_idx. eapply Rep_ids_live; eauto. apply root_in.
    + unfold is_root. rewrite Hp. auto.
  - intros y Hy. apply filter_In in Hy as [Hy Hr]. apply In_live_idx in Hy.
    pose proof (Hcov _ Hy) as Hin. destruct Hy as (n & Hy & _).
    eapply Rep_root_unique; eauto. rewrite (slot_nth_error _ _ _ Hy) in Hr.
    unfold is_root in Hr. destruct (nparent n); auto; discriminate.
Qed.

Theorem get_root_refines : get_root t = Ok root.
Proof.
  unfold get_root. rewrite scan_live, root_idx. simpl. f_equal. apply ids_nid, root_in.
Qed.

Lemma t_nonempty : t <> [].
Proof.
  pose proof (Rep0_ids_lt _ _ _ _ _ (Rep_Rep0 _ _ _ _ _ HR) root_in) as H.
  intros E. rewrite E in H. simpl in H. lia.
Qed.

Theorem is_rooted_refines : is_rooted t = Ok (Nat.eqb (length (rch r)) 2).
Proof.
  rewrite (is_rooted_unfold _ t_nonempty), get_root_refines. simpl.
  rewrite (ids_get _ root_in). simpl.
  destruct (Rep_slot _ _ _ _ _ HR) as (cs & -> & Hn & Hdel & Hp & Hd & HF).
  rewrite (Forall2_length _ _ _ HF). auto.
Qed.

Theorem is_binary_refines : Blank t -> is_binary t = Ok (binary_spec r).
Proof.
  intros HB. unfold is_binary. rewrite (is_binary_loop_ok _ _ _ is_rooted_refines). f_equal.
  set (b := Nat.eqb (length (rch r)) 2).
  rewrite forallb_blank; auto; [|unfold okb; simpl; destruct b; auto].
  rewrite (forallb_perm _ _ _ live_idx_perm).
  destruct (Rep_slot _ _ _ _ _ HR) as (cs & Heq & Hn & Hdel & Hp & Hd & HF).
  unfold binary_spec. fold b. subst r. rewrite ids_RT. simpl in *.
  assert (E : forallb (fun i => okb b (slot t i)) (flat_map ids cs) = forallb (arity_le 2) cs).
  { rewrite forallb_flat_map. apply forallb_ext_in. intros c Hc.
    destruct (Forall2_In_r _ _ _ _ HF Hc) as (k & _ & HRc). eapply sub_arity; eauto. }
  rewrite E. unfold okb at 1. rewrite Hp, (Forall2_length _ _ _ HF).
  rewrite !Nat.leb_antisym. destruct b; simpl; auto. rewrite andb_true_r. auto.
Qed.

(* ---- cherries, Colless, Sackin ------------------------------------------------------------------- *)
Lemma sum_live_ids (F : nat -> nat) : sum_nat (map F (live_idx t)) = sum_nat (map F (ids r)).
Proof. apply sum_nat_perm, Permutation_map, live_idx_perm. Qed.

(* every child named by a slot of the arena is the root of a represented, duplicate-free subtree *)
Lemma children_rep :
  Blank t -> forall n c, In n t -> In c (nchildren n) ->
  exists pc dc rc, Rep t pc dc c rc /\ NoDup (ids rc).
Proof.
  intros HB n c Hn Hc. apply In_nth_error in Hn as (i & Hi).
  destruct (ndeleted n) eqn:Hdel.
  - rewrite (HB _ _ Hi Hdel) in Hc. simpl in Hc. tauto.
  - assert (Hin : In i (ids r)) by (apply Hcov; exists n; auto).
    destruct (Rep_sub_nd _ _ _ _ _ _ HR Hnd Hin) as (px & dx & sx & HRx & Hndx & _).
    destruct (Rep_slot _ _ _ _ _ HRx) as (cs & -> & _ & _ & _ & _ & HF).
    rewrite (slot_nth_error _ _ _ Hi) in HF.
    destruct (Forall2_In_l _ _ _ _ HF Hc) as (rc & Hrc & HRc).
    exists (Some i), (S dx), rc. split; auto.
    rewrite ids_RT in Hndx. inversion Hndx; subst. eapply NoDup_flat_map_in; eauto.
Qed.

Theorem cherries_refines : Blank t -> binary_spec r = true -> cherries t = Ok (cherries_spec r).
Proof.
  intros HB Hbin. rewrite (cherries_unfold _ t_nonempty), (is_binary_refines HB), Hbin. simpl.
  rewrite cherries_loop_ok.
  - f_equal. simpl. rewrite sum_blank by auto. rewrite sum_live_ids.
    rewrite cherries_tree_sum. eapply tree_sum_ids; eauto.
    intros c p d i Hc _. eapply cherry_val_spec; eauto.
  - intros n c Hn Hc. destruct (children_rep HB _ _ Hn Hc) as (pc & dc & rc & HRc & _).
    eapply Rep_live; eauto.
Qed.

Lemma check_rooted_binary_ok :
  Blank t -> length (rch r) = 2 -> arity_le 2 r = true -> check_rooted_binary t = Ok tt.
Proof.
  intros HB H2 Har. unfold check_rooted_binary.
  rewrite is_rooted_refines, (is_binary_refines HB). unfold binary_spec. rewrite H2, Har. auto.
Qed.

(* the code's formula on any rooted tree of arity <= 2 (unary nodes count their whole subtree) *)
Theorem colless_refines_gen :
  Blank t -> length (rch r) = 2 -> arity_le 2 r = true -> colless t = Ok (colless_gen r).
Proof.
  intros HB H2 Har. unfold colless. rewrite check_rooted_binary_ok by auto. simpl.
  rewrite colless_loop_ok.
  - f_equal. simpl. rewrite sum_blank by auto. rewrite sum_live_ids.
    rewrite colless_tree_sum. eapply tree_sum_ids; eauto.
    intros c p d i Hc Hndc. eapply colless_val_spec; eauto.
  - intros n c Hn Hc. destruct (children_rep HB _ _ Hn Hc) as (pc & dc & rc & HRc & Hndc).
    eexists. eapply Traversals.get_subtree_leaves_refines; eauto.
Qed.

Theorem colless_refines :
  Blank t -> length (rch r) = 2 -> strict_binary r = true -> colless t = Ok (colless_spec r).
Proof.
  intros HB H2 Hs. rewrite <- strict_binary_colless by auto.
  apply colless_refines_gen; auto using strict_binary_arity.
Qed.

Lemma rleaves_incl : incl (rleaves r) (ids r).
Proof.
  rewrite <- (Traversals.filter_tip_pre t r _ _ _ HR). fold (ids r). intros x Hx.
  apply filter_In in Hx. tauto.
Qed.

Theorem sackin_refines :
  Blank t -> length (rch r) = 2 -> arity_le 2 r = true -> sackin t = Ok (sackin_spec r).
Proof.
  intros HB H2 Har. unfold sackin. rewrite check_rooted_binary_ok by auto. simpl.
  rewrite (mapM_ok _ (fun i => ndepth (slot t i))).
  - simpl. f_equal. rewrite (sum_nat_perm _ _ (Permutation_map _ get_leaves_perm)).
    unfold sackin_spec. f_equal. eapply leaf_depths_slots; eauto.
  - intros i Hi. rewrite ids_get; auto.
    apply rleaves_incl. eapply Permutation_in; [apply get_leaves_perm|auto].
Qed.

(* ---- refusals ---------------------------------------------------------------------------------------- *)
Theorem indices_refuse_unrooted :
  length (rch r) <> 2 -> colless t = Err IsNotRooted /\ sackin t = Err IsNotRooted.
Proof.
  intros H. apply Nat.eqb_neq in H. unfold colless, sackin, check_rooted_binary.
  rewrite is_rooted_refines, H. auto.
Qed.

Theorem indices_refuse_nonbinary :
  Blank t -> length (rch r) = 2 -> 2 < max_arity r ->
  colless t = Err IsNotBinary /\ sackin t = Err IsNotBinary /\ cherries t = Err IsNotBinary.
Proof.
  intros HB H2 Hm.
  assert (Hb : binary_spec r = false).
  { unfold binary_spec. rewrite H2. simpl. rewrite arity_le_max. apply Nat.leb_gt. auto. }
  rewrite (cherries_unfold _ t_nonempty). unfold colless, sackin, check_rooted_binary.
  rewrite is_rooted_refines, (is_binary_refines HB), H2, Hb. auto.
Qed.

(* cherries does not ask for a root: it is refused exactly when [is_binary] fails *)
Theorem cherries_refuse : Blank t -> binary_spec r = false -> cherries t = Err IsNotBinary.
Proof.
  intros HB Hb. rewrite (cherries_unfold _ t_nonempty), (is_binary_refines HB), Hb. auto.
Qed.

Corollary cherries_refines_strict :
  Blank t -> length (rch r) = 2 -> strict_binary r = true -> cherries t = Ok (cherries_spec r).
Proof.
  intros HB H2 Hs. apply cherries_refines; auto. unfold binary_spec. rewrite H2. simpl.
  apply strict_binary_arity; auto.
Qed.

Corollary sackin_refines_strict :
  Blank t -> length (rch r) = 2 -> strict_binary r = true -> sackin t = Ok (sackin_spec r).
Proof. intros. apply sackin_refines; auto using strict_binary_arity. Qed.

(* ---- arena order = increasing ids ------------------------------------------------------------------ *)
Lemma live_idx_ids : live_idx t = sorted_ids t (ids r).
Proof.
  unfold live_idx, sorted_ids. apply filter_ext_in'. intros i Hi. apply in_seq in Hi.
  apply eq_true_iff_eq. rewrite mem_nat_In. split.
  - intros H. apply Hcov, live_iff. split; auto; lia.
  - intros H. apply (Rep_ids_live _ _ _ _ _ _ HR), live_iff in H. tauto.
Qed.

Theorem get_leaves_order : get_leaves t = sorted_ids t (rleaves r).
Proof.
  rewrite get_leaves_sorted. unfold live_idx, sorted_ids. rewrite filter_filter.
  apply filter_ext_in'. intros i Hi. apply in_seq in Hi.
  apply eq_true_iff_eq. rewrite mem_nat_In, andb_true_iff.
  rewrite <- (Traversals.filter_tip_pre t r _ _ _ HR). fold (ids r). rewrite filter_In.
  split.
  - intros [Hl Ht]. assert (Hin : In i (ids r)) by (apply Hcov, live_iff; split; auto; lia).
    split; auto. rewrite tipb_slot; auto.
  - intros [Hin Ht]. rewrite tipb_slot in Ht by auto. split; auto.
    apply (Rep_ids_live _ _ _ _ _ _ HR), live_iff in Hin. tauto.
Qed.

Lemma nonroot_idx :
  filter (fun i => negb (is_root (slot t i))) (live_idx t) = sorted_ids t (tl (ids r)).
Proof.
  unfold live_idx, sorted_ids. rewrite filter_filter.
  apply filter_ext_in'. intros i Hi. apply in_seq in Hi.
  apply eq_true_iff_eq. rewrite mem_nat_In, andb_true_iff, negb_true_iff.
  destruct (Rep_slot _ _ _ _ _ HR) as (cs & Heq & Hn & Hdel & Hp & Hd & HF).
  split.
  - intros [Hl Hroot]. assert (Hin : In i (ids r)) by (apply Hcov, live_iff; split; auto; lia).
    rewrite Heq, ids_RT in *. simpl in *. destruct Hin as [<-|Hin]; auto.
    unfold is_root in Hroot. rewrite Hp in Hroot. discriminate.
  - intros Hin. assert (Hin' : In i (ids r)) by (rewrite Heq, ids_RT in *; simpl in *; auto).
    split; [apply (Rep_ids_live _ _ _ _ _ _ HR), live_iff in Hin'; tauto|].
    assert (Hne : i <> root).
    { intros ->. rewrite Heq, ids_RT in Hnd, Hin. simpl in Hin. inversion Hnd; auto. }
    destruct (Rep_parent _ _ _ _ _ _ HR Hin' Hne) as (P & nP & nx & _ & _ & _ & Hnx & Hpx & _).
    rewrite (slot_nth_error _ _ _ Hnx). unfold is_root. rewrite Hpx. auto.
Qed.

(* ---- total length --------------------------------------------------------------------------------- *)
Variable O : LenOps L.

(* branch lengths of the non-root nodes by increasing id; the sum is taken left to right from 0.0 *)
Definition branch_lengths : list (option L) := map (edge_of t) (sorted_ids t (tl (ids r))).

Theorem length_refines_gen :
  Blank t ->
  length_ O t = match path_len O branch_lengths with
                | Some v => Ok v
                | None => Err MissingBranchLengths
                end.
Proof.
  intros HB. unfold length_. rewrite (scan_blank t (fun n => negb (is_root n))) by auto.
  rewrite nonroot_idx, map_map.
  rewrite (map_ext (fun i => npedge (slot t i)) (edge_of t)) by (intros; symmetry; apply edge_of_slot).
  fold branch_lengths. unfold path_len, all_present.
  destruct (forallb _ branch_lengths); auto. rewrite fold_present. auto.
Qed.

Theorem length_refines :
  Blank t -> (forall i, In i (tl (ids r)) -> edge_of t i <> None) ->
  length_ O t = Ok (fold_left (ladd O) (present branch_lengths) (l0 O)).
Proof.
  intros HB Hall. rewrite (length_refines_gen HB), path_len_Some; auto.
  unfold branch_lengths, sorted_ids. intros H. apply in_map_iff in H as (i & Hi & Hin).
  apply filter_In in Hin as [_ Hin]. apply mem_nat_In in Hin. apply (Hall i); auto.
Qed.

Theorem length_refuses :
  Blank t -> (exists i, In i (tl (ids r)) /\ edge_of t i = None) ->
  length_ O t = Err MissingBranchLengths.
Proof.
  intros HB (i & Hin & Hi). rewrite (length_refines_gen HB).
  assert (E : path_len O branch_lengths = None); [|rewrite E; auto].
  apply path_len_None. unfold branch_lengths, sorted_ids. rewrite <- Hi. apply in_map.
  apply filter_In. split; [|apply mem_nat_In; auto].
  apply in_seq. split; [lia|]. simpl. eapply Rep0_ids_lt; [eapply Rep_Rep0; eauto|].
  destruct r. rewrite ids_RT in *. simpl in *. auto.
Qed.

(* ---- height and diameter ----------------------------------------------------------------------------- *)
(* distance between two nodes of the tree: the branches of the unique path between them (the two root
   paths without their common prefix), summed when all of them have a length, counted otherwise *)
Definition tree_dist (a b : nat) : L :=
  match rpath a r, rpath b r with
  | Some pa, Some pb =>
      let k := cpl pa pb in
      let es := map (edge_of t) (skipn k pa ++ skipn k pb) in
      match path_len O es with Some h => h | None => lofnat O (length es) end
  | _, _ => l0 O
  end.

(* distance from the root: the branches of the root path below the root *)
Definition root_dist (x : nat) : L :=
  match rpath x r with
  | Some p =>
      let es := map (edge_of t) (tl p) in
      match path_len O es with Some h => h | None => lofnat O (length es) end
  | None => l0 O
  end.

Lemma tree_dist_refines a b :
  In a (ids r) -> In b (ids r) -> dist_or_edges O (get_distance O t a b) = Ok (tree_dist a b).
Proof.
  intros Ha Hb. destruct (dist_refines O _ _ _ _ _ HR Hnd Ha Hb) as (pa & pb & Hpa & Hpb & Hd).
  cbv zeta in Hd. rewrite Hd. unfold tree_dist. rewrite Hpa, Hpb. cbv zeta.
  unfold dist_or_edges. destruct (path_len O _); auto.
  rewrite map_length, app_length. auto.
Qed.

Lemma tree_dist_root x : In x (ids r) -> tree_dist root x = root_dist x.
Proof.
  intros Hx. unfold tree_dist, root_dist. rewrite <- (Rep_rid _ _ _ _ _ HR), rpath_root.
  apply rpath_total in Hx as (q & Hq). rewrite Hq.
  destruct (rpath_head _ _ _ Hq) as (q' & ->). simpl. rewrite Nat.eqb_refl. simpl. auto.
Qed.

Lemma leaves_in_ids x : In x (get_leaves t) -> In x (ids r).
Proof. intros H. apply rleaves_incl. eapply Permutation_in; [apply get_leaves_perm|auto]. Qed.

Lemma rleaves_nonempty : forall c, rleaves c <> [].
Proof.
  induction c as [i cs IH] using rtree_ind'. destruct cs as [|c cs]; [discriminate|].
  cbn [rleaves flat_map]. inversion IH; subst. destruct (rleaves c); [congruence|discriminate].
Qed.

Lemma get_leaves_nonempty : get_leaves t <> [].
Proof.
  intros E. pose proof (Permutation_length get_leaves_perm) as H. rewrite E in H.
  pose proof (rleaves_nonempty r). destruct (rleaves r); [congruence|discriminate].
Qed.

Theorem height_refines :
  length (rch r) = 2 ->
  height O t = match lmax_list O (map root_dist (get_leaves t)) with
               | Some h => Ok h
               | None => Err IsEmpty
               end.
Proof.
  intros H2. unfold height. rewrite is_rooted_refines, H2. simpl. rewrite get_root_refines. simpl.
  rewrite (mapM_ok _ root_dist); auto.
  intros x Hx. apply leaves_in_ids in Hx. rewrite tree_dist_refines; auto using root_in.
  rewrite tree_dist_root; auto.
Qed.

(* a rooted tree has a leaf: the maximum exists *)
Corollary height_defined :
  length (rch r) = 2 -> exists h, lmax_list O (map root_dist (get_leaves t)) = Some h /\ height O t = Ok h.
Proof.
  intros H2. rewrite (height_refines H2). pose proof get_leaves_nonempty.
  destruct (get_leaves t); [congruence|]. simpl. eauto.
Qed.

Theorem height_refuses : length (rch r) <> 2 -> height O t = Err IsNotRooted.
Proof. intros H. apply Nat.eqb_neq in H. unfold height. rewrite is_rooted_refines, H. auto. Qed.

Theorem diameter_refines :
  diameter O t = match lmax_list O (map (fun p => tree_dist (fst p) (snd p)) (pairs (get_leaves t))) with
                 | Some h => Ok h
                 | None => Err IsEmpty
                 end.
Proof.
  unfold diameter. rewrite (mapM_ok _ (fun p => tree_dist (fst p) (snd p))); auto.
  intros [a b] Hp. apply in_pairs in Hp as [Ha Hb]. simpl.
  apply tree_dist_refines; auto using leaves_in_ids.
Qed.

(* ---- when + is associative and commutative the order of the summation is irrelevant ---------------- *)
Section Monoid.
Hypothesis ladd_assoc : forall x y z, ladd O x (ladd O y z) = ladd O (ladd O x y) z.
Hypothesis ladd_comm : forall x y, ladd O x y = ladd O y x.

Lemma fold_ladd_perm (l l' : list L) :
  Permutation l l' -> forall a, fold_left (ladd O) l a = fold_left (ladd O) l' a.
Proof.
  induction 1; intros a; simpl; auto.
  - f_equal. rewrite <- !ladd_assoc. f_equal. apply ladd_comm.
  - rewrite IHPermutation1. auto.
Qed.

Lemma sorted_ids_perm (l : list nat) :
  NoDup l -> (forall i, In i l -> i < length t) -> Permutation (sorted_ids t l) l.
Proof.
  intros Hl Hlt. apply NoDup_Permutation; auto.
  - apply NoDup_filter, seq_NoDup.
  - intros i. unfold sorted_ids. rewrite filter_In, mem_nat_In, in_seq. split; [tauto|].
    intros H. split; auto. specialize (Hlt _ H). lia.
Qed.

(* total length = sum of the branch lengths of all non-root nodes of the tree (here in preorder) *)
Theorem length_refines_tree :
  Blank t -> (forall i, In i (tl (ids r)) -> edge_of t i <> None) ->
  length_ O t = Ok (fold_left (ladd O) (present (map (edge_of t) (tl (ids r)))) (l0 O)).
Proof.
  intros HB Hall. rewrite (length_refines HB Hall). f_equal. apply fold_ladd_perm.
  unfold present, branch_lengths. apply Permutation_flat_map, Permutation_map, sorted_ids_perm.
  - destruct r. rewrite ids_RT in *. simpl. inversion Hnd; auto.
  - intros i Hi. eapply Rep0_ids_lt; [eapply Rep_Rep0; eauto|].
    destruct r. rewrite ids_RT in *. simpl in *. auto.
Qed.
End Monoid.

End Tree.
(* ================================================================================================ *)
(* 4. arenas without any live node (WF's first disjunct): every query reports the absence of a root   *)
(* ================================================================================================ *)
Section NoLive.
Variable t : arena.
Variable O : LenOps L.
Hypothesis Hno : forall i, ~ live t i.

Lemma live_idx_nil : live_idx t = [].
Proof.
  destruct (live_idx t) as [|i l] eqn:E; auto. exfalso. apply (Hno i), In_live_idx. rewrite E. simpl; auto.
Qed.

Theorem empty_leaves : get_leaves t = [] /\ n_leaves t = 0.
Proof. unfold n_leaves, get_leaves. rewrite scan_live, live_idx_nil. auto. Qed.

Theorem empty_root : get_root t = Err RootNotFound /\ is_rooted t = Err RootNotFound.
Proof.
  assert (E : get_root t = Err RootNotFound) by (unfold get_root; rewrite scan_live, live_idx_nil; auto).
  unfold is_rooted. rewrite E. auto.
Qed.

Theorem empty_indices :
  colless t = Err RootNotFound /\ sackin t = Err RootNotFound /\ height O t = Err RootNotFound /\
  diameter O t = Err IsEmpty.
Proof.
  destruct empty_root as [_ E]. destruct empty_leaves as [El _].
  unfold colless, sackin, height, diameter, check_rooted_binary. rewrite E, El. auto.
Qed.

Theorem empty_binary :
  Blank t -> is_binary t = (if Nat.eqb (length t) 0 then Ok true else Err RootNotFound) /\
             cherries t = (if Nat.eqb (length t) 0 then Err IsEmpty else Err RootNotFound).
Proof.
  intros HB. destruct empty_root as [_ E].
  destruct (Nat.eqb_spec (length t) 0) as [H0|H0].
  - apply length_zero_iff_nil in H0. rewrite H0. auto.
  - assert (Hne : t <> []) by (intros E0; rewrite E0 in H0; auto).
    assert (Hb : is_binary t = Err RootNotFound).
    { apply (is_binary_err t (slot t 0) (tl t)); auto.
      - unfold slot. destruct t; [congruence|auto].
      - rewrite Blank_slot; auto. unfold livei. destruct (ndeleted (slot t 0)) eqn:D; auto.
        exfalso. apply (Hno 0). exists (slot t 0). split; auto. apply nth_error_slot. lia. }
    split; auto. rewrite (cherries_unfold _ Hne), Hb. auto.
Qed.

Theorem empty_length : Blank t -> length_ O t = Ok (l0 O).
Proof.
  intros HB. unfold length_. rewrite (scan_blank t (fun n => negb (is_root n))) by auto.
  rewrite live_idx_nil. auto.
Qed.
End NoLive.

End Stats.

(* ================================================================================================ *)
(* 5. the blank-slot hypothesis cannot be dropped                                                    *)
(* ================================================================================================ *)
(* [is_binary], [cherries], [colless] and [length_] do not test the removal flag.  A removed slot that
   kept stale fields satisfies WF's clauses but changes their results: here a single live leaf (a binary
   tree by [binary_spec]) next to a removed slot that still lists three children and a length-less
   parent link. *)
Example Blank_needed :
  let t : @arena unit :=
    [ mkNode 0 None None [] None None [] 0 false;
      mkNode 0 None (Some 0) [5; 5; 5] None None [] 0 true ] in
  let O := Build_LenOps unit tt tt (fun _ _ => tt) (fun _ _ => tt) (fun _ _ => tt) (fun _ _ => tt)
             (fun _ => tt) (fun _ _ => false) (fun _ _ => true) (fun _ => tt) tt in
  Rep t None 0 0 (RT 0 []) /\ NoDup (ids (RT 0 [])) /\ (forall i, live t i -> In i (ids (RT 0 []))) /\
  binary_spec (RT 0 []) = true /\ is_binary t = Ok false /\
  length_ O t = Err MissingBranchLengths.
Proof.
  cbv zeta. split; [|split; [|split; [|repeat split]]].
  - econstructor; try reflexivity; simpl; auto; try tauto; intros; congruence.
  - repeat constructor. simpl. tauto.
  - intros i (n & Hn & Hd). destruct i as [|[|i]]; simpl in *.
    + auto.
    + injection Hn as <-. discriminate.
    + destruct i; discriminate.
Qed.

(* ================================================================================================ *)
(* summary                                                                                           *)
(* ================================================================================================ *)
Print Assumptions n_leaves_refines.
Print Assumptions get_leaves_perm.
Print Assumptions get_leaves_order.
Print Assumptions get_root_refines.
Print Assumptions is_rooted_refines.
Print Assumptions is_binary_refines.
Print Assumptions cherries_refines.
Print Assumptions cherries_refines_strict.
Print Assumptions colless_refines_gen.
Print Assumptions colless_refines.
Print Assumptions sackin_refines.
Print Assumptions sackin_refines_strict.
Print Assumptions indices_refuse_unrooted.
Print Assumptions indices_refuse_nonbinary.
Print Assumptions cherries_refuse.
Print Assumptions length_refines_gen.
Print Assumptions length_refines.
Print Assumptions length_refuses.
Print Assumptions length_refines_tree.
Print Assumptions height_refines.
Print Assumptions height_defined.
Print Assumptions height_refuses.
Print Assumptions diameter_refines.
Print Assumptions empty_leaves.
Print Assumptions empty_root.
Print Assumptions empty_indices.
Print Assumptions empty_binary.
Print Assumptions empty_length.
Print Assumptions Blank_needed.
