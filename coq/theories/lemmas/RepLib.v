(* RepLib.v — library of facts about the bridge Rep / WF of Spec.v (frame, surgery, edge maps,
   depth recomputation).  Used by WFOps.v. *)
From PT Require Import Arena Spec.
From Coq Require Import Permutation Sorted.

Local Arguments ids : simpl never.

(* ---- rose trees ---------------------------------------------------------------------------------- *)
Lemma rtree_ind' (P : rtree -> Prop) :
  (forall i cs, Forall P cs -> P (RT i cs)) -> forall r, P r.
Proof.
  intros H.
  refine (fix F (r : rtree) : P r :=
            match r with
            | RT i cs => H i cs ((fix G (cs : list rtree) : Forall P cs :=
                                    match cs with
                                    | [] => Forall_nil _
                                    | c :: cs' => Forall_cons _ (F c) (G cs')
                                    end) cs)
            end).
Qed.

Lemma ids_RT i cs : ids (RT i cs) = i :: flat_map ids cs.
Proof. reflexivity. Qed.

Lemma in_ids_RT j i cs : In j (ids (RT i cs)) <-> i = j \/ In j (flat_map ids cs).
Proof. rewrite ids_RT. simpl. tauto. Qed.

Lemma In_rid_ids r : In (rid r) (ids r).
Proof. destruct r; rewrite ids_RT; simpl; auto. Qed.

Lemma rsize_ids r : rsize r = length (ids r).
Proof.
  induction r using rtree_ind'. rewrite ids_RT. simpl. f_equal.
  induction H; simpl; auto. rewrite app_length. congruence.
Qed.

Lemma rheight_le_rsize r : rheight r <= rsize r.
Proof.
  induction r using rtree_ind'. simpl. apply le_n_S.
  induction H; simpl; auto. lia.
Qed.

Lemma In_map_rid_flat cs c : In c (map rid cs) -> In c (flat_map ids cs).
Proof.
  intros H. apply in_map_iff in H. destruct H as (r & <- & Hr).
  apply in_flat_map. exists r. split; auto. apply In_rid_ids.
Qed.

(* ---- permutations by counting --------------------------------------------------------------------- *)
Lemma perm_count (l1 l2 : list nat) :
  Permutation l1 l2 <-> forall x, count_occ Nat.eq_dec l1 x = count_occ Nat.eq_dec l2 x.
Proof. apply Permutation_count_occ. Qed.

Ltac splits := repeat match goal with |- _ /\ _ => split end.

Ltac perm_hyps z :=
  repeat match goal with
         | H : Permutation _ _ |- _ =>
             let H' := fresh in pose proof (proj1 (perm_count _ _) H z) as H'; clear H
         end.
Ltac perm_solve :=
  let z := fresh "z" in
  apply perm_count; intros z; perm_hyps z; unfold ids in *;
  repeat (rewrite ?flat_map_app in *; rewrite ?count_occ_app in *; simpl in * );
  repeat match goal with
         | |- context [Nat.eq_dec ?a ?b] => destruct (Nat.eq_dec a b)
         | H : context [Nat.eq_dec ?a ?b] |- _ => destruct (Nat.eq_dec a b)
         end; try lia.

Lemma NoDup_app_iff {A} (l1 l2 : list A) :
  NoDup (l1 ++ l2) <-> NoDup l1 /\ NoDup l2 /\ (forall x, In x l1 -> ~ In x l2).
Proof.
  induction l1; simpl.
  - split; [intros H; repeat split; auto; constructor | tauto].
  - split.
    + intros H. inversion H; subst. apply IHl1 in H3 as (H4 & H5 & H6).
      repeat split; auto.
      * constructor; auto. intros Hin. apply H2. apply in_or_app; auto.
      * intros x [<-|Hx] Hx2; [apply H2; apply in_or_app; auto|eapply H6; eauto].
    + intros (H1 & H2 & H3). inversion H1; subst. constructor.
      * intros Hin. apply in_app_or in Hin as [Hin|Hin]; auto. eapply H3; eauto.
      * apply IHl1. repeat split; auto.
Qed.

Lemma NoDup_bounded_length (l : list nat) n : NoDup l -> (forall x, In x l -> x < n) -> length l <= n.
Proof.
  intros Hnd Hb. rewrite <- (seq_length n 0). apply NoDup_incl_length; auto.
  intros x Hx. apply in_seq. specialize (Hb x Hx). lia.
Qed.

(* ---- lists: replace_nth, nth_error ----------------------------------------------------------------- *)
Lemma replace_nth_length {A} k (x : A) l : length (replace_nth k x l) = length l.
Proof. revert k; induction l; destruct k; simpl; auto. Qed.

Lemma nth_error_replace_nth_eq {A} k (x : A) l :
  k < length l -> nth_error (replace_nth k x l) k = Some x.
Proof. revert k; induction l; destruct k; simpl; intros; try lia; auto. apply IHl; lia. Qed.

Lemma nth_error_replace_nth_neq {A} k j (x : A) l :
  j <> k -> nth_error (replace_nth k x l) j = nth_error l j.
Proof. revert k j; induction l; destruct k, j; simpl; intros; try congruence; auto. Qed.

Lemma nth_error_replace_nth_eq' {A} k (x y : A) l :
  nth_error l k = Some y -> nth_error (replace_nth k x l) k = Some x.
Proof. intros H. apply nth_error_replace_nth_eq. apply nth_error_Some. congruence. Qed.

Lemma nth_error_app_last {A} (l : list A) x : nth_error (l ++ [x]) (length l) = Some x.
Proof. rewrite nth_error_app2, Nat.sub_diag; auto. Qed.

Lemma nth_error_app_lt {A} (l : list A) x j : j < length l -> nth_error (l ++ [x]) j = nth_error l j.
Proof. apply nth_error_app1. Qed.

Lemma nth_error_Some_lt {A} (l : list A) j x : nth_error l j = Some x -> j < length l.
Proof. intros H. apply nth_error_Some. congruence. Qed.

Lemma index_of_In x l : In x l -> exists k, index_of x l = Some k.
Proof.
  induction l; simpl; [tauto|]. intros [->|H].
  - rewrite Nat.eqb_refl. eauto.
  - destruct (Nat.eqb x a); eauto. destruct (IHl H) as (k & ->). simpl; eauto.
Qed.

Lemma index_of_None x l : index_of x l = None -> ~ In x l.
Proof.
  intros H Hin. apply index_of_In in Hin as (k & Hk). congruence.
Qed.

(* removing the first occurrence *)
Lemma remove_at_index_of x l k :
  index_of x l = Some k -> exists l1 l2, l = l1 ++ x :: l2 /\ ~ In x l1 /\ remove_at k l = l1 ++ l2.
Proof.
  revert k; induction l; simpl; [discriminate|]. intros k.
  destruct (Nat.eqb x a) eqn:E.
  - apply Nat.eqb_eq in E. subst. intros [= <-]. exists [], l. simpl. auto.
  - destruct (index_of x l) eqn:E2; simpl; [|discriminate]. intros [= <-].
    destruct (IHl _ eq_refl) as (l1 & l2 & -> & Hn & Hr).
    exists (a :: l1), l2. simpl. repeat split; auto.
    + apply Nat.eqb_neq in E. intros [?|?]; auto.
    + congruence.
Qed.

Lemma Forall2_In_r {A B} (R : A -> B -> Prop) l l' b :
  Forall2 R l l' -> In b l' -> exists a, In a l /\ R a b.
Proof.
  induction 1; simpl; [tauto|]. intros [<-|Hin]; eauto.
  destruct (IHForall2 Hin) as (a & ? & ?); eauto.
Qed.

Lemma Forall2_In_l {A B} (R : A -> B -> Prop) l l' a :
  Forall2 R l l' -> In a l -> exists b, In b l' /\ R a b.
Proof.
  induction 1; simpl; [tauto|]. intros [<-|Hin]; eauto.
  destruct (IHForall2 Hin) as (b & ? & ?); eauto.
Qed.

Lemma Forall2_impl_In {A B} (R R' : A -> B -> Prop) l l' :
  (forall a b, In a l -> In b l' -> R a b -> R' a b) -> Forall2 R l l' -> Forall2 R' l l'.
Proof.
  intros H HF. induction HF; constructor.
  - apply H; simpl; auto.
  - apply IHHF. intros; apply H; simpl; auto.
Qed.

Lemma Forall2_perm {A B} (R : A -> B -> Prop) l l' cs :
  Forall2 R l cs -> Permutation l' l -> exists cs', Forall2 R l' cs' /\ Permutation cs' cs.
Proof.
  intros HF Hp. apply Permutation_sym in Hp. revert cs HF.
  induction Hp; intros cs HF.
  - inversion HF; subst. exists []. split; auto.
  - inversion HF as [|? y ? cs0 Hxy HF']; subst. destruct (IHHp _ HF') as (cs' & HF'' & Hp').
    exists (y :: cs'). split; auto.
  - inversion HF as [|? y1 ? cs0 Hxy HF']; subst. inversion HF' as [|? y2 ? cs1 Hxy2 HF'']; subst.
    exists (y2 :: y1 :: cs1). split; [repeat constructor; auto|apply perm_swap].
  - destruct (IHHp1 _ HF) as (cs1 & HF1 & Hp1'). destruct (IHHp2 _ HF1) as (cs2 & HF2 & Hp2').
    exists cs2. split; auto. eapply Permutation_trans; eauto.
Qed.

Lemma insert_sorted_perm {A} (leb : A -> A -> bool) x l : Permutation (insert_sorted leb x l) (x :: l).
Proof.
  induction l; simpl; auto. destruct (leb x a); auto.
  eapply Permutation_trans; [apply perm_skip; eauto|apply perm_swap].
Qed.

Lemma stable_sort_perm {A} (leb : A -> A -> bool) l : Permutation (stable_sort leb l) l.
Proof.
  unfold stable_sort. induction l; simpl; auto.
  eapply Permutation_trans; [apply insert_sorted_perm|]. auto.
Qed.

Lemma foldM_inv {A S} (P : S -> Prop) (g : S -> A -> outcome S) l :
  (forall s a s', P s -> g s a = Ok s' -> P s') ->
  forall s s', P s -> foldM g l s = Ok s' -> P s'.
Proof.
  intros Hstep. induction l; simpl; intros s s' Hs H.
  - injection H as <-. auto.
  - destruct (g s a) eqn:E; simpl in H; try discriminate. eapply IHl; [|eauto]. eauto.
Qed.

(* ---- filter ------------------------------------------------------------------------------------------------ *)
Lemma filter_id {A} (p : A -> bool) l : (forall x, In x l -> p x = true) -> filter p l = l.
Proof.
  induction l; simpl; auto. intros H. rewrite (H a) by auto. f_equal. apply IHl. intros; apply H; auto.
Qed.

Lemma filter_remove_first (l l1 l2 : list nat) c :
  NoDup l -> l = l1 ++ c :: l2 -> filter (fun k => negb (Nat.eqb k c)) l = l1 ++ l2.
Proof.
  intros Hnd ->. apply NoDup_remove_2 in Hnd.
  rewrite filter_app. simpl. rewrite Nat.eqb_refl. simpl.
  rewrite !filter_id; auto.
  - intros x Hx. destruct (Nat.eqb x c) eqn:E; auto. apply Nat.eqb_eq in E. subst.
    exfalso. apply Hnd. apply in_or_app; auto.
  - intros x Hx. destruct (Nat.eqb x c) eqn:E; auto. apply Nat.eqb_eq in E. subst.
    exfalso. apply Hnd. apply in_or_app; auto.
Qed.

Lemma Forall2_filter {A B} (R : A -> B -> Prop) (p : A -> bool) (q : B -> bool) l cs :
  Forall2 R l cs -> (forall a b, R a b -> p a = q b) -> Forall2 R (filter p l) (filter q cs).
Proof.
  intros HF Hpq. induction HF; simpl; auto.
  rewrite (Hpq _ _ H). destruct (q y); auto.
Qed.

Lemma flat_map_filter_incl {A B} (f : A -> list B) (q : A -> bool) cs j :
  In j (flat_map f (filter q cs)) -> In j (flat_map f cs).
Proof.
  intros H. apply in_flat_map in H as (s & Hs & Hj). apply filter_In in Hs as [Hs _].
  apply in_flat_map. eauto.
Qed.

Lemma NoDup_flat_map_filter {A B} (f : A -> list B) (q : A -> bool) cs :
  NoDup (flat_map f cs) -> NoDup (flat_map f (filter q cs)).
Proof.
  induction cs; simpl; auto. intros H. apply NoDup_app_iff in H as (H1 & H2 & H3).
  destruct (q a); simpl; auto. apply NoDup_app_iff. splits; auto.
  intros x Hx Hx'. eapply H3; eauto. eapply flat_map_filter_incl; eauto.
Qed.

Lemma NoDup_map_rid cs : NoDup (flat_map ids cs) -> NoDup (map rid cs).
Proof.
  induction cs; simpl; intros H; [constructor|].
  apply NoDup_app_iff in H as (H1 & H2 & H3). constructor; auto.
  intros Hin. eapply H3; [apply In_rid_ids|]. apply In_map_rid_flat; auto.
Qed.

Lemma rid_inj_in cs s s' :
  NoDup (flat_map ids cs) -> In s cs -> In s' cs -> rid s = rid s' -> s = s'.
Proof.
  induction cs; simpl; [tauto|]. intros H. apply NoDup_app_iff in H as (H1 & H2 & H3).
  intros [->|Hs] [->|Hs'] Heq; auto.
  - exfalso. eapply H3; [apply In_rid_ids|]. rewrite Heq. apply in_flat_map. exists s'. split; auto. apply In_rid_ids.
  - exfalso. eapply H3; [apply In_rid_ids|]. rewrite <- Heq. apply in_flat_map. exists s. split; auto. apply In_rid_ids.
Qed.

Lemma flat_map_NoDup_inj {A} (f : A -> list nat) cs s s' j :
  NoDup (flat_map f cs) -> In s cs -> In s' cs -> In j (f s) -> In j (f s') -> s = s'.
Proof.
  induction cs; simpl; [tauto|]. intros H. apply NoDup_app_iff in H as (H1 & H2 & H3).
  intros [->|Hs] [->|Hs'] Hj Hj'; auto.
  - exfalso. eapply H3; eauto. apply in_flat_map. eauto.
  - exfalso. eapply H3; eauto. apply in_flat_map. eauto.
Qed.

Lemma NoDup_flat_map_in {A B} (f : A -> list B) cs s : NoDup (flat_map f cs) -> In s cs -> NoDup (f s).
Proof.
  induction cs; simpl; [tauto|]. intros H. apply NoDup_app_iff in H as (H1 & H2 & H3).
  intros [->|Hs]; auto.
Qed.

Lemma Forall2_singleton_l {A B} (R : A -> B -> Prop) a l :
  Forall2 R [a] l -> exists b, l = [b] /\ R a b.
Proof. intros H. inversion H as [|? b ? l' Hab Hnil]; subst. inversion Hnil; subst. eauto. Qed.

Lemma filter_filter {A} (p q : A -> bool) l :
  filter p (filter q l) = filter (fun x => q x && p x) l.
Proof.
  induction l; simpl; auto. destruct (q a); simpl; auto. destruct (p a); simpl; congruence.
Qed.

(* ---- the outcome monad ------------------------------------------------------------------------------ *)
Lemma bind_ret {A B} (a : A) (f : A -> outcome B) : bind (Ok a) f = f a.
Proof. reflexivity. Qed.

Lemma bind_Ok {A B} (o : outcome A) (f : A -> outcome B) b :
  bind o f = Ok b -> exists a, o = Ok a /\ f a = Ok b.
Proof. destruct o; simpl; try discriminate. eauto. Qed.

Section RepLib.
Context {L : Type}.
Notation arena := (@arena L).
Notation node := (@node L).

Lemma get_Ok (t : arena) i n : get t i = Ok n <-> nth_error t i = Some n /\ ndeleted n = false.
Proof.
  unfold get. destruct (nth_error t i) as [m|]; [destruct (ndeleted m) eqn:E|]; split;
    try discriminate; try (intros [? ?]; congruence).
  intros [= ->]; auto.
Qed.

Lemma get_live (t : arena) i : live t i <-> exists n, get t i = Ok n.
Proof. unfold live. split; intros (n & H); exists n; apply get_Ok; auto. Qed.

Lemma upd_inv (t t' : arena) i f :
  upd t i f = Ok t' -> exists n, get t i = Ok n /\ t' = replace_nth i (f n) t.
Proof. unfold upd. intros H. apply bind_Ok in H as (n & Hg & H). injection H as <-. eauto. Qed.

Lemma upd_Ok (t : arena) i f n : get t i = Ok n -> upd t i f = Ok (replace_nth i (f n) t).
Proof. unfold upd. intros ->. reflexivity. Qed.

(* ---- edges ---------------------------------------------------------------------------------------- *)
Definition ksorted (es : list (nat * L)) : Prop := StronglySorted lt (map fst es).

Lemma edge_get_insert_eq (es : list (nat * L)) c v : edge_get (edge_insert es c v) c = Some v.
Proof.
  induction es as [|[k w] es]; simpl.
  - rewrite Nat.eqb_refl; auto.
  - destruct (Nat.eqb k c) eqn:E; simpl.
    + rewrite Nat.eqb_refl; auto.
    + destruct (Nat.ltb c k); simpl; rewrite ?Nat.eqb_refl, ?E; auto.
Qed.

Lemma edge_get_insert_neq (es : list (nat * L)) c c' v :
  c' <> c -> edge_get (edge_insert es c v) c' = edge_get es c'.
Proof.
  intros Hne. induction es as [|[k w] es]; simpl.
  - destruct (Nat.eqb c c') eqn:E; auto. apply Nat.eqb_eq in E. congruence.
  - destruct (Nat.eqb k c) eqn:E; simpl.
    + apply Nat.eqb_eq in E. subst.
      destruct (Nat.eqb c c') eqn:E'; auto. apply Nat.eqb_eq in E'. congruence.
    + destruct (Nat.ltb c k); simpl.
      * destruct (Nat.eqb c c') eqn:E'; auto. apply Nat.eqb_eq in E'. congruence.
      * rewrite IHes. auto.
Qed.

Lemma edge_get_remove_neq (es : list (nat * L)) c c' :
  c' <> c -> edge_get (edge_remove es c) c' = edge_get es c'.
Proof.
  intros Hne. induction es as [|[k w] es]; simpl; auto.
  destruct (Nat.eqb k c) eqn:E; simpl.
  - apply Nat.eqb_eq in E. subst.
    destruct (Nat.eqb c c') eqn:E'; auto. apply Nat.eqb_eq in E'. congruence.
  - rewrite IHes. auto.
Qed.

Lemma edge_get_above (es : list (nat * L)) c : Forall (lt c) (map fst es) -> edge_get es c = None.
Proof.
  induction es as [|[k w] es]; simpl; auto. intros H. inversion H; subst.
  destruct (Nat.eqb k c) eqn:E; auto. apply Nat.eqb_eq in E. lia.
Qed.

Lemma edge_get_remove_eq (es : list (nat * L)) c : ksorted es -> edge_get (edge_remove es c) c = None.
Proof.
  unfold ksorted. induction es as [|[k w] es]; simpl; auto. intros H. inversion H; subst.
  destruct (Nat.eqb k c) eqn:E; simpl.
  - apply Nat.eqb_eq in E. subst. apply edge_get_above; auto.
  - rewrite E. auto.
Qed.

Lemma edge_get_keys (es : list (nat * L)) c : edge_get es c <> None -> In c (map fst es).
Proof.
  induction es as [|[k w] es]; simpl; [congruence|].
  destruct (Nat.eqb k c) eqn:E; auto. apply Nat.eqb_eq in E; auto.
Qed.

Lemma keys_insert (es : list (nat * L)) c v k :
  In k (map fst (edge_insert es c v)) -> k = c \/ In k (map fst es).
Proof.
  induction es as [|[k0 w] es]; simpl.
  - intros [?|[]]; auto.
  - destruct (Nat.eqb k0 c) eqn:E; simpl.
    + intros [?|?]; auto.
    + destruct (Nat.ltb c k0); simpl; intros [?|?]; auto. destruct (IHes H); auto.
Qed.

Lemma keys_remove (es : list (nat * L)) c k :
  In k (map fst (edge_remove es c)) -> In k (map fst es).
Proof.
  induction es as [|[k0 w] es]; simpl; auto.
  destruct (Nat.eqb k0 c) eqn:E; simpl; auto. intros [?|?]; auto.
Qed.

Lemma ksorted_insert (es : list (nat * L)) c v : ksorted es -> ksorted (edge_insert es c v).
Proof.
  unfold ksorted. induction es as [|[k w] es]; simpl.
  - repeat constructor.
  - intros H. inversion H; subst. destruct (Nat.eqb k c) eqn:E; simpl.
    + apply Nat.eqb_eq in E. subst. constructor; auto.
    + destruct (Nat.ltb c k) eqn:E2; simpl.
      * apply Nat.ltb_lt in E2. constructor; auto. constructor; auto.
        eapply Forall_impl; [|exact H3]. simpl. intros; lia.
      * apply Nat.ltb_ge in E2. apply Nat.eqb_neq in E. constructor; auto.
        apply Forall_forall. intros x Hx. apply keys_insert in Hx as [->|Hx]; [lia|].
        rewrite Forall_forall in H3. auto.
Qed.

Lemma ksorted_remove (es : list (nat * L)) c : ksorted es -> ksorted (edge_remove es c).
Proof.
  unfold ksorted. induction es as [|[k w] es]; simpl; auto.
  intros H. inversion H; subst. destruct (Nat.eqb k c) eqn:E; simpl; auto.
  constructor; auto. apply Forall_forall. intros x Hx. apply keys_remove in Hx.
  rewrite Forall_forall in H3. auto.
Qed.

Lemma keys_map (g : L -> L) (es : list (nat * L)) :
  map fst (map (fun kv => (fst kv, g (snd kv))) es) = map fst es.
Proof. rewrite map_map. simpl. reflexivity. Qed.

Lemma edge_get_map (g : L -> L) (es : list (nat * L)) c :
  edge_get (map (fun kv => (fst kv, g (snd kv))) es) c = option_map g (edge_get es c).
Proof.
  induction es as [|[k w] es]; simpl; auto. destruct (Nat.eqb k c); auto.
Qed.

(* ---- Rep: basic facts -------------------------------------------------------------------------------- *)
Lemma Rep_inv (t : arena) p d i r :
  Rep t p d i r ->
  exists n cs, r = RT i cs /\ nth_error t i = Some n /\ ndeleted n = false /\ nid n = i /\
    nparent n = p /\ ndepth n = d /\
    Forall2 (fun c r => Rep t (Some i) (S d) c r) (nchildren n) cs /\
    (forall c nc, In c (nchildren n) -> nth_error t c = Some nc -> edge_get (nedges n) c = npedge nc) /\
    (forall c, edge_get (nedges n) c <> None -> In c (nchildren n)).
Proof. intros H. inversion H; subst. exists n, cs. repeat split; auto. Qed.

Lemma Rep_rid (t : arena) p d i r : Rep t p d i r -> rid r = i.
Proof. intros H. inversion H; auto. Qed.

Lemma Forall2_Rep_rid (t : arena) p d l cs :
  Forall2 (fun c r => Rep t p d c r) l cs -> l = map rid cs.
Proof. induction 1; simpl; auto. f_equal; auto. symmetry. eapply Rep_rid; eauto. Qed.

Lemma Rep_live (t : arena) p d i r : Rep t p d i r -> live t i.
Proof. intros H. inversion H; subst. exists n; auto. Qed.

(* Rep without the cached-depth clause *)
Inductive Rep0 (t : arena) : option nat -> nat -> rtree -> Prop :=
| Rep0_node : forall p i n cs,
    nth_error t i = Some n ->
    ndeleted n = false ->
    nid n = i ->
    nparent n = p ->
    Forall2 (fun c r => Rep0 t (Some i) c r) (nchildren n) cs ->
    (forall c nc, In c (nchildren n) -> nth_error t c = Some nc -> edge_get (nedges n) c = npedge nc) ->
    (forall c, edge_get (nedges n) c <> None -> In c (nchildren n)) ->
    Rep0 t p i (RT i cs).

Lemma Rep0_inv (t : arena) p i r :
  Rep0 t p i r ->
  exists n cs, r = RT i cs /\ nth_error t i = Some n /\ ndeleted n = false /\ nid n = i /\
    nparent n = p /\
    Forall2 (fun c r => Rep0 t (Some i) c r) (nchildren n) cs /\
    (forall c nc, In c (nchildren n) -> nth_error t c = Some nc -> edge_get (nedges n) c = npedge nc) /\
    (forall c, edge_get (nedges n) c <> None -> In c (nchildren n)).
Proof. intros H. inversion H; subst. exists n, cs. repeat split; auto. Qed.

Lemma Rep0_rid (t : arena) p i r : Rep0 t p i r -> rid r = i.
Proof. intros H. inversion H; auto. Qed.

Lemma Forall2_Rep0_rid (t : arena) p l cs :
  Forall2 (fun c r => Rep0 t p c r) l cs -> l = map rid cs.
Proof. induction 1; simpl; auto. f_equal; auto. symmetry. eapply Rep0_rid; eauto. Qed.

Lemma Rep_Rep0 (t : arena) : forall r p d i, Rep t p d i r -> Rep0 t p i r.
Proof.
  induction r using rtree_ind'. intros p d j HR.
  destruct (Rep_inv _ _ _ _ _ HR) as (n & cs' & Heq & Hn & Hdel & Hid & Hp & Hd & HF & He1 & He2).
  injection Heq as -> ->.
  econstructor; eauto.
  eapply Forall2_impl_In; [|eassumption]. simpl. intros a b _ Hb HRb.
  rewrite Forall_forall in H. eapply H; eauto.
Qed.

Lemma Rep0_ids_live (t : arena) : forall r p i j, Rep0 t p i r -> In j (ids r) -> live t j.
Proof.
  induction r using rtree_ind'. intros p k j HR Hin.
  destruct (Rep0_inv _ _ _ _ HR) as (n & cs' & Heq & Hn & Hdel & Hid & Hp & HF & He1 & He2).
  injection Heq as -> ->.
  rewrite ids_RT in Hin. destruct Hin as [<-|Hin]; [exists n; auto|].
  apply in_flat_map in Hin as (c & Hc & Hj).
  rewrite Forall_forall in H.
  destruct (Forall2_In_r _ _ _ _ HF Hc) as (k' & _ & Hk'). eapply H; eauto.
Qed.

Lemma Rep_ids_live (t : arena) r p d i j : Rep t p d i r -> In j (ids r) -> live t j.
Proof. intros H. eapply Rep0_ids_live. eapply Rep_Rep0; eauto. Qed.

Lemma live_lt (t : arena) j : live t j -> j < length t.
Proof. intros (n & H & _). eapply nth_error_Some_lt; eauto. Qed.

Lemma Rep0_ids_lt (t : arena) r p i j : Rep0 t p i r -> In j (ids r) -> j < length t.
Proof. intros. eapply live_lt, Rep0_ids_live; eauto. Qed.

Lemma Rep0_height_fuel (t : arena) r p i : Rep0 t p i r -> NoDup (ids r) -> rheight r < fuel_of t.
Proof.
  intros HR Hnd. unfold fuel_of. apply Nat.lt_succ_r.
  etransitivity; [apply rheight_le_rsize|]. rewrite rsize_ids.
  apply NoDup_bounded_length; auto. intros. eapply Rep0_ids_lt; eauto.
Qed.

(* ---- frame ---------------------------------------------------------------------------------------------- *)
Lemma Rep0_frame (t t' : arena) : forall r p i,
  Rep0 t p i r -> (forall j, In j (ids r) -> nth_error t' j = nth_error t j) -> Rep0 t' p i r.
Proof.
  induction r using rtree_ind'. intros p j HR Hfr.
  destruct (Rep0_inv _ _ _ _ HR) as (n & cs' & Heq & Hn & Hdel & Hid & Hp & HF & He1 & He2).
  injection Heq as -> ->.
  pose proof (Forall2_Rep0_rid _ _ _ _ HF) as Hch.
  assert (Hcin : forall c, In c (nchildren n) -> In c (ids (RT j cs'))).
  { intros c Hc. rewrite ids_RT. right. apply In_map_rid_flat. congruence. }
  econstructor; eauto.
  - rewrite Hfr; auto. rewrite ids_RT; simpl; auto.
  - eapply Forall2_impl_In; [|eassumption]. simpl. intros a b _ Hb HRb.
    rewrite Forall_forall in H. eapply H; eauto.
    intros k Hk. apply Hfr. rewrite ids_RT. right. apply in_flat_map. eauto.
  - intros c nc Hc Hnc. rewrite Hfr in Hnc; auto.
Qed.

Lemma Rep_frame (t t' : arena) : forall r p d i,
  Rep t p d i r -> (forall j, In j (ids r) -> nth_error t' j = nth_error t j) -> Rep t' p d i r.
Proof.
  induction r using rtree_ind'. intros p d j HR Hfr.
  destruct (Rep_inv _ _ _ _ _ HR) as (n & cs' & Heq & Hn & Hdel & Hid & Hp & Hd & HF & He1 & He2).
  injection Heq as -> ->.
  pose proof (Forall2_Rep_rid _ _ _ _ _ HF) as Hch.
  assert (Hcin : forall c, In c (nchildren n) -> In c (ids (RT j cs'))).
  { intros c Hc. rewrite ids_RT. right. apply In_map_rid_flat. congruence. }
  econstructor; eauto.
  - rewrite Hfr; auto. rewrite ids_RT; simpl; auto.
  - eapply Forall2_impl_In; [|eassumption]. simpl. intros a b _ Hb HRb.
    rewrite Forall_forall in H. eapply H; eauto.
    intros k Hk. apply Hfr. rewrite ids_RT. right. apply in_flat_map. eauto.
  - intros c nc Hc Hnc. rewrite Hfr in Hnc; auto.
Qed.

Lemma Forall2_Rep_frame (t t' : arena) p d l cs :
  Forall2 (fun c r => Rep t p d c r) l cs ->
  (forall j, In j (flat_map ids cs) -> nth_error t' j = nth_error t j) ->
  Forall2 (fun c r => Rep t' p d c r) l cs.
Proof.
  intros HF Hfr. eapply Forall2_impl_In; [|eassumption]. simpl. intros a b _ Hb HRb.
  eapply Rep_frame; eauto. intros. apply Hfr. apply in_flat_map; eauto.
Qed.

Lemma Forall2_Rep0_frame (t t' : arena) p l cs :
  Forall2 (fun c r => Rep0 t p c r) l cs ->
  (forall j, In j (flat_map ids cs) -> nth_error t' j = nth_error t j) ->
  Forall2 (fun c r => Rep0 t' p c r) l cs.
Proof.
  intros HF Hfr. eapply Forall2_impl_In; [|eassumption]. simpl. intros a b _ Hb HRb.
  eapply Rep0_frame; eauto. intros. apply Hfr. apply in_flat_map; eauto.
Qed.

(* ---- depth recomputation ---------------------------------------------------------------------------------- *)
Definition depth_only (t t' : arena) : Prop :=
  forall j n, nth_error t j = Some n -> exists d', nth_error t' j = Some (set_ndepth n d').

Lemma set_ndepth_id (n : node) : set_ndepth n (ndepth n) = n.
Proof. destruct n; reflexivity. Qed.

Lemma depth_only_refl t : depth_only t t.
Proof. intros j n H. exists (ndepth n). rewrite set_ndepth_id. auto. Qed.

Lemma depth_only_trans t1 t2 t3 : depth_only t1 t2 -> depth_only t2 t3 -> depth_only t1 t3.
Proof.
  intros H1 H2 j n Hn. destruct (H1 _ _ Hn) as (d1 & Hd1). destruct (H2 _ _ Hd1) as (d2 & Hd2).
  exists d2. rewrite Hd2. reflexivity.
Qed.

Lemma depth_only_replace t j n d :
  nth_error t j = Some n -> depth_only t (replace_nth j (set_ndepth n d) t).
Proof.
  intros Hn k m Hm. destruct (Nat.eq_dec k j) as [->|Hne].
  - exists d. erewrite nth_error_replace_nth_eq'; eauto. congruence.
  - exists (ndepth m). rewrite nth_error_replace_nth_neq, set_ndepth_id; auto.
Qed.

Lemma depth_only_live t t' j : depth_only t t' -> live t j -> live t' j.
Proof. intros H (n & Hn & Hd). destruct (H _ _ Hn) as (d' & Hd'). exists (set_ndepth n d'). auto. Qed.

Lemma rheight_child c cs :
  In c cs -> rheight c <= fold_right (fun c acc => Nat.max (rheight c) acc) 0 cs.
Proof. induction cs; simpl; [tauto|]. intros [->|H]; [lia|]. specialize (IHcs H). lia. Qed.

Definition reset_spec (r : rtree) : Prop :=
  forall fuel (t : arena) p i d,
    Rep0 t p i r -> NoDup (ids r) -> rheight r < fuel ->
    exists t', reset_depth_f fuel t i d = Ok t' /\ Rep t' p d i r /\ length t' = length t /\
      (forall j, ~ In j (ids r) -> nth_error t' j = nth_error t j) /\ depth_only t t'.

Lemma reset_children_spec f i d cs :
  Forall reset_spec cs ->
  forall ks (t1 : arena),
    Forall2 (fun c r => Rep0 t1 (Some i) c r) ks cs -> NoDup (flat_map ids cs) ->
    Forall (fun r => rheight r < f) cs ->
    exists t', foldM (fun acc c => reset_depth_f f acc c (d + 1)) ks t1 = Ok t' /\
      Forall2 (fun c r => Rep t' (Some i) (S d) c r) ks cs /\ length t' = length t1 /\
      (forall j, ~ In j (flat_map ids cs) -> nth_error t' j = nth_error t1 j) /\ depth_only t1 t'.
Proof.
  induction 1 as [|c cs Hc Hcs IH]; intros ks t1 HF Hnd Hh; inversion HF as [|x ? l ? HRx HFl]; subst.
  - exists t1. simpl. splits; auto. apply depth_only_refl.
  - simpl in Hnd. apply NoDup_app_iff in Hnd as (Hnd1 & Hnd2 & Hdisj).
    inversion Hh as [|? ? Hhc Hhcs]; subst.
    destruct (Hc f t1 (Some i) x (d + 1) HRx Hnd1 Hhc) as (t2 & Hr & HR2 & Hlen2 & Hfr2 & Hdo2).
    assert (HF2 : Forall2 (fun c r => Rep0 t2 (Some i) c r) l cs).
    { eapply Forall2_Rep0_frame; eauto. intros j Hj. apply Hfr2. intros Hj'. eapply Hdisj; eauto. }
    destruct (IH l t2 HF2 Hnd2 Hhcs) as (t3 & Hr3 & HR3 & Hlen3 & Hfr3 & Hdo3).
    exists t3. simpl. rewrite Hr. simpl. splits; auto.
    + constructor; auto. replace (d + 1) with (S d) in HR2 by lia.
      eapply Rep_frame; eauto.
    + congruence.
    + intros j Hj. rewrite Hfr3, Hfr2; auto; intros Hj'; apply Hj; apply in_or_app; auto.
    + eapply depth_only_trans; eauto.
Qed.

Lemma reset_depth_f_spec : forall r, reset_spec r.
Proof.
  induction r using rtree_ind'. intros fuel t p j d HR Hnd Hf.
  destruct (Rep0_inv _ _ _ _ HR) as (n & cs' & Heq & Hn & Hdel & Hid & Hp & HF & He1 & He2).
  injection Heq as -> ->.
  destruct fuel as [|f]; [lia|]. simpl reset_depth_f.
  assert (Hg : get t j = Ok n) by (apply get_Ok; auto). rewrite Hg. simpl.
  rewrite ids_RT in Hnd. apply NoDup_cons_iff in Hnd as [Hj Hnd'].
  set (t1 := replace_nth j (set_ndepth n d) t).
  assert (Hfr1 : forall k, k <> j -> nth_error t1 k = nth_error t k).
  { intros. unfold t1. apply nth_error_replace_nth_neq; auto. }
  assert (HF1 : Forall2 (fun c r => Rep0 t1 (Some j) c r) (nchildren n) cs').
  { eapply Forall2_Rep0_frame; eauto. intros k Hk. apply Hfr1. intros ->. auto. }
  assert (Hh : Forall (fun r => rheight r < f) cs').
  { apply Forall_forall. intros c Hc. simpl in Hf. pose proof (rheight_child c cs' Hc). lia. }
  destruct (reset_children_spec f j d cs' H (nchildren n) t1 HF1 Hnd' Hh) as (t' & Hr & HR' & Hlen & Hfr & Hdo).
  assert (Hdo1 : depth_only t t1) by (apply depth_only_replace; auto).
  exists t'. splits; auto.
  - apply Rep_node with (n := set_ndepth n d); simpl; auto.
    + rewrite Hfr; auto. unfold t1. eapply nth_error_replace_nth_eq'; eauto.
    + intros c nc Hc Hnc.
      pose proof (Forall2_Rep0_rid _ _ _ _ HF) as Hch.
      assert (Hlc : live t c).
      { eapply Rep0_ids_live; eauto. rewrite ids_RT. right. apply In_map_rid_flat. congruence. }
      destruct Hlc as (nc0 & Hnc0 & _).
      destruct (depth_only_trans _ _ _ Hdo1 Hdo _ _ Hnc0) as (d' & Hd').
      rewrite Hd' in Hnc. injection Hnc as <-. simpl. eauto.
  - rewrite Hlen. apply replace_nth_length.
  - intros k Hk.
    assert (k <> j /\ ~ In k (flat_map ids cs')) as [? ?]
      by (split; intro Hx; apply Hk; [subst; left; reflexivity | right; exact Hx]).
    rewrite Hfr, Hfr1; auto.
  - eapply depth_only_trans; eauto.
Qed.

(* ---- surgery: replacing the subtree rooted at x ------------------------------------------------------------- *)
Lemma Rep_surgery (t : arena) x : forall r p d i,
  Rep t p d i r -> In x (ids r) -> NoDup (ids r) ->
  exists sx px dx rest,
    Rep t px dx x sx /\ Permutation (ids r) (ids sx ++ rest) /\ (i = x \/ In i rest) /\
    (i = x -> px = p /\ dx = d) /\
    forall (t' : arena) sx',
      (forall j, In j rest -> nth_error t' j = nth_error t j) ->
      Rep t' px dx x sx' ->
      (forall n n', nth_error t x = Some n -> nth_error t' x = Some n' -> npedge n' = npedge n) ->
      exists r', Rep t' p d i r' /\ Permutation (ids r') (ids sx' ++ rest).
Proof.
  induction r using rtree_ind'. intros p d j HR Hin Hnd.
  destruct (Rep_inv _ _ _ _ _ HR) as (n & cs' & Heq & Hn & Hdel & Hid & Hp & Hd & HF & He1 & He2).
  injection Heq as -> ->.
  destruct (Nat.eq_dec j x) as [->|Hne].
  - exists (RT x cs'), p, d, []. splits; auto.
    + rewrite app_nil_r; auto.
    + intros t' sx' _ HR' _. exists sx'. split; auto. rewrite app_nil_r; auto.
  - rewrite ids_RT in Hin, Hnd. destruct Hin as [?|Hin]; [congruence|].
    apply in_flat_map in Hin as (c & Hc & Hxc).
    rewrite Forall_forall in H. pose proof (H c Hc) as IHc.
    apply in_split in Hc as (l1 & l2 & ->).
    apply Forall2_app_inv_r in HF as (k1 & k2' & HF1 & HF2 & Hks).
    inversion HF2 as [|kc ? k2 ? HRc HF2' Hk2 Hcl]. clear HF2. rewrite <- Hk2 in Hks. clear Hk2 k2'.
    apply NoDup_cons_iff in Hnd as [Hj Hnd]. rewrite flat_map_app in Hnd, Hj. simpl in Hnd, Hj.
    apply NoDup_app_iff in Hnd as (Hnd1 & Hnd23 & Hd1).
    apply NoDup_app_iff in Hnd23 as (Hndc & Hnd2 & Hd2).
    destruct (IHc _ _ _ HRc Hxc Hndc) as (sx & px & dx & restc & HRx & Hperm & Hkc & Hpx & Hk).
    exists sx, px, dx, (j :: flat_map ids l1 ++ flat_map ids l2 ++ restc). splits; auto.
    + rewrite ids_RT, flat_map_app. simpl. clear - Hperm. perm_solve.
    + simpl; auto.
    + congruence.
    + intros t' sx' Hfr HR' Hpe.
      destruct (Hk t' sx') as (c' & HRc' & Hperm'); auto.
      { intros k Hk'. apply Hfr. right. apply in_or_app. right. apply in_or_app. auto. }
      exists (RT j (l1 ++ c' :: l2)). split.
      * apply Rep_node with (n := n); auto.
        -- rewrite Hfr; simpl; auto.
        -- rewrite Hks. apply Forall2_app; [|constructor; auto].
           ++ eapply Forall2_Rep_frame; eauto. intros k Hk'. apply Hfr. right. apply in_or_app; auto.
           ++ eapply Forall2_Rep_frame; eauto. intros k Hk'. apply Hfr. right.
              apply in_or_app. right. apply in_or_app; auto.
        -- intros c0 nc Hc0 Hnc. rewrite Hks in Hc0.
           assert (Hcase : In c0 (flat_map ids l1 ++ flat_map ids l2 ++ restc) \/ c0 = x).
           { apply in_app_or in Hc0 as [Hc0|[<-|Hc0]].
             - left. apply in_or_app. left. apply In_map_rid_flat.
               rewrite <- (Forall2_Rep_rid _ _ _ _ _ HF1). auto.
             - destruct Hkc; auto. left. apply in_or_app. right. apply in_or_app; auto.
             - left. apply in_or_app. right. apply in_or_app. left. apply In_map_rid_flat.
               rewrite <- (Forall2_Rep_rid _ _ _ _ _ HF2'). auto. }
           rewrite <- Hks in Hc0.
           destruct Hcase as [Hr| ->].
           ++ rewrite Hfr in Hnc by (right; auto). eauto.
           ++ destruct (Rep_live _ _ _ _ _ HRx) as (nx & Hnx & _).
              rewrite (Hpe _ _ Hnx Hnc). eauto.
      * rewrite ids_RT, flat_map_app. simpl. clear - Hperm'. perm_solve.
Qed.

Lemma Rep_parent (t : arena) x : forall r p d i,
  Rep t p d i r -> In x (ids r) -> x <> i ->
  exists P nP nx, In P (ids r) /\ nth_error t P = Some nP /\ ndeleted nP = false /\
    nth_error t x = Some nx /\ nparent nx = Some P /\ In x (nchildren nP).
Proof.
  induction r using rtree_ind'. intros p d j HR Hin Hne.
  destruct (Rep_inv _ _ _ _ _ HR) as (n & cs' & Heq & Hn & Hdel & Hid & Hp & Hd & HF & He1 & He2).
  injection Heq as -> ->.
  rewrite ids_RT in Hin. destruct Hin as [?|Hin]; [congruence|].
  apply in_flat_map in Hin as (c & Hc & Hxc).
  destruct (Forall2_In_r _ _ _ _ HF Hc) as (kc & Hkc & HRc).
  destruct (Nat.eq_dec x kc) as [->|Hne'].
  - destruct (Rep_inv _ _ _ _ _ HRc) as (nc & ? & _ & Hnc & _ & _ & Hpc & _).
    exists j, n, nc. splits; auto. rewrite ids_RT; simpl; auto.
  - rewrite Forall_forall in H.
    destruct (H c Hc _ _ _ HRc Hxc Hne') as (P & nP & nx & HP & ?).
    exists P, nP, nx. split; auto. rewrite ids_RT. right. apply in_flat_map; eauto.
Qed.

Lemma Rep_root_unique (t : arena) r p d i x nx :
  Rep t p d i r -> In x (ids r) -> nth_error t x = Some nx -> nparent nx = None -> x = i.
Proof.
  intros HR Hin Hnx Hp. destruct (Nat.eq_dec x i); auto.
  destruct (Rep_parent _ _ _ _ _ _ HR Hin n) as (P & nP & nx' & _ & _ & _ & Hnx' & Hp' & _). congruence.
Qed.

Lemma Rep_sub (t : arena) x : forall r p d i,
  Rep t p d i r -> In x (ids r) -> exists px dx sx, Rep t px dx x sx /\ incl (ids sx) (ids r).
Proof.
  induction r using rtree_ind'. intros p d j HR Hin.
  destruct (Rep_inv _ _ _ _ _ HR) as (n & cs' & Heq & Hn & Hdel & Hid & Hp & Hd & HF & He1 & He2).
  injection Heq as -> ->.
  rewrite ids_RT in Hin. destruct Hin as [->|Hin].
  - exists p, d, (RT x cs'). split; auto. apply incl_refl.
  - apply in_flat_map in Hin as (c & Hc & Hxc).
    destruct (Forall2_In_r _ _ _ _ HF Hc) as (kc & Hkc & HRc).
    rewrite Forall_forall in H. destruct (H c Hc _ _ _ HRc Hxc) as (px & dx & sx & HRx & Hincl).
    exists px, dx, sx. split; auto. intros k Hk. rewrite ids_RT. right. apply in_flat_map. eauto.
Qed.

Lemma Rep_ids_nid (t : arena) r p d i x n :
  Rep t p d i r -> In x (ids r) -> nth_error t x = Some n -> nid n = x.
Proof.
  intros HR Hin Hn. destruct (Rep_sub _ _ _ _ _ _ HR Hin) as (px & dx & sx & HRx & _).
  destruct (Rep_inv _ _ _ _ _ HRx) as (n' & ? & _ & Hn' & _ & Hid & _). congruence.
Qed.

Lemma depth_only_live_inv (t t' : arena) j :
  depth_only t t' -> length t' = length t -> live t' j -> live t j.
Proof.
  intros Hdo Hlen (n' & Hn' & Hd). pose proof (nth_error_Some_lt _ _ _ Hn') as Hlt. rewrite Hlen in Hlt.
  destruct (nth_error t j) as [n|] eqn:E; [|apply nth_error_None in E; lia].
  destruct (Hdo _ _ E) as (d' & Hd'). rewrite Hd' in Hn'. injection Hn' as <-. exists n. auto.
Qed.

(* ---- the strengthened invariant --------------------------------------------------------------------------- *)
Definition SortedEdges (t : arena) : Prop := forall i n, nth_error t i = Some n -> ksorted (nedges n).
Definition WFS (t : arena) : Prop := WF t /\ SortedEdges t.

Lemma WFS_WF t : WFS t -> WF t.
Proof. intros [? ?]; auto. Qed.

Lemma SortedEdges_replace (t : arena) k x :
  SortedEdges t -> ksorted (nedges x) -> SortedEdges (replace_nth k x t).
Proof.
  intros Hs Hx j n Hn. destruct (Nat.eq_dec j k) as [->|Hne].
  - destruct (nth_error t k) eqn:E.
    + erewrite nth_error_replace_nth_eq' in Hn; eauto. congruence.
    + apply nth_error_Some_lt in Hn. rewrite replace_nth_length in Hn.
      apply nth_error_None in E. lia.
  - rewrite nth_error_replace_nth_neq in Hn; eauto.
Qed.

Lemma SortedEdges_app (t : arena) x : SortedEdges t -> ksorted (nedges x) -> SortedEdges (t ++ [x]).
Proof.
  intros Hs Hx j n Hn. destruct (Nat.lt_ge_cases j (length t)).
  - rewrite nth_error_app1 in Hn; eauto.
  - rewrite nth_error_app2 in Hn; auto. destruct (j - length t) as [|[|k]]; simpl in Hn; try discriminate.
    congruence.
Qed.

Lemma SortedEdges_depth_only (t t' : arena) :
  depth_only t t' -> length t' = length t -> SortedEdges t -> SortedEdges t'.
Proof.
  intros Hdo Hlen Hs j n' Hn'. pose proof (nth_error_Some_lt _ _ _ Hn') as Hlt. rewrite Hlen in Hlt.
  destruct (nth_error t j) as [n|] eqn:E; [|apply nth_error_None in E; lia].
  destruct (Hdo _ _ E) as (d' & Hd'). rewrite Hd' in Hn'. injection Hn' as <-. simpl. eauto.
Qed.

Lemma ksorted_nil : ksorted (@nil (nat * L)).
Proof. constructor. Qed.

Lemma WF_intro_perm (t' : arena) root r' sx' rest :
  Rep t' None 0 root r' -> Permutation (ids r') (ids sx' ++ rest) ->
  NoDup (ids sx') -> NoDup rest -> (forall j, In j (ids sx') -> ~ In j rest) ->
  (forall j, live t' j -> In j (ids sx') \/ In j rest) -> WF t'.
Proof.
  intros HR Hperm Hnd1 Hnd2 Hdisj Hlive. right. exists root, r'. splits; auto.
  - eapply Permutation_NoDup; [apply Permutation_sym; eauto|]. apply NoDup_app_iff. auto.
  - intros j Hj. eapply Permutation_in; [apply Permutation_sym; eauto|]. apply in_or_app. auto.
Qed.

Lemma perm_NoDup_split (l l1 l2 : list nat) :
  Permutation l (l1 ++ l2) -> NoDup l -> NoDup l1 /\ NoDup l2 /\ (forall x, In x l1 -> ~ In x l2).
Proof. intros Hp Hnd. apply NoDup_app_iff. eapply Permutation_NoDup; eauto. Qed.

(* WF-level packaging of the surgery lemma: editing the subtree rooted at a live node P *)
Lemma WF_edit (t : arena) P :
  WF t -> live t P ->
  exists root r sx px dx rest,
    Rep t None 0 root r /\ NoDup (ids r) /\ (forall i, live t i -> In i (ids r)) /\
    Rep t px dx P sx /\ Permutation (ids r) (ids sx ++ rest) /\
    NoDup (ids sx) /\ NoDup rest /\ (forall j, In j (ids sx) -> ~ In j rest) /\
    (forall j, In j rest -> live t j) /\ (root = P \/ In root rest) /\
    forall (t' : arena) sx',
      (forall j, In j rest -> nth_error t' j = nth_error t j) ->
      Rep t' px dx P sx' ->
      (forall n n', nth_error t P = Some n -> nth_error t' P = Some n' -> npedge n' = npedge n) ->
      NoDup (ids sx') -> (forall j, In j (ids sx') -> ~ In j rest) ->
      (forall j, live t' j -> In j (ids sx') \/ In j rest) ->
      WF t'.
Proof.
  intros [Hno|(root & r & HR & Hnd & Hlive)] HP; [exfalso; eapply Hno; eauto|].
  destruct (Rep_surgery t P r None 0 root HR (Hlive _ HP) Hnd)
    as (sx & px & dx & rest & HRx & Hperm & Hroot & _ & Hk).
  destruct (perm_NoDup_split _ _ _ Hperm Hnd) as (Hnd1 & Hnd2 & Hdisj).
  exists root, r, sx, px, dx, rest. splits; auto.
  - intros j Hj. eapply (Rep_ids_live _ _ _ _ _ _ HR). eapply Permutation_in; [apply Permutation_sym; eauto|].
    apply in_or_app; auto.
  - intros t' sx' Hfr HR' Hpe Hnd' Hdisj' Hlive'.
    destruct (Hk t' sx' Hfr HR' Hpe) as (r' & HRr' & Hperm').
    eapply WF_intro_perm; eauto.
Qed.

Lemma WF_node_facts (t : arena) P nP :
  WF t -> nth_error t P = Some nP -> ndeleted nP = false ->
  NoDup (nchildren nP) /\ (forall c, In c (nchildren nP) -> live t c /\ c <> P) /\
  (forall c, edge_get (nedges nP) c <> None -> In c (nchildren nP)) /\ nid nP = P.
Proof.
  intros Hwf HnP HdP. assert (HlP : live t P) by (exists nP; auto).
  destruct (WF_edit t P Hwf HlP)
    as (root & r & sP & pp & dp & rest & _ & _ & _ & HRP & _ & HndP & _).
  destruct (Rep_inv _ _ _ _ _ HRP) as (nP0 & cs & -> & HnP0 & _ & FidP & _ & _ & HF & He1 & He2).
  assert (nP0 = nP) by congruence. subst nP0.
  rewrite ids_RT in HndP. apply NoDup_cons_iff in HndP as [HPn Hndcs].
  pose proof (Forall2_Rep_rid _ _ _ _ _ HF) as Hch.
  splits; auto.
  - rewrite Hch. apply NoDup_map_rid. auto.
  - intros c Hc. assert (Hcf : In c (flat_map ids cs)) by (apply In_map_rid_flat; congruence).
    split; [|intros ->; auto].
    eapply (Rep_ids_live _ _ _ _ _ _ HRP). apply in_ids_RT. auto.
Qed.

Lemma WF_parent_of (t : arena) c n pid :
  WF t -> get t c = Ok n -> nparent n = Some pid ->
  exists nP, get t pid = Ok nP /\ In c (nchildren nP).
Proof.
  intros Hwf Hg Hp. apply get_Ok in Hg as [Hn Hd]. assert (Hl : live t c) by (exists n; auto).
  destruct Hwf as [Hno|(root & r & HR & Hnd & Hlive)]; [exfalso; eapply Hno; eauto|].
  pose proof (Hlive _ Hl) as Hcr.
  assert (Hne : c <> root).
  { intros ->. destruct (Rep_inv _ _ _ _ _ HR) as (n0 & ? & _ & Hn0 & _ & _ & Hp0 & _). congruence. }
  destruct (Rep_parent _ _ _ _ _ _ HR Hcr Hne) as (P & nP & nx & _ & HnP & HdP & Hnx & Hpx & Hin).
  assert (nx = n) by congruence. subst nx. assert (P = pid) by congruence. subst P.
  exists nP. split; auto. apply get_Ok; auto.
Qed.

Lemma WF_root_of (t : arena) c n c' n' :
  WF t -> get t c = Ok n -> nparent n = None -> get t c' = Ok n' -> nparent n' = None -> c = c'.
Proof.
  intros Hwf Hg Hp Hg' Hp'. apply get_Ok in Hg as [Hn Hd]. apply get_Ok in Hg' as [Hn' Hd'].
  assert (Hl : live t c) by (exists n; auto). assert (Hl' : live t c') by (exists n'; auto).
  destruct Hwf as [Hno|(root & r & HR & Hnd & Hlive)]; [exfalso; eapply Hno; eauto|].
  rewrite (Rep_root_unique _ _ _ _ _ _ _ HR (Hlive _ Hl) Hn Hp).
  rewrite (Rep_root_unique _ _ _ _ _ _ _ HR (Hlive _ Hl') Hn' Hp'). reflexivity.
Qed.

End RepLib.
