(* RepLib.v — library of facts about the bridge Rep / WF of Spec.v (frame, surgery, edge maps,
   depth recomputation).  Used by WFOps.v. *)
From PT Require Import Arena Spec.
From Coq Require Import Permutation Sorted.

Local Arguments ids : simpl never.

(* ---- rose trees ---------------------------------------------------------------------------------- *)
Lemma rtree_ind' (P : rtree -> Prop) :
  (forall i cs, Forall P cs -> P (RT i cs)) -> forall r, P r.
Proof.
  intros H.
  refine (fix F (r : rtree) : P r :=
            match r with
            | RT i cs => H i cs ((fix G (cs : list rtree) : Forall P cs :=
                                    match cs with
                                    | [] => Forall_nil _
                                    | c :: cs' => Forall_cons _ (F c) (G cs')
                                    end) cs)
            end).
Qed.

Lemma ids_RT i cs : ids (RT i cs) = i :: flat_map ids cs.
Proof. reflexivity. Qed.

Lemma In_rid_ids r : In (rid r) (ids r).
Proof. destruct r; rewrite ids_RT; simpl; auto. Qed.

Lemma rsize_ids r : rsize r = length (ids r).
Proof.
  induction r using rtree_ind'. rewrite ids_RT. simpl. f_equal.
  induction H; simpl; auto. rewrite app_length. congruence.
Qed.

Lemma rheight_le_rsize r : rheight r <= rsize r.
Proof.
  induction r using rtree_ind'. simpl. apply le_n_S.
  induction H; simpl; auto. lia.
Qed.

Lemma In_map_rid_flat cs c : In c (map rid cs) -> In c (flat_map ids cs).
Proof.
  intros H. apply in_map_iff in H. destruct H as (r & <- & Hr).
  apply in_flat_map. exists r. split; auto. apply In_rid_ids.
Qed.

(* ---- permutations by counting --------------------------------------------------------------------- *)
Lemma perm_count (l1 l2 : list nat) :
  Permutation l1 l2 <-> forall x, count_occ Nat.eq_dec l1 x = count_occ Nat.eq_dec l2 x.
Proof. apply Permutation_count_occ. Qed.

Ltac perm_hyps z :=
  repeat match goal with
         | H : Permutation _ _ |- _ => apply perm_count in H; specialize (H z)
         end.
Ltac perm_solve :=
  let z := fresh "z" in
  apply perm_count; intros z; perm_hyps z;
  repeat (rewrite ?ids_RT in *; rewrite ?flat_map_app in *; rewrite ?count_occ_app in *; simpl in * );
  repeat match goal with
         | |- context [Nat.eq_dec ?a ?b] => destruct (Nat.eq_dec a b)
         | H : context [Nat.eq_dec ?a ?b] |- _ => destruct (Nat.eq_dec a b)
         end; try lia.

Lemma NoDup_app_iff {A} (l1 l2 : list A) :
  NoDup (l1 ++ l2) <-> NoDup l1 /\ NoDup l2 /\ (forall x, In x l1 -> ~ In x l2).
Proof.
  induction l1; simpl.
  - split; [intros H; repeat split; auto; constructor | tauto].
  - split.
    + intros H. inversion H; subst. apply IHl1 in H3 as (H4 & H5 & H6).
      repeat split; auto.
      * constructor; auto. intros Hin. apply H2. apply in_or_app; auto.
      * intros x [<-|Hx] Hx2; [apply H2; apply in_or_app; auto|eapply H6; eauto].
    + intros (H1 & H2 & H3). inversion H1; subst. constructor.
      * intros Hin. apply in_app_or in Hin as [Hin|Hin]; auto. eapply H3; eauto.
      * apply IHl1. repeat split; auto.
Qed.

Lemma NoDup_bounded_length (l : list nat) n : NoDup l -> (forall x, In x l -> x < n) -> length l <= n.
Proof.
  intros Hnd Hb. rewrite <- (seq_length n 0). apply NoDup_incl_length; auto.
  intros x Hx. apply in_seq. specialize (Hb x Hx). lia.
Qed.

(* ---- lists: replace_nth, nth_error ----------------------------------------------------------------- *)
Lemma replace_nth_length {A} k (x : A) l : length (replace_nth k x l) = length l.
Proof. revert k; induction l; destruct k; simpl; auto. Qed.

Lemma nth_error_replace_nth_eq {A} k (x : A) l :
  k < length l -> nth_error (replace_nth k x l) k = Some x.
Proof. revert k; induction l; destruct k; simpl; intros; try lia; auto. apply IHl; lia. Qed.

Lemma nth_error_replace_nth_neq {A} k j (x : A) l :
  j <> k -> nth_error (replace_nth k x l) j = nth_error l j.
Proof. revert k j; induction l; destruct k, j; simpl; intros; try congruence; auto. Qed.

Lemma nth_error_replace_nth_eq' {A} k (x y : A) l :
  nth_error l k = Some y -> nth_error (replace_nth k x l) k = Some x.
Proof. intros H. apply nth_error_replace_nth_eq. apply nth_error_Some. congruence. Qed.

Lemma nth_error_app_last {A} (l : list A) x : nth_error (l ++ [x]) (length l) = Some x.
Proof. rewrite nth_error_app2, Nat.sub_diag; auto. Qed.

Lemma nth_error_app_lt {A} (l : list A) x j : j < length l -> nth_error (l ++ [x]) j = nth_error l j.
Proof. apply nth_error_app1. Qed.

Lemma nth_error_Some_lt {A} (l : list A) j x : nth_error l j = Some x -> j < length l.
Proof. intros H. apply nth_error_Some. congruence. Qed.

Lemma index_of_In x l : In x l -> exists k, index_of x l = Some k.
Proof.
  induction l; simpl; [tauto|]. intros [->|H].
  - rewrite Nat.eqb_refl. eauto.
  - destruct (Nat.eqb x a); eauto. destruct (IHl H) as (k & ->). simpl; eauto.
Qed.

Lemma index_of_None x l : index_of x l = None -> ~ In x l.
Proof.
  intros H Hin. apply index_of_In in Hin as (k & Hk). congruence.
Qed.

(* removing the first occurrence *)
Lemma remove_at_index_of x l k :
  index_of x l = Some k -> exists l1 l2, l = l1 ++ x :: l2 /\ ~ In x l1 /\ remove_at k l = l1 ++ l2.
Proof.
  revert k; induction l; simpl; [discriminate|]. intros k.
  destruct (Nat.eqb x a) eqn:E.
  - apply Nat.eqb_eq in E. subst. intros [= <-]. exists [], l. simpl. auto.
  - destruct (index_of x l) eqn:E2; simpl; [|discriminate]. intros [= <-].
    destruct (IHl _ eq_refl) as (l1 & l2 & -> & Hn & Hr).
    exists (a :: l1), l2. simpl. repeat split; auto.
    + apply Nat.eqb_neq in E. intros [?|?]; auto.
    + congruence.
Qed.

(* ---- the outcome monad ------------------------------------------------------------------------------ *)
Lemma bind_Ok {A B} (o : outcome A) (f : A -> outcome B) b :
  bind o f = Ok b -> exists a, o = Ok a /\ f a = Ok b.
Proof. destruct o; simpl; try discriminate. eauto. Qed.

Section RepLib.
Context {L : Type}.
Notation arena := (@arena L).
Notation node := (@node L).

Lemma get_Ok (t : arena) i n : get t i = Ok n <-> nth_error t i = Some n /\ ndeleted n = false.
Proof.
  unfold get. destruct (nth_error t i) as [m|]; [destruct (ndeleted m) eqn:E|]; split;
    try discriminate; try (intros [? ?]; congruence).
  intros [= ->]; auto.
Qed.

Lemma get_live (t : arena) i : live t i <-> exists n, get t i = Ok n.
Proof. unfold live. split; intros (n & H); exists n; apply get_Ok; auto. Qed.

Lemma upd_Ok (t : arena) i f n : get t i = Ok n -> upd t i f = Ok (replace_nth i (f n) t).
Proof. unfold upd. intros ->. reflexivity. Qed.

(* ---- edges ---------------------------------------------------------------------------------------- *)
Definition ksorted (es : list (nat * L)) : Prop := StronglySorted lt (map fst es).

Lemma edge_get_insert_eq (es : list (nat * L)) c v : edge_get (edge_insert es c v) c = Some v.
Proof.
  induction es as [|[k w] es]; simpl.
  - rewrite Nat.eqb_refl; auto.
  - destruct (Nat.eqb k c) eqn:E; simpl.
    + rewrite Nat.eqb_refl; auto.
    + destruct (Nat.ltb c k); simpl; rewrite ?Nat.eqb_refl, ?E; auto.
Qed.

Lemma edge_get_insert_neq (es : list (nat * L)) c c' v :
  c' <> c -> edge_get (edge_insert es c v) c' = edge_get es c'.
Proof.
  intros Hne. induction es as [|[k w] es]; simpl.
  - destruct (Nat.eqb c c') eqn:E; auto. apply Nat.eqb_eq in E. congruence.
  - destruct (Nat.eqb k c) eqn:E; simpl.
    + apply Nat.eqb_eq in E. subst.
      destruct (Nat.eqb c c') eqn:E'; auto. apply Nat.eqb_eq in E'. congruence.
    + destruct (Nat.ltb c k); simpl.
      * destruct (Nat.eqb c c') eqn:E'; auto. apply Nat.eqb_eq in E'. congruence.
      * rewrite IHes. auto.
Qed.

Lemma edge_get_remove_neq (es : list (nat * L)) c c' :
  c' <> c -> edge_get (edge_remove es c) c' = edge_get es c'.
Proof.
  intros Hne. induction es as [|[k w] es]; simpl; auto.
  destruct (Nat.eqb k c) eqn:E; simpl.
  - apply Nat.eqb_eq in E. subst.
    destruct (Nat.eqb c c') eqn:E'; auto. apply Nat.eqb_eq in E'. congruence.
  - rewrite IHes. auto.
Qed.

Lemma edge_get_above (es : list (nat * L)) c : Forall (lt c) (map fst es) -> edge_get es c = None.
Proof.
  induction es as [|[k w] es]; simpl; auto. intros H. inversion H; subst.
  destruct (Nat.eqb k c) eqn:E; auto. apply Nat.eqb_eq in E. lia.
Qed.

Lemma edge_get_remove_eq (es : list (nat * L)) c : ksorted es -> edge_get (edge_remove es c) c = None.
Proof.
  unfold ksorted. induction es as [|[k w] es]; simpl; auto. intros H. inversion H; subst.
  destruct (Nat.eqb k c) eqn:E; simpl.
  - apply Nat.eqb_eq in E. subst. apply edge_get_above; auto.
  - rewrite E. auto.
Qed.

Lemma edge_get_keys (es : list (nat * L)) c : edge_get es c <> None -> In c (map fst es).
Proof.
  induction es as [|[k w] es]; simpl; [congruence|].
  destruct (Nat.eqb k c) eqn:E; auto. apply Nat.eqb_eq in E; auto.
Qed.

Lemma keys_insert (es : list (nat * L)) c v k :
  In k (map fst (edge_insert es c v)) -> k = c \/ In k (map fst es).
Proof.
  induction es as [|[k0 w] es]; simpl.
  - intros [?|[]]; auto.
  - destruct (Nat.eqb k0 c) eqn:E; simpl.
    + intros [?|?]; auto.
    + destruct (Nat.ltb c k0); simpl; intros [?|?]; auto. destruct (IHes H); auto.
Qed.

Lemma keys_remove (es : list (nat * L)) c k :
  In k (map fst (edge_remove es c)) -> In k (map fst es).
Proof.
  induction es as [|[k0 w] es]; simpl; auto.
  destruct (Nat.eqb k0 c) eqn:E; simpl; auto. intros [?|?]; auto.
Qed.

Lemma ksorted_insert (es : list (nat * L)) c v : ksorted es -> ksorted (edge_insert es c v).
Proof.
  unfold ksorted. induction es as [|[k w] es]; simpl.
  - repeat constructor.
  - intros H. inversion H; subst. destruct (Nat.eqb k c) eqn:E; simpl.
    + apply Nat.eqb_eq in E. subst. constructor; auto.
    + destruct (Nat.ltb c k) eqn:E2; simpl.
      * apply Nat.ltb_lt in E2. constructor; auto. constructor; auto.
        eapply Forall_impl; [|exact H3]. simpl. intros; lia.
      * apply Nat.ltb_ge in E2. apply Nat.eqb_neq in E. constructor; auto.
        apply Forall_forall. intros x Hx. apply keys_insert in Hx as [->|Hx]; [lia|].
        rewrite Forall_forall in H3. auto.
Qed.

Lemma ksorted_remove (es : list (nat * L)) c : ksorted es -> ksorted (edge_remove es c).
Proof.
  unfold ksorted. induction es as [|[k w] es]; simpl; auto.
  intros H. inversion H; subst. destruct (Nat.eqb k c) eqn:E; simpl; auto.
  constructor; auto. apply Forall_forall. intros x Hx. apply keys_remove in Hx.
  rewrite Forall_forall in H3. auto.
Qed.

Lemma keys_map (g : L -> L) (es : list (nat * L)) :
  map fst (map (fun kv => (fst kv, g (snd kv))) es) = map fst es.
Proof. rewrite map_map. simpl. reflexivity. Qed.

Lemma edge_get_map (g : L -> L) (es : list (nat * L)) c :
  edge_get (map (fun kv => (fst kv, g (snd kv))) es) c = option_map g (edge_get es c).
Proof.
  induction es as [|[k w] es]; simpl; auto. destruct (Nat.eqb k c); auto.
Qed.

(* ---- Rep: basic facts -------------------------------------------------------------------------------- *)
Lemma Rep_inv (t : arena) p d i r :
  Rep t p d i r ->
  exists n cs, r = RT i cs /\ nth_error t i = Some n /\ ndeleted n = false /\ nid n = i /\
    nparent n = p /\ ndepth n = d /\
    Forall2 (fun c r => Rep t (Some i) (S d) c r) (nchildren n) cs /\
    (forall c nc, In c (nchildren n) -> nth_error t c = Some nc -> edge_get (nedges n) c = npedge nc) /\
    (forall c, edge_get (nedges n) c <> None -> In c (nchildren n)).
Proof. intros H. inversion H; subst. exists n, cs. repeat split; auto. Qed.

Lemma Rep_rid (t : arena) p d i r : Rep t p d i r -> rid r = i.
Proof. intros H. inversion H; auto. Qed.

Lemma Forall2_Rep_rid (t : arena) p d l cs :
  Forall2 (fun c r => Rep t p d c r) l cs -> l = map rid cs.
Proof. induction 1; simpl; auto. f_equal; auto. symmetry. eapply Rep_rid; eauto. Qed.

Lemma Rep_live (t : arena) p d i r : Rep t p d i r -> live t i.
Proof. intros H. inversion H; subst. exists n; auto. Qed.

(* Rep without the cached-depth clause *)
Inductive Rep0 (t : arena) : option nat -> nat -> rtree -> Prop :=
| Rep0_node : forall p i n cs,
    nth_error t i = Some n ->
    ndeleted n = false ->
    nid n = i ->
    nparent n = p ->
    Forall2 (fun c r => Rep0 t (Some i) c r) (nchildren n) cs ->
    (forall c nc, In c (nchildren n) -> nth_error t c = Some nc -> edge_get (nedges n) c = npedge nc) ->
    (forall c, edge_get (nedges n) c <> None -> In c (nchildren n)) ->
    Rep0 t p i (RT i cs).

Lemma Rep0_rid (t : arena) p i r : Rep0 t p i r -> rid r = i.
Proof. intros H. inversion H; auto. Qed.

Lemma Forall2_Rep0_rid (t : arena) p l cs :
  Forall2 (fun c r => Rep0 t p c r) l cs -> l = map rid cs.
Proof. induction 1; simpl; auto. f_equal; auto. symmetry. eapply Rep0_rid; eauto. Qed.

Lemma Rep_Rep0 (t : arena) : forall r p d i, Rep t p d i r -> Rep0 t p i r.
Proof.
  induction r using rtree_ind'. intros p d j HR. inversion HR; subst.
  econstructor; eauto.
  clear - H H7. revert H7. generalize (nchildren n). induction H; intros l HF; inversion HF; subst; constructor; eauto.
Qed.

Lemma Rep0_ids_live (t : arena) : forall r p i j, Rep0 t p i r -> In j (ids r) -> live t j.
Proof.
  induction r using rtree_ind'. intros p k j HR Hin. inversion HR; subst.
  rewrite ids_RT in Hin. destruct Hin as [<-|Hin]; [exists n; auto|].
  apply in_flat_map in Hin as (c & Hc & Hj).
  rewrite Forall_forall in H.
  destruct (Forall2_in_r _ _ _ _ Hc H6) as (k' & _ & Hk') || idtac.
Abort.

End RepLib.
