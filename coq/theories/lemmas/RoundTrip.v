(* RoundTrip.v — C01: writing a tree to Newick text and parsing the text back yields the same tree
   (shape, child order, names, comments, branch lengths), and writing the re-parsed tree reproduces
   the text.  Branch lengths are abstract: [print_len] / [parse_len] with the two hypotheses
   H1 (parse after print is the identity on admissible values) and H2 (printed lengths are non-empty
   and free of Newick metacharacters and whitespace). *)
From PT Require Import Newick Spec ParserProps.
From Coq Require Import Lia List Arith NArith Bool.
Import ListNotations.

(* ================================================================================================ *)
(* Part 0: generic list helpers                                                                      *)
(* ================================================================================================ *)

Lemma rn_length {A} (l : list A) i x : length (replace_nth i x l) = length l.
Proof. revert i; induction l; intros [|i]; simpl; auto. Qed.

Lemma rn_app_l {A} (l l' : list A) i y :
  i < length l -> replace_nth i y (l ++ l') = replace_nth i y l ++ l'.
Proof. revert i; induction l; intros [|i]; simpl; intros; try lia; auto. f_equal. apply IHl. lia. Qed.

Lemma rn_app_mid {A} (l l' : list A) x y : replace_nth (length l) y (l ++ x :: l') = l ++ y :: l'.
Proof. induction l; simpl; auto. f_equal; auto. Qed.

Lemma rn_rn {A} (l : list A) i x y : replace_nth i y (replace_nth i x l) = replace_nth i y l.
Proof. revert i; induction l; intros [|i]; simpl; auto. f_equal; auto. Qed.

Lemma nth_rn_eq {A} (l : list A) i x : i < length l -> nth_error (replace_nth i x l) i = Some x.
Proof. revert i; induction l; intros [|i]; simpl; intros; try lia; auto. apply IHl; lia. Qed.

Lemma nth_rn_neq {A} (l : list A) i j x : i <> j -> nth_error (replace_nth i x l) j = nth_error l j.
Proof. revert i j; induction l; intros [|i] [|j]; simpl; intros; try congruence; auto. Qed.

Lemma nth_app_mid {A} (l l' : list A) x : nth_error (l ++ x :: l') (length l) = Some x.
Proof. induction l; simpl; auto. Qed.

Lemma nth_Some_lt {A} {l : list A} {i x} : nth_error l i = Some x -> i < length l.
Proof. intros H. apply nth_error_Some. congruence. Qed.

(* ================================================================================================ *)
(* Part 1: labelled rose trees and their Newick text                                                 *)
(* ================================================================================================ *)

Section RoundTrip.
Variable L : Type.
Variable print_len : L -> str.               (* Rust `{v}` (Display for f64) *)
Variable parse_len : str -> option L.        (* str::parse::<f64>() *)
Variable ok_len : L -> Prop.                 (* "not NaN" *)

Notation node := (@node L).
Notation arena := (@arena L).
Notation pstate := (@pstate L).
Notation rstr := (@rstr L).

(* a character that is not a Newick metacharacter  ( ) , ; : [ ] double-quote  and not whitespace *)
Definition safe_charb (c : N) : bool :=
  (negb (c =? ch_lpar) && negb (c =? ch_rpar) && negb (c =? ch_comma) && negb (c =? ch_semi) &&
   negb (c =? ch_colon) && negb (c =? ch_lbr) && negb (c =? ch_rbr) && negb (c =? ch_quote) &&
   negb (is_ws c))%N.
Definition safe_char (c : N) : Prop := safe_charb c = true.

Hypothesis H1 : forall l, ok_len l -> parse_len (print_len l) = Some l.
Hypothesis H2 : forall l, print_len l <> [] /\ Forall safe_char (print_len l).

Inductive ltree := LT (name : option str) (len : option L) (comment : option str) (ch : list ltree).

Lemma ltree_ind' (P : ltree -> Prop) :
  (forall nm ln cm cs, Forall P cs -> P (LT nm ln cm cs)) -> forall r, P r.
Proof.
  intros H.
  refine (fix F (r : ltree) : P r :=
            match r with
            | LT nm ln cm cs => H nm ln cm cs ((fix G (cs : list ltree) : Forall P cs :=
                                    match cs with
                                    | [] => Forall_nil _
                                    | c :: cs' => Forall_cons _ (F c) (G cs')
                                    end) cs)
            end).
Qed.

Fixpoint lsize (r : ltree) : nat :=
  match r with LT _ _ _ cs => S (fold_right (fun c acc => lsize c + acc) 0 cs) end.
Definition lsizes (cs : list ltree) : nat := fold_right (fun c acc => lsize c + acc) 0 cs.
Fixpoint lheight (r : ltree) : nat :=
  match r with LT _ _ _ cs => S (fold_right (fun c acc => Nat.max (lheight c) acc) 0 cs) end.

(* ---- the printer on plain text ------------------------------------------------------------------ *)
Definition oname (nm : option str) : str := match nm with Some s => s | None => [] end.
Definition olen (ln : option L) : str := match ln with Some l => ch_colon :: print_len l | None => [] end.
Definition ocomment (cm : option str) : str :=
  match cm with Some s => ch_lbr :: s ++ [ch_rbr] | None => [] end.
Definition label (nm : option str) (ln : option L) (cm : option str) : str :=
  oname nm ++ olen ln ++ ocomment cm.

Fixpoint join_c (l : list str) : str :=
  match l with
  | [] => []
  | [x] => x
  | x :: t => x ++ ch_comma :: join_c t
  end.

Fixpoint lprint (r : ltree) : str :=
  match r with
  | LT nm ln cm cs =>
      (match cs with [] => [] | _ => ch_lpar :: join_c (map lprint cs) ++ [ch_rpar] end)
      ++ label nm ln cm
  end.

(* children each followed by their delimiter: ',' between siblings, ')' after the last *)
Fixpoint pdelim (cs : list ltree) : str :=
  match cs with
  | [] => []
  | c :: cs' => lprint c ++ (match cs' with [] => [ch_rpar] | _ => ch_comma :: pdelim cs' end)
  end.

Lemma join_pdelim cs : cs <> [] -> join_c (map lprint cs) ++ [ch_rpar] = pdelim cs.
Proof.
  induction cs as [|c cs IH]; [congruence|]. intros _.
  destruct cs as [|c' cs]; [reflexivity|].
  change (join_c (map lprint (c :: c' :: cs))) with (lprint c ++ ch_comma :: join_c (map lprint (c' :: cs))).
  rewrite <- app_assoc, <- app_comm_cons, IH by discriminate. reflexivity.
Qed.

Lemma lprint_eq nm ln cm cs :
  lprint (LT nm ln cm cs) =
  match cs with [] => label nm ln cm | _ => ch_lpar :: pdelim cs ++ label nm ln cm end.
Proof.
  destruct cs as [|c cs]; [reflexivity|].
  change (lprint (LT nm ln cm (c :: cs)))
    with ((ch_lpar :: join_c (map lprint (c :: cs)) ++ [ch_rpar]) ++ label nm ln cm).
  rewrite join_pdelim by discriminate. reflexivity.
Qed.

(* ---- admissible labels ---------------------------------------------------------------------------- *)
(* names: scanned with the parser's quote toggle, metacharacters and whitespace occur only between
   double quotes, and the quotes are balanced *)
Fixpoint name_okb (q : bool) (s : str) : bool :=
  match s with
  | [] => negb q
  | c :: s' =>
      if (c =? ch_quote)%N then name_okb (negb q) s'
      else if q then name_okb q s'
      else safe_charb c && name_okb q s'
  end.

Definition name_ok (nm : option str) : Prop :=
  match nm with None => True | Some s => s <> [] /\ name_okb false s = true end.
Definition len_ok (ln : option L) : Prop :=
  match ln with None => True | Some l => ok_len l end.
Definition comment_ok (cm : option str) : Prop :=
  match cm with None => True | Some s => s <> [] /\ ~ In ch_rbr s end.

Inductive labels_ok : ltree -> Prop :=
| labels_ok_node nm ln cm cs :
    name_ok nm -> len_ok ln -> comment_ok cm -> Forall labels_ok cs -> labels_ok (LT nm ln cm cs).

(* the plain case: every character of the name is safe *)
Lemma name_okb_safe s : Forall safe_char s -> name_okb false s = true.
Proof.
  induction 1 as [|c s Hc _ IH]; [reflexivity|]. simpl.
  unfold safe_char, safe_charb in Hc.
  destruct (c =? ch_quote)%N eqn:E.
  - rewrite !andb_true_iff in Hc. destruct Hc as [[_ Hq] _]. discriminate.
  - unfold safe_charb. rewrite E in *. rewrite Hc. exact IH.
Qed.

(* ---- preorder numbering ---------------------------------------------------------------------------- *)
Fixpoint skel (k : nat) (r : ltree) : rtree :=
  match r with
  | LT _ _ _ cs =>
      RT k ((fix go (cs : list ltree) (k : nat) : list rtree :=
               match cs with
               | [] => []
               | c :: cs' => skel k c :: go cs' (k + lsize c)
               end) cs (S k))
  end.
Fixpoint skel_list (k : nat) (cs : list ltree) : list rtree :=
  match cs with
  | [] => []
  | c :: cs' => skel k c :: skel_list (k + lsize c) cs'
  end.
Lemma skel_eq k nm ln cm cs : skel k (LT nm ln cm cs) = RT k (skel_list (S k) cs).
Proof.
  simpl. f_equal. generalize (S k). induction cs; intros; simpl; auto. f_equal; auto.
Qed.
Lemma rid_skel k r : rid (skel k r) = k.
Proof. destruct r; reflexivity. Qed.
Definition child_ids (k : nat) (cs : list ltree) : list nat := map rid (skel_list k cs).
Lemma child_ids_cons k c cs : child_ids k (c :: cs) = k :: child_ids (k + lsize c) cs.
Proof. unfold child_ids. simpl. rewrite rid_skel. reflexivity. Qed.

Lemma lsize_eq nm ln cm cs : lsize (LT nm ln cm cs) = S (lsizes cs).
Proof. reflexivity. Qed.
Lemma lsizes_cons c cs : lsizes (c :: cs) = lsize c + lsizes cs.
Proof. reflexivity. Qed.

Lemma ids_skel : forall r k, ids (skel k r) = seq k (lsize r).
Proof.
  induction r as [nm ln cm cs IH] using ltree_ind'. intros k.
  rewrite skel_eq, lsize_eq.
  change (k :: flat_map ids (skel_list (S k) cs) = k :: seq (S k) (lsizes cs)). f_equal.
  generalize (S k). induction IH as [|c cs Hc _ IHcs]; intros k'; [reflexivity|].
  rewrite lsizes_cons, seq_app. cbn [skel_list flat_map]. f_equal; auto.
Qed.

(* ================================================================================================ *)
(* Part 2: the arena built by the parser, as a function (the "abstract parser" on arenas)            *)
(* ================================================================================================ *)

Lemma rn_same (t : arena) i n : nth_error t i = Some n -> replace_nth i n t = t.
Proof. revert i; induction t; intros [|i]; simpl; intros H; try discriminate; [congruence|]. f_equal; auto. Qed.

Lemma rn_app_mid' {A} (l l' : list A) i x y : length l = i -> replace_nth i y (l ++ x :: l') = l ++ y :: l'.
Proof. intros <-. apply rn_app_mid. Qed.

Lemma nth_app_mid' {A} (l l' : list A) i x : length l = i -> nth_error (l ++ x :: l') i = Some x.
Proof. intros <-. apply nth_app_mid. Qed.

Lemma set_nchildren_id (n : node) : set_nchildren n (nchildren n) = n.
Proof. destruct n; reflexivity. Qed.

Definition child_node (id p d : nat) : node := mkNode id None (Some p) [] None None [] d false.
Definition addc (pn : node) (c : nat) : node := set_nchildren pn (nchildren pn ++ [c]).

(* add_child t (new_node None None) p None *)
Definition new_child (t : arena) (p : nat) : arena :=
  match nth_error t p with
  | Some pn => replace_nth p (addc pn (length t)) t ++ [child_node (length t) p (ndepth pn + 1)]
  | None => t
  end.

Lemma add_child_new (t : arena) p :
  live t p -> add_child t (new_node None None) p None = Ok (new_child t p, length t).
Proof.
  intros [pn [Hpn Hdel]]. pose proof (nth_Some_lt Hpn) as Hlt.
  unfold add_child. destruct (Nat.leb_spec (length t) p) as [Hle|_]; [lia|].
  unfold get at 1. rewrite Hpn, Hdel. simpl bind. unfold add.
  unfold upd at 1. unfold get. rewrite nth_error_app2 by lia. rewrite Nat.sub_diag. simpl.
  rewrite replace_nth_app_last.
  unfold upd, get. rewrite nth_error_app1 by lia. rewrite Hpn, Hdel. simpl.
  unfold new_child. rewrite Hpn. rewrite rn_app_l by lia. reflexivity.
Qed.

(* the label commit of ',' and ')' *)
Definition relabel_node (nm : option str) (ln : option L) (cm : option str) (n : node) : node :=
  let n1 := match nm with Some x => set_nname n (Some x) | None => n end in
  let n2 := match nparent n1 with Some p => node_set_parent n1 p ln | None => n1 end in
  set_ncomment n2 cm.
Definition relabel (t : arena) (q : nat) nm ln cm : arena :=
  match nth_error t q with
  | Some n => replace_nth q (relabel_node nm ln cm n) t
  | None => t
  end.

(* graft t p r : the subtree r is appended as last child of the live node p *)
Fixpoint graft (t : arena) (p : nat) (r : ltree) : arena :=
  match r with
  | LT nm ln cm cs =>
      let q := length t in
      relabel ((fix go (cs : list ltree) (t : arena) : arena :=
                  match cs with
                  | [] => t
                  | c :: cs' => go cs' (graft t q c)
                  end) cs (new_child t p)) q nm ln cm
  end.
Fixpoint graft_list (q : nat) (cs : list ltree) (t : arena) : arena :=
  match cs with
  | [] => t
  | c :: cs' => graft_list q cs' (graft t q c)
  end.
Lemma graft_eq t p nm ln cm cs :
  graft t p (LT nm ln cm cs) = relabel (graft_list (length t) cs (new_child t p)) (length t) nm ln cm.
Proof.
  simpl. f_equal. generalize (new_child t p). generalize (length t).
  induction cs; intros; simpl; auto.
Qed.

(* the label commit of ';' *)
Definition root_label (nm : option str) (ln : option L) (cm : option str) (n : node) : node :=
  let n1 := set_ncomment (set_nname n nm) cm in
  match ln with Some v => set_npedge n1 (Some v) | None => n1 end.
Definition root0 : node := mkNode 0 None None [] None None [] 0 false.
Definition build (r : ltree) : arena :=
  match r with
  | LT nm ln cm cs =>
      let t1 := graft_list 0 cs [root0] in
      match nth_error t1 0 with
      | Some n => replace_nth 0 (root_label nm ln cm n) t1
      | None => t1
      end
  end.

(* ---- closed form: the slots of a subtree in preorder ---------------------------------------------- *)
Fixpoint nodes_of (p : option nat) (d k : nat) (r : ltree) : list node :=
  match r with
  | LT nm ln cm cs =>
      mkNode k nm p (child_ids (S k) cs) ln cm [] d false ::
      (fix go (cs : list ltree) (k' : nat) : list node :=
         match cs with
         | [] => []
         | c :: cs' => nodes_of (Some k) (d + 1) k' c ++ go cs' (k' + lsize c)
         end) cs (S k)
  end.
Fixpoint nodes_list (p : option nat) (d k : nat) (cs : list ltree) : list node :=
  match cs with
  | [] => []
  | c :: cs' => nodes_of p d k c ++ nodes_list p d (k + lsize c) cs'
  end.
Lemma nodes_of_eq p d k nm ln cm cs :
  nodes_of p d k (LT nm ln cm cs) =
  mkNode k nm p (child_ids (S k) cs) ln cm [] d false :: nodes_list (Some k) (d + 1) (S k) cs.
Proof.
  simpl. f_equal. generalize (S k). induction cs; intros; simpl; auto. f_equal; auto.
Qed.

Lemma nodes_of_length : forall r p d k, length (nodes_of p d k r) = lsize r.
Proof.
  induction r as [nm ln cm cs IH] using ltree_ind'. intros p d k.
  rewrite nodes_of_eq, lsize_eq. simpl length. f_equal.
  generalize (S k). induction IH as [|c cs Hc _ IHcs]; intros k'; [reflexivity|].
  cbn [nodes_list]. rewrite app_length, lsizes_cons, Hc, IHcs. reflexivity.
Qed.
Lemma nodes_list_length cs : forall p d k, length (nodes_list p d k cs) = lsizes cs.
Proof.
  induction cs as [|c cs IH]; intros; [reflexivity|].
  cbn [nodes_list]. rewrite app_length, lsizes_cons, nodes_of_length, IH. reflexivity.
Qed.

Definition graft_ok (c : ltree) : Prop :=
  forall (t : arena) p pn, nth_error t p = Some pn ->
    graft t p c = replace_nth p (addc pn (length t)) t ++ nodes_of (Some p) (ndepth pn + 1) (length t) c.

Lemma graft_list_spec cs : Forall graft_ok cs ->
  forall (t1 : arena) q nq, nth_error t1 q = Some nq ->
    graft_list q cs t1 =
    replace_nth q (set_nchildren nq (nchildren nq ++ child_ids (length t1) cs)) t1
    ++ nodes_list (Some q) (ndepth nq + 1) (length t1) cs.
Proof.
  induction 1 as [|c cs Hc _ IH]; intros t1 q nq Hq.
  - simpl. unfold child_ids. simpl. rewrite !app_nil_r, set_nchildren_id, rn_same; auto.
  - pose proof (nth_Some_lt Hq) as Hlt.
    cbn [graft_list]. rewrite (Hc t1 q nq Hq).
    set (k := length t1).
    rewrite (IH _ q (addc nq k)).
    2:{ rewrite nth_error_app1 by (rewrite rn_length; lia). apply nth_rn_eq; auto. }
    rewrite app_length, rn_length, nodes_of_length. fold k.
    rewrite rn_app_l by (rewrite rn_length; lia). rewrite rn_rn.
    rewrite child_ids_cons. cbn [nodes_list]. rewrite <- app_assoc. f_equal. f_equal.
    unfold addc. simpl. rewrite <- app_assoc. reflexivity.
Qed.

Lemma graft_spec : forall r, graft_ok r.
Proof.
  induction r as [nm ln cm cs IH] using ltree_ind'. intros t p pn Hp.
  pose proof (nth_Some_lt Hp) as Hlt.
  rewrite graft_eq, nodes_of_eq. unfold new_child. rewrite Hp.
  set (q := length t). set (T0 := replace_nth p (addc pn q) t).
  assert (HT0 : length T0 = q) by (unfold T0; apply rn_length).
  set (cn := child_node q p (ndepth pn + 1)).
  rewrite (graft_list_spec cs IH (T0 ++ [cn]) q cn) by (apply nth_app_mid'; auto).
  rewrite app_length, HT0. simpl length. rewrite Nat.add_1_r.
  rewrite (rn_app_mid' T0 [] q cn _ HT0).
  unfold relabel. rewrite <- app_assoc. cbn [app].
  rewrite (nth_app_mid' T0 _ q _ HT0). rewrite (rn_app_mid' T0 _ q _ _ HT0).
  f_equal. f_equal. destruct nm; reflexivity.
Qed.

Lemma build_spec r : build r = nodes_of None 0 0 r.
Proof.
  destruct r as [nm ln cm cs]. unfold build. rewrite nodes_of_eq.
  rewrite (graft_list_spec cs) with (nq := root0); [|apply Forall_forall; intros; apply graft_spec|reflexivity].
  simpl. destruct ln; reflexivity.
Qed.

(* ================================================================================================ *)
(* Part 3: single steps of the state machine                                                         *)
(* ================================================================================================ *)
Notation prun := (prun parse_len).
Notation pstep := (pstep parse_len).

Lemma prun_step s c rest s' : pstep s c = Running s' -> prun s (c :: rest) = prun s' rest.
Proof. intros H. simpl. rewrite H. reflexivity. Qed.
Lemma prun_done s c rest o : pstep s c = Done o -> prun s (c :: rest) = o.
Proof. intros H. simpl. rewrite H. reflexivity. Qed.

(* clean state: nothing pending *)
Notation st t idx stk op := (mkP t FName None None None idx stk op false).

Lemma safe_facts c : safe_char c ->
  ((c =? ch_lpar) = false /\ (c =? ch_rpar) = false /\ (c =? ch_comma) = false /\ (c =? ch_semi) = false /\
   (c =? ch_colon) = false /\ (c =? ch_lbr) = false /\ (c =? ch_rbr) = false /\ (c =? ch_quote) = false)%N /\
  is_ws c = false.
Proof.
  unfold safe_char, safe_charb. rewrite !andb_true_iff, !negb_true_iff. tauto.
Qed.

Lemma pstep_name_plain t nm ln cm idx stk op c : safe_char c ->
  pstep (mkP t FName nm ln cm idx stk op false) c = Running (mkP t FName (push_opt nm c) ln cm idx stk op false).
Proof.
  intros H. destruct (safe_facts c H) as [(E1 & E2 & E3 & E4 & E5 & E6 & E7 & E8) E9].
  unfold pstep. cbn [p_quotes p_field p_tree p_name p_len p_comment p_index p_stack p_open andb negb].
  rewrite E1, E2, E3, E4, E5, E6, E7, E8, E9. reflexivity.
Qed.

Lemma pstep_name_quote t nm ln cm idx stk op q :
  pstep (mkP t FName nm ln cm idx stk op q) ch_quote =
  Running (mkP t FName (push_opt nm ch_quote) ln cm idx stk op (negb q)).
Proof. destruct q; reflexivity. Qed.

Lemma pstep_name_inq t nm ln cm idx stk op c : (c =? ch_quote)%N = false ->
  pstep (mkP t FName nm ln cm idx stk op true) c = Running (mkP t FName (push_opt nm c) ln cm idx stk op true).
Proof.
  intros H. unfold pstep. cbn [p_quotes p_field andb negb]. rewrite H. reflexivity.
Qed.

Lemma pstep_len t nm ln cm idx stk op c : safe_char c ->
  pstep (mkP t FLength nm ln cm idx stk op false) c = Running (mkP t FLength nm (push_opt ln c) cm idx stk op false).
Proof.
  intros H. destruct (safe_facts c H) as [(E1 & E2 & E3 & E4 & E5 & E6 & E7 & E8) E9].
  unfold pstep. cbn [p_quotes p_field p_tree p_name p_len p_comment p_index p_stack p_open andb negb].
  rewrite E1, E2, E3, E4, E5, E6, E7, E8, E9. reflexivity.
Qed.

Lemma pstep_comment t nm ln cm idx stk op c : c <> ch_rbr ->
  pstep (mkP t FComment nm ln cm idx stk op false) c = Running (mkP t FComment nm ln (push_opt cm c) idx stk op false).
Proof.
  intros H. apply N.eqb_neq in H.
  unfold pstep. cbn [p_quotes p_field andb negb]. rewrite H. reflexivity.
Qed.

Lemma pstep_colon t f nm ln cm idx stk op : f <> FComment ->
  pstep (mkP t f nm ln cm idx stk op false) ch_colon = Running (mkP t FLength nm ln cm idx stk op false).
Proof. destruct f; [reflexivity|reflexivity|congruence]. Qed.

Lemma pstep_lbr t f nm ln cm idx stk op : f <> FComment ->
  pstep (mkP t f nm ln cm idx stk op false) ch_lbr = Running (mkP t FComment nm ln cm idx stk op false).
Proof. destruct f; [reflexivity|reflexivity|congruence]. Qed.

Lemma pstep_rbr t nm ln cm idx stk op :
  pstep (mkP t FComment nm ln cm idx stk op false) ch_rbr = Running (mkP t FName nm ln cm idx stk op false).
Proof. reflexivity. Qed.

(* ---- runs over the three parts of a label --------------------------------------------------------- *)
Lemma push_all_some x : forall a, fold_left push_opt x (Some a) = Some (a ++ x).
Proof.
  induction x as [|c x IH]; intros a; simpl; [rewrite app_nil_r; auto|].
  rewrite IH, <- app_assoc. reflexivity.
Qed.
Lemma push_all_none x : x <> [] -> fold_left push_opt x None = Some x.
Proof. destruct x as [|c x]; [congruence|]. intros _. simpl. apply push_all_some. Qed.

Lemma run_name t ln cm idx stk op rest x : forall q nm, name_okb q x = true ->
  prun (mkP t FName nm ln cm idx stk op q) (x ++ rest) =
  prun (mkP t FName (fold_left push_opt x nm) ln cm idx stk op false) rest.
Proof.
  induction x as [|c x IH]; intros q nm H.
  - simpl in H. destruct q; [discriminate|]. reflexivity.
  - cbn [name_okb] in H. rewrite <- app_comm_cons. cbn [fold_left].
    destruct (c =? ch_quote)%N eqn:E.
    + apply N.eqb_eq in E. subst c. erewrite prun_step by apply pstep_name_quote. apply IH; auto.
    + destruct q.
      * erewrite prun_step by (apply pstep_name_inq; auto). apply IH; auto.
      * apply andb_true_iff in H. destruct H as [Hs H].
        erewrite prun_step by (apply pstep_name_plain; exact Hs). apply IH; auto.
Qed.

Lemma run_len t nm cm idx stk op rest x : forall ln, Forall safe_char x ->
  prun (mkP t FLength nm ln cm idx stk op false) (x ++ rest) =
  prun (mkP t FLength nm (fold_left push_opt x ln) cm idx stk op false) rest.
Proof.
  induction x as [|c x IH]; intros ln H; [reflexivity|].
  inversion H; subst. rewrite <- app_comm_cons. cbn [fold_left].
  erewrite prun_step by (apply pstep_len; auto). apply IH; auto.
Qed.

Lemma run_comment t nm ln idx stk op rest x : forall cm, ~ In ch_rbr x ->
  prun (mkP t FComment nm ln cm idx stk op false) (x ++ rest) =
  prun (mkP t FComment nm ln (fold_left push_opt x cm) idx stk op false) rest.
Proof.
  induction x as [|c x IH]; intros cm H; [reflexivity|].
  rewrite <- app_comm_cons. cbn [fold_left].
  erewrite prun_step by (apply pstep_comment; intros ->; apply H; left; auto).
  apply IH. intros Hin. apply H. right; auto.
Qed.

Definition lab_field (ln : option L) (cm : option str) : field :=
  match cm with Some _ => FName | None => match ln with Some _ => FLength | None => FName end end.

Lemma lab_field_ok ln cm : lab_field ln cm <> FComment.
Proof. destruct ln, cm; simpl; congruence. Qed.

(* field lemma: from a state with nothing pending, a printed label fills the three pending slots *)
Lemma run_label t idx stk op rest nm ln cm :
  name_ok nm -> comment_ok cm ->
  prun (mkP t FName None None None idx stk op false) (label nm ln cm ++ rest) =
  prun (mkP t (lab_field ln cm) nm (option_map print_len ln) cm idx stk op false) rest.
Proof.
  intros Hnm Hcm. unfold label. rewrite <- !app_assoc.
  (* name *)
  assert (E1 : prun (mkP t FName None None None idx stk op false) (oname nm ++ olen ln ++ ocomment cm ++ rest) =
               prun (mkP t FName nm None None idx stk op false) (olen ln ++ ocomment cm ++ rest)).
  { destruct nm as [x|]; [|reflexivity]. destruct Hnm as [Hne Hok]. simpl oname.
    rewrite run_name by exact Hok. rewrite push_all_none by auto. reflexivity. }
  rewrite E1. clear E1.
  (* length *)
  assert (E2 : prun (mkP t FName nm None None idx stk op false) (olen ln ++ ocomment cm ++ rest) =
               prun (mkP t (match ln with Some _ => FLength | None => FName end) nm (option_map print_len ln) None
                         idx stk op false) (ocomment cm ++ rest)).
  { destruct ln as [l|]; [|reflexivity]. destruct (H2 l) as [Hne Hsafe]. simpl olen.
    rewrite <- app_comm_cons. erewrite prun_step by (apply pstep_colon; congruence).
    rewrite run_len by exact Hsafe. rewrite push_all_none by auto. reflexivity. }
  rewrite E2. clear E2.
  (* comment *)
  destruct cm as [x|].
  - destruct Hcm as [Hne Hno]. simpl ocomment. rewrite <- app_comm_cons.
    erewrite prun_step by (apply pstep_lbr; destruct ln; congruence).
    rewrite <- app_assoc. rewrite run_comment by exact Hno. rewrite push_all_none by auto.
    simpl app. erewrite prun_step by apply pstep_rbr. reflexivity.
  - reflexivity.
Qed.

(* ---- the label commit ------------------------------------------------------------------------------ *)
Lemma with_node_ok (s : pstate) k (t : arena) idx n nm ln cm :
  nth_error t idx = Some n -> ndeleted n = false ->
  p_name s = nm -> p_len s = option_map print_len ln -> len_ok ln -> p_comment s = cm ->
  with_node parse_len s k t idx = k (replace_nth idx (relabel_node nm ln cm n) t).
Proof.
  intros Hn Hd Hnm Hln Hok Hcm. unfold with_node, get. rewrite Hn, Hd. simpl lift_run.
  rewrite Hnm, Hln, Hcm. destruct ln as [l|]; simpl option_map; cbv iota.
  - simpl in Hok. rewrite (H1 l Hok). reflexivity.
  - reflexivity.
Qed.

Lemma new_child_nth (t : arena) p : live t p ->
  nth_error (new_child t p) (length t) = Some (child_node (length t) p (match nth_error t p with Some pn => ndepth pn + 1 | None => 0 end)).
Proof.
  intros [pn [Hpn _]]. unfold new_child. rewrite Hpn. apply nth_app_mid'. apply rn_length.
Qed.

Lemma commit_new (s : pstate) k p stk nm ln cm :
  p_index s = None -> p_stack s = p :: stk -> live (p_tree s) p ->
  p_name s = nm -> p_len s = option_map print_len ln -> len_ok ln -> p_comment s = cm ->
  commit parse_len s k = k (relabel (new_child (p_tree s) p) (length (p_tree s)) nm ln cm).
Proof.
  intros Hi Hs Hl Hnm Hln Hok Hcm. rewrite commit_unfold, Hi, Hs, add_child_new by exact Hl.
  cbn [lift_run fst snd]. unfold relabel. rewrite (new_child_nth _ _ Hl).
  apply with_node_ok; auto. apply new_child_nth; auto.
Qed.

Lemma commit_idx (s : pstate) k idx nm ln cm :
  p_index s = Some idx -> live (p_tree s) idx ->
  p_name s = nm -> p_len s = option_map print_len ln -> len_ok ln -> p_comment s = cm ->
  commit parse_len s k = k (relabel (p_tree s) idx nm ln cm).
Proof.
  intros Hi [n [Hn Hd]] Hnm Hln Hok Hcm. rewrite commit_unfold, Hi.
  unfold relabel. rewrite Hn. eapply with_node_ok; eauto.
Qed.

(* ================================================================================================ *)
(* Part 4: big-step simulation: printed subtrees drive the state machine to [graft]                  *)
(* ================================================================================================ *)
Lemma step_comma (t : arena) f nm ln cm idx stk op : f <> FComment ->
  pstep (mkP t f nm ln cm idx stk op false) ch_comma =
  commit parse_len (mkP t f nm ln cm idx stk op false)
         (fun t' => Running (mkP t' FName None None None None stk op false)).
Proof. destruct f; [reflexivity|reflexivity|congruence]. Qed.

Lemma step_rpar (t : arena) f nm ln cm idx stk op : f <> FComment ->
  pstep (mkP t f nm ln cm idx stk op false) ch_rpar =
  commit parse_len (mkP t f nm ln cm idx stk (op - 1) false)
         (fun t' => match stk with
                    | parent :: rest => Running (mkP t' FName None None None (Some parent) rest (op - 1) false)
                    | [] => Done (Err NoSubtreeParent)
                    end).
Proof. destruct f; [reflexivity|reflexivity|congruence]. Qed.

Lemma step_lpar (t : arena) p stk op : live t p ->
  pstep (st t None (p :: stk) op) ch_lpar = Running (st (new_child t p) None (length t :: p :: stk) (S op)).
Proof.
  intros Hl.
  change (pstep (st t None (p :: stk) op) ch_lpar)
    with (lift_run (add_child t (new_node None None) p None) (fun r =>
            Running (mkP (fst r) FName None None None None (snd r :: p :: stk) (S op) false))).
  rewrite add_child_new by exact Hl. reflexivity.
Qed.

Lemma step_lpar_root op :
  pstep (st [] None [] op) ch_lpar = Running (st [root0] None [0] (S op)).
Proof. reflexivity. Qed.

(* liveness is kept by the construction *)
Lemma live_new_child_q (t : arena) p : live t p -> live (new_child t p) (length t).
Proof. intros Hl. eexists. split; [apply new_child_nth; auto|reflexivity]. Qed.

Lemma live_graft (t : arena) p r : live t p -> live (graft t p r) p.
Proof.
  intros [pn [Hpn Hd]]. rewrite (graft_spec r t p pn Hpn).
  exists (addc pn (length t)). split; [|exact Hd].
  rewrite nth_error_app1 by (rewrite rn_length; apply (nth_Some_lt Hpn)).
  apply nth_rn_eq. apply (nth_Some_lt Hpn).
Qed.

Lemma all_graft_ok cs : Forall graft_ok cs.
Proof. apply Forall_forall. intros; apply graft_spec. Qed.

Lemma live_graft_list (t : arena) q cs : live t q -> live (graft_list q cs t) q.
Proof.
  intros [nq [Hq Hd]]. rewrite (graft_list_spec cs (all_graft_ok cs) t q nq Hq).
  eexists. split.
  - rewrite nth_error_app1 by (rewrite rn_length; apply (nth_Some_lt Hq)).
    apply nth_rn_eq. apply (nth_Some_lt Hq).
  - exact Hd.
Qed.

Definition sim_ok (r : ltree) : Prop :=
  forall (t : arena) p stk op rest, live t p ->
    prun (st t None (p :: stk) op) (lprint r ++ ch_comma :: rest) =
    prun (st (graft t p r) None (p :: stk) op) rest
    /\
    prun (st t None (p :: stk) op) (lprint r ++ ch_rpar :: rest) =
    prun (st (graft t p r) (Some p) stk (op - 1)) rest.

Lemma sim_children q cs :
  Forall (fun c => labels_ok c -> sim_ok c) cs -> Forall labels_ok cs -> cs <> [] ->
  forall (t1 : arena) stk op rest, live t1 q ->
    prun (st t1 None (q :: stk) op) (pdelim cs ++ rest) =
    prun (st (graft_list q cs t1) (Some q) stk (op - 1)) rest.
Proof.
  induction 1 as [|c cs Hc Hcs IH]; intros Hok Hne t1 stk op rest Hl; [congruence|].
  inversion Hok as [|? ? Hokc Hokcs]; subst.
  destruct (Hc Hokc t1 q stk op) with (rest := rest) as [_ Hlast]; [exact Hl|].
  destruct cs as [|c' cs].
  - cbn [pdelim graft_list]. rewrite <- app_assoc. exact Hlast.
  - change (pdelim (c :: c' :: cs)) with (lprint c ++ ch_comma :: pdelim (c' :: cs)).
    rewrite <- app_assoc, <- app_comm_cons.
    destruct (Hc Hokc t1 q stk op (pdelim (c' :: cs) ++ rest) Hl) as [Hmid _].
    rewrite Hmid. cbn [graft_list].
    apply (IH Hokcs); [discriminate|]. apply live_graft; auto.
Qed.

Lemma sim : forall r, labels_ok r -> sim_ok r.
Proof.
  induction r as [nm ln cm cs IH] using ltree_ind'. intros Hok.
  inversion Hok as [? ? ? ? Hnm Hln Hcm Hcs]; subst.
  intros t p stk op rest Hl. rewrite lprint_eq, graft_eq.
  destruct cs as [|c cs'].
  - (* a leaf: the delimiter creates the slot and commits the label *)
    cbn [graft_list]. rewrite !run_label by auto. split.
    + erewrite prun_step; [reflexivity|]. rewrite step_comma by apply lab_field_ok.
      rewrite (commit_new _ _ p stk nm ln cm) by (auto; reflexivity). reflexivity.
    + erewrite prun_step; [reflexivity|]. rewrite step_rpar by apply lab_field_ok.
      rewrite (commit_new _ _ p stk nm ln cm) by (auto; reflexivity). reflexivity.
  - (* an inner node *)
    remember (c :: cs') as cs eqn:Ecs.
    assert (Hne : cs <> []) by (subst; discriminate).
    assert (Hq : live (graft_list (length t) cs (new_child t p)) (length t)).
    { apply live_graft_list. apply live_new_child_q. auto. }
    replace (match cs with [] => label nm ln cm | _ :: _ => ch_lpar :: pdelim cs ++ label nm ln cm end)
      with (ch_lpar :: pdelim cs ++ label nm ln cm) by (subst; reflexivity).
    rewrite <- !app_comm_cons, <- !app_assoc.
    erewrite !prun_step by (apply step_lpar; exact Hl).
    rewrite !(sim_children (length t) cs IH Hcs Hne) by (apply live_new_child_q; auto).
    cbn [Nat.sub]. rewrite Nat.sub_0_r. rewrite !run_label by auto. split.
    + erewrite prun_step; [reflexivity|]. rewrite step_comma by apply lab_field_ok.
      rewrite (commit_idx _ _ (length t) nm ln cm) by (auto; reflexivity). reflexivity.
    + erewrite prun_step; [reflexivity|]. rewrite step_rpar by apply lab_field_ok.
      rewrite (commit_idx _ _ (length t) nm ln cm) by (auto; reflexivity). reflexivity.
Qed.

(* ================================================================================================ *)
(* Part 5: the whole text: from_newick (lprint r ++ ";") = finishing pass on [build r]               *)
(* ================================================================================================ *)
Definition wrap (o : outcome arena) : outcome arena :=
  match o with
  | Ok t' => Ok t'
  | Err _ => Err NwTreeError
  | Panic x => Panic x
  | OutOfFuel => OutOfFuel
  end.

Lemma step_semi_idx (t : arena) f nm ln cm idx stk n :
  f <> FComment -> nth_error t idx = Some n -> ndeleted n = false -> len_ok ln ->
  pstep (mkP t f nm (option_map print_len ln) cm (Some idx) stk 0 false) ch_semi =
  Done (wrap (finish (replace_nth idx (root_label nm ln cm n) t))).
Proof.
  intros Hf Hn Hd Hok.
  assert (E : pstep (mkP t f nm (option_map print_len ln) cm (Some idx) stk 0 false) ch_semi =
    lift_run (get t idx) (fun n0 : node =>
        let n1 := set_ncomment (set_nname n0 nm) cm in
        match (match option_map print_len ln with
               | Some ls => match parse_len ls with Some v => Some (set_npedge n1 (Some v)) | None => None end
               | None => Some n1
               end) with
        | None => Done (Err FloatError)
        | Some n2 =>
            match finish (replace_nth idx n2 t) with
            | Ok t' => Done (Ok t')
            | Err _ => Done (Err NwTreeError)
            | Panic x => Done (Panic x)
            | OutOfFuel => Done OutOfFuel
            end
        end)) by (destruct f; [reflexivity|reflexivity|congruence]).
  rewrite E. unfold get. rewrite Hn, Hd. simpl lift_run. cbv zeta.
  unfold root_label, wrap. destruct ln as [l|]; simpl option_map; cbv iota.
  - simpl in Hok. rewrite (H1 l Hok).
    destruct (finish (replace_nth idx (set_npedge (set_ncomment (set_nname n nm) cm) (Some l)) t)); reflexivity.
  - destruct (finish (replace_nth idx (set_ncomment (set_nname n nm) cm) t)); reflexivity.
Qed.

Lemma step_semi_new f nm (ln : option str) cm : f <> FComment ->
  pstep (mkP [] f nm ln cm None [] 0 false) ch_semi =
  pstep (mkP [root0] f nm ln cm (Some 0) [] 0 false) ch_semi.
Proof. destruct f; [reflexivity|reflexivity|congruence]. Qed.

Lemma live_root0 : live [root0] 0.
Proof. exists root0. split; reflexivity. Qed.

Theorem parse_print_eq r : labels_ok r ->
  from_newick parse_len (lprint r ++ [ch_semi]) = wrap (finish (build r)).
Proof.
  intros Hok. destruct r as [nm ln cm cs].
  inversion Hok as [? ? ? ? Hnm Hln Hcm Hcs]; subst.
  unfold from_newick, p_init. rewrite lprint_eq. destruct cs as [|c cs'].
  - rewrite run_label by auto. erewrite prun_done; [reflexivity|].
    rewrite step_semi_new by apply lab_field_ok.
    rewrite (step_semi_idx [root0] _ nm ln cm 0 [] root0) by (auto using lab_field_ok).
    reflexivity.
  - remember (c :: cs') as cs eqn:Ecs.
    assert (Hne : cs <> []) by (subst; discriminate).
    replace (match cs with [] => label nm ln cm | _ :: _ => ch_lpar :: pdelim cs ++ label nm ln cm end)
      with (ch_lpar :: pdelim cs ++ label nm ln cm) by (subst; reflexivity).
    rewrite <- app_comm_cons, <- app_assoc.
    erewrite prun_step by apply step_lpar_root.
    rewrite (sim_children 0 cs) by
      (auto using live_root0; apply Forall_forall; intros; apply sim; auto).
    cbn [Nat.sub]. rewrite run_label by auto. erewrite prun_done; [reflexivity|].
    destruct (live_graft_list [root0] 0 cs live_root0) as [n [Hn Hd]].
    rewrite (step_semi_idx _ _ nm ln cm 0 [] n) by (auto using lab_field_ok).
    unfold build. rewrite Hn. reflexivity.
Qed.

(* ================================================================================================ *)
(* Part 6: what [build r] looks like: representation with labels, and the finishing pass             *)
(* ================================================================================================ *)

(* SRep t p d sk r : slot (rid sk) of t is the root of a subtree of shape sk (ids included) carrying the
   labels of r; like Rep without the edge-mirror clauses, plus names / lengths / comments *)
Inductive SRep (t : arena) : option nat -> nat -> rtree -> ltree -> Prop :=
| SRep_node : forall p d i n nm ln cm sks cs,
    nth_error t i = Some n -> ndeleted n = false -> nid n = i -> nparent n = p -> ndepth n = d ->
    nname n = nm -> npedge n = ln -> ncomment n = cm -> nchildren n = map rid sks ->
    Forall2 (SRep t (Some i) (S d)) sks cs ->
    SRep t p d (RT i sks) (LT nm ln cm cs).

(* LRep t p d i r : the same without recording ids (they are whatever the arena says) *)
Inductive LRep (t : arena) : option nat -> nat -> nat -> ltree -> Prop :=
| LRep_node : forall p d i n nm ln cm cs,
    nth_error t i = Some n -> ndeleted n = false -> nid n = i -> nparent n = p -> ndepth n = d ->
    nname n = nm -> npedge n = ln -> ncomment n = cm ->
    Forall2 (LRep t (Some i) (S d)) (nchildren n) cs ->
    LRep t p d i (LT nm ln cm cs).

Lemma Forall2_Forall_impl {A B} (R R' : A -> B -> Prop) l l' :
  Forall2 R l l' -> Forall (fun b => forall a, R a b -> R' a b) l' -> Forall2 R' l l'.
Proof. induction 1; intros HF; inversion HF; subst; constructor; auto. Qed.

Lemma Forall2_map_l {A B C} (R : C -> B -> Prop) (f : A -> C) l l' :
  Forall2 (fun a b => R (f a) b) l l' -> Forall2 R (map f l) l'.
Proof. induction 1; simpl; constructor; auto. Qed.

Lemma SRep_LRep (t : arena) : forall r sk p d, SRep t p d sk r -> LRep t p d (rid sk) r.
Proof.
  induction r as [nm ln cm cs IH] using ltree_ind'. intros sk p d H.
  inversion H; subst. simpl. econstructor; eauto.
  match goal with E : nchildren _ = _ |- _ => rewrite E end.
  apply Forall2_map_l. eapply Forall2_Forall_impl; [eassumption|].
  eapply Forall_impl; [|exact IH]. intros c Hc a Ha. apply Hc; auto.
Qed.

Lemma Forall2_Forall_l {A B} (R : A -> B -> Prop) (Q : A -> Prop) l l' :
  Forall2 R l l' -> Forall (fun b => forall a, R a b -> Q a) l' -> Forall Q l.
Proof. induction 1; intros HF; inversion HF; subst; constructor; auto. Qed.

Lemma SRep_Rep0 (t : arena) : forall r sk p d, SRep t p d sk r -> Rep0 t p d sk.
Proof.
  induction r as [nm ln cm cs IH] using ltree_ind'. intros sk p d H.
  inversion H; subst. econstructor; eauto.
  eapply Forall2_Forall_l; [eassumption|].
  eapply Forall_impl; [|exact IH]. intros c Hc a Ha. eapply Hc; eauto.
Qed.

Lemma SRep_transfer (t t' : arena) :
  (forall i n, nth_error t i = Some n -> exists n', nth_error t' i = Some n' /\ same_but_edges n n') ->
  forall r sk p d, SRep t p d sk r -> SRep t' p d sk r.
Proof.
  intros Hs. induction r as [nm ln cm cs IH] using ltree_ind'. intros sk p d H.
  inversion H; subst.
  match goal with Hn : nth_error t _ = Some _ |- _ => destruct (Hs _ _ Hn) as [n' [Hn' Hsame]] end.
  destruct Hsame as (S1 & S2 & S3 & S4 & S5 & S6 & S7 & S8).
  econstructor; try exact Hn'; try congruence.
  eapply Forall2_Forall_impl; [eassumption|].
  eapply Forall_impl; [|exact IH]. intros c Hc a Ha. apply Hc; auto.
Qed.

Lemma SRep_nodes : forall r (pre post : arena) p d,
  SRep (pre ++ nodes_of p d (length pre) r ++ post) p d (skel (length pre) r) r.
Proof.
  induction r as [nm ln cm cs IH] using ltree_ind'. intros pre post p d.
  rewrite nodes_of_eq, skel_eq. rewrite Nat.add_1_r.
  set (k := length pre).
  set (n0 := mkNode k nm p (child_ids (S k) cs) ln cm [] d false).
  apply SRep_node with (n := n0); try reflexivity.
  { rewrite <- app_comm_cons. apply nth_app_mid. }
  replace (pre ++ (n0 :: nodes_list (Some k) (S d) (S k) cs) ++ post)
    with ((pre ++ [n0]) ++ nodes_list (Some k) (S d) (S k) cs ++ post)
    by (rewrite <- app_assoc; reflexivity).
  assert (Hlen : S k = length (pre ++ [n0])) by (rewrite app_length; simpl; unfold k; lia).
  rewrite Hlen. generalize (pre ++ [n0]). clear Hlen. revert post.
  induction IH as [|c cs Hc _ IHcs]; intros post pre'; [constructor|].
  cbn [nodes_list skel_list]. constructor.
  - rewrite <- app_assoc. apply Hc.
  - specialize (IHcs post (pre' ++ nodes_of (Some k) (S d) (length pre') c)).
    rewrite app_length, nodes_of_length, <- app_assoc in IHcs. rewrite <- app_assoc. exact IHcs.
Qed.

Corollary SRep_build r : SRep (build r) None 0 (skel 0 r) r.
Proof.
  rewrite build_spec. pose proof (SRep_nodes r [] [] None 0) as H.
  simpl in H. rewrite app_nil_r in H. exact H.
Qed.

(* ---- Good (ParserProps): ids, liveness, no child-side lengths yet, parents point backwards -------- *)
Definition GoodSeg (k : nat) (l : list node) : Prop :=
  forall j n, nth_error l j = Some n ->
    ndeleted n = false /\ nid n = k + j /\ nedges n = [] /\ (forall p, nparent n = Some p -> p < k + j).

Lemma GoodSeg_app k a b : GoodSeg k a -> GoodSeg (k + length a) b -> GoodSeg k (a ++ b).
Proof.
  intros Ha Hb j n Hn. destruct (Nat.lt_ge_cases j (length a)).
  - rewrite nth_error_app1 in Hn; auto.
  - rewrite nth_error_app2 in Hn by lia. destruct (Hb _ _ Hn) as (A & B & C & D).
    repeat split; auto; try lia. intros p Hp. specialize (D p Hp). lia.
Qed.

Lemma GoodSeg_cons k x l :
  ndeleted x = false -> nid x = k -> nedges x = [] -> (forall p, nparent x = Some p -> p < k) ->
  GoodSeg (S k) l -> GoodSeg k (x :: l).
Proof.
  intros A B C D Hl [|j] n Hn; simpl in Hn.
  - inversion Hn; subst. rewrite Nat.add_0_r. auto.
  - destruct (Hl _ _ Hn) as (A' & B' & C' & D'). repeat split; auto; try lia.
    intros p Hp. specialize (D' p Hp). lia.
Qed.

Lemma nodes_of_good : forall r p d k, (forall p0, p = Some p0 -> p0 < k) -> GoodSeg k (nodes_of p d k r).
Proof.
  induction r as [nm ln cm cs IH] using ltree_ind'. intros p d k Hp.
  rewrite nodes_of_eq. apply GoodSeg_cons; simpl; auto.
  assert (Hk : k < S k) by lia. revert Hk. generalize (S k).
  induction IH as [|c cs Hc _ IHcs]; intros k' Hk.
  - intros [|j] n Hn; discriminate.
  - cbn [nodes_list]. apply GoodSeg_app.
    + apply Hc. intros p0 E. inversion E; subst. lia.
    + rewrite nodes_of_length. apply IHcs. lia.
Qed.

Lemma build_good r : Good (build r).
Proof.
  rewrite build_spec. intros i n Hn.
  apply (nodes_of_good r None 0 0); auto. intros p0 E; discriminate.
Qed.

(* the finishing pass succeeds on Good arenas *)
Lemma finish_ok (t1 : arena) : Good t1 -> exists t', finish t1 = Ok t'.
Proof.
  intros HG. rewrite finish_unfold, (map_nid_seq HG).
  assert (Hgen : forall m k tk, k + m = length t1 -> FinInv t1 k tk ->
                 exists t', foldM fin_step (seq k m) tk = Ok t').
  { induction m as [|m IHm]; intros k tk Hkm HI; simpl; [eauto|].
    assert (Hk : k < length t1) by lia.
    destruct (nth_error_lt_Some _ Hk) as [n Hn].
    destruct HI as [Hlen HI0]. pose proof (conj Hlen HI0 : FinInv t1 k tk) as HI.
    destruct (HI0 _ _ Hn) as [n' [Hn' [Hs _]]].
    destruct (HG _ _ Hn) as (Gd & _ & _ & Gp).
    destruct Hs as (S1 & S2 & S3 & S4 & S5 & S6 & S7 & S8).
    assert (Hstep : exists tk', fin_step tk k = Ok tk').
    { unfold fin_step, get. rewrite Hn'. rewrite S6, Gd. simpl bind.
      destruct (npedge n'); [|eauto]. destruct (nparent n') as [p|] eqn:Ep; [|eauto].
      specialize (Gp _ (eq_sym S2)).
      assert (Hp : p < length t1) by lia.
      destruct (nth_error_lt_Some _ Hp) as [np Hnp].
      destruct (HI0 _ _ Hnp) as [np' [Hnp' [Hsp _]]].
      destruct (HG _ _ Hnp) as (Gdp & _).
      destruct Hsp as (_ & _ & _ & _ & _ & T6 & _).
      unfold upd, get. rewrite Hnp', T6, Gdp. simpl. eauto. }
    destruct Hstep as [tk' Hstep]. rewrite Hstep. simpl bind.
    apply IHm; [lia|]. eapply fin_step_inv; eauto. }
  apply Hgen; [reflexivity|].
  split; auto. intros i n Hn. exists n. split; auto. split; [repeat split; auto|].
  intros c. destruct (HG _ _ Hn) as (_ & _ & -> & _). reflexivity.
Qed.

(* ================================================================================================ *)
(* Part 7: (B) parsing printed text                                                                  *)
(* ================================================================================================ *)
Lemma Rep0_det (t : arena) : forall r1 r2 p d, Rep0 t p d r1 -> Rep0 t p d r2 -> rid r1 = rid r2 -> r1 = r2.
Proof.
  induction r1 as [i cs IH] using rtree_ind'. intros [j cs2] p d HR1 HR2 E.
  simpl in E. subst j.
  inversion HR1 as [p1 d1 i1 n1 cs1 Hn1 Hp1 Hd1 Hc1 HF1]; subst.
  inversion HR2 as [p2 d2 i2 n2 cs2' Hn2 Hp2 Hd2 Hc2 HF2]; subst.
  rewrite Hn1 in Hn2. inversion Hn2; subst n2. clear Hn2.
  assert (Hm : map rid cs = map rid cs2) by congruence.
  f_equal. clear HR1 HR2 Hc1 Hc2 Hp2 Hd2 Hn1.
  revert HF1 HF2. generalize (S (ndepth n1)). intros d'. intros F1 F2. revert cs2 Hm F1 F2.
  induction IH as [|c cs Hc _ IHcs]; intros [|c2 cs2] Hm F1 F2; simpl in Hm; try discriminate; auto.
  inversion Hm. inversion F1; subst. inversion F2; subst. f_equal.
  - eapply Hc; eauto.
  - apply IHcs; auto.
Qed.

Theorem parse_print r : labels_ok r ->
  exists t' : arena,
    from_newick parse_len (lprint r ++ [ch_semi]) = Ok t' /\
    SRep t' None 0 (skel 0 r) r /\
    LRep t' None 0 0 r /\
    Rep t' None 0 0 (skel 0 r) /\
    ids (skel 0 r) = seq 0 (length t') /\
    WF t'.
Proof.
  intros Hok. destruct (finish_ok (build r) (build_good r)) as [t' Hf].
  exists t'. assert (Hp : from_newick parse_len (lprint r ++ [ch_semi]) = Ok t').
  { rewrite parse_print_eq, Hf by auto. reflexivity. }
  destruct (finish_spec (build_good r) Hf) as [Hlen HI].
  assert (HS : SRep t' None 0 (skel 0 r) r).
  { eapply SRep_transfer; [|apply SRep_build]. intros i n Hn.
    destruct (HI _ _ Hn) as [n' [Hn' [Hs _]]]. eauto. }
  pose proof (parse_tree parse_len _ Hp) as HPT.
  destruct HPT as (Hne & Hall & r0 & HR & Hids).
  assert (E : r0 = skel 0 r).
  { eapply Rep0_det; [eapply Rep_Rep0; eauto|eapply SRep_Rep0; eauto|].
    rewrite rid_skel. destruct (ids_seq_root _ _ Hids); auto. }
  subst r0.
  split; auto. split; auto. split.
  { pose proof (SRep_LRep _ _ _ _ _ HS) as H. rewrite rid_skel in H. exact H. }
  split; auto. split; auto.
  apply ParsedTree_WF. split; auto. split; auto. eauto.
Qed.

(* ================================================================================================ *)
(* Part 8: (A) the writer                                                                            *)
(* ================================================================================================ *)
Definition rlabel (nm : option str) (ln : option L) (cm : option str) : rstr :=
  (match nm with Some s => lit s | None => [] end) ++
  (match ln with Some l => [C ch_colon; Lv l] | None => [] end) ++
  (match cm with Some s => [C ch_lbr] ++ lit s ++ [C ch_rbr] | None => [] end).

Fixpoint rprint (r : ltree) : rstr :=
  match r with
  | LT nm ln cm cs =>
      match cs with
      | [] => rlabel nm ln cm
      | _ => [C ch_lpar] ++ join_comma (map rprint cs) ++ [C ch_rpar] ++ rlabel nm ln cm
      end
  end.

Definition flatten (s : rstr) : str :=
  flat_map (fun x => match x with C c => [c] | Lv l => print_len l end) s.

Lemma flatten_app a b : flatten (a ++ b) = flatten a ++ flatten b.
Proof. apply flat_map_app. Qed.
Lemma flatten_lit s : flatten (lit s) = s.
Proof. unfold flatten, lit. induction s; simpl; auto. f_equal; auto. Qed.
Lemma flatten_join l : flatten (join_comma l) = join_c (map flatten l).
Proof.
  induction l as [|x l IH]; [reflexivity|]. destruct l as [|y l]; [reflexivity|].
  change (join_comma (x :: y :: l)) with (x ++ [C ch_comma] ++ join_comma (y :: l)).
  rewrite !flatten_app, IH. reflexivity.
Qed.
Lemma flatten_rlabel nm ln cm : flatten (rlabel nm ln cm) = label nm ln cm.
Proof.
  unfold rlabel, label. rewrite !flatten_app. f_equal; [|f_equal].
  - destruct nm; simpl; auto using flatten_lit.
  - destruct ln; simpl; auto. rewrite app_nil_r. reflexivity.
  - destruct cm; simpl; auto. rewrite flatten_app, flatten_lit. reflexivity.
Qed.

Lemma flatten_rprint : forall r, flatten (rprint r) = lprint r.
Proof.
  induction r as [nm ln cm cs IH] using ltree_ind'.
  destruct cs as [|c cs']; [apply flatten_rlabel|].
  remember (c :: cs') as cs eqn:Ecs.
  replace (rprint (LT nm ln cm cs))
    with ([C ch_lpar] ++ join_comma (map rprint cs) ++ [C ch_rpar] ++ rlabel nm ln cm) by (subst; reflexivity).
  replace (lprint (LT nm ln cm cs))
    with ((ch_lpar :: join_c (map lprint cs) ++ [ch_rpar]) ++ label nm ln cm) by (subst; reflexivity).
  rewrite !flatten_app, flatten_join, flatten_rlabel, map_map.
  rewrite (map_ext_Forall _ _ IH). simpl. rewrite <- app_assoc. reflexivity.
Qed.

Definition lhmax (cs : list ltree) : nat := fold_right (fun c acc => Nat.max (lheight c) acc) 0 cs.
Lemma lheight_eq nm ln cm cs : lheight (LT nm ln cm cs) = S (lhmax cs).
Proof. reflexivity. Qed.
Lemma lhmax_in c cs : In c cs -> lheight c <= lhmax cs.
Proof. induction cs; simpl; intros H; [contradiction|]. destruct H as [->|H]; [lia|]. specialize (IHcs H). lia. Qed.

Lemma mapM_ok {A B C} (g : A -> outcome B) (f : C -> B) l cs :
  Forall2 (fun a c => g a = Ok (f c)) l cs -> mapM g l = Ok (map f cs).
Proof. induction 1; simpl; auto. rewrite H, IHForall2. reflexivity. Qed.

Lemma Forall2_Forall_r2 {A B} (R : A -> B -> Prop) (Q : A -> B -> Prop) l l' :
  Forall2 R l l' -> Forall (fun b => forall a, R a b -> Q a b) l' -> Forall2 Q l l'.
Proof. induction 1; intros HF; inversion HF; subst; constructor; auto. Qed.

Lemma write_sub : forall r (t : arena) p d i, LRep t p d i r ->
  forall fuel, lheight r <= fuel -> to_newick_impl_f fuel t i AllFields = Ok (rprint r).
Proof.
  induction r as [nm ln cm cs IH] using ltree_ind'. intros t p d i HR fuel Hfuel.
  inversion HR; subst. rewrite lheight_eq in Hfuel.
  destruct fuel as [|fuel]; [lia|]. cbn [to_newick_impl_f].
  unfold get. match goal with A : nth_error t _ = Some _, B : ndeleted _ = false |- _ => rewrite A, B end.
  cbn [bind].
  assert (Hlab : node_to_newick AllFields n = rlabel (nname n) (npedge n) (ncomment n)) by reflexivity.
  rewrite Hlab.
  match goal with A : Forall2 _ (nchildren n) cs |- _ => rename A into HF end.
  destruct (nchildren n) as [|a l] eqn:Ech.
  - inversion HF; subst. reflexivity.
  - destruct cs as [|c cs']; [inversion HF|].
    remember (c :: cs') as cs eqn:Ecs. remember (a :: l) as chl eqn:Echl.
    erewrite mapM_ok with (f := rprint) (cs := cs).
    + cbn [bind]. subst cs. reflexivity.
    + eapply Forall2_Forall_r2; [exact HF|].
      apply Forall_forall. intros c0 Hc0 a0 Ha0.
      rewrite Forall_forall in IH. rewrite (IH c0 Hc0 _ _ _ _ Ha0); auto.
      pose proof (lhmax_in _ _ Hc0). lia.
Qed.

(* height bound from the cached depths: the nodes on a root path have pairwise different depths *)
Lemma LRep_height : forall r (t : arena) p d i (S0 : list nat), LRep t p d i r ->
  NoDup S0 -> (forall x, In x S0 -> exists n, nth_error t x = Some n /\ ndepth n < d) ->
  length S0 + lheight r <= length t.
Proof.
  induction r as [nm ln cm cs IH] using ltree_ind'. intros t p d i S0 HR Hnd HS.
  inversion HR; subst. rewrite lheight_eq.
  match goal with A : nth_error t _ = Some _ |- _ => rename A into Hn end.
  assert (Hnotin : ~ In (nid n) S0).
  { intros Hin. destruct (HS _ Hin) as [n' [Hn' Hlt]]. rewrite Hn in Hn'. inversion Hn'; subst. lia. }
  assert (Hnd' : NoDup (nid n :: S0)) by (constructor; auto).
  assert (HS' : forall x, In x (nid n :: S0) -> exists n', nth_error t x = Some n' /\ ndepth n' < S (ndepth n)).
  { intros x [<-|Hx]; [eauto|]. destruct (HS _ Hx) as [n' [A B]]. eauto. }
  assert (Hbase : length (nid n :: S0) <= length t).
  { rewrite <- (seq_length (length t) 0). apply NoDup_incl_length; auto.
    intros x Hx. destruct (HS' _ Hx) as [n' [A _]]. apply in_seq. pose proof (nth_Some_lt A). lia. }
  assert (Hall : Forall (fun c => length (nid n :: S0) + lheight c <= length t) cs).
  { match goal with A : Forall2 _ (nchildren n) cs |- _ => rename A into HF end.
    clear - IH HF Hnd' HS'. induction HF; inversion IH; subst; constructor; eauto. }
  simpl length in *. clear - Hbase Hall.
  induction Hall; simpl; [lia|]. unfold lhmax in *. lia.
Qed.

Lemma flatten_semi r : flatten (rprint r ++ [C ch_semi]) = lprint r ++ [ch_semi].
Proof. rewrite flatten_app, flatten_rprint. reflexivity. Qed.

Theorem write_correct (t : arena) root d r :
  LRep t None d root r -> get_root t = Ok root ->
  to_newick t = Ok (rprint r ++ [C ch_semi]).
Proof.
  intros HR Hroot. unfold to_newick, to_formatted_newick. rewrite Hroot. cbn [bind].
  rewrite (write_sub r t None d root HR).
  - reflexivity.
  - pose proof (LRep_height r t None d root [] HR (NoDup_nil _)) as H.
    simpl in H. unfold fuel_of. specialize (H ltac:(intros x [])). lia.
Qed.

Corollary write_flatten (t : arena) root d r :
  LRep t None d root r -> get_root t = Ok root ->
  exists txt, to_newick t = Ok txt /\ flatten txt = lprint r ++ [ch_semi].
Proof. intros HR Hroot. eexists. split; [eapply write_correct; eauto|apply flatten_semi]. Qed.

Lemma get_root_0 (t : arena) d r : LRep t None d 0 r -> get_root t = Ok 0.
Proof.
  intros HR. inversion HR; subst. destruct t as [|n0 t]; [discriminate|].
  match goal with A : nth_error _ 0 = Some _ |- _ => simpl in A; inversion A; subst end.
  unfold get_root. simpl.
  match goal with A : ndeleted n = false, B : nparent n = None |- _ => unfold is_root; rewrite A, B end.
  simpl. congruence.
Qed.

(* ================================================================================================ *)
(* Part 9: (C) the round trip                                                                        *)
(* ================================================================================================ *)
Theorem round_trip (t : arena) root d r txt :
  LRep t None d root r -> get_root t = Ok root -> labels_ok r ->
  to_newick t = Ok txt ->
  exists t' : arena,
    from_newick parse_len (flatten txt) = Ok t' /\
    LRep t' None 0 0 r /\
    Rep t' None 0 0 (skel 0 r) /\ ids (skel 0 r) = seq 0 (length t') /\ WF t' /\
    to_newick t' = Ok txt.
Proof.
  intros HR Hroot Hok Hw. rewrite (write_correct t root d r HR Hroot) in Hw.
  inversion Hw; subst txt; clear Hw. rewrite flatten_semi.
  destruct (parse_print r Hok) as [t' (Hp & HS & HL & HRep & Hids & HWF)].
  exists t'. repeat (split; auto).
  apply (write_correct t' 0 0 r HL). eapply get_root_0; eauto.
Qed.

(* ================================================================================================ *)
(* Part 10: links with the bridge of Spec.v (Rep / WF)                                               *)
(* ================================================================================================ *)

(* an arena represents at most one labelled tree *)
Lemma LRep_det (t : arena) : forall r1 r2 p d i, LRep t p d i r1 -> LRep t p d i r2 -> r1 = r2.
Proof.
  induction r1 as [nm ln cm cs IH] using ltree_ind'. intros r2 p d i HR1 HR2.
  inversion HR1 as [p1 d1 i1 n1 nm1 ln1 cm1 cs1 Hn1 ? ? ? ? ? ? ? HF1]; subst.
  inversion HR2 as [p2 d2 i2 n2 nm2 ln2 cm2 cs2 Hn2 ? ? ? ? ? ? ? HF2]; subst.
  rewrite Hn1 in Hn2. inversion Hn2; subst n2. f_equal.
  clear HR1 HR2 Hn1 Hn2.
  revert cs2 HF2. induction HF1 as [|a c l cs Hac _ IHF]; intros cs2 HF2; inversion HF2; subst; auto.
  inversion IH; subst. f_equal; eauto.
Qed.

(* the labels that an arena attaches to a rose tree of ids *)
Fixpoint decorate (t : arena) (sk : rtree) : ltree :=
  match sk with
  | RT i cs =>
      match nth_error t i with
      | Some n => LT (nname n) (npedge n) (ncomment n) (map (decorate t) cs)
      | None => LT None None None (map (decorate t) cs)
      end
  end.

Lemma Forall2_map_r {A B C} (R : A -> C -> Prop) (f : B -> C) l l' :
  Forall2 (fun a b => R a (f b)) l l' -> Forall2 R l (map f l').
Proof. induction 1; simpl; constructor; auto. Qed.

Lemma Rep_LRep (t : arena) : forall sk p d i, Rep t p d i sk -> LRep t p d i (decorate t sk).
Proof.
  induction sk as [j cs IH] using rtree_ind'. intros p d i HR.
  inversion HR as [p1 d1 i1 n cs1 Hn Hd Hid Hp Hdp HF He1 He2]; subst.
  simpl. rewrite Hn. econstructor; eauto.
  apply Forall2_map_r. eapply Forall2_Forall_r2; [exact HF|].
  eapply Forall_impl; [|exact IH]. intros c Hc a Ha. apply Hc; auto.
Qed.

Lemma Rep_parent_cases (t : arena) : forall r p d i, Rep t p d i r ->
  forall j n, In j (ids r) -> nth_error t j = Some n -> (j = i /\ nparent n = p) \/ exists q, nparent n = Some q.
Proof.
  induction r as [k cs IH] using rtree_ind'. intros p d i HR j n Hj Hnj.
  inversion HR as [p1 d1 i1 n0 cs1 Hn Hd Hid Hp Hdp HF He1 He2]; subst.
  destruct Hj as [<-|Hj].
  - left. rewrite Hn in Hnj. inversion Hnj; subst. auto.
  - right. apply in_flat_map in Hj. destruct Hj as [c [Hc Hj]].
    clear He1 He2 Hn HR. induction HF as [|a c0 l cs0 Hac _ IHF]; [contradiction|].
    inversion IH as [|? ? Hc0 Hcs0]; subst. destruct Hc as [->|Hc].
    + destruct (Hc0 _ _ _ Hac j n Hj Hnj) as [[_ E]|E]; eauto.
    + apply IHF; auto.
Qed.

Lemma get_root_Rep (t : arena) root d r :
  Rep t None d root r -> (forall i, live t i -> In i (ids r)) -> get_root t = Ok root.
Proof.
  intros HR Hlive. pose proof HR as HR'.
  inversion HR as [p1 d1 i1 n0 cs1 Hn Hd Hid Hp Hdp HF He1 He2]; subst.
  unfold get_root.
  set (f := fun n : node => negb (ndeleted n) && is_root n).
  assert (Hin0 : In n0 (filter f t)).
  { apply filter_In. split; [eapply nth_error_In; eauto|]. unfold f, is_root. rewrite Hd, Hp. reflexivity. }
  destruct (filter f t) as [|m rest] eqn:EF; [contradiction|].
  assert (Hm : In m (filter f t)) by (rewrite EF; left; auto).
  apply filter_In in Hm. destruct Hm as [Hmt Hfm].
  apply In_nth_error in Hmt. destruct Hmt as [j Hj].
  unfold f in Hfm. apply andb_true_iff in Hfm. destruct Hfm as [Hdel Hroot].
  apply negb_true_iff in Hdel.
  assert (Hjin : In j (ids (RT (nid n0) cs1))) by (apply Hlive; exists m; auto).
  destruct (Rep_parent_cases t _ _ _ _ HR' j m Hjin Hj) as [[E _]|[q E]].
  - subst j. rewrite Hn in Hj. inversion Hj; subst. reflexivity.
  - unfold is_root in Hroot. rewrite E in Hroot. discriminate.
Qed.

(* the round trip for any well-formed arena: the labels are read off the arena *)
Theorem round_trip_WF (t : arena) root sk txt :
  Rep t None 0 root sk -> (forall i, live t i -> In i (ids sk)) ->
  labels_ok (decorate t sk) ->
  to_newick t = Ok txt ->
  exists t' : arena,
    from_newick parse_len (flatten txt) = Ok t' /\
    LRep t' None 0 0 (decorate t sk) /\
    Rep t' None 0 0 (skel 0 (decorate t sk)) /\
    ids (skel 0 (decorate t sk)) = seq 0 (length t') /\ WF t' /\
    to_newick t' = Ok txt.
Proof.
  intros HR Hlive Hok Hw.
  eapply round_trip; eauto using Rep_LRep, get_root_Rep.
Qed.

(* ---- the plain case: names without metacharacters --------------------------------------------------- *)
Definition name_plain (nm : option str) : Prop :=
  match nm with None => True | Some s => s <> [] /\ Forall safe_char s end.
Inductive labels_plain : ltree -> Prop :=
| labels_plain_node nm ln cm cs :
    name_plain nm -> len_ok ln -> comment_ok cm -> Forall labels_plain cs -> labels_plain (LT nm ln cm cs).

Lemma labels_plain_ok : forall r, labels_plain r -> labels_ok r.
Proof.
  induction r as [nm ln cm cs IH] using ltree_ind'. intros H.
  inversion H as [? ? ? ? Hnm Hln Hcm Hcs]; subst. constructor; auto.
  - destruct nm as [x|]; simpl in *; auto. destruct Hnm. split; auto. apply name_okb_safe; auto.
  - rewrite Forall_forall in *. auto.
Qed.

End RoundTrip.

Arguments LT {L} name len comment ch.
Arguments lprint {L} print_len r.
Arguments rprint {L} r.
Arguments flatten {L} print_len s.
Arguments labels_ok {L} ok_len _.
Arguments labels_plain {L} ok_len _.
Arguments LRep {L} t _ _ _ _.
Arguments SRep {L} t _ _ _ _.
Arguments skel {L} k r.
Arguments decorate {L} t sk.
Arguments lsize {L} r.

(* ================================================================================================ *)
(* Part 11: the hypotheses are satisfiable; concrete instances                                       *)
(* ================================================================================================ *)
Module Example.

Definition pl (b : bool) : str := if b then [49%N] else [48%N].       (* "1" / "0" *)
Definition ps (s : str) : option bool :=
  if str_eqb s [49%N] then Some true else if str_eqb s [48%N] then Some false else None.
Definition okl (_ : bool) : Prop := True.

Lemma ex_H1 : forall l, okl l -> ps (pl l) = Some l.
Proof. intros [|] _; reflexivity. Qed.
Lemma ex_H2 : forall l, pl l <> [] /\ Forall safe_char (pl l).
Proof. intros [|]; (split; [discriminate|repeat constructor]). Qed.

(* (A:1,:0)R[c];  in an arena whose slot 0 is a tombstone and whose root is slot 2 *)
Definition r_ex : ltree bool :=
  LT (Some [82%N]) None (Some [99%N])
     [LT (Some [65%N]) (Some true) None []; LT None (Some false) None []].
Definition t_ex : @arena bool :=
  [ tombstone;
    mkNode 1 (Some [65%N]) (Some 2) [] (Some true) None [] 1 false;
    mkNode 2 (Some [82%N]) None [1; 3] None (Some [99%N]) [(1, true); (3, false)] 0 false;
    mkNode 3 None (Some 2) [] (Some false) None [] 1 false ].

Lemma ex_labels : labels_ok okl r_ex.
Proof.
  repeat constructor; simpl; try discriminate; try (intros [E|[]]; discriminate).
Qed.
Lemma ex_LRep : LRep t_ex None 0 2 r_ex.
Proof.
  eapply LRep_node with (n := mkNode 2 (Some [82%N]) None [1; 3] None (Some [99%N]) [(1, true); (3, false)] 0 false);
    try reflexivity.
  constructor; [|constructor; [|constructor]].
  - eapply LRep_node with (n := mkNode 1 (Some [65%N]) (Some 2) [] (Some true) None [] 1 false);
      try reflexivity. constructor.
  - eapply LRep_node with (n := mkNode 3 None (Some 2) [] (Some false) None [] 1 false);
      try reflexivity. constructor.
Qed.
Lemma ex_root : get_root t_ex = Ok 2.
Proof. reflexivity. Qed.
Lemma ex_text : to_newick t_ex = Ok (rprint r_ex ++ [C ch_semi]).
Proof. reflexivity. Qed.

(* the round trip theorem applies *)
Example ex_round_trip :
  exists t' : @arena bool,
    from_newick ps [40;65;58;49;44;58;48;41;82;91;99;93;59]%N = Ok t' /\
    LRep t' None 0 0 r_ex /\ Rep t' None 0 0 (skel 0 r_ex) /\ ids (skel 0 r_ex) = seq 0 (length t') /\
    WF t' /\ to_newick t' = Ok (rprint r_ex ++ [C ch_semi]).
Proof.
  exact (round_trip bool pl ps okl ex_H1 ex_H2 t_ex 2 0 r_ex _ ex_LRep ex_root ex_labels ex_text).
Qed.

(* and the parser model indeed computes that arena (lengths mirrored by the finishing pass) *)
Example ex_computed :
  from_newick ps [40;65;58;49;44;58;48;41;82;91;99;93;59]%N =
  Ok [ mkNode 0 (Some [82%N]) None [1; 2] None (Some [99%N]) [(1, true); (2, false)] 0 false;
       mkNode 1 (Some [65%N]) (Some 0) [] (Some true) None [] 1 false;
       mkNode 2 None (Some 0) [] (Some false) None [] 1 false ].
Proof. vm_compute. reflexivity. Qed.

(* a nested tree with a unary node, unnamed nodes, a root length and a verbatim quoted label
   containing metacharacters:  (("a(,) b":1)[x y],B)R:0;  *)
Definition r_ex2 : ltree bool :=
  LT (Some [82%N]) (Some false) None
     [ LT None None (Some [120;32;121]%N)
          [ LT (Some [34;97;40;44;41;32;98;34]%N) (Some true) None [] ];
       LT (Some [66%N]) None None [] ].
Lemma ex_labels2 : labels_ok okl r_ex2.
Proof.
  repeat constructor; simpl; try discriminate;
    try (intros H; repeat (destruct H as [H|H]; [discriminate|]); exact H).
Qed.
Example ex_parse2 :
  exists t' : @arena bool,
    from_newick ps (lprint pl r_ex2 ++ [ch_semi]) = Ok t' /\
    LRep t' None 0 0 r_ex2 /\ length t' = 4.
Proof.
  destruct (parse_print bool pl ps okl ex_H1 ex_H2 r_ex2 ex_labels2) as [t' (A & _ & B & _ & C & _)].
  exists t'. split; auto. split; auto.
  apply (f_equal (@length nat)) in C. rewrite seq_length in C. rewrite <- C. reflexivity.
Qed.

End Example.

Print Assumptions parse_print_eq.
Print Assumptions parse_print.
Print Assumptions write_correct.
Print Assumptions write_flatten.
Print Assumptions round_trip.
Print Assumptions round_trip_WF.
Print Assumptions labels_plain_ok.
Print Assumptions Example.ex_round_trip.
Print Assumptions Example.ex_parse2.
